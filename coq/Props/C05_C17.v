(* C05 combined with C17: no hypothesis about blend is left for files whose layers use the
   fifteen non-HSL blend modes.  (Depends on Proofs/BlendLaws.v.) *)
From Ase Require Import Base.Prelude Model.Dump Proofs.NoPanicApi Proofs.RenderTotal.

Theorem C05_frame_image_plain : forall (inflate : list Z -> Z -> zres),
  (forall z n out, inflate z n = ZOk out -> Forall is_byte out) ->
  forall (bs : list Z) (f : file),
  Forall is_byte bs -> load inflate bs = Ok f ->
  (forall i l, aget (f_layers f) i = Some l -> In (l_blend l) [0; 1; 2; 3; 4; 5; 6; 7; 8; 9; 10; 11; 16; 17; 18]) ->
  forall fr, 0 <= fr < num_frames f ->
    exists img, frame_image f fr = Ok img /\ (iw img = f_width f /\ ih img = f_height f) /\
                forall x y, pix_wf (img_get img x y).
Proof. exact plain_frame_image. Qed.
Print Assumptions C05_frame_image_plain.

Theorem C05_cel_image_plain : forall (inflate : list Z -> Z -> zres),
  (forall z n out, inflate z n = ZOk out -> Forall is_byte out) ->
  forall (bs : list Z) (f : file),
  Forall is_byte bs -> load inflate bs = Ok f ->
  (forall i l, aget (f_layers f) i = Some l -> In (l_blend l) [0; 1; 2; 3; 4; 5; 6; 7; 8; 9; 10; 11; 16; 17; 18]) ->
  forall fr l, 0 <= fr < num_frames f ->
    exists img, cel_image f (fr, l) = Ok img /\ (iw img = f_width f /\ ih img = f_height f) /\
                forall x y, pix_wf (img_get img x y).
Proof. exact plain_cel_image. Qed.
Print Assumptions C05_cel_image_plain.

(* the whole public API walk of Model/Dump.v returns: no `99` line in the observation *)
Theorem C05_walk_plain : forall (inflate : list Z -> Z -> zres),
  (forall z n out, inflate z n = ZOk out -> Forall is_byte out) ->
  forall (bs : list Z) (f : file),
  Forall is_byte bs -> load inflate bs = Ok f ->
  (forall i l, aget (f_layers f) i = Some l -> In (l_blend l) [0; 1; 2; 3; 4; 5; 6; 7; 8; 9; 10; 11; 16; 17; 18]) ->
  forall o bit,
  (forall m, o_max_frames o = Some m -> 0 <= m) /\ (forall m, o_max_layers o = Some m -> 0 <= m) ->
  exists ls, section f o bit = Ok ls.
Proof. exact plain_walk. Qed.
Print Assumptions C05_walk_plain.
