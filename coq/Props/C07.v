(* C07: observationally neutral encoding choices do not change the result.
   Every theorem compares two encodings that differ in one choice.  Levels: `load` on files
   (header ++ frames), `assemble` on framed chunks, `process_chunk` (the dispatcher of
   parse_frame) and the chunk decoders.  Encoders, junk parameters, wf_* predicates:
   Spec/EncodeChunks.v; enc_frame_hdr, enc_chunk, enc_frame, wf_frame, wf_chunk, set_ratio,
   square_ratio, same_header_fields, inflate_ignores_tail, pal_after: Proofs/Neutral.v.
   In the file-level theorems F is a byte string that parses as exactly j frames (the frames
   before the one that is changed) and `rest` is everything after that frame. *)
From Ase Require Import Model.Validate.
From Ase Require Import Spec.EncodeChunks.
From Ase Require Import Spec.Framing.
From Ase Require Import Proofs.ITLemmas.
From Ase Require Import Proofs.Neutral.
From Ase Require Import Proofs.NeutralExamples.
From Ase Require Import Model.Render.
From Ase Require Import Proofs.Layers.
From Ase Require Import Proofs.RenderFrame.

(* ================= bytes after the last frame ================= *)

Theorem C07_trailer :
  forall (inflate : list Z -> Z -> zres) (bs : list Z) (f : file) (rest tail1 tail2 : list Z),
    load_rest inflate bs = Ok (f, rest) ->
    load inflate (firstn (length bs - length rest) bs ++ tail1)
    = load inflate (firstn (length bs - length rest) bs ++ tail2).
Proof. exact trailer_neutral. Qed.
Print Assumptions C07_trailer.

Theorem C07_trailer_exact :
  forall (inflate : list Z -> Z -> zres) (bs : list Z) (f : file) (tail1 tail2 : list Z),
    load_rest inflate bs = Ok (f, []) ->
    load inflate (bs ++ tail1) = Ok f /\ load inflate (bs ++ tail2) = Ok f.
Proof. exact trailer_neutral_exact. Qed.
Print Assumptions C07_trailer_exact.

(* ================= ignorable chunks: cel extra, mask, path ================= *)

Theorem C07_ignorable_chunk :
  forall (inflate : list Z -> Z -> zres) (fmt : pixfmt) (fid : Z) (p : pinfo) (ty : Z) (data : list Z),
    ty = 8198 \/ ty = 8214 \/ ty = 8215 ->
    process_chunk inflate fmt fid p (ty, data) = Ok p.
Proof. exact process_ignorable. Qed.
Print Assumptions C07_ignorable_chunk.

(* anywhere in a frame's chunk list *)
Theorem C07_ignorable_chunk_list :
  forall (inflate : list Z -> Z -> zres) (fmt : pixfmt) (fid ty : Z) (data : list Z)
         (pre post : list (Z * list Z)) (p : pinfo),
    ty = 8198 \/ ty = 8214 \/ ty = 8215 ->
    rfold (process_chunk inflate fmt fid) (pre ++ (ty, data) :: post) p
    = rfold (process_chunk inflate fmt fid) (pre ++ post) p.
Proof. exact ignorable_rfold. Qed.
Print Assumptions C07_ignorable_chunk_list.

(* in any frame of a file, at assembly level *)
Theorem C07_ignorable_chunk_assemble :
  forall (inflate : list Z -> Z -> zres) (fmt : pixfmt) (n d ty : Z) (data : list Z)
         (fpre fpost : list rawframe) (dur : Z) (pre post : list rawchunk),
    ty = 8198 \/ ty = 8214 \/ ty = 8215 ->
    assemble inflate fmt n d (fpre ++ (dur, pre ++ (ty, data) :: post) :: fpost)
    = assemble inflate fmt n d (fpre ++ (dur, pre ++ post) :: fpost).
Proof. exact ignorable_assemble. Qed.
Print Assumptions C07_ignorable_chunk_assemble.

(* two byte strings whose framing differs by such a chunk load as the same sprite *)
Theorem C07_ignorable_chunk_load :
  forall (inflate : list Z -> Z -> zres) (bs1 bs2 : list Z) (rh : rawheader) (rest1 rest2 : list Z)
         (ty : Z) (data : list Z) (fpre fpost : list rawframe) (dur : Z) (pre post : list rawchunk),
    ty = 8198 \/ ty = 8214 \/ ty = 8215 ->
    run framing bs1 = Ok ((rh, fpre ++ (dur, pre ++ (ty, data) :: post) :: fpost), rest1) ->
    run framing bs2 = Ok ((rh, fpre ++ (dur, pre ++ post) :: fpost), rest2) ->
    forall f : file, load inflate bs1 = Ok f <-> load inflate bs2 = Ok f.
Proof. exact ignorable_load. Qed.
Print Assumptions C07_ignorable_chunk_load.

(* on the bytes: the frame with the chunk (its header announcing one chunk more and a larger
   size) and the frame without it *)
Theorem C07_ignorable_chunk_file :
  forall (inflate : list Z -> Z -> zres) (h : hfields) (a b c d g r : list Z) (fmt : pixfmt)
         (F : list Z) (j : nat) (st : pinfo * Z) (dur nb1 old1 : Z) (rsv1 : list Z) (new1 nb2 old2 : Z)
         (rsv2 : list Z) (new2 ty : Z) (data : list Z) (pre post : list rawchunk) (rest : list Z),
    wf_header h -> wf_header_junk a b c d g r -> header_fmt h = Some fmt ->
    run_times j (parse_frames_step inflate fmt) (pinfo_new (hf_frames h) (hf_default_time h), 0) F = Ok (st, []) ->
    (j < Z.to_nat (hf_frames h))%nat ->
    wf_frame nb1 old1 new1 rsv1 (pre ++ (ty, data) :: post) -> wf_frame nb2 old2 new2 rsv2 (pre ++ post) ->
    ty = 8198 \/ ty = 8214 \/ ty = 8215 ->
    load inflate (enc_header h a b c d g r ++ F ++ enc_frame nb1 old1 dur rsv1 new1 (pre ++ (ty, data) :: post) ++ rest)
    = load inflate (enc_header h a b c d g r ++ F ++ enc_frame nb2 old2 dur rsv2 new2 (pre ++ post) ++ rest).
Proof. exact ignorable_chunk_file. Qed.
Print Assumptions C07_ignorable_chunk_file.

(* enc_frame is what the framing layer reads back *)
Theorem C07_frame_framing :
  forall (nb old dur : Z) (rsv : list Z) (new : Z) (chunks : list rawchunk) (t : list Z),
    wf_frame nb old new rsv chunks ->
    run frame_chunks (enc_frame nb old dur rsv new chunks ++ t) = Ok ((dur, chunks), t).
Proof. exact frame_chunks_enc_frame. Qed.
Print Assumptions C07_frame_framing.

(* ================= colour profile: none or sRGB ================= *)

Theorem C07_color_profile_chunk :
  forall (inflate : list Z -> Z -> zres) (ty flags : Z) (gamma rsv t : list Z),
    wf_color_profile ty flags -> junk 4 gamma -> junk 8 rsv ->
    forall (fmt : pixfmt) (fid : Z) (p : pinfo),
      process_chunk inflate fmt fid p (8199, enc_color_profile ty flags gamma rsv ++ t) = Ok p.
Proof. exact color_profile_neutral. Qed.
Print Assumptions C07_color_profile_chunk.

Theorem C07_color_profile_chunk_list :
  forall (inflate : list Z -> Z -> zres) (fmt : pixfmt) (fid ty flags : Z) (gamma rsv t : list Z)
         (pre post : list (Z * list Z)) (p : pinfo),
    wf_color_profile ty flags -> junk 4 gamma -> junk 8 rsv ->
    rfold (process_chunk inflate fmt fid) (pre ++ (8199, enc_color_profile ty flags gamma rsv ++ t) :: post) p
    = rfold (process_chunk inflate fmt fid) (pre ++ post) p.
Proof. exact color_profile_rfold. Qed.
Print Assumptions C07_color_profile_chunk_list.

Theorem C07_color_profile_chunk_assemble :
  forall (inflate : list Z -> Z -> zres) (fmt : pixfmt) (n d ty flags : Z) (gamma rsv t : list Z)
         (fpre fpost : list rawframe) (dur : Z) (pre post : list rawchunk),
    wf_color_profile ty flags -> junk 4 gamma -> junk 8 rsv ->
    assemble inflate fmt n d (fpre ++ (dur, pre ++ (8199, enc_color_profile ty flags gamma rsv ++ t) :: post) :: fpost)
    = assemble inflate fmt n d (fpre ++ (dur, pre ++ post) :: fpost).
Proof. exact color_profile_assemble. Qed.
Print Assumptions C07_color_profile_chunk_assemble.

Theorem C07_color_profile_chunk_file :
  forall (inflate : list Z -> Z -> zres) (h : hfields) (a b c d g r : list Z) (fmt : pixfmt)
         (F : list Z) (j : nat) (st : pinfo * Z) (dur nb1 old1 : Z) (rsv1 : list Z) (new1 nb2 old2 : Z)
         (rsv2 : list Z) (new2 ty flags : Z) (gamma rsv t : list Z) (pre post : list rawchunk) (rest : list Z),
    wf_header h -> wf_header_junk a b c d g r -> header_fmt h = Some fmt ->
    run_times j (parse_frames_step inflate fmt) (pinfo_new (hf_frames h) (hf_default_time h), 0) F = Ok (st, []) ->
    (j < Z.to_nat (hf_frames h))%nat ->
    wf_frame nb1 old1 new1 rsv1 (pre ++ (8199, enc_color_profile ty flags gamma rsv ++ t) :: post) ->
    wf_frame nb2 old2 new2 rsv2 (pre ++ post) ->
    wf_color_profile ty flags -> junk 4 gamma -> junk 8 rsv ->
    load inflate (enc_header h a b c d g r ++ F
                  ++ enc_frame nb1 old1 dur rsv1 new1 (pre ++ (8199, enc_color_profile ty flags gamma rsv ++ t) :: post) ++ rest)
    = load inflate (enc_header h a b c d g r ++ F ++ enc_frame nb2 old2 dur rsv2 new2 (pre ++ post) ++ rest).
Proof. exact color_profile_chunk_file. Qed.
Print Assumptions C07_color_profile_chunk_file.

(* ================= bytes at the end of a chunk ================= *)

(* every decoder that is a reader tree *)
Theorem C07_chunk_tail :
  forall (A : Type) (dec : IT A) (data : list Z) (a : A) (tail : list Z),
    run_payload dec data = Ok a -> run_payload dec (data ++ tail) = Ok a.
Proof. exact @run_payload_app. Qed.
Print Assumptions C07_chunk_tail.

(* every chunk kind that does not call the decompressor *)
Theorem C07_chunk_tail_plain :
  forall (inflate : list Z -> Z -> zres) (fmt : pixfmt) (fid : Z) (p : pinfo) (ty : Z) (data tail : list Z) (p' : pinfo),
    ty <> 8197 -> ty <> 8227 ->
    process_chunk inflate fmt fid p (ty, data) = Ok p' ->
    process_chunk inflate fmt fid p (ty, data ++ tail) = Ok p'.
Proof. exact process_chunk_tail_plain. Qed.
Print Assumptions C07_chunk_tail_plain.

(* raw and linked cels (cel_type_of reads the type field of the cel head) *)
Theorem C07_chunk_tail_cel_uncompressed :
  forall (inflate : list Z -> Z -> zres) (fmt : pixfmt) (fid : Z) (p : pinfo) (data tail : list Z) (ct : Z) (p' : pinfo),
    cel_type_of data = Some ct -> ct <> 2 -> ct <> 3 ->
    process_chunk inflate fmt fid p (8197, data) = Ok p' ->
    process_chunk inflate fmt fid p (8197, data ++ tail) = Ok p'.
Proof. exact process_cel_tail_uncompressed. Qed.
Print Assumptions C07_chunk_tail_cel_uncompressed.

(* every chunk kind, for a decompressor that ignores what follows the stream (a premise, not
   an axiom; `inflate` is a parameter of the whole model) *)
Theorem C07_chunk_tail_all :
  forall (inflate : list Z -> Z -> zres) (fmt : pixfmt) (fid : Z) (p : pinfo) (ty : Z) (data tail : list Z) (p' : pinfo),
    (forall (z t : list Z) (n : Z) (out : list Z), inflate z n = ZOk out -> inflate (z ++ t) n = ZOk out) ->
    process_chunk inflate fmt fid p (ty, data) = Ok p' ->
    process_chunk inflate fmt fid p (ty, data ++ tail) = Ok p'.
Proof. exact process_chunk_tail. Qed.
Print Assumptions C07_chunk_tail_all.

Theorem C07_chunk_tail_cel :
  forall (inflate : list Z -> Z -> zres) (fmt : pixfmt) (data tail : list Z) (c : cel rawpixels),
    (forall (z t : list Z) (n : Z) (out : list Z), inflate z n = ZOk out -> inflate (z ++ t) n = ZOk out) ->
    dec_cel inflate fmt data = Ok c -> dec_cel inflate fmt (data ++ tail) = Ok c.
Proof. exact dec_cel_tail. Qed.
Print Assumptions C07_chunk_tail_cel.

Theorem C07_chunk_tail_tileset :
  forall (inflate : list Z -> Z -> zres) (fmt : pixfmt) (data tail : list Z) (ts : tileset rawpixels),
    (forall (z t : list Z) (n : Z) (out : list Z), inflate z n = ZOk out -> inflate (z ++ t) n = ZOk out) ->
    dec_tileset inflate fmt data = Ok ts -> dec_tileset inflate fmt (data ++ tail) = Ok ts.
Proof. exact dec_tileset_tail. Qed.
Print Assumptions C07_chunk_tail_tileset.

Theorem C07_chunk_tail_list :
  forall (inflate : list Z -> Z -> zres) (fmt : pixfmt) (fid ty : Z) (data tail : list Z)
         (pre post : list (Z * list Z)) (p p' : pinfo),
    (forall (z t : list Z) (n : Z) (out : list Z), inflate z n = ZOk out -> inflate (z ++ t) n = ZOk out) ->
    rfold (process_chunk inflate fmt fid) (pre ++ (ty, data) :: post) p = Ok p' ->
    rfold (process_chunk inflate fmt fid) (pre ++ (ty, data ++ tail) :: post) p = Ok p'.
Proof. exact chunk_tail_rfold. Qed.
Print Assumptions C07_chunk_tail_list.

Theorem C07_chunk_tail_assemble :
  forall (inflate : list Z -> Z -> zres) (fmt : pixfmt) (n d ty : Z) (data tail : list Z)
         (fpre fpost : list rawframe) (dur : Z) (pre post : list rawchunk) (p : pinfo),
    (forall (z t : list Z) (n : Z) (out : list Z), inflate z n = ZOk out -> inflate (z ++ t) n = ZOk out) ->
    assemble inflate fmt n d (fpre ++ (dur, pre ++ (ty, data) :: post) :: fpost) = Ok p ->
    assemble inflate fmt n d (fpre ++ (dur, pre ++ (ty, data ++ tail) :: post) :: fpost) = Ok p.
Proof. exact chunk_tail_assemble. Qed.
Print Assumptions C07_chunk_tail_assemble.

Theorem C07_chunk_tail_file :
  forall (inflate : list Z -> Z -> zres) (h : hfields) (a b c d g r : list Z) (fmt : pixfmt)
         (F : list Z) (j : nat) (st : pinfo * Z) (dur nb1 old1 : Z) (rsv1 : list Z) (new1 nb2 old2 : Z)
         (rsv2 : list Z) (new2 ty : Z) (data tail : list Z) (pre post : list rawchunk) (rest : list Z) (f : file),
    wf_header h -> wf_header_junk a b c d g r -> header_fmt h = Some fmt ->
    run_times j (parse_frames_step inflate fmt) (pinfo_new (hf_frames h) (hf_default_time h), 0) F = Ok (st, []) ->
    (j < Z.to_nat (hf_frames h))%nat ->
    wf_frame nb1 old1 new1 rsv1 (pre ++ (ty, data) :: post) ->
    wf_frame nb2 old2 new2 rsv2 (pre ++ (ty, data ++ tail) :: post) ->
    (forall (z t : list Z) (n : Z) (out : list Z), inflate z n = ZOk out -> inflate (z ++ t) n = ZOk out) ->
    load inflate (enc_header h a b c d g r ++ F ++ enc_frame nb1 old1 dur rsv1 new1 (pre ++ (ty, data) :: post) ++ rest) = Ok f ->
    load inflate (enc_header h a b c d g r ++ F ++ enc_frame nb2 old2 dur rsv2 new2 (pre ++ (ty, data ++ tail) :: post) ++ rest) = Ok f.
Proof. exact chunk_tail_file. Qed.
Print Assumptions C07_chunk_tail_file.

(* the premise can be met: a decompressor (two stream formats) that satisfies it *)
Theorem C07_chunk_tail_premise_met :
  forall (z t : list Z) (n : Z) (out : list Z), toy_inflate z n = ZOk out -> toy_inflate (z ++ t) n = ZOk out.
Proof. exact toy_inflate_ignores_tail. Qed.
Print Assumptions C07_chunk_tail_premise_met.

(* ================= unused fields ================= *)

(* layer: flag bits 7..15, default size, reserved bytes (and the chunk tail) *)
Theorem C07_unused_layer :
  forall (l : layer) (fw1 fw2 : Z) (d1 d2 r1 r2 t1 t2 : list Z),
    wf_layer l fw1 -> wf_layer l fw2 -> junk 4 d1 -> junk 4 d2 -> junk 3 r1 -> junk 3 r2 ->
    run_payload dec_layer (enc_layer l fw1 d1 r1 ++ t1) = run_payload dec_layer (enc_layer l fw2 d2 r2 ++ t2).
Proof. exact layer_junk. Qed.
Print Assumptions C07_unused_layer.

Theorem C07_unused_layer_process :
  forall (inflate : list Z -> Z -> zres) (fmt : pixfmt) (fid : Z) (p : pinfo)
         (l : layer) (fw1 fw2 : Z) (d1 d2 r1 r2 t1 t2 : list Z),
    wf_layer l fw1 -> wf_layer l fw2 -> junk 4 d1 -> junk 4 d2 -> junk 3 r1 -> junk 3 r2 ->
    process_chunk inflate fmt fid p (8196, enc_layer l fw1 d1 r1 ++ t1)
    = process_chunk inflate fmt fid p (8196, enc_layer l fw2 d2 r2 ++ t2).
Proof. exact process_layer_junk. Qed.
Print Assumptions C07_unused_layer_process.

(* tags: chunk reserved bytes; per tag the reserved bytes and the colour *)
Theorem C07_unused_tags :
  forall (ts1 ts2 : list (tag * list Z)) (r1 r2 t1 t2 : list Z),
    wf_tags ts1 -> wf_tags ts2 -> map fst ts1 = map fst ts2 -> junk 8 r1 -> junk 8 r2 ->
    run_payload dec_tags (enc_tags ts1 r1 ++ t1) = run_payload dec_tags (enc_tags ts2 r2 ++ t2).
Proof. exact tags_junk. Qed.
Print Assumptions C07_unused_tags.

Theorem C07_unused_tags_process :
  forall (inflate : list Z -> Z -> zres) (fmt : pixfmt) (fid : Z) (p : pinfo)
         (ts1 ts2 : list (tag * list Z)) (r1 r2 t1 t2 : list Z),
    wf_tags ts1 -> wf_tags ts2 -> map fst ts1 = map fst ts2 -> junk 8 r1 -> junk 8 r2 ->
    process_chunk inflate fmt fid p (8216, enc_tags ts1 r1 ++ t1)
    = process_chunk inflate fmt fid p (8216, enc_tags ts2 r2 ++ t2).
Proof. exact process_tags_junk. Qed.
Print Assumptions C07_unused_tags_process.

(* user data: flag bits 2..31 *)
Theorem C07_unused_userdata :
  forall (u : userdata) (f1 f2 : Z) (t1 t2 : list Z),
    wf_userdata u f1 -> wf_userdata u f2 ->
    run_payload dec_userdata (enc_userdata u f1 ++ t1) = run_payload dec_userdata (enc_userdata u f2 ++ t2).
Proof. exact userdata_junk. Qed.
Print Assumptions C07_unused_userdata.

Theorem C07_unused_userdata_process :
  forall (inflate : list Z -> Z -> zres) (fmt : pixfmt) (fid : Z) (p : pinfo) (u : userdata) (f1 f2 : Z) (t1 t2 : list Z),
    wf_userdata u f1 -> wf_userdata u f2 ->
    process_chunk inflate fmt fid p (8224, enc_userdata u f1 ++ t1)
    = process_chunk inflate fmt fid p (8224, enc_userdata u f2 ++ t2).
Proof. exact process_userdata_junk. Qed.
Print Assumptions C07_unused_userdata_process.

(* slice: flag bits 2..31, reserved bytes *)
Theorem C07_unused_slice :
  forall (s : slice) (f1 f2 : Z) (r1 r2 t1 t2 : list Z),
    wf_slice s f1 -> wf_slice s f2 -> junk 4 r1 -> junk 4 r2 ->
    run_payload dec_slice (enc_slice s f1 r1 ++ t1) = run_payload dec_slice (enc_slice s f2 r2 ++ t2).
Proof. exact slice_junk. Qed.
Print Assumptions C07_unused_slice.

Theorem C07_unused_slice_process :
  forall (inflate : list Z -> Z -> zres) (fmt : pixfmt) (fid : Z) (p : pinfo)
         (s : slice) (f1 f2 : Z) (r1 r2 t1 t2 : list Z),
    wf_slice s f1 -> wf_slice s f2 -> junk 4 r1 -> junk 4 r2 ->
    process_chunk inflate fmt fid p (8226, enc_slice s f1 r1 ++ t1)
    = process_chunk inflate fmt fid p (8226, enc_slice s f2 r2 ++ t2).
Proof. exact process_slice_junk. Qed.
Print Assumptions C07_unused_slice_process.

(* palette: total-size field, reserved bytes, bits 1..15 of each entry's flags *)
Theorem C07_unused_palette :
  forall (total1 total2 first : Z) (e1 e2 : list (palentry * Z)) (r1 r2 t1 t2 : list Z),
    wf_palette first e1 -> wf_palette first e2 -> map fst e1 = map fst e2 -> junk 8 r1 -> junk 8 r2 ->
    run_payload dec_palette (enc_palette total1 first e1 r1 ++ t1)
    = run_payload dec_palette (enc_palette total2 first e2 r2 ++ t2).
Proof. exact palette_junk. Qed.
Print Assumptions C07_unused_palette.

Theorem C07_unused_palette_process :
  forall (inflate : list Z -> Z -> zres) (fmt : pixfmt) (fid : Z) (p : pinfo)
         (total1 total2 first : Z) (e1 e2 : list (palentry * Z)) (r1 r2 t1 t2 : list Z),
    wf_palette first e1 -> wf_palette first e2 -> map fst e1 = map fst e2 -> junk 8 r1 -> junk 8 r2 ->
    process_chunk inflate fmt fid p (8217, enc_palette total1 first e1 r1 ++ t1)
    = process_chunk inflate fmt fid p (8217, enc_palette total2 first e2 r2 ++ t2).
Proof. exact process_palette_junk. Qed.
Print Assumptions C07_unused_palette_process.

(* external files: reserved bytes of the chunk and of each entry *)
Theorem C07_unused_external :
  forall (es1 es2 : list ((Z * list Z) * list Z)) (r1 r2 t1 t2 : list Z),
    wf_external es1 -> wf_external es2 -> map fst es1 = map fst es2 -> junk 8 r1 -> junk 8 r2 ->
    run_payload dec_external (enc_external es1 r1 ++ t1) = run_payload dec_external (enc_external es2 r2 ++ t2).
Proof. exact external_junk. Qed.
Print Assumptions C07_unused_external.

Theorem C07_unused_external_process :
  forall (inflate : list Z -> Z -> zres) (fmt : pixfmt) (fid : Z) (p : pinfo)
         (es1 es2 : list ((Z * list Z) * list Z)) (r1 r2 t1 t2 : list Z),
    wf_external es1 -> wf_external es2 -> map fst es1 = map fst es2 -> junk 8 r1 -> junk 8 r2 ->
    process_chunk inflate fmt fid p (8200, enc_external es1 r1 ++ t1)
    = process_chunk inflate fmt fid p (8200, enc_external es2 r2 ++ t2).
Proof. exact process_external_junk. Qed.
Print Assumptions C07_unused_external_process.

(* colour profile: none versus sRGB, flag bits 1..15, gamma, reserved bytes *)
Theorem C07_unused_color_profile :
  forall (ty1 ty2 f1 f2 : Z) (g1 g2 r1 r2 t1 t2 : list Z),
    wf_color_profile ty1 f1 -> wf_color_profile ty2 f2 -> junk 4 g1 -> junk 4 g2 -> junk 8 r1 -> junk 8 r2 ->
    run_payload dec_color_profile (enc_color_profile ty1 f1 g1 r1 ++ t1)
    = run_payload dec_color_profile (enc_color_profile ty2 f2 g2 r2 ++ t2).
Proof. exact color_profile_junk. Qed.
Print Assumptions C07_unused_color_profile.

(* cel head: the 7 reserved bytes, for every cel type and body *)
Theorem C07_unused_cel :
  forall (inflate : list Z -> Z -> zres) (fmt : pixfmt) (c : celcommon) (ct : Z) (r1 r2 body : list Z),
    wf_celcommon c -> junk 7 r1 -> junk 7 r2 ->
    dec_cel inflate fmt (enc_cel_hdr c ct r1 ++ body) = dec_cel inflate fmt (enc_cel_hdr c ct r2 ++ body).
Proof. exact cel_hdr_junk. Qed.
Print Assumptions C07_unused_cel.

Theorem C07_unused_cel_process :
  forall (inflate : list Z -> Z -> zres) (fmt : pixfmt) (fid : Z) (p : pinfo) (c : celcommon) (ct : Z) (r1 r2 body : list Z),
    wf_celcommon c -> junk 7 r1 -> junk 7 r2 ->
    process_chunk inflate fmt fid p (8197, enc_cel_hdr c ct r1 ++ body)
    = process_chunk inflate fmt fid p (8197, enc_cel_hdr c ct r2 ++ body).
Proof. exact process_cel_hdr_junk. Qed.
Print Assumptions C07_unused_cel_process.

(* tilemap cel: the three flip masks and the reserved bytes *)
Theorem C07_unused_tilemap :
  forall (inflate : list Z -> Z -> zres) (fmt : pixfmt) (c : celcommon) (ra1 ra2 : list Z) (w h idmask : Z)
         (m1 m2 r1 r2 z : list Z),
    wf_celcommon c -> junk 7 ra1 -> junk 7 ra2 -> junk 12 m1 -> junk 12 m2 -> junk 10 r1 -> junk 10 r2 ->
    dec_cel inflate fmt (enc_cel_hdr c 3 ra1 ++ enc_tilemap_hdr w h idmask m1 r1 ++ z)
    = dec_cel inflate fmt (enc_cel_hdr c 3 ra2 ++ enc_tilemap_hdr w h idmask m2 r2 ++ z).
Proof. exact cel_tilemap_junk. Qed.
Print Assumptions C07_unused_tilemap.

(* tileset: flag bits 3..31, reserved bytes, the compressed-length field *)
Theorem C07_unused_tileset :
  forall (inflate : list Z -> Z -> zres) (fmt : pixfmt) (ts : tileset rawpixels) (f1 f2 : Z) (r1 r2 c1 c2 z : list Z),
    wf_tileset_hdr ts f1 -> wf_tileset_hdr ts f2 -> bit f1 2 = bit f2 2 ->
    junk 14 r1 -> junk 14 r2 -> junk 4 c1 -> junk 4 c2 ->
    dec_tileset inflate fmt (enc_tileset_hdr ts f1 r1 c1 ++ z)
    = dec_tileset inflate fmt (enc_tileset_hdr ts f2 r2 c2 ++ z).
Proof. exact tileset_junk. Qed.
Print Assumptions C07_unused_tileset.

Theorem C07_unused_tileset_process :
  forall (inflate : list Z -> Z -> zres) (fmt : pixfmt) (fid : Z) (p : pinfo)
         (ts : tileset rawpixels) (f1 f2 : Z) (r1 r2 c1 c2 z : list Z),
    wf_tileset_hdr ts f1 -> wf_tileset_hdr ts f2 -> bit f1 2 = bit f2 2 ->
    junk 14 r1 -> junk 14 r2 -> junk 4 c1 -> junk 4 c2 ->
    process_chunk inflate fmt fid p (8227, enc_tileset_hdr ts f1 r1 c1 ++ z)
    = process_chunk inflate fmt fid p (8227, enc_tileset_hdr ts f2 r2 c2 ++ z).
Proof. exact process_tileset_junk. Qed.
Print Assumptions C07_unused_tileset_process.

(* file header: file size, flags, deprecated fields, ignored bytes and colour count, grid,
   reserved bytes, and the pixel ratio among the accepted ones; same_header_fields = the six
   used fields agree *)
Theorem C07_unused_header :
  forall (inflate : list Z -> Z -> zres) (h1 h2 : hfields) (a1 b1 c1 d1 g1 r1 a2 b2 c2 d2 g2 r2 t : list Z),
    wf_header h1 -> wf_header h2 -> same_header_fields h1 h2 ->
    wf_header_junk a1 b1 c1 d1 g1 r1 -> wf_header_junk a2 b2 c2 d2 g2 r2 ->
    load inflate (enc_header h1 a1 b1 c1 d1 g1 r1 ++ t) = load inflate (enc_header h2 a2 b2 c2 d2 g2 r2 ++ t).
Proof. exact header_junk_load. Qed.
Print Assumptions C07_unused_header.

Theorem C07_unused_header_parse :
  forall (inflate : list Z -> Z -> zres) (h1 h2 : hfields) (a1 b1 c1 d1 g1 r1 a2 b2 c2 d2 g2 r2 t : list Z),
    wf_header h1 -> wf_header h2 -> same_header_fields h1 h2 ->
    wf_header_junk a1 b1 c1 d1 g1 r1 -> wf_header_junk a2 b2 c2 d2 g2 r2 ->
    run (parse_file inflate) (enc_header h1 a1 b1 c1 d1 g1 r1 ++ t)
    = run (parse_file inflate) (enc_header h2 a2 b2 c2 d2 g2 r2 ++ t).
Proof. exact header_junk_run. Qed.
Print Assumptions C07_unused_header_parse.

(* one chunk replaced by a chunk with the same effect, on the bytes of a file: lifts every
   `_process` theorem above (and C07_raw_vs_zlib_process below) to `load` *)
Theorem C07_equivalent_chunk_file :
  forall (inflate : list Z -> Z -> zres) (h : hfields) (a b c d g r : list Z) (fmt : pixfmt)
         (F : list Z) (j : nat) (st : pinfo * Z) (dur nb1 old1 : Z) (rsv1 : list Z) (new1 nb2 old2 : Z)
         (rsv2 : list Z) (new2 : Z) (ch1 ch2 : rawchunk) (pre post : list rawchunk) (rest : list Z),
    wf_header h -> wf_header_junk a b c d g r -> header_fmt h = Some fmt ->
    run_times j (parse_frames_step inflate fmt) (pinfo_new (hf_frames h) (hf_default_time h), 0) F = Ok (st, []) ->
    (j < Z.to_nat (hf_frames h))%nat ->
    wf_frame nb1 old1 new1 rsv1 (pre ++ ch1 :: post) -> wf_frame nb2 old2 new2 rsv2 (pre ++ ch2 :: post) ->
    (forall (fid : Z) (p : pinfo), process_chunk inflate fmt fid p ch1 = process_chunk inflate fmt fid p ch2) ->
    load inflate (enc_header h a b c d g r ++ F ++ enc_frame nb1 old1 dur rsv1 new1 (pre ++ ch1 :: post) ++ rest)
    = load inflate (enc_header h a b c d g r ++ F ++ enc_frame nb2 old2 dur rsv2 new2 (pre ++ ch2 :: post) ++ rest).
Proof. exact equivalent_chunk_file. Qed.
Print Assumptions C07_equivalent_chunk_file.

Theorem C07_equivalent_chunk_assemble :
  forall (inflate : list Z -> Z -> zres) (fmt : pixfmt) (n d : Z) (ch1 ch2 : rawchunk)
         (fpre fpost : list rawframe) (dur : Z) (pre post : list rawchunk),
    (forall (fid : Z) (p : pinfo), process_chunk inflate fmt fid p ch1 = process_chunk inflate fmt fid p ch2) ->
    assemble inflate fmt n d (fpre ++ (dur, pre ++ ch1 :: post) :: fpost)
    = assemble inflate fmt n d (fpre ++ (dur, pre ++ ch2 :: post) :: fpost).
Proof. exact equivalent_assemble. Qed.
Print Assumptions C07_equivalent_chunk_assemble.

(* ================= pixel ratio ================= *)

(* the header check passes exactly for a zero component or 1:1 *)
Theorem C07_pixel_ratio_check :
  forall pw ph : Z,
    negb (pw =? 0) && negb (ph =? 0) && negb ((pw =? 1) && (ph =? 1)) = false
    <-> pw = 0 \/ ph = 0 \/ (pw = 1 /\ ph = 1).
Proof. exact ratio_check_iff. Qed.
Print Assumptions C07_pixel_ratio_check.

(* and nothing else depends on the two bytes: any two accepted ratios *)
Theorem C07_pixel_ratio :
  forall (inflate : list Z -> Z -> zres) (h : hfields) (pw1 ph1 pw2 ph2 : Z) (a b c d g r t : list Z),
    wf_header h ->
    is_byte pw1 /\ is_byte ph1 /\ (pw1 = 0 \/ ph1 = 0 \/ (pw1 = 1 /\ ph1 = 1)) ->
    is_byte pw2 /\ is_byte ph2 /\ (pw2 = 0 \/ ph2 = 0 \/ (pw2 = 1 /\ ph2 = 1)) ->
    wf_header_junk a b c d g r ->
    load inflate (enc_header (set_ratio h pw1 ph1) a b c d g r ++ t)
    = load inflate (enc_header (set_ratio h pw2 ph2) a b c d g r ++ t).
Proof. exact pixel_ratio_load. Qed.
Print Assumptions C07_pixel_ratio.

(* ================= the two chunk-count fields ================= *)

(* (old = n, new = 0) versus (old = anything, new = n), e.g. (n, n) and (65535, n); the two
   reserved bytes of the frame header are free too *)
Theorem C07_count_field_frame_chunks :
  forall (nb dur n old : Z) (r1 r2 rest : list Z),
    n <> 0 -> junk 2 r1 -> junk 2 r2 ->
    run frame_chunks (enc_frame_hdr nb n dur r1 0 ++ rest)
    = run frame_chunks (enc_frame_hdr nb old dur r2 n ++ rest).
Proof. exact count_field_frame_chunks. Qed.
Print Assumptions C07_count_field_frame_chunks.

Theorem C07_count_field_parse_frame :
  forall (inflate : list Z -> Z -> zres) (fmt : pixfmt) (p : pinfo) (fid nb dur n old : Z) (r1 r2 rest : list Z),
    n <> 0 -> junk 2 r1 -> junk 2 r2 ->
    run (parse_frame inflate fmt p fid) (enc_frame_hdr nb n dur r1 0 ++ rest)
    = run (parse_frame inflate fmt p fid) (enc_frame_hdr nb old dur r2 n ++ rest).
Proof. exact count_field_parse_frame. Qed.
Print Assumptions C07_count_field_parse_frame.

(* the number of chunks read is `if new = 0 then old else new` *)
Theorem C07_count_field_rule :
  forall (nb old dur : Z) (rsv : list Z) (new : Z) (rest : list Z),
    junk 2 rsv ->
    run frame_chunks (enc_frame_hdr nb old dur rsv new ++ rest)
    = run (frame_body nb dur (if new =? 0 then old else new)) rest.
Proof. exact frame_chunks_enc. Qed.
Print Assumptions C07_count_field_rule.

Theorem C07_count_field_load :
  forall (inflate : list Z -> Z -> zres) (h : hfields) (a b c d g r : list Z) (fmt : pixfmt)
         (F : list Z) (j : nat) (st : pinfo * Z) (nb dur n old : Z) (r1 r2 rest : list Z),
    wf_header h -> wf_header_junk a b c d g r -> header_fmt h = Some fmt ->
    run_times j (parse_frames_step inflate fmt) (pinfo_new (hf_frames h) (hf_default_time h), 0) F = Ok (st, []) ->
    (j < Z.to_nat (hf_frames h))%nat ->
    n <> 0 -> junk 2 r1 -> junk 2 r2 ->
    load inflate (enc_header h a b c d g r ++ F ++ enc_frame_hdr nb n dur r1 0 ++ rest)
    = load inflate (enc_header h a b c d g r ++ F ++ enc_frame_hdr nb old dur r2 n ++ rest).
Proof. exact count_field_load. Qed.
Print Assumptions C07_count_field_load.

(* ================= raw versus compressed ================= *)

(* nothing is assumed of the stream z but what it inflates to, hence independent of the
   compression level *)
Theorem C07_raw_vs_zlib :
  forall (inflate : list Z -> Z -> zres) (fmt : pixfmt) (c : celcommon) (r1 r2 : list Z) (w h : Z)
         (raw z t1 t2 : list Z),
    wf_celcommon c -> junk 7 r1 -> junk 7 r2 ->
    zlen raw = bytes_per_pixel fmt * (w * h) ->
    inflate (z ++ t2) (bytes_per_pixel fmt * (w * h) + 1) = ZOk raw ->
    dec_cel inflate fmt (enc_cel_raw c r1 w h raw ++ t1) = dec_cel inflate fmt (enc_cel_zimage c r2 w h z ++ t2).
Proof. exact raw_vs_zlib. Qed.
Print Assumptions C07_raw_vs_zlib.

Theorem C07_raw_vs_zlib_process :
  forall (inflate : list Z -> Z -> zres) (fmt : pixfmt) (fid : Z) (p : pinfo) (c : celcommon) (r1 r2 : list Z) (w h : Z)
         (raw z t1 t2 : list Z),
    wf_celcommon c -> junk 7 r1 -> junk 7 r2 ->
    zlen raw = bytes_per_pixel fmt * (w * h) ->
    inflate (z ++ t2) (bytes_per_pixel fmt * (w * h) + 1) = ZOk raw ->
    process_chunk inflate fmt fid p (8197, enc_cel_raw c r1 w h raw ++ t1)
    = process_chunk inflate fmt fid p (8197, enc_cel_zimage c r2 w h z ++ t2).
Proof. exact process_raw_vs_zlib. Qed.
Print Assumptions C07_raw_vs_zlib_process.

(* two streams with the same decompressed content: image cel, tilemap cel, tileset *)
Theorem C07_zlib_stream_cel :
  forall (inflate : list Z -> Z -> zres) (fmt : pixfmt) (c : celcommon) (r1 r2 : list Z) (w h : Z) (z1 z2 t1 t2 : list Z),
    wf_celcommon c -> junk 7 r1 -> junk 7 r2 ->
    inflate (z1 ++ t1) (bytes_per_pixel fmt * (w * h) + 1) = inflate (z2 ++ t2) (bytes_per_pixel fmt * (w * h) + 1) ->
    dec_cel inflate fmt (enc_cel_zimage c r1 w h z1 ++ t1) = dec_cel inflate fmt (enc_cel_zimage c r2 w h z2 ++ t2).
Proof. exact zlib_stream_cel. Qed.
Print Assumptions C07_zlib_stream_cel.

Theorem C07_zlib_stream_tilemap :
  forall (inflate : list Z -> Z -> zres) (fmt : pixfmt) (c : celcommon) (ra1 ra2 : list Z) (w h idmask : Z)
         (m1 m2 r1 r2 z1 z2 : list Z),
    wf_celcommon c -> junk 7 ra1 -> junk 7 ra2 -> junk 12 m1 -> junk 12 m2 -> junk 10 r1 -> junk 10 r2 ->
    inflate z1 (4 * (w * h) + 1) = inflate z2 (4 * (w * h) + 1) ->
    dec_cel inflate fmt (enc_cel_hdr c 3 ra1 ++ enc_tilemap_hdr w h idmask m1 r1 ++ z1)
    = dec_cel inflate fmt (enc_cel_hdr c 3 ra2 ++ enc_tilemap_hdr w h idmask m2 r2 ++ z2).
Proof. exact zlib_stream_tilemap. Qed.
Print Assumptions C07_zlib_stream_tilemap.

Theorem C07_zlib_stream_tileset :
  forall (inflate : list Z -> Z -> zres) (fmt : pixfmt) (ts : tileset rawpixels) (f1 f2 : Z) (r1 r2 c1 c2 z1 z2 : list Z),
    wf_tileset_hdr ts f1 -> wf_tileset_hdr ts f2 -> bit f1 2 = bit f2 2 ->
    junk 14 r1 -> junk 14 r2 -> junk 4 c1 -> junk 4 c2 ->
    inflate z1 (bytes_per_pixel fmt * (ts_count ts * ts_h ts * ts_w ts) + 1)
    = inflate z2 (bytes_per_pixel fmt * (ts_count ts * ts_h ts * ts_w ts) + 1) ->
    dec_tileset inflate fmt (enc_tileset_hdr ts f1 r1 c1 ++ z1)
    = dec_tileset inflate fmt (enc_tileset_hdr ts f2 r2 c2 ++ z2).
Proof. exact zlib_stream_tileset. Qed.
Print Assumptions C07_zlib_stream_tileset.

(* ================= a legacy palette beside a new-format palette ================= *)

(* new then legacy: compared with the new chunk alone only the user-data context differs
   (it is not part of the loaded sprite) *)
Theorem C07_legacy_palette_after :
  forall (inflate : list Z -> Z -> zres) (fmt : pixfmt) (fid : Z) (p : pinfo) (dnew dold : list Z) (ty : Z) (pal : palette),
    ty = 4 \/ ty = 17 -> run_payload dec_palette dnew = Ok pal ->
    rfold (process_chunk inflate fmt fid) [(8217, dnew)] p = Ok (with_palette p (Some pal)) /\
    rfold (process_chunk inflate fmt fid) [(8217, dnew); (ty, dold)] p
    = Ok (with_ctx (with_palette p (Some pal)) (Some UOldPalette)).
Proof. exact legacy_after_new. Qed.
Print Assumptions C07_legacy_palette_after.

(* legacy then new: the same state as in the other order *)
Theorem C07_legacy_palette_before :
  forall (inflate : list Z -> Z -> zres) (fmt : pixfmt) (fid : Z) (p : pinfo) (dnew dold : list Z) (ty : Z) (pal : palette)
         (p' : pinfo),
    ty = 4 \/ ty = 17 -> run_payload dec_palette dnew = Ok pal ->
    rfold (process_chunk inflate fmt fid) [(ty, dold); (8217, dnew)] p = Ok p' ->
    p' = with_ctx (with_palette p (Some pal)) (Some UOldPalette).
Proof. exact legacy_before_new. Qed.
Print Assumptions C07_legacy_palette_before.

(* general position: among chunks that include a new-format palette chunk, a legacy palette
   chunk more or less, anywhere, does not change the resulting palette *)
Theorem C07_legacy_palette :
  forall (inflate : list Z -> Z -> zres) (fmt : pixfmt) (fid : Z) (p : pinfo) (ty : Z) (dold dnew : list Z)
         (pre post : list rawchunk) (p1 p2 : pinfo),
    ty = 4 \/ ty = 17 ->
    In (8217, dnew) pre \/ In (8217, dnew) post ->
    rfold (process_chunk inflate fmt fid) (pre ++ (ty, dold) :: post) p = Ok p1 ->
    rfold (process_chunk inflate fmt fid) (pre ++ post) p = Ok p2 ->
    pi_palette p1 = pi_palette p2.
Proof. exact legacy_palette_anywhere. Qed.
Print Assumptions C07_legacy_palette.

(* ================= order of cel chunks ================= *)

Theorem C07_cel_order :
  forall (t : celtable rawpixels) (n f1 : Z) (c1 : cel rawpixels) (f2 : Z) (c2 : cel rawpixels)
         (t1 t12 : celtable rawpixels),
    0 <= f1 -> 0 <= f2 -> (f1, cc_layer (c_data c1)) <> (f2, cc_layer (c_data c2)) ->
    table_add_cel t n f1 c1 = Ok t1 -> table_add_cel t1 n f2 c2 = Ok t12 ->
    exists t2 t21, table_add_cel t n f2 c2 = Ok t2 /\ table_add_cel t2 n f1 c1 = Ok t21 /\
      (forall fr, get_row t12 fr = get_row t21 fr) /\
      (forall nf fr l, table_cel t12 nf fr l = table_cel t21 nf fr l).
Proof. exact table_add_cel_comm. Qed.
Print Assumptions C07_cel_order.

Theorem C07_cel_order_image :
  forall (f : file) (t' : celtable pixels) (fr : Z),
    (forall fr, get_row t' fr = get_row (f_cels f) fr) ->
    frame_image (Layers.with_cels f t') fr = frame_image f fr.
Proof. exact frame_image_rows. Qed.
Print Assumptions C07_cel_order_image.

(* two cel chunks of different layers swapped in a frame: accepted alike, same rows in the
   cel table, every other component equal except the user-data context *)
Theorem C07_cel_order_chunks :
  forall (inflate : list Z -> Z -> zres) (fmt : pixfmt) (fid : Z) (p : pinfo) (d1 d2 : list Z)
         (c1 c2 : cel rawpixels) (p12 : pinfo),
    0 <= fid ->
    dec_cel inflate fmt d1 = Ok c1 -> dec_cel inflate fmt d2 = Ok c2 ->
    cc_layer (c_data c1) <> cc_layer (c_data c2) ->
    rfold (process_chunk inflate fmt fid) [(8197, d1); (8197, d2)] p = Ok p12 ->
    exists p21,
      rfold (process_chunk inflate fmt fid) [(8197, d2); (8197, d1)] p = Ok p21 /\
      (forall fr, get_row (pi_cels p12) fr = get_row (pi_cels p21) fr) /\
      Parse.with_ctx (Parse.with_cels p12 zempty) None = Parse.with_ctx (Parse.with_cels p21 zempty) None.
Proof. exact cel_order_chunks. Qed.
Print Assumptions C07_cel_order_chunks.
