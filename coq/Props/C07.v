From Ase Require Import Model.Dump.
