(* C11: palettes.  Encoders, well-formedness predicates and the functional specification
   of the legacy chunks (old_entry, old_bindings, old_palette_spec, last_binding, skip_sum,
   uncovered, incomplete): Spec/EncodeChunks.v. *)
From Ase Require Import Model.Validate.
From Ase Require Import Spec.EncodeChunks.
From Ase Require Import Proofs.PaletteProofs.

(* new-format chunk: one entry per index in [first, first + n), the stored RGBA and
   optional name (present iff flag bit 0: wf_pal_entry), nothing outside the range *)
Theorem C11_new :
  forall (total first : Z) (entries : list (palentry * Z)) (rsv t : list Z),
    wf_palette first entries -> junk 8 rsv ->
    exists m,
      run_payload dec_palette (enc_palette total first entries rsv ++ t) = Ok m /\
      (forall i e fl, nthz entries i = Some (e, fl) -> zfind (first + i) m = Some e) /\
      (forall k, k < first \/ first + zlen entries <= k -> zfind k m = None).
Proof. exact palette_new. Qed.
Print Assumptions C11_new.

(* legacy chunks (six = false: 0x0004, six = true: 0x0011): decode = the specification *)
Theorem C11_old :
  forall (six : bool) (packets : list (Z * list rgb)) (t : list Z),
    wf_old_palette six packets ->
    run_payload (dec_old_palette six) (enc_old_palette packets ++ t) = Ok (old_palette_spec six packets).
Proof. exact palette_old. Qed.
Print Assumptions C11_old.

(* later packets overwrite earlier ones *)
Theorem C11_old_last_wins :
  forall (six : bool) (packets : list (Z * list rgb)) (k : Z),
    wf_old_palette six packets ->
    zfind k (old_palette_spec six packets) = last_binding k (old_bindings six 0 packets).
Proof. exact old_palette_last_wins. Qed.
Print Assumptions C11_old_last_wins.

(* one packet (1..256 colours; 256 are written with count byte 0): colour j at id skip + j,
   opaque, unnamed, 6-bit components scaled (old_entry) *)
Theorem C11_old_single :
  forall (six : bool) (s : Z) (cs : list rgb),
    wf_old_packet six (s, cs) ->
    (forall j c, nthz cs j = Some c ->
       zfind (s + j) (old_palette_spec six [(s, cs)]) = Some (old_entry six c)) /\
    (forall k, k < s \/ s + zlen cs <= k -> zfind k (old_palette_spec six [(s, cs)]) = None).
Proof. exact palette_old_single. Qed.
Print Assumptions C11_old_single.

(* the last packet of a chunk starts at the cumulative sum of the skip bytes *)
Theorem C11_old_offsets :
  forall (six : bool) (before : list (Z * list rgb)) (s : Z) (cs : list rgb) (j : Z) (c : rgb),
    wf_old_palette six (before ++ [(s, cs)]) -> nthz cs j = Some c ->
    zfind (skip_sum before + s + j) (old_palette_spec six (before ++ [(s, cs)])) = Some (old_entry six c).
Proof. exact palette_old_last_packet. Qed.
Print Assumptions C11_old_offsets.

(* 6-bit scaling *)
Theorem C11_scale :
  (forall c, 0 <= c < 64 -> scale_6bit c = Ret (c * 4 + c / 16)) /\
  scale_6bit 0 = Ret 0 /\ scale_6bit 63 = Ret 255 /\
  (forall c d, 0 <= c -> c < d -> d < 64 -> c * 4 + c / 16 < d * 4 + d / 16) /\
  (forall c, 0 <= c < 64 -> 0 <= c * 4 + c / 16 <= 255) /\
  (forall c, 64 <= c -> scale_6bit c = Fail EInvalid).
Proof. exact scale_summary. Qed.
Print Assumptions C11_scale.

(* precedence: a legacy chunk never touches an existing palette ... *)
Theorem C11_old_kept :
  forall (inflate : list Z -> Z -> zres) (fmt : pixfmt) (fid : Z) (p : pinfo) (ty : Z) (data : list Z)
         (pal : palette),
    ty = 4 \/ ty = 17 -> pi_palette p = Some pal ->
    process_chunk inflate fmt fid p (ty, data) = Ok (with_ctx p (Some UOldPalette)).
Proof. exact process_old_kept. Qed.
Print Assumptions C11_old_kept.

(* ... it is used only when there is none yet ... *)
Theorem C11_old_first :
  forall (inflate : list Z -> Z -> zres) (fmt : pixfmt) (fid : Z) (p : pinfo) (ty : Z) (data : list Z),
    ty = 4 \/ ty = 17 -> pi_palette p = None ->
    process_chunk inflate fmt fid p (ty, data)
    = (pal <-- run_payload (dec_old_palette (ty =? 17)) data ;;;
       Ok (with_palette (with_ctx p (Some UOldPalette)) (Some pal))).
Proof. exact process_old_first. Qed.
Print Assumptions C11_old_first.

(* ... and a new-format chunk always replaces the palette *)
Theorem C11_new_replaces :
  forall (inflate : list Z -> Z -> zres) (fmt : pixfmt) (fid : Z) (p : pinfo) (data : list Z),
    process_chunk inflate fmt fid p (8217, data)
    = (pal <-- run_payload dec_palette data ;;; Ok (with_palette p (Some pal))).
Proof. exact process_new. Qed.
Print Assumptions C11_new_replaces.

(* new-format chunk, then any chunks other than new-format palettes: its palette stays *)
Theorem C11_precedence_new_first :
  forall (inflate : list Z -> Z -> zres) (fmt : pixfmt) (fid : Z) (p : pinfo) (data : list Z)
         (pal : palette) (chunks : list (Z * list Z)) (p' : pinfo),
    run_payload dec_palette data = Ok pal ->
    Forall (fun ch => fst ch <> 8217) chunks ->
    rfold (process_chunk inflate fmt fid) ((8217, data) :: chunks) p = Ok p' ->
    pi_palette p' = Some pal.
Proof. exact new_palette_then_others. Qed.
Print Assumptions C11_precedence_new_first.

(* any chunks, then a new-format chunk: its palette is the result *)
Theorem C11_precedence_new_last :
  forall (inflate : list Z -> Z -> zres) (fmt : pixfmt) (fid : Z) (p : pinfo) (data : list Z)
         (pal : palette) (chunks : list (Z * list Z)) (p' : pinfo),
    run_payload dec_palette data = Ok pal ->
    rfold (process_chunk inflate fmt fid) (chunks ++ [(8217, data)]) p = Ok p' ->
    pi_palette p' = Some pal.
Proof. exact others_then_new_palette. Qed.
Print Assumptions C11_precedence_new_last.

(* the two orders of one new and one legacy chunk *)
Theorem C11_precedence_new_old :
  forall (inflate : list Z -> Z -> zres) (fmt : pixfmt) (fid : Z) (p : pinfo) (dnew dold : list Z)
         (ty : Z) (pal : palette),
    ty = 4 \/ ty = 17 -> run_payload dec_palette dnew = Ok pal ->
    exists p', rfold (process_chunk inflate fmt fid) [(8217, dnew); (ty, dold)] p = Ok p' /\
               pi_palette p' = Some pal /\ pi_ctx p' = Some UOldPalette.
Proof. exact precedence_new_old. Qed.
Print Assumptions C11_precedence_new_old.

Theorem C11_precedence_old_new :
  forall (inflate : list Z -> Z -> zres) (fmt : pixfmt) (fid : Z) (p : pinfo) (dnew dold : list Z)
         (ty : Z) (pal : palette) (p' : pinfo),
    ty = 4 \/ ty = 17 -> run_payload dec_palette dnew = Ok pal ->
    rfold (process_chunk inflate fmt fid) [(ty, dold); (8217, dnew)] p = Ok p' ->
    pi_palette p' = Some pal.
Proof. exact precedence_old_new. Qed.
Print Assumptions C11_precedence_old_new.

(* completeness: indexed pixels without a palette, or with an index the palette lacks *)
Theorem C11_complete_no_palette :
  forall (fmt : pixfmt) (bg : bool) (l : list Z),
    validate_pixels None fmt bg (RPIndexed l) = Err EInvalid.
Proof. exact validate_pixels_no_palette. Qed.
Print Assumptions C11_complete_no_palette.

Theorem C11_complete_missing :
  forall (pal : palette) (fmt : pixfmt) (bg : bool) (l : list Z) (i : Z),
    In i l -> zfind i pal = None -> validate_pixels (Some pal) fmt bg (RPIndexed l) = Err EInvalid.
Proof. exact validate_pixels_missing. Qed.
Print Assumptions C11_complete_missing.

(* conversely, what validates is covered *)
Theorem C11_complete_covered :
  forall (pal : option palette) (ti : Z) (bg : bool) (l : list Z) (px : pixels),
    validate_pixels pal (FIndexed ti) bg (RPIndexed l) = Ok px ->
    exists p, pal = Some p /\ forall i, In i l -> exists e, zfind i p = Some e.
Proof. exact validate_pixels_indexed_ok. Qed.
Print Assumptions C11_complete_covered.

Theorem C11_complete_tileset :
  forall (pal : option palette) (fmt : pixfmt) (t : tileset rawpixels) (rp : rawpixels),
    ts_pixels t = Some rp -> uncovered pal rp -> validate_tileset pal fmt t = Err EInvalid.
Proof. exact validate_tileset_uncovered. Qed.
Print Assumptions C11_complete_tileset.

Theorem C11_complete_cel :
  forall (layers : arr layer) (tss : zmap (tileset pixels)) (pal : option palette) (fmt : pixfmt)
         (t : celtable rawpixels) (nframes nlayers layer_id : Z) (c : cel rawpixels) (w h : Z) (rp : rawpixels),
    c_content c = CRaw w h rp -> uncovered pal rp ->
    validate_cel layers tss pal fmt t nframes nlayers layer_id c
    = match aget layers layer_id with Some _ => Err EInvalid | None => Panic 105 end.
Proof. exact validate_cel_uncovered. Qed.
Print Assumptions C11_complete_cel.

(* hence validation, and loading, of such a file does not succeed *)
Theorem C11_complete_validate :
  forall (hd : header) (p : pinfo) (f : file), incomplete p -> validate hd p <> Ok f.
Proof. exact validate_incomplete. Qed.
Print Assumptions C11_complete_validate.

Theorem C11_complete_load :
  forall (inflate : list Z -> Z -> zres) (bs : list Z) (hd : header) (p : pinfo) (rest : list Z) (f : file),
    run (parse_file inflate) bs = Ok ((hd, p), rest) -> incomplete p -> load inflate bs <> Ok f.
Proof. exact load_incomplete. Qed.
Print Assumptions C11_complete_load.
