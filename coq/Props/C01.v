(* C01: the loaded sprite reports exactly what the file encodes.
   This file: decode-after-encode for the header and for every chunk kind (for every
   well-formed value, every content of the reserved fields, every tail), the dispatcher on
   encoded chunks, and the laws of the lookup accessors.  Encoders and well-formedness
   predicates: Spec/EncodeChunks.v. *)
From Ase Require Import Model.Api.
From Ase Require Import Spec.EncodeChunks.
From Ase Require Import Proofs.RoundTrip.
From Ase Require Import Proofs.Accessors.

(* ---------------- header ---------------- *)

(* the 128-byte header: stored fields recovered, junk ignored, then the frames are read *)
Theorem C01_header :
  forall (inflate : list Z -> Z -> zres) (h : hfields) (fsize jflags j2 j3 grid rsv : list Z)
         (fmt : pixfmt) (t : list Z),
    wf_header h -> wf_header_junk fsize jflags j2 j3 grid rsv -> header_fmt h = Some fmt ->
    run (parse_file inflate) (enc_header h fsize jflags j2 j3 grid rsv ++ t)
    = run (parse_frames inflate h fmt) t.
Proof. exact dec_enc_header. Qed.
Print Assumptions C01_header.

Theorem C01_header_parsed :
  forall (inflate : list Z -> Z -> zres) (h : hfields) (fsize jflags j2 j3 grid rsv : list Z)
         (fmt : pixfmt) (t : list Z) (hd : header) (p : pinfo) (rest : list Z),
    wf_header h -> wf_header_junk fsize jflags j2 j3 grid rsv -> header_fmt h = Some fmt ->
    run (parse_file inflate) (enc_header h fsize jflags j2 j3 grid rsv ++ t) = Ok ((hd, p), rest) ->
    h_frames hd = hf_frames h /\ h_width hd = hf_width h /\ h_height hd = hf_height h /\ h_fmt hd = fmt.
Proof. exact header_parsed. Qed.
Print Assumptions C01_header_parsed.

(* canvas size, frame count, pixel format and transparent index of a sprite that loads *)
Theorem C01_header_loaded :
  forall (inflate : list Z -> Z -> zres) (h : hfields) (fsize jflags j2 j3 grid rsv : list Z)
         (fmt : pixfmt) (t : list Z) (f : file),
    wf_header h -> wf_header_junk fsize jflags j2 j3 grid rsv -> header_fmt h = Some fmt ->
    load inflate (enc_header h fsize jflags j2 j3 grid rsv ++ t) = Ok f ->
    f_width f = hf_width h /\ f_height f = hf_height h /\ f_nframes f = hf_frames h /\ f_fmt f = fmt.
Proof. exact header_loaded. Qed.
Print Assumptions C01_header_loaded.

Theorem C01_header_noframes :
  forall (inflate : list Z -> Z -> zres) (h : hfields) (fsize jflags j2 j3 grid rsv : list Z)
         (fmt : pixfmt) (t : list Z),
    wf_header h -> wf_header_junk fsize jflags j2 j3 grid rsv -> header_fmt h = Some fmt ->
    hf_frames h = 0 ->
    run (parse_file inflate) (enc_header h fsize jflags j2 j3 grid rsv ++ t)
    = Ok (({| h_frames := 0; h_width := hf_width h; h_height := hf_height h; h_fmt := fmt |},
           pinfo_new 0 (hf_default_time h)), t).
Proof. exact dec_enc_header_noframes. Qed.
Print Assumptions C01_header_noframes.

(* ---------------- layer ---------------- *)

Theorem C01_layer :
  forall (l : layer) (fw : Z) (dsize rsv t : list Z),
    wf_layer l fw -> junk 4 dsize -> junk 3 rsv ->
    run dec_layer (enc_layer l fw dsize rsv ++ t) = Ok (l, t).
Proof. exact dec_enc_layer. Qed.
Print Assumptions C01_layer.

Theorem C01_layer_payload :
  forall (l : layer) (fw : Z) (dsize rsv t : list Z),
    wf_layer l fw -> junk 4 dsize -> junk 3 rsv ->
    run_payload dec_layer (enc_layer l fw dsize rsv ++ t) = Ok l.
Proof. exact payload_layer. Qed.
Print Assumptions C01_layer_payload.

(* the stored flags are the low seven bits of the flags word *)
Theorem C01_layer_flags :
  forall fw hi : Z, 0 <= fw < 128 -> Z.land (fw + 128 * hi) 127 = fw.
Proof. exact layer_flags_low. Qed.
Print Assumptions C01_layer_flags.

(* ---------------- tags ---------------- *)

Theorem C01_tags :
  forall (ts : list (tag * list Z)) (rsv t : list Z),
    wf_tags ts -> junk 8 rsv ->
    run dec_tags (enc_tags ts rsv ++ t) = Ok (map fst ts, t).
Proof. exact dec_enc_tags. Qed.
Print Assumptions C01_tags.

Theorem C01_tags_payload :
  forall (ts : list (tag * list Z)) (rsv t : list Z),
    wf_tags ts -> junk 8 rsv ->
    run_payload dec_tags (enc_tags ts rsv ++ t) = Ok (map fst ts).
Proof. exact payload_tags. Qed.
Print Assumptions C01_tags_payload.

(* ---------------- user data ---------------- *)

Theorem C01_userdata :
  forall (u : userdata) (flags : Z) (t : list Z),
    wf_userdata u flags -> run dec_userdata (enc_userdata u flags ++ t) = Ok (u, t).
Proof. exact dec_enc_userdata. Qed.
Print Assumptions C01_userdata.

Theorem C01_userdata_payload :
  forall (u : userdata) (flags : Z) (t : list Z),
    wf_userdata u flags -> run_payload dec_userdata (enc_userdata u flags ++ t) = Ok u.
Proof. exact payload_userdata. Qed.
Print Assumptions C01_userdata_payload.

(* ---------------- slice (all keys, in order) ---------------- *)

Theorem C01_slice :
  forall (s : slice) (flags : Z) (rsv t : list Z),
    wf_slice s flags -> junk 4 rsv ->
    run dec_slice (enc_slice s flags rsv ++ t) = Ok (s, t).
Proof. exact dec_enc_slice. Qed.
Print Assumptions C01_slice.

Theorem C01_slice_payload :
  forall (s : slice) (flags : Z) (rsv t : list Z),
    wf_slice s flags -> junk 4 rsv ->
    run_payload dec_slice (enc_slice s flags rsv ++ t) = Ok s.
Proof. exact payload_slice. Qed.
Print Assumptions C01_slice_payload.

(* ---------------- palette (entry lookup: Props/C11.v) ---------------- *)

Theorem C01_palette :
  forall (total first : Z) (entries : list (palentry * Z)) (rsv t : list Z),
    wf_palette first entries -> junk 8 rsv ->
    run dec_palette (enc_palette total first entries rsv ++ t)
    = Ok (palette_of first entries, t).
Proof. exact dec_enc_palette. Qed.
Print Assumptions C01_palette.

(* ---------------- external files ---------------- *)

Theorem C01_external :
  forall (es : list ((Z * list Z) * list Z)) (rsv t : list Z),
    wf_external es -> junk 8 rsv ->
    run dec_external (enc_external es rsv ++ t) = Ok (map fst es, t).
Proof. exact dec_enc_external. Qed.
Print Assumptions C01_external.

Theorem C01_external_payload :
  forall (es : list ((Z * list Z) * list Z)) (rsv t : list Z),
    wf_external es -> junk 8 rsv ->
    run_payload dec_external (enc_external es rsv ++ t) = Ok (map fst es).
Proof. exact payload_external. Qed.
Print Assumptions C01_external_payload.

(* ---------------- colour profile ---------------- *)

Theorem C01_color_profile :
  forall (ty flags : Z) (gamma rsv t : list Z),
    wf_color_profile ty flags -> junk 4 gamma -> junk 8 rsv ->
    run dec_color_profile (enc_color_profile ty flags gamma rsv ++ t) = Ok (tt, t).
Proof. exact dec_enc_color_profile. Qed.
Print Assumptions C01_color_profile.

(* ---------------- cels ---------------- *)

Theorem C01_cel_hdr :
  forall (c : celcommon) (cel_type : Z) (rsv t : list Z),
    wf_celcommon c -> junk 7 rsv ->
    run dec_cel_hdr (enc_cel_hdr c cel_type rsv ++ t) = Ok ((c, cel_type), t).
Proof. exact dec_enc_cel_hdr. Qed.
Print Assumptions C01_cel_hdr.

Theorem C01_cel_linked :
  forall (inflate : list Z -> Z -> zres) (fmt : pixfmt) (c : celcommon) (rsv : list Z) (frame : Z) (t : list Z),
    wf_celcommon c -> junk 7 rsv ->
    dec_cel inflate fmt (enc_cel_linked c rsv frame ++ t)
    = Ok {| c_data := c; c_content := CLinked frame; c_ud := None |}.
Proof. exact dec_enc_cel_linked. Qed.
Print Assumptions C01_cel_linked.

Theorem C01_cel_raw :
  forall (inflate : list Z -> Z -> zres) (fmt : pixfmt) (c : celcommon) (rsv : list Z) (w h : Z)
         (bytes : list Z) (px : rawpixels) (t : list Z),
    wf_celcommon c -> junk 7 rsv ->
    zlen bytes = bytes_per_pixel fmt * (w * h) -> from_bytes bytes fmt = Ok px ->
    dec_cel inflate fmt (enc_cel_raw c rsv w h bytes ++ t)
    = Ok {| c_data := c; c_content := CRaw w h px; c_ud := None |}.
Proof. exact dec_enc_cel_raw. Qed.
Print Assumptions C01_cel_raw.

Theorem C01_cel_zimage :
  forall (inflate : list Z -> Z -> zres) (fmt : pixfmt) (c : celcommon) (rsv : list Z) (w h : Z)
         (z bytes : list Z) (px : rawpixels) (t : list Z),
    wf_celcommon c -> junk 7 rsv ->
    inflate (z ++ t) (bytes_per_pixel fmt * (w * h) + 1) = ZOk bytes ->
    zlen bytes = bytes_per_pixel fmt * (w * h) -> from_bytes bytes fmt = Ok px ->
    dec_cel inflate fmt (enc_cel_zimage c rsv w h z ++ t)
    = Ok {| c_data := c; c_content := CRaw w h px; c_ud := None |}.
Proof. exact dec_enc_cel_zimage. Qed.
Print Assumptions C01_cel_zimage.

(* pixel bytes in the three formats *)
Theorem C01_pixels_rgba : forall l : list pixel, from_bytes (enc_rgba l) FRgba = Ok (RPRgba l).
Proof. exact from_bytes_rgba. Qed.
Print Assumptions C01_pixels_rgba.
Theorem C01_pixels_gray : forall l : list (Z * Z), from_bytes (enc_gray l) FGray = Ok (RPGray l).
Proof. exact from_bytes_gray. Qed.
Print Assumptions C01_pixels_gray.
Theorem C01_pixels_indexed : forall (l : list Z) (ti : Z), from_bytes l (FIndexed ti) = Ok (RPIndexed l).
Proof. exact from_bytes_indexed. Qed.
Print Assumptions C01_pixels_indexed.

Theorem C01_tilemap_hdr :
  forall (w h idmask : Z) (masks rsv t : list Z),
    junk 12 masks -> junk 10 rsv ->
    run dec_tilemap_hdr (enc_tilemap_hdr w h idmask masks rsv ++ t) = Ok ((w, h, idmask), t).
Proof. exact dec_enc_tilemap_hdr. Qed.
Print Assumptions C01_tilemap_hdr.

(* ---------------- tileset ---------------- *)

Theorem C01_tileset_hdr :
  forall (ts : tileset rawpixels) (flags : Z) (rsv clen t : list Z),
    wf_tileset_hdr ts flags -> junk 14 rsv -> junk 4 clen ->
    run dec_tileset_hdr (enc_tileset_hdr ts flags rsv clen ++ t) = Ok ((ts, bit flags 2), t).
Proof. exact dec_enc_tileset_hdr. Qed.
Print Assumptions C01_tileset_hdr.

(* the whole tileset chunk; z = any stream that inflates to the tile pixels *)
Theorem C01_tileset_nopixels :
  forall (inflate : list Z -> Z -> zres) (fmt : pixfmt) (ts : tileset rawpixels) (flags : Z)
         (rsv clen t : list Z),
    wf_tileset_hdr ts flags -> junk 14 rsv -> junk 4 clen -> bit flags 2 = false ->
    dec_tileset inflate fmt (enc_tileset_hdr ts flags rsv clen ++ t) = Ok ts.
Proof. exact dec_enc_tileset_nopixels. Qed.
Print Assumptions C01_tileset_nopixels.

Theorem C01_tileset_pixels :
  forall (inflate : list Z -> Z -> zres) (fmt : pixfmt) (ts : tileset rawpixels) (flags : Z)
         (rsv clen z bytes : list Z) (px : rawpixels) (t : list Z),
    wf_tileset_hdr ts flags -> junk 14 rsv -> junk 4 clen -> bit flags 2 = true ->
    ts_count ts * ts_h ts * ts_w ts < 4294967296 ->
    inflate (z ++ t) (bytes_per_pixel fmt * (ts_count ts * ts_h ts * ts_w ts) + 1) = ZOk bytes ->
    zlen bytes = bytes_per_pixel fmt * (ts_count ts * ts_h ts * ts_w ts) ->
    from_bytes bytes fmt = Ok px ->
    dec_tileset inflate fmt (enc_tileset_hdr ts flags rsv clen ++ z ++ t) = Ok (set_ts_pixels ts (Some px)).
Proof. exact dec_enc_tileset_pixels. Qed.
Print Assumptions C01_tileset_pixels.

(* tilemap cel *)
Theorem C01_cel_tilemap :
  forall (inflate : list Z -> Z -> zres) (fmt : pixfmt) (c : celcommon) (rsv : list Z) (w h idmask : Z)
         (masks rsv2 z bytes t : list Z),
    wf_celcommon c -> junk 7 rsv -> junk 12 masks -> junk 10 rsv2 ->
    inflate (z ++ t) (4 * (w * h) + 1) = ZOk bytes -> zlen bytes = 4 * (w * h) ->
    dec_cel inflate fmt (enc_cel_hdr c 3 rsv ++ enc_tilemap_hdr w h idmask masks rsv2 ++ z ++ t)
    = Ok {| c_data := c;
            c_content := CTilemap {| tm_w := w; tm_h := h;
                                     tm_tiles := arr_of_list (map (fun bits => Z.land bits idmask) (group_dwords bytes)) |};
            c_ud := None |}.
Proof. exact dec_enc_cel_tilemap. Qed.
Print Assumptions C01_cel_tilemap.

(* the flag bits in terms of testbit *)
Theorem C01_flag_bits :
  forall f : Z, bit f 1 = Z.testbit f 0 /\ bit f 2 = Z.testbit f 1 /\ bit f 4 = Z.testbit f 2.
Proof. exact flag_bits. Qed.
Print Assumptions C01_flag_bits.

(* ---------------- the dispatcher on encoded chunks ---------------- *)

Theorem C01_process_layer :
  forall (inflate : list Z -> Z -> zres) (fmt : pixfmt) (fid : Z) (p : pinfo)
         (l : layer) (fw : Z) (dsize rsv t : list Z),
    wf_layer l fw -> junk 4 dsize -> junk 3 rsv ->
    process_chunk inflate fmt fid p (8196, enc_layer l fw dsize rsv ++ t) = Ok (add_layer p l).
Proof. exact process_enc_layer. Qed.
Print Assumptions C01_process_layer.

Theorem C01_process_tags :
  forall (inflate : list Z -> Z -> zres) (fmt : pixfmt) (fid : Z) (p : pinfo)
         (ts : list (tag * list Z)) (rsv t : list Z),
    wf_tags ts -> junk 8 rsv ->
    process_chunk inflate fmt fid p (8216, enc_tags ts rsv ++ t)
    = Ok (if fid =? 0 then add_tags p (map fst ts) else p).
Proof. exact process_enc_tags. Qed.
Print Assumptions C01_process_tags.

Theorem C01_process_slice :
  forall (inflate : list Z -> Z -> zres) (fmt : pixfmt) (fid : Z) (p : pinfo)
         (s : slice) (flags : Z) (rsv t : list Z),
    wf_slice s flags -> junk 4 rsv ->
    process_chunk inflate fmt fid p (8226, enc_slice s flags rsv ++ t) = Ok (add_slice p s).
Proof. exact process_enc_slice. Qed.
Print Assumptions C01_process_slice.

Theorem C01_process_userdata :
  forall (inflate : list Z -> Z -> zres) (fmt : pixfmt) (fid : Z) (p : pinfo)
         (u : userdata) (flags : Z) (t : list Z),
    wf_userdata u flags ->
    process_chunk inflate fmt fid p (8224, enc_userdata u flags ++ t) = add_user_data p u.
Proof. exact process_enc_userdata. Qed.
Print Assumptions C01_process_userdata.

Theorem C01_process_external :
  forall (inflate : list Z -> Z -> zres) (fmt : pixfmt) (fid : Z) (p : pinfo)
         (es : list ((Z * list Z) * list Z)) (rsv t : list Z),
    wf_external es -> junk 8 rsv ->
    process_chunk inflate fmt fid p (8200, enc_external es rsv ++ t)
    = Ok (add_external_files p (map fst es)).
Proof. exact process_enc_external. Qed.
Print Assumptions C01_process_external.

Theorem C01_process_palette :
  forall (inflate : list Z -> Z -> zres) (fmt : pixfmt) (fid : Z) (p : pinfo)
         (total first : Z) (entries : list (palentry * Z)) (rsv t : list Z),
    wf_palette first entries -> junk 8 rsv ->
    process_chunk inflate fmt fid p (8217, enc_palette total first entries rsv ++ t)
    = Ok (with_palette p (Some (palette_of first entries))).
Proof. exact process_enc_palette. Qed.
Print Assumptions C01_process_palette.

Theorem C01_process_color_profile :
  forall (inflate : list Z -> Z -> zres) (fmt : pixfmt) (fid : Z) (p : pinfo)
         (ty flags : Z) (gamma rsv t : list Z),
    wf_color_profile ty flags -> junk 4 gamma -> junk 8 rsv ->
    process_chunk inflate fmt fid p (8199, enc_color_profile ty flags gamma rsv ++ t) = Ok p.
Proof. exact process_enc_color_profile. Qed.
Print Assumptions C01_process_color_profile.

(* ---------------- accessor laws ---------------- *)

Theorem C01_list_eqb : forall a b : list Z, list_eqb a b = true <-> a = b.
Proof. exact list_eqb_eq. Qed.
Print Assumptions C01_list_eqb.

(* layer_by_name: the lowest-numbered layer with that name *)
Theorem C01_layer_by_name_lowest :
  forall (f : file) (name : list Z) (i : Z),
    layer_by_name f name = Some i ->
    0 <= i < num_layers f /\
    (exists l, aget (f_layers f) i = Some l /\ l_name l = name) /\
    (forall j l, 0 <= j < i -> aget (f_layers f) j = Some l -> l_name l <> name).
Proof. exact layer_by_name_lowest. Qed.
Print Assumptions C01_layer_by_name_lowest.

Theorem C01_layer_by_name_none :
  forall (f : file) (name : list Z),
    layer_by_name f name = None <-> forall j l, aget (f_layers f) j = Some l -> l_name l <> name.
Proof. exact layer_by_name_none. Qed.
Print Assumptions C01_layer_by_name_none.

Theorem C01_layer_by_name_found :
  forall (f : file) (name : list Z) (j : Z) (l : layer),
    aget (f_layers f) j = Some l -> l_name l = name ->
    exists i, layer_by_name f name = Some i /\ i <= j.
Proof. exact layer_by_name_found. Qed.
Print Assumptions C01_layer_by_name_found.

(* tag_by_name: the lowest-numbered tag with that name *)
Theorem C01_tag_by_name_lowest :
  forall (f : file) (name : list Z) (i : Z),
    tag_by_name f name = Some i ->
    (exists t, get_tag f i = Some t /\ t_name t = name) /\
    (forall j t, 0 <= j < i -> get_tag f j = Some t -> t_name t <> name).
Proof. exact tag_by_name_lowest. Qed.
Print Assumptions C01_tag_by_name_lowest.

Theorem C01_tag_by_name_none :
  forall (f : file) (name : list Z),
    tag_by_name f name = None <-> forall k t, get_tag f k = Some t -> t_name t <> name.
Proof. exact tag_by_name_none. Qed.
Print Assumptions C01_tag_by_name_none.

(* get_tag returns nothing exactly when out of range *)
Theorem C01_get_tag_range :
  forall (f : file) (k : Z), get_tag f k = None <-> k < 0 \/ num_tags f <= k.
Proof. exact get_tag_range. Qed.
Print Assumptions C01_get_tag_range.

Theorem C01_get_tag_some :
  forall (f : file) (k : Z), 0 <= k < num_tags f -> exists t, get_tag f k = Some t /\ tag_get f k = Ok t.
Proof. exact get_tag_some. Qed.
Print Assumptions C01_get_tag_some.

(* iteration in index order: every index exactly once *)
Theorem C01_iteration :
  forall n : Z, 0 <= n ->
    zlen (ziota n) = n /\ (forall i, 0 <= i < n -> nthz (ziota n) i = Some i) /\ NoDup (ziota n).
Proof. exact ziota_enumerates. Qed.
Print Assumptions C01_iteration.

(* layers in file order *)
Theorem C01_layers_in_order : forall (ls : list layer) (i : Z), aget (arr_of_list ls) i = nthz ls i.
Proof. exact layers_in_order. Qed.
Print Assumptions C01_layers_in_order.
