(* C05: a sprite that loads is fully usable: after a successful load every accessor called
   with in-range arguments returns normally and images have their documented dimensions. *)
From Ase Require Import Base.Prelude Model.Dump Proofs.Layers Proofs.NoPanicLoad Proofs.Valid Proofs.NoPanicApi.

(* a successful load establishes the invariant the renderer relies on (Proofs/Valid.v):
   parents computed from the levels; every stored cel sits at the index of its own layer, below
   the layer count; pixel counts equal width x height; indexed pixels have palette entries;
   tilemap cels lie on tilemap layers whose tileset exists and has count x tile area pixels,
   with every tile id below the tile count and tile sizes >= 1; link targets are in range and
   not links *)
Theorem C05_valid : forall (inflate : list Z -> Z -> zres) (bs : list Z) (f : file),
  Forall is_byte bs -> load inflate bs = Ok f -> Valid f.
Proof. exact load_valid. Qed.
Print Assumptions C05_valid.

(* ... and with an inflate that returns bytes, every stored channel value is a byte *)
Theorem C05_valid_bytes : forall (inflate : list Z -> Z -> zres) (bs : list Z) (f : file),
  (forall z n out, inflate z n = ZOk out -> Forall is_byte out) ->
  Forall is_byte bs -> load inflate bs = Ok f -> ValidW is_byte f.
Proof. exact load_valid_bytes. Qed.
Print Assumptions C05_valid_bytes.

(* layers: get, parent (a lower id), visibility (the ancestor walk terminates) *)
Theorem C05_layers : forall (inflate : list Z -> Z -> zres) (bs : list Z) (f : file),
  Forall is_byte bs -> load inflate bs = Ok f ->
  forall i, 0 <= i < num_layers f ->
    (exists l, layer_get f i = Ok l) /\
    (exists o, layer_parent f i = Ok o /\ forall p, o = Some p -> 0 <= p < i) /\
    (exists b, layer_is_visible f i = Ok b).
Proof. exact loaded_layers. Qed.
Print Assumptions C05_layers.

(* cels by the three routes, for any file *)
Theorem C05_cels : forall (f : file) (fr l : Z),
  0 <= fr < num_frames f -> 0 <= l < num_layers f ->
  (forall route, route_cel f route fr l = Ok (fr, l)) /\
  (exists c, cel_lookup f fr l = Ok c) /\
  (exists b, cel_is_empty f (fr, l) = Ok b) /\ (exists u, cel_user_data f (fr, l) = Ok u) /\
  (exists xy, cel_top_left f (fr, l) = Ok xy) /\ (exists b, cel_is_tilemap f (fr, l) = Ok b).
Proof. exact loaded_cels. Qed.
Print Assumptions C05_cels.

(* the whole STRUCT walk of Model/Dump.v: sizes, frame durations, layers with parents and
   visibility, tags, slices, user data, palette, external files, tilesets, lookups *)
Theorem C05_struct : forall (inflate : list Z -> Z -> zres) (bs : list Z) (f : file),
  Forall is_byte bs -> load inflate bs = Ok f -> exists ls, section_struct f = Ok ls.
Proof. exact loaded_struct. Qed.
Print Assumptions C05_struct.

(* Frame::image: the documented size; the only way not to return is inside blend (site 302),
   which is the subject of C17 *)
Theorem C05_frame_image : forall (inflate : list Z -> Z -> zres) (bs : list Z) (f : file),
  Forall is_byte bs -> load inflate bs = Ok f ->
  forall fr, 0 <= fr < num_frames f ->
    (exists img, frame_image f fr = Ok img /\ iw img = f_width f /\ ih img = f_height f) \/
    frame_image f fr = Panic 302.
Proof. exact loaded_frame_image. Qed.
Print Assumptions C05_frame_image.

(* Cel::image / AsepriteFile::layer_image, for any layer index *)
Theorem C05_cel_image : forall (inflate : list Z -> Z -> zres) (bs : list Z) (f : file),
  Forall is_byte bs -> load inflate bs = Ok f ->
  forall fr l, 0 <= fr < num_frames f ->
    (exists img, cel_image f (fr, l) = Ok img /\ iw img = f_width f /\ ih img = f_height f) \/
    cel_image f (fr, l) = Panic 302.
Proof. exact loaded_cel_image. Qed.
Print Assumptions C05_cel_image.

(* with blend total on byte pixels for the blend modes in Mok (C17 provides this for the
   integer modes and soft light; for the four HSL modes under its guard), an inflate that returns
   bytes, and layers that use only those modes: rendering always returns, and returns bytes *)
Theorem C05_frame_image_total : forall (Mok : Z -> Prop),
  (forall m b s o, Mok m -> pix_wf b -> pix_wf s -> is_byte o -> exists p, blend m b s o = Some p /\ pix_wf p) ->
  forall (inflate : list Z -> Z -> zres),
  (forall z n out, inflate z n = ZOk out -> Forall is_byte out) ->
  forall (bs : list Z) (f : file),
  Forall is_byte bs -> load inflate bs = Ok f ->
  (forall i l, aget (f_layers f) i = Some l -> Mok (l_blend l)) ->
  forall fr, 0 <= fr < num_frames f ->
    exists img, frame_image f fr = Ok img /\ (iw img = f_width f /\ ih img = f_height f) /\
                forall x y, pix_wf (img_get img x y).
Proof. exact loaded_frame_image_total. Qed.
Print Assumptions C05_frame_image_total.

Theorem C05_cel_image_total : forall (Mok : Z -> Prop),
  (forall m b s o, Mok m -> pix_wf b -> pix_wf s -> is_byte o -> exists p, blend m b s o = Some p /\ pix_wf p) ->
  forall (inflate : list Z -> Z -> zres),
  (forall z n out, inflate z n = ZOk out -> Forall is_byte out) ->
  forall (bs : list Z) (f : file),
  Forall is_byte bs -> load inflate bs = Ok f ->
  (forall i l, aget (f_layers f) i = Some l -> Mok (l_blend l)) ->
  forall fr l, 0 <= fr < num_frames f ->
    exists img, cel_image f (fr, l) = Ok img /\ (iw img = f_width f /\ ih img = f_height f) /\
                forall x y, pix_wf (img_get img x y).
Proof. exact loaded_cel_image_total. Qed.
Print Assumptions C05_cel_image_total.

(* AsepriteFile::tilemap for ANY layer and frame arguments; on its result the offsets, the
   tile lookup at ANY coordinates, and the image *)
Theorem C05_tilemap : forall (inflate : list Z -> Z -> zres) (bs : list Z) (f : file),
  Forall is_byte bs -> load inflate bs = Ok f ->
  forall l fr,
  exists o, tilemap_of f l fr = Ok o /\
    forall t, o = Some t ->
      (exists xy, tilemap_pixel_offsets f t = Ok xy) /\ (exists xy, tilemap_tile_offsets f t = Ok xy) /\
      (forall x y, exists id, tilemap_tile f t x y = Ok id) /\
      ((exists img, tilemap_image f t = Ok img /\ iw img = f_width f /\ ih img = f_height f) \/
       tilemap_image f t = Panic 302).
Proof. exact loaded_tilemap. Qed.
Print Assumptions C05_tilemap.

(* Tilemap::tile is total in its coordinates *)
Theorem C05_tile_lookup_total : forall (W : Z -> Prop) (f : file), ValidW W f ->
  forall t x y, tilemap_wf f t -> exists id, tilemap_tile f t x y = Ok id.
Proof. exact tilemap_tile_ok. Qed.
Print Assumptions C05_tile_lookup_total.

(* Tileset::tile_image: one tile, tile_width x tile_height *)
Theorem C05_tile_image : forall (inflate : list Z -> Z -> zres) (bs : list Z) (f : file),
  Forall is_byte bs -> load inflate bs = Ok f ->
  forall k ts i, zfind k (f_tilesets f) = Some ts -> 0 <= i < ts_count ts ->
    exists r, tile_image ts i = Ok r /\ rw r = ts_w ts /\ rh r = ts_h ts /\ zlen (rpx r) = ts_w ts * ts_h ts.
Proof. exact loaded_tile_image. Qed.
Print Assumptions C05_tile_image.

(* Tileset::image: all tiles stacked, tile_width x (tile_height * tile_count) *)
Theorem C05_tileset_image : forall (inflate : list Z -> Z -> zres) (bs : list Z) (f : file),
  Forall is_byte bs -> load inflate bs = Ok f ->
  forall k ts, zfind k (f_tilesets f) = Some ts ->
    exists r, tileset_image ts = Ok r /\ rw r = ts_w ts /\ rh r = ts_h ts * ts_count ts /\
              zlen (rpx r) = ts_w ts * (ts_h ts * ts_count ts).
Proof. exact loaded_tileset_image. Qed.
Print Assumptions C05_tileset_image.

(* the whole public API walk of Model/Dump.v (STRUCT, FRAMES, CELS, TILES: every accessor, every
   frame, layer, cel route, tileset, tile, tilemap, and tile lookups on a grid and at the
   corners of the u32 range), for observation options with non-negative caps *)
Theorem C05_walk : forall (inflate : list Z -> Z -> zres) (bs : list Z) (f : file),
  Forall is_byte bs -> load inflate bs = Ok f ->
  forall o bit,
  (forall m, o_max_frames o = Some m -> 0 <= m) /\ (forall m, o_max_layers o = Some m -> 0 <= m) ->
  (exists ls, section f o bit = Ok ls) \/ section f o bit = Panic 302.
Proof. exact loaded_walk. Qed.
Print Assumptions C05_walk.

Theorem C05_walk_total : forall (Mok : Z -> Prop),
  (forall m b s o, Mok m -> pix_wf b -> pix_wf s -> is_byte o -> exists p, blend m b s o = Some p /\ pix_wf p) ->
  forall (inflate : list Z -> Z -> zres),
  (forall z n out, inflate z n = ZOk out -> Forall is_byte out) ->
  forall (bs : list Z) (f : file),
  Forall is_byte bs -> load inflate bs = Ok f ->
  (forall i l, aget (f_layers f) i = Some l -> Mok (l_blend l)) ->
  forall o bit,
  (forall m, o_max_frames o = Some m -> 0 <= m) /\ (forall m, o_max_layers o = Some m -> 0 <= m) ->
  exists ls, section f o bit = Ok ls.
Proof. exact loaded_walk_total. Qed.
Print Assumptions C05_walk_total.
