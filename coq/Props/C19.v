(* C19: access paths agree. *)
From Ase Require Import Base.Prelude.
From Ase Require Import Model.Render.
From Ase Require Import Proofs.Layers.
From Ase Require Import Proofs.RenderFrame.
From Ase Require Import Spec.Compose.

(* The model represents the three Rust routes to a cel (Frame::layer, Layer::frame,
   AsepriteFile::cel) by the single function route_cel, whose first argument names the route:
   each constructor performs the same two range assertions and builds the same
   CelId { frame, layer }.  Route independence is therefore immediate in the model; that the
   three Rust constructors behave alike is checked against the implementation by the harness. *)
Theorem C19_routes : forall f r1 r2 fr l, route_cel f r1 fr l = route_cel f r2 fr l.
Proof. exact route_cel_indep. Qed.
Print Assumptions C19_routes.

Theorem C19_route_ok : forall f r fr l id, route_cel f r fr l = Ok id ->
  id = (fr, l) /\ 0 <= fr < num_frames f /\ 0 <= l < num_layers f.
Proof. exact route_cel_ok. Qed.
Print Assumptions C19_route_ok.

(* the cels reached denote the same (frame, layer) pair, hence report identical emptiness,
   offset, user data, tilemap flag and image *)
Theorem C19_accessors_agree : forall f r1 r2 fr l id1 id2,
  route_cel f r1 fr l = Ok id1 -> route_cel f r2 fr l = Ok id2 ->
  id1 = (fr, l) /\ id2 = (fr, l) /\
  cel_is_empty f id1 = cel_is_empty f id2 /\ cel_top_left f id1 = cel_top_left f id2 /\
  cel_user_data f id1 = cel_user_data f id2 /\ cel_is_tilemap f id1 = cel_is_tilemap f id2 /\
  cel_image f id1 = cel_image f id2.
Proof. exact route_accessors_agree. Qed.
Print Assumptions C19_accessors_agree.

(* a frame in which exactly one visible layer has a cel renders exactly that cel's image
   (equal outcomes, including the failing ones) *)
Theorem C19_single : forall f fr l c, 0 <= fr < num_frames f -> 0 <= l ->
  cel_at f fr l = Some c -> layer_is_visible f l = Ok true ->
  (forall k, 0 <= k -> k <> l -> cel_at f fr k = None \/ hidden f k) ->
  frame_image f fr = cel_image f (fr, l).
Proof. exact frame_single. Qed.
Print Assumptions C19_single.

(* a tilemap's image equals the image of its cel *)
Theorem C19_tilemap_image : forall f t, tilemap_image f t = cel_image f (tmv_frame t, tmv_layer t).
Proof. exact tilemap_image_is_cel_image. Qed.
Print Assumptions C19_tilemap_image.
