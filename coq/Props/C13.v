(* C13: every strict prefix of a valid file that ends before the end of its last frame fails
   to load with an error; it never loads as a smaller or different sprite.
   `load_rest inflate bs = Ok (f, rest)`: bs loads as f and `rest` are the bytes after the
   last frame, so `length bs - length rest` is the offset of the end of the last frame. *)
From Ase Require Import Proofs.Truncation.

Theorem C13_truncation :
  forall (inflate : list Z -> Z -> zres) (bs : list Z) (f : file) (rest : list Z) (m : nat),
    load_rest inflate bs = Ok (f, rest) ->
    (m < length bs - length rest)%nat ->
    load inflate (firstn m bs) = Err eof.
Proof. exact load_truncated. Qed.
Print Assumptions C13_truncation.

Theorem C13_extension :
  forall (inflate : list Z -> Z -> zres) (bs : list Z) (f : file) (rest : list Z),
    load_rest inflate bs = Ok (f, rest) ->
    forall tail : list Z,
      load inflate (firstn (length bs - length rest) bs ++ tail) = Ok f.
Proof. exact load_extension. Qed.
Print Assumptions C13_extension.

(* every prefix classified: those that end before the end of the last frame fail with UnexpectedEof,
   all the others load as the very same sprite *)
Theorem C13_prefix_classified :
  forall (inflate : list Z -> Z -> zres) (bs : list Z) (f : file) (rest : list Z),
    load_rest inflate bs = Ok (f, rest) ->
    forall m : nat,
      load inflate (firstn m bs) = if (m <? length bs - length rest)%nat then Err eof else Ok f.
Proof. exact load_prefix_classified. Qed.
Print Assumptions C13_prefix_classified.

(* no prefix loads as a smaller or different sprite *)
Theorem C13_prefix_never_other :
  forall (inflate : list Z -> Z -> zres) (bs : list Z) (f : file) (rest : list Z),
    load_rest inflate bs = Ok (f, rest) ->
    forall (m : nat) (g : file), load inflate (firstn m bs) = Ok g -> g = f /\ (length bs - length rest <= m)%nat.
Proof. exact load_prefix_never_other. Qed.
Print Assumptions C13_prefix_never_other.
