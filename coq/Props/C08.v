(* C08: tilemap and tileset views agree. *)
From Ase Require Import Base.Prelude.
From Ase Require Import Model.Render.
From Ase Require Import Proofs.RenderFrame.
From Ase Require Import Proofs.TilemapProofs.
From Ase Require Import Spec.Compose.

(* AsepriteFile::tilemap: what a returned tilemap is *)
Theorem C08_tilemap : forall f l fr t, tilemap_of f l fr = Ok (Some t) ->
  tmv_frame t = fr /\ tmv_layer t = l /\
  0 <= l < num_layers f /\ 0 <= fr < num_frames f /\
  (exists lay, layer_get f l = Ok lay /\ l_type lay = 2 /\ zfind (l_tileset lay) (f_tilesets f) = Some (tmv_ts t)) /\
  cel_is_tilemap f (fr, l) = Ok true /\
  ts_w (tmv_ts t) <> 0 /\ ts_h (tmv_ts t) <> 0 /\
  tmv_w t = (f_width f + ts_w (tmv_ts t) - 1) / ts_w (tmv_ts t) /\
  tmv_h t = (f_height f + ts_h (tmv_ts t) - 1) / ts_h (tmv_ts t) /\
  tmv_w t < 65536 /\ tmv_h t < 65536.
Proof. exact tilemap_of_spec. Qed.
Print Assumptions C08_tilemap.

(* its size in tiles is the canvas size divided by the tile size, rounded up *)
Theorem C08_size : forall f l fr t, tilemap_of f l fr = Ok (Some t) ->
  0 < ts_w (tmv_ts t) -> 0 < ts_h (tmv_ts t) ->
  (tmv_w t - 1) * ts_w (tmv_ts t) < f_width f <= tmv_w t * ts_w (tmv_ts t) /\
  (tmv_h t - 1) * ts_h (tmv_ts t) < f_height f <= tmv_h t * ts_h (tmv_ts t).
Proof. exact tilemap_of_size. Qed.
Print Assumptions C08_size.

(* the tile offsets are the cel offset divided by the tile size (truncating) *)
Theorem C08_offsets : forall f t ox oy, tilemap_tile_offsets f t = Ok (ox, oy) ->
  exists x y, cel_top_left f (tmv_frame t, tmv_layer t) = Ok (x, y) /\
    ts_w (tmv_ts t) <> 0 /\ ts_h (tmv_ts t) <> 0 /\
    ox = Z.quot x (ts_w (tmv_ts t)) /\ oy = Z.quot y (ts_h (tmv_ts t)).
Proof. exact tile_offsets_spec. Qed.
Print Assumptions C08_offsets.

(* Tilemap::tile at all integer coordinates: outside the stored area the empty tile 0, inside the
   stored id *)
Theorem C08_lookup : forall f t ox oy d, tilemap_tile_offsets f t = Ok (ox, oy) -> tilemap_data f t = Ok d ->
  forall x y,
    (~ (0 <= x - ox < tm_w d /\ 0 <= y - oy < tm_h d) -> tilemap_tile f t x y = Ok 0) /\
    (0 <= x - ox < tm_w d /\ 0 <= y - oy < tm_h d ->
       tilemap_tile f t x y =
       match aget (tm_tiles d) ((y - oy) * tm_w d + (x - ox)) with Some id => Ok id | None => Panic 315 end).
Proof. exact tilemap_tile_spec. Qed.
Print Assumptions C08_lookup.

(* each tile image has exactly the tile size *)
Theorem C08_tile_image_dims : forall ts i r, tile_image ts i = Ok r ->
  0 <= i < ts_count ts /\ rw r = ts_w ts /\ rh r = ts_h ts /\
  (0 <= ts_w ts * ts_h ts -> zlen (rpx r) = ts_w ts * ts_h ts).
Proof. exact tile_image_dims. Qed.
Print Assumptions C08_tile_image_dims.

(* the tileset image is the tile images stacked vertically in index order *)
Theorem C08_tileset_stacked : forall ts full tile i, tileset_image ts = Ok full -> tile_image ts i = Ok tile ->
  0 <= ts_w ts -> 0 <= ts_h ts ->
  rw full = ts_w ts /\ rh full = ts_h ts * ts_count ts /\
  rpx tile = firstn_z (ts_w ts * ts_h ts) (skipn_z (i * (ts_w ts * ts_h ts)) (rpx full)) /\
  forall r c, 0 <= r < ts_h ts -> 0 <= c < ts_w ts ->
    nthz (rpx full) ((i * ts_h ts + r) * ts_w ts + c) = nthz (rpx tile) (r * ts_w ts + c).
Proof. exact tileset_stacked. Qed.
Print Assumptions C08_tileset_stacked.

(* the tilemap's image is the image of its cel *)
Theorem C08_tilemap_image : forall f t, tilemap_image f t = cel_image f (tmv_frame t, tmv_layer t).
Proof. exact tilemap_image_is_cel_image. Qed.
Print Assumptions C08_tilemap_image.

(* for a tile-aligned cel, the tilemap image shows at each canvas position the pixel of the tile
   that the lookup reports for that position, alpha scaled by the opacity; where the lookup
   falls outside the stored area it reports tile 0 and the image is transparent *)
Theorem C08_image_lookup : forall f l fr t img ox oy,
  render_wf f -> tilemap_of f l fr = Ok (Some t) -> tilemap_image f t = Ok img ->
  cel_top_left f (fr, l) = Ok (ox * ts_w (tmv_ts t), oy * ts_h (tmv_ts t)) ->
  exists lay c tm px,
    aget (f_layers f) l = Some lay /\ cel_at f fr l = Some c /\ c_content c = CTilemap tm /\
    ts_pixels (tmv_ts t) = Some px /\
    tilemap_tile_offsets f t = Ok (ox, oy) /\
    iw img = f_width f /\ ih img = f_height f /\
    forall x y, 0 <= x < f_width f -> 0 <= y < f_height f ->
      let tw := ts_w (tmv_ts t) in
      let th := ts_h (tmv_ts t) in
      (0 <= x / tw - ox < tm_w tm /\ 0 <= y / th - oy < tm_h tm ->
         exists id s, tilemap_tile f t (x / tw) (y / th) = Ok id /\
                      pixels_get px (tw * th * id + ((y mod th) * tw + x mod tw)) = Some s /\
                      img_get img x y = scale_alpha s (cel_opacity lay c)) /\
      (~ (0 <= x / tw - ox < tm_w tm /\ 0 <= y / th - oy < tm_h tm) ->
         tilemap_tile f t (x / tw) (y / th) = Ok 0 /\ img_get img x y = transparent).
Proof. exact tilemap_image_lookup. Qed.
Print Assumptions C08_image_lookup.
