(* C02: a frame's image is the bottom-to-top composition of its visible cels. *)
From Ase Require Import Base.Prelude.
From Ase Require Import Model.Render.
From Ase Require Import Proofs.Layers.
From Ase Require Import Proofs.RenderRaw.
From Ase Require Import Proofs.RenderFrame.
From Ase Require Import Spec.Compose.
From Ase Require Import Proofs.RenderValid.

(* the frame image has the canvas dimensions (no side conditions) *)
Theorem C02_dims : forall f fr img, frame_image f fr = Ok img -> iw img = f_width f /\ ih img = f_height f.
Proof. exact frame_image_dims. Qed.
Print Assumptions C02_dims.

(* every canvas pixel is the fold of Spec/Compose.v: starting from the transparent pixel, for
   each layer id in ascending order that has a cel in the frame and is visible, the cel (one link
   followed) blends its pixel at that position, if it has one there, with the layer's blend mode
   and opacity mul_un8 (layer opacity) (cel opacity); raw cels in all three pixel formats and
   tilemap cels *)
Theorem C02_compose : forall f fr img, render_wf f -> frame_image f fr = Ok img ->
  iw img = f_width f /\ ih img = f_height f /\
  forall x y, 0 <= x < f_width f -> 0 <= y < f_height f -> spec_pixel f fr x y = Some (img_get img x y).
Proof. exact frame_image_compose. Qed.
Print Assumptions C02_compose.

(* a pixel inside no visible cel's rectangle stays fully transparent *)
Theorem C02_uncovered : forall f fr img x y, render_wf f -> frame_image f fr = Ok img ->
  0 <= x < f_width f -> 0 <= y < f_height f ->
  (forall l c0 lay c, 0 <= l < num_layers f -> cel_at f fr l = Some c0 -> visibleb f l = true ->
     aget (f_layers f) l = Some lay -> resolve f c0 l = Some c -> cel_covers f lay c x y = false) ->
  img_get img x y = transparent.
Proof. exact frame_uncovered. Qed.
Print Assumptions C02_uncovered.

(* the order in which cel chunks are stored does not matter: adding two cels with different
   (frame, layer) keys in either order succeeds alike and yields tables with identical rows *)
Theorem C02_order : forall t n f1 c1 f2 c2 t1 t12,
  0 <= f1 -> 0 <= f2 -> (f1, cc_layer (c_data c1)) <> (f2, cc_layer (c_data c2)) ->
  table_add_cel t n f1 c1 = Ok t1 -> table_add_cel t1 n f2 c2 = Ok t12 ->
  exists t2 t21, table_add_cel t n f2 c2 = Ok t2 /\ table_add_cel t2 n f1 c1 = Ok t21 /\
    (forall fr, get_row t12 fr = get_row t21 fr) /\
    (forall nf fr l, table_cel t12 nf fr l = table_cel t21 nf fr l).
Proof. exact table_add_cel_comm. Qed.
Print Assumptions C02_order.

(* and the frame image reads the cel table only through its rows *)
Theorem C02_order_image : forall f t' fr, (forall fr, get_row t' fr = get_row (f_cels f) fr) ->
  frame_image (with_cels f t') fr = frame_image f fr.
Proof. exact frame_image_rows. Qed.
Print Assumptions C02_order_image.

(* write_raw_cel_to_image per pixel: inside the cel rectangle (clipped to the canvas) the old pixel
   is blended with the stored pixel; everything else is unchanged *)
Theorem C02_write_raw : forall img cc w h px mode lop img',
  write_raw img cc w h px mode lop = Ok img' ->
  iw img' = iw img /\ ih img' = ih img /\
  forall x y, 0 <= x < iw img -> 0 <= y < ih img ->
    (cc_x cc <= x < cc_x cc + w /\ cc_y cc <= y < cc_y cc + h ->
       exists p, aget px ((y - cc_y cc) * w + (x - cc_x cc)) = Some p /\
                 Some (img_get img' x y) = blend mode (img_get img x y) p (mul_un8 lop (cc_opacity cc))) /\
    (~ (cc_x cc <= x < cc_x cc + w /\ cc_y cc <= y < cc_y cc + h) -> img_get img' x y = img_get img x y).
Proof. exact write_raw_spec. Qed.
Print Assumptions C02_write_raw.

(* it returns unless a blend function panics, once the buffer holds w*h pixels *)
Theorem C02_write_raw_total : forall img cc w h px mode lop,
  0 <= w -> (forall i, 0 <= i < w * h -> aget px i <> None) ->
  (exists img', write_raw img cc w h px mode lop = Ok img') \/ write_raw img cc w h px mode lop = Panic 302.
Proof. exact write_raw_ok_or_blend_panic. Qed.
Print Assumptions C02_write_raw_total.

(* write_tilemap_cel_to_image per pixel *)
Theorem C02_write_tilemap : forall img cc tm tw th px mode lop img',
  0 < tw -> 0 < th ->
  write_tilemap img cc tm tw th px mode lop = Ok img' ->
  iw img' = iw img /\ ih img' = ih img /\
  forall x y, 0 <= x < iw img -> 0 <= y < ih img ->
    let dx := x - cc_x cc in
    let dy := y - cc_y cc in
    (0 <= dx < tm_w tm * tw /\ 0 <= dy < tm_h tm * th ->
       exists tile_id p,
         aget (tm_tiles tm) ((dy / th) * tm_w tm + dx / tw) = Some tile_id /\
         aget px (tw * th * tile_id + ((dy mod th) * tw + dx mod tw)) = Some p /\
         Some (img_get img' x y) = blend mode (img_get img x y) p (mul_un8 lop (cc_opacity cc))) /\
    (~ (0 <= dx < tm_w tm * tw /\ 0 <= dy < tm_h tm * th) -> img_get img' x y = img_get img x y).
Proof. exact write_tilemap_spec. Qed.
Print Assumptions C02_write_tilemap.

Theorem C02_write_tilemap_total : forall img cc tm tw th px mode lop,
  (forall i, 0 <= i < tm_w tm * tm_h tm ->
     exists tid, aget (tm_tiles tm) i = Some tid /\ 0 <= tid /\ tw * th * (tid + 1) <= alen px) ->
  (forall i, 0 <= i < alen px -> aget px i <> None) ->
  (exists img', write_tilemap img cc tm tw th px mode lop = Ok img') \/
  write_tilemap img cc tm tw th px mode lop = Panic 302.
Proof. exact write_tilemap_ok_or_blend_panic. Qed.
Print Assumptions C02_write_tilemap_total.

(* end to end: for every file that loads (from bytes), with no further hypothesis
   (uses the invariant Valid of Proofs/Valid.v established by load) *)
Theorem C02_compose_loaded : forall inflate bs f fr img, Forall is_byte bs -> load inflate bs = Ok f ->
  frame_image f fr = Ok img ->
  iw img = f_width f /\ ih img = f_height f /\
  forall x y, 0 <= x < f_width f -> 0 <= y < f_height f -> spec_pixel f fr x y = Some (img_get img x y).
Proof. exact frame_image_compose_loaded. Qed.
Print Assumptions C02_compose_loaded.

(* ... and a pixel inside no visible cel's rectangle is fully transparent, for every file that loads *)
Theorem C02_uncovered_loaded : forall (inflate : list Z -> Z -> zres) bs f fr img x y,
  Forall is_byte bs -> load inflate bs = Ok f -> frame_image f fr = Ok img ->
  0 <= x < f_width f -> 0 <= y < f_height f ->
  (forall l c0 lay c, 0 <= l < num_layers f -> cel_at f fr l = Some c0 -> visibleb f l = true ->
     aget (f_layers f) l = Some lay -> resolve f c0 l = Some c -> cel_covers f lay c x y = false) ->
  img_get img x y = transparent.
Proof. exact frame_uncovered_loaded. Qed.
Print Assumptions C02_uncovered_loaded.
