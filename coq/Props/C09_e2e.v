(* C09 end to end: for every serialised well-formed chunk program that loads, Layer::parent and Layer::is_visible of the
   loaded sprite are the nesting rule applied to the layer chunks of the program (prog_layers s, in file order). *)
From Ase Require Import Model.Api.
From Ase Require Import Spec.Serialize.
From Ase Require Import Proofs.Layers.
From Ase Require Import Proofs.EndToEnd.
From Ase Require Import Proofs.EndToEndLayers.

Theorem C09_e2e_parent :
  forall (inflate : list Z -> Z -> zres) (s : sprite_prog) (tail : list Z) (f : file),
    wf_prog s -> inflate_ok inflate s -> load inflate (serialize s ++ tail) = Ok f ->
    forall (i : Z) (l0 : layer), nthz (prog_layers s) i = Some l0 ->
      (l_level l0 = 0 -> layer_parent f i = Ok None) /\
      (l_level l0 <> 0 -> exists p, layer_parent f i = Ok (Some p) /\ nearest (prog_layers s) i p).
Proof. exact e2e_layer_parent. Qed.
Print Assumptions C09_e2e_parent.

Theorem C09_e2e_visible :
  forall (inflate : list Z -> Z -> zres) (s : sprite_prog) (tail : list Z) (f : file),
    wf_prog s -> inflate_ok inflate s -> load inflate (serialize s ++ tail) = Ok f ->
    forall (i : Z) (l0 : layer), nthz (prog_layers s) i = Some l0 ->
      layer_is_visible f i
      = Ok (forallb (fun j => match nthz (prog_layers s) j with Some l => layer_visible_flag l | None => false end)
                    (i :: ancestors f i)).
Proof. exact e2e_layer_visible. Qed.
Print Assumptions C09_e2e_visible.

Theorem C09_e2e_num_layers :
  forall (inflate : list Z -> Z -> zres) (s : sprite_prog) (tail : list Z) (f : file),
    wf_prog s -> inflate_ok inflate s -> load inflate (serialize s ++ tail) = Ok f ->
    num_layers f = zlen (prog_layers s).
Proof. exact e2e_num_layers'. Qed.
Print Assumptions C09_e2e_num_layers.
