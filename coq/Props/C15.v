(* C15: a file that uses a feature the library documents as unsupported fails to load.

   Reading the statements.  `run framing bs = Ok ((rh, frames), rest)` (Spec/Framing.v) splits
   the byte stream bs into the header fields and, per frame, the list of (chunk type, payload)
   pairs, without decoding any payload; framing is a function of bs alone.  "The file uses the
   feature at some position" = framing delivers a chunk of the relevant type whose payload has
   the offending value at the field's byte offset (`byte_at`, `word_at`, `dword_at`: the
   little-endian value at an offset of a byte list), or the header bytes have it.
   Conclusion: `load inflate bs` is not `Ok f` for any f (it is `Err _` or `Panic _`), for every
   inflate function.  Chunk types: 8196 layer, 8197 cel, 8199 colour profile, 8216 tags,
   8227 tileset. *)
From Ase Require Import Proofs.Refusals.

(* the propagation principle the chunk-level theorems rest on: when a file loads, every chunk
   delivered by framing was decoded successfully by the decoder of its kind *)
Theorem C15_propagation :
  forall (inflate : list Z -> Z -> zres) (bs : list Z) (f : file),
    load inflate bs = Ok f ->
    exists rh frames fmt rest,
      run framing bs = Ok ((rh, frames), rest) /\
      parse_pixel_format (rh_depth rh) (rh_transparent rh) = Ok fmt /\
      Forall (fun fr => Forall (chunk_accepted inflate fmt) (snd fr)) frames.
Proof. exact load_ok_chunks. Qed.
Print Assumptions C15_propagation.

(* header bytes 34 and 35: pixel width and height *)
Theorem C15_pixel_ratio :
  forall (inflate : list Z -> Z -> zres) (bs : list Z) (pw ph : Z),
    byte_at bs 34 = Some pw -> byte_at bs 35 = Some ph ->
    pw <> 0 -> ph <> 0 -> ~ (pw = 1 /\ ph = 1) ->
    forall f : file, load inflate bs <> Ok f.
Proof. exact load_pixel_ratio_refused. Qed.
Print Assumptions C15_pixel_ratio.

(* header bytes 12..13: colour depth *)
Theorem C15_color_depth :
  forall (inflate : list Z -> Z -> zres) (bs : list Z) (d : Z),
    word_at bs 12 = Some d -> d <> 8 -> d <> 16 -> d <> 32 ->
    forall f : file, load inflate bs <> Ok f.
Proof. exact load_color_depth_refused. Qed.
Print Assumptions C15_color_depth.

(* layer chunk, bytes 2..3: layer type *)
Theorem C15_layer_type :
  forall (inflate : list Z -> Z -> zres) (bs : list Z) (rh : rawheader) (frames : list rawframe) (rest : list Z),
    run framing bs = Ok ((rh, frames), rest) ->
    forall (dur : Z) (chunks : list rawchunk), In (dur, chunks) frames ->
    forall (data : list Z) (v : Z),
      In (8196, data) chunks -> word_at data 2 = Some v -> 2 < v ->
      forall f : file, load inflate bs <> Ok f.
Proof. exact load_layer_type_refused. Qed.
Print Assumptions C15_layer_type.

(* layer chunk, bytes 10..11: blend mode *)
Theorem C15_blend_mode :
  forall (inflate : list Z -> Z -> zres) (bs : list Z) (rh : rawheader) (frames : list rawframe) (rest : list Z),
    run framing bs = Ok ((rh, frames), rest) ->
    forall (dur : Z) (chunks : list rawchunk), In (dur, chunks) frames ->
    forall (data : list Z) (v : Z),
      In (8196, data) chunks -> word_at data 10 = Some v -> 18 < v ->
      forall f : file, load inflate bs <> Ok f.
Proof. exact load_blend_mode_refused. Qed.
Print Assumptions C15_blend_mode.

(* cel chunk, bytes 7..8: cel type *)
Theorem C15_cel_type :
  forall (inflate : list Z -> Z -> zres) (bs : list Z) (rh : rawheader) (frames : list rawframe) (rest : list Z),
    run framing bs = Ok ((rh, frames), rest) ->
    forall (dur : Z) (chunks : list rawchunk), In (dur, chunks) frames ->
    forall (data : list Z) (v : Z),
      In (8197, data) chunks -> word_at data 7 = Some v -> 3 < v ->
      forall f : file, load inflate bs <> Ok f.
Proof. exact load_cel_type_refused. Qed.
Print Assumptions C15_cel_type.

(* tilemap cel (cel type 3), bytes 20..21: bits per tile *)
Theorem C15_bits_per_tile :
  forall (inflate : list Z -> Z -> zres) (bs : list Z) (rh : rawheader) (frames : list rawframe) (rest : list Z),
    run framing bs = Ok ((rh, frames), rest) ->
    forall (dur : Z) (chunks : list rawchunk), In (dur, chunks) frames ->
    forall (data : list Z) (bits : Z),
      In (8197, data) chunks -> word_at data 7 = Some 3 -> word_at data 20 = Some bits -> bits <> 32 ->
      forall f : file, load inflate bs <> Ok f.
Proof. exact load_bits_per_tile_refused. Qed.
Print Assumptions C15_bits_per_tile.

(* tags chunk: the direction byte of the first tag (byte 14 of the payload, when the tag count
   at bytes 0..1 is positive), or of any tag when the payload is the encoding `enc_tags ts tail`
   (tag count, 8 bytes, then per tag: from, to, direction, repeat, 6 bytes, colour, name) *)
Theorem C15_anim_direction :
  forall (inflate : list Z -> Z -> zres) (bs : list Z) (rh : rawheader) (frames : list rawframe) (rest : list Z),
    run framing bs = Ok ((rh, frames), rest) ->
    forall (dur : Z) (chunks : list rawchunk), In (dur, chunks) frames ->
    forall data : list Z,
      In (8216, data) chunks ->
      ((exists n d, word_at data 0 = Some n /\ 0 < n /\ byte_at data 14 = Some d /\ 2 < d) \/
       (exists ts tail, data = enc_tags ts tail /\ Exists (fun t => 2 < t_dir t) ts)) ->
      forall f : file, load inflate bs <> Ok f.
Proof. exact load_anim_direction_refused. Qed.
Print Assumptions C15_anim_direction.

(* colour profile chunk, bytes 0..1 = 2: embedded ICC profile *)
Theorem C15_icc_profile :
  forall (inflate : list Z -> Z -> zres) (bs : list Z) (rh : rawheader) (frames : list rawframe) (rest : list Z),
    run framing bs = Ok ((rh, frames), rest) ->
    forall (dur : Z) (chunks : list rawchunk), In (dur, chunks) frames ->
    forall data : list Z,
      In (8199, data) chunks -> word_at data 0 = Some 2 ->
      forall f : file, load inflate bs <> Ok f.
Proof. exact load_icc_profile_refused. Qed.
Print Assumptions C15_icc_profile.

(* colour profile chunk, bytes 2..3, bit 0: fixed gamma *)
Theorem C15_fixed_gamma :
  forall (inflate : list Z -> Z -> zres) (bs : list Z) (rh : rawheader) (frames : list rawframe) (rest : list Z),
    run framing bs = Ok ((rh, frames), rest) ->
    forall (dur : Z) (chunks : list rawchunk), In (dur, chunks) frames ->
    forall (data : list Z) (flags : Z),
      In (8199, data) chunks -> word_at data 2 = Some flags -> Z.testbit flags 0 = true ->
      forall f : file, load inflate bs <> Ok f.
Proof. exact load_fixed_gamma_refused. Qed.
Print Assumptions C15_fixed_gamma.

(* colour profile chunk, bytes 0..1 > 2: a profile type the library does not know *)
Theorem C15_profile_type :
  forall (inflate : list Z -> Z -> zres) (bs : list Z) (rh : rawheader) (frames : list rawframe) (rest : list Z),
    run framing bs = Ok ((rh, frames), rest) ->
    forall (dur : Z) (chunks : list rawchunk), In (dur, chunks) frames ->
    forall (data : list Z) (v : Z),
      In (8199, data) chunks -> word_at data 0 = Some v -> 2 < v ->
      forall f : file, load inflate bs <> Ok f.
Proof. exact load_profile_type_refused. Qed.
Print Assumptions C15_profile_type.

(* tileset chunk: id at bytes 0..3, flags at bytes 4..7; flag value 2 = the pixels are embedded.
   The chunks of all frames in file order are `pre ++ (8227, data) :: post` where data has the
   flag clear and no later tileset chunk carries the same id (a later one would replace it). *)
Theorem C15_external_tileset :
  forall (inflate : list Z -> Z -> zres) (bs : list Z) (rh : rawheader) (frames : list rawframe) (rest : list Z)
         (id : Z),
    run framing bs = Ok ((rh, frames), rest) ->
    0 <= id ->
    (exists pre data post fl,
        all_chunks frames = pre ++ (8227, data) :: post /\
        dword_at data 0 = Some id /\ dword_at data 4 = Some fl /\ Z.land fl 2 = 0 /\
        forall data' id', In (8227, data') post -> dword_at data' 0 = Some id' -> 0 <= id' /\ id' <> id) ->
    forall f : file, load inflate bs <> Ok f.
Proof. exact load_external_tileset_refused. Qed.
Print Assumptions C15_external_tileset.
