(* C02 end to end, from the bytes of a program to the pixels of its frames.  For a well-formed chunk program s
   (Spec/Serialize.v) that satisfies the load condition sprite_ok_ts (Props/C01_e2e.v: C01_load_serialize_iff says this is
   exactly when it loads) and whose layers use the integer blend modes or soft light, followed by any bytes:
   the load succeeds, and EVERY frame renders to an image of the canvas size of the header in which every pixel is the
   bottom-to-top composition formula of Spec/Compose.v and consists of bytes.  This joins C01 (what the loaded sprite
   holds), C05 (the render returns), C17 (the blend functions return bytes) and C02_compose.  The four HSL modes are left
   out because their range theorem carries the computable guard hsl_ok (Props/C17.v). *)
From Ase Require Import Model.Api.
From Ase Require Import Model.Render.
From Ase Require Import Spec.Serialize.
From Ase Require Import Spec.Compose.
From Ase Require Import Proofs.EndToEnd.
From Ase Require Import Proofs.EndToEndTilesets.
From Ase Require Import Proofs.EndToEndTotalTs.
From Ase Require Import Proofs.EndToEndRender.

Theorem C02_e2e_render :
  forall (inflate : list Z -> Z -> zres) (s : sprite_prog) (tail : list Z),
    wf_prog s -> inflate_ok inflate s -> (forall z n out, inflate z n = ZOk out -> Forall is_byte out) -> all_bytes tail ->
    sprite_ok_ts s ->
    (forall l, In l (prog_layers s) -> In (l_blend l) [0; 1; 2; 3; 4; 5; 6; 7; 8; 9; 10; 11; 16; 17; 18]) ->
    exists f,
      load inflate (serialize s ++ tail) = Ok f /\
      forall fr, 0 <= fr < zlen (sp_frames s) ->
        exists img,
          frame_image f fr = Ok img /\
          iw img = hf_width (sp_header s) /\ ih img = hf_height (sp_header s) /\
          forall x y, 0 <= x < hf_width (sp_header s) -> 0 <= y < hf_height (sp_header s) ->
            spec_pixel f fr x y = Some (img_get img x y) /\ pix_wf (img_get img x y).
Proof. exact e2e_render. Qed.
Print Assumptions C02_e2e_render.

(* non-vacuity: the tileset example (tilemap layer in Screen mode, two tileset chunks, a tilemap cel) meets the hypotheses *)
Theorem C02_e2e_render_example :
  forall tail : list Z, all_bytes tail ->
  exists f, load TilesetExample.ex_inflate (serialize TilesetExample.ts_prog ++ tail) = Ok f /\
    exists img, frame_image f 0 = Ok img /\ iw img = 4 /\ ih img = 3 /\
      forall x y, 0 <= x < 4 -> 0 <= y < 3 -> spec_pixel f 0 x y = Some (img_get img x y) /\ pix_wf (img_get img x y).
Proof. exact ts_renders. Qed.
Print Assumptions C02_e2e_render_example.
