(* C14: loading depends only on the byte sequence, not on how the reader delivers it; an
   I/O error reported before the needed data has been delivered is returned as the
   I/O-error variant carrying that error, never a panic and never a sprite.
   Vocabulary: Model/Sched.v (ev, run_sched_load, run_fault_load) and
   Proofs/SchedProofs.v (no_hard, capacity, count_short). *)
From Ase Require Import Proofs.SchedProofs.
From Ase Require Import Proofs.SchedCorollaries.

(* short reads and interrupted reads in any order: the same result as on the slice *)
Theorem C14_schedule :
  forall (inflate : list Z -> Z -> zres) (data : list Z) (sched : list ev),
    no_hard sched ->
    run_sched_load inflate data sched = load inflate data.
Proof. exact run_sched_load_indep. Qed.
Print Assumptions C14_schedule.

(* a reader that fails with `kind` once `limit` bytes have been delivered *)
Theorem C14_fault_offset :
  forall (inflate : list Z -> Z -> zres) (data : list Z) (limit : nat) (kind : Z),
    (run_fault_load inflate data (Z.of_nat limit) kind = load inflate data \/
     run_fault_load inflate data (Z.of_nat limit) kind = Err (EIo kind)) /\
    (forall (f : file) (rest : list Z),
       load_rest inflate data = Ok (f, rest) ->
       ((length data - length rest <= limit)%nat ->
          run_fault_load inflate data (Z.of_nat limit) kind = Ok f) /\
       ((limit < length data - length rest)%nat ->
          run_fault_load inflate data (Z.of_nat limit) kind = Err (EIo kind))).
Proof. exact fault_offset_thm. Qed.
Print Assumptions C14_fault_offset.

(* a schedule with hard errors in it *)
Theorem C14_fault_event :
  forall (inflate : list Z -> Z -> zres) (data : list Z) (sched : list ev),
    (run_sched_load inflate data sched = load inflate data \/
     exists k : Z, In (Hard k) sched /\ run_sched_load inflate data sched = Err (EIo k)) /\
    (forall (f : file) (rest : list Z) (pre : list ev) (k : Z) (post : list ev),
       load_rest inflate data = Ok (f, rest) ->
       sched = pre ++ Hard k :: post ->
       no_hard pre ->
       (capacity pre < Z.of_nat (length data - length rest) ->
          run_sched_load inflate data sched = Err (EIo k)) /\
       (Z.of_nat (length data - length rest) <= count_short pre ->
          run_sched_load inflate data sched = Ok f)).
Proof. exact fault_event_thm. Qed.
Print Assumptions C14_fault_event.

(* two readers that deliver the same bytes without a hard error give the same result *)
Theorem C14_schedules_agree :
  forall (inflate : list Z -> Z -> zres) (data : list Z) (s1 s2 : list ev),
    no_hard s1 -> no_hard s2 -> run_sched_load inflate data s1 = run_sched_load inflate data s2.
Proof. exact sched_load_agree. Qed.
Print Assumptions C14_schedules_agree.

(* whatever the reader does (short reads, interruptions, hard errors anywhere): never a panic *)
Theorem C14_sched_no_panic :
  forall (inflate : list Z -> Z -> zres) (data : list Z) (sched : list ev) (s : Z),
    Forall is_byte data -> run_sched_load inflate data sched <> Panic s.
Proof. exact sched_load_no_panic. Qed.
Print Assumptions C14_sched_no_panic.

Theorem C14_fault_no_panic :
  forall (inflate : list Z -> Z -> zres) (data : list Z) (limit : nat) (kind s : Z),
    Forall is_byte data -> run_fault_load inflate data (Z.of_nat limit) kind <> Panic s.
Proof. exact fault_load_no_panic. Qed.
Print Assumptions C14_fault_no_panic.

(* a sprite obtained through a faulty reader is the sprite of the plain load: an I/O error never
   produces a different sprite *)
Theorem C14_sched_ok_same :
  forall (inflate : list Z -> Z -> zres) (data : list Z) (sched : list ev) (f : file),
    run_sched_load inflate data sched = Ok f -> load inflate data = Ok f.
Proof. exact sched_load_ok_same. Qed.
Print Assumptions C14_sched_ok_same.
