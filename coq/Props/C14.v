(* C14: loading depends only on the byte sequence, not on how the reader delivers it; an
   I/O error reported before the needed data has been delivered is returned as the
   I/O-error variant carrying that error, never a panic and never a sprite.
   Vocabulary: Model/Sched.v (ev, run_sched_load, run_fault_load) and
   Proofs/SchedProofs.v (no_hard, capacity, count_short). *)
From Ase Require Import Proofs.SchedProofs.

(* short reads and interrupted reads in any order: the same result as on the slice *)
Theorem C14_schedule :
  forall (inflate : list Z -> Z -> zres) (data : list Z) (sched : list ev),
    no_hard sched ->
    run_sched_load inflate data sched = load inflate data.
Proof. exact run_sched_load_indep. Qed.
Print Assumptions C14_schedule.

(* a reader that fails with `kind` once `limit` bytes have been delivered *)
Theorem C14_fault_offset :
  forall (inflate : list Z -> Z -> zres) (data : list Z) (limit : nat) (kind : Z),
    (run_fault_load inflate data (Z.of_nat limit) kind = load inflate data \/
     run_fault_load inflate data (Z.of_nat limit) kind = Err (EIo kind)) /\
    (forall (f : file) (rest : list Z),
       load_rest inflate data = Ok (f, rest) ->
       ((length data - length rest <= limit)%nat ->
          run_fault_load inflate data (Z.of_nat limit) kind = Ok f) /\
       ((limit < length data - length rest)%nat ->
          run_fault_load inflate data (Z.of_nat limit) kind = Err (EIo kind))).
Proof. exact fault_offset_thm. Qed.
Print Assumptions C14_fault_offset.

(* a schedule with hard errors in it *)
Theorem C14_fault_event :
  forall (inflate : list Z -> Z -> zres) (data : list Z) (sched : list ev),
    (run_sched_load inflate data sched = load inflate data \/
     exists k : Z, In (Hard k) sched /\ run_sched_load inflate data sched = Err (EIo k)) /\
    (forall (f : file) (rest : list Z) (pre : list ev) (k : Z) (post : list ev),
       load_rest inflate data = Ok (f, rest) ->
       sched = pre ++ Hard k :: post ->
       no_hard pre ->
       (capacity pre < Z.of_nat (length data - length rest) ->
          run_sched_load inflate data sched = Err (EIo k)) /\
       (Z.of_nat (length data - length rest) <= count_short pre ->
          run_sched_load inflate data sched = Ok f)).
Proof. exact fault_event_thm. Qed.
Print Assumptions C14_fault_event.
