From Ase Require Import Base.Prelude Model.Blend Proofs.BlendLaws Proofs.BlendRef.
From Ase Require Spec.AseRef.

Theorem C03_int : forall (m : Z) (b s : pixel) (o : Z),
  In m [0; 1; 2; 3; 4; 5; 6; 7; 8; 10; 11; 16; 17; 18] ->
  pix_wf b -> pix_wf s -> is_byte o ->
  exists p, blend m b s o = Some p /\ pix_wf p /\
            AseRef.blend_n m (pack b) (pack s) o = Some (pack p).
Proof. exact C03_int_proof. Qed.
Print Assumptions C03_int.

Theorem C03_pack_faithful : forall (p : pixel), pix_wf p -> unpack (pack p) = p.
Proof. exact unpack_pack. Qed.
Print Assumptions C03_pack_faithful.

Theorem C03_soft_chan : forall (b s : Z), is_byte b -> is_byte s ->
  AseRef.blend_soft_light b s = Some (blend_soft_light b s).
Proof. exact C03_soft_chan_proof. Qed.
Print Assumptions C03_soft_chan.

Theorem C03_soft : forall (b s : pixel) (o : Z),
  pix_wf b -> pix_wf s -> is_byte o ->
  exists p, blend 9 b s o = Some p /\ pix_wf p /\
            AseRef.blend_n 9 (pack b) (pack s) o = Some (pack p).
Proof. exact C03_soft_proof. Qed.
Print Assumptions C03_soft.

Theorem C03_hsl_partial : forall (m : Z) (b s : pixel) (o : Z),
  m = 12 \/ m = 13 \/ m = 14 \/ m = 15 ->
  pix_wf b -> pix_wf s -> is_byte o ->
  hsl_guard m b s = true ->
  exists p, blend m b s o = Some p /\ pix_wf p /\
            AseRef.blend_n m (pack b) (pack s) o = Some (pack p).
Proof. exact C03_hsl_partial_proof. Qed.
Print Assumptions C03_hsl_partial.

Theorem C03_normal : forall (b s : pixel) (o : Z), pix_wf b -> pix_wf s -> is_byte o ->
  AseRef.rgba_blender_normal (pack b) (pack s) o = option_map pack (normal b s o).
Proof. exact ref_normal. Qed.
Print Assumptions C03_normal.

Theorem C03_merge : forall (n x : pixel) (o : Z), pix_wf n -> pix_wf x -> is_byte o ->
  AseRef.rgba_blender_merge (pack n) (pack x) o = pack (merge n x o).
Proof. exact ref_merge. Qed.
Print Assumptions C03_merge.

Theorem C03_wrapper : forall fr fm, refines fr fm -> baseline_ok fm ->
  refines (AseRef.RGBA_BLENDER_N fr) (blender fm).
Proof. exact ref_wrapper. Qed.
Print Assumptions C03_wrapper.

Theorem C03_int_baselines : Forall2 refines
  [ AseRef.rgba_blender_multiply; AseRef.rgba_blender_screen; AseRef.rgba_blender_overlay;
    AseRef.rgba_blender_darken; AseRef.rgba_blender_lighten; AseRef.rgba_blender_color_dodge;
    AseRef.rgba_blender_color_burn; AseRef.rgba_blender_hard_light; AseRef.rgba_blender_difference;
    AseRef.rgba_blender_exclusion; AseRef.rgba_blender_addition; AseRef.rgba_blender_subtract;
    AseRef.rgba_blender_divide ]
  [ blend_channel blend_multiply; blend_channel blend_screen; blend_channel blend_overlay;
    blend_channel blend_darken; blend_channel blend_lighten; blend_channel blend_color_dodge;
    blend_channel blend_color_burn; blend_channel blend_hard_light; blend_channel blend_difference;
    blend_channel blend_exclusion; addition_baseline; subtract_baseline;
    blend_channel blend_divide ].
Proof. exact ref_int_baselines_refine. Qed.
Print Assumptions C03_int_baselines.

Theorem C03_hsl_preclip : forall (m : Z) (b s : pixel),
  m = 12 \/ m = 13 \/ m = 14 \/ m = 15 -> pix_wf b -> pix_wf s ->
  hsl_src m b s = clip_color (hsl_preclip m b s) /\
  ref_hsl_rgb m (pack b) (pack s) = AseRef.clip_color (hsl_preclip m b s).
Proof. exact C03_hsl_preclip_proof. Qed.
Print Assumptions C03_hsl_preclip.
