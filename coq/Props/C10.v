(* C10: each user-data record is attached to the entity whose chunk most recently preceded it -
   a layer, a cel, a slice, the sprite (after a legacy palette chunk) or the successive tags
   after a tags chunk - and to no other entity; entities without a record report none;
   ignorable chunks in between do not break the association; text and colour are reported
   exactly when their flag is set.

   Vocabulary (Proofs/UserData.v).
   ev, step      the assembly as a fold of `step` over events: ELayer, ECel frame, ESlice, ETags,
                 EOldPal (legacy palette), EOther (frame header, new palette, external files,
                 tileset, profile, ignorable chunks), EUd (user data).  `step` consists of the
                 model's own add_layer / add_cel / add_slice / add_tags / add_user_data, and
                 `process_chunk` is "decode the chunk to an event, then step" (C10_step).
   ev_wf         events as the decoders produce them: new entities carry no user data, frame
                 numbers are not negative (chunk_ev_wf proves it for decoded chunks).
   entity        EntLayer i | EntCel frame layer | EntSlice i | EntTag i | EntSprite;
                 ud_of p e = Some o: entity e exists in state p and reports o (None = no record).
   owner r       (r = events so far, MOST RECENT FIRST) the entity a record arriving now is
                 attached to: the most recent layer / cel / slice / tags / legacy palette event,
                 EOther skipped; after tags, tag number = number of records since the tags event.
   window r e    the last record owned by e since e was created; None if there is none.
   layers_of, slices_of, tags_of, cel_of   the entities of a state in file order; these are what
                 `validate` puts into the file (C10_load). *)
From Ase Require Import Proofs.UserData.

(* process_chunk = decode to an event, then step *)
Theorem C10_step :
  forall (inflate : list Z -> Z -> zres) (fmt : pixfmt) (fid : Z) (p : pinfo) (ch : Z * list Z),
    process_chunk inflate fmt fid p ch =
    (e <-- chunk_ev inflate fmt fid (is_some (pi_palette p)) ch ;;; step p e).
Proof. exact process_chunk_step. Qed.
Print Assumptions C10_step.

(* the attachment context after a prefix = the entity owning the current stretch *)
Theorem C10_context_invariant :
  forall (n d : Z) (evs : list ev) (p : pinfo),
    Forall ev_wf evs ->
    rfold step evs (pinfo_new n d) = Ok p ->
    option_map ctx_entity (pi_ctx p) = owner (rev evs).
Proof. exact context_invariant. Qed.
Print Assumptions C10_context_invariant.

(* ignorable events do not move the owner *)
Theorem C10_ignorable : forall (o : other) (r : list ev), owner (EOther o :: r) = owner r.
Proof. exact owner_ignorable. Qed.
Print Assumptions C10_ignorable.

(* THE ATTACHMENT THEOREM: after a successful assembly every existing entity reports the last
   record it owns, and none if it owns none.  (No side condition on the number of records: when
   an entity received several, it is the last one; a record without owner, or more records than
   tags, makes the fold fail.) *)
Theorem C10_attach :
  forall (n d : Z) (evs : list ev) (p : pinfo),
    Forall ev_wf evs ->
    rfold step evs (pinfo_new n d) = Ok p ->
    forall (e : entity) (o : option userdata), ud_of p e = Some o -> o = window (rev evs) e.
Proof. exact ud_attach. Qed.
Print Assumptions C10_attach.

(* the rule spelled out in file order for a layer: evs = pre ++ layer ++ stretch ++ post where the
   stretch holds only ignorable events and records, and post is empty or starts with the next
   context-setting event: the layer reports the last record of its stretch *)
Theorem C10_attach_layer_file_order :
  forall (n d : Z) (p : pinfo) (pre : list ev) (l : layer) (mid post : list ev),
    Forall ev_wf (pre ++ ELayer l :: mid ++ post) ->
    forallb quiet mid = true ->
    (post = [] \/ exists c post', post = c :: post' /\ quiet c = false) ->
    rfold step (pre ++ ELayer l :: mid ++ post) (pinfo_new n d) = Ok p ->
    exists l', nthz (layers_of p) (count_layers pre) = Some l' /\ l_ud l' = last_opt (uds mid).
Proof. exact attach_layer_file_order. Qed.
Print Assumptions C10_attach_layer_file_order.

(* ... and for tags: the k-th record of the stretch after the tags event goes to tag k *)
Theorem C10_attach_tags_file_order :
  forall (n d : Z) (p : pinfo) (pre : list ev) (ts : list tag) (mid post : list ev),
    Forall ev_wf (pre ++ ETags ts :: mid ++ post) ->
    forallb quiet mid = true ->
    (post = [] \/ exists c post', post = c :: post' /\ quiet c = false /\
                                  forallb (fun x => negb (is_tags x)) post = true) ->
    rfold step (pre ++ ETags ts :: mid ++ post) (pinfo_new n d) = Ok p ->
    forall (k : Z) (t' : tag), nthz (tags_of p) k = Some t' -> t_ud t' = nthz (uds mid) k.
Proof. exact attach_tags_file_order. Qed.
Print Assumptions C10_attach_tags_file_order.

(* one step of attachment, per kind of context: the record is written to the context entity;
   every other layer / cel / slice / tag and the sprite are unchanged *)
Theorem C10_attach_layer :
  forall (p : pinfo) (i : Z) (u : userdata) (p' : pinfo),
    WF p -> pi_ctx p = Some (ULayer i) -> add_user_data p u = Ok p' ->
    (exists l, nthz (layers_of p) i = Some l /\ nthz (layers_of p') i = Some (set_layer_ud l u)) /\
    (forall k, k <> i -> nthz (layers_of p') k = nthz (layers_of p) k) /\
    pi_nlayers p' = pi_nlayers p /\ zlen (pi_layers_rev p') = zlen (pi_layers_rev p) /\
    same_slices p p' /\ pi_cels p' = pi_cels p /\ pi_tags p' = pi_tags p /\
    pi_sprite_ud p' = pi_sprite_ud p /\ pi_ctx p' = pi_ctx p.
Proof. exact attach_layer. Qed.
Print Assumptions C10_attach_layer.

Theorem C10_attach_cel :
  forall (p : pinfo) (f l : Z) (u : userdata) (p' : pinfo),
    0 <= f -> pi_ctx p = Some (UCel f l) -> add_user_data p u = Ok p' ->
    (exists c, cel_of p f l = Some c /\ cel_of p' f l = Some (set_cel_ud c u)) /\
    (forall f' l', (f', l') <> (f, l) -> cel_of p' f' l' = cel_of p f' l') /\
    same_layers p p' /\ same_slices p p' /\ pi_tags p' = pi_tags p /\
    pi_sprite_ud p' = pi_sprite_ud p /\ pi_ctx p' = pi_ctx p.
Proof. exact attach_cel. Qed.
Print Assumptions C10_attach_cel.

Theorem C10_attach_slice :
  forall (p : pinfo) (i : Z) (u : userdata) (p' : pinfo),
    WF p -> pi_ctx p = Some (USlice i) -> add_user_data p u = Ok p' ->
    (exists s, nthz (slices_of p) i = Some s /\ nthz (slices_of p') i = Some (set_slice_ud s u)) /\
    (forall k, k <> i -> nthz (slices_of p') k = nthz (slices_of p) k) /\
    pi_nslices p' = pi_nslices p /\ zlen (pi_slices_rev p') = zlen (pi_slices_rev p) /\
    same_layers p p' /\ pi_cels p' = pi_cels p /\ pi_tags p' = pi_tags p /\
    pi_sprite_ud p' = pi_sprite_ud p /\ pi_ctx p' = pi_ctx p.
Proof. exact attach_slice. Qed.
Print Assumptions C10_attach_slice.

(* after a tag the context moves on to the next tag *)
Theorem C10_attach_tag :
  forall (p : pinfo) (i : Z) (u : userdata) (p' : pinfo),
    pi_ctx p = Some (UTag i) -> add_user_data p u = Ok p' ->
    (exists t, nthz (tags_of p) i = Some t /\ nthz (tags_of p') i = Some (set_tag_ud t u)) /\
    (forall k, k <> i -> nthz (tags_of p') k = nthz (tags_of p) k) /\
    same_layers p p' /\ same_slices p p' /\ pi_cels p' = pi_cels p /\
    pi_sprite_ud p' = pi_sprite_ud p /\ pi_ctx p' = Some (UTag (i + 1)).
Proof. exact attach_tag. Qed.
Print Assumptions C10_attach_tag.

Theorem C10_attach_sprite :
  forall (p : pinfo) (u : userdata) (p' : pinfo),
    pi_ctx p = Some UOldPalette -> add_user_data p u = Ok p' ->
    pi_sprite_ud p' = Some u /\
    same_layers p p' /\ same_slices p p' /\ pi_cels p' = pi_cels p /\ pi_tags p' = pi_tags p /\
    pi_ctx p' = pi_ctx p.
Proof. exact attach_sprite. Qed.
Print Assumptions C10_attach_sprite.

(* a record with no entity before it is refused *)
Theorem C10_no_context :
  forall (p : pinfo) (u : userdata), pi_ctx p = None -> add_user_data p u = Err EInvalid.
Proof. exact attach_no_context. Qed.
Print Assumptions C10_no_context.

(* "and to nothing else", uniformly: exactly the context entity changes, by getting the record *)
Theorem C10_frame :
  forall (p : pinfo) (u : userdata) (p' : pinfo),
    WF p -> (forall f l, pi_ctx p = Some (UCel f l) -> 0 <= f) ->
    add_user_data p u = Ok p' ->
    exists (c : udctx) (v : entval),
      pi_ctx p = Some c /\
      lookup p (ctx_entity c) = Some v /\ lookup p' (ctx_entity c) = Some (set_ud v u) /\
      (forall e, e <> ctx_entity c -> lookup p' e = lookup p e) /\
      pi_ctx p' = Some (match c with UTag i => UTag (i + 1) | _ => c end) /\
      WF p' /\ pi_nlayers p' = pi_nlayers p /\ pi_nslices p' = pi_nslices p.
Proof. exact add_user_data_spec. Qed.
Print Assumptions C10_frame.

(* ... and the fields that hold no entity are untouched *)
Theorem C10_frame_rest :
  forall (p : pinfo) (u : userdata) (p' : pinfo),
    add_user_data p u = Ok p' ->
    pi_palette p' = pi_palette p /\ pi_nframes p' = pi_nframes p /\
    pi_default_time p' = pi_default_time p /\ pi_times p' = pi_times p /\
    pi_ext p' = pi_ext p /\ pi_tilesets p' = pi_tilesets p.
Proof. exact add_user_data_rest. Qed.
Print Assumptions C10_frame_rest.

(* text iff flag bit 0, colour iff flag bit 1: decoding an encoded record ... *)
Theorem C10_flags :
  forall (flags : Z) (text : list Z) (r g b a : Z) (tail : list Z),
    utf8_valid text = true ->
    run_payload dec_userdata (enc_userdata flags text (r, g, b, a) ++ tail) =
    Ok {| ud_text := if Z.testbit flags 0 then Some text else None;
          ud_color := if Z.testbit flags 1 then Some (r, g, b, a) else None |}.
Proof. exact dec_userdata_flags. Qed.
Print Assumptions C10_flags.

(* ... and read off any payload that decodes (flags = bytes 0..3) *)
Theorem C10_flags_inv :
  forall (data : list Z) (u : userdata),
    run_payload dec_userdata data = Ok u ->
    exists flags, dword_at data 0 = Some flags /\
      (ud_text u <> None <-> Z.testbit flags 0 = true) /\
      (ud_color u <> None <-> Z.testbit flags 1 = true).
Proof. exact dec_userdata_flags_inv. Qed.
Print Assumptions C10_flags_inv.

(* from chunks: the assembly of the frames delivered by framing is such a fold, over the events
   the chunks decode to (frames_events), which are well formed *)
Theorem C10_assemble :
  forall (inflate : list Z -> Z -> zres) (fmt : pixfmt) (n d : Z) (frames : list rawframe) (p : pinfo),
    assemble inflate fmt n d frames = Ok p ->
    exists evs,
      frames_events inflate fmt 0 frames evs /\
      option_map ctx_entity (pi_ctx p) = owner (rev evs) /\
      forall e o, ud_of p e = Some o -> o = window (rev evs) e.
Proof. exact assemble_attach. Qed.
Print Assumptions C10_assemble.

(* from bytes: in a file that loads, every layer, cel (as the accessors find it: fcel_of), slice and
   tag, and the sprite, report what the rule assigns to them over the events that the chunks
   delivered by framing decode to *)
Theorem C10_load :
  forall (inflate : list Z -> Z -> zres) (bs : list Z) (f : file),
    load inflate bs = Ok f ->
    exists rh frames fmt rest evs,
      run framing bs = Ok ((rh, frames), rest) /\
      frames_events inflate fmt 0 frames evs /\
      (forall i l, aget (f_layers f) i = Some l -> l_ud l = window (rev evs) (EntLayer i)) /\
      (forall fr ly c, fcel_of f fr ly = Some c -> c_ud c = window (rev evs) (EntCel fr ly)) /\
      (forall i s, nthz (f_slices f) i = Some s -> s_ud s = window (rev evs) (EntSlice i)) /\
      (forall i t, nthz (f_tags f) i = Some t -> t_ud t = window (rev evs) (EntTag i)) /\
      f_sprite_ud f = window (rev evs) EntSprite.
Proof. exact load_attach_entities. Qed.
Print Assumptions C10_load.
