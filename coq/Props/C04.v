(* C04: loading is total: any byte sequence yields a sprite or an error value, never a Panic. *)
From Ase Require Import Base.Prelude Model.Validate Proofs.NoPanicLoad.

(* for every inflate function and every list of bytes *)
Theorem C04_total : forall (inflate : list Z -> Z -> zres) (bs : list Z),
  Forall is_byte bs ->
  (exists f, load inflate bs = Ok f) \/ (exists e, load inflate bs = Err e).
Proof. exact load_total. Qed.
Print Assumptions C04_total.

Theorem C04_no_panic : forall (inflate : list Z -> Z -> zres) (bs : list Z) (s : Z),
  Forall is_byte bs -> load inflate bs <> Panic s.
Proof. exact load_no_panic. Qed.
Print Assumptions C04_no_panic.

(* the parse stage alone (framing, chunk decoders, cel table) *)
Theorem C04_parse_total : forall (inflate : list Z -> Z -> zres) (bs : list Z) (s : Z),
  Forall is_byte bs -> run (parse_file inflate) bs <> Panic s.
Proof. exact parse_no_panic. Qed.
Print Assumptions C04_parse_total.

(* the validation stage alone, on whatever the parse stage can produce *)
Theorem C04_validate_total : forall (inflate : list Z -> Z -> zres) (bs rest : list Z) h p (s : Z),
  Forall is_byte bs -> run (parse_file inflate) bs = Ok ((h, p), rest) -> validate h p <> Panic s.
Proof. exact validate_after_parse_no_panic. Qed.
Print Assumptions C04_validate_total.

(* the hypothesis is met and the conclusion is the Ok case on the 144-byte file of Proofs/Truncation.v *)
Theorem C04_example : Forall is_byte Truncation.mini_file /\ exists f, load Truncation.no_inflate Truncation.mini_file = Ok f.
Proof. exact mini_file_load_total. Qed.
Print Assumptions C04_example.
