(* C09: layer parents and visibility follow the nesting levels. *)
From Ase Require Import Base.Prelude Model.Render Proofs.ArrLemmas Proofs.Layers.

(* compute_parents: one entry per layer; None at level 0, otherwise the nearest preceding
   layer with a smaller nesting level *)
Theorem C09_parent : forall ls ps, compute_parents ls = Ok ps ->
  zlen ps = zlen ls /\
  forall i l, nthz ls i = Some l ->
    (l_level l = 0 -> nthz ps i = Some None) /\
    (l_level l <> 0 -> exists p, nthz ps i = Some (Some p) /\
       (0 <= p < i /\ lvl ls p < lvl ls i /\ forall q, p < q < i -> lvl ls i <= lvl ls q)).
Proof. exact parents_spec. Qed.
Print Assumptions C09_parent.

(* a parent has a lower id than its child *)
Theorem C09_parent_lt : forall ls ps i p,
  compute_parents ls = Ok ps -> nthz ps i = Some (Some p) -> 0 <= p < i.
Proof. exact parent_lt. Qed.
Print Assumptions C09_parent_lt.

(* forests always succeed; the only failure is Err EInvalid, exactly when some layer at a
   non-zero level has no earlier layer of smaller level; never a panic *)
Theorem C09_total : forall ls,
  (((forall l, In l ls -> 0 <= l_level l) /\ lvl ls 0 = 0 /\
    (forall i, 0 <= i -> i + 1 < zlen ls -> lvl ls (i + 1) <= lvl ls i + 1)) ->
   exists ps, compute_parents ls = Ok ps) /\
  (compute_parents ls = Err EInvalid <->
   exists i l, nthz ls i = Some l /\ l_level l <> 0 /\ forall q, 0 <= q < i -> l_level l <= lvl ls q) /\
  (forall e, compute_parents ls = Err e -> e = EInvalid) /\
  (forall s, compute_parents ls <> Panic s).
Proof. exact parents_total_full. Qed.
Print Assumptions C09_total.

(* every validated file has parents computed from its layers *)
Theorem C09_parents_ok : forall h p f, validate h p = Ok f ->
  exists ls ps, f_layers f = arr_of_list ls /\ f_parents f = arr_of_list ps /\ compute_parents ls = Ok ps.
Proof. exact validate_parents_ok. Qed.
Print Assumptions C09_parents_ok.

(* Layer::parent through the accessors *)
Theorem C09_layer_parent : forall f, parents_ok f -> forall i, 0 <= i < num_layers f ->
  exists l, layer_get f i = Ok l /\
  ((l_level l = 0 -> layer_parent f i = Ok None) /\
   (l_level l <> 0 -> exists p, layer_parent f i = Ok (Some p) /\ nearest (arr_to_list (f_layers f)) i p)).
Proof. exact layer_parent_spec. Qed.
Print Assumptions C09_layer_parent.

(* the ancestor chain follows the parents and strictly descends *)
Theorem C09_ancestors : forall f, parents_ok f -> forall i, 0 <= i < num_layers f ->
  ancestors f i = match aget (f_parents f) i with Some (Some p) => p :: ancestors f p | _ => [] end.
Proof. exact ancestors_unfold. Qed.
Print Assumptions C09_ancestors.

(* Layer::is_visible = own flag and the flags of all ancestors, at every depth; in particular
   the walk never runs out of fuel (no Panic 204) *)
Theorem C09_visible : forall f, parents_ok f -> forall i, 0 <= i < num_layers f ->
  layer_is_visible f i = Ok (forallb (vflag f) (i :: ancestors f i)).
Proof. exact visible_spec. Qed.
Print Assumptions C09_visible.

(* a cel on a hidden layer leaves the image under construction unchanged *)
Theorem C09_hidden : forall f img o rest id,
  layer_is_visible f id = Ok false /\ id < num_layers f ->
  frame_row f img (o :: rest) id = frame_row f img rest (id + 1).
Proof. exact hidden_contributes_nothing. Qed.
Print Assumptions C09_hidden.

(* replacing the cel table by one that differs only on hidden layers does not change a frame image *)
Theorem C09_hidden_image : forall f t',
  (forall fr j, 0 <= j ->
     cellat (get_row (f_cels f) fr) j = cellat (get_row t' fr) j \/
     (layer_is_visible f j = Ok false /\ j < num_layers f)) ->
  forall frame,
  (forall j c, 0 <= j -> cellat (get_row (f_cels f) frame) j = Some c ->
     layer_is_visible f j = Ok true -> cc_layer (c_data c) = j) ->
  frame_image (with_cels f t') frame = frame_image f frame.
Proof. exact hidden_frame_image. Qed.
Print Assumptions C09_hidden_image.

(* the same two facts over an abstract cel writer `wr` (frame_row_w mirrors frame_row with the
   visibility test and the writer as parameters); these do not mention the blend functions *)
Theorem C09_hidden_generic : forall (I : Type) n vis (wr : I -> cel pixels -> res I) img o rest id,
  vis id = Ok false /\ id < n ->
  frame_row_w n vis wr img (o :: rest) id = frame_row_w n vis wr img rest (id + 1).
Proof. exact @hidden_generic. Qed.
Print Assumptions C09_hidden_generic.

Theorem C09_hidden_generic_rows : forall (I : Type) n vis (wr : I -> cel pixels -> res I) r r' id img, 0 <= id ->
  (forall k, 0 <= k -> cellat r k = cellat r' k \/ (vis (id + k) = Ok false /\ id + k < n)) ->
  frame_row_w n vis wr img r' id = frame_row_w n vis wr img r id.
Proof. exact @hidden_generic_rows. Qed.
Print Assumptions C09_hidden_generic_rows.

(* bridge: frame_row is frame_row_w at the real visibility test and writer *)
Theorem C09_frame_row_bridge : forall f r img id,
  frame_row f img r id = frame_row_w (num_layers f) (layer_is_visible f) (write_cel f) img r id.
Proof. exact frame_row_is_w. Qed.
Print Assumptions C09_frame_row_bridge.
