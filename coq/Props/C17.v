From Ase Require Import Base.Prelude Model.Blend Proofs.BlendArith Proofs.BlendLaws.

Theorem C17_alpha : forall (m : Z) (b s : pixel) (o : Z) (p q : pixel),
  pix_wf b -> pix_wf s -> is_byte o ->
  blend m b s o = Some p -> blend 0 b s o = Some q -> pix_alpha p = pix_alpha q.
Proof. exact C17_alpha_all. Qed.
Print Assumptions C17_alpha.

Theorem C17_src_transparent : forall (m : Z) (b s : pixel) (o : Z) (p : pixel),
  pix_wf b -> pix_wf s -> is_byte o ->
  pix_alpha b <> 0 -> pix_alpha s = 0 -> blend m b s o = Some p -> p = b.
Proof. exact C17_src_transparent_all. Qed.
Print Assumptions C17_src_transparent.

Theorem C17_zero_opacity : forall (m : Z) (b s p : pixel),
  pix_wf b -> pix_wf s ->
  pix_alpha b <> 0 -> blend m b s 0 = Some p -> p = b.
Proof. exact C17_zero_opacity_all. Qed.
Print Assumptions C17_zero_opacity.

Theorem C17_over_transparent : forall (m : Z) (b s : pixel) (o : Z),
  pix_wf b -> pix_wf s -> is_byte o ->
  pix_alpha b = 0 ->
  blend m b s o = Some (let '(sr, sg, sb, sa) := s in (sr, sg, sb, mul_un8 sa o)).
Proof. exact C17_over_transparent_all. Qed.
Print Assumptions C17_over_transparent.

Theorem C17_normal_opaque : forall (b s : pixel),
  pix_wf b -> pix_wf s -> pix_alpha s = 255 -> blend 0 b s 255 = Some s.
Proof. exact C17_normal_opaque_all. Qed.
Print Assumptions C17_normal_opaque.

Theorem C17_range_int : forall (m : Z) (b s : pixel) (o : Z),
  In m [0; 1; 2; 3; 4; 5; 6; 7; 8; 10; 11; 16; 17; 18] ->
  pix_wf b -> pix_wf s -> is_byte o ->
  exists p, blend m b s o = Some p /\ pix_wf p.
Proof. exact BlendLaws.C17_range_int. Qed.
Print Assumptions C17_range_int.

Theorem C17_range_soft : forall (b s : pixel) (o : Z),
  pix_wf b -> pix_wf s -> is_byte o ->
  exists p, blend 9 b s o = Some p /\ pix_wf p.
Proof. exact BlendLaws.C17_range_soft. Qed.
Print Assumptions C17_range_soft.

Theorem C17_range_hsl_partial : forall (m : Z) (b s : pixel) (o : Z),
  m = 12 \/ m = 13 \/ m = 14 \/ m = 15 ->
  pix_wf b -> pix_wf s -> is_byte o ->
  hsl_ok m b s = true ->
  exists p, blend m b s o = Some p /\ pix_wf p.
Proof. exact BlendLaws.C17_range_hsl_partial. Qed.
Print Assumptions C17_range_hsl_partial.

Theorem C17_range_hsl_only_failure : forall (m : Z) (b s : pixel) (o : Z),
  m = 12 \/ m = 13 \/ m = 14 \/ m = 15 ->
  pix_wf b -> pix_wf s -> is_byte o ->
  (blend m b s o = None <-> (pix_alpha b <> 0 /\ hsl_ok m b s = false)).
Proof. exact BlendLaws.C17_range_hsl_only_failure. Qed.
Print Assumptions C17_range_hsl_only_failure.

Theorem C17_wrapper_alpha : forall (f : pixel -> pixel -> Z -> option pixel) (b s : pixel) (o : Z) (p q : pixel),
  baseline_ok f -> pix_wf b ->
  blender f b s o = Some p -> normal b s o = Some q -> pix_alpha p = pix_alpha q.
Proof. exact blender_alpha. Qed.
Print Assumptions C17_wrapper_alpha.

Theorem C17_wrapper_returns_backdrop : forall (f : pixel -> pixel -> Z -> option pixel) (b s : pixel) (o : Z) (p : pixel),
  baseline_ok f -> pix_wf b -> pix_alpha b <> 0 ->
  (forall s', pix_alpha s' = pix_alpha s -> normal b s' o = Some b) ->
  blender f b s o = Some p -> p = b.
Proof. exact blender_fix. Qed.
Print Assumptions C17_wrapper_returns_backdrop.

Theorem C17_wrapper_range : forall (f : pixel -> pixel -> Z -> option pixel),
  total_wf f -> total_wf (blender f).
Proof. exact blender_total. Qed.
Print Assumptions C17_wrapper_range.

Theorem C17_normal_range : total_wf normal.
Proof. exact normal_total. Qed.
Print Assumptions C17_normal_range.

Theorem C17_int_baselines : Forall (fun f => baseline_ok f /\ total_wf f)
  [ blend_channel blend_multiply; blend_channel blend_screen; blend_channel blend_overlay;
    blend_channel blend_darken; blend_channel blend_lighten; blend_channel blend_color_dodge;
    blend_channel blend_color_burn; blend_channel blend_hard_light; blend_channel blend_difference;
    blend_channel blend_exclusion; addition_baseline; subtract_baseline;
    blend_channel blend_divide ].
Proof. exact int_baselines_ok_total. Qed.
Print Assumptions C17_int_baselines.
