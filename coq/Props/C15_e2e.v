(* C15 for whole programs: a serialised well-formed chunk program (Spec/Serialize.v) loads exactly when sprite_ok_ts holds
   (Props/C01_e2e.v, C01_load_serialize_iff); outside it the loader answers with an error value - never a sprite, never
   a panic - whatever bytes follow the program.  Among the programs outside sprite_ok_ts: a tileset whose last chunk
   carries no pixels (external tilesets), a tilemap layer without a tileset, a tilemap cel on an image layer or with a
   tile id at or above the tile count, indexed pixels outside the palette, a link to a missing cel or to another link,
   a cel on an undeclared layer or a second cel for one (frame, layer), user data nothing owns, an orphan child layer. *)
From Ase Require Import Model.Api.
From Ase Require Import Spec.Serialize.
From Ase Require Import Proofs.EndToEnd.
From Ase Require Import Proofs.EndToEndTotalTs.
From Ase Require Import Proofs.EndToEndIff.

Theorem C15_program_refused :
  forall (inflate : list Z -> Z -> zres) (s : sprite_prog) (tail : list Z),
    wf_prog s -> inflate_ok inflate s -> all_bytes tail -> ~ sprite_ok_ts s ->
    exists e, load inflate (serialize s ++ tail) = Err e.
Proof. exact program_refused. Qed.
Print Assumptions C15_program_refused.

(* non-vacuity: a well-formed program whose tilemap cel uses tile id 3 of a 3-tile tileset lies outside sprite_ok_ts ... *)
Theorem C15_program_refused_example_hyp :
  wf_prog BadTile.bad_prog /\ inflate_ok BadTile.bad_inflate BadTile.bad_prog /\ ~ sprite_ok_ts BadTile.bad_prog.
Proof. exact (conj BadTile.bad_wf (conj BadTile.bad_inflate_ok BadTile.bad_not_ok)). Qed.
Print Assumptions C15_program_refused_example_hyp.

(* ... and is refused *)
Theorem C15_program_refused_example :
  exists e, load BadTile.bad_inflate (serialize BadTile.bad_prog ++ []) = Err e.
Proof. exact BadTile.bad_refused. Qed.
Print Assumptions C15_program_refused_example.
