(* C01, end to end: for every well-formed chunk program s (Spec/Serialize.v: a sprite as a value
   together with every encoding choice - junk in unused fields, chunk tails, either chunk-count
   field, raw or compressed cels, ignorable chunks anywhere) loading `serialize s` is the fold of
   the C10 `step` over the events of s followed by validation, and a sprite that loads reports
   what s encodes: canvas, frame durations, layers / tags / slices (with their keys) in file
   order, external files, palette, cels.

   Vocabulary.
   sprite_prog, frame_prog, chunk_item, serialize, wf_prog, rawheader_of, frame_chunks_of,
   prog_fmt                                         Spec/Serialize.v
   events_of s        the C10 event list of s: per frame the frame header (duration), then one
                      event per chunk in file order (tags only from frame 0)
   inflate_ok         every zlib stream of s inflates to the bytes it stands for
   prog_layers, prog_slices, prog_tags, prog_ext, prog_palette, prog_cels
                      the values of the layer / slice / (last frame-0) tags / external-files /
                      palette / cel chunks of s, in file order
   mapi g l           g applied to every element of l and its position
   *_with_ud x o      x with user data o;  layer_erase = layer_with_ud _ None
   window r e         the C10 rule: the user data entity e owns after the events r (most recent
                      first);  fcel_of, cel_at: the cel at (frame, layer) of a file / of a list *)
From Ase Require Import Model.Api.
From Ase Require Import Spec.Serialize.
From Ase Require Import Proofs.UserData.
From Ase Require Import Proofs.EndToEnd.
From Ase Require Import Proofs.EndToEndTotal.
From Ase Require Import Proofs.EndToEndTilesets.
From Ase Require Import Proofs.EndToEndCels.
From Ase Require Import Proofs.EndToEndTotalTs.
From Ase Require Import Proofs.EndToEndIff.

(* (a) framing inverts the serialiser: every program, either count field, any bytes after it *)
Theorem C01_framing_serialize :
  forall (s : sprite_prog) (tail : list Z),
    wf_prog s ->
    run framing (serialize s ++ tail) = Ok ((rawheader_of s, map frame_chunks_of (sp_frames s)), tail).
Proof. exact framing_serialize. Qed.
Print Assumptions C01_framing_serialize.

(* the serialisation is a byte string *)
Theorem C01_serialize_all_bytes :
  forall s : sprite_prog, wf_prog s -> all_bytes (serialize s).
Proof. exact serialize_all_bytes. Qed.
Print Assumptions C01_serialize_all_bytes.

(* (b) the assembly of the framed chunks = the fold of `step` over the events (both sides may
   fail, and then fail alike) *)
Theorem C01_assemble_serialize :
  forall (inflate : list Z -> Z -> zres) (s : sprite_prog),
    wf_prog s -> inflate_ok inflate s ->
    assemble inflate (prog_fmt s) (hf_frames (sp_header s)) (hf_default_time (sp_header s))
             (map frame_chunks_of (sp_frames s))
    = rfold step (events_of s) (pinfo_new (hf_frames (sp_header s)) (hf_default_time (sp_header s))).
Proof. exact assemble_serialize. Qed.
Print Assumptions C01_assemble_serialize.

(* (c) the loader on a serialised program = fold, then validate; trailing bytes are ignored *)
Theorem C01_load_serialize :
  forall (inflate : list Z -> Z -> zres) (s : sprite_prog) (tail : list Z),
    wf_prog s -> inflate_ok inflate s ->
    load inflate (serialize s ++ tail)
    = (p <-- rfold step (events_of s) (pinfo_new (hf_frames (sp_header s)) (hf_default_time (sp_header s))) ;;;
       validate (header_of (rawheader_of s) (prog_fmt s)) p).
Proof. exact load_serialize. Qed.
Print Assumptions C01_load_serialize.

(* hence two programs with the same header fields and the same events load alike, whatever
   their encoding choices and whatever follows them *)
Theorem C01_load_encoding_independent :
  forall (inflate : list Z -> Z -> zres) (s1 s2 : sprite_prog) (t1 t2 : list Z),
    wf_prog s1 -> wf_prog s2 -> inflate_ok inflate s1 -> inflate_ok inflate s2 ->
    rawheader_of s1 = rawheader_of s2 -> events_of s1 = events_of s2 ->
    load inflate (serialize s1 ++ t1) = load inflate (serialize s2 ++ t2).
Proof. exact load_encoding_independent. Qed.
Print Assumptions C01_load_encoding_independent.

(* events_of is the event list in the sense of C10 *)
Theorem C01_events_of_frames_events :
  forall (inflate : list Z -> Z -> zres) (s : sprite_prog),
    wf_prog s -> inflate_ok inflate s ->
    frames_events inflate (prog_fmt s) 0 (map frame_chunks_of (sp_frames s)) (events_of s).
Proof. exact events_of_frames_events. Qed.
Print Assumptions C01_events_of_frames_events.

(* (d) what a sprite that loads reports *)

Theorem C01_e2e_canvas :
  forall (inflate : list Z -> Z -> zres) (s : sprite_prog) (tail : list Z) (f : file),
    wf_prog s -> inflate_ok inflate s -> load inflate (serialize s ++ tail) = Ok f ->
    f_width f = hf_width (sp_header s) /\ f_height f = hf_height (sp_header s) /\
    f_nframes f = zlen (sp_frames s) /\ header_fmt (sp_header s) = Some (f_fmt f).
Proof. exact e2e_canvas. Qed.
Print Assumptions C01_e2e_canvas.

Theorem C01_e2e_durations :
  forall (inflate : list Z -> Z -> zres) (s : sprite_prog) (tail : list Z) (f : file),
    wf_prog s -> inflate_ok inflate s -> load inflate (serialize s ++ tail) = Ok f ->
    forall (i : Z) (fr : frame_prog),
      nthz (sp_frames s) i = Some fr -> frame_duration f i = Ok (fp_duration fr).
Proof. exact e2e_durations. Qed.
Print Assumptions C01_e2e_durations.

Theorem C01_e2e_layers_in_order :
  forall (inflate : list Z -> Z -> zres) (s : sprite_prog) (tail : list Z) (f : file),
    wf_prog s -> inflate_ok inflate s -> load inflate (serialize s ++ tail) = Ok f ->
    arr_to_list (f_layers f)
    = mapi (fun i l => layer_with_ud l (window (rev (events_of s)) (EntLayer i))) (prog_layers s).
Proof. exact e2e_layers_in_order. Qed.
Print Assumptions C01_e2e_layers_in_order.

Theorem C01_e2e_layers_erased :
  forall (inflate : list Z -> Z -> zres) (s : sprite_prog) (tail : list Z) (f : file),
    wf_prog s -> inflate_ok inflate s -> load inflate (serialize s ++ tail) = Ok f ->
    map layer_erase (arr_to_list (f_layers f)) = prog_layers s.
Proof. exact e2e_layers_erased. Qed.
Print Assumptions C01_e2e_layers_erased.

Theorem C01_e2e_num_layers :
  forall (inflate : list Z -> Z -> zres) (s : sprite_prog) (tail : list Z) (f : file),
    wf_prog s -> inflate_ok inflate s -> load inflate (serialize s ++ tail) = Ok f ->
    num_layers f = zlen (prog_layers s).
Proof. exact e2e_num_layers. Qed.
Print Assumptions C01_e2e_num_layers.

Theorem C01_e2e_layer_at :
  forall (inflate : list Z -> Z -> zres) (s : sprite_prog) (tail : list Z) (f : file),
    wf_prog s -> inflate_ok inflate s -> load inflate (serialize s ++ tail) = Ok f ->
    forall (i : Z) (l : layer),
      nthz (prog_layers s) i = Some l ->
      layer_get f i = Ok (layer_with_ud l (window (rev (events_of s)) (EntLayer i))).
Proof. exact e2e_layer_at. Qed.
Print Assumptions C01_e2e_layer_at.

Theorem C01_e2e_tags_in_order :
  forall (inflate : list Z -> Z -> zres) (s : sprite_prog) (tail : list Z) (f : file),
    wf_prog s -> inflate_ok inflate s -> load inflate (serialize s ++ tail) = Ok f ->
    f_tags f = mapi (fun i t => tag_with_ud t (window (rev (events_of s)) (EntTag i))) (prog_tags s).
Proof. exact e2e_tags_in_order. Qed.
Print Assumptions C01_e2e_tags_in_order.

Theorem C01_e2e_slices_in_order :
  forall (inflate : list Z -> Z -> zres) (s : sprite_prog) (tail : list Z) (f : file),
    wf_prog s -> inflate_ok inflate s -> load inflate (serialize s ++ tail) = Ok f ->
    f_slices f = mapi (fun i sl => slice_with_ud sl (window (rev (events_of s)) (EntSlice i))) (prog_slices s).
Proof. exact e2e_slices_in_order. Qed.
Print Assumptions C01_e2e_slices_in_order.

Theorem C01_e2e_external :
  forall (inflate : list Z -> Z -> zres) (s : sprite_prog) (tail : list Z) (f : file),
    wf_prog s -> inflate_ok inflate s -> load inflate (serialize s ++ tail) = Ok f ->
    f_ext f = fold_left bind_ext (prog_ext s) zempty.
Proof. exact e2e_external. Qed.
Print Assumptions C01_e2e_external.

Theorem C01_e2e_external_lookup :
  forall (inflate : list Z -> Z -> zres) (s : sprite_prog) (tail : list Z) (f : file),
    wf_prog s -> inflate_ok inflate s -> load inflate (serialize s ++ tail) = Ok f ->
    forall k : Z, 0 <= k ->
      zfind k (f_ext f) = option_map snd (find (fun e => fst e =? k) (rev (prog_ext s))).
Proof. exact e2e_external_lookup. Qed.
Print Assumptions C01_e2e_external_lookup.

Theorem C01_e2e_palette :
  forall (inflate : list Z -> Z -> zres) (s : sprite_prog) (tail : list Z) (f : file),
    wf_prog s -> inflate_ok inflate s -> load inflate (serialize s ++ tail) = Ok f ->
    f_palette f = prog_palette s.
Proof. exact e2e_palette. Qed.
Print Assumptions C01_e2e_palette.

Theorem C01_e2e_cels :
  forall (inflate : list Z -> Z -> zres) (s : sprite_prog) (tail : list Z) (f : file),
    wf_prog s -> inflate_ok inflate s -> load inflate (serialize s ++ tail) = Ok f ->
    forall fr l : Z,
      match cel_at (prog_cels s) fr l with
      | Some c => exists c', fcel_of f fr l = Some c' /\ c_data c' = c_data c /\
                             c_ud c' = window (rev (events_of s)) (EntCel fr l)
      | None => fcel_of f fr l = None
      end.
Proof. exact e2e_cels. Qed.
Print Assumptions C01_e2e_cels.

Theorem C01_e2e_cels_iff :
  forall (inflate : list Z -> Z -> zres) (s : sprite_prog) (tail : list Z) (f : file),
    wf_prog s -> inflate_ok inflate s -> load inflate (serialize s ++ tail) = Ok f ->
    forall fr l : Z,
      (exists c', fcel_of f fr l = Some c') <->
      (exists c, In (fr, c) (prog_cels s) /\ cc_layer (c_data c) = l).
Proof. exact e2e_cels_iff. Qed.
Print Assumptions C01_e2e_cels_iff.

(* CEL CONTENTS (also the file-level half of C06): the cel a sprite that loads holds at (frame, layer) has the content of the
   program's cel chunk: image pixels = the stored bytes read in the sprite's colour mode and checked against the final
   palette with the layer's background flag; link targets and tilemaps as stored *)
Theorem C01_e2e_cel_content :
  forall (inflate : list Z -> Z -> zres) (s : sprite_prog) (tail : list Z) (f : file),
    wf_prog s -> inflate_ok inflate s -> load inflate (serialize s ++ tail) = Ok f ->
    forall (fr l : Z) (c : cel rawpixels),
      cel_at (prog_cels s) fr l = Some c ->
      exists c', fcel_of f fr l = Some c' /\
        match c_content c with
        | CRaw w h rp => exists lay px, aget (f_layers f) l = Some lay /\
                           validate_pixels (f_palette f) (f_fmt f) (layer_is_background lay) rp = Ok px /\
                           c_content c' = CRaw w h px
        | CLinked o => c_content c' = CLinked o
        | CTilemap tm => c_content c' = CTilemap tm
        end.
Proof. exact e2e_cel_content. Qed.
Print Assumptions C01_e2e_cel_content.

(* TILESETS.  prog_tilesets s: the tilesets the tileset chunks of s encode, in file order (pixels: the stored bytes read in
   the sprite's colour mode).  For every id the sprite reports the LAST chunk with that id - identifier, empty-tile flag,
   tile count, tile size, base index, name, external reference exactly as encoded, the pixels converted and checked
   against the final palette - and nothing for an id no chunk carries.  Holds for every program that loads (tilemap
   layers and cels included). *)
Theorem C01_e2e_tilesets :
  forall (inflate : list Z -> Z -> zres) (s : sprite_prog) (tail : list Z) (f : file),
    wf_prog s -> inflate_ok inflate s -> load inflate (serialize s ++ tail) = Ok f ->
    forall k : Z, 0 <= k ->
      match find (fun t => ts_id t =? k) (rev (prog_tilesets s)) with
      | Some t => exists ts, validate_tileset (f_palette f) (f_fmt f) t = Ok ts /\ zfind k (f_tilesets f) = Some ts
      | None => zfind k (f_tilesets f) = None
      end.
Proof. exact e2e_tilesets. Qed.
Print Assumptions C01_e2e_tilesets.

Theorem C01_e2e_tileset_attrs :
  forall (pal : option palette) (fmt : pixfmt) (t : tileset rawpixels) (ts : tileset pixels),
    validate_tileset pal fmt t = Ok ts ->
    ts_id ts = ts_id t /\ ts_empty0 ts = ts_empty0 t /\ ts_count ts = ts_count t /\ ts_w ts = ts_w t /\ ts_h ts = ts_h t /\
    ts_base ts = ts_base t /\ ts_name ts = ts_name t /\ ts_ext ts = ts_ext t /\
    exists rp px, ts_pixels t = Some rp /\ validate_pixels pal fmt false rp = Ok px /\ ts_pixels ts = Some px.
Proof. exact validate_tileset_attrs. Qed.
Print Assumptions C01_e2e_tileset_attrs.

(* non-vacuity: a program with two tileset chunks for id 7 (2 and 3 tiles), a tilemap layer and a tilemap cel is well formed,
   its streams inflate under the example's oracle, it loads, and id 7 reports the second chunk *)
Theorem C01_e2e_tilesets_example :
  wf_prog TilesetExample.ts_prog /\ inflate_ok TilesetExample.ex_inflate TilesetExample.ts_prog /\
  (exists f, load TilesetExample.ex_inflate (serialize TilesetExample.ts_prog ++ []) = Ok f) /\
  (forall f, load TilesetExample.ex_inflate (serialize TilesetExample.ts_prog ++ []) = Ok f ->
     (exists ts, zfind 7 (f_tilesets f) = Some ts /\ ts_count ts = 3 /\ ts_name ts = [98] /\ ts_base ts = -3 /\ ts_w ts = 1) /\
     zfind 6 (f_tilesets f) = None).
Proof. exact (conj TilesetExample.ts_wf (conj TilesetExample.ts_inflate_ok (conj TilesetExample.ts_loads TilesetExample.ts_thm))). Qed.
Print Assumptions C01_e2e_tilesets_example.

(* a validated tileset map holds, under every key of the assembled map, the validated entry, and nothing else *)
Theorem C01_validate_tilesets_find :
  forall (pal : option palette) (fmt : pixfmt) (m : zmap (tileset rawpixels)) (tss : zmap (tileset pixels)),
    validate_tilesets pal fmt m = Ok tss ->
    forall k : Z, 0 <= k ->
      match zfind k m with
      | Some t => exists ts, validate_tileset pal fmt t = Ok ts /\ zfind k tss = Some ts
      | None => zfind k tss = None
      end.
Proof. exact validate_tilesets_find. Qed.
Print Assumptions C01_validate_tilesets_find.

(* (e) non-vacuity: the example program (2 frames, 3 layers with a group, tags, a slice with two
   keys, a palette and a legacy palette, user data, a raw and a linked cel, junk everywhere, a
   chunk tail, one frame counted in the old field only) is well formed and loads *)
Theorem C01_e2e_example :
  wf_prog Example.ex_prog /\ inflate_ok (fun _ _ => ZErr 0) Example.ex_prog /\
  exists f, load (fun _ _ => ZErr 0) (serialize Example.ex_prog ++ []) = Ok f.
Proof. exact Example.ex_summary. Qed.
Print Assumptions C01_e2e_example.

(* ---------------- when a program loads ---------------- *)
(* events_ok n done evs: every cel event names a declared layer (0 <= layer < layers so far), a
   frame below n and a free (frame, layer) slot; every user-data event has an owner, and after a
   tags event no more records arrive than there are tags (and fewer than 65535).
   sprite_ok s: events_ok for events_of s; no tileset chunks, tilemap layers or tilemap cels;
   compute_parents succeeds on the layers (= no orphan layer, Proofs/Layers.v); image pixels
   validate against the final palette; linked cels point at an image cel of an existing frame. *)

Theorem C01_fold_total :
  forall (n d : Z) (evs : list ev),
    Forall ev_wf evs -> events_ok n [] evs -> exists p, rfold step evs (pinfo_new n d) = Ok p.
Proof. exact fold_total. Qed.
Print Assumptions C01_fold_total.

Theorem C01_load_serialize_total :
  forall (inflate : list Z -> Z -> zres) (s : sprite_prog) (tail : list Z),
    wf_prog s -> inflate_ok inflate s -> sprite_ok s ->
    exists f, load inflate (serialize s ++ tail) = Ok f.
Proof. exact load_serialize_total. Qed.
Print Assumptions C01_load_serialize_total.

(* THE HEADLINE: existence and the reported values in one statement *)
Theorem C01_e2e_headline :
  forall (inflate : list Z -> Z -> zres) (s : sprite_prog) (tail : list Z),
    wf_prog s -> inflate_ok inflate s -> sprite_ok s ->
    exists f,
      load inflate (serialize s ++ tail) = Ok f /\
      f_width f = hf_width (sp_header s) /\ f_height f = hf_height (sp_header s) /\
      f_nframes f = zlen (sp_frames s) /\ header_fmt (sp_header s) = Some (f_fmt f) /\
      (forall i fr, nthz (sp_frames s) i = Some fr -> frame_duration f i = Ok (fp_duration fr)) /\
      arr_to_list (f_layers f)
        = mapi (fun i l => layer_with_ud l (window (rev (events_of s)) (EntLayer i))) (prog_layers s) /\
      f_tags f = mapi (fun i t => tag_with_ud t (window (rev (events_of s)) (EntTag i))) (prog_tags s) /\
      f_slices f = mapi (fun i sl => slice_with_ud sl (window (rev (events_of s)) (EntSlice i))) (prog_slices s) /\
      f_ext f = fold_left bind_ext (prog_ext s) zempty /\
      f_palette f = prog_palette s /\
      (forall fr l,
         match cel_at (prog_cels s) fr l with
         | Some c => exists c', fcel_of f fr l = Some c' /\ c_data c' = c_data c /\
                                c_ud c' = window (rev (events_of s)) (EntCel fr l)
         | None => fcel_of f fr l = None
         end).
Proof. exact e2e_headline. Qed.
Print Assumptions C01_e2e_headline.

(* the example program satisfies the conditions *)
Theorem C01_e2e_example_ok : sprite_ok Example.ex_prog.
Proof. exact ex_sprite_ok. Qed.
Print Assumptions C01_e2e_example_ok.

(* ---------------- when a program WITH TILES loads (Proofs/EndToEndTotalTs.v) ----------------
   final_tileset s k: the last tileset chunk of s with id k.
   sprite_ok_ts s: events_ok for events_of s; every final tileset validates (it carries pixels - a tileset that only links
   into an external file is refused by the crate - and, in indexed mode, its pixels are palette indices); every tilemap
   layer names an id that has a tileset chunk; compute_parents succeeds; image cels validate, links point at an image
   cel of an existing frame, a tilemap cel lies on a tilemap layer and its largest tile id is below the tile count of that
   layer's final tileset.  sprite_ok (no tiles anywhere) is the special case. *)

Theorem C01_load_serialize_total_ts :
  forall (inflate : list Z -> Z -> zres) (s : sprite_prog) (tail : list Z),
    wf_prog s -> inflate_ok inflate s -> sprite_ok_ts s ->
    exists f, load inflate (serialize s ++ tail) = Ok f.
Proof. exact load_serialize_total_ts. Qed.
Print Assumptions C01_load_serialize_total_ts.

Theorem C01_sprite_ok_special_case : forall s : sprite_prog, wf_prog s -> sprite_ok s -> sprite_ok_ts s.
Proof. exact sprite_ok_is_sprite_ok_ts. Qed.
Print Assumptions C01_sprite_ok_special_case.

(* THE HEADLINE, tiles included: existence, the reported values, the content of every cel, the tileset under every id *)
Theorem C01_e2e_headline_ts :
  forall (inflate : list Z -> Z -> zres) (s : sprite_prog) (tail : list Z),
    wf_prog s -> inflate_ok inflate s -> sprite_ok_ts s ->
    exists f,
      load inflate (serialize s ++ tail) = Ok f /\
      f_width f = hf_width (sp_header s) /\ f_height f = hf_height (sp_header s) /\
      f_nframes f = zlen (sp_frames s) /\ header_fmt (sp_header s) = Some (f_fmt f) /\
      (forall i fr, nthz (sp_frames s) i = Some fr -> frame_duration f i = Ok (fp_duration fr)) /\
      arr_to_list (f_layers f)
        = mapi (fun i l => layer_with_ud l (window (rev (events_of s)) (EntLayer i))) (prog_layers s) /\
      f_tags f = mapi (fun i t => tag_with_ud t (window (rev (events_of s)) (EntTag i))) (prog_tags s) /\
      f_slices f = mapi (fun i sl => slice_with_ud sl (window (rev (events_of s)) (EntSlice i))) (prog_slices s) /\
      f_ext f = fold_left bind_ext (prog_ext s) zempty /\
      f_palette f = prog_palette s /\
      (forall fr l,
         match cel_at (prog_cels s) fr l with
         | Some c => exists c', fcel_of f fr l = Some c' /\ c_data c' = c_data c /\
                                c_ud c' = window (rev (events_of s)) (EntCel fr l) /\
                                match c_content c with
                                | CRaw w h rp => exists lay px, aget (f_layers f) l = Some lay /\
                                                   validate_pixels (f_palette f) (f_fmt f) (layer_is_background lay) rp = Ok px /\
                                                   c_content c' = CRaw w h px
                                | CLinked o => c_content c' = CLinked o
                                | CTilemap tm => c_content c' = CTilemap tm
                                end
         | None => fcel_of f fr l = None
         end) /\
      (forall k, 0 <= k ->
         match final_tileset s k with
         | Some t => exists ts, validate_tileset (f_palette f) (f_fmt f) t = Ok ts /\ zfind k (f_tilesets f) = Some ts
         | None => zfind k (f_tilesets f) = None
         end).
Proof. exact e2e_headline_ts. Qed.
Print Assumptions C01_e2e_headline_ts.

(* non-vacuity: the tileset example (two tileset chunks for id 7, a tilemap layer, a tilemap cel) satisfies the conditions *)
Theorem C01_e2e_tilesets_example_ok : sprite_ok_ts TilesetExample.ts_prog.
Proof. exact ts_sprite_ok_ts. Qed.
Print Assumptions C01_e2e_tilesets_example_ok.

(* ---------------- the conditions are necessary as well (Proofs/EndToEndIff.v) ---------------- *)

(* a fold of `step` that succeeds processed only events that were allowed *)
Theorem C01_fold_ok_inv :
  forall (n d : Z) (evs : list ev) (p : pinfo),
    Forall ev_wf evs -> rfold step evs (pinfo_new n d) = Ok p -> events_ok n [] evs.
Proof. exact fold_ok_inv. Qed.
Print Assumptions C01_fold_ok_inv.

(* THE CHARACTERISATION: a serialised well-formed program loads exactly when sprite_ok_ts holds of it; so sprite_ok_ts is the
   "well-formed sprite" of the property read off the program, and every program outside it is refused (C15, with C04: by an
   error value) *)
Theorem C01_load_serialize_iff :
  forall (inflate : list Z -> Z -> zres) (s : sprite_prog) (tail : list Z),
    wf_prog s -> inflate_ok inflate s ->
    ((exists f, load inflate (serialize s ++ tail) = Ok f) <-> sprite_ok_ts s).
Proof. exact load_serialize_iff. Qed.
Print Assumptions C01_load_serialize_iff.
