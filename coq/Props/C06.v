(* C06: cel images in the three colour formats; absent and linked cels. *)
From Ase Require Import Base.Prelude.
From Ase Require Import Model.Render.
From Ase Require Import Proofs.ImageLemmas.
From Ase Require Import Proofs.RenderFrame.
From Ase Require Import Spec.Compose.
From Ase Require Import Proofs.RenderValid.

(* an absent cel reports empty, offset (0,0), and renders fully transparent *)
Theorem C06_empty : forall f fr l, cel_lookup f fr l = Ok None ->
  cel_is_empty f (fr, l) = Ok true /\ cel_top_left f (fr, l) = Ok (0, 0) /\
  cel_image f (fr, l) = Ok (img_new (f_width f) (f_height f)) /\
  forall x y, img_get (img_new (f_width f) (f_height f)) x y = transparent.
Proof. exact cel_image_empty. Qed.
Print Assumptions C06_empty.

(* a linked cel renders exactly like the cel of the same layer in the frame it links to *)
Theorem C06_linked : forall f fr l c target c',
  cel_lookup f fr l = Ok (Some c) -> c_content c = CLinked target -> cc_layer (c_data c) = l ->
  cel_lookup f target l = Ok (Some c') -> is_linked c' = false -> cc_layer (c_data c') = l ->
  cel_image f (fr, l) = cel_image f (target, l).
Proof. exact cel_image_linked. Qed.
Print Assumptions C06_linked.

Theorem C06_linked_absent : forall f fr l c target lay,
  cel_lookup f fr l = Ok (Some c) -> c_content c = CLinked target -> cc_layer (c_data c) = l ->
  layer_get f l = Ok lay -> cel_lookup f target l = Ok None ->
  cel_image f (fr, l) = cel_image f (target, l).
Proof. exact cel_image_linked_absent. Qed.
Print Assumptions C06_linked_absent.

(* every pixel of a cel image: canvas-sized; inside the cel the stored colour (cel_px) with its
   alpha scaled by mul_un8 (layer opacity) (cel opacity); transparent elsewhere *)
Theorem C06_cel_pixels : forall f fr l img, render_wf f -> cel_image f (fr, l) = Ok img ->
  iw img = f_width f /\ ih img = f_height f /\
  forall x y, 0 <= x < f_width f -> 0 <= y < f_height f -> cel_spec_pixel f fr l x y = Some (img_get img x y).
Proof. exact cel_image_pixels. Qed.
Print Assumptions C06_cel_pixels.

(* the colour of a stored pixel: RGBA verbatim *)
Theorem C06_rgba : forall a i, pixels_get (PRgba a) i = aget a i.
Proof. exact pixels_get_rgba. Qed.
Print Assumptions C06_rgba.

(* grayscale (v, a) as (v, v, v, a) *)
Theorem C06_gray : forall a i p,
  pixels_get (PGray a) i = Some p <-> exists v al, aget a i = Some (v, al) /\ p = (v, v, v, al).
Proof. exact pixels_get_gray. Qed.
Print Assumptions C06_gray.

(* indexed: the palette colour, except that the transparent index is fully transparent when the
   buffer is not flagged background *)
Theorem C06_indexed : forall pal transp bg a i p,
  pixels_get (PIndexed pal transp bg a) i = Some p <->
  exists k e r g b al, aget a i = Some k /\ zfind k pal = Some e /\ pe_rgba e = (r, g, b, al) /\
    ((k = transp /\ bg = false -> p = (r, g, b, 0)) /\ (~ (k = transp /\ bg = false) -> p = (r, g, b, al))).
Proof. exact pixels_get_indexed. Qed.
Print Assumptions C06_indexed.

(* Pixels::clone_as_image_rgba computes exactly these colours *)
Theorem C06_clone : forall px rgba, pixels_dense px -> clone_as_rgba px = Ok rgba ->
  forall i, aget rgba i = pixels_get px i.
Proof. exact clone_get. Qed.
Print Assumptions C06_clone.

(* validation keeps the cel header, builds dense buffers, and flags an indexed buffer with the
   background flag of the cel's layer and the file's transparent index *)
Theorem C06_validated_cel : forall layers tss pal fmt t nf nl lid c c',
  validate_cel layers tss pal fmt t nf nl lid c = Ok c' ->
  c_data c' = c_data c /\ cel_dense c' /\
  forall w h p tr bg a, c_content c' = CRaw w h (PIndexed p tr bg a) ->
    exists lay, aget layers lid = Some lay /\ bg = layer_is_background lay /\ fmt = FIndexed tr /\ pal = Some p.
Proof. exact validate_cel_facts. Qed.
Print Assumptions C06_validated_cel.

(* the blend fact used: over the transparent pixel every mode returns the source with scaled alpha *)
Theorem C06_over_transparent : forall mode r g b a o q,
  blend mode transparent (r, g, b, a) o = Some q -> q = (r, g, b, mul_un8 a o).
Proof. exact blend_transparent_inv. Qed.
Print Assumptions C06_over_transparent.

Theorem C06_over_transparent_total : forall mode r g b a o,
  is_byte r -> is_byte g -> is_byte b -> blend mode transparent (r, g, b, a) o = Some (r, g, b, mul_un8 a o).
Proof. exact blend_transparent_some. Qed.
Print Assumptions C06_over_transparent_total.

(* end to end: for every file that loads (from bytes), with no further hypothesis *)
Theorem C06_cel_pixels_loaded : forall inflate bs f fr l img, Forall is_byte bs -> load inflate bs = Ok f ->
  cel_image f (fr, l) = Ok img ->
  iw img = f_width f /\ ih img = f_height f /\
  forall x y, 0 <= x < f_width f -> 0 <= y < f_height f -> cel_spec_pixel f fr l x y = Some (img_get img x y).
Proof. exact cel_image_pixels_loaded. Qed.
Print Assumptions C06_cel_pixels_loaded.
