From Ase Require Import Model.History.
From Ase Require Import Proofs.HistoryProofs.
From Ase Require Import Proofs.NoPanicApi.

Theorem C16_interleave : forall f css sched,
  Forall2 (fun cs t => t_todo t = [] -> t_done t = run_history f cs) css (exec f (map thread_init css) sched).
Proof. exact interleave_results. Qed.
Print Assumptions C16_interleave.

Theorem C16_schedule_independent : forall f css s1 s2,
  finished (exec f (map thread_init css) s1) -> finished (exec f (map thread_init css) s2) ->
  map t_done (exec f (map thread_init css) s1) = map t_done (exec f (map thread_init css) s2).
Proof. exact interleave_schedule_independent. Qed.
Print Assumptions C16_schedule_independent.

Theorem C16_history_pointwise : forall f cs i c,
  nth_error cs i = Some c -> nth_error (run_history f cs) i = Some (eval f c).
Proof. exact history_pointwise. Qed.
Print Assumptions C16_history_pointwise.

Theorem C16_history_permutation : forall f a b, Permutation.Permutation a b ->
  Permutation.Permutation (run_history f a) (run_history f b).
Proof. exact history_permutation. Qed.
Print Assumptions C16_history_permutation.

(* a run in which every thread has finished holds, thread by thread, exactly the sequential results *)
Theorem C16_finished_results : forall f css sched,
  finished (exec f (map thread_init css) sched) ->
  map t_done (exec f (map thread_init css) sched) = map (run_history f) css.
Proof. exact finished_results. Qed.
Print Assumptions C16_finished_results.

(* progress: for every family of call lists some schedule lets every thread finish (the premises of
   C16_schedule_independent are met for all inputs), and it ends in the sequential results *)
Theorem C16_interleave_total : forall f css,
  exists sched, finished (exec f (map thread_init css) sched) /\
                map t_done (exec f (map thread_init css) sched) = map (run_history f) css.
Proof. exact interleave_total. Qed.
Print Assumptions C16_interleave_total.

(* finality: once every thread has finished no further scheduling step changes any result *)
Theorem C16_finished_stable : forall f extra ts, finished ts -> exec f ts extra = ts.
Proof. exact finished_stable. Qed.
Print Assumptions C16_finished_stable.
