(* C18: utility helpers (extrude_border, PaletteMapper, to_indexed_image). *)
From Ase Require Import Base.Prelude Model.Util Proofs.ArrLemmas Proofs.UtilProofs.

(* the extruded image is (w+2) x (h+2) and pixel (x, y) is the input pixel at the clamped position *)
Theorem C18_extrude : forall img,
  1 <= uw img -> 1 <= uh img -> zlen (upx img) = uw img * uh img ->
  exists r, extrude_border img = Some r /\ uw r = uw img + 2 /\ uh r = uh img + 2 /\
    zlen (upx r) = (uw img + 2) * (uh img + 2) /\
    forall x y, 0 <= x < uw img + 2 -> 0 <= y < uh img + 2 ->
      nthz (upx r) (y * (uw img + 2) + x) =
      nthz (upx img) (Z.max 0 (Z.min (y - 1) (uh img - 1)) * uw img + Z.max 0 (Z.min (x - 1) (uw img - 1))).
Proof. exact extrude_spec. Qed.
Print Assumptions C18_extrude.

(* the failure branch, exactly: the call fails iff a side is 0 or the buffer has the wrong length *)
Theorem C18_extrude_none_iff : forall img,
  extrude_border img = None <-> (uw img < 1 \/ uh img < 1 \/ zlen (upx img) <> uw img * uh img).
Proof. exact extrude_none_iff. Qed.
Print Assumptions C18_extrude_none_iff.

(* the interior of the result is the input, unchanged *)
Theorem C18_extrude_interior : forall img,
  1 <= uw img -> 1 <= uh img -> zlen (upx img) = uw img * uh img ->
  exists r, extrude_border img = Some r /\
    forall x y, 0 <= x < uw img -> 0 <= y < uh img ->
      nthz (upx r) ((y + 1) * (uw img + 2) + (x + 1)) = nthz (upx img) (y * uw img + x).
Proof. exact extrude_interior. Qed.
Print Assumptions C18_extrude_interior.

(* the one-pixel border repeats the neighbouring row / column of the result (corners included) *)
Theorem C18_extrude_edges : forall img,
  1 <= uw img -> 1 <= uh img -> zlen (upx img) = uw img * uh img ->
  exists r, extrude_border img = Some r /\
    (forall x, 0 <= x < uw img + 2 ->
       nthz (upx r) (0 * (uw img + 2) + x) = nthz (upx r) (1 * (uw img + 2) + x)) /\
    (forall x, 0 <= x < uw img + 2 ->
       nthz (upx r) ((uh img + 1) * (uw img + 2) + x) = nthz (upx r) (uh img * (uw img + 2) + x)) /\
    (forall y, 0 <= y < uh img + 2 ->
       nthz (upx r) (y * (uw img + 2) + 0) = nthz (upx r) (y * (uw img + 2) + 1)) /\
    (forall y, 0 <= y < uh img + 2 ->
       nthz (upx r) (y * (uw img + 2) + (uw img + 1)) = nthz (upx r) (y * (uw img + 2) + uw img)).
Proof. exact extrude_edges. Qed.
Print Assumptions C18_extrude_edges.

(* every pixel of the result is a pixel of the input: no colour is invented *)
Theorem C18_extrude_pixels_from_input : forall img,
  1 <= uw img -> 1 <= uh img -> zlen (upx img) = uw img * uh img ->
  exists r, extrude_border img = Some r /\
    forall x y, 0 <= x < uw img + 2 -> 0 <= y < uh img + 2 ->
      exists i, 0 <= i < uw img * uh img /\ nthz (upx r) (y * (uw img + 2) + x) = nthz (upx img) i.
Proof. exact extrude_pixels_from_input. Qed.
Print Assumptions C18_extrude_pixels_from_input.

(* any alpha other than 255: the configured transparent index, or the failure index if none *)
Theorem C18_lookup_transparent : forall entries failure transparent r g b a, a <> 255 ->
  mapper_lookup (mapper_new entries failure transparent) r g b a =
  match transparent with Some t => t | None => failure end.
Proof. exact lookup_transparent. Qed.
Print Assumptions C18_lookup_transparent.

(* opaque colour that is not in the palette: the failure index (every insertion order) *)
Theorem C18_lookup_absent : forall entries failure transparent r g b,
  Forall entry_bytes entries -> is_byte r -> is_byte g -> is_byte b ->
  (forall idx a', ~ In (idx, (r, g, b, a')) entries) ->
  mapper_lookup (mapper_new entries failure transparent) r g b 255 = failure.
Proof. exact lookup_absent. Qed.
Print Assumptions C18_lookup_absent.

(* opaque colour all of whose occurrences are below 256: an index whose entry has that RGB
   (every insertion order) *)
Theorem C18_lookup_present : forall entries failure transparent r g b,
  Forall entry_bytes entries -> is_byte r -> is_byte g -> is_byte b ->
  (exists idx a', In (idx, (r, g, b, a')) entries) ->
  (forall idx a', In (idx, (r, g, b, a')) entries -> idx < 256) ->
  exists i a', mapper_lookup (mapper_new entries failure transparent) r g b 255 = i /\
               In (i, (r, g, b, a')) entries.
Proof. exact lookup_present. Qed.
Print Assumptions C18_lookup_present.

(* exact form: the last entry with that colour in insertion order decides *)
Theorem C18_lookup_last : forall entries failure transparent r g b,
  Forall entry_bytes entries -> is_byte r -> is_byte g -> is_byte b ->
  mapper_lookup (mapper_new entries failure transparent) r g b 255 =
  match find (has_rgb r g b) (rev entries) with
  | Some (idx, _) => if idx <? 256 then idx else failure
  | None => failure
  end.
Proof. exact lookup_last. Qed.
Print Assumptions C18_lookup_last.

(* the dimensions, and one looked-up index per pixel in row-major order *)
Theorem C18_indexed : forall img m,
  fst (to_indexed img m) = (uw img, uh img) /\
  snd (to_indexed img m) = map (lookup_pixel m) (upx img) /\
  zlen (snd (to_indexed img m)) = zlen (upx img) /\
  forall x y, nthz (snd (to_indexed img m)) (y * uw img + x) =
              option_map (lookup_pixel m) (nthz (upx img) (y * uw img + x)).
Proof. exact to_indexed_spec. Qed.
Print Assumptions C18_indexed.
