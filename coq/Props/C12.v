From Ase Require Import Model.Cost.
From Ase Require Import Proofs.CostProofs.

Theorem C12_buffered_le_input : forall (A : Type) (t : IT A) bs, 0 <= run_buffered t bs <= zlen bs.
Proof. exact @buffered_le_input. Qed.
Print Assumptions C12_buffered_le_input.

Theorem C12_buffered_consumed : forall (A : Type) (t : IT A) bs a rest,
  run t bs = Ok (a, rest) -> run_buffered t bs = zlen bs - zlen rest.
Proof. exact @buffered_consumed. Qed.
Print Assumptions C12_buffered_consumed.

Theorem C12_unzip_exact : forall inflate rest expected out,
  unzip inflate rest expected = Ok out -> zlen out = expected.
Proof. exact unzip_exact. Qed.
Print Assumptions C12_unzip_exact.

Theorem C12_unzip_bounded : forall inflate rest expected out,
  inflate_ratio inflate -> unzip inflate rest expected = Ok out -> zlen out <= 1032 * zlen rest + 64.
Proof. exact unzip_bounded. Qed.
Print Assumptions C12_unzip_bounded.

Theorem C12_take_bytes_bounded : forall rest limit out, take_bytes rest limit = Ok out -> zlen out <= zlen rest.
Proof. exact take_bytes_bounded. Qed.
Print Assumptions C12_take_bytes_bounded.

Theorem C12_bound_partial : forall nframes consumed inflated entities layers zbytes payloads,
  0 <= nframes <= 65535 -> 0 <= layers -> 0 <= entities -> 0 <= zbytes -> 0 <= payloads -> 0 <= inflated ->
  inflated <= 1032 * zbytes + 64 * payloads ->
  16 * nframes + 24 * layers + 6 * entities + zbytes + 6 * payloads <= consumed ->
  alloc_upper nframes consumed inflated entities layers <= bound consumed.
Proof. exact alloc_upper_bound. Qed.
Print Assumptions C12_bound_partial.
