From Ase Require Import Model.Cost.
From Ase Require Import Proofs.CostProofs.
From Ase Require Import Spec.Framing Proofs.CostFraming.

Theorem C12_buffered_le_input : forall (A : Type) (t : IT A) bs, 0 <= run_buffered t bs <= zlen bs.
Proof. exact @buffered_le_input. Qed.
Print Assumptions C12_buffered_le_input.

Theorem C12_buffered_consumed : forall (A : Type) (t : IT A) bs a rest,
  run t bs = Ok (a, rest) -> run_buffered t bs = zlen bs - zlen rest.
Proof. exact @buffered_consumed. Qed.
Print Assumptions C12_buffered_consumed.

Theorem C12_unzip_exact : forall inflate rest expected out,
  unzip inflate rest expected = Ok out -> zlen out = expected.
Proof. exact unzip_exact. Qed.
Print Assumptions C12_unzip_exact.

Theorem C12_unzip_bounded : forall inflate rest expected out,
  inflate_ratio inflate -> unzip inflate rest expected = Ok out -> zlen out <= 1032 * zlen rest + 64.
Proof. exact unzip_bounded. Qed.
Print Assumptions C12_unzip_bounded.

Theorem C12_take_bytes_bounded : forall rest limit out, take_bytes rest limit = Ok out -> zlen out <= zlen rest.
Proof. exact take_bytes_bounded. Qed.
Print Assumptions C12_take_bytes_bounded.

Theorem C12_bound_partial : forall nframes consumed inflated entities layers zbytes payloads,
  0 <= nframes <= 65535 -> 0 <= layers -> 0 <= entities -> 0 <= zbytes -> 0 <= payloads -> 0 <= inflated ->
  inflated <= 1032 * zbytes + 64 * payloads ->
  16 * nframes + 24 * layers + 6 * entities + zbytes + 6 * payloads <= consumed ->
  alloc_upper nframes consumed inflated entities layers <= bound consumed.
Proof. exact alloc_upper_bound. Qed.
Print Assumptions C12_bound_partial.

(* ---- the byte budget derived from the framing parser (Proofs/CostFraming.v) ----
   frames_size, chunks_size: 16 bytes per frame, 6 + payload bytes per chunk.  entities_of / layers_of / payloads_of / zbytes_of:
   the parameters the check measures on the input (tools/checks.py alloc_params): one entity per chunk and per 6 payload bytes,
   the layer chunks, the cel and tileset chunks and their payload bytes. *)

Theorem C12_consumed_framing : forall bs rh frames rest,
  run framing bs = Ok ((rh, frames), rest) -> zlen bs - zlen rest = 128 + frames_size frames.
Proof. exact consumed_framing. Qed.
Print Assumptions C12_consumed_framing.

Theorem C12_frames_size_chunks : forall frames, frames_size frames = 16 * zlen frames + chunks_size (all_chunks frames).
Proof. exact frames_size_chunks. Qed.
Print Assumptions C12_frames_size_chunks.

Theorem C12_bound_framing : forall bs rh frames rest inflated,
  run framing bs = Ok ((rh, frames), rest) ->
  0 <= rh_frames rh <= 65535 ->
  layer_chunks_long (all_chunks frames) ->
  0 <= inflated <= 1032 * zbytes_of (all_chunks frames) + 64 * payloads_of (all_chunks frames) ->
  alloc_upper (rh_frames rh) (zlen bs) inflated (entities_of (all_chunks frames)) (layers_of (all_chunks frames))
  <= bound (zlen bs).
Proof. exact alloc_upper_framing. Qed.
Print Assumptions C12_bound_framing.

(* for every byte string that loads, whatever it declares: no accounting hypothesis is left, only the recorded zlib ratio *)
Theorem C12_bound_loaded : forall (inflate : list Z -> Z -> zres) bs f inflated,
  Forall is_byte bs -> load inflate bs = Ok f ->
  exists rh frames rest,
    run framing bs = Ok ((rh, frames), rest) /\
    (0 <= inflated <= 1032 * zbytes_of (all_chunks frames) + 64 * payloads_of (all_chunks frames) ->
     alloc_upper (rh_frames rh) (zlen bs) inflated (entities_of (all_chunks frames)) (layers_of (all_chunks frames))
     <= bound (zlen bs)).
Proof. exact alloc_upper_loaded. Qed.
Print Assumptions C12_bound_loaded.

Theorem C12_layer_chunks_long : forall (inflate : list Z -> Z -> zres) bs f rh frames rest,
  load inflate bs = Ok f -> run framing bs = Ok ((rh, frames), rest) -> layer_chunks_long (all_chunks frames).
Proof. exact load_layer_chunks_long. Qed.
Print Assumptions C12_layer_chunks_long.
