(* C13 end to end, for whole files given as chunk programs: a serialised well-formed program that satisfies the load
   condition sprite_ok_ts (Props/C01_e2e.v) loads, followed by anything; every STRICT PREFIX of it fails with
   UnexpectedEof - wherever the cut falls (header, frame header, chunk header, payload, compressed stream). *)
From Ase Require Import Model.Api.
From Ase Require Import Spec.Serialize.
From Ase Require Import Proofs.EndToEnd.
From Ase Require Import Proofs.EndToEndTilesets.
From Ase Require Import Proofs.EndToEndTotalTs.
From Ase Require Import Proofs.EndToEndTrunc.

Theorem C13_e2e_prefixes :
  forall (inflate : list Z -> Z -> zres) (s : sprite_prog),
    wf_prog s -> inflate_ok inflate s -> sprite_ok_ts s ->
    (forall m : nat, (m < length (serialize s))%nat -> load inflate (firstn m (serialize s)) = Err eof) /\
    (forall tail : list Z, exists f, load inflate (serialize s ++ tail) = Ok f).
Proof. exact program_prefixes. Qed.
Print Assumptions C13_e2e_prefixes.

(* without the load condition: whenever the serialised program loads at all *)
Theorem C13_e2e_truncation :
  forall (inflate : list Z -> Z -> zres) (s : sprite_prog) (tail : list Z) (f : file) (m : nat),
    wf_prog s -> load inflate (serialize s ++ tail) = Ok f ->
    (m < length (serialize s))%nat -> load inflate (firstn m (serialize s)) = Err eof.
Proof. exact program_truncation. Qed.
Print Assumptions C13_e2e_truncation.

(* non-vacuity: the tileset example meets the hypotheses *)
Theorem C13_e2e_example :
  wf_prog TilesetExample.ts_prog /\ inflate_ok TilesetExample.ex_inflate TilesetExample.ts_prog /\ sprite_ok_ts TilesetExample.ts_prog.
Proof. exact (conj TilesetExample.ts_wf (conj TilesetExample.ts_inflate_ok ts_sprite_ok_ts)). Qed.
Print Assumptions C13_e2e_example.
