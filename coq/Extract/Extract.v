(* Extraction of the executable model for the correspondence check.  Only the three
   standard directive files are used; Z, positive, N, nat stay inductive. *)
From Ase Require Import Model.Dump Model.Sched Model.Util Proofs.BlendLaws Proofs.BlendRef.
From Ase Require Spec.AseRef.

(* the Aseprite reference on packed colours, and the HSL guards, under names of their own *)
Definition ref_blend_n := AseRef.blend_n.
Definition ref_hsl_guard := hsl_guard.
Definition ref_hsl_ok := hsl_ok.
From Coq Require Import ExtrOcamlBasic ExtrOCamlFloats ExtrOCamlInt63.
Extraction Language OCaml.
Set Extraction Output Directory ".".
Extraction "model.ml"
  load load_rest section outcome_line err_code observe blend
  run_sched_load run_fault_load
  extrude_border mapper_new mapper_lookup to_indexed
  ref_blend_n ref_hsl_guard ref_hsl_ok.
