(* Totality of the twelve channel functions generated from src/blend.rs: on all 256 x 256 byte pairs each returns a byte (no
   overflow check, no division by zero).  Complete sweeps under vm_compute; nothing here depends on Model/Blend.v's own
   channel functions. *)
From Ase Require Import Base.Prelude Model.Blend Gen.RustSem Proofs.BlendArith Proofs.BlendLaws.
From AseGen Require BlendGen.
From Coq Require Import Floats.

Definition chan_bytes (g : Z -> Z -> option Z) : Prop :=
  forall b s, is_byte b -> is_byte s -> forall v, g b s = Some v -> is_byte v.

(* ---------------- the twelve generated channel functions are total and byte valued: complete sweeps ---------------- *)

Definition chan_total_b (g : Z -> Z -> option Z) (b s : Z) : bool :=
  match g b s with Some v => is_byteb v | None => false end.

Lemma chan_total_sound g : sweep2 bytes bytes (chan_total_b g) = true -> chan_total g.
Proof.
  intros H b s Hb Hs. pose proof (sweep_bytes2 _ H b s Hb Hs) as E. unfold chan_total_b in E.
  destruct (g b s) as [v|]; [|discriminate]. exists v. split; [reflexivity|]. unfold is_byteb in E. unfold is_byte. lia.
Qed.
Lemma chan_total_bytes g : chan_total g -> chan_bytes g.
Proof. intros H b s Hb Hs v Hv. destruct (H b s Hb Hs) as (c & Hc & Hbyte). rewrite Hv in Hc. injection Hc as <-. exact Hbyte. Qed.

Lemma gt_multiply : chan_total BlendGen.blend_multiply.
Proof. apply chan_total_sound. vm_compute. reflexivity. Qed.
Lemma gt_screen : chan_total BlendGen.blend_screen.
Proof. apply chan_total_sound. vm_compute. reflexivity. Qed.
Lemma gt_overlay : chan_total BlendGen.blend_overlay.
Proof. apply chan_total_sound. vm_compute. reflexivity. Qed.
Lemma gt_darken : chan_total BlendGen.blend_darken.
Proof. apply chan_total_sound. vm_compute. reflexivity. Qed.
Lemma gt_lighten : chan_total BlendGen.blend_lighten.
Proof. apply chan_total_sound. vm_compute. reflexivity. Qed.
Lemma gt_color_dodge : chan_total BlendGen.blend_color_dodge.
Proof. apply chan_total_sound. vm_compute. reflexivity. Qed.
Lemma gt_color_burn : chan_total BlendGen.blend_color_burn.
Proof. apply chan_total_sound. vm_compute. reflexivity. Qed.
Lemma gt_hard_light : chan_total BlendGen.blend_hard_light.
Proof. apply chan_total_sound. vm_compute. reflexivity. Qed.
Lemma gt_difference : chan_total BlendGen.blend_difference.
Proof. apply chan_total_sound. vm_compute. reflexivity. Qed.
Lemma gt_exclusion : chan_total BlendGen.blend_exclusion.
Proof. apply chan_total_sound. vm_compute. reflexivity. Qed.
Lemma gt_divide : chan_total BlendGen.blend_divide.
Proof. apply chan_total_sound. vm_compute. reflexivity. Qed.
Lemma gt_soft_light : chan_total BlendGen.blend_soft_light.
Proof. apply chan_total_sound. vm_compute. reflexivity. Qed.

