(* Second half of the tie between src/blend.rs and Model/Blend.v (see BlendGenBase.v): the wrapper,
   the baselines, the HSL float code, the dispatch on the mode id, and the property theorems restated
   for the generated functions.  Not part of _CoqProject (compiled by tools/gencheck.py). *)
From Ase Require Import Base.Prelude Model.Blend Gen.RustSem Proofs.BlendArith Proofs.BlendLaws.
From AseGen Require BlendGen.
From AseGen Require Import BlendGenBase.
From Coq Require Import Floats ZifyBool.
Ltac Zify.zify_post_hook ::= Z.div_mod_to_equations.

(* ------------------------------------------------------------------ *)
(* the wrapper and the baselines *)

Definition pix_eq (f g : pixel -> pixel -> Z -> option pixel) : Prop :=
  forall b s o, pix_wf b -> pix_wf s -> is_byte o -> f b s o = g b s o.

Lemma pix_alpha_proj (p : pixel) : (let '(_, _, _, p3) := p in p3) = pix_alpha p.
Proof. destruct p as [[[? ?] ?] ?]. reflexivity. Qed.

Lemma obind_ret {A} (x : option A) : obind x (fun t => Some t) = x.
Proof. destruct x; reflexivity. Qed.

Lemma gen_blender fg fm : baseline_ok fm -> pix_eq fg fm ->
  pix_eq (fun b s o => BlendGen.blender b s o fg) (blender fm).
Proof.
  intros Hok Hf b s o Hb Hs Ho. unfold BlendGen.blender, blender.
  rewrite !pix_alpha_proj, !obind_ret, !gen_normal, Hf by assumption.
  destruct (negb (pix_alpha b =? 0)); [|reflexivity].
  destruct (normal b s o) as [n|] eqn:Hn; cbn [obind]; [|reflexivity].
  destruct (fm b s o) as [x|] eqn:Hx; cbn [obind]; [|reflexivity].
  pose proof (normal_wf_out _ _ _ _ Hb Hn) as Hnwf.
  destruct (Hok _ _ _ _ Hx) as (s' & _ & Hn').
  pose proof (normal_wf_out _ _ _ _ Hb Hn') as Hxwf.
  pose proof (pix_alpha_byte b Hb) as Hba. pose proof (pix_alpha_byte s Hs) as Hsa.
  rewrite gen_merge by assumption. cbn [obind].
  rewrite gen_mul_un8_byte by assumption. cbn [obind].
  rewrite gen_mul_un8_byte by auto using mul_un8_byte. cbn [obind].
  rewrite gen_merge by (auto using merge_wf, mul_un8_byte). reflexivity.
Qed.

Lemma gen_blend_channel fg fm : chan_eq fg fm ->
  pix_eq (fun b s o => BlendGen.blend_channel b s o fg) (blend_channel fm).
Proof.
  intros Hf [[[br bg] bb] ba] [[[sr sg] sb] sa] o Hb Hs Ho.
  pose proof Hb as (Hbr & Hbg & Hbb & Hba). pose proof Hs as (Hsr & Hsg & Hsb & Hsa).
  unfold BlendGen.blend_channel, blend_channel. rewrite !gen_as_rgba_i32. cbn [obind].
  destruct (Hf br sr Hbr Hsr) as [-> Hr]. destruct (fm br sr) as [r|]; cbn [obind]; [|reflexivity].
  destruct (Hf bg sg Hbg Hsg) as [-> Hg]. destruct (fm bg sg) as [g|]; cbn [obind]; [|reflexivity].
  destruct (Hf bb sb Hbb Hsb) as [-> Hb']. destruct (fm bb sb) as [b'|]; cbn [obind]; [|reflexivity].
  rewrite obind_ret. apply gen_normal; cbn [pix_wf]; auto.
Qed.

Lemma gen_soft_light_baseline : pix_eq BlendGen.soft_light_baseline soft_light_baseline.
Proof.
  intros [[[br bg] bb] ba] [[[sr sg] sb] sa] o Hb Hs Ho.
  pose proof Hb as (Hbr & Hbg & Hbb & Hba). pose proof Hs as (Hsr & Hsg & Hsb & Hsa).
  unfold BlendGen.soft_light_baseline, soft_light_baseline. rewrite !gen_as_rgba_i32. cbn [obind].
  destruct (gen_blend_soft_light br sr Hbr Hsr) as [-> _].
  destruct (gen_blend_soft_light bg sg Hbg Hsg) as [-> _].
  destruct (gen_blend_soft_light bb sb Hbb Hsb) as [-> _]. cbn [obind].
  rewrite gen_from_rgba_i32.
  destruct (from_rgba_i32 _ _ _ sa) as [s'|] eqn:E; cbn [obind]; [|reflexivity].
  rewrite obind_ret. apply gen_normal; try assumption. apply from_rgba_i32_inv in E. tauto.
Qed.

Lemma gen_addition_baseline : pix_eq BlendGen.addition_baseline addition_baseline.
Proof.
  intros [[[br bg] bb] ba] [[[sr sg] sb] sa] o Hb Hs Ho.
  pose proof Hb as (Hbr & Hbg & Hbb & Hba). pose proof Hs as (Hsr & Hsg & Hsb & Hsa).
  unfold BlendGen.addition_baseline, addition_baseline. rewrite !gen_as_rgba_i32. rs_unfold. rs_go.
  rewrite gen_from_rgba_i32.
  destruct (from_rgba_i32 _ _ _ sa) as [s'|] eqn:E; cbn [obind]; [|reflexivity].
  rewrite obind_ret. apply gen_normal; try assumption. apply from_rgba_i32_inv in E. tauto.
Qed.

Lemma gen_subtract_baseline : pix_eq BlendGen.subtract_baseline subtract_baseline.
Proof.
  intros [[[br bg] bb] ba] [[[sr sg] sb] sa] o Hb Hs Ho.
  pose proof Hb as (Hbr & Hbg & Hbb & Hba). pose proof Hs as (Hsr & Hsg & Hsb & Hsa).
  unfold BlendGen.subtract_baseline, subtract_baseline. rewrite !gen_as_rgba_i32. rs_unfold. rs_go.
  rewrite gen_from_rgba_i32.
  destruct (from_rgba_i32 _ _ _ sa) as [s'|] eqn:E; cbn [obind]; [|reflexivity].
  rewrite obind_ret. apply gen_normal; try assumption. apply from_rgba_i32_inv in E. tauto.
Qed.

(* ------------------------------------------------------------------ *)
(* the HSL float code: the same IEEE operations in the same order (no rounding argument is needed:
   both sides are the same term up to the plumbing of tuples, arrays and the option monad) *)

Lemma rs_i2f_nonneg z : 0 <= z -> rs_i2f z = f_of_Z z.
Proof. intros H. unfold rs_i2f. destruct (z <? 0) eqn:E; [lia|reflexivity]. Qed.

Lemma gen_as_rgb_f64 p : pix_wf p -> BlendGen.as_rgb_f64 p = Some (as_rgb_f64 p).
Proof.
  destruct p as [[[r g] b] a]. intros (Hr & Hg & Hb & Ha).
  unfold BlendGen.as_rgb_f64, as_rgb_f64. rewrite !rs_i2f_nonneg by (unfold is_byte in *; lia). reflexivity.
Qed.

Lemma gen_luminosity r g b : BlendGen.luminosity r g b = Some (luminosity (r, g, b)).
Proof. reflexivity. Qed.

Lemma gen_saturation r g b : BlendGen.saturation r g b = Some (saturation (r, g, b)).
Proof. reflexivity. Qed.

Lemma gen_clip_color r g b : BlendGen.clip_color r g b = Some (clip_color (r, g, b)).
Proof.
  unfold BlendGen.clip_color, clip_color. rewrite gen_luminosity. cbn [obind].
  unfold rs_fmin, rs_fmax.
  destruct (PrimFloat.ltb (fmin r (fmin g b)) 0); cbn [obind];
    match goal with |- context [PrimFloat.ltb 1 ?m] => destruct (PrimFloat.ltb 1 m) end; reflexivity.
Qed.

Lemma gen_set_luminocity r g b l : BlendGen.set_luminocity r g b l = Some (set_luminocity (r, g, b) l).
Proof.
  unfold BlendGen.set_luminocity, set_luminocity. rewrite gen_luminosity. cbn [obind].
  rewrite gen_clip_color. reflexivity.
Qed.

Lemma gen_static_sort3_orig r g b : BlendGen.static_sort3_orig r g b = Some (static_sort3_orig (r, g, b)).
Proof.
  unfold BlendGen.static_sort3_orig, static_sort3_orig, rs_fmin, rs_fmax.
  repeat match goal with |- context [if ?c then _ else _] =>
    match c with PrimFloat.ltb _ _ => destruct c end end; reflexivity.
Qed.

Lemma sort3_indices r g b : let '(mn, md, mx) := static_sort3_orig (r, g, b) in
  (mn = 0 \/ mn = 1 \/ mn = 2) /\ (md = 0 \/ md = 1 \/ md = 2) /\ (mx = 0 \/ mx = 1 \/ mx = 2).
Proof.
  unfold static_sort3_orig.
  repeat match goal with |- context [if ?c then _ else _] =>
    match c with PrimFloat.ltb _ _ => destruct c end end; lia.
Qed.

Lemma gen_set_saturation r g b sat : BlendGen.set_saturation r g b sat = Some (set_saturation (r, g, b) sat).
Proof.
  unfold BlendGen.set_saturation, set_saturation. rewrite gen_static_sort3_orig. cbn [obind].
  pose proof (sort3_indices r g b) as H. destruct (static_sort3_orig (r, g, b)) as [[mn md] mx].
  destruct H as (Hmn & Hmd & Hmx).
  destruct Hmn as [ -> | [ -> | -> ] ], Hmd as [ -> | [ -> | -> ] ], Hmx as [ -> | [ -> | -> ] ];
    cbn [arr3_get arr3_set obind col_get col_set Z.eqb Pos.eqb];
    match goal with |- context [if ?c then _ else _] =>
      match c with PrimFloat.ltb _ _ => destruct c end end; reflexivity.
Qed.

Lemma gen_from_rgb_f64 r g b a : BlendGen.from_rgb_f64 r g b a = from_rgb_f64 (r, g, b) a.
Proof. unfold BlendGen.from_rgb_f64, from_rgb_f64. rewrite gen_from_rgba_i32, obind_ret. reflexivity. Qed.

Ltac hsl_step := first
  [ rewrite gen_as_rgb_f64 by assumption | rewrite gen_saturation | rewrite gen_luminosity
  | rewrite gen_set_saturation | rewrite gen_set_luminocity | rewrite gen_from_rgb_f64
  | rewrite pix_alpha_proj | rewrite obind_ret | progress cbn [obind]
  | match goal with |- context [as_rgb_f64 ?p] => destruct (as_rgb_f64 p) as [[? ?] ?] end
  | match goal with |- context [set_saturation ?c ?x] => destruct (set_saturation c x) as [[? ?] ?] end
  | match goal with |- context [set_luminocity ?c ?x] => destruct (set_luminocity c x) as [[? ?] ?] end ].
Ltac hsl_baseline :=
  intros b s o Hb Hs Ho; repeat hsl_step;
  match goal with
  | |- context [from_rgb_f64 ?c ?a] => destruct (from_rgb_f64 c a) as [s'|] eqn:?; cbn [obind]; [|reflexivity]
  end;
  rewrite ?obind_ret; apply gen_normal; try assumption;
  match goal with E : from_rgb_f64 _ _ = Some _ |- _ =>
    unfold from_rgb_f64 in E; apply from_rgba_i32_inv in E; tauto end.

Lemma gen_hsl_hue_baseline : pix_eq BlendGen.hsl_hue_baseline hsl_hue_baseline.
Proof. unfold BlendGen.hsl_hue_baseline, hsl_hue_baseline. hsl_baseline. Qed.
Lemma gen_hsl_saturation_baseline : pix_eq BlendGen.hsl_saturation_baseline hsl_saturation_baseline.
Proof. unfold BlendGen.hsl_saturation_baseline, hsl_saturation_baseline. hsl_baseline. Qed.
Lemma gen_hsl_color_baseline : pix_eq BlendGen.hsl_color_baseline hsl_color_baseline.
Proof. unfold BlendGen.hsl_color_baseline, hsl_color_baseline. hsl_baseline. Qed.
Lemma gen_hsl_luminosity_baseline : pix_eq BlendGen.hsl_luminosity_baseline hsl_luminosity_baseline.
Proof. unfold BlendGen.hsl_luminosity_baseline, hsl_luminosity_baseline. hsl_baseline. Qed.

(* ------------------------------------------------------------------ *)
(* the 18 non-Normal modes: baseline, then the wrapper; the dispatch on the mode id *)

Ltac chan_mode L :=
  intros b s o Hb Hs Ho;
  match goal with |- ?f b s o = _ => unfold f end; rewrite obind_ret;
  apply (gen_blender _ _ (ok_blend_channel _)); try assumption;
  intros b' s' o' Hb' Hs' Ho';
  match goal with |- ?f b' s' o' = _ => unfold f end; rewrite obind_ret;
  apply (gen_blend_channel _ _ L); assumption.

Ltac base_mode OK L :=
  intros b s o Hb Hs Ho;
  match goal with |- ?f b s o = _ => unfold f end; rewrite obind_ret;
  apply (gen_blender _ _ OK L); assumption.

Lemma gen_multiply : pix_eq BlendGen.multiply (blender (blend_channel blend_multiply)).
Proof. chan_mode gen_blend_multiply. Qed.
Lemma gen_screen : pix_eq BlendGen.screen (blender (blend_channel blend_screen)).
Proof. chan_mode gen_blend_screen. Qed.
Lemma gen_overlay : pix_eq BlendGen.overlay (blender (blend_channel blend_overlay)).
Proof. chan_mode gen_blend_overlay. Qed.
Lemma gen_darken : pix_eq BlendGen.darken (blender (blend_channel blend_darken)).
Proof. chan_mode gen_blend_darken. Qed.
Lemma gen_lighten : pix_eq BlendGen.lighten (blender (blend_channel blend_lighten)).
Proof. chan_mode gen_blend_lighten. Qed.
Lemma gen_color_dodge : pix_eq BlendGen.color_dodge (blender (blend_channel blend_color_dodge)).
Proof. chan_mode gen_blend_color_dodge. Qed.
Lemma gen_color_burn : pix_eq BlendGen.color_burn (blender (blend_channel blend_color_burn)).
Proof. chan_mode gen_blend_color_burn. Qed.
Lemma gen_hard_light : pix_eq BlendGen.hard_light (blender (blend_channel blend_hard_light)).
Proof. chan_mode gen_blend_hard_light. Qed.
Lemma gen_difference : pix_eq BlendGen.difference (blender (blend_channel blend_difference)).
Proof. chan_mode gen_blend_difference. Qed.
Lemma gen_exclusion : pix_eq BlendGen.exclusion (blender (blend_channel blend_exclusion)).
Proof. chan_mode gen_blend_exclusion. Qed.
Lemma gen_divide : pix_eq BlendGen.divide (blender (blend_channel blend_divide)).
Proof. chan_mode gen_blend_divide. Qed.
Lemma gen_soft_light : pix_eq BlendGen.soft_light (blender soft_light_baseline).
Proof. base_mode ok_soft_light gen_soft_light_baseline. Qed.
Lemma gen_addition : pix_eq BlendGen.addition (blender addition_baseline).
Proof. base_mode ok_addition gen_addition_baseline. Qed.
Lemma gen_subtract : pix_eq BlendGen.subtract (blender subtract_baseline).
Proof. base_mode ok_subtract gen_subtract_baseline. Qed.
Lemma gen_hsl_hue : pix_eq BlendGen.hsl_hue (blender hsl_hue_baseline).
Proof. base_mode ok_hsl_hue gen_hsl_hue_baseline. Qed.
Lemma gen_hsl_saturation : pix_eq BlendGen.hsl_saturation (blender hsl_saturation_baseline).
Proof. base_mode ok_hsl_saturation gen_hsl_saturation_baseline. Qed.
Lemma gen_hsl_color : pix_eq BlendGen.hsl_color (blender hsl_color_baseline).
Proof. base_mode ok_hsl_color gen_hsl_color_baseline. Qed.
Lemma gen_hsl_luminosity : pix_eq BlendGen.hsl_luminosity (blender hsl_luminosity_baseline).
Proof. base_mode ok_hsl_luminosity gen_hsl_luminosity_baseline. Qed.

(* THE TIE: what Frame::image calls for a layer of blend mode id m (parse_blend_mode, then
   blend_mode_to_blend_fn, then the function of blend.rs) is the model's `blend m`, and the
   ids the code accepts are exactly 0..18 *)
Theorem gen_blend : forall (m : Z) (b s : pixel) (o : Z),
  0 <= m <= 18 -> pix_wf b -> pix_wf s -> is_byte o ->
  BlendGen.blend m b s o = blend m b s o.
Proof.
  intros m b s o Hm Hb Hs Ho.
  assert (H : m = 0 \/ m = 1 \/ m = 2 \/ m = 3 \/ m = 4 \/ m = 5 \/ m = 6 \/ m = 7 \/ m = 8 \/ m = 9 \/
              m = 10 \/ m = 11 \/ m = 12 \/ m = 13 \/ m = 14 \/ m = 15 \/ m = 16 \/ m = 17 \/ m = 18) by lia.
  repeat (destruct H as [->|H]); [..|subst m];
    unfold BlendGen.blend, blend; cbn [BlendGen.blend_fn_of_mode Z.eqb Pos.eqb baseline].
  - apply gen_normal; assumption.
  - apply gen_multiply; assumption.
  - apply gen_screen; assumption.
  - apply gen_overlay; assumption.
  - apply gen_darken; assumption.
  - apply gen_lighten; assumption.
  - apply gen_color_dodge; assumption.
  - apply gen_color_burn; assumption.
  - apply gen_hard_light; assumption.
  - apply gen_soft_light; assumption.
  - apply gen_difference; assumption.
  - apply gen_exclusion; assumption.
  - apply gen_hsl_hue; assumption.
  - apply gen_hsl_saturation; assumption.
  - apply gen_hsl_color; assumption.
  - apply gen_hsl_luminosity; assumption.
  - apply gen_addition; assumption.
  - apply gen_subtract; assumption.
  - apply gen_divide; assumption.
Qed.

Theorem gen_blend_refuses : forall (m : Z) (b s : pixel) (o : Z),
  ~ (0 <= m <= 18) -> BlendGen.blend m b s o = None.
Proof.
  intros m b s o Hm. unfold BlendGen.blend, BlendGen.blend_fn_of_mode.
  destruct m as [|p|p]; try reflexivity; try lia.
  do 5 (destruct p as [p|p|]; try reflexivity; try lia).
Qed.

(* ------------------------------------------------------------------ *)
(* the C03 / C17 statements about the generated functions *)
From Ase Require Import Proofs.BlendRef.
From Ase Require Spec.AseRef.

Lemma gen_blend_some m b s o p : pix_wf b -> pix_wf s -> is_byte o ->
  BlendGen.blend m b s o = Some p -> 0 <= m <= 18 /\ blend m b s o = Some p.
Proof.
  intros Hb Hs Ho H.
  destruct (Z_le_dec 0 m) as [H0|H0]; [destruct (Z_le_dec m 18) as [H1|H1]|];
    try (rewrite gen_blend_refuses in H by lia; discriminate).
  split; [lia|]. rewrite <- gen_blend by (assumption || lia). exact H.
Qed.

Lemma int_mode_range m : In m [0; 1; 2; 3; 4; 5; 6; 7; 8; 10; 11; 16; 17; 18] -> 0 <= m <= 18.
Proof. cbn [In]. lia. Qed.

Lemma C03_int_gen_proof : forall (m : Z) (b s : pixel) (o : Z),
  In m [0; 1; 2; 3; 4; 5; 6; 7; 8; 10; 11; 16; 17; 18] ->
  pix_wf b -> pix_wf s -> is_byte o ->
  exists p, BlendGen.blend m b s o = Some p /\ pix_wf p /\
            AseRef.blend_n m (pack b) (pack s) o = Some (pack p).
Proof. intros m b s o Hm Hb Hs Ho. rewrite gen_blend by (auto using int_mode_range). apply C03_int_proof; assumption. Qed.

Lemma C03_soft_gen_proof : forall (b s : pixel) (o : Z),
  pix_wf b -> pix_wf s -> is_byte o ->
  exists p, BlendGen.blend 9 b s o = Some p /\ pix_wf p /\
            AseRef.blend_n 9 (pack b) (pack s) o = Some (pack p).
Proof. intros b s o Hb Hs Ho. rewrite gen_blend by (assumption || lia). apply C03_soft_proof; assumption. Qed.

Lemma C03_hsl_partial_gen_proof : forall (m : Z) (b s : pixel) (o : Z),
  m = 12 \/ m = 13 \/ m = 14 \/ m = 15 ->
  pix_wf b -> pix_wf s -> is_byte o ->
  hsl_guard m b s = true ->
  exists p, BlendGen.blend m b s o = Some p /\ pix_wf p /\
            AseRef.blend_n m (pack b) (pack s) o = Some (pack p).
Proof. intros m b s o Hm Hb Hs Ho Hg. rewrite gen_blend by (assumption || lia). apply C03_hsl_partial_proof; assumption. Qed.

Lemma C17_alpha_gen_proof : forall (m : Z) (b s : pixel) (o : Z) (p q : pixel),
  pix_wf b -> pix_wf s -> is_byte o ->
  BlendGen.blend m b s o = Some p -> BlendGen.blend 0 b s o = Some q -> pix_alpha p = pix_alpha q.
Proof.
  intros m b s o p q Hb Hs Ho Hp Hq.
  apply gen_blend_some in Hp; try assumption. apply gen_blend_some in Hq; try assumption.
  eapply C17_alpha_all; [exact Hb|exact Hs|exact Ho|apply Hp|apply Hq].
Qed.

Lemma C17_src_transparent_gen_proof : forall (m : Z) (b s : pixel) (o : Z) (p : pixel),
  pix_wf b -> pix_wf s -> is_byte o ->
  pix_alpha b <> 0 -> pix_alpha s = 0 -> BlendGen.blend m b s o = Some p -> p = b.
Proof.
  intros m b s o p Hb Hs Ho Hnz Hz Hp. apply gen_blend_some in Hp; try assumption.
  eapply C17_src_transparent_all; [exact Hb|exact Hs|exact Ho|exact Hnz|exact Hz|apply Hp].
Qed.

Lemma C17_zero_opacity_gen_proof : forall (m : Z) (b s p : pixel),
  pix_wf b -> pix_wf s -> pix_alpha b <> 0 -> BlendGen.blend m b s 0 = Some p -> p = b.
Proof.
  intros m b s p Hb Hs Hnz Hp. apply gen_blend_some in Hp; try assumption; [|unfold is_byte; lia].
  eapply C17_zero_opacity_all; [exact Hb|exact Hs|exact Hnz|apply Hp].
Qed.

Lemma C17_over_transparent_gen_proof : forall (m : Z) (b s : pixel) (o : Z),
  0 <= m <= 18 -> pix_wf b -> pix_wf s -> is_byte o -> pix_alpha b = 0 ->
  BlendGen.blend m b s o = Some (let '(sr, sg, sb, sa) := s in (sr, sg, sb, mul_un8 sa o)).
Proof. intros m b s o Hm Hb Hs Ho Hz. rewrite gen_blend by assumption. apply C17_over_transparent_all; assumption. Qed.

Lemma C17_normal_opaque_gen_proof : forall (b s : pixel),
  pix_wf b -> pix_wf s -> pix_alpha s = 255 -> BlendGen.blend 0 b s 255 = Some s.
Proof.
  intros b s Hb Hs Ha. rewrite gen_blend by (assumption || unfold is_byte; lia).
  apply C17_normal_opaque_all; assumption.
Qed.

(* no overflow check, no debug assertion, no division by zero, no index out of range, every
   channel a byte: here the statement is about the code with every i32 / u8 operation checked *)
Lemma C17_range_int_gen_proof : forall (m : Z) (b s : pixel) (o : Z),
  In m [0; 1; 2; 3; 4; 5; 6; 7; 8; 10; 11; 16; 17; 18] ->
  pix_wf b -> pix_wf s -> is_byte o ->
  exists p, BlendGen.blend m b s o = Some p /\ pix_wf p.
Proof. intros m b s o Hm Hb Hs Ho. rewrite gen_blend by (auto using int_mode_range). apply C17_range_int; assumption. Qed.

Lemma C17_range_soft_gen_proof : forall (b s : pixel) (o : Z),
  pix_wf b -> pix_wf s -> is_byte o ->
  exists p, BlendGen.blend 9 b s o = Some p /\ pix_wf p.
Proof. intros b s o Hb Hs Ho. rewrite gen_blend by (assumption || lia). apply C17_range_soft; assumption. Qed.

Lemma C17_range_hsl_partial_gen_proof : forall (m : Z) (b s : pixel) (o : Z),
  m = 12 \/ m = 13 \/ m = 14 \/ m = 15 ->
  pix_wf b -> pix_wf s -> is_byte o ->
  hsl_ok m b s = true ->
  exists p, BlendGen.blend m b s o = Some p /\ pix_wf p.
Proof. intros m b s o Hm Hb Hs Ho Hg. rewrite gen_blend by (assumption || lia). apply C17_range_hsl_partial; assumption. Qed.

Lemma C17_range_hsl_only_failure_gen_proof : forall (m : Z) (b s : pixel) (o : Z),
  m = 12 \/ m = 13 \/ m = 14 \/ m = 15 ->
  pix_wf b -> pix_wf s -> is_byte o ->
  (BlendGen.blend m b s o = None <-> (pix_alpha b <> 0 /\ hsl_ok m b s = false)).
Proof. intros m b s o Hm Hb Hs Ho. rewrite gen_blend by (assumption || lia). apply C17_range_hsl_only_failure; assumption. Qed.
