(* The colour side of the tie between src/blend.rs and Model/Blend.v: the generated channel functions, the soft-light,
   addition and subtract baselines equal the model's; with BlendGenEqHsl.v this gives GEN_tie (generated blend = model blend
   for every mode id) and C03 for the generated code.  Not part of _CoqProject (compiled by the C03 check). *)
From Ase Require Import Base.Prelude Model.Blend Gen.RustSem Proofs.BlendArith Proofs.BlendLaws.
From AseGen Require BlendGen.
From AseGen Require Import BlendGenBase BlendGenTotal BlendGenStruct BlendGenEqHsl.
From Coq Require Import Floats ZifyBool.
Ltac Zify.zify_post_hook ::= Z.div_mod_to_equations.

(* ------------------------------------------------------------------ *)
(* the separable channel functions equal the model's: complete 256 x 256 sweeps *)

(* soft light: the model returns the i32 directly; 65 536 float evaluations on each side *)
Lemma gen_blend_soft_light : chan_eq BlendGen.blend_soft_light (fun b s => Some (blend_soft_light b s)).
Proof. unfold chan_eq. apply chan_agree_sound. vm_compute. reflexivity. Qed.
Lemma gen_blend_multiply : chan_eq BlendGen.blend_multiply blend_multiply.
Proof. unfold chan_eq. apply chan_agree_sound. vm_compute. reflexivity. Qed.
Lemma gen_blend_screen : chan_eq BlendGen.blend_screen blend_screen.
Proof. unfold chan_eq. apply chan_agree_sound. vm_compute. reflexivity. Qed.
Lemma gen_blend_overlay : chan_eq BlendGen.blend_overlay blend_overlay.
Proof. unfold chan_eq. apply chan_agree_sound. vm_compute. reflexivity. Qed.
Lemma gen_blend_darken : chan_eq BlendGen.blend_darken blend_darken.
Proof. unfold chan_eq. apply chan_agree_sound. vm_compute. reflexivity. Qed.
Lemma gen_blend_lighten : chan_eq BlendGen.blend_lighten blend_lighten.
Proof. unfold chan_eq. apply chan_agree_sound. vm_compute. reflexivity. Qed.
Lemma gen_blend_color_dodge : chan_eq BlendGen.blend_color_dodge blend_color_dodge.
Proof. unfold chan_eq. apply chan_agree_sound. vm_compute. reflexivity. Qed.
Lemma gen_blend_color_burn : chan_eq BlendGen.blend_color_burn blend_color_burn.
Proof. unfold chan_eq. apply chan_agree_sound. vm_compute. reflexivity. Qed.
Lemma gen_blend_hard_light : chan_eq BlendGen.blend_hard_light blend_hard_light.
Proof. unfold chan_eq. apply chan_agree_sound. vm_compute. reflexivity. Qed.
Lemma gen_blend_difference : chan_eq BlendGen.blend_difference blend_difference.
Proof. unfold chan_eq. apply chan_agree_sound. vm_compute. reflexivity. Qed.
Lemma gen_blend_exclusion : chan_eq BlendGen.blend_exclusion blend_exclusion.
Proof. unfold chan_eq. apply chan_agree_sound. vm_compute. reflexivity. Qed.
Lemma gen_blend_divide : chan_eq BlendGen.blend_divide blend_divide.
Proof. unfold chan_eq. apply chan_agree_sound. vm_compute. reflexivity. Qed.

(* ------------------------------------------------------------------ *)
(* the baselines *)

Lemma gen_soft_light_baseline : pix_eq BlendGen.soft_light_baseline soft_light_baseline.
Proof.
  intros [[[br bg] bb] ba] [[[sr sg] sb] sa] o Hb Hs Ho.
  pose proof Hb as (Hbr & Hbg & Hbb & Hba). pose proof Hs as (Hsr & Hsg & Hsb & Hsa).
  unfold BlendGen.soft_light_baseline, soft_light_baseline. rewrite !gen_as_rgba_i32. cbn [obind].
  destruct (gen_blend_soft_light br sr Hbr Hsr) as [-> _].
  destruct (gen_blend_soft_light bg sg Hbg Hsg) as [-> _].
  destruct (gen_blend_soft_light bb sb Hbb Hsb) as [-> _]. cbn [obind].
  rewrite gen_from_rgba_i32.
  destruct (from_rgba_i32 _ _ _ sa) as [s'|] eqn:E; cbn [obind]; [|reflexivity].
  rewrite obind_ret. apply gen_normal; try assumption. apply from_rgba_i32_inv in E. tauto.
Qed.

Lemma gen_addition_baseline : pix_eq BlendGen.addition_baseline addition_baseline.
Proof.
  intros [[[br bg] bb] ba] [[[sr sg] sb] sa] o Hb Hs Ho.
  pose proof Hb as (Hbr & Hbg & Hbb & Hba). pose proof Hs as (Hsr & Hsg & Hsb & Hsa).
  unfold BlendGen.addition_baseline, addition_baseline. rewrite !gen_as_rgba_i32. rs_unfold. rs_go.
  rewrite gen_from_rgba_i32.
  destruct (from_rgba_i32 _ _ _ sa) as [s'|] eqn:E; cbn [obind]; [|reflexivity].
  rewrite obind_ret. apply gen_normal; try assumption. apply from_rgba_i32_inv in E. tauto.
Qed.

Lemma gen_subtract_baseline : pix_eq BlendGen.subtract_baseline subtract_baseline.
Proof.
  intros [[[br bg] bb] ba] [[[sr sg] sb] sa] o Hb Hs Ho.
  pose proof Hb as (Hbr & Hbg & Hbb & Hba). pose proof Hs as (Hsr & Hsg & Hsb & Hsa).
  unfold BlendGen.subtract_baseline, subtract_baseline. rewrite !gen_as_rgba_i32. rs_unfold. rs_go.
  rewrite gen_from_rgba_i32.
  destruct (from_rgba_i32 _ _ _ sa) as [s'|] eqn:E; cbn [obind]; [|reflexivity].
  rewrite obind_ret. apply gen_normal; try assumption. apply from_rgba_i32_inv in E. tauto.
Qed.

(* ------------------------------------------------------------------ *)
(* the 18 non-Normal modes: baseline, then the wrapper; the dispatch on the mode id *)

Ltac chan_mode L :=
  intros b s o Hb Hs Ho;
  match goal with |- ?f b s o = _ => unfold f end; rewrite obind_ret;
  apply (gen_blender _ _ (ok_blend_channel _)); try assumption;
  intros b' s' o' Hb' Hs' Ho';
  match goal with |- ?f b' s' o' = _ => unfold f end; rewrite obind_ret;
  apply (gen_blend_channel _ _ L); assumption.

Ltac base_mode OK L :=
  intros b s o Hb Hs Ho;
  match goal with |- ?f b s o = _ => unfold f end; rewrite obind_ret;
  apply (gen_blender _ _ OK L); assumption.

Lemma gen_multiply : pix_eq BlendGen.multiply (blender (blend_channel blend_multiply)).
Proof. chan_mode gen_blend_multiply. Qed.
Lemma gen_screen : pix_eq BlendGen.screen (blender (blend_channel blend_screen)).
Proof. chan_mode gen_blend_screen. Qed.
Lemma gen_overlay : pix_eq BlendGen.overlay (blender (blend_channel blend_overlay)).
Proof. chan_mode gen_blend_overlay. Qed.
Lemma gen_darken : pix_eq BlendGen.darken (blender (blend_channel blend_darken)).
Proof. chan_mode gen_blend_darken. Qed.
Lemma gen_lighten : pix_eq BlendGen.lighten (blender (blend_channel blend_lighten)).
Proof. chan_mode gen_blend_lighten. Qed.
Lemma gen_color_dodge : pix_eq BlendGen.color_dodge (blender (blend_channel blend_color_dodge)).
Proof. chan_mode gen_blend_color_dodge. Qed.
Lemma gen_color_burn : pix_eq BlendGen.color_burn (blender (blend_channel blend_color_burn)).
Proof. chan_mode gen_blend_color_burn. Qed.
Lemma gen_hard_light : pix_eq BlendGen.hard_light (blender (blend_channel blend_hard_light)).
Proof. chan_mode gen_blend_hard_light. Qed.
Lemma gen_difference : pix_eq BlendGen.difference (blender (blend_channel blend_difference)).
Proof. chan_mode gen_blend_difference. Qed.
Lemma gen_exclusion : pix_eq BlendGen.exclusion (blender (blend_channel blend_exclusion)).
Proof. chan_mode gen_blend_exclusion. Qed.
Lemma gen_divide : pix_eq BlendGen.divide (blender (blend_channel blend_divide)).
Proof. chan_mode gen_blend_divide. Qed.
Lemma gen_soft_light : pix_eq BlendGen.soft_light (blender soft_light_baseline).
Proof. base_mode ok_soft_light gen_soft_light_baseline. Qed.
Lemma gen_addition : pix_eq BlendGen.addition (blender addition_baseline).
Proof. base_mode ok_addition gen_addition_baseline. Qed.
Lemma gen_subtract : pix_eq BlendGen.subtract (blender subtract_baseline).
Proof. base_mode ok_subtract gen_subtract_baseline. Qed.
(* THE TIE: what Frame::image calls for a layer of blend mode id m (parse_blend_mode, then
   blend_mode_to_blend_fn, then the function of blend.rs) is the model's `blend m`, and the
   ids the code accepts are exactly 0..18 *)
Theorem gen_blend : forall (m : Z) (b s : pixel) (o : Z),
  0 <= m <= 18 -> pix_wf b -> pix_wf s -> is_byte o ->
  BlendGen.blend m b s o = blend m b s o.
Proof.
  intros m b s o Hm Hb Hs Ho.
  assert (H : m = 0 \/ m = 1 \/ m = 2 \/ m = 3 \/ m = 4 \/ m = 5 \/ m = 6 \/ m = 7 \/ m = 8 \/ m = 9 \/
              m = 10 \/ m = 11 \/ m = 12 \/ m = 13 \/ m = 14 \/ m = 15 \/ m = 16 \/ m = 17 \/ m = 18) by lia.
  repeat (destruct H as [->|H]); [..|subst m];
    unfold BlendGen.blend, blend; cbn [BlendGen.blend_fn_of_mode Z.eqb Pos.eqb baseline].
  - apply gen_normal; assumption.
  - apply gen_multiply; assumption.
  - apply gen_screen; assumption.
  - apply gen_overlay; assumption.
  - apply gen_darken; assumption.
  - apply gen_lighten; assumption.
  - apply gen_color_dodge; assumption.
  - apply gen_color_burn; assumption.
  - apply gen_hard_light; assumption.
  - apply gen_soft_light; assumption.
  - apply gen_difference; assumption.
  - apply gen_exclusion; assumption.
  - apply gen_hsl_hue; assumption.
  - apply gen_hsl_saturation; assumption.
  - apply gen_hsl_color; assumption.
  - apply gen_hsl_luminosity; assumption.
  - apply gen_addition; assumption.
  - apply gen_subtract; assumption.
  - apply gen_divide; assumption.
Qed.

(* ------------------------------------------------------------------ *)
(* the C03 / C17 statements about the generated functions *)
From Ase Require Import Proofs.BlendRef.
From Ase Require Spec.AseRef.

Lemma gen_blend_some m b s o p : pix_wf b -> pix_wf s -> is_byte o ->
  BlendGen.blend m b s o = Some p -> 0 <= m <= 18 /\ blend m b s o = Some p.
Proof.
  intros Hb Hs Ho H.
  destruct (Z_le_dec 0 m) as [H0|H0]; [destruct (Z_le_dec m 18) as [H1|H1]|];
    try (rewrite gen_blend_refuses in H by lia; discriminate).
  split; [lia|]. rewrite <- gen_blend by (assumption || lia). exact H.
Qed.

Lemma int_mode_range m : In m [0; 1; 2; 3; 4; 5; 6; 7; 8; 10; 11; 16; 17; 18] -> 0 <= m <= 18.
Proof. cbn [In]. lia. Qed.

Lemma C03_int_gen_proof : forall (m : Z) (b s : pixel) (o : Z),
  In m [0; 1; 2; 3; 4; 5; 6; 7; 8; 10; 11; 16; 17; 18] ->
  pix_wf b -> pix_wf s -> is_byte o ->
  exists p, BlendGen.blend m b s o = Some p /\ pix_wf p /\
            AseRef.blend_n m (pack b) (pack s) o = Some (pack p).
Proof. intros m b s o Hm Hb Hs Ho. rewrite gen_blend by (auto using int_mode_range). apply C03_int_proof; assumption. Qed.

Lemma C03_soft_gen_proof : forall (b s : pixel) (o : Z),
  pix_wf b -> pix_wf s -> is_byte o ->
  exists p, BlendGen.blend 9 b s o = Some p /\ pix_wf p /\
            AseRef.blend_n 9 (pack b) (pack s) o = Some (pack p).
Proof. intros b s o Hb Hs Ho. rewrite gen_blend by (assumption || lia). apply C03_soft_proof; assumption. Qed.

Lemma C03_hsl_partial_gen_proof : forall (m : Z) (b s : pixel) (o : Z),
  m = 12 \/ m = 13 \/ m = 14 \/ m = 15 ->
  pix_wf b -> pix_wf s -> is_byte o ->
  hsl_guard m b s = true ->
  exists p, BlendGen.blend m b s o = Some p /\ pix_wf p /\
            AseRef.blend_n m (pack b) (pack s) o = Some (pack p).
Proof. intros m b s o Hm Hb Hs Ho Hg. rewrite gen_blend by (assumption || lia). apply C03_hsl_partial_proof; assumption. Qed.

