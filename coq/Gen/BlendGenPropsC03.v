(* C03 for the functions GENERATED from src/blend.rs (tools/rs2coq.py): generated blend = model blend for every mode id
   (GEN_tie), hence the refinement theorems against Spec/AseRef.v hold for the generated code.
   Only statements closed by `exact`; not part of _CoqProject (compiled by the C03 check). *)
From Ase Require Import Base.Prelude Model.Blend Proofs.BlendLaws Proofs.BlendRef.
From Ase Require Spec.AseRef.
From AseGen Require BlendGen.
From AseGen Require Import BlendGenEq.

Theorem GEN_tie : forall (m : Z) (b s : pixel) (o : Z),
  0 <= m <= 18 -> pix_wf b -> pix_wf s -> is_byte o ->
  BlendGen.blend m b s o = blend m b s o.
Proof. exact gen_blend. Qed.
Print Assumptions GEN_tie.

Theorem C03_int_gen : forall (m : Z) (b s : pixel) (o : Z),
  In m [0; 1; 2; 3; 4; 5; 6; 7; 8; 10; 11; 16; 17; 18] ->
  pix_wf b -> pix_wf s -> is_byte o ->
  exists p, BlendGen.blend m b s o = Some p /\ pix_wf p /\
            AseRef.blend_n m (pack b) (pack s) o = Some (pack p).
Proof. exact C03_int_gen_proof. Qed.
Print Assumptions C03_int_gen.

Theorem C03_soft_gen : forall (b s : pixel) (o : Z),
  pix_wf b -> pix_wf s -> is_byte o ->
  exists p, BlendGen.blend 9 b s o = Some p /\ pix_wf p /\
            AseRef.blend_n 9 (pack b) (pack s) o = Some (pack p).
Proof. exact C03_soft_gen_proof. Qed.
Print Assumptions C03_soft_gen.

Theorem C03_hsl_partial_gen : forall (m : Z) (b s : pixel) (o : Z),
  m = 12 \/ m = 13 \/ m = 14 \/ m = 15 ->
  pix_wf b -> pix_wf s -> is_byte o ->
  hsl_guard m b s = true ->
  exists p, BlendGen.blend m b s o = Some p /\ pix_wf p /\
            AseRef.blend_n m (pack b) (pack s) o = Some (pack p).
Proof. exact C03_hsl_partial_gen_proof. Qed.
Print Assumptions C03_hsl_partial_gen.

