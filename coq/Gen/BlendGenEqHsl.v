(* The four HSL modes of the generated code equal the model's (Model/Blend.v): the same IEEE operations in the same order, up
   to the plumbing of tuples, arrays and the option monad.  Used for C03 and for the guarded range statements of C17.
   Not part of _CoqProject (compiled by the C03 / C17 checks). *)
From Ase Require Import Base.Prelude Model.Blend Gen.RustSem Proofs.BlendArith Proofs.BlendLaws.
From AseGen Require BlendGen.
From AseGen Require Import BlendGenBase BlendGenTotal BlendGenStruct.
From Coq Require Import Floats ZifyBool.
Ltac Zify.zify_post_hook ::= Z.div_mod_to_equations.

(* ------------------------------------------------------------------ *)
(* the HSL float code: the same IEEE operations in the same order (no rounding argument is needed:
   both sides are the same term up to the plumbing of tuples, arrays and the option monad) *)

Lemma rs_i2f_nonneg z : 0 <= z -> rs_i2f z = f_of_Z z.
Proof. intros H. unfold rs_i2f. destruct (z <? 0) eqn:E; [lia|reflexivity]. Qed.

Lemma gen_as_rgb_f64 p : pix_wf p -> BlendGen.as_rgb_f64 p = Some (as_rgb_f64 p).
Proof.
  destruct p as [[[r g] b] a]. intros (Hr & Hg & Hb & Ha).
  unfold BlendGen.as_rgb_f64, as_rgb_f64. rewrite !rs_i2f_nonneg by (unfold is_byte in *; lia). reflexivity.
Qed.

Lemma gen_luminosity r g b : BlendGen.luminosity r g b = Some (luminosity (r, g, b)).
Proof. reflexivity. Qed.

Lemma gen_saturation r g b : BlendGen.saturation r g b = Some (saturation (r, g, b)).
Proof. reflexivity. Qed.

Lemma gen_clip_color r g b : BlendGen.clip_color r g b = Some (clip_color (r, g, b)).
Proof.
  unfold BlendGen.clip_color, clip_color. rewrite gen_luminosity. cbn [obind].
  unfold rs_fmin, rs_fmax.
  destruct (PrimFloat.ltb (fmin r (fmin g b)) 0); cbn [obind];
    match goal with |- context [PrimFloat.ltb 1 ?m] => destruct (PrimFloat.ltb 1 m) end; reflexivity.
Qed.

Lemma gen_set_luminocity r g b l : BlendGen.set_luminocity r g b l = Some (set_luminocity (r, g, b) l).
Proof.
  unfold BlendGen.set_luminocity, set_luminocity. rewrite gen_luminosity. cbn [obind].
  rewrite gen_clip_color. reflexivity.
Qed.

Lemma gen_static_sort3_orig r g b : BlendGen.static_sort3_orig r g b = Some (static_sort3_orig (r, g, b)).
Proof.
  unfold BlendGen.static_sort3_orig, static_sort3_orig, rs_fmin, rs_fmax.
  repeat match goal with |- context [if ?c then _ else _] =>
    match c with PrimFloat.ltb _ _ => destruct c end end; reflexivity.
Qed.

Lemma sort3_indices r g b : let '(mn, md, mx) := static_sort3_orig (r, g, b) in
  (mn = 0 \/ mn = 1 \/ mn = 2) /\ (md = 0 \/ md = 1 \/ md = 2) /\ (mx = 0 \/ mx = 1 \/ mx = 2).
Proof.
  unfold static_sort3_orig.
  repeat match goal with |- context [if ?c then _ else _] =>
    match c with PrimFloat.ltb _ _ => destruct c end end; lia.
Qed.

Lemma gen_set_saturation r g b sat : BlendGen.set_saturation r g b sat = Some (set_saturation (r, g, b) sat).
Proof.
  unfold BlendGen.set_saturation, set_saturation. rewrite gen_static_sort3_orig. cbn [obind].
  pose proof (sort3_indices r g b) as H. destruct (static_sort3_orig (r, g, b)) as [[mn md] mx].
  destruct H as (Hmn & Hmd & Hmx).
  destruct Hmn as [ -> | [ -> | -> ] ], Hmd as [ -> | [ -> | -> ] ], Hmx as [ -> | [ -> | -> ] ];
    cbn [arr3_get arr3_set obind col_get col_set Z.eqb Pos.eqb];
    match goal with |- context [if ?c then _ else _] =>
      match c with PrimFloat.ltb _ _ => destruct c end end; reflexivity.
Qed.

Lemma gen_from_rgb_f64 r g b a : BlendGen.from_rgb_f64 r g b a = from_rgb_f64 (r, g, b) a.
Proof. unfold BlendGen.from_rgb_f64, from_rgb_f64. rewrite gen_from_rgba_i32, obind_ret. reflexivity. Qed.

Ltac hsl_step := first
  [ rewrite gen_as_rgb_f64 by assumption | rewrite gen_saturation | rewrite gen_luminosity
  | rewrite gen_set_saturation | rewrite gen_set_luminocity | rewrite gen_from_rgb_f64
  | rewrite pix_alpha_proj | rewrite obind_ret | progress cbn [obind]
  | match goal with |- context [as_rgb_f64 ?p] => destruct (as_rgb_f64 p) as [[? ?] ?] end
  | match goal with |- context [set_saturation ?c ?x] => destruct (set_saturation c x) as [[? ?] ?] end
  | match goal with |- context [set_luminocity ?c ?x] => destruct (set_luminocity c x) as [[? ?] ?] end ].
Ltac hsl_baseline :=
  intros b s o Hb Hs Ho; repeat hsl_step;
  match goal with
  | |- context [from_rgb_f64 ?c ?a] => destruct (from_rgb_f64 c a) as [s'|] eqn:?; cbn [obind]; [|reflexivity]
  end;
  rewrite ?obind_ret; apply gen_normal; try assumption;
  match goal with E : from_rgb_f64 _ _ = Some _ |- _ =>
    unfold from_rgb_f64 in E; apply from_rgba_i32_inv in E; tauto end.

Lemma gen_hsl_hue_baseline : pix_eq BlendGen.hsl_hue_baseline hsl_hue_baseline.
Proof. unfold BlendGen.hsl_hue_baseline, hsl_hue_baseline. hsl_baseline. Qed.
Lemma gen_hsl_saturation_baseline : pix_eq BlendGen.hsl_saturation_baseline hsl_saturation_baseline.
Proof. unfold BlendGen.hsl_saturation_baseline, hsl_saturation_baseline. hsl_baseline. Qed.
Lemma gen_hsl_color_baseline : pix_eq BlendGen.hsl_color_baseline hsl_color_baseline.
Proof. unfold BlendGen.hsl_color_baseline, hsl_color_baseline. hsl_baseline. Qed.
Lemma gen_hsl_luminosity_baseline : pix_eq BlendGen.hsl_luminosity_baseline hsl_luminosity_baseline.
Proof. unfold BlendGen.hsl_luminosity_baseline, hsl_luminosity_baseline. hsl_baseline. Qed.


Ltac base_mode OK L :=
  intros b s o Hb Hs Ho;
  match goal with |- ?f b s o = _ => unfold f end; rewrite obind_ret;
  apply (gen_blender _ _ OK L); assumption.


Lemma gen_hsl_hue : pix_eq BlendGen.hsl_hue (blender hsl_hue_baseline).
Proof. base_mode ok_hsl_hue gen_hsl_hue_baseline. Qed.
Lemma gen_hsl_saturation : pix_eq BlendGen.hsl_saturation (blender hsl_saturation_baseline).
Proof. base_mode ok_hsl_saturation gen_hsl_saturation_baseline. Qed.
Lemma gen_hsl_color : pix_eq BlendGen.hsl_color (blender hsl_color_baseline).
Proof. base_mode ok_hsl_color gen_hsl_color_baseline. Qed.
Lemma gen_hsl_luminosity : pix_eq BlendGen.hsl_luminosity (blender hsl_luminosity_baseline).
Proof. base_mode ok_hsl_luminosity gen_hsl_luminosity_baseline. Qed.

Theorem gen_blend_hsl : forall (m : Z) (b s : pixel) (o : Z),
  m = 12 \/ m = 13 \/ m = 14 \/ m = 15 -> pix_wf b -> pix_wf s -> is_byte o ->
  BlendGen.blend m b s o = blend m b s o.
Proof.
  intros m b s o Hm Hb Hs Ho. destruct Hm as [ -> | [ -> | [ -> | -> ] ] ];
    unfold BlendGen.blend, blend; cbn [BlendGen.blend_fn_of_mode Z.eqb Pos.eqb baseline].
  - apply gen_hsl_hue; assumption.
  - apply gen_hsl_saturation; assumption.
  - apply gen_hsl_color; assumption.
  - apply gen_hsl_luminosity; assumption.
Qed.

Lemma C17_range_hsl_partial_gen_proof : forall (m : Z) (b s : pixel) (o : Z),
  m = 12 \/ m = 13 \/ m = 14 \/ m = 15 ->
  pix_wf b -> pix_wf s -> is_byte o ->
  hsl_ok m b s = true ->
  exists p, BlendGen.blend m b s o = Some p /\ pix_wf p.
Proof. intros m b s o Hm Hb Hs Ho Hg. rewrite gen_blend_hsl by assumption. apply C17_range_hsl_partial; assumption. Qed.

Lemma C17_range_hsl_only_failure_gen_proof : forall (m : Z) (b s : pixel) (o : Z),
  m = 12 \/ m = 13 \/ m = 14 \/ m = 15 ->
  pix_wf b -> pix_wf s -> is_byte o ->
  (BlendGen.blend m b s o = None <-> (pix_alpha b <> 0 /\ hsl_ok m b s = false)).
Proof. intros m b s o Hm Hb Hs Ho. rewrite gen_blend_hsl by assumption. apply C17_range_hsl_only_failure; assumption. Qed.
