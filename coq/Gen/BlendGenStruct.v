(* C17 for the functions generated from src/blend.rs, WITHOUT using what the colour functions compute: every one of the 18
   non-Normal entry points is the wrapper `blender` around a baseline that replaces the colour of the source, keeps its alpha
   and ends in `normal`; the five structural laws follow for whatever channel / HSL arithmetic the file contains (a change
   that only alters colours leaves this file intact, see BlendGenEq.v for the colour side); the range statement (no overflow
   check, no debug assertion, byte-valued channels) needs totality of the baselines: complete 256 x 256 sweeps of the twelve
   generated channel functions, checked arithmetic for addition / subtract. *)
From Ase Require Import Base.Prelude Model.Blend Gen.RustSem Proofs.BlendArith Proofs.BlendLaws.
From AseGen Require BlendGen.
From AseGen Require Import BlendGenBase BlendGenTotal.
From Coq Require Import Floats ZifyBool.
Ltac Zify.zify_post_hook ::= Z.div_mod_to_equations.

(* ---------------- the side condition on a baseline, relative to well-formed arguments ---------------- *)

Definition baseline_ok_wf (f : pixel -> pixel -> Z -> option pixel) : Prop :=
  forall b s o x, pix_wf b -> pix_wf s -> is_byte o -> f b s o = Some x ->
    exists s', pix_alpha s' = pix_alpha s /\ normal b s' o = Some x.

(* the generated wrapper around any such baseline is the model's wrapper around it *)
Lemma gen_blender_wf fg : baseline_ok_wf fg ->
  pix_eq (fun b s o => BlendGen.blender b s o fg) (blender fg).
Proof.
  intros Hok b s o Hb Hs Ho. unfold BlendGen.blender, blender.
  rewrite !pix_alpha_proj, !obind_ret, !gen_normal by assumption.
  destruct (negb (pix_alpha b =? 0)); [|reflexivity].
  destruct (normal b s o) as [n|] eqn:Hn; cbn [obind]; [|reflexivity].
  destruct (fg b s o) as [x|] eqn:Hx; cbn [obind]; [|reflexivity].
  pose proof (normal_wf_out _ _ _ _ Hb Hn) as Hnwf.
  destruct (Hok _ _ _ _ Hb Hs Ho Hx) as (s' & _ & Hn').
  pose proof (normal_wf_out _ _ _ _ Hb Hn') as Hxwf.
  pose proof (pix_alpha_byte b Hb) as Hba. pose proof (pix_alpha_byte s Hs) as Hsa.
  rewrite gen_merge by assumption. cbn [obind].
  rewrite gen_mul_un8_byte by assumption. cbn [obind].
  rewrite gen_mul_un8_byte by auto using mul_un8_byte. cbn [obind].
  rewrite gen_merge by (auto using merge_wf, mul_un8_byte). reflexivity.
Qed.

(* the laws of the wrapper, for a baseline that is only known to behave on well-formed arguments *)
Section Laws.
Variable f : pixel -> pixel -> Z -> option pixel.
Hypothesis Hf : baseline_ok_wf f.

Lemma wf_blender_alpha b s o p q : pix_wf b -> pix_wf s -> is_byte o ->
  blender f b s o = Some p -> normal b s o = Some q -> pix_alpha p = pix_alpha q.
Proof.
  intros Hb Hs Ho Hp Hq. apply blender_inv in Hp.
  destruct Hp as [[_ Hp]|(Hnz & n & x & Hn & Hx & ->)]; [congruence|].
  rewrite Hq in Hn. injection Hn as <-.
  destruct (Hf _ _ _ _ Hb Hs Ho Hx) as (s' & Hs' & Hn').
  assert (Ea : pix_alpha x = pix_alpha q).
  { rewrite (normal_alpha_of _ _ _ _ Hn'), (normal_alpha_of _ _ _ _ Hq), Hs'. reflexivity. }
  assert (Hqwf : pix_wf q) by exact (normal_wf_out _ _ _ _ Hb Hq).
  assert (Hxwf : pix_wf x) by exact (normal_wf_out _ _ _ _ Hb Hn').
  pose proof (pix_alpha_byte b Hb) as Hba.
  rewrite merge_alpha.
  - apply merge_alpha; assumption.
  - apply merge_wf; assumption.
  - rewrite merge_alpha; assumption.
Qed.

Lemma wf_blender_fix b s o p : pix_wf b -> pix_wf s -> is_byte o -> pix_alpha b <> 0 ->
  (forall s', pix_alpha s' = pix_alpha s -> normal b s' o = Some b) ->
  blender f b s o = Some p -> p = b.
Proof.
  intros Hb Hs Ho Hnz Hnorm Hp. apply blender_inv in Hp.
  destruct Hp as [[E _]|(_ & n & x & Hn & Hx & ->)]; [contradiction|].
  rewrite (Hnorm s eq_refl) in Hn. injection Hn as <-.
  destruct (Hf _ _ _ _ Hb Hs Ho Hx) as (s' & Hs' & Hn').
  rewrite (Hnorm s' Hs') in Hn'. injection Hn' as <-.
  rewrite !merge_self by assumption. reflexivity.
Qed.
End Laws.

(* ---------------- every generated baseline has the shape ---------------- *)

Lemma gen_blend_channel_any g : chan_bytes g ->
  pix_eq (fun b s o => BlendGen.blend_channel b s o g) (blend_channel g).
Proof. intros H. apply gen_blend_channel. intros b s Hb Hs. split; [reflexivity|apply H; assumption]. Qed.

Lemma ok_wf_of_ok fg fm : baseline_ok fm -> pix_eq fg fm -> baseline_ok_wf fg.
Proof. intros Hok He b s o x Hb Hs Ho Hx. rewrite He in Hx by assumption. exact (Hok _ _ _ _ Hx). Qed.

(* a baseline that ends in `from_rgba_i32 r g b (alpha of the source)` followed by `normal` *)
Lemma ok_wf_replace r g b (bk s : pixel) o x :
  pix_wf bk -> is_byte o ->
  obind (BlendGen.from_rgba_i32 r g b (pix_alpha s)) (fun s' => obind (BlendGen.normal bk s' o) (fun t => Some t)) = Some x ->
  exists s', pix_alpha s' = pix_alpha s /\ normal bk s' o = Some x.
Proof.
  intros Hb Ho. rewrite gen_from_rgba_i32.
  destruct (from_rgba_i32 r g b (pix_alpha s)) as [s'|] eqn:E; cbn [obind]; [|discriminate].
  apply from_rgba_i32_inv in E. destruct E as [-> Hwf]. rewrite obind_ret, gen_normal by assumption.
  intros H. exists (r, g, b, pix_alpha s). split; [reflexivity|exact H].
Qed.

Ltac bind_down :=
  repeat match goal with
         | |- obind ?e _ = Some _ -> _ =>
             lazymatch e with
             | BlendGen.from_rgba_i32 _ _ _ _ => fail
             | BlendGen.from_rgb_f64 _ _ _ _ => fail
             | BlendGen.normal _ _ _ => fail
             | _ => destruct e as [?|] eqn:?; cbn [obind]; [|discriminate]
             end
         | t : (_ * _ * _)%type |- _ => destruct t as [[? ?] ?]
         end.

Lemma ok_wf_soft_light : baseline_ok_wf BlendGen.soft_light_baseline.
Proof.
  intros [[[br bg] bb] ba] [[[sr sg] sb] sa] o x Hb Hs Ho. unfold BlendGen.soft_light_baseline.
  rewrite !gen_as_rgba_i32. cbn [obind]. bind_down.
  apply (ok_wf_replace _ _ _ (br, bg, bb, ba) (sr, sg, sb, sa) o x Hb Ho).
Qed.

Lemma ok_wf_addition : baseline_ok_wf BlendGen.addition_baseline.
Proof.
  intros [[[br bg] bb] ba] [[[sr sg] sb] sa] o x Hb Hs Ho. unfold BlendGen.addition_baseline.
  rewrite !gen_as_rgba_i32. cbn [obind]. bind_down.
  apply (ok_wf_replace _ _ _ (br, bg, bb, ba) (sr, sg, sb, sa) o x Hb Ho).
Qed.

Lemma ok_wf_subtract : baseline_ok_wf BlendGen.subtract_baseline.
Proof.
  intros [[[br bg] bb] ba] [[[sr sg] sb] sa] o x Hb Hs Ho. unfold BlendGen.subtract_baseline.
  rewrite !gen_as_rgba_i32. cbn [obind]. bind_down.
  apply (ok_wf_replace _ _ _ (br, bg, bb, ba) (sr, sg, sb, sa) o x Hb Ho).
Qed.

Ltac hsl_struct :=
  intros b s o x Hb Hs Ho;
  match goal with |- ?f b s o = Some x -> _ => unfold f end;
  bind_down; rewrite ?pix_alpha_proj; unfold BlendGen.from_rgb_f64; rewrite ?obind_ret;
  apply (ok_wf_replace _ _ _ b s o x Hb Ho).

Lemma ok_wf_hsl_hue : baseline_ok_wf BlendGen.hsl_hue_baseline.
Proof. hsl_struct. Qed.
Lemma ok_wf_hsl_saturation : baseline_ok_wf BlendGen.hsl_saturation_baseline.
Proof. hsl_struct. Qed.
Lemma ok_wf_hsl_color : baseline_ok_wf BlendGen.hsl_color_baseline.
Proof. hsl_struct. Qed.
Lemma ok_wf_hsl_luminosity : baseline_ok_wf BlendGen.hsl_luminosity_baseline.
Proof. hsl_struct. Qed.

(* ---------------- the dispatch, structurally ---------------- *)

Ltac chan_baseline GT :=
  apply (ok_wf_of_ok _ _ (ok_blend_channel _));
  intros b s o Hb Hs Ho;
  match goal with |- ?f b s o = _ => unfold f end; rewrite obind_ret;
  apply gen_blend_channel_any; [exact (chan_total_bytes _ GT)|assumption..].

Lemma eqc_multiply : pix_eq BlendGen.multiply_baseline (blend_channel BlendGen.blend_multiply).
Proof. intros b s o Hb Hs Ho. unfold BlendGen.multiply_baseline. rewrite obind_ret. apply gen_blend_channel_any; [exact (chan_total_bytes _ gt_multiply)|assumption..]. Qed.
Lemma eqc_screen : pix_eq BlendGen.screen_baseline (blend_channel BlendGen.blend_screen).
Proof. intros b s o Hb Hs Ho. unfold BlendGen.screen_baseline. rewrite obind_ret. apply gen_blend_channel_any; [exact (chan_total_bytes _ gt_screen)|assumption..]. Qed.
Lemma eqc_overlay : pix_eq BlendGen.overlay_baseline (blend_channel BlendGen.blend_overlay).
Proof. intros b s o Hb Hs Ho. unfold BlendGen.overlay_baseline. rewrite obind_ret. apply gen_blend_channel_any; [exact (chan_total_bytes _ gt_overlay)|assumption..]. Qed.
Lemma eqc_darken : pix_eq BlendGen.darken_baseline (blend_channel BlendGen.blend_darken).
Proof. intros b s o Hb Hs Ho. unfold BlendGen.darken_baseline. rewrite obind_ret. apply gen_blend_channel_any; [exact (chan_total_bytes _ gt_darken)|assumption..]. Qed.
Lemma eqc_lighten : pix_eq BlendGen.lighten_baseline (blend_channel BlendGen.blend_lighten).
Proof. intros b s o Hb Hs Ho. unfold BlendGen.lighten_baseline. rewrite obind_ret. apply gen_blend_channel_any; [exact (chan_total_bytes _ gt_lighten)|assumption..]. Qed.
Lemma eqc_color_dodge : pix_eq BlendGen.color_dodge_baseline (blend_channel BlendGen.blend_color_dodge).
Proof. intros b s o Hb Hs Ho. unfold BlendGen.color_dodge_baseline. rewrite obind_ret. apply gen_blend_channel_any; [exact (chan_total_bytes _ gt_color_dodge)|assumption..]. Qed.
Lemma eqc_color_burn : pix_eq BlendGen.color_burn_baseline (blend_channel BlendGen.blend_color_burn).
Proof. intros b s o Hb Hs Ho. unfold BlendGen.color_burn_baseline. rewrite obind_ret. apply gen_blend_channel_any; [exact (chan_total_bytes _ gt_color_burn)|assumption..]. Qed.
Lemma eqc_hard_light : pix_eq BlendGen.hard_light_baseline (blend_channel BlendGen.blend_hard_light).
Proof. intros b s o Hb Hs Ho. unfold BlendGen.hard_light_baseline. rewrite obind_ret. apply gen_blend_channel_any; [exact (chan_total_bytes _ gt_hard_light)|assumption..]. Qed.
Lemma eqc_difference : pix_eq BlendGen.difference_baseline (blend_channel BlendGen.blend_difference).
Proof. intros b s o Hb Hs Ho. unfold BlendGen.difference_baseline. rewrite obind_ret. apply gen_blend_channel_any; [exact (chan_total_bytes _ gt_difference)|assumption..]. Qed.
Lemma eqc_exclusion : pix_eq BlendGen.exclusion_baseline (blend_channel BlendGen.blend_exclusion).
Proof. intros b s o Hb Hs Ho. unfold BlendGen.exclusion_baseline. rewrite obind_ret. apply gen_blend_channel_any; [exact (chan_total_bytes _ gt_exclusion)|assumption..]. Qed.
Lemma eqc_divide : pix_eq BlendGen.divide_baseline (blend_channel BlendGen.blend_divide).
Proof. intros b s o Hb Hs Ho. unfold BlendGen.divide_baseline. rewrite obind_ret. apply gen_blend_channel_any; [exact (chan_total_bytes _ gt_divide)|assumption..]. Qed.

(* the baseline the code runs for mode id m *)
Definition gbase (m : Z) : pixel -> pixel -> Z -> option pixel :=
  match m with
  | 1 => BlendGen.multiply_baseline | 2 => BlendGen.screen_baseline | 3 => BlendGen.overlay_baseline
  | 4 => BlendGen.darken_baseline | 5 => BlendGen.lighten_baseline | 6 => BlendGen.color_dodge_baseline
  | 7 => BlendGen.color_burn_baseline | 8 => BlendGen.hard_light_baseline | 9 => BlendGen.soft_light_baseline
  | 10 => BlendGen.difference_baseline | 11 => BlendGen.exclusion_baseline
  | 12 => BlendGen.hsl_hue_baseline | 13 => BlendGen.hsl_saturation_baseline
  | 14 => BlendGen.hsl_color_baseline | 15 => BlendGen.hsl_luminosity_baseline
  | 16 => BlendGen.addition_baseline | 17 => BlendGen.subtract_baseline | 18 => BlendGen.divide_baseline
  | _ => normal
  end.

Lemma ok_wf_of_baseline_ok f : baseline_ok f -> baseline_ok_wf f.
Proof. intros H b s o x _ _ _ Hx. exact (H _ _ _ _ Hx). Qed.

Lemma gbase_ok m : 0 <= m <= 18 -> baseline_ok_wf (gbase m).
Proof.
  intros Hm.
  assert (H : m = 0 \/ m = 1 \/ m = 2 \/ m = 3 \/ m = 4 \/ m = 5 \/ m = 6 \/ m = 7 \/ m = 8 \/ m = 9 \/
              m = 10 \/ m = 11 \/ m = 12 \/ m = 13 \/ m = 14 \/ m = 15 \/ m = 16 \/ m = 17 \/ m = 18) by lia.
  repeat (destruct H as [->|H]); [..|subst m].
  - exact (ok_wf_of_baseline_ok _ ok_normal).
  - exact (ok_wf_of_ok _ _ (ok_blend_channel _) eqc_multiply).
  - exact (ok_wf_of_ok _ _ (ok_blend_channel _) eqc_screen).
  - exact (ok_wf_of_ok _ _ (ok_blend_channel _) eqc_overlay).
  - exact (ok_wf_of_ok _ _ (ok_blend_channel _) eqc_darken).
  - exact (ok_wf_of_ok _ _ (ok_blend_channel _) eqc_lighten).
  - exact (ok_wf_of_ok _ _ (ok_blend_channel _) eqc_color_dodge).
  - exact (ok_wf_of_ok _ _ (ok_blend_channel _) eqc_color_burn).
  - exact (ok_wf_of_ok _ _ (ok_blend_channel _) eqc_hard_light).
  - exact ok_wf_soft_light.
  - exact (ok_wf_of_ok _ _ (ok_blend_channel _) eqc_difference).
  - exact (ok_wf_of_ok _ _ (ok_blend_channel _) eqc_exclusion).
  - exact ok_wf_hsl_hue.
  - exact ok_wf_hsl_saturation.
  - exact ok_wf_hsl_color.
  - exact ok_wf_hsl_luminosity.
  - exact ok_wf_addition.
  - exact ok_wf_subtract.
  - exact (ok_wf_of_ok _ _ (ok_blend_channel _) eqc_divide).
Qed.

(* what the code runs for mode id m, in the model's vocabulary: normal, or the model's wrapper around the generated baseline *)
Definition gblend (m : Z) (b s : pixel) (o : Z) : option pixel :=
  if m =? 0 then normal b s o else blender (gbase m) b s o.

Lemma st_multiply : pix_eq BlendGen.multiply (blender (gbase 1)).
Proof. intros b s o Hb Hs Ho. unfold BlendGen.multiply. rewrite obind_ret. exact (gen_blender_wf (gbase 1) (gbase_ok 1 ltac:(lia)) b s o Hb Hs Ho). Qed.
Lemma st_screen : pix_eq BlendGen.screen (blender (gbase 2)).
Proof. intros b s o Hb Hs Ho. unfold BlendGen.screen. rewrite obind_ret. exact (gen_blender_wf (gbase 2) (gbase_ok 2 ltac:(lia)) b s o Hb Hs Ho). Qed.
Lemma st_overlay : pix_eq BlendGen.overlay (blender (gbase 3)).
Proof. intros b s o Hb Hs Ho. unfold BlendGen.overlay. rewrite obind_ret. exact (gen_blender_wf (gbase 3) (gbase_ok 3 ltac:(lia)) b s o Hb Hs Ho). Qed.
Lemma st_darken : pix_eq BlendGen.darken (blender (gbase 4)).
Proof. intros b s o Hb Hs Ho. unfold BlendGen.darken. rewrite obind_ret. exact (gen_blender_wf (gbase 4) (gbase_ok 4 ltac:(lia)) b s o Hb Hs Ho). Qed.
Lemma st_lighten : pix_eq BlendGen.lighten (blender (gbase 5)).
Proof. intros b s o Hb Hs Ho. unfold BlendGen.lighten. rewrite obind_ret. exact (gen_blender_wf (gbase 5) (gbase_ok 5 ltac:(lia)) b s o Hb Hs Ho). Qed.
Lemma st_color_dodge : pix_eq BlendGen.color_dodge (blender (gbase 6)).
Proof. intros b s o Hb Hs Ho. unfold BlendGen.color_dodge. rewrite obind_ret. exact (gen_blender_wf (gbase 6) (gbase_ok 6 ltac:(lia)) b s o Hb Hs Ho). Qed.
Lemma st_color_burn : pix_eq BlendGen.color_burn (blender (gbase 7)).
Proof. intros b s o Hb Hs Ho. unfold BlendGen.color_burn. rewrite obind_ret. exact (gen_blender_wf (gbase 7) (gbase_ok 7 ltac:(lia)) b s o Hb Hs Ho). Qed.
Lemma st_hard_light : pix_eq BlendGen.hard_light (blender (gbase 8)).
Proof. intros b s o Hb Hs Ho. unfold BlendGen.hard_light. rewrite obind_ret. exact (gen_blender_wf (gbase 8) (gbase_ok 8 ltac:(lia)) b s o Hb Hs Ho). Qed.
Lemma st_soft_light : pix_eq BlendGen.soft_light (blender (gbase 9)).
Proof. intros b s o Hb Hs Ho. unfold BlendGen.soft_light. rewrite obind_ret. exact (gen_blender_wf (gbase 9) (gbase_ok 9 ltac:(lia)) b s o Hb Hs Ho). Qed.
Lemma st_difference : pix_eq BlendGen.difference (blender (gbase 10)).
Proof. intros b s o Hb Hs Ho. unfold BlendGen.difference. rewrite obind_ret. exact (gen_blender_wf (gbase 10) (gbase_ok 10 ltac:(lia)) b s o Hb Hs Ho). Qed.
Lemma st_exclusion : pix_eq BlendGen.exclusion (blender (gbase 11)).
Proof. intros b s o Hb Hs Ho. unfold BlendGen.exclusion. rewrite obind_ret. exact (gen_blender_wf (gbase 11) (gbase_ok 11 ltac:(lia)) b s o Hb Hs Ho). Qed.
Lemma st_hsl_hue : pix_eq BlendGen.hsl_hue (blender (gbase 12)).
Proof. intros b s o Hb Hs Ho. unfold BlendGen.hsl_hue. rewrite obind_ret. exact (gen_blender_wf (gbase 12) (gbase_ok 12 ltac:(lia)) b s o Hb Hs Ho). Qed.
Lemma st_hsl_saturation : pix_eq BlendGen.hsl_saturation (blender (gbase 13)).
Proof. intros b s o Hb Hs Ho. unfold BlendGen.hsl_saturation. rewrite obind_ret. exact (gen_blender_wf (gbase 13) (gbase_ok 13 ltac:(lia)) b s o Hb Hs Ho). Qed.
Lemma st_hsl_color : pix_eq BlendGen.hsl_color (blender (gbase 14)).
Proof. intros b s o Hb Hs Ho. unfold BlendGen.hsl_color. rewrite obind_ret. exact (gen_blender_wf (gbase 14) (gbase_ok 14 ltac:(lia)) b s o Hb Hs Ho). Qed.
Lemma st_hsl_luminosity : pix_eq BlendGen.hsl_luminosity (blender (gbase 15)).
Proof. intros b s o Hb Hs Ho. unfold BlendGen.hsl_luminosity. rewrite obind_ret. exact (gen_blender_wf (gbase 15) (gbase_ok 15 ltac:(lia)) b s o Hb Hs Ho). Qed.
Lemma st_addition : pix_eq BlendGen.addition (blender (gbase 16)).
Proof. intros b s o Hb Hs Ho. unfold BlendGen.addition. rewrite obind_ret. exact (gen_blender_wf (gbase 16) (gbase_ok 16 ltac:(lia)) b s o Hb Hs Ho). Qed.
Lemma st_subtract : pix_eq BlendGen.subtract (blender (gbase 17)).
Proof. intros b s o Hb Hs Ho. unfold BlendGen.subtract. rewrite obind_ret. exact (gen_blender_wf (gbase 17) (gbase_ok 17 ltac:(lia)) b s o Hb Hs Ho). Qed.
Lemma st_divide : pix_eq BlendGen.divide (blender (gbase 18)).
Proof. intros b s o Hb Hs Ho. unfold BlendGen.divide. rewrite obind_ret. exact (gen_blender_wf (gbase 18) (gbase_ok 18 ltac:(lia)) b s o Hb Hs Ho). Qed.

Theorem gen_blend_struct : forall (m : Z) (b s : pixel) (o : Z),
  0 <= m <= 18 -> pix_wf b -> pix_wf s -> is_byte o -> BlendGen.blend m b s o = gblend m b s o.
Proof.
  intros m b s o Hm Hb Hs Ho.
  assert (H : m = 0 \/ m = 1 \/ m = 2 \/ m = 3 \/ m = 4 \/ m = 5 \/ m = 6 \/ m = 7 \/ m = 8 \/ m = 9 \/
              m = 10 \/ m = 11 \/ m = 12 \/ m = 13 \/ m = 14 \/ m = 15 \/ m = 16 \/ m = 17 \/ m = 18) by lia.
  repeat (destruct H as [->|H]); [..|subst m]; unfold BlendGen.blend, gblend; cbn [BlendGen.blend_fn_of_mode Z.eqb Pos.eqb].
  - apply gen_normal; assumption.
  - apply st_multiply; assumption.
  - apply st_screen; assumption.
  - apply st_overlay; assumption.
  - apply st_darken; assumption.
  - apply st_lighten; assumption.
  - apply st_color_dodge; assumption.
  - apply st_color_burn; assumption.
  - apply st_hard_light; assumption.
  - apply st_soft_light; assumption.
  - apply st_difference; assumption.
  - apply st_exclusion; assumption.
  - apply st_hsl_hue; assumption.
  - apply st_hsl_saturation; assumption.
  - apply st_hsl_color; assumption.
  - apply st_hsl_luminosity; assumption.
  - apply st_addition; assumption.
  - apply st_subtract; assumption.
  - apply st_divide; assumption.
Qed.

Theorem gen_blend_refuses : forall (m : Z) (b s : pixel) (o : Z),
  ~ (0 <= m <= 18) -> BlendGen.blend m b s o = None.
Proof.
  intros m b s o Hm. unfold BlendGen.blend, BlendGen.blend_fn_of_mode.
  destruct m as [|p|p]; try reflexivity; try lia.
  do 5 (destruct p as [p|p|]; try reflexivity; try lia).
Qed.

Lemma gen_blend_some_struct m b s o p : pix_wf b -> pix_wf s -> is_byte o ->
  BlendGen.blend m b s o = Some p -> 0 <= m <= 18 /\ gblend m b s o = Some p.
Proof.
  intros Hb Hs Ho H.
  destruct (Z_le_dec 0 m) as [H0|H0]; [destruct (Z_le_dec m 18) as [H1|H1]|];
    try (rewrite gen_blend_refuses in H by lia; discriminate).
  split; [lia|]. rewrite <- gen_blend_struct by (assumption || lia). exact H.
Qed.

(* ---------------- the five structural laws, for the generated code, whatever its colour arithmetic ---------------- *)

Lemma gblend_cases m b s o :
  (m = 0 /\ gblend m b s o = normal b s o) \/ (m <> 0 /\ gblend m b s o = blender (gbase m) b s o).
Proof. unfold gblend. destruct (Z.eqb_spec m 0); auto. Qed.

Theorem C17_alpha_gen_proof : forall (m : Z) (b s : pixel) (o : Z) (p q : pixel),
  pix_wf b -> pix_wf s -> is_byte o ->
  BlendGen.blend m b s o = Some p -> BlendGen.blend 0 b s o = Some q -> pix_alpha p = pix_alpha q.
Proof.
  intros m b s o p q Hb Hs Ho Hp Hq.
  apply gen_blend_some_struct in Hp; try assumption. destruct Hp as [Hm Hp].
  apply gen_blend_some_struct in Hq; try assumption. destruct Hq as [_ Hq]. change (gblend 0 b s o) with (normal b s o) in Hq.
  destruct (gblend_cases m b s o) as [[_ E]|[_ E]]; rewrite E in Hp.
  - congruence.
  - exact (wf_blender_alpha _ (gbase_ok m Hm) b s o p q Hb Hs Ho Hp Hq).
Qed.

Theorem C17_src_transparent_gen_proof : forall (m : Z) (b s : pixel) (o : Z) (p : pixel),
  pix_wf b -> pix_wf s -> is_byte o ->
  pix_alpha b <> 0 -> pix_alpha s = 0 -> BlendGen.blend m b s o = Some p -> p = b.
Proof.
  intros m b s o p Hb Hs Ho Hnz Hz Hp.
  apply gen_blend_some_struct in Hp; try assumption. destruct Hp as [Hm Hp].
  destruct (gblend_cases m b s o) as [[_ E]|[_ E]]; rewrite E in Hp.
  - rewrite (normal_src_transparent b s o Hnz Hz) in Hp. congruence.
  - apply (wf_blender_fix _ (gbase_ok m Hm) b s o p Hb Hs Ho Hnz); [|exact Hp].
    intros s' Hs'. apply normal_src_transparent; congruence.
Qed.

Theorem C17_zero_opacity_gen_proof : forall (m : Z) (b s p : pixel),
  pix_wf b -> pix_wf s -> pix_alpha b <> 0 -> BlendGen.blend m b s 0 = Some p -> p = b.
Proof.
  intros m b s p Hb Hs Hnz Hp.
  assert (Ho : is_byte 0) by (unfold is_byte; lia).
  apply gen_blend_some_struct in Hp; try assumption. destruct Hp as [Hm Hp].
  destruct (gblend_cases m b s 0) as [[_ E]|[_ E]]; rewrite E in Hp.
  - rewrite (normal_zero_opacity b s Hb Hnz) in Hp. congruence.
  - apply (wf_blender_fix _ (gbase_ok m Hm) b s 0 p Hb Hs Ho Hnz); [|exact Hp].
    intros s' _. apply normal_zero_opacity; assumption.
Qed.

Theorem C17_over_transparent_gen_proof : forall (m : Z) (b s : pixel) (o : Z),
  0 <= m <= 18 -> pix_wf b -> pix_wf s -> is_byte o -> pix_alpha b = 0 ->
  BlendGen.blend m b s o = Some (let '(sr, sg, sb, sa) := s in (sr, sg, sb, mul_un8 sa o)).
Proof.
  intros m b s o Hm Hb Hs Ho Hz. rewrite gen_blend_struct by assumption.
  destruct (gblend_cases m b s o) as [[_ E]|[_ E]]; rewrite E.
  - apply normal_over_transparent; assumption.
  - unfold blender. rewrite Hz. cbn [Z.eqb negb]. apply normal_over_transparent; assumption.
Qed.

Theorem C17_normal_opaque_gen_proof : forall (b s : pixel),
  pix_wf b -> pix_wf s -> pix_alpha s = 255 -> BlendGen.blend 0 b s 255 = Some s.
Proof.
  intros b s Hb Hs Ha. rewrite gen_blend_struct by (assumption || unfold is_byte; lia).
  change (gblend 0 b s 255) with (normal b s 255). apply normal_opaque; assumption.
Qed.

(* ---------------- range: no overflow check, no debug assertion, no division by zero, byte-valued channels ---------------- *)

Definition total_on_wf (f : pixel -> pixel -> Z -> option pixel) : Prop :=
  forall b s o, pix_wf b -> pix_wf s -> is_byte o -> exists x, f b s o = Some x /\ pix_wf x.

Lemma total_of_eq fg fm : pix_eq fg fm -> total_wf fm -> total_on_wf fg.
Proof. intros He Ht b s o Hb Hs Ho. rewrite He by assumption. apply Ht; assumption. Qed.

Lemma blender_total_on_wf f : total_on_wf f -> total_on_wf (blender f).
Proof.
  intros Hf b s o Hb Hs Ho. destruct (Hf b s o Hb Hs Ho) as (x & Hx & Hxwf).
  eapply blender_some; eassumption.
Qed.

Lemma replace_total_gen r g b a bk o : is_byte r -> is_byte g -> is_byte b -> is_byte a -> pix_wf bk -> is_byte o ->
  exists x, obind (BlendGen.from_rgba_i32 r g b a) (fun s' => obind (BlendGen.normal bk s' o) (fun t => Some t)) = Some x /\ pix_wf x.
Proof.
  intros Hr Hg Hb Ha Hbk Ho. rewrite gen_from_rgba_i32, from_rgba_i32_ok by assumption. cbn [obind].
  rewrite obind_ret, gen_normal by (cbn [pix_wf]; auto). apply normal_total; cbn [pix_wf]; auto.
Qed.

Lemma total_soft_light : total_on_wf BlendGen.soft_light_baseline.
Proof.
  intros [[[br bg] bb] ba] [[[sr sg] sb] sa] o Hb Hs Ho.
  pose proof Hb as (Hbr & Hbg & Hbb & Hba). pose proof Hs as (Hsr & Hsg & Hsb & Hsa).
  unfold BlendGen.soft_light_baseline. rewrite !gen_as_rgba_i32. cbn [obind].
  destruct (gt_soft_light br sr Hbr Hsr) as (r & -> & Hr).
  destruct (gt_soft_light bg sg Hbg Hsg) as (g & -> & Hg).
  destruct (gt_soft_light bb sb Hbb Hsb) as (b' & -> & Hb'). cbn [obind].
  apply replace_total_gen; assumption.
Qed.

Lemma total_addition : total_on_wf BlendGen.addition_baseline.
Proof.
  intros [[[br bg] bb] ba] [[[sr sg] sb] sa] o Hb Hs Ho.
  pose proof Hb as (Hbr & Hbg & Hbb & Hba). pose proof Hs as (Hsr & Hsg & Hsb & Hsa).
  unfold BlendGen.addition_baseline. rewrite !gen_as_rgba_i32. rs_unfold. rs_go.
  apply replace_total_gen; try assumption; unfold is_byte in *; lia.
Qed.

Lemma total_subtract : total_on_wf BlendGen.subtract_baseline.
Proof.
  intros [[[br bg] bb] ba] [[[sr sg] sb] sa] o Hb Hs Ho.
  pose proof Hb as (Hbr & Hbg & Hbb & Hba). pose proof Hs as (Hsr & Hsg & Hsb & Hsa).
  unfold BlendGen.subtract_baseline. rewrite !gen_as_rgba_i32. rs_unfold. rs_go.
  apply replace_total_gen; try assumption; unfold is_byte in *; lia.
Qed.

Lemma gbase_total m : In m [1; 2; 3; 4; 5; 6; 7; 8; 9; 10; 11; 16; 17; 18] -> total_on_wf (gbase m).
Proof.
  cbn [In]. intros H.
  repeat (destruct H as [<-|H]); [..|contradiction]; cbn [gbase].
  - exact (total_of_eq _ _ eqc_multiply (blend_channel_total _ gt_multiply)).
  - exact (total_of_eq _ _ eqc_screen (blend_channel_total _ gt_screen)).
  - exact (total_of_eq _ _ eqc_overlay (blend_channel_total _ gt_overlay)).
  - exact (total_of_eq _ _ eqc_darken (blend_channel_total _ gt_darken)).
  - exact (total_of_eq _ _ eqc_lighten (blend_channel_total _ gt_lighten)).
  - exact (total_of_eq _ _ eqc_color_dodge (blend_channel_total _ gt_color_dodge)).
  - exact (total_of_eq _ _ eqc_color_burn (blend_channel_total _ gt_color_burn)).
  - exact (total_of_eq _ _ eqc_hard_light (blend_channel_total _ gt_hard_light)).
  - exact total_soft_light.
  - exact (total_of_eq _ _ eqc_difference (blend_channel_total _ gt_difference)).
  - exact (total_of_eq _ _ eqc_exclusion (blend_channel_total _ gt_exclusion)).
  - exact total_addition.
  - exact total_subtract.
  - exact (total_of_eq _ _ eqc_divide (blend_channel_total _ gt_divide)).
Qed.

Theorem C17_range_int_gen_proof : forall (m : Z) (b s : pixel) (o : Z),
  In m [0; 1; 2; 3; 4; 5; 6; 7; 8; 10; 11; 16; 17; 18] ->
  pix_wf b -> pix_wf s -> is_byte o ->
  exists p, BlendGen.blend m b s o = Some p /\ pix_wf p.
Proof.
  intros m b s o Hm Hb Hs Ho.
  assert (Hr : 0 <= m <= 18) by (cbn [In] in Hm; lia).
  rewrite gen_blend_struct by assumption. unfold gblend.
  destruct (Z.eqb_spec m 0) as [->|Hne]; [apply normal_total; assumption|].
  apply blender_total_on_wf; try assumption. apply gbase_total. cbn [In] in *. lia.
Qed.

Theorem C17_range_soft_gen_proof : forall (b s : pixel) (o : Z),
  pix_wf b -> pix_wf s -> is_byte o ->
  exists p, BlendGen.blend 9 b s o = Some p /\ pix_wf p.
Proof.
  intros b s o Hb Hs Ho. rewrite gen_blend_struct by (assumption || lia).
  change (gblend 9 b s o) with (blender BlendGen.soft_light_baseline b s o).
  apply blender_total_on_wf; try assumption. exact total_soft_light.
Qed.
