(* Semantics of the Rust operations that tools/rs2coq.py emits when it translates src/blend.rs
   into Gallina.  Every translated function lives in the option monad: None = the Rust code
   would panic in a build with overflow checks and debug assertions (arithmetic overflow,
   division by zero, shift amount out of range, array index out of bounds, debug_assert!).
   No proofs here. *)
From Ase Require Export Base.Prelude Model.Blend.
From Coq Require Import Floats.

Inductive ity := U8 | I32 | U32 | USIZE.

Definition ity_min (t : ity) : Z :=
  match t with I32 => -2147483648 | _ => 0 end.
Definition ity_max (t : ity) : Z :=
  match t with U8 => 255 | I32 => 2147483647 | U32 => 4294967295 | USIZE => 18446744073709551615 end.
Definition ity_bits (t : ity) : Z :=
  match t with U8 => 8 | I32 => 32 | U32 => 32 | USIZE => 64 end.

Definition in_ity (t : ity) (z : Z) : bool := (ity_min t <=? z) && (z <=? ity_max t).

(* overflow check *)
Definition chk (t : ity) (z : Z) : option Z := if in_ity t z then Some z else None.

(* two's-complement wrap-around into the type (`as` casts between integer types, `<<`) *)
Definition wrap (t : ity) (z : Z) : Z :=
  match t with
  | U8 => z mod 256
  | I32 => sgn32 (z mod 4294967296)
  | U32 => z mod 4294967296
  | USIZE => z mod 18446744073709551616
  end.

Definition rs_add (t : ity) (a b : Z) : option Z := chk t (a + b).
Definition rs_sub (t : ity) (a b : Z) : option Z := chk t (a - b).
Definition rs_mul (t : ity) (a b : Z) : option Z := chk t (a * b).
Definition rs_neg (t : ity) (a : Z) : option Z := chk t (- a).
(* `/` truncates toward zero; division by zero panics in every profile; MIN / -1 overflows *)
Definition rs_div (t : ity) (a b : Z) : option Z := if b =? 0 then None else chk t (Z.quot a b).
Definition rs_rem (t : ity) (a b : Z) : option Z := if b =? 0 then None else chk t (Z.rem a b).
(* `<<` / `>>`: only the shift amount is checked; bits shifted out are lost; `>>` is arithmetic on
   signed and logical on unsigned types, both = floor division on the mathematical value *)
Definition rs_shl (t : ity) (a n : Z) : option Z :=
  if (0 <=? n) && (n <? ity_bits t) then Some (wrap t (Z.shiftl a n)) else None.
Definition rs_shr (t : ity) (a n : Z) : option Z :=
  if (0 <=? n) && (n <? ity_bits t) then Some (Z.shiftr a n) else None.

(* integer `as` integer *)
Definition rs_cast (to : ity) (z : Z) : Z := wrap to z.
(* i32::unsigned_abs *)
Definition rs_unsigned_abs (z : Z) : Z := Z.abs z.

(* integer `as f64` (exact below 2^53) *)
Definition rs_i2f (z : Z) : float :=
  if z <? 0 then PrimFloat.opp (f_of_Z (- z)) else f_of_Z z.
(* `f64 as` integer: truncation toward zero, saturating, NaN -> 0 *)
Definition rs_f2i (to : ity) (x : float) : Z := Z.max (ity_min to) (Z.min (ity_max to) (f_trunc_Z x)).

Definition rs_fmin : float -> float -> float := fmin.
Definition rs_fmax : float -> float -> float := fmax.

(* debug_assert! *)
Definition rs_assert (b : bool) : option unit := if b then Some tt else None.

(* [T; 3] with a run-time index *)
Definition arr3_get {A} (c : A * A * A) (i : Z) : option A :=
  let '(x, y, z) := c in
  if i =? 0 then Some x else if i =? 1 then Some y else if i =? 2 then Some z else None.
Definition arr3_set {A} (c : A * A * A) (i : Z) (v : A) : option (A * A * A) :=
  let '(x, y, z) := c in
  if i =? 0 then Some (v, y, z) else if i =? 1 then Some (x, v, z) else if i =? 2 then Some (x, y, v) else None.
Definition arr4_get {A} (c : A * A * A * A) (i : Z) : option A :=
  let '(x, y, z, w) := c in
  if i =? 0 then Some x else if i =? 1 then Some y else if i =? 2 then Some z else if i =? 3 then Some w else None.

Notation "' p <-? t ;; u" := (obind t (fun p => u)) (at level 61, p pattern, t at next level, right associativity).
