(* The tie between src/blend.rs and the hand-written model Model/Blend.v, checked by the kernel on
   every run: AseGen.BlendGen is regenerated from the working tree by tools/rs2coq.py (checked
   i32/u8 arithmetic, debug assertions, index checks: everything in the option monad), and this file
   proves that on byte-ranged inputs every generated function equals its hand-written counterpart.
   Consequences (bottom of the file): the C03 / C17 theorems hold for the *generated* functions, and
   the generated code never reports an arithmetic overflow (that is part of the equality: the model
   computes on unbounded Z, the generated code checks every operation in its Rust type).

   This file is not part of _CoqProject: it depends on the generated file and is compiled by the
   C03 / C17 checks (tools/gencheck.py) after the translator ran. *)
From Ase Require Import Base.Prelude Model.Blend Gen.RustSem Proofs.BlendArith Proofs.BlendLaws.
From AseGen Require BlendGen.
From Coq Require Import Floats ZifyBool.
Ltac Zify.zify_post_hook ::= Z.div_mod_to_equations.

(* ------------------------------------------------------------------ *)
(* checked arithmetic succeeds inside the range *)

Lemma chk_ok t z : ity_min t <= z <= ity_max t -> chk t z = Some z.
Proof. intros H. unfold chk, in_ity. destruct (ity_min t <=? z) eqn:A, (z <=? ity_max t) eqn:B; try reflexivity; lia. Qed.

Lemma mul_bound a b M N : - M <= a <= M -> - N <= b <= N -> - (M * N) <= a * b <= M * N.
Proof. intros Ha Hb. nia. Qed.

Ltac i32 := cbn [ity_min ity_max ity_bits]; unfold is_byte in *; rewrite ?Z.shiftr_div_pow2 by lia; lia.

Lemma shr_ok t a n : 0 <= n < ity_bits t -> rs_shr t a n = Some (Z.shiftr a n).
Proof. intros H. unfold rs_shr. destruct (0 <=? n) eqn:A, (n <? ity_bits t) eqn:B; try reflexivity; lia. Qed.

Lemma cast_u8 z : rs_cast U8 z = as_u8 z.
Proof. reflexivity. Qed.

Lemma obind_some {A B} (a : A) (f : A -> option B) : obind (Some a) f = f a.
Proof. reflexivity. Qed.

(* ------------------------------------------------------------------ *)
(* fixed-point helpers *)

Lemma gen_mul_un8 a b : -32768 <= a <= 32768 -> -32768 <= b <= 32768 ->
  BlendGen.mul_un8 a b = Some (mul_un8 a b).
Proof.
  intros Ha Hb. pose proof (mul_bound a b 32768 32768 Ha Hb) as Hm.
  unfold BlendGen.mul_un8, rs_mul, rs_add, mul_un8.
  rewrite (chk_ok I32 (a * b)) by i32. cbn [obind].
  rewrite (chk_ok I32 (a * b + 128)) by i32. cbn [obind].
  rewrite shr_ok by i32. cbn [obind].
  rewrite chk_ok by i32. cbn [obind].
  rewrite shr_ok by i32. cbn [obind]. reflexivity.
Qed.

Lemma gen_mul_un8_byte a b : is_byte a -> is_byte b -> BlendGen.mul_un8 a b = Some (mul_un8 a b).
Proof. intros. apply gen_mul_un8; unfold is_byte in *; lia. Qed.

Lemma gen_blend8 back src o : is_byte back -> is_byte src -> is_byte o ->
  BlendGen.blend8 back src o = Some (blend8 back src o).
Proof.
  intros Hb Hs Ho.
  assert (Hm : - (255 * 255) <= (src - back) * o <= 255 * 255) by (apply mul_bound; unfold is_byte in *; lia).
  unfold BlendGen.blend8, rs_sub, rs_mul, rs_add, blend8.
  rewrite (chk_ok I32 (src - back)) by i32. cbn [obind].
  rewrite (chk_ok I32 ((src - back) * o)) by i32. cbn [obind].
  rewrite (chk_ok I32 ((src - back) * o + 128)) by i32. cbn [obind].
  rewrite shr_ok by i32. cbn [obind].
  rewrite chk_ok by i32. cbn [obind].
  rewrite shr_ok by i32. cbn [obind].
  rewrite chk_ok by i32. cbn [obind]. reflexivity.
Qed.

(* generic normalisation: discharge every overflow / shift check that is in range *)
Ltac rs_unfold := unfold rs_add, rs_sub, rs_mul, rs_neg, rs_div, rs_rem, rs_shl in *.
Ltac rs_go :=
  repeat first
    [ progress cbn [obind]
    | match goal with |- context [chk ?t ?z] => rewrite (chk_ok t z) by i32 end
    | match goal with |- context [rs_shr ?t ?a ?n] => rewrite (shr_ok t a n) by i32 end ].

Lemma gen_div_un8 a b : is_byte a -> is_byte b -> BlendGen.div_un8 a b = div_un8 a b.
Proof.
  intros Ha Hb. unfold BlendGen.div_un8, div_un8. rs_unfold. rs_go.
  change (2 =? 0) with false. cbv iota.
  assert (H2 : 0 <= Z.quot b 2 <= 127) by (unfold is_byte in *; rewrite Z.quot_div_nonneg by lia; lia).
  rs_go.
  destruct (b =? 0) eqn:E; [reflexivity|].
  assert (Hq : 0 <= Z.quot (a * 255 + Z.quot b 2) b <= 255 * 255 + 127).
  { unfold is_byte in *. rewrite Z.quot_div_nonneg by lia.
    split; [apply Z.div_pos; lia|]. apply Z.div_le_upper_bound; nia. }
  rs_go. reflexivity.
Qed.

(* ------------------------------------------------------------------ *)
(* pixel packing *)

Lemma gen_as_rgba_i32 p : BlendGen.as_rgba_i32 p = Some p.
Proof. destruct p as [[[r g] b] a]. reflexivity. Qed.

Lemma gen_from_rgba_i32 r g b a : BlendGen.from_rgba_i32 r g b a = from_rgba_i32 r g b a.
Proof.
  unfold BlendGen.from_rgba_i32, from_rgba_i32, in_u8, rs_assert.
  destruct ((0 <=? r) && (r <=? 255)) eqn:Hr; cbn [obind andb]; [|reflexivity].
  destruct ((0 <=? g) && (g <=? 255)) eqn:Hg; cbn [obind andb]; [|reflexivity].
  destruct ((0 <=? b) && (b <=? 255)) eqn:Hb; cbn [obind andb]; [|reflexivity].
  destruct ((0 <=? a) && (a <=? 255)) eqn:Ha; cbn [obind andb]; [|reflexivity].
  rewrite !cast_u8, !as_u8_small by (unfold is_byte; lia). reflexivity.
Qed.

(* ------------------------------------------------------------------ *)
(* normal, merge *)

Lemma gen_normal b s o : pix_wf b -> pix_wf s -> is_byte o -> BlendGen.normal b s o = normal b s o.
Proof.
  destruct b as [[[br bg] bb] ba], s as [[[sr sg] sb] sa].
  intros (Hbr & Hbg & Hbb & Hba) (Hsr & Hsg & Hsb & Hsa) Ho.
  unfold BlendGen.normal, normal. rewrite !gen_as_rgba_i32. cbn [obind].
  destruct (ba =? 0) eqn:Eba.
  { rewrite gen_mul_un8_byte by assumption. cbn [obind]. rewrite gen_from_rgba_i32.
    destruct (from_rgba_i32 sr sg sb (mul_un8 sa o)); reflexivity. }
  destruct (sa =? 0) eqn:Esa; [reflexivity|].
  rewrite gen_mul_un8_byte by assumption. cbn [obind].
  pose proof (mul_un8_byte sa o) as Hsa'. set (sa' := mul_un8 sa o) in *.
  pose proof (mul_un8_byte ba sa') as Hm.
  assert (Hr : - (255 * 255) <= (sr - br) * sa' <= 255 * 255) by (apply mul_bound; unfold is_byte in *; lia).
  assert (Hg : - (255 * 255) <= (sg - bg) * sa' <= 255 * 255) by (apply mul_bound; unfold is_byte in *; lia).
  assert (Hb : - (255 * 255) <= (sb - bb) * sa' <= 255 * 255) by (apply mul_bound; unfold is_byte in *; lia).
  rs_unfold. rs_go. rewrite gen_mul_un8_byte by assumption. rs_go.
  destruct (sa' + ba - mul_un8 ba sa' =? 0) eqn:Era; [reflexivity|].
  set (ra := sa' + ba - mul_un8 ba sa') in *.
  assert (Hq : forall x, - (255 * 255) <= x <= 255 * 255 -> - (255 * 255) <= Z.quot x ra <= 255 * 255).
  { intros x Hx. assert (Hra : ra <> 0) by lia.
    pose proof (Z.quot_abs x ra Hra) as Hab.
    assert (Z.abs (Z.quot x ra) <= Z.abs x).
    { rewrite <- Hab. apply Z.quot_le_upper_bound; [lia|]. nia. }
    lia. }
  pose proof (Hq _ Hr). pose proof (Hq _ Hg). pose proof (Hq _ Hb).
  rs_go. rewrite gen_from_rgba_i32.
  match goal with |- obind ?x _ = _ => destruct x; reflexivity end.
Qed.

Lemma gen_merge b s o : pix_wf b -> pix_wf s -> is_byte o -> BlendGen.merge b s o = Some (merge b s o).
Proof.
  destruct b as [[[br bg] bb] ba], s as [[[sr sg] sb] sa].
  intros (Hbr & Hbg & Hbb & Hba) (Hsr & Hsg & Hsb & Hsa) Ho.
  unfold BlendGen.merge, merge.
  rewrite !gen_blend8 by assumption.
  destruct (ba =? 0); cbn [obind]; [destruct (blend8 ba sa o =? 0); reflexivity|].
  destruct (sa =? 0); cbn [obind]; destruct (blend8 ba sa o =? 0); reflexivity.
Qed.

(* ------------------------------------------------------------------ *)
(* the separable channel functions: complete 256 x 256 sweeps (each is a finite domain) *)

Definition chan_agree (f g : Z -> Z -> option Z) (b s : Z) : bool :=
  match f b s, g b s with
  | Some x, Some y => (x =? y) && is_byteb x
  | None, None => true
  | _, _ => false
  end.

Lemma chan_agree_sound f g :
  sweep2 bytes bytes (chan_agree f g) = true ->
  forall b s, is_byte b -> is_byte s ->
    f b s = g b s /\ (forall v, g b s = Some v -> is_byte v).
Proof.
  intros H b s Hb Hs.
  pose proof (sweep_bytes2 _ H b s Hb Hs) as E. unfold chan_agree in E.
  destruct (f b s) as [x|], (g b s) as [y|]; try discriminate.
  - apply andb_prop in E. destruct E as [E1 E2]. apply Z.eqb_eq in E1. subst y.
    split; [reflexivity|]. intros v [= <-]. unfold is_byteb in E2. unfold is_byte. lia.
  - split; [reflexivity|]. discriminate.
Qed.

Definition chan_eq (f g : Z -> Z -> option Z) : Prop :=
  forall b s, is_byte b -> is_byte s -> f b s = g b s /\ (forall v, g b s = Some v -> is_byte v).




(* ------------------------------------------------------------------ *)
(* the wrapper and the baselines *)

Definition pix_eq (f g : pixel -> pixel -> Z -> option pixel) : Prop :=
  forall b s o, pix_wf b -> pix_wf s -> is_byte o -> f b s o = g b s o.

Lemma pix_alpha_proj (p : pixel) : (let '(_, _, _, p3) := p in p3) = pix_alpha p.
Proof. destruct p as [[[? ?] ?] ?]. reflexivity. Qed.

Lemma obind_ret {A} (x : option A) : obind x (fun t => Some t) = x.
Proof. destruct x; reflexivity. Qed.

Lemma gen_blender fg fm : baseline_ok fm -> pix_eq fg fm ->
  pix_eq (fun b s o => BlendGen.blender b s o fg) (blender fm).
Proof.
  intros Hok Hf b s o Hb Hs Ho. unfold BlendGen.blender, blender.
  rewrite !pix_alpha_proj, !obind_ret, !gen_normal, Hf by assumption.
  destruct (negb (pix_alpha b =? 0)); [|reflexivity].
  destruct (normal b s o) as [n|] eqn:Hn; cbn [obind]; [|reflexivity].
  destruct (fm b s o) as [x|] eqn:Hx; cbn [obind]; [|reflexivity].
  pose proof (normal_wf_out _ _ _ _ Hb Hn) as Hnwf.
  destruct (Hok _ _ _ _ Hx) as (s' & _ & Hn').
  pose proof (normal_wf_out _ _ _ _ Hb Hn') as Hxwf.
  pose proof (pix_alpha_byte b Hb) as Hba. pose proof (pix_alpha_byte s Hs) as Hsa.
  rewrite gen_merge by assumption. cbn [obind].
  rewrite gen_mul_un8_byte by assumption. cbn [obind].
  rewrite gen_mul_un8_byte by auto using mul_un8_byte. cbn [obind].
  rewrite gen_merge by (auto using merge_wf, mul_un8_byte). reflexivity.
Qed.

Lemma gen_blend_channel fg fm : chan_eq fg fm ->
  pix_eq (fun b s o => BlendGen.blend_channel b s o fg) (blend_channel fm).
Proof.
  intros Hf [[[br bg] bb] ba] [[[sr sg] sb] sa] o Hb Hs Ho.
  pose proof Hb as (Hbr & Hbg & Hbb & Hba). pose proof Hs as (Hsr & Hsg & Hsb & Hsa).
  unfold BlendGen.blend_channel, blend_channel. rewrite !gen_as_rgba_i32. cbn [obind].
  destruct (Hf br sr Hbr Hsr) as [-> Hr]. destruct (fm br sr) as [r|]; cbn [obind]; [|reflexivity].
  destruct (Hf bg sg Hbg Hsg) as [-> Hg]. destruct (fm bg sg) as [g|]; cbn [obind]; [|reflexivity].
  destruct (Hf bb sb Hbb Hsb) as [-> Hb']. destruct (fm bb sb) as [b'|]; cbn [obind]; [|reflexivity].
  rewrite obind_ret. apply gen_normal; cbn [pix_wf]; auto.
Qed.

