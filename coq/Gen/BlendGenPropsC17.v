(* C17 for the functions GENERATED from src/blend.rs (tools/rs2coq.py), where every integer operation is checked in its Rust
   type.  `BlendGen.blend m` is what the code runs for a layer whose blend mode id is m: parse_blend_mode (layer.rs),
   blend_mode_to_blend_fn (file.rs), then blend.rs.  These statements do NOT depend on what the colour functions compute
   (BlendGenStruct.v), except the two guarded HSL range statements, which speak about the model's guard (BlendGenEqHsl.v).
   Only statements closed by `exact`; not part of _CoqProject (compiled by the C17 check). *)
From Ase Require Import Base.Prelude Model.Blend Proofs.BlendLaws.
From AseGen Require BlendGen.
From AseGen Require Import BlendGenStruct BlendGenEqHsl.

(* what the code runs for mode id m is Normal, or the model's wrapper `blender` around the generated baseline of that mode *)
Theorem GEN_struct : forall (m : Z) (b s : pixel) (o : Z),
  0 <= m <= 18 -> pix_wf b -> pix_wf s -> is_byte o -> BlendGen.blend m b s o = gblend m b s o.
Proof. exact gen_blend_struct. Qed.
Print Assumptions GEN_struct.

Theorem GEN_baselines_shape : forall m : Z, 0 <= m <= 18 -> baseline_ok_wf (gbase m).
Proof. exact gbase_ok. Qed.
Print Assumptions GEN_baselines_shape.

Theorem GEN_tie_refuses : forall (m : Z) (b s : pixel) (o : Z),
  ~ (0 <= m <= 18) -> BlendGen.blend m b s o = None.
Proof. exact BlendGenStruct.gen_blend_refuses. Qed.
Print Assumptions GEN_tie_refuses.

Theorem C17_alpha_gen : forall (m : Z) (b s : pixel) (o : Z) (p q : pixel),
  pix_wf b -> pix_wf s -> is_byte o ->
  BlendGen.blend m b s o = Some p -> BlendGen.blend 0 b s o = Some q -> pix_alpha p = pix_alpha q.
Proof. exact C17_alpha_gen_proof. Qed.
Print Assumptions C17_alpha_gen.

Theorem C17_src_transparent_gen : forall (m : Z) (b s : pixel) (o : Z) (p : pixel),
  pix_wf b -> pix_wf s -> is_byte o ->
  pix_alpha b <> 0 -> pix_alpha s = 0 -> BlendGen.blend m b s o = Some p -> p = b.
Proof. exact C17_src_transparent_gen_proof. Qed.
Print Assumptions C17_src_transparent_gen.

Theorem C17_zero_opacity_gen : forall (m : Z) (b s p : pixel),
  pix_wf b -> pix_wf s -> pix_alpha b <> 0 -> BlendGen.blend m b s 0 = Some p -> p = b.
Proof. exact C17_zero_opacity_gen_proof. Qed.
Print Assumptions C17_zero_opacity_gen.

Theorem C17_over_transparent_gen : forall (m : Z) (b s : pixel) (o : Z),
  0 <= m <= 18 -> pix_wf b -> pix_wf s -> is_byte o -> pix_alpha b = 0 ->
  BlendGen.blend m b s o = Some (let '(sr, sg, sb, sa) := s in (sr, sg, sb, mul_un8 sa o)).
Proof. exact C17_over_transparent_gen_proof. Qed.
Print Assumptions C17_over_transparent_gen.

Theorem C17_normal_opaque_gen : forall (b s : pixel),
  pix_wf b -> pix_wf s -> pix_alpha s = 255 -> BlendGen.blend 0 b s 255 = Some s.
Proof. exact C17_normal_opaque_gen_proof. Qed.
Print Assumptions C17_normal_opaque_gen.

Theorem C17_range_int_gen : forall (m : Z) (b s : pixel) (o : Z),
  In m [0; 1; 2; 3; 4; 5; 6; 7; 8; 10; 11; 16; 17; 18] ->
  pix_wf b -> pix_wf s -> is_byte o ->
  exists p, BlendGen.blend m b s o = Some p /\ pix_wf p.
Proof. exact C17_range_int_gen_proof. Qed.
Print Assumptions C17_range_int_gen.

Theorem C17_range_soft_gen : forall (b s : pixel) (o : Z),
  pix_wf b -> pix_wf s -> is_byte o ->
  exists p, BlendGen.blend 9 b s o = Some p /\ pix_wf p.
Proof. exact C17_range_soft_gen_proof. Qed.
Print Assumptions C17_range_soft_gen.

Theorem C17_range_hsl_partial_gen : forall (m : Z) (b s : pixel) (o : Z),
  m = 12 \/ m = 13 \/ m = 14 \/ m = 15 ->
  pix_wf b -> pix_wf s -> is_byte o ->
  hsl_ok m b s = true ->
  exists p, BlendGen.blend m b s o = Some p /\ pix_wf p.
Proof. exact C17_range_hsl_partial_gen_proof. Qed.
Print Assumptions C17_range_hsl_partial_gen.

Theorem C17_range_hsl_only_failure_gen : forall (m : Z) (b s : pixel) (o : Z),
  m = 12 \/ m = 13 \/ m = 14 \/ m = 15 ->
  pix_wf b -> pix_wf s -> is_byte o ->
  (BlendGen.blend m b s o = None <-> (pix_alpha b <> 0 /\ hsl_ok m b s = false)).
Proof. exact C17_range_hsl_only_failure_gen_proof. Qed.
Print Assumptions C17_range_hsl_only_failure_gen.

