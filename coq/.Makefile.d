Base/Prelude.vo Base/Prelude.glob Base/Prelude.v.beautified Base/Prelude.required_vo: Base/Prelude.v 
Base/Prelude.vio: Base/Prelude.v 
Base/Prelude.vos Base/Prelude.vok Base/Prelude.required_vos: Base/Prelude.v 
Model/Blend.vo Model/Blend.glob Model/Blend.v.beautified Model/Blend.required_vo: Model/Blend.v Base/Prelude.vo
Model/Blend.vio: Model/Blend.v Base/Prelude.vio
Model/Blend.vos Model/Blend.vok Model/Blend.required_vos: Model/Blend.v Base/Prelude.vos
