(* C13 end to end: every strict prefix of a serialised well-formed program that loads fails with UnexpectedEof, and the
   program followed by anything loads to the same sprite. *)
From Ase Require Import Model.Api Spec.Serialize.
From Ase Require Import Proofs.ITLemmas Proofs.Truncation Proofs.EndToEnd Proofs.EndToEndTotalTs.

Section Trunc.
Variable inflate : list Z -> Z -> zres.

Lemma load_rest_serialize s tail f :
  wf_prog s -> load inflate (serialize s ++ tail) = Ok f -> load_rest inflate (serialize s ++ tail) = Ok (f, tail).
Proof.
  intros Hwf. unfold load, load_rest. rewrite parse_file_serialize by exact Hwf.
  destruct (assemble inflate (prog_fmt s) (hf_frames (sp_header s)) (hf_default_time (sp_header s)) (map frame_chunks_of (sp_frames s)))
    as [p|e|k]; cbn [rbind rmap fst snd]; try discriminate.
  destruct (validate (header_of (rawheader_of s) (prog_fmt s)) p) as [f0|e|k]; cbn [rbind rmap fst snd]; try discriminate.
  intros [= ->]. reflexivity.
Qed.

Theorem program_truncation s tail f (m : nat) :
  wf_prog s -> load inflate (serialize s ++ tail) = Ok f ->
  (m < length (serialize s))%nat -> load inflate (firstn m (serialize s)) = Err eof.
Proof.
  intros Hwf Hf Hm. pose proof (load_rest_serialize s tail f Hwf Hf) as Hr.
  pose proof (load_truncated inflate _ f tail m Hr) as H. rewrite app_length in H.
  rewrite firstn_app in H. replace (m - length (serialize s))%nat with 0%nat in H by lia. rewrite app_nil_r in H.
  apply H. lia.
Qed.

(* with the load condition: every strict prefix of such a file is refused with UnexpectedEof; the whole file (followed by
   anything) loads *)
Theorem program_prefixes s :
  wf_prog s -> inflate_ok inflate s -> sprite_ok_ts s ->
  (forall m : nat, (m < length (serialize s))%nat -> load inflate (firstn m (serialize s)) = Err eof) /\
  (forall tail, exists f, load inflate (serialize s ++ tail) = Ok f).
Proof.
  intros Hwf Hz Hok. split.
  - intros m Hm. destruct (load_serialize_total_ts inflate s [] Hwf Hz Hok) as (f & Hf).
    exact (program_truncation s [] f m Hwf Hf Hm).
  - intros tail. exact (load_serialize_total_ts inflate s tail Hwf Hz Hok).
Qed.

End Trunc.
