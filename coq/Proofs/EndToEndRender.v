(* From the bytes of a program to the pixels of its frames, in one statement: C01 (what loads and what it reports), C05 (the
   render returns), C17 (the blend functions return bytes) and C02 (each pixel is the composition formula) combined.
   For the integer blend modes and soft light; the four HSL modes are excluded here because their range theorem carries
   the computable guard hsl_ok (Props/C17.v). *)
From Ase Require Import Model.Api Model.Render Spec.Serialize Spec.Compose.
From Ase Require Import Proofs.ITLemmas Proofs.ArrLemmas Proofs.BlendLaws Proofs.NoPanicApi Proofs.RenderValid.
From Ase Require Import Proofs.UserData Proofs.EndToEnd Proofs.EndToEndTotal Proofs.EndToEndTilesets Proofs.EndToEndTotalTs Proofs.EndToEndIff.

Definition mode_plain (m : Z) : Prop := In m [0; 1; 2; 3; 4; 5; 6; 7; 8; 9; 10; 11; 16; 17; 18].

Lemma mode_plain_total m b s o :
  mode_plain m -> pix_wf b -> pix_wf s -> is_byte o -> exists p, blend m b s o = Some p /\ pix_wf p.
Proof.
  intros Hm Hb Hs Ho. destruct (Z.eq_dec m 9) as [->|Hne]; [exact (C17_range_soft b s o Hb Hs Ho)|].
  apply C17_range_int; try assumption. unfold mode_plain in Hm. unfold int_mode, int_modes. cbn [In] in Hm |- *. lia.
Qed.

Theorem e2e_render (inflate : list Z -> Z -> zres) s tail :
  wf_prog s -> inflate_ok inflate s -> (forall z n out, inflate z n = ZOk out -> Forall is_byte out) -> all_bytes tail ->
  sprite_ok_ts s ->
  (forall l, In l (prog_layers s) -> mode_plain (l_blend l)) ->
  exists f,
    load inflate (serialize s ++ tail) = Ok f /\
    forall fr, 0 <= fr < zlen (sp_frames s) ->
      exists img,
        frame_image f fr = Ok img /\
        iw img = hf_width (sp_header s) /\ ih img = hf_height (sp_header s) /\
        forall x y, 0 <= x < hf_width (sp_header s) -> 0 <= y < hf_height (sp_header s) ->
          spec_pixel f fr x y = Some (img_get img x y) /\ pix_wf (img_get img x y).
Proof.
  intros Hwf Hz Hzb Htail Hok Hmodes.
  destruct (e2e_headline_ts inflate s tail Hwf Hz Hok) as (f & Hf & Hw & Hh & Hn & _ & _ & Hlay & _).
  exists f. split; [exact Hf|].
  assert (Forall is_byte (serialize s ++ tail)) as Hb by (apply Forall_app; split; [exact (serialize_all_bytes s Hwf)|exact Htail]).
  intros fr Hfr.
  assert (forall i l, aget (f_layers f) i = Some l -> mode_plain (l_blend l)) as Hm.
  { destruct (load_serialize_ok inflate s tail f Hwf Hz Hf) as (p & _ & Hv).
    destruct (validate_ok_inv _ _ _ Hv) as (_ & _ & _ & Hfl). rewrite Hfl, arr_to_list_of_list in Hlay.
    intros i l Hi. rewrite Hfl, aget_arr_of_list, Hlay in Hi.
    pose proof (nthz_some _ _ _ Hi) as Hr. rewrite nthz_mapi in Hi by lia.
    destruct (nthz (prog_layers s) i) as [l0|] eqn:E; [|discriminate]. cbn [option_map] in Hi. injection Hi as <-.
    apply (Hmodes l0). exact (nthz_In _ _ _ E). }
  destruct (loaded_frame_image_total mode_plain mode_plain_total inflate Hzb _ f Hb Hf Hm fr) as (img & Himg & (Hiw & Hih) & Hpx).
  { unfold num_frames. rewrite Hn. exact Hfr. }
  exists img. split; [exact Himg|]. rewrite Hiw, Hih, Hw, Hh. split; [reflexivity|]. split; [reflexivity|].
  intros x y Hx Hy. split; [|apply Hpx].
  destruct (frame_image_compose_loaded inflate _ f fr img Hb Hf Himg) as (_ & _ & Hsp).
  apply Hsp; rewrite ?Hw, ?Hh; assumption.
Qed.

(* non-vacuity: the tileset example (a tilemap layer in Screen mode over two tileset chunks) meets every hypothesis *)
Import TilesetExample.
Lemma ex_inflate_bytes z n out : ex_inflate z n = ZOk out -> Forall is_byte out.
Proof.
  unfold ex_inflate. destruct z as [|k t]; [discriminate|].
  destruct (Z.eq_dec k 1) as [->|N1]; [intros [= <-]; unfold ts_bytes_a; repeat constructor; unfold is_byte; lia|].
  destruct (Z.eq_dec k 2) as [->|N2]; [intros [= <-]; unfold ts_bytes_b; repeat constructor; unfold is_byte; lia|].
  destruct (Z.eq_dec k 3) as [->|N3]; [intros [= <-]; repeat constructor; unfold is_byte; lia|].
  destruct k as [|q|q]; try discriminate.
  destruct q as [[q|q|]|[q|q|]|]; try discriminate; exfalso; lia.
Qed.

Example ts_renders tail : all_bytes tail ->
  exists f, load ex_inflate (serialize ts_prog ++ tail) = Ok f /\
    exists img, frame_image f 0 = Ok img /\ iw img = 4 /\ ih img = 3 /\
      forall x y, 0 <= x < 4 -> 0 <= y < 3 -> spec_pixel f 0 x y = Some (img_get img x y) /\ pix_wf (img_get img x y).
Proof.
  intros Ht.
  destruct (e2e_render ex_inflate ts_prog tail ts_wf ts_inflate_ok ex_inflate_bytes Ht ts_sprite_ok_ts) as (f & Hf & Hr).
  { intros l Hl. vm_compute in Hl. destruct Hl as [<-|[]]. vm_compute. tauto. }
  exists f. split; [exact Hf|]. destruct (Hr 0 ltac:(vm_compute; split; [discriminate|reflexivity])) as (img & H1 & H2 & H3 & H4).
  exists img. split; [exact H1|]. split; [exact H2|]. split; [exact H3|exact H4].
Qed.
