(* C15: the documented-unsupported features are refused.
   Part 1: decoder-level lemmas, phrased on the raw payload bytes through field positions.
   Part 2: the same facts for the loader, through the factorisation (Proofs/Factor.v):
           a file in which framing delivers a chunk that uses the feature does not load. *)
From Ase Require Export Proofs.Factor Proofs.ReadInv.

(* ------------------------------------------------------------------ *)
(* layer chunk: layer type (bytes 2..3) and blend mode (bytes 10..11) *)

Lemma dec_layer_fields data l :
  run_payload dec_layer data = Ok l ->
  exists ltype blend, word_at data 2 = Some ltype /\ word_at data 10 = Some blend /\
                      ltype <= 2 /\ blend <= 18.
Proof.
  intros H. apply run_payload_ok in H. destruct H as (rest & R). unfold dec_layer in R.
  bind_inv R flags r1 H1. bind_inv R ltype r2 H2. bind_inv R level r3 H3.
  bind_inv R w4 r4 H4. bind_inv R w5 r5 H5. bind_inv R blend r6 H6.
  bind_inv R opacity r7 H7. bind_inv R b8 r8 H8. bind_inv R w9 r9 H9. bind_inv R name r10 H10.
  bind_inv R tyts r11 H11. destruct tyts as [ty ts].
  word_inv H1 a1 b1. word_inv H2 a2 b2. word_inv H3 a3 b3. word_inv H4 a4 b4. word_inv H5 a5 b5.
  word_inv H6 a6 b6.
  exists (a2 + 256 * b2), (a6 + 256 * b6). split; [reflexivity|]. split; [reflexivity|].
  split.
  - destruct (Z.eqb_spec (a2 + 256 * b2) 0) as [E|_]; [lia|].
    destruct (Z.eqb_spec (a2 + 256 * b2) 1) as [E|_]; [lia|].
    destruct (Z.eqb_spec (a2 + 256 * b2) 2) as [E|_]; [lia|].
    cbn [run] in H11. discriminate.
  - destruct (Z.ltb_spec 18 (a6 + 256 * b6)) as [E|E]; [cbn [run] in R; discriminate|lia].
Qed.

Theorem dec_layer_type_refused data v :
  word_at data 2 = Some v -> 2 < v -> forall l, run_payload dec_layer data <> Ok l.
Proof.
  intros Hw Hv l H. apply dec_layer_fields in H. destruct H as (lt & bl & H2 & _ & Hle & _).
  rewrite Hw in H2. injection H2 as <-. lia.
Qed.

Theorem dec_layer_blend_refused data v :
  word_at data 10 = Some v -> 18 < v -> forall l, run_payload dec_layer data <> Ok l.
Proof.
  intros Hw Hv l H. apply dec_layer_fields in H. destruct H as (lt & bl & _ & H10 & _ & Hle).
  rewrite Hw in H10. injection H10 as <-. lia.
Qed.

(* ------------------------------------------------------------------ *)
(* cel chunk: cel type (bytes 7..8); tilemap cel: bits per tile (bytes 20..21) *)

Section Cel.
Variable inflate : list Z -> Z -> zres.

Lemma dec_cel_hdr_inv buf common cel_type rest :
  run dec_cel_hdr buf = Ok ((common, cel_type), rest) ->
  word_at buf 7 = Some cel_type /\ exists pre, buf = pre ++ rest /\ length pre = 16%nat.
Proof.
  intros R. unfold dec_cel_hdr in R.
  bind_inv R layer r1 H1. bind_inv R x r2 H2. bind_inv R y r3 H3. bind_inv R op r4 H4.
  bind_inv R ct r5 H5. bind_inv R u r6 H6.
  cbn [run] in R. injection R as _ <- <-.
  word_inv H1 a1 b1. apply run_short_inv in H2. destruct H2 as (a2 & b2 & ->).
  apply run_short_inv in H3. destruct H3 as (a3 & b3 & ->).
  apply run_byte_inv in H4. subst r3. word_inv H5 a5 b5.
  apply run_skip_inv in H6; [|lia]. destruct H6 as (pad & -> & Hl).
  split; [reflexivity|].
  exists ([a1; b1; a2; b2; a3; b3; op; a5; b5] ++ pad). split; [reflexivity|].
  rewrite app_length, Hl. reflexivity.
Qed.

Lemma word_at_app pre rest k : word_at (pre ++ rest) (length pre + k) = word_at rest k.
Proof.
  unfold word_at. rewrite skipn_app. rewrite skipn_all2 by lia.
  replace (length pre + k - length pre)%nat with k by lia. reflexivity.
Qed.

Theorem dec_cel_type_refused fmt buf v :
  word_at buf 7 = Some v -> 3 < v -> forall c, dec_cel inflate fmt buf <> Ok c.
Proof.
  intros Hw Hv c H. unfold dec_cel in H.
  apply rbind_ok in H. destruct H as ([[common cel_type] rest] & Hh & H).
  apply dec_cel_hdr_inv in Hh. destruct Hh as (H7 & _).
  rewrite Hw in H7. injection H7 as <-.
  destruct (Z.eqb_spec v 0) as [E|_]; [lia|].
  destruct (Z.eqb_spec v 1) as [E|_]; [lia|].
  destruct (Z.eqb_spec v 2) as [E|_]; [lia|].
  destruct (Z.eqb_spec v 3) as [E|_]; [lia|].
  cbn [rbind] in H. discriminate.
Qed.

Theorem dec_cel_bits_per_tile_refused fmt buf bits :
  word_at buf 7 = Some 3 -> word_at buf 20 = Some bits -> bits <> 32 ->
  forall c, dec_cel inflate fmt buf <> Ok c.
Proof.
  intros Hw Hb Hne c H. unfold dec_cel in H.
  apply rbind_ok in H. destruct H as ([[common cel_type] rest] & Hh & H).
  apply dec_cel_hdr_inv in Hh. destruct Hh as (H7 & pre & -> & Hl).
  rewrite Hw in H7. injection H7 as <-.
  change (3 =? 0) with false in H. change (3 =? 1) with false in H. change (3 =? 2) with false in H.
  change (3 =? 3) with true in H. cbv iota in H.
  apply rbind_ok in H. destruct H as (content & Hc & _).
  apply rbind_ok in Hc. destruct Hc as (tm & Htm & _).
  unfold dec_tilemap in Htm. apply rbind_ok in Htm. destruct Htm as ([hdr rest'] & R & _).
  unfold dec_tilemap_hdr in R.
  bind_inv R w r1 H1. bind_inv R h r2 H2. bind_inv R b r3 H3.
  word_inv H1 a1 b1. word_inv H2 a2 b2. word_inv H3 a3 b3.
  change 20%nat with (16 + 4)%nat in Hb. rewrite <- Hl, word_at_app in Hb.
  unfold word_at in Hb. cbn [skipn] in Hb. injection Hb as <-.
  destruct (Z.eqb_spec (a3 + 256 * b3) 32) as [E|_]; [contradiction|].
  cbn [negb run] in R. discriminate.
Qed.

End Cel.

(* ------------------------------------------------------------------ *)
(* tags chunk: the animation direction byte *)

(* the first tag: its direction is byte 14 of the payload *)
Theorem dec_tags_first_dir_refused data n d :
  word_at data 0 = Some n -> 0 < n -> byte_at data 14 = Some d -> 2 < d ->
  forall ts, run_payload dec_tags data <> Ok ts.
Proof.
  intros Hn Hpos Hd Hgt ts H. apply run_payload_ok in H. destruct H as (rest & R). unfold dec_tags in R.
  bind_inv R n' r1 H1. bind_inv R u r2 H2. bind_inv R acc r3 H3.
  word_inv H1 a1 b1. apply run_skip_inv in H2; [|lia]. destruct H2 as (pad & -> & Hl).
  unfold word_at in Hn. cbn [skipn] in Hn. injection Hn as Hn.
  rewrite run_iterZ in H3. rewrite Hn in H3.
  destruct (Z.to_nat n) as [|k] eqn:Ek; [lia|]. cbn [run_times] in H3.
  destruct (run (dec_tag []) r2) as [[acc1 r2']|e|s] eqn:T; try discriminate.
  unfold dec_tag in T.
  bind_inv T from q1 T1. bind_inv T to q2 T2. bind_inv T dir q3 T3. bind_inv T rep q4 T4.
  bind_inv T u5 q5 T5. bind_inv T w6 q6 T6. bind_inv T name q7 T7.
  word_inv T1 f0 f1. word_inv T2 t0 t1. apply run_byte_inv in T3. subst q2.
  change (Z.to_nat 8) with 8%nat in Hl. explode_list pad Hl.
  unfold byte_at in Hd. cbn [skipn app] in Hd. injection Hd as <-.
  destruct (Z.ltb_spec 2 dir) as [_|E]; [|lia]. cbn [run] in T. discriminate.
Qed.

(* any tag: the payload laid out with the encoders of Spec/Encode.v *)
Definition enc_tag (t : tag) : list Z :=
  e_word (t_from t) ++ e_word (t_to t) ++ e_byte (t_dir t) ++ e_word (t_repeat t) ++
  repeat 0 6 ++ e_dword 0 ++ e_str (t_name t).
Definition enc_tags (ts : list tag) (tail : list Z) : list Z :=
  e_word (zlen ts) ++ repeat 0 8 ++ concat (map enc_tag ts) ++ tail.

Lemma run_dec_tag acc t rest :
  run (dec_tag acc) (enc_tag t ++ rest) =
  if utf8_valid (t_name t) then
    if 2 <? t_dir t then Err EInvalid
    else Ok ({| t_name := t_name t; t_from := t_from t; t_to := t_to t; t_repeat := t_repeat t;
                t_dir := t_dir t; t_ud := None |} :: acc, rest)
  else Err EInvalid.
Proof.
  unfold dec_tag, enc_tag. rewrite <- !app_assoc.
  rewrite run_bind, run_word. rewrite run_bind, run_word. rewrite run_bind, run_byte.
  rewrite run_bind, run_word. rewrite run_bind, (run_skip 6 (repeat 0 6)) by reflexivity.
  rewrite run_bind, run_dword. rewrite run_bind.
  destruct (utf8_valid (t_name t)) eqn:U.
  - rewrite run_str by exact U. destruct (2 <? t_dir t); reflexivity.
  - rewrite run_str_invalid by exact U. reflexivity.
Qed.

Lemma run_times_dec_tag_refused : forall ts acc rest,
  Exists (fun t => 2 < t_dir t) ts ->
  forall r, run_times (length ts) dec_tag acc (concat (map enc_tag ts) ++ rest) <> Ok r.
Proof.
  induction ts as [|t ts IH]; intros acc rest Hex r.
  - inversion Hex.
  - cbn [length map concat run_times]. rewrite <- app_assoc, run_dec_tag.
    destruct (utf8_valid (t_name t)); [|discriminate].
    destruct (Z.ltb_spec 2 (t_dir t)) as [Hgt|Hle]; [discriminate|].
    apply IH. inversion Hex as [x l Hx|x l Hx]; subst; [lia|exact Hx].
Qed.

Theorem dec_tags_any_dir_refused ts tail :
  Exists (fun t => 2 < t_dir t) ts ->
  forall ts', run_payload dec_tags (enc_tags ts tail) <> Ok ts'.
Proof.
  intros Hex ts' H. apply run_payload_ok in H. destruct H as (rest & R).
  unfold dec_tags, enc_tags in R.
  rewrite run_bind, run_word in R. rewrite run_bind, (run_skip 8 (repeat 0 8)) in R by reflexivity.
  rewrite run_bind, run_iterZ in R. unfold zlen in R. rewrite Nat2Z.id in R.
  destruct (run_times (length ts) dec_tag [] (concat (map enc_tag ts) ++ tail)) as [[acc r']|e|s] eqn:T;
    try discriminate.
  eapply run_times_dec_tag_refused; [exact Hex|exact T].
Qed.

(* whatever the layout: a tags chunk that decodes yields directions 0..2 only *)
Theorem dec_tags_dirs data ts :
  run_payload dec_tags data = Ok ts -> Forall (fun t => t_dir t <= 2) ts.
Proof.
  intros H. apply run_payload_ok in H. destruct H as (rest & R). unfold dec_tags in R.
  bind_inv R n r1 H1. bind_inv R u r2 H2. bind_inv R acc r3 H3.
  cbn [run] in R. injection R as <- _.
  rewrite run_iterZ in H3.
  apply Forall_rev.
  apply (run_times_inv (fun (a : list tag) (_ : list Z) => Forall (fun t => t_dir t <= 2) a) dec_tag)
    with (k := Z.to_nat n) (a := []) (bs := r2) (rest := r3); [|constructor|exact H3].
  intros a bs a' rest' Ha T. unfold dec_tag in T.
  bind_inv T from q1 T1. bind_inv T to q2 T2. bind_inv T dir q3 T3. bind_inv T rep q4 T4.
  bind_inv T u5 q5 T5. bind_inv T w6 q6 T6. bind_inv T name q7 T7.
  destruct (Z.ltb_spec 2 dir) as [E|E]; cbn [run] in T; [discriminate|].
  injection T as <- _. constructor; [cbn [t_dir]; exact E|exact Ha].
Qed.

(* ------------------------------------------------------------------ *)
(* colour profile chunk: type (bytes 0..1) and flags (bytes 2..3) *)

Lemma dec_color_profile_fields data :
  run_payload dec_color_profile data = Ok tt ->
  exists ty flags, word_at data 0 = Some ty /\ word_at data 2 = Some flags /\
                   ty <= 2 /\ ty <> 2 /\ Z.land flags 1 = 0.
Proof.
  intros H. apply run_payload_ok in H. destruct H as (rest & R). unfold dec_color_profile in R.
  bind_inv R ty r1 H1. bind_inv R flags r2 H2. bind_inv R g r3 H3. bind_inv R u r4 H4.
  word_inv H1 a1 b1. word_inv H2 a2 b2.
  exists (a1 + 256 * b1), (a2 + 256 * b2). split; [reflexivity|]. split; [reflexivity|].
  destruct (Z.ltb_spec 2 (a1 + 256 * b1)) as [E|E]; [cbn [run] in R; discriminate|].
  unfold bit in R. destruct (Z.eqb_spec (Z.land (a2 + 256 * b2) 1) 0) as [E1|E1]; cbn [negb] in R;
    [|cbn [run] in R; discriminate].
  destruct (Z.eqb_spec (a1 + 256 * b1) 2) as [E2|E2]; [cbn [run] in R; discriminate|].
  repeat split; assumption.
Qed.

(* embedded ICC profile *)
Theorem dec_color_profile_icc_refused data :
  word_at data 0 = Some 2 -> run_payload dec_color_profile data <> Ok tt.
Proof.
  intros Hw H. apply dec_color_profile_fields in H. destruct H as (ty & fl & H0 & _ & _ & Hne & _).
  rewrite Hw in H0. injection H0 as <-. contradiction.
Qed.

(* a profile type the library does not know *)
Theorem dec_color_profile_type_refused data v :
  word_at data 0 = Some v -> 2 < v -> run_payload dec_color_profile data <> Ok tt.
Proof.
  intros Hw Hv H. apply dec_color_profile_fields in H. destruct H as (ty & fl & H0 & _ & Hle & _).
  rewrite Hw in H0. injection H0 as <-. lia.
Qed.

(* the fixed-gamma flag *)
Theorem dec_color_profile_gamma_refused data flags :
  word_at data 2 = Some flags -> Z.testbit flags 0 = true -> run_payload dec_color_profile data <> Ok tt.
Proof.
  intros Hw Hb H. apply dec_color_profile_fields in H. destruct H as (ty & fl & _ & H2 & _ & _ & Hl).
  rewrite Hw in H2. injection H2 as <-. apply land_1_testbit in Hl. rewrite Hl in Hb. discriminate.
Qed.

(* ------------------------------------------------------------------ *)
(* file header: colour depth (bytes 12..13) and pixel ratio (bytes 34, 35) *)

Lemma framing_header_inv bs rh frames rest :
  run framing bs = Ok ((rh, frames), rest) ->
  word_at bs 12 = Some (rh_depth rh) /\
  byte_at bs 34 = Some (rh_pixel_w rh) /\ byte_at bs 35 = Some (rh_pixel_h rh) /\
  negb (rh_pixel_w rh =? 0) && negb (rh_pixel_h rh =? 0)
    && negb ((rh_pixel_w rh =? 1) && (rh_pixel_h rh =? 1)) = false /\
  exists fmt, parse_pixel_format (rh_depth rh) (rh_transparent rh) = Ok fmt.
Proof.
  intros R. unfold framing in R.
  bind_inv R w0 r0 H0. bind_inv R magic r1 H1.
  destruct (negb (magic =? 42464)); [discriminate|].
  bind_inv R num_frames r2 H2. bind_inv R width r3 H3. bind_inv R height r4 H4. bind_inv R depth r5 H5.
  bind_inv R w6 r6 H6. bind_inv R default_time r7 H7. bind_inv R w8 r8 H8. bind_inv R w9 r9 H9.
  bind_inv R transp r10 H10. bind_inv R w11 r11 H11. bind_inv R w12 r12 H12. bind_inv R w13 r13 H13.
  bind_inv R pixel_w r14 H14. bind_inv R pixel_h r15 H15.
  bind_inv R w16 r16 H16. bind_inv R w17 r17 H17. bind_inv R w18 r18 H18. bind_inv R w19 r19 H19.
  bind_inv R w20 r20 H20.
  destruct (negb (pixel_w =? 0) && negb (pixel_h =? 0) && negb ((pixel_w =? 1) && (pixel_h =? 1))) eqn:Ratio;
    [discriminate|].
  bind_inv R fmt r21 H21. bind_inv R acc r22 H22.
  cbn [run] in R. injection R as <- _ _.
  cbn [rh_depth rh_pixel_w rh_pixel_h rh_transparent].
  dword_inv H0 a0 b0 c0 d0. word_inv H1 a1 b1. word_inv H2 a2 b2. word_inv H3 a3 b3. word_inv H4 a4 b4.
  word_inv H5 a5 b5. dword_inv H6 a6 b6 c6 d6. word_inv H7 a7 b7. dword_inv H8 a8 b8 c8 d8.
  dword_inv H9 a9 b9 c9 d9. apply run_byte_inv in H10. subst r9. apply run_byte_inv in H11. subst r10.
  word_inv H12 a12 b12. word_inv H13 a13 b13. apply run_byte_inv in H14. subst r13.
  apply run_byte_inv in H15. subst r14.
  split; [reflexivity|]. split; [reflexivity|]. split; [reflexivity|]. split; [exact Ratio|].
  rewrite run_lift in H21. destruct (parse_pixel_format (a5 + 256 * b5) transp) as [f|e|s]; try discriminate.
  exists f. reflexivity.
Qed.

Theorem framing_pixel_ratio_refused bs pw ph :
  byte_at bs 34 = Some pw -> byte_at bs 35 = Some ph ->
  pw <> 0 -> ph <> 0 -> ~ (pw = 1 /\ ph = 1) ->
  forall x, run framing bs <> Ok x.
Proof.
  intros Hw Hh N0 N1 N2 [[rh frames] rest] R. apply framing_header_inv in R.
  destruct R as (_ & H34 & H35 & Hr & _).
  rewrite Hw in H34. rewrite Hh in H35. injection H34 as E34. injection H35 as E35.
  rewrite <- E34, <- E35 in Hr.
  destruct (Z.eqb_spec pw 0) as [E|_]; [contradiction|].
  destruct (Z.eqb_spec ph 0) as [E|_]; [contradiction|].
  destruct (Z.eqb_spec pw 1) as [E1|_]; destruct (Z.eqb_spec ph 1) as [E2|_]; cbn [negb andb] in Hr;
    try discriminate. apply N2. split; assumption.
Qed.

Theorem framing_color_depth_refused bs d :
  word_at bs 12 = Some d -> d <> 8 -> d <> 16 -> d <> 32 ->
  forall x, run framing bs <> Ok x.
Proof.
  intros Hd N8 N16 N32 [[rh frames] rest] R. apply framing_header_inv in R.
  destruct R as (H12 & _ & _ & _ & fmt & Hf).
  rewrite Hd in H12. injection H12 as E12. rewrite <- E12 in Hf. unfold parse_pixel_format in Hf.
  destruct (Z.eqb_spec d 8) as [E|_]; [contradiction|].
  destruct (Z.eqb_spec d 16) as [E|_]; [contradiction|].
  destruct (Z.eqb_spec d 32) as [E|_]; [contradiction|]. discriminate.
Qed.

(* ------------------------------------------------------------------ *)
(* tileset chunk: id (bytes 0..3), flags (bytes 4..7); bit 1 (mask 2) = pixels embedded *)

Section Tileset.
Variable inflate : list Z -> Z -> zres.

Lemma dec_tileset_fields fmt data t :
  dec_tileset inflate fmt data = Ok t ->
  exists fl, dword_at data 0 = Some (ts_id t) /\ dword_at data 4 = Some fl /\
             (Z.land fl 2 = 0 -> ts_pixels t = None).
Proof.
  intros H. unfold dec_tileset in H.
  apply rbind_ok in H. destruct H as ([[t0 has_pixels] rest] & R & H).
  unfold dec_tileset_hdr in R.
  bind_inv R id r1 H1. bind_inv R flags r2 H2. bind_inv R count r3 H3. bind_inv R tw r4 H4.
  bind_inv R th r5 H5.
  destruct ((tw =? 0) || (th =? 0)); [discriminate|].
  bind_inv R base r6 H6. bind_inv R u r7 H7. bind_inv R name r8 H8. bind_inv R ext r9 H9.
  bind_inv R u10 r10 H10. cbn [run] in R. injection R as <- <- _.
  dword_inv H1 a1 b1 c1 d1. dword_inv H2 a2 b2 c2 d2.
  exists (a2 + 256 * b2 + 65536 * c2 + 16777216 * d2).
  split.
  - destruct (negb (bit (a2 + 256 * b2 + 65536 * c2 + 16777216 * d2) 2)).
    + injection H as <-. reflexivity.
    + destruct (4294967296 <=? _) in H; [discriminate|].
      apply rbind_ok in H. destruct H as (bytes & _ & H).
      apply rbind_ok in H. destruct H as (px & _ & [= <-]). reflexivity.
  - split; [reflexivity|]. intros Hl. unfold bit in H. rewrite Hl in H. cbn [Z.eqb negb] in H.
    injection H as <-. reflexivity.
Qed.

(* a tileset chunk without embedded pixels decodes to a tileset without pixels ... *)
Lemma dec_tileset_external fmt data fl t :
  dword_at data 4 = Some fl -> Z.land fl 2 = 0 ->
  dec_tileset inflate fmt data = Ok t -> ts_pixels t = None.
Proof.
  intros Hfl Hl H. apply dec_tileset_fields in H. destruct H as (fl' & _ & H4 & Hp).
  rewrite Hfl in H4. injection H4 as <-. apply Hp. exact Hl.
Qed.

End Tileset.

(* ... which validation refuses *)
Theorem validate_external_tileset_refused h p id t :
  zfind id (pi_tilesets p) = Some t -> ts_pixels t = None -> forall f, validate h p <> Ok f.
Proof.
  intros Hfind Hpx f H. unfold validate in H; rewrite ?frev_eq in H.
  apply rbind_ok in H. destruct H as (parents & _ & H).
  apply rbind_ok in H. destruct H as (tss & Hts & _).
  unfold validate_tilesets in Hts.
  assert (Forall (fun kv : Z * tileset rawpixels =>
                    exists t', validate_tileset (pi_palette p) (h_fmt h) (snd kv) = Ok t')
                 (zelements (pi_tilesets p))) as Hall.
  { eapply rfold_ok_Forall; [|exact Hts]. intros b x b' Hb.
    apply rbind_ok in Hb. destruct Hb as (t' & Hv & _). exists t'. exact Hv. }
  rewrite Forall_forall in Hall. specialize (Hall _ (In_zelements _ _ _ Hfind)).
  destruct Hall as (t' & Hv). cbn [snd] in Hv. unfold validate_tileset in Hv. rewrite Hpx in Hv. discriminate.
Qed.

(* ------------------------------------------------------------------ *)
(* Part 2: the loader *)

Section Loader.
Variable inflate : list Z -> Z -> zres.

Lemma load_framing_ok bs f : load inflate bs = Ok f -> exists x, run framing bs = Ok x.
Proof.
  intros H. apply load_factor in H. destruct H as (rh & frames & fmt & p & rest & Hf & _).
  eexists. exact Hf.
Qed.

Theorem load_pixel_ratio_refused bs pw ph :
  byte_at bs 34 = Some pw -> byte_at bs 35 = Some ph ->
  pw <> 0 -> ph <> 0 -> ~ (pw = 1 /\ ph = 1) ->
  forall f, load inflate bs <> Ok f.
Proof.
  intros Hw Hh N0 N1 N2 f H. apply load_framing_ok in H. destruct H as (x & Hx).
  exact (framing_pixel_ratio_refused bs pw ph Hw Hh N0 N1 N2 x Hx).
Qed.

Theorem load_color_depth_refused bs d :
  word_at bs 12 = Some d -> d <> 8 -> d <> 16 -> d <> 32 ->
  forall f, load inflate bs <> Ok f.
Proof.
  intros Hd N8 N16 N32 f H. apply load_framing_ok in H. destruct H as (x & Hx).
  exact (framing_color_depth_refused bs d Hd N8 N16 N32 x Hx).
Qed.

(* a chunk that no pixel format accepts makes the load fail, wherever framing finds it *)
Lemma load_chunk_refused bs rh frames rest dur chunks ch :
  run framing bs = Ok ((rh, frames), rest) -> In (dur, chunks) frames -> In ch chunks ->
  (forall fmt, ~ chunk_accepted inflate fmt ch) ->
  forall f, load inflate bs <> Ok f.
Proof.
  intros Hf Hin1 Hin2 Hno f H.
  destruct (load_ok_chunk inflate bs f rh frames rest dur chunks ch H Hf Hin1 Hin2) as (fmt & _ & Hacc).
  exact (Hno fmt Hacc).
Qed.

(* projections of chunk_accepted *)
Lemma accepted_profile fmt data : chunk_accepted inflate fmt (8199, data) -> run_payload dec_color_profile data = Ok tt.
Proof. intros (H & _). apply H. reflexivity. Qed.
Lemma accepted_layer fmt data : chunk_accepted inflate fmt (8196, data) -> exists l, run_payload dec_layer data = Ok l.
Proof. intros (_ & _ & H & _). apply H. reflexivity. Qed.
Lemma accepted_cel fmt data : chunk_accepted inflate fmt (8197, data) -> exists c, dec_cel inflate fmt data = Ok c.
Proof. intros (_ & _ & _ & H & _). apply H. reflexivity. Qed.
Lemma accepted_tags fmt data : chunk_accepted inflate fmt (8216, data) -> exists ts, run_payload dec_tags data = Ok ts.
Proof. intros (_ & _ & _ & _ & _ & H & _). apply H. reflexivity. Qed.
Lemma accepted_tileset fmt data : chunk_accepted inflate fmt (8227, data) -> exists t, dec_tileset inflate fmt data = Ok t.
Proof. intros (_ & _ & _ & _ & _ & _ & _ & _ & H). apply H. reflexivity. Qed.

Section Visited.
Variables (bs : list Z) (rh : rawheader) (frames : list rawframe) (rest : list Z).
Hypothesis Hframing : run framing bs = Ok ((rh, frames), rest).
Variables (dur : Z) (chunks : list rawchunk).
Hypothesis Hframe : In (dur, chunks) frames.

Theorem load_layer_type_refused data v :
  In (8196, data) chunks -> word_at data 2 = Some v -> 2 < v -> forall f, load inflate bs <> Ok f.
Proof.
  intros Hin Hw Hv. eapply load_chunk_refused; [exact Hframing|exact Hframe|exact Hin|].
  intros fmt Hacc. apply accepted_layer in Hacc. destruct Hacc as (l & Hl).
  exact (dec_layer_type_refused data v Hw Hv l Hl).
Qed.

Theorem load_blend_mode_refused data v :
  In (8196, data) chunks -> word_at data 10 = Some v -> 18 < v -> forall f, load inflate bs <> Ok f.
Proof.
  intros Hin Hw Hv. eapply load_chunk_refused; [exact Hframing|exact Hframe|exact Hin|].
  intros fmt Hacc. apply accepted_layer in Hacc. destruct Hacc as (l & Hl).
  exact (dec_layer_blend_refused data v Hw Hv l Hl).
Qed.

Theorem load_cel_type_refused data v :
  In (8197, data) chunks -> word_at data 7 = Some v -> 3 < v -> forall f, load inflate bs <> Ok f.
Proof.
  intros Hin Hw Hv. eapply load_chunk_refused; [exact Hframing|exact Hframe|exact Hin|].
  intros fmt Hacc. apply accepted_cel in Hacc. destruct Hacc as (c & Hc).
  exact (dec_cel_type_refused inflate fmt data v Hw Hv c Hc).
Qed.

Theorem load_bits_per_tile_refused data bits :
  In (8197, data) chunks -> word_at data 7 = Some 3 -> word_at data 20 = Some bits -> bits <> 32 ->
  forall f, load inflate bs <> Ok f.
Proof.
  intros Hin Hw Hb Hne. eapply load_chunk_refused; [exact Hframing|exact Hframe|exact Hin|].
  intros fmt Hacc. apply accepted_cel in Hacc. destruct Hacc as (c & Hc).
  exact (dec_cel_bits_per_tile_refused inflate fmt data bits Hw Hb Hne c Hc).
Qed.

(* the direction byte of the first tag (byte 14), or of any tag of an encoder-laid-out payload *)
Definition tags_bad_direction (data : list Z) : Prop :=
  (exists n d, word_at data 0 = Some n /\ 0 < n /\ byte_at data 14 = Some d /\ 2 < d) \/
  (exists ts tail, data = enc_tags ts tail /\ Exists (fun t => 2 < t_dir t) ts).

Theorem load_anim_direction_refused data :
  In (8216, data) chunks -> tags_bad_direction data -> forall f, load inflate bs <> Ok f.
Proof.
  intros Hin Hbad. eapply load_chunk_refused; [exact Hframing|exact Hframe|exact Hin|].
  intros fmt Hacc. apply accepted_tags in Hacc. destruct Hacc as (ts' & Hts).
  destruct Hbad as [(n & d & Hn & Hpos & Hd & Hgt)|(ts & tail & -> & Hex)].
  - exact (dec_tags_first_dir_refused data n d Hn Hpos Hd Hgt ts' Hts).
  - exact (dec_tags_any_dir_refused ts tail Hex ts' Hts).
Qed.

Theorem load_icc_profile_refused data :
  In (8199, data) chunks -> word_at data 0 = Some 2 -> forall f, load inflate bs <> Ok f.
Proof.
  intros Hin Hw. eapply load_chunk_refused; [exact Hframing|exact Hframe|exact Hin|].
  intros fmt Hacc. apply accepted_profile in Hacc. exact (dec_color_profile_icc_refused data Hw Hacc).
Qed.

Theorem load_profile_type_refused data v :
  In (8199, data) chunks -> word_at data 0 = Some v -> 2 < v -> forall f, load inflate bs <> Ok f.
Proof.
  intros Hin Hw Hv. eapply load_chunk_refused; [exact Hframing|exact Hframe|exact Hin|].
  intros fmt Hacc. apply accepted_profile in Hacc. exact (dec_color_profile_type_refused data v Hw Hv Hacc).
Qed.

Theorem load_fixed_gamma_refused data flags :
  In (8199, data) chunks -> word_at data 2 = Some flags -> Z.testbit flags 0 = true ->
  forall f, load inflate bs <> Ok f.
Proof.
  intros Hin Hw Hb. eapply load_chunk_refused; [exact Hframing|exact Hframe|exact Hin|].
  intros fmt Hacc. apply accepted_profile in Hacc. exact (dec_color_profile_gamma_refused data flags Hw Hb Hacc).
Qed.

End Visited.
End Loader.

(* ------------------------------------------------------------------ *)
(* a tileset whose pixels are not embedded: the last tileset chunk for its id decides *)

From Ase Require Import Proofs.ArrLemmas.

Lemma add_cel_tilesets p fid c p' : add_cel p fid c = Ok p' -> pi_tilesets p' = pi_tilesets p.
Proof.
  unfold add_cel. destruct (pi_nlayers p <=? cc_layer (c_data c)); [discriminate|].
  destruct (table_add_cel (pi_cels p) (pi_nframes p) fid c) as [t|e|s]; cbn [rbind]; try discriminate.
  intros [= <-]. reflexivity.
Qed.

Lemma add_user_data_tilesets p u p' : add_user_data p u = Ok p' -> pi_tilesets p' = pi_tilesets p.
Proof.
  unfold add_user_data. destruct (pi_ctx p) as [[f l|i| |i|i]|]; try discriminate.
  - destruct (table_set_cel_ud (pi_cels p) f l u); [|discriminate]. intros [= <-]. reflexivity.
  - destruct (upd_rev (pi_layers_rev p) (pi_nlayers p) i (fun l => set_layer_ud l u)); [|discriminate].
    intros [= <-]. reflexivity.
  - intros [= <-]. reflexivity.
  - destruct (pi_tags p) as [ts|]; [|discriminate]. destruct (nthz ts i); [|discriminate].
    destruct (65535 <=? i); [discriminate|]. intros [= <-]. reflexivity.
  - destruct (upd_rev (pi_slices_rev p) (pi_nslices p) i (fun s => set_slice_ud s u)); [|discriminate].
    intros [= <-]. reflexivity.
Qed.

Section ExternalTileset.
Variable inflate : list Z -> Z -> zres.

Ltac ok_case r := destruct r; cbn [rbind]; try discriminate.

Lemma process_chunk_tilesets fmt fid p ty data p' :
  process_chunk inflate fmt fid p (ty, data) = Ok p' ->
  (ty = 8227 /\ exists t, dec_tileset inflate fmt data = Ok t /\
                          pi_tilesets p' = zadd (ts_id t) t (pi_tilesets p))
  \/ (ty <> 8227 /\ pi_tilesets p' = pi_tilesets p).
Proof.
  unfold process_chunk.
  destruct (Z.eqb_spec ty 8199) as [->|N1].
  { ok_case (run_payload dec_color_profile data). intros [= <-]. right. split; [lia|reflexivity]. }
  destruct (Z.eqb_spec ty 8217) as [->|N2].
  { ok_case (run_payload dec_palette data). intros [= <-]. right. split; [lia|reflexivity]. }
  destruct (Z.eqb_spec ty 8196) as [->|N3].
  { ok_case (run_payload dec_layer data). intros [= <-]. right. split; [lia|reflexivity]. }
  destruct (Z.eqb_spec ty 8197) as [->|N4].
  { ok_case (dec_cel inflate fmt data). intros H. right. split; [lia|eapply add_cel_tilesets; exact H]. }
  destruct (Z.eqb_spec ty 8200) as [->|N5].
  { ok_case (run_payload dec_external data). intros [= <-]. right. split; [lia|reflexivity]. }
  destruct (Z.eqb_spec ty 8216) as [->|N6].
  { ok_case (run_payload dec_tags data). intros [= <-]. right. split; [lia|destruct (fid =? 0); reflexivity]. }
  destruct (Z.eqb_spec ty 8226) as [->|N7].
  { ok_case (run_payload dec_slice data). intros [= <-]. right. split; [lia|reflexivity]. }
  destruct (Z.eqb_spec ty 8224) as [->|N8].
  { ok_case (run_payload dec_userdata data). intros H. right. split; [lia|eapply add_user_data_tilesets; exact H]. }
  destruct ((ty =? 4) || (ty =? 17)) eqn:E4.
  { assert (ty <> 8227) as N by (intros ->; discriminate E4).
    destruct (pi_palette (with_ctx p (Some UOldPalette))).
    - intros [= <-]. right. split; [exact N|reflexivity].
    - ok_case (run_payload (dec_old_palette (ty =? 17)) data). intros [= <-]. right. split; [exact N|reflexivity]. }
  destruct (Z.eqb_spec ty 8227) as [->|N9].
  { destruct (dec_tileset inflate fmt data) as [t|e|s] eqn:D; cbn [rbind]; try discriminate.
    intros [= <-]. left. split; [reflexivity|]. exists t. split; reflexivity. }
  intros [= <-]. right. split; [exact N9|reflexivity].
Qed.

(* chs contains a tileset chunk for `id` without embedded pixels, and no later tileset chunk
   replaces it *)
Definition last_external_tileset (id : Z) (chs : list rawchunk) : Prop :=
  exists pre data post fl,
    chs = pre ++ (8227, data) :: post /\
    dword_at data 0 = Some id /\ dword_at data 4 = Some fl /\ Z.land fl 2 = 0 /\
    forall data' id', In (8227, data') post -> dword_at data' 0 = Some id' -> 0 <= id' /\ id' <> id.

Lemma assemble_external_tileset fmt n d frames p id :
  0 <= id ->
  assemble inflate fmt n d frames = Ok p ->
  last_external_tileset id (all_chunks frames) ->
  exists t, zfind id (pi_tilesets p) = Some t /\ ts_pixels t = None.
Proof.
  intros Hid H.
  apply (assemble_hist inflate
           (fun done q => last_external_tileset id done ->
                          exists t, zfind id (pi_tilesets q) = Some t /\ ts_pixels t = None) fmt n d)
    with (frames := frames) (p := p); [| | |exact H].
  - intros done q v HK. exact HK.
  - intros done q fid [ty data] q' HK Hs (pre & data0 & post & fl & Hsplit & H0 & H4 & Hl & Hpost).
    apply process_chunk_tilesets in Hs.
    destruct post as [|x post0 _] using rev_ind.
    + apply app_inj_tail in Hsplit. destruct Hsplit as (-> & [= -> ->]).
      destruct Hs as [(_ & t & Hd & Hts)|(N & _)]; [|contradiction].
      pose proof (dec_tileset_fields inflate fmt data0 t Hd) as (fl' & Hid0 & Hfl & Hpx).
      rewrite H0 in Hid0. injection Hid0 as Hid0. rewrite H4 in Hfl. injection Hfl as <-.
      exists t. split; [|apply Hpx; exact Hl].
      rewrite Hts, <- Hid0, zfind_zadd_nonneg, Z.eqb_refl by lia. reflexivity.
    + replace (pre ++ (8227, data0) :: post0 ++ [x]) with ((pre ++ (8227, data0) :: post0) ++ [x]) in Hsplit
        by (rewrite <- app_assoc; reflexivity).
      apply app_inj_tail in Hsplit. destruct Hsplit as (-> & <-).
      destruct HK as (t & Hfind & Hpx).
      { exists pre, data0, post0, fl. split; [reflexivity|]. split; [exact H0|]. split; [exact H4|].
        split; [exact Hl|]. intros data' id' Hin. apply (Hpost data' id'). apply in_or_app. left. exact Hin. }
      exists t. split; [|exact Hpx].
      destruct Hs as [(-> & t' & Hd & Hts)|(_ & Hts)]; [|rewrite Hts; exact Hfind].
      pose proof (dec_tileset_fields inflate fmt data t' Hd) as (fl' & Hid' & _).
      destruct (Hpost data (ts_id t')) as (Hnn & Hne); [apply in_or_app; right; left; reflexivity|exact Hid'|].
      rewrite Hts, zfind_zadd_nonneg by lia.
      destruct (Z.eqb_spec id (ts_id t')) as [E|_]; [congruence|exact Hfind].
  - intros (pre & data0 & post & fl & Hsplit & _). destruct pre; discriminate.
Qed.

Theorem load_external_tileset_refused bs rh frames rest id :
  run framing bs = Ok ((rh, frames), rest) ->
  0 <= id -> last_external_tileset id (all_chunks frames) ->
  forall f, load inflate bs <> Ok f.
Proof.
  intros Hf Hid Hlast f H. apply load_factor in H.
  destruct H as (rh' & frames' & fmt & p & rest' & Hf' & _ & Ha & Hv).
  rewrite Hf in Hf'. injection Hf' as <- <- <-.
  destruct (assemble_external_tileset fmt _ _ _ _ id Hid Ha Hlast) as (t & Hfind & Hpx).
  exact (validate_external_tileset_refused _ _ _ _ Hfind Hpx f Hv).
Qed.

End ExternalTileset.

(* ------------------------------------------------------------------ *)
(* non-vacuity: one small file per feature; the hypotheses of each theorem are met, and the
   model's outcome (computed) is the error the theorem predicts *)

Definition file_of (pw ph depth : Z) (chunks : list rawchunk) : list Z :=
  mk_header 1 1 1 depth pw ph ++ mk_frame 70 (map (fun c => mk_chunk (fst c) (snd c)) chunks).

Definition tilemap_cel_payload (bits : Z) : list Z :=
  e_word 0 ++ e_short 0 ++ e_short 0 ++ [255] ++ e_word 3 ++ repeat 0 7 ++
  e_word 1 ++ e_word 1 ++ e_word bits ++ e_dword 8191 ++ e_dword 0 ++ e_dword 0 ++ e_dword 0 ++ repeat 0 10.
Definition profile_payload (ty flags : Z) : list Z := e_word ty ++ e_word flags ++ e_dword 0 ++ repeat 0 8.
Definition demo_tag (dir : Z) : tag :=
  {| t_name := [65]; t_from := 0; t_to := 0; t_repeat := 0; t_dir := dir; t_ud := None |}.
(* tileset 0: flags = 1 (link to an external file), no embedded pixels *)
Definition ext_tileset_payload : list Z :=
  e_dword 0 ++ e_dword 1 ++ e_dword 1 ++ e_word 1 ++ e_word 1 ++ e_short 1 ++ repeat 0 14 ++ e_str [84] ++
  e_dword 7 ++ e_dword 0.

Ltac framing_by_compute := vm_compute; reflexivity.

Example ex_good : is_ok (load no_inflate (file_of 1 1 32 [(8196, layer_payload 0 0); (8197, cel_payload 0)])) = true.
Proof. vm_compute. reflexivity. Qed.

Example ex_pixel_ratio : forall f, load no_inflate (file_of 2 1 32 []) <> Ok f.
Proof. apply (load_pixel_ratio_refused no_inflate _ 2 1); try reflexivity; lia. Qed.
Example ex_pixel_ratio_val : load no_inflate (file_of 2 1 32 []) = Err EUnsupported.
Proof. vm_compute. reflexivity. Qed.
(* a zero component is not refused (the library treats it as 1:1) *)
Example ex_pixel_ratio_zero : is_ok (load no_inflate (file_of 0 3 32 [])) = true.
Proof. vm_compute. reflexivity. Qed.

Example ex_color_depth : forall f, load no_inflate (file_of 1 1 24 []) <> Ok f.
Proof. apply (load_color_depth_refused no_inflate _ 24); try reflexivity; lia. Qed.
Example ex_color_depth_val : load no_inflate (file_of 1 1 24 []) = Err EInvalid.
Proof. vm_compute. reflexivity. Qed.

Example ex_layer_type : forall f, load no_inflate (file_of 1 1 32 [(8196, layer_payload 3 0)]) <> Ok f.
Proof.
  eapply (load_layer_type_refused no_inflate) with (data := layer_payload 3 0) (v := 3);
    [framing_by_compute|left; reflexivity|left; reflexivity|reflexivity|lia].
Qed.
Example ex_layer_type_val : load no_inflate (file_of 1 1 32 [(8196, layer_payload 3 0)]) = Err EInvalid.
Proof. vm_compute. reflexivity. Qed.

Example ex_blend_mode : forall f, load no_inflate (file_of 1 1 32 [(8196, layer_payload 0 19)]) <> Ok f.
Proof.
  eapply (load_blend_mode_refused no_inflate) with (data := layer_payload 0 19) (v := 19);
    [framing_by_compute|left; reflexivity|left; reflexivity|reflexivity|lia].
Qed.
Example ex_blend_mode_val : load no_inflate (file_of 1 1 32 [(8196, layer_payload 0 19)]) = Err EInvalid.
Proof. vm_compute. reflexivity. Qed.
Example ex_blend_mode_18_ok : is_ok (load no_inflate (file_of 1 1 32 [(8196, layer_payload 0 18)])) = true.
Proof. vm_compute. reflexivity. Qed.

Example ex_cel_type :
  forall f, load no_inflate (file_of 1 1 32 [(8196, layer_payload 0 0); (8197, cel_payload 4)]) <> Ok f.
Proof.
  eapply (load_cel_type_refused no_inflate) with (data := cel_payload 4) (v := 4);
    [framing_by_compute|left; reflexivity|right; left; reflexivity|reflexivity|lia].
Qed.
Example ex_cel_type_val :
  load no_inflate (file_of 1 1 32 [(8196, layer_payload 0 0); (8197, cel_payload 4)]) = Err EInvalid.
Proof. vm_compute. reflexivity. Qed.

Example ex_bits_per_tile :
  forall f, load no_inflate (file_of 1 1 32 [(8196, layer_payload 0 0); (8197, tilemap_cel_payload 16)]) <> Ok f.
Proof.
  eapply (load_bits_per_tile_refused no_inflate) with (data := tilemap_cel_payload 16) (bits := 16);
    [framing_by_compute|left; reflexivity|right; left; reflexivity|reflexivity|reflexivity|lia].
Qed.
Example ex_bits_per_tile_val :
  load no_inflate (file_of 1 1 32 [(8196, layer_payload 0 0); (8197, tilemap_cel_payload 16)]) = Err EUnsupported.
Proof. vm_compute. reflexivity. Qed.

(* second tag of two has direction 3: the encoder-layout form *)
Example ex_anim_direction :
  forall f, load no_inflate (file_of 1 1 32 [(8216, enc_tags [demo_tag 1; demo_tag 3] [])]) <> Ok f.
Proof.
  eapply (load_anim_direction_refused no_inflate) with (data := enc_tags [demo_tag 1; demo_tag 3] []);
    [framing_by_compute|left; reflexivity|left; reflexivity|].
  right. exists [demo_tag 1; demo_tag 3], []. split; [reflexivity|].
  apply Exists_cons_tl. apply Exists_cons_hd. cbn [demo_tag t_dir]. lia.
Qed.
(* first tag has direction 3: the positional form *)
Example ex_anim_direction_first :
  forall f, load no_inflate (file_of 1 1 32 [(8216, enc_tags [demo_tag 3] [])]) <> Ok f.
Proof.
  eapply (load_anim_direction_refused no_inflate) with (data := enc_tags [demo_tag 3] []);
    [framing_by_compute|left; reflexivity|left; reflexivity|].
  left. exists 1, 3. repeat split; lia.
Qed.
Example ex_anim_direction_val :
  load no_inflate (file_of 1 1 32 [(8216, enc_tags [demo_tag 1; demo_tag 3] [])]) = Err EInvalid.
Proof. vm_compute. reflexivity. Qed.
Example ex_anim_direction_2_ok :
  is_ok (load no_inflate (file_of 1 1 32 [(8216, enc_tags [demo_tag 1; demo_tag 2] [])])) = true.
Proof. vm_compute. reflexivity. Qed.

Example ex_icc_profile : forall f, load no_inflate (file_of 1 1 32 [(8199, profile_payload 2 0)]) <> Ok f.
Proof.
  eapply (load_icc_profile_refused no_inflate) with (data := profile_payload 2 0);
    [framing_by_compute|left; reflexivity|left; reflexivity|reflexivity].
Qed.
Example ex_profile_type : forall f, load no_inflate (file_of 1 1 32 [(8199, profile_payload 5 0)]) <> Ok f.
Proof.
  eapply (load_profile_type_refused no_inflate) with (data := profile_payload 5 0) (v := 5);
    [framing_by_compute|left; reflexivity|left; reflexivity|reflexivity|lia].
Qed.
Example ex_fixed_gamma : forall f, load no_inflate (file_of 1 1 32 [(8199, profile_payload 1 1)]) <> Ok f.
Proof.
  eapply (load_fixed_gamma_refused no_inflate) with (data := profile_payload 1 1) (flags := 1);
    [framing_by_compute|left; reflexivity|left; reflexivity|reflexivity|reflexivity].
Qed.
Example ex_profile_val :
  map (fun pf => load no_inflate (file_of 1 1 32 [(8199, pf)]))
      [profile_payload 2 0; profile_payload 5 0; profile_payload 1 1]
  = [Err EUnsupported; Err EUnsupported; Err EUnsupported].
Proof. vm_compute. reflexivity. Qed.
Example ex_profile_srgb_ok : is_ok (load no_inflate (file_of 1 1 32 [(8199, profile_payload 1 0)])) = true.
Proof. vm_compute. reflexivity. Qed.

Example ex_external_tileset :
  forall f, load no_inflate (file_of 1 1 32 [(8227, ext_tileset_payload); (8196, layer_payload 0 0)]) <> Ok f.
Proof.
  eapply (load_external_tileset_refused no_inflate) with (id := 0); [framing_by_compute|lia|].
  exists [], ext_tileset_payload, [(8196, layer_payload 0 0)], 1.
  split; [reflexivity|]. split; [reflexivity|]. split; [reflexivity|]. split; [reflexivity|].
  intros data' id' [Hin|[]]. discriminate Hin.
Qed.
Example ex_external_tileset_val :
  load no_inflate (file_of 1 1 32 [(8227, ext_tileset_payload); (8196, layer_payload 0 0)]) = Err EUnsupported.
Proof. vm_compute. reflexivity. Qed.
