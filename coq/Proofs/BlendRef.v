(* C03: the model of src/blend.rs (Model/Blend.v) computes exactly what the transcription of
   Aseprite's blend_funcs.cpp (Spec/AseRef.v) computes on packed 32-bit colours.
   Integer modes and Normal: unconditional.  Soft light: by the 65 536-point sweep of the
   channel function.  HSL: under the computable guard `hsl_guard` (the float cores agree on
   this input); the full statement is `goal_C03_hsl`. *)
From Ase Require Import Base.Prelude Model.Blend Proofs.BlendArith Proofs.BlendLaws.
From Ase Require Spec.AseRef.
From Coq Require Import Floats.

(* ------------------------------------------------------------------ *)
(* bit-level facts: packing and unpacking of byte channels *)

Lemma land_shiftl_disjoint x y k : 0 <= k -> 0 <= x < 2 ^ k -> Z.land x (Z.shiftl y k) = 0.
Proof.
  intros Hk Hx. apply Z.bits_inj'. intros n Hn. rewrite Z.land_spec, Z.bits_0.
  destruct (Z.lt_ge_cases n k) as [L|L].
  - rewrite Z.shiftl_spec_low by lia. apply andb_false_r.
  - rewrite <- (Z.mod_small x (2 ^ k)) by lia. rewrite Z.mod_pow2_bits_high by lia. reflexivity.
Qed.

Lemma lor_shiftl_add x y k : 0 <= k -> 0 <= x < 2 ^ k -> Z.lor x (Z.shiftl y k) = x + y * 2 ^ k.
Proof.
  intros Hk Hx. pose proof (land_shiftl_disjoint x y k Hk Hx) as D.
  rewrite <- Z.shiftl_mul_pow2 by lia.
  rewrite (Z.add_nocarry_lxor _ _ D). symmetry. apply Z.lxor_lor. exact D.
Qed.

Lemma to_u8_byte z : is_byte (AseRef.to_u8 z).
Proof. exact (as_u8_byte z). Qed.
Lemma to_u8_small z : is_byte z -> AseRef.to_u8 z = z.
Proof. exact (as_u8_small z). Qed.

(* the value of a packed colour *)
Definition packv (r g b a : Z) : Z := r + 256 * g + 65536 * b + 16777216 * a.

Lemma rgba_val r g b a : is_byte r -> is_byte g -> is_byte b -> is_byte a ->
  AseRef.rgba r g b a = packv r g b a.
Proof.
  unfold is_byte. intros Hr Hg Hb Ha. unfold AseRef.rgba. cbv zeta.
  rewrite !to_u8_small by assumption.
  unfold AseRef.rgba_r_shift, AseRef.rgba_g_shift, AseRef.rgba_b_shift, AseRef.rgba_a_shift.
  rewrite Z.shiftl_0_r.
  rewrite (lor_shiftl_add r g 8) by lia.
  rewrite (lor_shiftl_add (r + g * 2 ^ 8) b 16) by lia.
  rewrite (lor_shiftl_add (r + g * 2 ^ 8 + b * 2 ^ 16) a 24) by lia.
  unfold AseRef.to_u32, packv. rewrite Z.mod_small by lia. lia.
Qed.

Lemma packv_range r g b a : is_byte r -> is_byte g -> is_byte b -> is_byte a ->
  0 <= packv r g b a < 4294967296.
Proof. unfold is_byte, packv. lia. Qed.

Ltac Zify.zify_post_hook ::= Z.div_mod_to_equations.
Lemma get_packv r g b a : is_byte r -> is_byte g -> is_byte b -> is_byte a ->
  AseRef.rgba_getr (packv r g b a) = r /\ AseRef.rgba_getg (packv r g b a) = g /\
  AseRef.rgba_getb (packv r g b a) = b /\ AseRef.rgba_geta (packv r g b a) = a.
Proof.
  unfold is_byte. intros Hr Hg Hb Ha.
  unfold AseRef.rgba_getr, AseRef.rgba_getg, AseRef.rgba_getb, AseRef.rgba_geta.
  unfold AseRef.rgba_r_shift, AseRef.rgba_g_shift, AseRef.rgba_b_shift, AseRef.rgba_a_shift.
  change 255 with (Z.ones 8). rewrite !Z.land_ones by lia. rewrite !Z.shiftr_div_pow2 by lia.
  unfold AseRef.to_u8, packv. change (2 ^ 0) with 1. change (2 ^ 8) with 256.
  change (2 ^ 16) with 65536. change (2 ^ 24) with 16777216.
  repeat split; lia.
Qed.
Ltac Zify.zify_post_hook ::= idtac.

Lemma packv_split r g b a : packv r g b a = (r + 256 * g + 65536 * b) + a * 2 ^ 24.
Proof. unfold packv. change (2 ^ 24) with 16777216. ring. Qed.

Lemma land_a_mask r g b a : is_byte r -> is_byte g -> is_byte b -> is_byte a ->
  Z.land (packv r g b a) AseRef.rgba_a_mask = a * 2 ^ 24.
Proof.
  unfold is_byte. intros Hr Hg Hb Ha. rewrite packv_split.
  set (low := r + 256 * g + 65536 * b).
  assert (Hlow : 0 <= low < 2 ^ 24) by (change (2 ^ 24) with 16777216; unfold low; lia).
  rewrite <- (lor_shiftl_add low a 24) by lia.
  change AseRef.rgba_a_mask with (Z.shiftl 255 24).
  rewrite Z.land_lor_distr_l.
  rewrite (land_shiftl_disjoint low 255 24) by lia.
  rewrite <- Z.shiftl_land. change 255 with (Z.ones 8). rewrite Z.land_ones by lia.
  rewrite Z.mod_small by (change (2 ^ 8) with 256; lia).
  rewrite Z.lor_0_l. apply Z.shiftl_mul_pow2. lia.
Qed.

Ltac Zify.zify_post_hook ::= Z.div_mod_to_equations.
Lemma land_rgb_mask r g b a : is_byte r -> is_byte g -> is_byte b -> is_byte a ->
  Z.land (packv r g b a) AseRef.rgba_rgb_mask = r + 256 * g + 65536 * b.
Proof.
  unfold is_byte. intros Hr Hg Hb Ha.
  change AseRef.rgba_rgb_mask with (Z.ones 24). rewrite Z.land_ones by lia.
  unfold packv. change (2 ^ 24) with 16777216. lia.
Qed.
Ltac Zify.zify_post_hook ::= idtac.

(* low 24 bits | (a << 24) *)
Lemma lor_low_alpha r g b a : is_byte r -> is_byte g -> is_byte b ->
  Z.lor (r + 256 * g + 65536 * b) (a * 2 ^ 24) = packv r g b a.
Proof.
  unfold is_byte. intros Hr Hg Hb. rewrite packv_split.
  rewrite <- (Z.shiftl_mul_pow2 a 24) by lia.
  rewrite lor_shiftl_add by (change (2 ^ 24) with 16777216; lia).
  rewrite Z.shiftl_mul_pow2 by lia. reflexivity.
Qed.

(* ------------------------------------------------------------------ *)
(* pixels <-> packed colours *)

Definition pack (p : pixel) : AseRef.color_t := let '(r, g, b, a) := p in AseRef.rgba r g b a.
Definition unpack (c : AseRef.color_t) : pixel :=
  (AseRef.rgba_getr c, AseRef.rgba_getg c, AseRef.rgba_getb c, AseRef.rgba_geta c).

Lemma unpack_pack p : pix_wf p -> unpack (pack p) = p.
Proof.
  destruct p as [[[r g] b] a]. cbn [pix_wf pack]. intros (Hr & Hg & Hb & Ha).
  rewrite rgba_val by assumption.
  destruct (get_packv r g b a Hr Hg Hb Ha) as (E1 & E2 & E3 & E4).
  unfold unpack. rewrite E1, E2, E3, E4. reflexivity.
Qed.

Lemma pack_inj p q : pix_wf p -> pix_wf q -> pack p = pack q -> p = q.
Proof. intros Hp Hq E. rewrite <- (unpack_pack p Hp), <- (unpack_pack q Hq), E. reflexivity. Qed.

Section Getters.
  Variables r g b a : Z.
  Hypotheses (Hr : is_byte r) (Hg : is_byte g) (Hb : is_byte b) (Ha : is_byte a).
  Lemma getr_rgba : AseRef.rgba_getr (AseRef.rgba r g b a) = r.
  Proof. rewrite rgba_val by assumption. exact (proj1 (get_packv r g b a Hr Hg Hb Ha)). Qed.
  Lemma getg_rgba : AseRef.rgba_getg (AseRef.rgba r g b a) = g.
  Proof. rewrite rgba_val by assumption. exact (proj1 (proj2 (get_packv r g b a Hr Hg Hb Ha))). Qed.
  Lemma getb_rgba : AseRef.rgba_getb (AseRef.rgba r g b a) = b.
  Proof. rewrite rgba_val by assumption. exact (proj1 (proj2 (proj2 (get_packv r g b a Hr Hg Hb Ha)))). Qed.
  Lemma geta_rgba : AseRef.rgba_geta (AseRef.rgba r g b a) = a.
  Proof. rewrite rgba_val by assumption. exact (proj2 (proj2 (proj2 (get_packv r g b a Hr Hg Hb Ha)))). Qed.

  (* backdrop & rgba_a_mask *)
  Lemma a_mask_test : (Z.land (AseRef.rgba r g b a) AseRef.rgba_a_mask =? 0) = (a =? 0).
  Proof.
    rewrite rgba_val by assumption. rewrite land_a_mask by assumption.
    change (2 ^ 24) with 16777216.
    destruct (Z.eqb_spec a 0) as [->|E]; [reflexivity|].
    apply Z.eqb_neq. unfold is_byte in Ha. lia.
  Qed.

  (* src = rgba(r', g', b', 0) | (src & rgba_a_mask) *)
  Lemma replace_rgb_rgba r' g' b' :
    AseRef.replace_rgb r' g' b' (AseRef.rgba r g b a) =
    AseRef.rgba (AseRef.to_u8 r') (AseRef.to_u8 g') (AseRef.to_u8 b') a.
  Proof.
    unfold AseRef.replace_rgb.
    rewrite (rgba_val r g b a) by assumption. rewrite land_a_mask by assumption.
    assert (E : AseRef.rgba r' g' b' 0 = AseRef.rgba (AseRef.to_u8 r') (AseRef.to_u8 g') (AseRef.to_u8 b') 0).
    { unfold AseRef.rgba. cbv zeta. rewrite !(to_u8_small (AseRef.to_u8 _)) by apply to_u8_byte.
      reflexivity. }
    rewrite E.
    assert (Z0 : is_byte 0) by (unfold is_byte; lia).
    rewrite !rgba_val by auto using to_u8_byte.
    unfold packv at 1. rewrite Z.mul_0_r, Z.add_0_r.
    apply lor_low_alpha; apply to_u8_byte.
  Qed.

  (* (src & rgba_rgb_mask) | (a' << rgba_a_shift) *)
  Lemma set_alpha_rgba a' : is_byte a' ->
    Z.lor (Z.land (AseRef.rgba r g b a) AseRef.rgba_rgb_mask)
          (AseRef.to_u32 (Z.shiftl a' AseRef.rgba_a_shift)) = AseRef.rgba r g b a'.
  Proof.
    intros Ha'. rewrite (rgba_val r g b a) by assumption. rewrite land_rgb_mask by assumption.
    unfold AseRef.rgba_a_shift. rewrite Z.shiftl_mul_pow2 by lia.
    unfold AseRef.to_u32. rewrite Z.mod_small
      by (change (2 ^ 24) with 16777216; unfold is_byte in Ha'; lia).
    rewrite lor_low_alpha by assumption. symmetry. apply rgba_val; assumption.
  Qed.
End Getters.

(* ------------------------------------------------------------------ *)
(* the C macros against the Rust helpers *)

Lemma to_u16_small z : 0 <= z < 65536 -> AseRef.to_u16 z = z.
Proof. intros H. unfold AseRef.to_u16. apply Z.mod_small. exact H. Qed.

Lemma MUL_UN8_raw a o : 0 <= o < 65536 -> AseRef.MUL_UN8 a o = mul_raw a o.
Proof. intros Ho. unfold AseRef.MUL_UN8. rewrite to_u16_small by exact Ho. reflexivity. Qed.

Lemma MUL_UN8_bytes a o : is_byte a -> is_byte o -> AseRef.MUL_UN8 a o = mul_un8 a o.
Proof.
  intros Ha Ho. rewrite MUL_UN8_raw by (unfold is_byte in Ho; lia).
  symmetry. apply mul_un8_eq_raw; assumption.
Qed.

(* Ba + MUL_UN8(Sa - Ba, opacity): already a byte, equal to blend8 *)
Lemma MUL_UN8_blend8 back src o : is_byte back -> is_byte src -> is_byte o ->
  back + AseRef.MUL_UN8 (src - back) o = blend8 back src o.
Proof.
  intros Hb Hs Ho. rewrite MUL_UN8_raw by (unfold is_byte in Ho; lia).
  symmetry. apply blend8_eq_raw; assumption.
Qed.

Lemma DIV_UN8_div_un8 a b : is_byte a ->
  option_map AseRef.to_u8 (AseRef.DIV_UN8 a b) = div_un8 a b.
Proof.
  intros Ha. unfold AseRef.DIV_UN8, AseRef.c_div, div_un8.
  rewrite to_u16_small by (unfold is_byte in Ha; lia).
  destruct (b =? 0); reflexivity.
Qed.

(* ------------------------------------------------------------------ *)
(* rgba_blender_normal = normal *)

Lemma ref_normal b s o : pix_wf b -> pix_wf s -> is_byte o ->
  AseRef.rgba_blender_normal (pack b) (pack s) o = option_map pack (normal b s o).
Proof.
  destruct b as [[[br bg] bb] ba], s as [[[sr sg] sb] sa]. cbn [pix_wf pack].
  intros (Hbr & Hbg & Hbb & Hba) (Hsr & Hsg & Hsb & Hsa) Ho.
  unfold AseRef.rgba_blender_normal. cbv zeta.
  rewrite !a_mask_test by assumption.
  rewrite !getr_rgba, !getg_rgba, !getb_rgba, !geta_rgba by assumption.
  unfold normal. cbv zeta.
  rewrite (MUL_UN8_bytes sa o Hsa Ho).
  destruct (Z.eqb_spec ba 0) as [Eb|Eb].
  - rewrite set_alpha_rgba by auto using mul_un8_byte.
    rewrite from_rgba_i32_ok by auto using mul_un8_byte. reflexivity.
  - destruct (Z.eqb_spec sa 0) as [Es|Es]; [reflexivity|].
    pose proof (mul_un8_byte sa o) as Hsa'.
    rewrite (MUL_UN8_bytes ba (mul_un8 sa o) Hba Hsa').
    pose proof (res_alpha_facts ba (mul_un8 sa o) Hba Eb Hsa') as (R0 & R1 & R2).
    fold (res_alpha ba (mul_un8 sa o)).
    set (ra := res_alpha ba (mul_un8 sa o)) in *.
    assert (Hra : is_byte ra) by (unfold is_byte in *; lia).
    unfold AseRef.c_div.
    destruct (Z.eqb_spec ra 0) as [E|E]; [lia|].
    unfold AseRef.bind.
    fold (normal_chan br sr (mul_un8 sa o) ra).
    fold (normal_chan bg sg (mul_un8 sa o) ra).
    fold (normal_chan bb sb (mul_un8 sa o) ra).
    rewrite from_rgba_i32_ok by (subst ra; auto using normal_chan_byte).
    reflexivity.
Qed.

(* ------------------------------------------------------------------ *)
(* rgba_blender_merge = merge *)

Lemma ref_merge n x o : pix_wf n -> pix_wf x -> is_byte o ->
  AseRef.rgba_blender_merge (pack n) (pack x) o = pack (merge n x o).
Proof.
  destruct n as [[[nr ng] nb] na], x as [[[xr xg] xb] xa]. cbn [pix_wf pack].
  intros (Hnr & Hng & Hnb & Hna) (Hxr & Hxg & Hxb & Hxa) Ho.
  unfold AseRef.rgba_blender_merge. cbv zeta.
  rewrite !getr_rgba, !getg_rgba, !getb_rgba, !geta_rgba by assumption.
  rewrite !MUL_UN8_blend8 by assumption.
  unfold merge.
  destruct (na =? 0); [|destruct (xa =? 0)];
    (destruct (Z.eqb_spec (blend8 na xa o) 0) as [E|E]; cbn [pack]; [rewrite E|]; reflexivity).
Qed.

(* ------------------------------------------------------------------ *)
(* the RGBA_BLENDER_N wrapper = blender *)

Definition refines (fr : AseRef.color_t -> AseRef.color_t -> Z -> option AseRef.color_t)
                   (fm : pixel -> pixel -> Z -> option pixel) : Prop :=
  forall b s o, pix_wf b -> pix_wf s -> is_byte o ->
    fr (pack b) (pack s) o = option_map pack (fm b s o).

(* pointwise: only the agreement of the two baseline functions at (b, s, o) is needed *)
Lemma ref_wrapper_at fr fm b s o : pix_wf b -> pix_wf s -> is_byte o ->
  fr (pack b) (pack s) o = option_map pack (fm b s o) -> baseline_ok fm ->
  AseRef.RGBA_BLENDER_N fr (pack b) (pack s) o = option_map pack (blender fm b s o).
Proof.
  intros Hb Hs Ho Hr Hok.
  unfold AseRef.RGBA_BLENDER_N, blender.
  rewrite (ref_normal b s o Hb Hs Ho), Hr.
  assert (Et : (Z.land (pack b) AseRef.rgba_a_mask =? 0) = (pix_alpha b =? 0)).
  { destruct b as [[[br bg] bb] ba]. cbn [pix_wf pack pix_alpha] in *.
    apply a_mask_test; tauto. }
  rewrite Et. destruct (pix_alpha b =? 0); cbn [negb]; [reflexivity|].
  destruct (normal b s o) as [n|] eqn:Hn; cbn [option_map AseRef.bind obind]; [|reflexivity].
  destruct (fm b s o) as [x|] eqn:Hx; cbn [option_map AseRef.bind obind]; [|reflexivity].
  assert (Hnwf : pix_wf n) by exact (normal_wf_out _ _ _ _ Hb Hn).
  assert (Hxwf : pix_wf x).
  { destruct (Hok _ _ _ _ Hx) as (s' & _ & Hn'). exact (normal_wf_out _ _ _ _ Hb Hn'). }
  assert (Ega : AseRef.rgba_geta (pack b) = pix_alpha b).
  { destruct b as [[[br bg] bb] ba]. cbn [pix_wf pack pix_alpha] in *. apply geta_rgba; tauto. }
  assert (Egs : AseRef.rgba_geta (pack s) = pix_alpha s).
  { destruct s as [[[sr sg] sb] sa]. cbn [pix_wf pack pix_alpha] in *. apply geta_rgba; tauto. }
  rewrite Ega, Egs.
  pose proof (pix_alpha_byte b Hb) as Hba. pose proof (pix_alpha_byte s Hs) as Hsa.
  rewrite (MUL_UN8_bytes (pix_alpha s) o Hsa Ho).
  rewrite (MUL_UN8_bytes (pix_alpha b) _ Hba (mul_un8_byte _ _)).
  rewrite (ref_merge n x _ Hnwf Hxwf Hba).
  rewrite ref_merge by auto using merge_wf, mul_un8_byte.
  reflexivity.
Qed.

Lemma ref_wrapper fr fm : refines fr fm -> baseline_ok fm ->
  refines (AseRef.RGBA_BLENDER_N fr) (blender fm).
Proof. intros Hr Hok b s o Hb Hs Ho. apply ref_wrapper_at; auto. Qed.

Lemma refines_normal : refines AseRef.rgba_blender_normal normal.
Proof. exact ref_normal. Qed.

(* ------------------------------------------------------------------ *)
(* separable modes: rgba_blender_X = blend_channel blend_X *)

(* the C channel function yields an int; rgba() truncates it to uint8_t.  The Rust function
   yields the u8 directly.  None on either side = division by zero. *)
Definition chan_refines (fr fm : Z -> Z -> option Z) : Prop :=
  forall a b, is_byte a -> is_byte b -> option_map AseRef.to_u8 (fr a b) = fm a b.

Lemma ref_sep fr fm : chan_refines fr fm ->
  refines (AseRef.rgba_blender_sep fr) (blend_channel fm).
Proof.
  intros Hc [[[br bg] bb] ba] [[[sr sg] sb] sa] o Hb Hs Ho.
  pose proof Hb as Hb'. pose proof Hs as Hs'. cbn [pix_wf] in Hb', Hs'.
  destruct Hb' as (Hbr & Hbg & Hbb & Hba), Hs' as (Hsr & Hsg & Hsb & Hsa).
  unfold AseRef.rgba_blender_sep, blend_channel. cbn [pack].
  rewrite !getr_rgba, !getg_rgba, !getb_rgba by assumption.
  rewrite <- (Hc br sr Hbr Hsr), <- (Hc bg sg Hbg Hsg), <- (Hc bb sb Hbb Hsb).
  destruct (fr br sr) as [r|]; cbn [option_map AseRef.bind obind]; [|reflexivity].
  destruct (fr bg sg) as [g|]; cbn [option_map AseRef.bind obind]; [|reflexivity].
  destruct (fr bb sb) as [b'|]; cbn [option_map AseRef.bind obind]; [|reflexivity].
  rewrite replace_rgb_rgba by assumption.
  apply (ref_normal (br, bg, bb, ba) (AseRef.to_u8 r, AseRef.to_u8 g, AseRef.to_u8 b', sa) o Hb);
    [cbn [pix_wf]; auto using to_u8_byte|exact Ho].
Qed.

Lemma cr_multiply : chan_refines (AseRef.pure2 AseRef.blend_multiply) blend_multiply.
Proof.
  intros a b Ha Hb. unfold AseRef.pure2, AseRef.blend_multiply, blend_multiply. cbn [option_map].
  rewrite MUL_UN8_raw by (unfold is_byte in Hb; lia). reflexivity.
Qed.

Lemma cr_screen : chan_refines (AseRef.pure2 AseRef.blend_screen) blend_screen.
Proof.
  intros a b Ha Hb. unfold AseRef.pure2, AseRef.blend_screen, blend_screen. cbn [option_map].
  rewrite MUL_UN8_bytes by assumption. reflexivity.
Qed.

Lemma shiftl_1 s : Z.shiftl s 1 = 2 * s.
Proof. rewrite Z.shiftl_mul_pow2 by lia. change (2 ^ 1) with 2. ring. Qed.

Lemma cr_hard_light : chan_refines (AseRef.pure2 AseRef.blend_hard_light) blend_hard_light.
Proof.
  intros b s Hb Hs. unfold AseRef.pure2, AseRef.blend_hard_light, blend_hard_light.
  destruct (Z.ltb_spec s 128) as [L|L].
  - apply cr_multiply; [exact Hb|]. rewrite shiftl_1. unfold is_byte in *. lia.
  - apply cr_screen; [exact Hb|]. rewrite shiftl_1. unfold is_byte in *. lia.
Qed.

Lemma cr_overlay : chan_refines (AseRef.pure2 AseRef.blend_overlay) blend_overlay.
Proof. intros b s Hb Hs. exact (cr_hard_light s b Hs Hb). Qed.

Lemma cr_darken : chan_refines (AseRef.pure2 AseRef.blend_darken) blend_darken.
Proof.
  intros b s _ _. unfold AseRef.pure2, AseRef.blend_darken, AseRef.MIN, blend_darken. cbn [option_map].
  destruct (Z.ltb_spec b s); [rewrite Z.min_l by lia|rewrite Z.min_r by lia]; reflexivity.
Qed.

Lemma cr_lighten : chan_refines (AseRef.pure2 AseRef.blend_lighten) blend_lighten.
Proof.
  intros b s _ _. unfold AseRef.pure2, AseRef.blend_lighten, AseRef.MAX, blend_lighten. cbn [option_map].
  destruct (Z.ltb_spec s b); [rewrite Z.max_l by lia|rewrite Z.max_r by lia]; reflexivity.
Qed.

Lemma cr_difference : chan_refines (AseRef.pure2 AseRef.blend_difference) blend_difference.
Proof.
  intros b s _ _. unfold AseRef.pure2, AseRef.blend_difference, AseRef.ABS, blend_difference.
  cbn [option_map].
  destruct (Z.leb_spec 0 (b - s)); [rewrite Z.abs_eq by lia|rewrite Z.abs_neq by lia]; reflexivity.
Qed.

Lemma cr_exclusion : chan_refines (AseRef.pure2 AseRef.blend_exclusion) blend_exclusion.
Proof.
  intros a b Ha Hb. unfold AseRef.pure2, AseRef.blend_exclusion, blend_exclusion. cbv zeta.
  cbn [option_map]. rewrite MUL_UN8_bytes by assumption. reflexivity.
Qed.

Lemma cr_divide : chan_refines AseRef.blend_divide blend_divide.
Proof.
  intros b s Hb Hs. unfold AseRef.blend_divide, blend_divide. rewrite Z.geb_leb.
  destruct (b =? 0); [reflexivity|]. destruct (s <=? b); [reflexivity|].
  apply DIV_UN8_div_un8. exact Hb.
Qed.

Lemma to_u32_small z : 0 <= z < 4294967296 -> AseRef.to_u32 z = z.
Proof. intros H. unfold AseRef.to_u32. apply Z.mod_small. exact H. Qed.

Lemma cr_color_dodge : chan_refines AseRef.blend_color_dodge blend_color_dodge.
Proof.
  intros b s Hb Hs. unfold AseRef.blend_color_dodge, blend_color_dodge. cbv zeta.
  rewrite Z.geb_leb. rewrite to_u32_small by (unfold is_byte in Hs; lia).
  destruct (b =? 0); [reflexivity|]. destruct (255 - s <=? b); [reflexivity|].
  apply DIV_UN8_div_un8. exact Hb.
Qed.

Lemma cr_color_burn : chan_refines AseRef.blend_color_burn blend_color_burn.
Proof.
  intros b s Hb Hs. unfold AseRef.blend_color_burn, blend_color_burn. cbv zeta.
  rewrite Z.geb_leb. rewrite to_u32_small by (unfold is_byte in Hb; lia).
  destruct (b =? 255); [reflexivity|].
  destruct (Z.leb_spec s (255 - b)) as [L|L]; [reflexivity|].
  assert (Hb' : is_byte (255 - b)) by (unfold is_byte in *; lia).
  destruct (div_un8_some (255 - b) s Hb' Hs L) as [E R]. rewrite E. cbn [obind].
  unfold AseRef.DIV_UN8, AseRef.c_div.
  rewrite to_u16_small by (unfold is_byte in Hb'; lia).
  destruct (Z.eqb_spec s 0) as [Z|_]; [unfold is_byte in *; lia|].
  fold (div_raw (255 - b) s). cbn [AseRef.bind option_map].
  destruct (Z.ltb_spec (255 - div_raw (255 - b) s) 0) as [L'|L']; [unfold is_byte in R; lia|].
  rewrite to_u32_small by (unfold is_byte in R; lia).
  rewrite to_u8_small by (unfold is_byte in *; lia). reflexivity.
Qed.

(* ---- addition / subtract ---- *)

Lemma ref_addition : refines AseRef.rgba_blender_addition addition_baseline.
Proof.
  intros [[[br bg] bb] ba] [[[sr sg] sb] sa] o Hb Hs Ho.
  pose proof Hb as Hb'. pose proof Hs as Hs'. cbn [pix_wf] in Hb', Hs'.
  destruct Hb' as (Hbr & Hbg & Hbb & Hba), Hs' as (Hsr & Hsg & Hsb & Hsa).
  unfold AseRef.rgba_blender_addition, addition_baseline. cbv zeta. cbn [pack].
  rewrite !getr_rgba, !getg_rgba, !getb_rgba by assumption.
  rewrite replace_rgb_rgba by assumption.
  assert (M : forall x y, is_byte x -> is_byte y ->
                AseRef.MIN (x + y) 255 = Z.min (x + y) 255 /\ is_byte (Z.min (x + y) 255)).
  { intros x y Hx Hy. unfold AseRef.MIN, is_byte in *.
    destruct (Z.ltb_spec (x + y) 255); [rewrite Z.min_l by lia|rewrite Z.min_r by lia]; lia. }
  destruct (M br sr Hbr Hsr) as [-> ?], (M bg sg Hbg Hsg) as [-> ?], (M bb sb Hbb Hsb) as [-> ?].
  rewrite !to_u8_small by assumption.
  rewrite from_rgba_i32_ok by assumption. cbn [obind].
  apply (ref_normal (br, bg, bb, ba) (_, _, _, sa) o Hb); [cbn [pix_wf]; auto|exact Ho].
Qed.

Lemma ref_subtract : refines AseRef.rgba_blender_subtract subtract_baseline.
Proof.
  intros [[[br bg] bb] ba] [[[sr sg] sb] sa] o Hb Hs Ho.
  pose proof Hb as Hb'. pose proof Hs as Hs'. cbn [pix_wf] in Hb', Hs'.
  destruct Hb' as (Hbr & Hbg & Hbb & Hba), Hs' as (Hsr & Hsg & Hsb & Hsa).
  unfold AseRef.rgba_blender_subtract, subtract_baseline. cbv zeta. cbn [pack].
  rewrite !getr_rgba, !getg_rgba, !getb_rgba by assumption.
  rewrite replace_rgb_rgba by assumption.
  assert (M : forall x y, is_byte x -> is_byte y ->
                AseRef.MAX (x - y) 0 = Z.max (x - y) 0 /\ is_byte (Z.max (x - y) 0)).
  { intros x y Hx Hy. unfold AseRef.MAX, is_byte in *.
    destruct (Z.ltb_spec 0 (x - y)); [rewrite Z.max_l by lia|rewrite Z.max_r by lia]; lia. }
  destruct (M br sr Hbr Hsr) as [-> ?], (M bg sg Hbg Hsg) as [-> ?], (M bb sb Hbb Hsb) as [-> ?].
  rewrite !to_u8_small by assumption.
  rewrite from_rgba_i32_ok by assumption. cbn [obind].
  apply (ref_normal (br, bg, bb, ba) (_, _, _, sa) o Hb); [cbn [pix_wf]; auto|exact Ho].
Qed.

(* ------------------------------------------------------------------ *)
(* C03_int *)

Lemma baseline_refines_int m : int_mode m -> m <> 0 -> refines (AseRef.baseline m) (baseline m).
Proof.
  unfold int_mode, int_modes. intros H Hnz. cbn [In] in H.
  repeat (destruct H as [<-|H]); try contradiction; try (exfalso; apply Hnz; reflexivity);
    cbn [baseline AseRef.baseline];
    first [ apply ref_sep;
            first [ exact cr_multiply | exact cr_screen | exact cr_overlay | exact cr_darken
                  | exact cr_lighten | exact cr_color_dodge | exact cr_color_burn
                  | exact cr_hard_light | exact cr_difference | exact cr_exclusion | exact cr_divide ]
          | exact ref_addition | exact ref_subtract ].
Qed.

Lemma blend_refines_int m : int_mode m -> refines (AseRef.blend_n m) (blend m).
Proof.
  intros Hm b s o Hb Hs Ho. unfold AseRef.blend_n, blend.
  destruct (Z.eqb_spec m 0) as [E|E].
  - apply ref_normal; assumption.
  - apply ref_wrapper; auto using baseline_refines_int, baseline_ok_all.
Qed.

Theorem C03_int_proof m b s o :
  int_mode m -> pix_wf b -> pix_wf s -> is_byte o ->
  exists p, blend m b s o = Some p /\ pix_wf p /\
            AseRef.blend_n m (pack b) (pack s) o = Some (pack p).
Proof.
  intros Hm Hb Hs Ho. destruct (C17_range_int m b s o Hm Hb Hs Ho) as (p & Hp & Hwf).
  exists p. split; [exact Hp|]. split; [exact Hwf|].
  rewrite (blend_refines_int m Hm b s o Hb Hs Ho), Hp. reflexivity.
Qed.

(* the same statement read from the reference side: unpacking the reference result gives
   the model result *)
Corollary C03_int_unpack m b s o :
  int_mode m -> pix_wf b -> pix_wf s -> is_byte o ->
  option_map unpack (AseRef.blend_n m (pack b) (pack s) o) = blend m b s o /\
  blend m b s o <> None.
Proof.
  intros Hm Hb Hs Ho. destruct (C03_int_proof m b s o Hm Hb Hs Ho) as (p & Hp & Hwf & Hr).
  rewrite Hr, Hp. cbn [option_map]. rewrite (unpack_pack p Hwf). split; [reflexivity|discriminate].
Qed.

(* the 13 integer blenders listed explicitly (no dispatch through `baseline`, whose body
   mentions the float modes): closed under the global context *)
Definition ref_int_baselines : list (AseRef.color_t -> AseRef.color_t -> Z -> option AseRef.color_t) :=
  [ AseRef.rgba_blender_multiply; AseRef.rgba_blender_screen; AseRef.rgba_blender_overlay;
    AseRef.rgba_blender_darken; AseRef.rgba_blender_lighten; AseRef.rgba_blender_color_dodge;
    AseRef.rgba_blender_color_burn; AseRef.rgba_blender_hard_light; AseRef.rgba_blender_difference;
    AseRef.rgba_blender_exclusion; AseRef.rgba_blender_addition; AseRef.rgba_blender_subtract;
    AseRef.rgba_blender_divide ].

Lemma ref_int_baselines_refine : Forall2 refines ref_int_baselines int_baselines.
Proof.
  unfold ref_int_baselines, int_baselines.
  repeat (apply Forall2_cons;
    [ first [ apply ref_sep;
              first [ exact cr_multiply | exact cr_screen | exact cr_overlay | exact cr_darken
                    | exact cr_lighten | exact cr_color_dodge | exact cr_color_burn
                    | exact cr_hard_light | exact cr_difference | exact cr_exclusion
                    | exact cr_divide ]
            | exact ref_addition | exact ref_subtract ] |]).
  apply Forall2_nil.
Qed.

(* ------------------------------------------------------------------ *)
(* C03_soft: the soft-light channel function, 65 536-point sweep over primitive floats.
   The C++ conversion (uint32_t)(r*255 + 0.5) is defined (the truncated value is
   representable) at every point and equals Rust's saturating `as u32 as i32`. *)

Definition soft_agree (b s : Z) : bool :=
  match AseRef.blend_soft_light b s with
  | Some z => z =? blend_soft_light b s
  | None => false
  end.

Theorem C03_soft_chan_proof b s : is_byte b -> is_byte s ->
  AseRef.blend_soft_light b s = Some (blend_soft_light b s).
Proof.
  intros Hb Hs.
  assert (E : sweep2 bytes bytes soft_agree = true) by (vm_compute; reflexivity).
  pose proof (sweep_bytes2 _ E b s Hb Hs) as S. unfold soft_agree in S.
  destruct (AseRef.blend_soft_light b s) as [z|]; [|discriminate].
  apply Z.eqb_eq in S. rewrite S. reflexivity.
Qed.

Lemma ref_soft_light : refines AseRef.rgba_blender_soft_light soft_light_baseline.
Proof.
  intros [[[br bg] bb] ba] [[[sr sg] sb] sa] o Hb Hs Ho.
  pose proof Hb as Hb'. pose proof Hs as Hs'. cbn [pix_wf] in Hb', Hs'.
  destruct Hb' as (Hbr & Hbg & Hbb & Hba), Hs' as (Hsr & Hsg & Hsb & Hsa).
  unfold AseRef.rgba_blender_soft_light, AseRef.rgba_blender_sep, soft_light_baseline. cbn [pack].
  rewrite !getr_rgba, !getg_rgba, !getb_rgba by assumption.
  rewrite !C03_soft_chan_proof by assumption. cbn [AseRef.bind].
  rewrite replace_rgb_rgba by assumption.
  pose proof (soft_light_byte br sr Hbr Hsr). pose proof (soft_light_byte bg sg Hbg Hsg).
  pose proof (soft_light_byte bb sb Hbb Hsb).
  rewrite !to_u8_small by assumption.
  rewrite from_rgba_i32_ok by assumption. cbn [obind].
  apply (ref_normal (br, bg, bb, ba) (_, _, _, sa) o Hb); [cbn [pix_wf]; auto|exact Ho].
Qed.

Theorem C03_soft_proof b s o :
  pix_wf b -> pix_wf s -> is_byte o ->
  exists p, blend 9 b s o = Some p /\ pix_wf p /\
            AseRef.blend_n 9 (pack b) (pack s) o = Some (pack p).
Proof.
  intros Hb Hs Ho. destruct (C17_range_soft b s o Hb Hs Ho) as (p & Hp & Hwf).
  exists p. split; [exact Hp|]. split; [exact Hwf|].
  change (AseRef.blend_n 9 (pack b) (pack s) o)
    with (AseRef.RGBA_BLENDER_N AseRef.rgba_blender_soft_light (pack b) (pack s) o).
  rewrite (ref_wrapper _ _ ref_soft_light ok_soft_light b s o Hb Hs Ho).
  change (blender soft_light_baseline b s o) with (blend 9 b s o). rewrite Hp. reflexivity.
Qed.

(* ------------------------------------------------------------------ *)
(* HSL modes, partial.  Everything around the floating-point core (unpacking, the range
   check, normal(), the two merges of the wrapper) is proved; the float cores are compared
   by the computable guard below.  Both sides run the same IEEE operation sequence; they
   differ in f64::min/max versus the C ternaries, in `r * 255.0` versus `255.0*r` and in the
   saturating versus undefined float-to-int conversion. *)

(* the double triple the C++ blender of mode m hands to int(255.0*x) *)
Definition ref_hsl_rgb (m : Z) (backdrop src : AseRef.color_t) : AseRef.rgbd :=
  if m =? 12 then AseRef.hsl_hue_rgb backdrop src
  else if m =? 13 then AseRef.hsl_saturation_rgb backdrop src
  else if m =? 14 then AseRef.hsl_color_rgb backdrop src
  else AseRef.hsl_luminosity_rgb backdrop src.

(* computable guard: the three C++ conversions int(255.0*x) are defined, the four
   debug_assert! of from_rgba_i32 hold on the Rust side, and the three integers agree *)
Definition hsl_guard (m : Z) (b s : pixel) : bool :=
  let '(r, g, b') := ref_hsl_rgb m (pack b) (pack s) in
  match AseRef.cast_int (255 * r), AseRef.cast_int (255 * g), AseRef.cast_int (255 * b'),
        from_rgb_f64 (hsl_src m b s) (pix_alpha s) with
  | Some ri, Some gi, Some bi, Some (mr, mg, mb, _) => (ri =? mr) && (gi =? mg) && (bi =? mb)
  | _, _, _, _ => false
  end.

Lemma ref_baseline_hsl m bk src o : hsl_mode m ->
  AseRef.baseline m bk src o = AseRef.finish_hsl (ref_hsl_rgb m bk src) bk src o.
Proof. intros [-> | [-> | [-> | ->]]]; reflexivity. Qed.

Lemma hsl_guard_ok m b s : hsl_guard m b s = true -> hsl_ok m b s = true.
Proof.
  unfold hsl_guard, hsl_ok. destruct (ref_hsl_rgb m (pack b) (pack s)) as [[r g] b'].
  destruct (AseRef.cast_int (255 * r)); [|discriminate].
  destruct (AseRef.cast_int (255 * g)); [|discriminate].
  destruct (AseRef.cast_int (255 * b')); [|discriminate].
  destruct (from_rgb_f64 (hsl_src m b s) (pix_alpha s)); [reflexivity|discriminate].
Qed.

Lemma ref_hsl_at m b s o : hsl_mode m -> pix_wf b -> pix_wf s -> is_byte o ->
  hsl_guard m b s = true ->
  AseRef.baseline m (pack b) (pack s) o = option_map pack (baseline m b s o).
Proof.
  intros Hm Hb Hs Ho G.
  rewrite (ref_baseline_hsl m _ _ o Hm), (hsl_baseline_eq m b s o Hm).
  unfold hsl_guard in G. unfold AseRef.finish_hsl.
  destruct (ref_hsl_rgb m (pack b) (pack s)) as [[r g] b'].
  destruct (AseRef.cast_int (255 * r)) as [ri|]; [|discriminate].
  destruct (AseRef.cast_int (255 * g)) as [gi|]; [|discriminate].
  destruct (AseRef.cast_int (255 * b')) as [bi|]; [|discriminate].
  destruct (from_rgb_f64 (hsl_src m b s) (pix_alpha s)) as [[[[mr mg] mb] ma]|] eqn:E; [|discriminate].
  rewrite !andb_true_iff, !Z.eqb_eq in G. destruct G as [[-> ->] ->].
  assert (Hs' : pix_wf (mr, mg, mb, ma) /\ ma = pix_alpha s).
  { destruct (hsl_src m b s) as [[x y] z]. unfold from_rgb_f64 in E.
    apply from_rgba_i32_inv in E. destruct E as [E W]. split; [exact W|]. congruence. }
  destruct Hs' as [W ->]. cbn [AseRef.bind obind].
  destruct s as [[[sr sg] sb] sa]. cbn [pack pix_alpha pix_wf] in *.
  rewrite replace_rgb_rgba by tauto.
  rewrite !to_u8_small by tauto.
  apply (ref_normal b (mr, mg, mb, sa) o Hb); [cbn [pix_wf]; tauto|exact Ho].
Qed.

(* the full goal: needs a floating-point analysis of set_sat / clip_color (NaN-freedom,
   tie behaviour of min/max, range of the three products) *)
Definition goal_C03_hsl : Prop :=
  forall m b s o, hsl_mode m -> pix_wf b -> pix_wf s -> is_byte o ->
    exists p, blend m b s o = Some p /\ pix_wf p /\
              AseRef.blend_n m (pack b) (pack s) o = Some (pack p).

Theorem C03_hsl_partial_proof m b s o :
  hsl_mode m -> pix_wf b -> pix_wf s -> is_byte o ->
  hsl_guard m b s = true ->
  exists p, blend m b s o = Some p /\ pix_wf p /\
            AseRef.blend_n m (pack b) (pack s) o = Some (pack p).
Proof.
  intros Hm Hb Hs Ho G.
  destruct (C17_range_hsl_partial m b s o Hm Hb Hs Ho (hsl_guard_ok m b s G)) as (p & Hp & Hwf).
  exists p. split; [exact Hp|]. split; [exact Hwf|].
  assert (E : AseRef.blend_n m (pack b) (pack s) o =
              AseRef.RGBA_BLENDER_N (AseRef.baseline m) (pack b) (pack s) o)
    by (destruct Hm as [-> | [-> | [-> | ->]]]; reflexivity).
  rewrite E.
  rewrite (ref_wrapper_at _ (baseline m) b s o Hb Hs Ho (ref_hsl_at m b s o Hm Hb Hs Ho G)
             (baseline_ok_all m)).
  rewrite <- (blend_hsl_unfold m b s o Hm), Hp. reflexivity.
Qed.

Lemma goal_C03_hsl_from_guard :
  (forall m b s, hsl_mode m -> pix_wf b -> pix_wf s -> hsl_guard m b s = true) -> goal_C03_hsl.
Proof. intros G m b s o Hm Hb Hs Ho. apply C03_hsl_partial_proof; auto. Qed.

(* ------------------------------------------------------------------ *)
(* examples: hypotheses satisfiable, both sides evaluated on the vectors of ref/dummy.cc *)

Example C03_int_ex :
  let b := (245, 65, 48, 10) in let s := (42, 41, 227, 209) in
  int_mode 1 /\ pix_wf b /\ pix_wf s /\ is_byte 255 /\
  AseRef.blend_n 1 (pack b) (pack s) 255 = Some (pack (44, 40, 213, 211)) /\
  blend 1 b s 255 = Some (44, 40, 213, 211).
Proof.
  cbv zeta. unfold int_mode, int_modes, pix_wf, is_byte. cbn [In].
  repeat split; try lia; try tauto; vm_compute; reflexivity.
Qed.

Example C03_soft_ex :
  AseRef.blend_soft_light 200 100 = Some 191 /\ blend_soft_light 200 100 = 191.
Proof. split; vm_compute; reflexivity. Qed.

Example C03_hsl_partial_ex :
  let b := (81, 81, 163, 129) in let s := (50, 104, 58, 189) in
  hsl_guard 12 b s = true /\ hsl_guard 13 b s = true /\ hsl_guard 14 b s = true /\
  hsl_guard 15 b s = true /\
  AseRef.blend_n 13 (pack b) (pack s) 255 = Some (pack (107, 74, 107, 222)) /\
  (* ties and greys, where f64::min/max and the C ternaries pick different operands *)
  hsl_guard 12 (10, 10, 200, 255) (7, 7, 7, 255) = true /\
  hsl_guard 13 (128, 128, 128, 255) (0, 255, 0, 255) = true /\
  hsl_guard 15 (0, 0, 0, 1) (255, 255, 255, 255) = true.
Proof. cbv zeta. repeat split; vm_compute; reflexivity. Qed.

(* ------------------------------------------------------------------ *)
(* HSL, unconditional part: for every pair of byte pixels both sides hand the SAME triple of
   doubles to their clip_color.  This covers as_rgb_f64, saturation / sat (f64::min/max
   against the C ternaries, by sweeps over the 256 channel values), luminosity / lum, and
   set_saturation (static_sort3_orig + col_set) against set_sat with its aliasing MIN / MID /
   MAX references. *)

Definition unitf (x : Z) : float := (f_of_Z x / 255)%float.

Lemma unitf_facts x : is_byte x ->
  PrimFloat.is_nan (unitf x) = false /\ PrimFloat.get_sign (unitf x) = false.
Proof.
  intros Hx.
  assert (E : forallb (fun x => negb (PrimFloat.is_nan (unitf x)) && negb (PrimFloat.get_sign (unitf x))) bytes = true)
    by (vm_compute; reflexivity).
  pose proof (sweep_bytes1 _ E x Hx) as S. cbv beta in S.
  apply andb_prop in S. destruct S as [S1 S2].
  apply negb_true_iff in S1. apply negb_true_iff in S2. auto.
Qed.

(* x -> x / 255.0 is strictly monotone on bytes (65 536-point sweep) *)
Lemma unitf_ltb x y : is_byte x -> is_byte y -> PrimFloat.ltb (unitf x) (unitf y) = (x <? y).
Proof.
  intros Hx Hy.
  assert (E : sweep2 bytes bytes (fun x y => Bool.eqb (PrimFloat.ltb (unitf x) (unitf y)) (x <? y)) = true)
    by (vm_compute; reflexivity).
  pose proof (sweep_bytes2 _ E x y Hx Hy) as S. cbv beta in S. apply Bool.eqb_prop in S. exact S.
Qed.

Lemma fmin_unitf x y : is_byte x -> is_byte y ->
  fmin (unitf x) (unitf y) = unitf (Z.min x y) /\ AseRef.mind (unitf x) (unitf y) = unitf (Z.min x y).
Proof.
  intros Hx Hy. destruct (unitf_facts x Hx) as [Nx Sx], (unitf_facts y Hy) as [Ny Sy].
  unfold fmin, AseRef.mind. rewrite Nx, Ny, Sx, !unitf_ltb by assumption.
  destruct (Z.ltb_spec x y) as [L|L].
  - rewrite Z.min_l by lia. auto.
  - rewrite Z.min_r by lia. destruct (y <? x); auto.
Qed.

Lemma fmax_unitf x y : is_byte x -> is_byte y ->
  fmax (unitf x) (unitf y) = unitf (Z.max x y) /\ AseRef.maxd (unitf x) (unitf y) = unitf (Z.max x y).
Proof.
  intros Hx Hy. destruct (unitf_facts x Hx) as [Nx Sx], (unitf_facts y Hy) as [Ny Sy].
  unfold fmax, AseRef.maxd. rewrite Nx, Ny, Sx, !unitf_ltb by assumption.
  destruct (Z.ltb_spec x y) as [L|L].
  - rewrite Z.max_r by lia. destruct (Z.ltb_spec y x); [lia|auto].
  - destruct (Z.ltb_spec y x) as [L'|L'].
    + rewrite Z.max_l by lia. auto.
    + assert (x = y) by lia. subst y. rewrite Z.max_id. auto.
Qed.

Lemma min_byte x y : is_byte x -> is_byte y -> is_byte (Z.min x y).
Proof. unfold is_byte. lia. Qed.
Lemma max_byte x y : is_byte x -> is_byte y -> is_byte (Z.max x y).
Proof. unfold is_byte. lia. Qed.

Lemma unit_rgb_pack p : pix_wf p -> AseRef.unit_rgb (pack p) = as_rgb_f64 p.
Proof.
  destruct p as [[[r g] b] a]. cbn [pix_wf pack]. intros (Hr & Hg & Hb & Ha).
  unfold AseRef.unit_rgb. rewrite getr_rgba, getg_rgba, getb_rgba by assumption. reflexivity.
Qed.

Lemma as_rgb_f64_unitf r g b a : as_rgb_f64 (r, g, b, a) = (unitf r, unitf g, unitf b).
Proof. reflexivity. Qed.

Lemma lum_agree c : AseRef.lum c = luminosity c.
Proof. destruct c as [[r g] b]. reflexivity. Qed.

Lemma sat_agree p : pix_wf p -> AseRef.sat (as_rgb_f64 p) = saturation (as_rgb_f64 p).
Proof.
  destruct p as [[[r g] b] a]. cbn [pix_wf]. intros (Hr & Hg & Hb & Ha).
  rewrite as_rgb_f64_unitf. unfold AseRef.sat, saturation.
  rewrite (proj1 (fmin_unitf g b Hg Hb)), (proj2 (fmin_unitf g b Hg Hb)).
  rewrite (proj1 (fmax_unitf g b Hg Hb)), (proj2 (fmax_unitf g b Hg Hb)).
  rewrite (proj1 (fmin_unitf r _ Hr (min_byte g b Hg Hb))), (proj2 (fmin_unitf r _ Hr (min_byte g b Hg Hb))).
  rewrite (proj1 (fmax_unitf r _ Hr (max_byte g b Hg Hb))), (proj2 (fmax_unitf r _ Hr (max_byte g b Hg Hb))).
  reflexivity.
Qed.

(* set_sat is the same decision tree as static_sort3_orig + col_set: the only difference is
   f64::min / f64::max of (g, b) against the C ternaries *)
Lemma set_sat_struct r g b s :
  fmin g b = AseRef.mind g b -> fmax g b = AseRef.maxd g b ->
  set_saturation (r, g, b) s = AseRef.set_sat (r, g, b) s.
Proof.
  intros Emin Emax.
  unfold set_saturation, static_sort3_orig. rewrite Emin, Emax.
  unfold AseRef.set_sat, AseRef.MIN_lv, AseRef.MAX_lv, AseRef.MID_lv, AseRef.mind, AseRef.maxd.
  destruct (PrimFloat.ltb g b) eqn:E1, (PrimFloat.ltb b g) eqn:E2, (PrimFloat.ltb r g) eqn:E3,
           (PrimFloat.ltb g r) eqn:E4, (PrimFloat.ltb r b) eqn:E5, (PrimFloat.ltb b r) eqn:E6;
  repeat (cbn [AseRef.load AseRef.store col_get col_set Z.eqb Pos.eqb];
          rewrite ?E1, ?E2, ?E3, ?E4, ?E5, ?E6);
  reflexivity.
Qed.

Lemma set_sat_agree p s : pix_wf p ->
  AseRef.set_sat (as_rgb_f64 p) s = set_saturation (as_rgb_f64 p) s.
Proof.
  destruct p as [[[r g] b] a]. cbn [pix_wf]. intros (Hr & Hg & Hb & Ha).
  rewrite as_rgb_f64_unitf. symmetry. apply set_sat_struct.
  - rewrite (proj1 (fmin_unitf g b Hg Hb)), (proj2 (fmin_unitf g b Hg Hb)). reflexivity.
  - rewrite (proj1 (fmax_unitf g b Hg Hb)), (proj2 (fmax_unitf g b Hg Hb)). reflexivity.
Qed.

(* the argument of clip_color *)
Definition shift_lum (c : f3) (l : float) : f3 :=
  let '(r, g, b) := c in
  let d := (l - luminosity c)%float in ((r + d)%float, (g + d)%float, (b + d)%float).

Definition hsl_preclip (m : Z) (b s : pixel) : f3 :=
  if m =? 12 then
    let cb := as_rgb_f64 b in
    shift_lum (set_saturation (as_rgb_f64 s) (saturation cb)) (luminosity cb)
  else if m =? 13 then
    let cb := as_rgb_f64 b in
    shift_lum (set_saturation cb (saturation (as_rgb_f64 s))) (luminosity cb)
  else if m =? 14 then
    shift_lum (as_rgb_f64 s) (luminosity (as_rgb_f64 b))
  else
    shift_lum (as_rgb_f64 b) (luminosity (as_rgb_f64 s)).

Lemma set_luminocity_shift c l : set_luminocity c l = clip_color (shift_lum c l).
Proof. destruct c as [[r g] b]. reflexivity. Qed.
Lemma set_lum_shift c l : AseRef.set_lum c l = AseRef.clip_color (shift_lum c l).
Proof. destruct c as [[r g] b]. reflexivity. Qed.

Theorem C03_hsl_preclip_proof m b s : hsl_mode m -> pix_wf b -> pix_wf s ->
  hsl_src m b s = clip_color (hsl_preclip m b s) /\
  ref_hsl_rgb m (pack b) (pack s) = AseRef.clip_color (hsl_preclip m b s).
Proof.
  intros Hm Hb Hs. split.
  - unfold hsl_src, hsl_preclip.
    destruct (m =? 12); [|destruct (m =? 13); [|destruct (m =? 14)]]; cbv zeta;
      apply set_luminocity_shift.
  - unfold ref_hsl_rgb, hsl_preclip.
    unfold AseRef.hsl_hue_rgb, AseRef.hsl_saturation_rgb, AseRef.hsl_color_rgb, AseRef.hsl_luminosity_rgb.
    cbv zeta. rewrite !unit_rgb_pack by assumption. rewrite !lum_agree.
    rewrite (sat_agree b Hb), (sat_agree s Hs).
    rewrite (set_sat_agree s _ Hs), (set_sat_agree b _ Hb).
    destruct (m =? 12); [|destruct (m =? 13); [|destruct (m =? 14)]]; apply set_lum_shift.
Qed.

Example C03_hsl_preclip_ex :   (* the r == g < b quirk of MIN/MID/MAX: min and mid alias g *)
  set_saturation (as_rgb_f64 (81, 81, 163, 129)) 0.5 = (unitf 81, 0%float, 0.5%float) /\
  AseRef.set_sat (as_rgb_f64 (81, 81, 163, 129)) 0.5 = (unitf 81, 0%float, 0.5%float).
Proof. split; vm_compute; reflexivity. Qed.
