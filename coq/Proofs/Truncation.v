(* C13: truncation and extension, for every reader tree and for the loader.
   A run that succeeded on bs after consuming c = length bs - length rest bytes
     - fails with UnexpectedEof on every prefix shorter than c  (run_truncated),
     - gives the same value on every prefix of length >= c       (run_prefix_ok),
     - gives the same value whatever follows the first c bytes   (run_extension). *)
From Ase Require Export Proofs.ITLemmas Model.Validate.

Theorem run_truncated {A} (t : IT A) : forall bs a rest m,
  run t bs = Ok (a, rest) -> (m < length bs - length rest)%nat ->
  run t (firstn m bs) = Err eof.
Proof.
  induction t as [a0|e|s|n k IH]; intros bs a rest m; cbn [run]; try discriminate.
  - intros [= <- <-]. lia.
  - destruct (split_z n bs) as [[c r]|] eqn:S; [|discriminate]. intros Hr Hm.
    pose proof (split_z_app _ _ _ _ S) as ->.
    destruct (Nat.lt_ge_cases m (length c)) as [Hlt|Hge].
    + erewrite split_z_prefix; [reflexivity|exact S|exact Hlt].
    + erewrite split_z_firstn_ge; [|exact S|exact Hge].
      pose proof (run_rest_len _ _ _ _ Hr) as Hlen. rewrite app_length in Hm.
      eapply IH; [exact Hr|]. lia.
Qed.

Theorem run_prefix_ok {A} (t : IT A) : forall bs a rest m,
  run t bs = Ok (a, rest) -> (length bs - length rest <= m)%nat ->
  run t (firstn m bs) = Ok (a, firstn (m - (length bs - length rest)) rest).
Proof.
  induction t as [a0|e|s|n k IH]; intros bs a rest m; cbn [run]; try discriminate.
  - intros [= <- <-] _. rewrite Nat.sub_diag, Nat.sub_0_r. reflexivity.
  - destruct (split_z n bs) as [[c r]|] eqn:S; [|discriminate]. intros Hr Hm.
    pose proof (split_z_app _ _ _ _ S) as ->.
    pose proof (run_rest_len _ _ _ _ Hr) as Hlen. rewrite app_length in *.
    erewrite split_z_firstn_ge; [|exact S|lia].
    rewrite (IH c r a rest (m - length c)%nat Hr) by lia.
    do 3 f_equal. lia.
Qed.

(* exactly the consumed bytes: same value, nothing left *)
Corollary run_consumed {A} (t : IT A) bs a rest :
  run t bs = Ok (a, rest) -> run t (firstn (length bs - length rest) bs) = Ok (a, []).
Proof.
  intros H. rewrite (run_prefix_ok t bs a rest _ H) by lia.
  rewrite Nat.sub_diag. reflexivity.
Qed.

(* the consumed prefix determines the result *)
Theorem run_extension {A} (t : IT A) bs a rest tail :
  run t bs = Ok (a, rest) ->
  run t (firstn (length bs - length rest) bs ++ tail) = Ok (a, tail).
Proof. intros H. apply run_consumed in H. apply (run_app t _ _ _ tail) in H. exact H. Qed.

(* ------------------------------------------------------------------ *)
(* the loader *)

Section Load.
Variable inflate : list Z -> Z -> zres.

(* a successful load is a successful parse followed by a successful validation *)
Lemma load_rest_ok_inv bs f rest :
  load_rest inflate bs = Ok (f, rest) ->
  exists h p, run (parse_file inflate) bs = Ok ((h, p), rest) /\ validate h p = Ok f.
Proof.
  unfold load_rest.
  destruct (run (parse_file inflate) bs) as [[[h p] r]|e|s]; cbn [rbind fst snd]; try discriminate.
  destruct (validate h p) as [f'|e|s] eqn:V; cbn [rbind]; try discriminate.
  intros [= <- <-]. exists h, p. split; [reflexivity|exact V].
Qed.

Lemma load_rest_of_run bs h p rest f :
  run (parse_file inflate) bs = Ok ((h, p), rest) -> validate h p = Ok f ->
  load_rest inflate bs = Ok (f, rest).
Proof. intros Hr Hv. unfold load_rest. rewrite Hr. cbn [rbind fst snd]. rewrite Hv. reflexivity. Qed.

Lemma load_of_load_rest bs f rest : load_rest inflate bs = Ok (f, rest) -> load inflate bs = Ok f.
Proof. intros H. unfold load. rewrite H. reflexivity. Qed.

(* a parse error is a load error: validation runs after the parse *)
Lemma load_parse_err bs e : run (parse_file inflate) bs = Err e -> load inflate bs = Err e.
Proof. intros H. unfold load, load_rest. rewrite H. reflexivity. Qed.

Theorem load_truncated bs f rest m :
  load_rest inflate bs = Ok (f, rest) -> (m < length bs - length rest)%nat ->
  load inflate (firstn m bs) = Err eof.
Proof.
  intros H Hm. apply load_rest_ok_inv in H. destruct H as (h & p & Hr & _).
  apply load_parse_err. eapply run_truncated; [exact Hr|exact Hm].
Qed.

Theorem load_rest_extension bs f rest tail :
  load_rest inflate bs = Ok (f, rest) ->
  load_rest inflate (firstn (length bs - length rest) bs ++ tail) = Ok (f, tail).
Proof.
  intros H. apply load_rest_ok_inv in H. destruct H as (h & p & Hr & Hv).
  eapply load_rest_of_run; [|exact Hv]. apply run_extension. exact Hr.
Qed.

Theorem load_extension bs f rest :
  load_rest inflate bs = Ok (f, rest) ->
  forall tail, load inflate (firstn (length bs - length rest) bs ++ tail) = Ok f.
Proof. intros H tail. eapply load_of_load_rest. apply load_rest_extension. exact H. Qed.

(* every prefix that reaches the end of the last frame loads as the same sprite *)
Theorem load_prefix_ok bs f rest m :
  load_rest inflate bs = Ok (f, rest) -> (length bs - length rest <= m)%nat ->
  load inflate (firstn m bs) = Ok f.
Proof.
  intros H Hm. apply load_rest_ok_inv in H. destruct H as (h & p & Hr & Hv).
  eapply load_of_load_rest. eapply load_rest_of_run; [|exact Hv].
  apply run_prefix_ok; [exact Hr|exact Hm].
Qed.

(* the two halves together: a prefix loads iff it reaches the end of the last frame,
   and then as the same sprite *)
Corollary load_prefix_cases bs f rest m :
  load_rest inflate bs = Ok (f, rest) ->
  load inflate (firstn m bs) =
  if (m <? length bs - length rest)%nat then Err eof else Ok f.
Proof.
  intros H. destruct (Nat.ltb_spec m (length bs - length rest)) as [Hlt|Hge].
  - eapply load_truncated; [exact H|exact Hlt].
  - eapply load_prefix_ok; [exact H|exact Hge].
Qed.

End Load.

(* ------------------------------------------------------------------ *)
(* non-vacuity on a small tree: a length-prefixed block *)

Definition demo_tree : IT (Z * list Z) := x <- word ;; y <- take x ;; Ret (x, y).

Example demo_ok : run demo_tree [3; 0; 10; 20; 30; 99; 98] = Ok ((3, [10; 20; 30]), [99; 98]).
Proof. vm_compute. reflexivity. Qed.
(* consumed = 5: prefixes of length 0..4 fail with eof, 5..7 succeed with the same value *)
Example demo_truncated :
  map (fun m => run demo_tree (firstn m [3; 0; 10; 20; 30; 99; 98])) [0; 1; 2; 3; 4]%nat
  = [Err eof; Err eof; Err eof; Err eof; Err eof].
Proof. vm_compute. reflexivity. Qed.
Example demo_prefix_ok :
  map (fun m => run demo_tree (firstn m [3; 0; 10; 20; 30; 99; 98])) [5; 6; 7]%nat
  = [Ok ((3, [10; 20; 30]), []); Ok ((3, [10; 20; 30]), [99]); Ok ((3, [10; 20; 30]), [99; 98])].
Proof. vm_compute. reflexivity. Qed.
(* the theorem instantiated on the demo (hypotheses met) *)
Example demo_truncated_thm m : (m < 5)%nat ->
  run demo_tree (firstn m [3; 0; 10; 20; 30; 99; 98]) = Err eof.
Proof. intros Hm. eapply run_truncated; [exact demo_ok|cbn [length]; lia]. Qed.

(* a minimal Aseprite file: 128-byte header (1 frame, 1x1, RGBA), one empty frame *)
Definition mini_header : list Z :=
  e_dword 144 ++ e_word 42464 ++ e_word 1 ++ e_word 1 ++ e_word 1 ++ e_word 32 ++
  e_dword 0 ++ e_word 100 ++ e_dword 0 ++ e_dword 0 ++
  [0; 0] ++ e_word 0 ++ e_word 0 ++ [1; 1] ++ e_short 0 ++ e_short 0 ++ e_word 0 ++ e_word 0 ++
  repeat 0 84.
Definition mini_frame : list Z :=
  e_dword 16 ++ e_word 61946 ++ e_word 0 ++ e_word 100 ++ [0; 0] ++ e_dword 0.
Definition mini_file : list Z := mini_header ++ mini_frame.

Definition no_inflate : list Z -> Z -> zres := fun _ _ => ZErr 0.

Example mini_file_len : length mini_file = 144%nat.
Proof. vm_compute. reflexivity. Qed.
Example mini_file_bytes : forallb is_byteb mini_file = true.
Proof. vm_compute. reflexivity. Qed.
Example mini_file_loads : is_ok (load_rest no_inflate (mini_file ++ [7; 7; 7])) = true.
Proof. vm_compute. reflexivity. Qed.
Example mini_file_rest :
  rmap snd (load_rest no_inflate (mini_file ++ [7; 7; 7])) = Ok [7; 7; 7].
Proof. vm_compute. reflexivity. Qed.
Example mini_file_dims :
  rmap (fun f => (f_width f, f_height f, f_nframes f)) (load no_inflate mini_file) = Ok (1, 1, 1).
Proof. vm_compute. reflexivity. Qed.
(* every strict prefix fails with eof (computed, all 144 of them) ... *)
Example mini_file_all_prefixes_fail :
  forallb (fun m => match load no_inflate (firstn m mini_file) with Err (EIo 1) => true | _ => false end)
          (seq 0 144) = true.
Proof. vm_compute. reflexivity. Qed.
(* ... as load_truncated says (hypotheses met by mini_file) *)
Example mini_file_truncated_thm m : (m < 144)%nat -> load no_inflate (firstn m mini_file) = Err eof.
Proof.
  intros Hm.
  destruct (load_rest no_inflate mini_file) as [[f rest]|e|s] eqn:L;
    [|exfalso; revert L; vm_compute; discriminate ..].
  assert (length rest = 0%nat) as Hrest.
  { assert (rmap (fun x => length (snd x)) (load_rest no_inflate mini_file) = Ok 0%nat) as E
      by (vm_compute; reflexivity).
    rewrite L in E. cbn [rmap rbind snd] in E. injection E as E. exact E. }
  eapply load_truncated; [exact L|]. rewrite Hrest, mini_file_len. lia.
Qed.

(* every prefix classified: the prefixes that end before the end of the last frame fail with
   UnexpectedEof, all the others load as the very same sprite *)
Theorem load_prefix_classified (inflate : list Z -> Z -> zres) (bs : list Z) (f : file) (rest : list Z) :
  load_rest inflate bs = Ok (f, rest) ->
  forall m : nat,
    load inflate (firstn m bs) = if (m <? length bs - length rest)%nat then Err eof else Ok f.
Proof.
  intros Hl m. destruct (Nat.ltb_spec m (length bs - length rest)) as [Hlt|Hge].
  - exact (load_truncated inflate bs f rest m Hl Hlt).
  - rewrite <- (firstn_skipn (length bs - length rest) (firstn m bs)).
    rewrite firstn_firstn. rewrite Nat.min_l by exact Hge.
    apply (load_extension inflate bs f rest Hl).
Qed.

(* no prefix loads as a different sprite *)
Theorem load_prefix_never_other (inflate : list Z -> Z -> zres) (bs : list Z) (f : file) (rest : list Z) :
  load_rest inflate bs = Ok (f, rest) ->
  forall (m : nat) (g : file), load inflate (firstn m bs) = Ok g -> g = f /\ (length bs - length rest <= m)%nat.
Proof.
  intros Hl m g Hg. rewrite (load_prefix_classified inflate bs f rest Hl m) in Hg.
  destruct (Nat.ltb_spec m (length bs - length rest)) as [Hlt|Hge]; [discriminate|].
  split; [congruence|exact Hge].
Qed.
