(* C17: mode-independent blend laws, proved once for the generic wrapper `blender`
   over any colour function of the shape "replace the source colour, keep the source
   alpha, then normal()" (`baseline_ok`).  The five structural laws use no float
   reasoning at all: they hold for every mode id, whatever the float code computes.
   Range / absence of panics: unconditional for Normal and the 14 integer modes, by a
   65 536-point sweep for soft light, and under the exact guard `hsl_ok` for the four
   HSL modes (the full statement is `goal_C17_range_hsl`). *)
From Ase Require Import Base.Prelude Model.Blend Proofs.BlendArith.
From Coq Require Import Floats.

(* ------------------------------------------------------------------ *)
(* from_rgba_i32 *)

Lemma from_rgba_i32_inv r g b a p :
  from_rgba_i32 r g b a = Some p -> p = (r, g, b, a) /\ pix_wf p.
Proof.
  unfold from_rgba_i32.
  destruct (in_u8 r) eqn:Hr; cbn [andb]; [|discriminate].
  destruct (in_u8 g) eqn:Hg; cbn [andb]; [|discriminate].
  destruct (in_u8 b) eqn:Hb; cbn [andb]; [|discriminate].
  destruct (in_u8 a) eqn:Ha; [|discriminate].
  intros [= <-]. split; [reflexivity|].
  cbn [pix_wf]. auto using in_u8_byte.
Qed.

Lemma from_rgba_i32_ok r g b a :
  is_byte r -> is_byte g -> is_byte b -> is_byte a -> from_rgba_i32 r g b a = Some (r, g, b, a).
Proof. intros Hr Hg Hb Ha. unfold from_rgba_i32. rewrite !in_u8_true by assumption. reflexivity. Qed.

(* ------------------------------------------------------------------ *)
(* normal() *)

(* the result alpha of normal() as a function of the two alphas and the opacity *)
Definition normal_alpha (ba sa o : Z) : Z :=
  if ba =? 0 then mul_un8 sa o
  else if sa =? 0 then ba
  else res_alpha ba (mul_un8 sa o).

Lemma normal_alpha_of b s o n :
  normal b s o = Some n -> pix_alpha n = normal_alpha (pix_alpha b) (pix_alpha s) o.
Proof.
  destruct b as [[[br bg] bb] ba], s as [[[sr sg] sb] sa].
  unfold normal, normal_alpha, res_alpha. cbn [pix_alpha]. cbv zeta.
  destruct (ba =? 0).
  - intros H. apply from_rgba_i32_inv in H. destruct H as [-> _]. reflexivity.
  - destruct (sa =? 0).
    + intros [= <-]. reflexivity.
    + destruct (_ =? 0); [discriminate|].
      intros H. apply from_rgba_i32_inv in H. destruct H as [-> _]. reflexivity.
Qed.

Lemma normal_wf_out b s o n : pix_wf b -> normal b s o = Some n -> pix_wf n.
Proof.
  destruct b as [[[br bg] bb] ba], s as [[[sr sg] sb] sa].
  unfold normal. cbv zeta. intros Hb.
  destruct (ba =? 0).
  - intros H. apply from_rgba_i32_inv in H. tauto.
  - destruct (sa =? 0).
    + intros [= <-]. exact Hb.
    + destruct (_ =? 0); [discriminate|].
      intros H. apply from_rgba_i32_inv in H. tauto.
Qed.

Lemma normal_total b s o : pix_wf b -> pix_wf s -> is_byte o ->
  exists n, normal b s o = Some n /\ pix_wf n.
Proof.
  destruct b as [[[br bg] bb] ba], s as [[[sr sg] sb] sa].
  cbn [pix_wf]. intros (Hbr & Hbg & Hbb & Hba) (Hsr & Hsg & Hsb & Hsa) Ho.
  unfold normal. cbv zeta.
  destruct (Z.eqb_spec ba 0) as [Eb|Eb].
  - rewrite from_rgba_i32_ok by auto using mul_un8_byte.
    eexists. split; [reflexivity|]. cbn [pix_wf]. auto using mul_un8_byte.
  - destruct (Z.eqb_spec sa 0) as [Es|Es].
    + eexists. split; [reflexivity|]. cbn [pix_wf]. auto.
    + pose proof (mul_un8_byte sa o) as Hsa'.
      pose proof (res_alpha_facts ba (mul_un8 sa o) Hba Eb Hsa') as (R0 & R1 & R2).
      fold (res_alpha ba (mul_un8 sa o)).
      destruct (Z.eqb_spec (res_alpha ba (mul_un8 sa o)) 0) as [E|E]; [lia|].
      fold (normal_chan br sr (mul_un8 sa o) (res_alpha ba (mul_un8 sa o))).
      fold (normal_chan bg sg (mul_un8 sa o) (res_alpha ba (mul_un8 sa o))).
      fold (normal_chan bb sb (mul_un8 sa o) (res_alpha ba (mul_un8 sa o))).
      assert (Hra : is_byte (res_alpha ba (mul_un8 sa o))) by (unfold is_byte in *; lia).
      rewrite from_rgba_i32_ok by auto using normal_chan_byte.
      eexists. split; [reflexivity|]. cbn [pix_wf]. auto using normal_chan_byte.
Qed.

Lemma normal_src_transparent b s o :
  pix_alpha b <> 0 -> pix_alpha s = 0 -> normal b s o = Some b.
Proof.
  destruct b as [[[br bg] bb] ba], s as [[[sr sg] sb] sa]. cbn [pix_alpha].
  intros Hb ->. unfold normal.
  destruct (Z.eqb_spec ba 0) as [E|E]; [contradiction|]. reflexivity.
Qed.

Lemma normal_zero_opacity b s : pix_wf b -> pix_alpha b <> 0 -> normal b s 0 = Some b.
Proof.
  destruct b as [[[br bg] bb] ba], s as [[[sr sg] sb] sa]. cbn [pix_alpha pix_wf].
  intros (Hbr & Hbg & Hbb & Hba) Hb. unfold normal. cbv zeta.
  destruct (Z.eqb_spec ba 0) as [E|E]; [contradiction|].
  destruct (sa =? 0); [reflexivity|].
  rewrite !mul_un8_0_r, Z.add_0_l, Z.sub_0_r.
  destruct (Z.eqb_spec ba 0) as [E'|_]; [contradiction|].
  fold (normal_chan br sr 0 ba). fold (normal_chan bg sg 0 ba). fold (normal_chan bb sb 0 ba).
  rewrite !normal_chan_zero. apply from_rgba_i32_ok; assumption.
Qed.

Lemma normal_over_transparent b s o : pix_wf s -> pix_alpha b = 0 ->
  normal b s o =
  Some (let '(sr, sg, sb, sa) := s in (sr, sg, sb, mul_un8 sa o)).
Proof.
  destruct b as [[[br bg] bb] ba], s as [[[sr sg] sb] sa]. cbn [pix_alpha pix_wf].
  intros (Hsr & Hsg & Hsb & Hsa) ->. unfold normal. cbn [Z.eqb].
  apply from_rgba_i32_ok; auto using mul_un8_byte.
Qed.

Lemma normal_opaque b s : pix_wf b -> pix_wf s -> pix_alpha s = 255 -> normal b s 255 = Some s.
Proof.
  destruct b as [[[br bg] bb] ba], s as [[[sr sg] sb] sa]. cbn [pix_alpha pix_wf].
  intros (Hbr & Hbg & Hbb & Hba) (Hsr & Hsg & Hsb & Hsa) ->. unfold normal. cbv zeta.
  change (mul_un8 255 255) with 255.
  destruct (Z.eqb_spec ba 0) as [E|E].
  - apply from_rgba_i32_ok; auto.
  - cbn [Z.eqb]. rewrite (mul_un8_255_r ba Hba).
    replace (255 + ba - ba) with 255 by ring. cbn [Z.eqb].
    fold (normal_chan br sr 255 255). fold (normal_chan bg sg 255 255). fold (normal_chan bb sb 255 255).
    rewrite !normal_chan_full. apply from_rgba_i32_ok; auto.
Qed.

(* ------------------------------------------------------------------ *)
(* merge() *)

Lemma merge_self p o : pix_wf p -> pix_alpha p <> 0 -> merge p p o = p.
Proof.
  destruct p as [[[r g] b] a]. cbn [pix_alpha pix_wf]. intros (Hr & Hg & Hb & Ha) Hnz.
  unfold merge. destruct (Z.eqb_spec a 0) as [E|E]; [contradiction|].
  rewrite !blend8_same by assumption.
  destruct (Z.eqb_spec a 0) as [E'|_]; [contradiction|]. reflexivity.
Qed.

Lemma merge_alpha n x o :
  pix_wf n -> pix_alpha x = pix_alpha n -> pix_alpha (merge n x o) = pix_alpha n.
Proof.
  destruct n as [[[nr ng] nb] na], x as [[[xr xg] xb] xa]. cbn [pix_alpha pix_wf].
  intros (_ & _ & _ & Ha) ->. unfold merge.
  destruct (if na =? 0 then _ else _) as [[rr rg] rb].
  rewrite blend8_same by assumption.
  destruct (Z.eqb_spec na 0) as [E|E]; cbn [pix_alpha]; congruence.
Qed.

Lemma merge_wf n x o : pix_wf n -> pix_wf x -> is_byte o -> pix_wf (merge n x o).
Proof.
  destruct n as [[[nr ng] nb] na], x as [[[xr xg] xb] xa]. cbn [pix_wf].
  intros (Hnr & Hng & Hnb & Hna) (Hxr & Hxg & Hxb & Hxa) Ho. unfold merge.
  assert (Z0 : is_byte 0) by (unfold is_byte; lia).
  destruct (na =? 0); [|destruct (xa =? 0)];
    (destruct (blend8 na xa o =? 0); cbn [pix_wf]; auto 8 using blend8_byte).
Qed.

(* ------------------------------------------------------------------ *)
(* the side condition on the colour function and the laws of the wrapper *)

(* f replaces the colour of the source, keeps its alpha, and ends in normal() *)
Definition baseline_ok (f : pixel -> pixel -> Z -> option pixel) : Prop :=
  forall b s o x, f b s o = Some x ->
    exists s', pix_alpha s' = pix_alpha s /\ normal b s' o = Some x.

Lemma blender_inv f b s o p : blender f b s o = Some p ->
  (pix_alpha b = 0 /\ normal b s o = Some p) \/
  (pix_alpha b <> 0 /\ exists n x, normal b s o = Some n /\ f b s o = Some x /\
     p = merge (merge n x (pix_alpha b)) x (mul_un8 (pix_alpha b) (mul_un8 (pix_alpha s) o))).
Proof.
  unfold blender. destruct (Z.eqb_spec (pix_alpha b) 0) as [E|E]; cbn [negb].
  - intros H. left. auto.
  - intros H. right. split; [exact E|].
    destruct (normal b s o) as [n|]; cbn [obind] in H; [|discriminate].
    destruct (f b s o) as [x|]; cbn [obind] in H; [|discriminate].
    injection H as <-. eauto.
Qed.

Lemma blender_alpha f b s o p q : baseline_ok f -> pix_wf b ->
  blender f b s o = Some p -> normal b s o = Some q -> pix_alpha p = pix_alpha q.
Proof.
  intros Hf Hb Hp Hq. apply blender_inv in Hp.
  destruct Hp as [[_ Hp]|(Hnz & n & x & Hn & Hx & ->)]; [congruence|].
  rewrite Hq in Hn. injection Hn as <-.
  destruct (Hf _ _ _ _ Hx) as (s' & Hs' & Hn').
  assert (Ea : pix_alpha x = pix_alpha q).
  { rewrite (normal_alpha_of _ _ _ _ Hn'), (normal_alpha_of _ _ _ _ Hq), Hs'. reflexivity. }
  assert (Hqwf : pix_wf q) by exact (normal_wf_out _ _ _ _ Hb Hq).
  assert (Hxwf : pix_wf x) by exact (normal_wf_out _ _ _ _ Hb Hn').
  assert (Hba : is_byte (pix_alpha b))
    by (destruct b as [[[? ?] ?] ?]; cbn [pix_wf pix_alpha] in *; tauto).
  rewrite merge_alpha.
  - apply merge_alpha; assumption.
  - apply merge_wf; assumption.
  - rewrite merge_alpha; assumption.
Qed.

(* whenever normal() and f both return the backdrop, so does the wrapper *)
Lemma blender_fix f b s o p : baseline_ok f -> pix_wf b -> pix_alpha b <> 0 ->
  (forall s', pix_alpha s' = pix_alpha s -> normal b s' o = Some b) ->
  blender f b s o = Some p -> p = b.
Proof.
  intros Hf Hb Hnz Hnorm Hp. apply blender_inv in Hp.
  destruct Hp as [[E _]|(_ & n & x & Hn & Hx & ->)]; [contradiction|].
  rewrite (Hnorm s eq_refl) in Hn. injection Hn as <-.
  destruct (Hf _ _ _ _ Hx) as (s' & Hs' & Hn').
  rewrite (Hnorm s' Hs') in Hn'. injection Hn' as <-.
  rewrite !merge_self by assumption. reflexivity.
Qed.

(* ------------------------------------------------------------------ *)
(* every baseline function satisfies the side condition (no float reasoning) *)

Lemma ok_normal : baseline_ok normal.
Proof. intros b s o x H. exists s. auto. Qed.

Lemma ok_blend_channel g : baseline_ok (blend_channel g).
Proof.
  intros [[[br bg] bb] ba] [[[sr sg] sb] sa] o x. unfold blend_channel.
  destruct (g br sr) as [r|]; cbn [obind]; [|discriminate].
  destruct (g bg sg) as [g'|]; cbn [obind]; [|discriminate].
  destruct (g bb sb) as [b'|]; cbn [obind]; [|discriminate].
  intros H. exists (r, g', b', sa). auto.
Qed.

(* "compute a replacement source pixel with from_rgba_i32 .. sa, then normal()" *)
Lemma ok_replace (r g b a : Z) (bk s : pixel) o x :
  pix_alpha s = a ->
  (s' <-? from_rgba_i32 r g b a ;; normal bk s' o) = Some x ->
  exists s', pix_alpha s' = pix_alpha s /\ normal bk s' o = Some x.
Proof.
  intros Ha. destruct (from_rgba_i32 r g b a) as [s'|] eqn:E; cbn [obind]; [|discriminate].
  intros H. exists s'. split; [|exact H].
  apply from_rgba_i32_inv in E. destruct E as [-> _]. cbn [pix_alpha]. auto.
Qed.

Lemma ok_soft_light : baseline_ok soft_light_baseline.
Proof.
  intros [[[br bg] bb] ba] [[[sr sg] sb] sa] o x. unfold soft_light_baseline.
  apply ok_replace. reflexivity.
Qed.
Lemma ok_addition : baseline_ok addition_baseline.
Proof.
  intros [[[br bg] bb] ba] [[[sr sg] sb] sa] o x. unfold addition_baseline.
  apply ok_replace. reflexivity.
Qed.
Lemma ok_subtract : baseline_ok subtract_baseline.
Proof.
  intros [[[br bg] bb] ba] [[[sr sg] sb] sa] o x. unfold subtract_baseline.
  apply ok_replace. reflexivity.
Qed.

Lemma ok_from_rgb_f64 (c : f3) (bk s : pixel) o x :
  (s' <-? from_rgb_f64 c (pix_alpha s) ;; normal bk s' o) = Some x ->
  exists s', pix_alpha s' = pix_alpha s /\ normal bk s' o = Some x.
Proof. destruct c as [[r g] b]. unfold from_rgb_f64. apply ok_replace. reflexivity. Qed.

Lemma ok_hsl_hue : baseline_ok hsl_hue_baseline.
Proof. intros b s o x. unfold hsl_hue_baseline. cbv zeta. apply ok_from_rgb_f64. Qed.
Lemma ok_hsl_saturation : baseline_ok hsl_saturation_baseline.
Proof. intros b s o x. unfold hsl_saturation_baseline. cbv zeta. apply ok_from_rgb_f64. Qed.
Lemma ok_hsl_color : baseline_ok hsl_color_baseline.
Proof. intros b s o x. unfold hsl_color_baseline. cbv zeta. apply ok_from_rgb_f64. Qed.
Lemma ok_hsl_luminosity : baseline_ok hsl_luminosity_baseline.
Proof. intros b s o x. unfold hsl_luminosity_baseline. cbv zeta. apply ok_from_rgb_f64. Qed.

(* all mode ids: ids outside 1..18 are mapped to normal by `baseline` *)
Lemma baseline_ok_all m : baseline_ok (baseline m).
Proof.
  unfold baseline.
  repeat match goal with
         | |- baseline_ok (match ?p with _ => _ end) => destruct p
         end;
  first [ exact ok_normal | apply ok_blend_channel | exact ok_soft_light | exact ok_addition
        | exact ok_subtract | exact ok_hsl_hue | exact ok_hsl_saturation | exact ok_hsl_color
        | exact ok_hsl_luminosity ].
Qed.

(* ------------------------------------------------------------------ *)
(* C17: the five structural laws, for every mode id m (in particular 0..18), all byte
   pixels and every opacity *)

Lemma blend_cases m b s o :
  (m = 0 /\ blend m b s o = normal b s o) \/
  (m <> 0 /\ blend m b s o = blender (baseline m) b s o).
Proof. unfold blend. destruct (Z.eqb_spec m 0); auto. Qed.

Theorem C17_alpha_all m b s o p q :
  pix_wf b -> pix_wf s -> is_byte o ->
  blend m b s o = Some p -> blend 0 b s o = Some q -> pix_alpha p = pix_alpha q.
Proof.
  intros Hb _ _ Hp Hq. change (blend 0 b s o) with (normal b s o) in Hq.
  destruct (blend_cases m b s o) as [[_ E]|[_ E]]; rewrite E in Hp.
  - congruence.
  - eapply blender_alpha; eauto using baseline_ok_all.
Qed.

Theorem C17_src_transparent_all m b s o p :
  pix_wf b -> pix_wf s -> is_byte o ->
  pix_alpha b <> 0 -> pix_alpha s = 0 -> blend m b s o = Some p -> p = b.
Proof.
  intros Hb _ _ Hnz Hs Hp.
  destruct (blend_cases m b s o) as [[_ E]|[_ E]]; rewrite E in Hp.
  - rewrite (normal_src_transparent b s o Hnz Hs) in Hp. congruence.
  - eapply blender_fix; eauto using baseline_ok_all.
    intros s' Hs'. apply normal_src_transparent; congruence.
Qed.

Theorem C17_zero_opacity_all m b s p :
  pix_wf b -> pix_wf s ->
  pix_alpha b <> 0 -> blend m b s 0 = Some p -> p = b.
Proof.
  intros Hb _ Hnz Hp.
  destruct (blend_cases m b s 0) as [[_ E]|[_ E]]; rewrite E in Hp.
  - rewrite (normal_zero_opacity b s Hb Hnz) in Hp. congruence.
  - eapply blender_fix; eauto using baseline_ok_all.
    intros s' _. apply normal_zero_opacity; assumption.
Qed.

(* the renderer passes opacity = mul_un8 (layer opacity) (cel opacity) *)
Corollary C17_zero_opacity_layer m b s lo co p :
  pix_wf b -> pix_wf s -> mul_un8 lo co = 0 ->
  pix_alpha b <> 0 -> blend m b s (mul_un8 lo co) = Some p -> p = b.
Proof. intros Hb Hs ->. apply C17_zero_opacity_all; assumption. Qed.

(* over a transparent backdrop every mode returns the source colour with alpha
   mul_un8 (alpha s) o; the model's normal() does NOT zero the colour when that alpha is 0 *)
Theorem C17_over_transparent_all m b s o :
  pix_wf b -> pix_wf s -> is_byte o ->
  pix_alpha b = 0 ->
  blend m b s o = Some (let '(sr, sg, sb, sa) := s in (sr, sg, sb, mul_un8 sa o)).
Proof.
  intros _ Hs _ Hz.
  destruct (blend_cases m b s o) as [[_ E]|[_ E]]; rewrite E.
  - apply normal_over_transparent; assumption.
  - unfold blender. rewrite Hz. cbn [Z.eqb negb]. apply normal_over_transparent; assumption.
Qed.

Theorem C17_normal_opaque_all b s :
  pix_wf b -> pix_wf s -> pix_alpha s = 255 -> blend 0 b s 255 = Some s.
Proof. intros Hb Hs Ha. change (blend 0 b s 255) with (normal b s 255). apply normal_opaque; assumption. Qed.

(* ------------------------------------------------------------------ *)
(* C17_range: no panic and a byte-valued result *)

Definition total_wf (f : pixel -> pixel -> Z -> option pixel) : Prop :=
  forall b s o, pix_wf b -> pix_wf s -> is_byte o -> exists x, f b s o = Some x /\ pix_wf x.

Lemma pix_alpha_byte p : pix_wf p -> is_byte (pix_alpha p).
Proof. destruct p as [[[? ?] ?] ?]. cbn [pix_wf pix_alpha]. tauto. Qed.

Lemma blender_some f b s o x : pix_wf b -> pix_wf s -> is_byte o ->
  f b s o = Some x -> pix_wf x -> exists p, blender f b s o = Some p /\ pix_wf p.
Proof.
  intros Hb Hs Ho Hx Hxwf.
  destruct (normal_total b s o Hb Hs Ho) as (n & Hn & Hnwf).
  unfold blender. destruct (pix_alpha b =? 0); cbn [negb].
  - eauto.
  - rewrite Hn, Hx. cbn [obind]. eexists. split; [reflexivity|].
    pose proof (pix_alpha_byte b Hb).
    apply merge_wf; [apply merge_wf| |]; auto using mul_un8_byte.
Qed.

Lemma blender_total f : total_wf f -> total_wf (blender f).
Proof.
  intros Hf b s o Hb Hs Ho. destruct (Hf b s o Hb Hs Ho) as (x & Hx & Hxwf).
  eapply blender_some; eassumption.
Qed.

Definition chan_total (g : Z -> Z -> option Z) : Prop :=
  forall a b, is_byte a -> is_byte b -> exists c, g a b = Some c /\ is_byte c.

Lemma blend_channel_total g : chan_total g -> total_wf (blend_channel g).
Proof.
  intros Hg [[[br bg] bb] ba] [[[sr sg] sb] sa] o Hb Hs Ho. pose proof Hb as Hb'. pose proof Hs as Hs'.
  cbn [pix_wf] in Hb', Hs'. destruct Hb' as (Hbr & Hbg & Hbb & Hba), Hs' as (Hsr & Hsg & Hsb & Hsa).
  unfold blend_channel.
  destruct (Hg br sr Hbr Hsr) as (r & -> & Hr).
  destruct (Hg bg sg Hbg Hsg) as (g' & -> & Hg').
  destruct (Hg bb sb Hbb Hsb) as (b' & -> & Hb2).
  cbn [obind]. apply normal_total; cbn [pix_wf]; auto.
Qed.

Lemma ct_multiply : chan_total blend_multiply.
Proof. intros a b _ _. eexists. split; [reflexivity|apply mul_un8_byte]. Qed.
Lemma ct_screen : chan_total blend_screen.
Proof. intros a b _ _. eexists. split; [reflexivity|apply as_u8_byte]. Qed.
Lemma ct_hard_light : chan_total blend_hard_light.
Proof.
  intros a b _ _. unfold blend_hard_light, blend_multiply, blend_screen.
  destruct (b <? 128); eexists; (split; [reflexivity|]); auto using mul_un8_byte, as_u8_byte.
Qed.
Lemma ct_overlay : chan_total blend_overlay.
Proof. intros a b Ha Hb. unfold blend_overlay. apply ct_hard_light; assumption. Qed.
Lemma ct_darken : chan_total blend_darken.
Proof. intros a b _ _. eexists. split; [reflexivity|apply as_u8_byte]. Qed.
Lemma ct_lighten : chan_total blend_lighten.
Proof. intros a b _ _. eexists. split; [reflexivity|apply as_u8_byte]. Qed.
Lemma ct_difference : chan_total blend_difference.
Proof. intros a b _ _. eexists. split; [reflexivity|apply as_u8_byte]. Qed.
Lemma ct_exclusion : chan_total blend_exclusion.
Proof. intros a b _ _. eexists. split; [reflexivity|apply as_u8_byte]. Qed.

Lemma ct_color_dodge : chan_total blend_color_dodge.
Proof.
  intros b s Hb Hs. unfold blend_color_dodge.
  destruct (Z.eqb_spec b 0) as [E|E].
  - exists 0. split; [reflexivity|unfold is_byte; lia].
  - rewrite Z.geb_leb. destruct (Z.leb_spec (255 - s) b) as [L|L].
    + exists 255. split; [reflexivity|unfold is_byte; lia].
    + destruct (div_un8_some b (255 - s) Hb ltac:(unfold is_byte in *; lia) L) as [-> H].
      eauto.
Qed.

Lemma ct_color_burn : chan_total blend_color_burn.
Proof.
  intros b s Hb Hs. unfold blend_color_burn.
  destruct (Z.eqb_spec b 255) as [E|E].
  - exists 255. split; [reflexivity|unfold is_byte; lia].
  - rewrite Z.geb_leb. destruct (Z.leb_spec s (255 - b)) as [L|L].
    + exists 0. split; [reflexivity|unfold is_byte; lia].
    + destruct (div_un8_some (255 - b) s ltac:(unfold is_byte in *; lia) Hs L) as [-> H].
      cbn [obind]. destruct (Z.ltb_spec (255 - div_raw (255 - b) s) 0) as [L'|L'].
      * unfold is_byte in H. lia.
      * eexists. split; [reflexivity|]. unfold is_byte in *. lia.
Qed.

Lemma ct_divide : chan_total blend_divide.
Proof.
  intros b s Hb Hs. unfold blend_divide.
  destruct (Z.eqb_spec b 0) as [E|E].
  - exists 0. split; [reflexivity|unfold is_byte; lia].
  - rewrite Z.geb_leb. destruct (Z.leb_spec s b) as [L|L].
    + exists 255. split; [reflexivity|unfold is_byte; lia].
    + destruct (div_un8_some b s Hb Hs L) as [-> H]. eauto.
Qed.

Lemma replace_total r g b a bk o : is_byte r -> is_byte g -> is_byte b -> is_byte a ->
  pix_wf bk -> is_byte o ->
  exists x, (s' <-? from_rgba_i32 r g b a ;; normal bk s' o) = Some x /\ pix_wf x.
Proof.
  intros Hr Hg Hb Ha Hbk Ho. rewrite from_rgba_i32_ok by assumption. cbn [obind].
  apply normal_total; cbn [pix_wf]; auto.
Qed.

Lemma addition_total : total_wf addition_baseline.
Proof.
  intros [[[br bg] bb] ba] [[[sr sg] sb] sa] o Hb Hs Ho. pose proof Hb as Hb'. pose proof Hs as Hs'.
  cbn [pix_wf] in Hb', Hs'. destruct Hb' as (Hbr & Hbg & Hbb & Hba), Hs' as (Hsr & Hsg & Hsb & Hsa).
  unfold addition_baseline. apply replace_total; auto; unfold is_byte in *; lia.
Qed.

Lemma subtract_total : total_wf subtract_baseline.
Proof.
  intros [[[br bg] bb] ba] [[[sr sg] sb] sa] o Hb Hs Ho. pose proof Hb as Hb'. pose proof Hs as Hs'.
  cbn [pix_wf] in Hb', Hs'. destruct Hb' as (Hbr & Hbg & Hbb & Hba), Hs' as (Hsr & Hsg & Hsb & Hsa).
  unfold subtract_baseline. apply replace_total; auto; unfold is_byte in *; lia.
Qed.

(* Normal and the 14 integer modes *)
Definition int_modes : list Z := [0; 1; 2; 3; 4; 5; 6; 7; 8; 10; 11; 16; 17; 18].
Definition int_mode (m : Z) : Prop := In m int_modes.

Lemma baseline_total_int m : int_mode m -> m <> 0 -> total_wf (baseline m).
Proof.
  unfold int_mode, int_modes. intros H Hnz. cbn [In] in H.
  repeat (destruct H as [<-|H]); try contradiction; try (exfalso; apply Hnz; reflexivity);
    cbn [baseline];
    first [ apply blend_channel_total;
            first [ exact ct_multiply | exact ct_screen | exact ct_overlay | exact ct_darken
                  | exact ct_lighten | exact ct_color_dodge | exact ct_color_burn
                  | exact ct_hard_light | exact ct_difference | exact ct_exclusion | exact ct_divide ]
          | exact addition_total | exact subtract_total ].
Qed.

Theorem C17_range_int m b s o :
  int_mode m -> pix_wf b -> pix_wf s -> is_byte o ->
  exists p, blend m b s o = Some p /\ pix_wf p.
Proof.
  intros Hm Hb Hs Ho.
  destruct (blend_cases m b s o) as [[_ E]|[Hnz E]]; rewrite E.
  - apply normal_total; assumption.
  - apply blender_total; auto using baseline_total_int.
Qed.

(* the same facts without the dispatch function `baseline` (whose body mentions the float
   modes): the 13 integer colour functions, listed explicitly.  Closed under the global context. *)
Definition int_baselines : list (pixel -> pixel -> Z -> option pixel) :=
  [ blend_channel blend_multiply; blend_channel blend_screen; blend_channel blend_overlay;
    blend_channel blend_darken; blend_channel blend_lighten; blend_channel blend_color_dodge;
    blend_channel blend_color_burn; blend_channel blend_hard_light; blend_channel blend_difference;
    blend_channel blend_exclusion; addition_baseline; subtract_baseline;
    blend_channel blend_divide ].

Lemma int_baselines_ok_total : Forall (fun f => baseline_ok f /\ total_wf f) int_baselines.
Proof.
  unfold int_baselines.
  repeat (apply Forall_cons; [split;
    [ first [apply ok_blend_channel | exact ok_addition | exact ok_subtract]
    | first [ apply blend_channel_total;
              first [ exact ct_multiply | exact ct_screen | exact ct_overlay | exact ct_darken
                    | exact ct_lighten | exact ct_color_dodge | exact ct_color_burn
                    | exact ct_hard_light | exact ct_difference | exact ct_exclusion
                    | exact ct_divide ]
            | exact addition_total | exact subtract_total ] ]|]).
  apply Forall_nil.
Qed.

(* ---- soft light: the 65 536-point sweep over primitive floats ---- *)

Lemma soft_light_byte b s : is_byte b -> is_byte s -> is_byte (blend_soft_light b s).
Proof.
  intros Hb Hs.
  assert (E : sweep2 bytes bytes (fun b s => is_byteb (blend_soft_light b s)) = true)
    by (vm_compute; reflexivity).
  pose proof (sweep_bytes2 _ E b s Hb Hs) as S. cbv beta in S.
  unfold is_byteb in S. apply andb_prop in S. destruct S as [S1 S2].
  apply Z.leb_le in S1. apply Z.ltb_lt in S2. unfold is_byte. lia.
Qed.

Lemma soft_light_total : total_wf soft_light_baseline.
Proof.
  intros [[[br bg] bb] ba] [[[sr sg] sb] sa] o Hb Hs Ho. pose proof Hb as Hb'. pose proof Hs as Hs'.
  cbn [pix_wf] in Hb', Hs'. destruct Hb' as (Hbr & Hbg & Hbb & Hba), Hs' as (Hsr & Hsg & Hsb & Hsa).
  unfold soft_light_baseline. apply replace_total; auto using soft_light_byte.
Qed.

Theorem C17_range_soft b s o :
  pix_wf b -> pix_wf s -> is_byte o ->
  exists p, blend 9 b s o = Some p /\ pix_wf p.
Proof.
  intros Hb Hs Ho. change (blend 9 b s o) with (blender soft_light_baseline b s o).
  apply blender_total; auto using soft_light_total.
Qed.

(* ---- the four HSL modes: exact characterisation of the only failure ---- *)

Definition hsl_mode (m : Z) : Prop := m = 12 \/ m = 13 \/ m = 14 \/ m = 15.

(* the replacement source colour computed by the baseline function of mode m *)
Definition hsl_src (m : Z) (b s : pixel) : f3 :=
  if m =? 12 then
    let cb := as_rgb_f64 b in
    set_luminocity (set_saturation (as_rgb_f64 s) (saturation cb)) (luminosity cb)
  else if m =? 13 then
    let cb := as_rgb_f64 b in
    set_luminocity (set_saturation cb (saturation (as_rgb_f64 s))) (luminosity cb)
  else if m =? 14 then
    set_luminocity (as_rgb_f64 s) (luminosity (as_rgb_f64 b))
  else
    set_luminocity (as_rgb_f64 b) (luminosity (as_rgb_f64 s)).

(* computable guard: the four debug_assert! of from_rgba_i32, reached through from_rgb_f64,
   hold for the colour computed in floating point *)
Definition hsl_ok (m : Z) (b s : pixel) : bool :=
  match from_rgb_f64 (hsl_src m b s) (pix_alpha s) with Some _ => true | None => false end.

Lemma hsl_baseline_eq m b s o : hsl_mode m ->
  baseline m b s o = (s' <-? from_rgb_f64 (hsl_src m b s) (pix_alpha s) ;; normal b s' o).
Proof. intros [-> | [-> | [-> | ->]]]; reflexivity. Qed.

(* the full goal: needs a floating-point error analysis of set_saturation / clip_color *)
Definition goal_C17_range_hsl : Prop :=
  forall m b s o, hsl_mode m -> pix_wf b -> pix_wf s -> is_byte o ->
    exists p, blend m b s o = Some p /\ pix_wf p.

Lemma blend_hsl_unfold m b s o : hsl_mode m -> blend m b s o = blender (baseline m) b s o.
Proof. intros [-> | [-> | [-> | ->]]]; reflexivity. Qed.

Theorem C17_range_hsl_partial m b s o :
  hsl_mode m -> pix_wf b -> pix_wf s -> is_byte o ->
  hsl_ok m b s = true ->
  exists p, blend m b s o = Some p /\ pix_wf p.
Proof.
  intros Hm Hb Hs Ho Hok. rewrite (blend_hsl_unfold m b s o Hm).
  unfold hsl_ok in Hok. destruct (from_rgb_f64 (hsl_src m b s) (pix_alpha s)) as [s'|] eqn:E; [|discriminate].
  assert (Hs' : pix_wf s').
  { destruct (hsl_src m b s) as [[r g] b']. unfold from_rgb_f64 in E.
    apply from_rgba_i32_inv in E. tauto. }
  destruct (normal_total b s' o Hb Hs' Ho) as (x & Hx & Hxwf).
  apply (blender_some (baseline m) b s o x); auto.
  rewrite (hsl_baseline_eq m b s o Hm), E. exact Hx.
Qed.

(* the guard is exact: the from_rgb_f64 range check is the only way an HSL mode can fail *)
Theorem C17_range_hsl_only_failure m b s o :
  hsl_mode m -> pix_wf b -> pix_wf s -> is_byte o ->
  (blend m b s o = None <-> (pix_alpha b <> 0 /\ hsl_ok m b s = false)).
Proof.
  intros Hm Hb Hs Ho. split.
  - intros HN. destruct (hsl_ok m b s) eqn:Hok.
    + destruct (C17_range_hsl_partial m b s o Hm Hb Hs Ho Hok) as (p & Hp & _). congruence.
    + split; [|reflexivity]. intros Hz.
      pose proof (C17_over_transparent_all m b s o Hb Hs Ho Hz). congruence.
  - intros [Hnz Hok]. rewrite (blend_hsl_unfold m b s o Hm). unfold blender.
    destruct (Z.eqb_spec (pix_alpha b) 0) as [E|_]; [contradiction|]. cbn [negb].
    destruct (normal b s o); cbn [obind]; [|reflexivity].
    rewrite (hsl_baseline_eq m b s o Hm). unfold hsl_ok in Hok.
    destruct (from_rgb_f64 (hsl_src m b s) (pix_alpha s)); [discriminate|reflexivity].
Qed.

(* so the full goal is equivalent to the guard holding on all byte pixels *)
Lemma goal_C17_range_hsl_iff :
  goal_C17_range_hsl <->
  (forall m b s, hsl_mode m -> pix_wf b -> pix_wf s -> pix_alpha b <> 0 -> hsl_ok m b s = true).
Proof.
  split.
  - intros G m b s Hm Hb Hs Hnz. destruct (hsl_ok m b s) eqn:Hok; [reflexivity|].
    assert (Ho : is_byte 255) by (unfold is_byte; lia).
    destruct (G m b s 255 Hm Hb Hs Ho) as (p & Hp & _).
    pose proof (proj2 (C17_range_hsl_only_failure m b s 255 Hm Hb Hs Ho) (conj Hnz Hok)). congruence.
  - intros G m b s o Hm Hb Hs Ho.
    destruct (Z.eq_dec (pix_alpha b) 0) as [Hz|Hnz].
    + rewrite (C17_over_transparent_all m b s o Hb Hs Ho Hz). eexists. split; [reflexivity|].
      destruct s as [[[sr sg] sb] sa]. cbn [pix_wf] in *. intuition auto using mul_un8_byte.
    + apply C17_range_hsl_partial; auto.
Qed.

(* ------------------------------------------------------------------ *)
(* C17 in the form used by Props/C17.v: mode ids 0..18 *)

Definition mode_id (m : Z) : Prop := 0 <= m <= 18.

Definition stmt_C17_alpha : Prop := forall m b s o p q,
  mode_id m -> pix_wf b -> pix_wf s -> is_byte o ->
  blend m b s o = Some p -> blend 0 b s o = Some q -> pix_alpha p = pix_alpha q.
Lemma C17_alpha_proof : stmt_C17_alpha.
Proof. intros m b s o p q _. apply C17_alpha_all. Qed.

Definition stmt_C17_src_transparent : Prop := forall m b s o p,
  mode_id m -> pix_wf b -> pix_wf s -> is_byte o ->
  pix_alpha b <> 0 -> pix_alpha s = 0 -> blend m b s o = Some p -> p = b.
Lemma C17_src_transparent_proof : stmt_C17_src_transparent.
Proof. intros m b s o p _. apply C17_src_transparent_all. Qed.

Definition stmt_C17_zero_opacity : Prop := forall m b s p,
  mode_id m -> pix_wf b -> pix_wf s ->
  pix_alpha b <> 0 -> blend m b s 0 = Some p -> p = b.
Lemma C17_zero_opacity_proof : stmt_C17_zero_opacity.
Proof. intros m b s p _. apply C17_zero_opacity_all. Qed.

Definition stmt_C17_over_transparent : Prop := forall m b s o,
  mode_id m -> pix_wf b -> pix_wf s -> is_byte o ->
  pix_alpha b = 0 ->
  blend m b s o = Some (let '(sr, sg, sb, sa) := s in (sr, sg, sb, mul_un8 sa o)).
Lemma C17_over_transparent_proof : stmt_C17_over_transparent.
Proof. intros m b s o _. apply C17_over_transparent_all. Qed.

(* ------------------------------------------------------------------ *)
(* the hypotheses are satisfiable on non-trivial values *)

Example C17_alpha_ex :
  let b := (245, 65, 48, 10) in let s := (42, 41, 227, 209) in
  pix_wf b /\ pix_wf s /\ is_byte 200 /\
  blend 1 b s 200 = Some (47, 40, 211, 168) /\ blend 0 b s 200 = Some (47, 42, 222, 168) /\
  blend 13 b s 200 = Some (58, 44, 211, 168).
Proof. cbv zeta. unfold pix_wf, is_byte. repeat split; try lia; vm_compute; reflexivity. Qed.

Example C17_src_transparent_ex :
  let b := (245, 65, 48, 10) in let s := (42, 41, 227, 0) in
  pix_alpha b <> 0 /\ pix_alpha s = 0 /\ blend 6 b s 200 = Some b /\ blend 12 b s 200 = Some b.
Proof. cbv zeta. cbn [pix_alpha]. repeat split; try lia; vm_compute; reflexivity. Qed.

Example C17_zero_opacity_ex :
  let b := (245, 65, 48, 10) in let s := (42, 41, 227, 209) in
  pix_alpha b <> 0 /\ blend 7 b s 0 = Some b /\ blend 9 b s 0 = Some b.
Proof. cbv zeta. cbn [pix_alpha]. repeat split; try lia; vm_compute; reflexivity. Qed.

Example C17_over_transparent_ex :
  let b := (245, 65, 48, 0) in
  pix_alpha b = 0 /\
  blend 11 b (42, 41, 227, 209) 200 = Some (42, 41, 227, 164) /\
  blend 11 b (42, 41, 227, 1) 100 = Some (42, 41, 227, 0).   (* colour kept at alpha 0 *)
Proof. cbv zeta. cbn [pix_alpha]. repeat split; vm_compute; reflexivity. Qed.

Example C17_normal_opaque_ex :
  blend 0 (245, 65, 48, 10) (42, 41, 227, 255) 255 = Some (42, 41, 227, 255).
Proof. vm_compute. reflexivity. Qed.

Example C17_range_int_ex :
  int_mode 18 /\ blend 18 (245, 65, 48, 10) (42, 41, 227, 209) 200 = Some (60, 55, 211, 168).
Proof. split; [unfold int_mode, int_modes; cbn [In]; tauto|vm_compute; reflexivity]. Qed.

Example C17_range_soft_ex :
  blend 9 (245, 65, 48, 10) (42, 41, 227, 209) 200 = Some (59, 42, 214, 168).
Proof. vm_compute. reflexivity. Qed.

Example C17_range_hsl_partial_ex :
  hsl_mode 13 /\ hsl_ok 13 (81, 81, 163, 129) (50, 104, 58, 189) = true /\
  hsl_ok 12 (245, 65, 48, 10) (42, 41, 227, 209) = true.
Proof. unfold hsl_mode. repeat split; try tauto; vm_compute; reflexivity. Qed.
