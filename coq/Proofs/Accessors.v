(* Laws of the lookup accessors of Model/Api.v: lookups by name return the lowest-numbered
   match, optional lookups return nothing exactly when out of range, iteration visits
   every index once in order. *)
From Ase Require Import Model.Api Proofs.ArrLemmas.

(* ------------------------------------------------------------------ *)
(* string comparison *)

Theorem list_eqb_eq a b : list_eqb a b = true <-> a = b.
Proof.
  unfold list_eqb. revert b. induction a as [|x a IH]; intros [|y b]; cbn [length combine forallb Nat.eqb andb fst snd].
  - split; reflexivity.
  - split; discriminate.
  - split; discriminate.
  - specialize (IH b). split.
    + intros H. apply andb_prop in H. destruct H as (Hl & H). apply andb_prop in H. destruct H as (Hxy & Hf).
      apply Z.eqb_eq in Hxy. subst y. f_equal. apply IH. now rewrite Hl, Hf.
    + intros [= -> ->]. destruct IH as (_ & IH). specialize (IH eq_refl).
      apply andb_prop in IH. destruct IH as (Hl & Hf). now rewrite Hl, Z.eqb_refl, Hf.
Qed.

Corollary list_eqb_neq a b : list_eqb a b = false <-> a <> b.
Proof.
  split.
  - intros H E. apply list_eqb_eq in E. congruence.
  - intros H. destruct (list_eqb a b) eqn:E; [|reflexivity]. apply list_eqb_eq in E. contradiction.
Qed.

(* ------------------------------------------------------------------ *)
(* first match over 0 .. n-1 *)

Lemma find_zrange (p : Z -> bool) : forall n lo i, find p (zrange lo n) = Some i ->
  lo <= i < lo + Z.of_nat n /\ p i = true /\ forall j, lo <= j < i -> p j = false.
Proof.
  induction n as [|n IH]; intros lo i; cbn [zrange find]; [discriminate|].
  destruct (p lo) eqn:P.
  - intros [= <-]. split; [lia|]. split; [exact P|]. intros j Hj. lia.
  - intros H. apply IH in H. destruct H as (Hr & Hp & Hlow). split; [lia|]. split; [exact Hp|].
    intros j Hj. destruct (Z.eq_dec j lo) as [->|Hne]; [exact P|]. apply Hlow. lia.
Qed.

Lemma find_zrange_none (p : Z -> bool) : forall n lo,
  find p (zrange lo n) = None <-> forall j, lo <= j < lo + Z.of_nat n -> p j = false.
Proof.
  induction n as [|n IH]; intros lo; cbn [zrange find].
  - split; [intros _ j Hj; lia|reflexivity].
  - destruct (p lo) eqn:P.
    + split; [discriminate|]. intros H. rewrite H in P by lia. discriminate.
    + rewrite IH. split; intros H j Hj.
      * destruct (Z.eq_dec j lo) as [->|Hne]; [exact P|]. apply H. lia.
      * apply H. lia.
Qed.

Lemma find_ziota (p : Z -> bool) n i : find p (ziota n) = Some i ->
  0 <= i < n /\ p i = true /\ forall j, 0 <= j < i -> p j = false.
Proof.
  unfold ziota. intros H. apply find_zrange in H. destruct H as (Hr & Hp & Hlow).
  split; [lia|]. split; [exact Hp|]. intros j Hj. apply Hlow. lia.
Qed.

Lemma find_ziota_none (p : Z -> bool) n : find p (ziota n) = None <-> forall j, 0 <= j < n -> p j = false.
Proof.
  unfold ziota. rewrite find_zrange_none. split; intros H j Hj; apply H; lia.
Qed.

(* ------------------------------------------------------------------ *)
(* layer_by_name *)

Theorem layer_by_name_lowest f name i :
  layer_by_name f name = Some i ->
  0 <= i < num_layers f /\
  (exists l, aget (f_layers f) i = Some l /\ l_name l = name) /\
  (forall j l, 0 <= j < i -> aget (f_layers f) j = Some l -> l_name l <> name).
Proof.
  unfold layer_by_name. intros H. apply find_ziota in H. destruct H as (Hr & Hp & Hlow).
  split; [exact Hr|]. split.
  - destruct (aget (f_layers f) i) as [l|]; [|discriminate]. exists l. split; [reflexivity|].
    now apply list_eqb_eq.
  - intros j l Hj Hl. specialize (Hlow j Hj). rewrite Hl in Hlow. now apply list_eqb_neq.
Qed.

Theorem layer_by_name_none f name :
  layer_by_name f name = None <-> forall j l, aget (f_layers f) j = Some l -> l_name l <> name.
Proof.
  unfold layer_by_name. rewrite find_ziota_none. split.
  - intros H j l Hl. apply aget_some_range in Hl as Hr. specialize (H j Hr). rewrite Hl in H.
    now apply list_eqb_neq.
  - intros H j Hj. destruct (aget (f_layers f) j) as [l|] eqn:Hl; [|reflexivity].
    apply list_eqb_neq. now apply (H j).
Qed.

(* a layer with that name exists -> the lookup finds one (the lowest) *)
Corollary layer_by_name_found f name j l :
  aget (f_layers f) j = Some l -> l_name l = name ->
  exists i, layer_by_name f name = Some i /\ i <= j.
Proof.
  intros Hl Hn. destruct (layer_by_name f name) as [i|] eqn:E.
  - exists i. split; [reflexivity|]. destruct (layer_by_name_lowest _ _ _ E) as (_ & _ & Hlow).
    destruct (Z_le_gt_dec i j) as [Hle|Hgt]; [exact Hle|]. exfalso.
    apply aget_some_range in Hl as Hr. apply (Hlow j l); [lia|exact Hl|exact Hn].
  - exfalso. rewrite layer_by_name_none in E. exact (E j l Hl Hn).
Qed.

(* ------------------------------------------------------------------ *)
(* tag_by_name, get_tag *)

Lemma find_index_spec {A} (p : A -> bool) (l : list A) : forall s i,
  find_index p l s = Some i ->
  s <= i /\ (exists x, nthz l (i - s) = Some x /\ p x = true) /\
  (forall j x, 0 <= j < i - s -> nthz l j = Some x -> p x = false).
Proof.
  induction l as [|y l IH]; intros s i; cbn [find_index]; [discriminate|].
  destruct (p y) eqn:P.
  - intros [= <-]. split; [lia|]. split.
    + exists y. rewrite Z.sub_diag, nthz_cons_0. now split.
    + intros j x Hj. lia.
  - intros H. apply IH in H. destruct H as (Hs & (x & Hx & Hpx) & Hlow). split; [lia|]. split.
    + exists x. split; [|exact Hpx]. rewrite nthz_cons_pos by lia.
      replace (i - s - 1) with (i - (s + 1)) by lia. exact Hx.
    + intros j z Hj Hz. destruct (Z.eq_dec j 0) as [->|Hne].
      * rewrite nthz_cons_0 in Hz. injection Hz as <-. exact P.
      * rewrite nthz_cons_pos in Hz by lia. apply (Hlow (j - 1)); [lia|exact Hz].
Qed.

Lemma find_index_none {A} (p : A -> bool) (l : list A) : forall s,
  find_index p l s = None <-> forall x, In x l -> p x = false.
Proof.
  induction l as [|y l IH]; intros s; cbn [find_index].
  - split; [intros _ x []|reflexivity].
  - destruct (p y) eqn:P.
    + split; [discriminate|]. intros H. rewrite H in P by now left. discriminate.
    + rewrite IH. split; intros H x.
      * intros [<-|Hin]; [exact P|now apply H].
      * intros Hin. apply H. now right.
Qed.

Theorem tag_by_name_lowest f name i :
  tag_by_name f name = Some i ->
  (exists t, get_tag f i = Some t /\ t_name t = name) /\
  (forall j t, 0 <= j < i -> get_tag f j = Some t -> t_name t <> name).
Proof.
  unfold tag_by_name, get_tag. intros H. apply find_index_spec in H.
  destruct H as (_ & (t & Ht & Hp) & Hlow). rewrite Z.sub_0_r in *. split.
  - exists t. split; [exact Ht|]. now apply list_eqb_eq.
  - intros j t' Hj Ht'. apply list_eqb_neq. exact (Hlow j t' Hj Ht').
Qed.

Theorem tag_by_name_none f name :
  tag_by_name f name = None <-> forall k t, get_tag f k = Some t -> t_name t <> name.
Proof.
  unfold tag_by_name, get_tag. rewrite find_index_none. split.
  - intros H k t Hk. apply list_eqb_neq. apply H. eapply nthz_In. exact Hk.
  - intros H t Hin. apply In_nthz in Hin. destruct Hin as (k & _ & Hk). apply list_eqb_neq. exact (H k t Hk).
Qed.

Theorem get_tag_range f k : get_tag f k = None <-> k < 0 \/ num_tags f <= k.
Proof. unfold get_tag, num_tags. apply nthz_none. Qed.

Theorem get_tag_some f k : 0 <= k < num_tags f -> exists t, get_tag f k = Some t /\ tag_get f k = Ok t.
Proof.
  unfold get_tag, tag_get, num_tags. intros H. destruct (nthz_in_range _ _ H) as (t & Ht).
  exists t. now rewrite Ht.
Qed.

(* ------------------------------------------------------------------ *)
(* iteration: the index sequence 0 .. n-1 has every index once, in order *)

Theorem ziota_enumerates n : 0 <= n ->
  zlen (ziota n) = n /\ (forall i, 0 <= i < n -> nthz (ziota n) i = Some i) /\ NoDup (ziota n).
Proof.
  intros H. split; [now apply zlen_ziota|]. split; [intros i Hi; now apply nthz_ziota|].
  unfold ziota. apply zrange_NoDup.
Qed.

(* layers read back in file order: layer i of the file is element i of the list given to
   arr_of_list (ParseInfo::validate builds f_layers this way) *)
Theorem layers_in_order (ls : list layer) i : aget (arr_of_list ls) i = nthz ls i.
Proof. apply aget_arr_of_list. Qed.
