(* Decode after encode for every chunk kind and for the file header:
     run dec_X (enc_X x junk ++ tail) = Ok (x, tail)
   for every well-formed x, every junk of the right length and EVERY tail; hence also
     run_payload dec_X (enc_X x junk ++ tail) = Ok x
   (bytes after the payload inside a chunk are ignored). *)
From Ase Require Import Model.Validate Spec.EncodeChunks Proofs.ITLemmas Proofs.ArrLemmas.

(* ------------------------------------------------------------------ *)
(* generic *)

Lemma run_payload_ok {A} (t : IT A) buf a rest : run t buf = Ok (a, rest) -> run_payload t buf = Ok a.
Proof. intros H. unfold run_payload. rewrite H. reflexivity. Qed.

Lemma junk_split (j : list Z) n m : zlen j = n + m -> 0 <= n -> 0 <= m ->
  exists a b, j = a ++ b /\ zlen a = n /\ zlen b = m.
Proof.
  intros H Hn Hm. exists (firstn (Z.to_nat n) j), (skipn (Z.to_nat n) j).
  split; [symmetry; apply firstn_skipn|].
  unfold zlen in *. rewrite firstn_length, skipn_length. lia.
Qed.

Lemma junk1 (j : list Z) : zlen j = 1 -> exists a, j = [a].
Proof. destruct j as [|a [|b j]]; unfold zlen; cbn [length]; intros H; try lia. now exists a. Qed.
Lemma junk2 (j : list Z) : zlen j = 2 -> exists a b, j = [a; b].
Proof. destruct j as [|a [|b [|c j]]]; unfold zlen; cbn [length]; intros H; try lia. now exists a, b. Qed.
Lemma junk4 (j : list Z) : zlen j = 4 -> exists a b c d, j = [a; b; c; d].
Proof.
  destruct j as [|a [|b [|c [|d [|e j]]]]]; unfold zlen; cbn [length]; intros H; try lia.
  now exists a, b, c, d.
Qed.

(* a field that is read and thrown away accepts any bytes *)
Lemma run_ignore_byte {A} (k : IT A) j t : zlen j = 1 -> run (_ <- byte ;; k) (j ++ t) = run k t.
Proof.
  intros H. destruct (junk1 j H) as [a ->]. rewrite run_bind.
  change ([a] ++ t) with (e_byte a ++ t). now rewrite run_byte.
Qed.
Lemma run_word_any a b t : run word ([a; b] ++ t) = Ok (a + 256 * b, t).
Proof. unfold word. rewrite (run_read 2 _ [a; b] t) by reflexivity. reflexivity. Qed.
Lemma run_dword_any a b c d t :
  run dword ([a; b; c; d] ++ t) = Ok (a + 256 * b + 65536 * c + 16777216 * d, t).
Proof. unfold dword. rewrite (run_read 4 _ [a; b; c; d] t) by reflexivity. reflexivity. Qed.
Lemma run_ignore_word {A} (k : IT A) j t : zlen j = 2 -> run (_ <- word ;; k) (j ++ t) = run k t.
Proof.
  intros H. destruct (junk2 j H) as (a & b & ->). now rewrite run_bind, run_word_any.
Qed.
Lemma run_ignore_short {A} (k : IT A) j t : zlen j = 2 -> run (_ <- short ;; k) (j ++ t) = run k t.
Proof.
  intros H. destruct (junk2 j H) as (a & b & ->). unfold short.
  now rewrite run_bind, run_bind, run_word_any.
Qed.
Lemma run_ignore_dword {A} (k : IT A) j t : zlen j = 4 -> run (_ <- dword ;; k) (j ++ t) = run k t.
Proof.
  intros H. destruct (junk4 j H) as (a & b & c & d & ->). now rewrite run_bind, run_dword_any.
Qed.
Lemma run_ignore_skip {A} (k : IT A) n j t : zlen j = n -> run (_ <- skip n ;; k) (j ++ t) = run k t.
Proof. intros H. now rewrite run_bind, run_skip. Qed.

(* the bits the decoders test *)
Lemma land_pow2 f k : 0 <= k -> Z.land f (2 ^ k) = if Z.testbit f k then 2 ^ k else 0.
Proof.
  intros Hk. apply Z.bits_inj'. intros n Hn. rewrite Z.land_spec, Z.pow2_bits_eqb by exact Hk.
  destruct (Z.eqb_spec k n) as [->|Hne].
  - destruct (Z.testbit f n); [now rewrite Z.pow2_bits_true|now rewrite Z.bits_0].
  - rewrite andb_false_r. destruct (Z.testbit f k); [|now rewrite Z.bits_0].
    symmetry. now apply Z.pow2_bits_false.
Qed.
Lemma bit_pow2 f k : 0 <= k -> bit f (2 ^ k) = Z.testbit f k.
Proof.
  intros Hk. unfold bit. rewrite land_pow2 by exact Hk.
  destruct (Z.testbit f k); [|reflexivity].
  destruct (Z.eqb_spec (2 ^ k) 0) as [E|_]; [|reflexivity].
  pose proof (Z.pow_pos_nonneg 2 k). lia.
Qed.
(* bit 0, 1, 2 of a flags field *)
Lemma bit_1 f : bit f 1 = Z.testbit f 0. Proof. exact (bit_pow2 f 0 ltac:(lia)). Qed.
Lemma bit_2 f : bit f 2 = Z.testbit f 1. Proof. exact (bit_pow2 f 1 ltac:(lia)). Qed.
Lemma bit_4 f : bit f 4 = Z.testbit f 2. Proof. exact (bit_pow2 f 2 ltac:(lia)). Qed.
Lemma flag_bits f : bit f 1 = Z.testbit f 0 /\ bit f 2 = Z.testbit f 1 /\ bit f 4 = Z.testbit f 2.
Proof. exact (conj (bit_1 f) (conj (bit_2 f) (bit_4 f))). Qed.
Lemma bit_1_odd f : bit f 1 = Z.odd f. Proof. rewrite bit_1. apply Z.bit0_odd. Qed.
(* the low 7 bits of the layer flags *)
Lemma land_127 f : Z.land f 127 = f mod 128.
Proof. exact (Z.land_ones f 7 ltac:(lia)). Qed.

(* ------------------------------------------------------------------ *)
(* a loop over concatenated encodings *)

Section Loop.
Context {A X : Type} (f : A -> IT A) (enc : X -> list Z) (step : A -> X -> A) (P : X -> Prop).
Hypothesis Hstep : forall a x t, P x -> run (f a) (enc x ++ t) = Ok (step a x, t).

Lemma run_times_enc : forall xs a t, Forall P xs ->
  run_times (length xs) f a (flat_map enc xs ++ t) = Ok (fold_left step xs a, t).
Proof.
  induction xs as [|x xs IH]; intros a t HP; cbn [length run_times flat_map fold_left app].
  - reflexivity.
  - inversion HP as [|x' xs' Hx Hxs]; subst. rewrite <- app_assoc, Hstep by exact Hx.
    apply IH. exact Hxs.
Qed.

Lemma run_iterZ_enc xs a t : Forall P xs ->
  run (iterZ (zlen xs) f a) (flat_map enc xs ++ t) = Ok (fold_left step xs a, t).
Proof.
  intros HP. rewrite run_iterZ. unfold zlen. rewrite Nat2Z.id. now apply run_times_enc.
Qed.
End Loop.

Lemma fold_left_cons {X Y} (g : X -> Y) xs : forall acc,
  fold_left (fun acc x => g x :: acc) xs acc = rev (map g xs) ++ acc.
Proof.
  induction xs as [|x xs IH]; intros acc; cbn [fold_left map rev app]; [reflexivity|].
  rewrite IH, <- app_assoc. reflexivity.
Qed.
Lemma rev_fold_left_cons {X Y} (g : X -> Y) xs :
  rev (fold_left (fun acc x => g x :: acc) xs []) = map g xs.
Proof. now rewrite fold_left_cons, app_nil_r, rev_involutive. Qed.

(* ------------------------------------------------------------------ *)
(* 0x2004 layer *)

Theorem dec_enc_layer l fw dsize rsv t :
  wf_layer l fw -> junk 4 dsize -> junk 3 rsv ->
  run dec_layer (enc_layer l fw dsize rsv ++ t) = Ok (l, t).
Proof.
  intros (Hfw & Hfl & Hty & Hlv & Hbl & Hop & (Hu & Hn & Hnb) & Hts & Hud) Hds Hrs.
  destruct l as [fl nm bl op ty ts lv ud].
  cbn [l_flags l_name l_blend l_opacity l_type l_tileset l_level l_ud] in *.
  unfold junk in *.
  destruct (junk_split dsize 2 2 Hds ltac:(lia) ltac:(lia)) as (d1 & d2 & -> & Hd1 & Hd2).
  destruct (junk_split rsv 1 2 Hrs ltac:(lia) ltac:(lia)) as (r1 & r2 & -> & Hr1 & Hr2).
  unfold dec_layer, enc_layer.
  cbn [l_flags l_name l_blend l_opacity l_type l_tileset l_level l_ud].
  repeat rewrite <- app_assoc.
  rewrite run_bind, run_word.
  rewrite run_bind, run_word.
  rewrite run_bind, run_word.
  rewrite run_ignore_word by exact Hd1.
  rewrite run_ignore_word by exact Hd2.
  rewrite run_bind, run_word.
  rewrite run_bind, run_byte.
  rewrite run_ignore_byte by exact Hr1.
  rewrite run_ignore_word by exact Hr2.
  rewrite run_bind, run_str by exact Hu.
  assert (Hcase : ty = 0 \/ ty = 1 \/ ty = 2) by lia.
  destruct (Z.ltb_spec 18 bl) as [Hb|Hb]; [lia|].
  subst fl ud.
  destruct Hcase as [-> | [-> | ->]]; cbn [Z.eqb Pos.eqb] in *.
  - subst ts. rewrite run_bind. cbn [run app]. reflexivity.
  - subst ts. rewrite run_bind. cbn [run app]. reflexivity.
  - rewrite run_bind, run_bind, run_dword. cbn [run]. reflexivity.
Qed.

Corollary payload_layer l fw dsize rsv t :
  wf_layer l fw -> junk 4 dsize -> junk 3 rsv ->
  run_payload dec_layer (enc_layer l fw dsize rsv ++ t) = Ok l.
Proof. intros H1 H2 H3. eapply run_payload_ok. now apply dec_enc_layer. Qed.

(* the stored flags are the low seven bits of the flags word, whatever the high bits *)
Lemma layer_flags_low fw hi : 0 <= fw < 128 -> Z.land (fw + 128 * hi) 127 = fw.
Proof. intros H. rewrite land_127. Z.div_mod_to_equations. lia. Qed.

(* ------------------------------------------------------------------ *)
(* 0x2018 tags *)

Lemma dec_enc_tag acc tj t :
  wf_tag tj -> run (dec_tag acc) (enc_tag tj ++ t) = Ok (fst tj :: acc, t).
Proof.
  destruct tj as [tg j]. intros (Hf & Ht & Hd & Hr & (Hu & Hn & Hnb) & Hud & Hj).
  destruct tg as [nm fr to rp dr ud]. cbn [t_name t_from t_to t_repeat t_dir t_ud fst] in *.
  unfold junk in Hj.
  destruct (junk_split j 6 4 Hj ltac:(lia) ltac:(lia)) as (j1 & j2 & -> & H1 & H2).
  unfold dec_tag, enc_tag. cbn [t_name t_from t_to t_repeat t_dir t_ud].
  repeat rewrite <- app_assoc.
  rewrite run_bind, run_word.
  rewrite run_bind, run_word.
  rewrite run_bind, run_byte.
  rewrite run_bind, run_word.
  rewrite run_ignore_skip by exact H1.
  rewrite run_ignore_dword by exact H2.
  rewrite run_bind, run_str by exact Hu.
  destruct (Z.ltb_spec 2 dr) as [Hb|Hb]; [lia|]. subst ud. reflexivity.
Qed.

Theorem dec_enc_tags ts rsv t :
  wf_tags ts -> junk 8 rsv ->
  run dec_tags (enc_tags ts rsv ++ t) = Ok (map fst ts, t).
Proof.
  intros (Hn & Hall) Hj. unfold junk in Hj. unfold dec_tags, enc_tags.
  repeat rewrite <- app_assoc.
  rewrite run_bind, run_word.
  rewrite run_ignore_skip by exact Hj.
  rewrite run_bind.
  rewrite (run_iterZ_enc dec_tag enc_tag (fun acc tj => fst tj :: acc) wf_tag dec_enc_tag) by exact Hall.
  cbn [run]. now rewrite rev_fold_left_cons.
Qed.

Corollary payload_tags ts rsv t :
  wf_tags ts -> junk 8 rsv -> run_payload dec_tags (enc_tags ts rsv ++ t) = Ok (map fst ts).
Proof. intros H1 H2. eapply run_payload_ok. now apply dec_enc_tags. Qed.

(* ------------------------------------------------------------------ *)
(* 0x2020 user data *)

Theorem dec_enc_userdata u flags t :
  wf_userdata u flags -> run dec_userdata (enc_userdata u flags ++ t) = Ok (u, t).
Proof.
  intros (Hf & Ht & Hc & Hs & Hp). destruct u as [tx col]. cbn [ud_text ud_color] in *.
  unfold dec_userdata, enc_userdata. cbn [ud_text ud_color].
  repeat rewrite <- app_assoc.
  rewrite run_bind, run_dword. rewrite <- Ht, <- Hc.
  destruct tx as [s|]; cbn [opt_is_some].
  - destruct Hs as (Hu & _). rewrite run_bind, run_bind, run_str by exact Hu. cbn [run].
    destruct col as [[[[r g] b] a]|]; cbn [opt_is_some].
    + change ([r; g; b; a] ++ t) with (e_byte r ++ e_byte g ++ e_byte b ++ e_byte a ++ t).
      rewrite run_bind, run_bind, run_byte.
      rewrite run_bind, run_byte. rewrite run_bind, run_byte. rewrite run_bind, run_byte.
      reflexivity.
    + reflexivity.
  - rewrite run_bind. cbn [run app].
    destruct col as [[[[r g] b] a]|]; cbn [opt_is_some].
    + change ([r; g; b; a] ++ t) with (e_byte r ++ e_byte g ++ e_byte b ++ e_byte a ++ t).
      rewrite run_bind, run_bind, run_byte.
      rewrite run_bind, run_byte. rewrite run_bind, run_byte. rewrite run_bind, run_byte.
      reflexivity.
    + reflexivity.
Qed.

Corollary payload_userdata u flags t :
  wf_userdata u flags -> run_payload dec_userdata (enc_userdata u flags ++ t) = Ok u.
Proof. intros H. eapply run_payload_ok. now apply dec_enc_userdata. Qed.

(* ------------------------------------------------------------------ *)
(* 0x2022 slice *)

Lemma dec_enc_slice_key flags acc k t :
  wf_slice_key flags k -> run (dec_slice_key flags acc) (enc_slice_key k ++ t) = Ok (k :: acc, t).
Proof.
  intros (Hf & Hx & Hy & Hw & Hh & H9 & Hpv & R9 & Rpv).
  destruct k as [fr ox oy w h s9 pv].
  cbn [k_from k_ox k_oy k_w k_h k_slice9 k_pivot] in *.
  unfold is_long in *.
  unfold dec_slice_key, enc_slice_key. cbn [k_from k_ox k_oy k_w k_h k_slice9 k_pivot].
  repeat rewrite <- app_assoc.
  rewrite run_bind, run_dword.
  rewrite run_bind, run_long by exact Hx.
  rewrite run_bind, run_long by exact Hy.
  rewrite run_bind, run_dword.
  rewrite run_bind, run_dword.
  rewrite <- H9, <- Hpv.
  destruct s9 as [[[[cx cy] cw] ch]|]; cbn [opt_is_some].
  - destruct R9 as (Rx & Ry & _ & _). repeat rewrite <- app_assoc.
    rewrite run_bind, run_bind, run_long by exact Rx.
    rewrite run_bind, run_long by exact Ry.
    rewrite run_bind, run_dword. rewrite run_bind, run_dword. cbn [run].
    destruct pv as [[px py]|]; cbn [opt_is_some].
    + destruct Rpv as (Rpx & Rpy). repeat rewrite <- app_assoc.
      rewrite run_bind, run_bind, run_long by exact Rpx.
      rewrite run_bind, run_long by exact Rpy. reflexivity.
    + reflexivity.
  - rewrite run_bind. cbn [run app].
    destruct pv as [[px py]|]; cbn [opt_is_some].
    + destruct Rpv as (Rpx & Rpy). repeat rewrite <- app_assoc.
      rewrite run_bind, run_bind, run_long by exact Rpx.
      rewrite run_bind, run_long by exact Rpy. reflexivity.
    + reflexivity.
Qed.

Lemma rev_fold_left_cons_id {X} (xs : list X) : rev (fold_left (fun acc x => x :: acc) xs []) = xs.
Proof. pose proof (rev_fold_left_cons (fun x : X => x) xs) as H. cbn beta in H. now rewrite H, map_id. Qed.

Theorem dec_enc_slice s flags rsv t :
  wf_slice s flags -> junk 4 rsv ->
  run dec_slice (enc_slice s flags rsv ++ t) = Ok (s, t).
Proof.
  intros (Hfl & Hn & (Hu & Hl & Hb) & Hall & Hud) Hj. unfold junk in Hj.
  destruct s as [nm ks ud]. cbn [s_name s_keys s_ud] in *.
  unfold dec_slice, enc_slice. cbn [s_name s_keys s_ud].
  repeat rewrite <- app_assoc.
  rewrite run_bind, run_dword.
  rewrite run_bind, run_dword.
  rewrite run_ignore_dword by exact Hj.
  rewrite run_bind, run_str by exact Hu.
  rewrite run_bind.
  rewrite (run_iterZ_enc (dec_slice_key flags) enc_slice_key (fun acc k => k :: acc) (wf_slice_key flags)
             (dec_enc_slice_key flags)) by exact Hall.
  cbn [run]. rewrite rev_fold_left_cons_id. subst ud. reflexivity.
Qed.

Corollary payload_slice s flags rsv t :
  wf_slice s flags -> junk 4 rsv -> run_payload dec_slice (enc_slice s flags rsv ++ t) = Ok s.
Proof. intros H1 H2. eapply run_payload_ok. now apply dec_enc_slice. Qed.

(* ------------------------------------------------------------------ *)
(* 0x2019 palette *)


Lemma dec_enc_pal_entry st ef t :
  wf_pal_entry ef -> run (dec_pal_entry st) (enc_pal_entry ef ++ t) = Ok (pal_step st ef, t).
Proof.
  destruct st as [id m]. destruct ef as [e fl]. intros (Hfl & Hodd & Hpx & Hnm).
  destruct e as [[[[r g] b] a] nm]. cbn [pe_rgba pe_name] in *.
  unfold dec_pal_entry, enc_pal_entry, pal_step, seq_step. cbn [pe_rgba pe_name fst snd].
  repeat rewrite <- app_assoc.
  rewrite run_bind, run_word.
  rewrite run_bind, run_byte. rewrite run_bind, run_byte.
  rewrite run_bind, run_byte. rewrite run_bind, run_byte.
  rewrite Hodd.
  destruct nm as [s|]; cbn [opt_is_some].
  - destruct Hnm as (Hu & _). rewrite run_bind, run_bind, run_str by exact Hu. reflexivity.
  - rewrite run_bind. reflexivity.
Qed.

Theorem dec_enc_palette total first entries rsv t :
  wf_palette first entries -> junk 8 rsv ->
  run dec_palette (enc_palette total first entries rsv ++ t)
  = Ok (palette_of first entries, t).
Proof.
  intros (Hf & Hn & Hlast & Hall) Hj. unfold junk in Hj.
  unfold dec_palette, enc_palette. repeat rewrite <- app_assoc.
  rewrite run_bind, run_dword.
  rewrite run_bind, run_dword.
  rewrite run_bind, run_dword.
  rewrite run_ignore_skip by exact Hj.
  destruct (Z.ltb_spec (first + zlen entries - 1) first) as [Hb|Hb]; [lia|].
  replace (first + zlen entries - 1 - first + 1) with (zlen entries) by lia.
  rewrite run_bind.
  rewrite (run_iterZ_enc dec_pal_entry enc_pal_entry pal_step wf_pal_entry dec_enc_pal_entry) by exact Hall.
  reflexivity.
Qed.

(* ------------------------------------------------------------------ *)
(* 0x2008 external files *)

Lemma dec_enc_ext_entry acc ej t :
  wf_ext_entry ej -> run (dec_ext_entry acc) (enc_ext_entry ej ++ t) = Ok (fst ej :: acc, t).
Proof.
  destruct ej as [[id nm] j]. intros (Hid & (Hu & _) & Hj). unfold junk in Hj.
  unfold dec_ext_entry, enc_ext_entry. cbn [fst]. repeat rewrite <- app_assoc.
  rewrite run_bind, run_dword.
  rewrite run_ignore_skip by exact Hj.
  rewrite run_bind, run_str by exact Hu. reflexivity.
Qed.

Theorem dec_enc_external es rsv t :
  wf_external es -> junk 8 rsv ->
  run dec_external (enc_external es rsv ++ t) = Ok (map fst es, t).
Proof.
  intros (Hn & Hall) Hj. unfold junk in Hj. unfold dec_external, enc_external.
  repeat rewrite <- app_assoc.
  rewrite run_bind, run_dword.
  rewrite run_ignore_skip by exact Hj.
  rewrite run_bind.
  rewrite (run_iterZ_enc dec_ext_entry enc_ext_entry (fun acc ej => fst ej :: acc) wf_ext_entry
             dec_enc_ext_entry) by exact Hall.
  cbn [run]. now rewrite rev_fold_left_cons.
Qed.

Corollary payload_external es rsv t :
  wf_external es -> junk 8 rsv -> run_payload dec_external (enc_external es rsv ++ t) = Ok (map fst es).
Proof. intros H1 H2. eapply run_payload_ok. now apply dec_enc_external. Qed.

(* ------------------------------------------------------------------ *)
(* 0x2007 colour profile *)

Theorem dec_enc_color_profile ty flags gamma rsv t :
  wf_color_profile ty flags -> junk 4 gamma -> junk 8 rsv ->
  run dec_color_profile (enc_color_profile ty flags gamma rsv ++ t) = Ok (tt, t).
Proof.
  intros (Hty & Hfl & Hbit) Hg Hr. unfold junk in *.
  unfold dec_color_profile, enc_color_profile. repeat rewrite <- app_assoc.
  rewrite run_bind, run_word. rewrite run_bind, run_word.
  rewrite run_ignore_dword by exact Hg.
  rewrite run_ignore_skip by exact Hr.
  rewrite Hbit.
  destruct (Z.ltb_spec 2 ty) as [Hb|Hb]; [lia|].
  destruct (Z.eqb_spec ty 2) as [Hb2|Hb2]; [lia|]. reflexivity.
Qed.

(* ------------------------------------------------------------------ *)
(* 0x2005 cel *)

Theorem dec_enc_cel_hdr c cel_type rsv t :
  wf_celcommon c -> junk 7 rsv ->
  run dec_cel_hdr (enc_cel_hdr c cel_type rsv ++ t) = Ok ((c, cel_type), t).
Proof.
  intros (Hl & Hx & Hy & Ho) Hj. unfold junk, is_short in *.
  destruct c as [ly x y op]. cbn [cc_layer cc_x cc_y cc_opacity] in *.
  unfold dec_cel_hdr, enc_cel_hdr. cbn [cc_layer cc_x cc_y cc_opacity].
  repeat rewrite <- app_assoc.
  rewrite run_bind, run_word.
  rewrite run_bind, run_short by exact Hx.
  rewrite run_bind, run_short by exact Hy.
  rewrite run_bind, run_byte.
  rewrite run_bind, run_word.
  rewrite run_ignore_skip by exact Hj. reflexivity.
Qed.

Section Cel.
Variable inflate : list Z -> Z -> zres.

(* linked cel *)
Theorem dec_enc_cel_linked fmt c rsv frame t :
  wf_celcommon c -> junk 7 rsv ->
  dec_cel inflate fmt (enc_cel_linked c rsv frame ++ t)
  = Ok {| c_data := c; c_content := CLinked frame; c_ud := None |}.
Proof.
  intros Hc Hj. unfold dec_cel, enc_cel_linked. rewrite <- app_assoc.
  rewrite dec_enc_cel_hdr by assumption. cbn [rbind Z.eqb Pos.eqb].
  rewrite run_word. reflexivity.
Qed.

Lemma take_bytes_exact bytes t n : zlen bytes = n -> take_bytes (bytes ++ t) n = Ok bytes.
Proof.
  intros <-. unfold take_bytes. rewrite zlen_app.
  destruct (Z.ltb_spec (zlen bytes + zlen t) (zlen bytes)) as [Hb|Hb].
  - pose proof (zlen_nonneg t). lia.
  - unfold zlen. rewrite Nat2Z.id, firstn_app, Nat.sub_diag, firstn_all. cbn [firstn].
    now rewrite app_nil_r.
Qed.

(* raw cel: the pixel bytes follow the size *)
Theorem dec_enc_cel_raw fmt c rsv w h bytes px t :
  wf_celcommon c -> junk 7 rsv ->
  zlen bytes = bytes_per_pixel fmt * (w * h) -> from_bytes bytes fmt = Ok px ->
  dec_cel inflate fmt (enc_cel_raw c rsv w h bytes ++ t)
  = Ok {| c_data := c; c_content := CRaw w h px; c_ud := None |}.
Proof.
  intros Hc Hj Hlen Hpx. unfold dec_cel, enc_cel_raw. rewrite <- app_assoc.
  rewrite dec_enc_cel_hdr by assumption. cbn [rbind Z.eqb].
  unfold dec_size. repeat rewrite <- app_assoc.
  rewrite run_bind, run_word. rewrite run_bind, run_word. cbn [run rbind].
  rewrite take_bytes_exact by exact Hlen. cbn [rbind]. rewrite Hpx. reflexivity.
Qed.

(* compressed image cel: whatever stream inflates to the pixel bytes *)
Theorem dec_enc_cel_zimage fmt c rsv w h z bytes px t :
  wf_celcommon c -> junk 7 rsv ->
  inflate (z ++ t) (bytes_per_pixel fmt * (w * h) + 1) = ZOk bytes ->
  zlen bytes = bytes_per_pixel fmt * (w * h) -> from_bytes bytes fmt = Ok px ->
  dec_cel inflate fmt (enc_cel_zimage c rsv w h z ++ t)
  = Ok {| c_data := c; c_content := CRaw w h px; c_ud := None |}.
Proof.
  intros Hc Hj Hz Hlen Hpx. unfold dec_cel, enc_cel_zimage. rewrite <- app_assoc.
  rewrite dec_enc_cel_hdr by assumption. cbn [rbind Z.eqb Pos.eqb].
  unfold dec_size. repeat rewrite <- app_assoc.
  rewrite run_bind, run_word. rewrite run_bind, run_word. cbn [run rbind].
  unfold unzip. rewrite Hz, Hlen, Z.eqb_refl. cbn [rbind]. rewrite Hpx. reflexivity.
Qed.
End Cel.

(* pixel bytes in the three formats *)
Definition enc_rgba (l : list pixel) : list Z := flat_map (fun p : pixel => let '(r, g, b, a) := p in [r; g; b; a]) l.
Definition enc_gray (l : list (Z * Z)) : list Z := flat_map (fun p : Z * Z => let '(v, a) := p in [v; a]) l.

Lemma zlen_enc_rgba l : zlen (enc_rgba l) = 4 * zlen l.
Proof.
  induction l as [|[[[r g] b] a] l IH]; [reflexivity|].
  unfold enc_rgba in *. cbn [flat_map]. rewrite zlen_app, IH, zlen_cons. unfold zlen. cbn [length]. lia.
Qed.
Lemma zlen_enc_gray l : zlen (enc_gray l) = 2 * zlen l.
Proof.
  induction l as [|[v a] l IH]; [reflexivity|].
  unfold enc_gray in *. cbn [flat_map]. rewrite zlen_app, IH, zlen_cons. unfold zlen. cbn [length]. lia.
Qed.
Lemma group4_enc_rgba l : group4 (enc_rgba l) = l.
Proof.
  induction l as [|[[[r g] b] a] l IH]; [reflexivity|].
  unfold enc_rgba in *. cbn [flat_map app group4]. now rewrite IH.
Qed.
Lemma group2_enc_gray l : group2 (enc_gray l) = l.
Proof.
  induction l as [|[v a] l IH]; [reflexivity|].
  unfold enc_gray in *. cbn [flat_map app group2]. now rewrite IH.
Qed.

Theorem from_bytes_rgba l : from_bytes (enc_rgba l) FRgba = Ok (RPRgba l).
Proof.
  unfold from_bytes. rewrite zlen_enc_rgba, group4_enc_rgba.
  replace (4 * zlen l) with (zlen l * 4) by lia. rewrite Z.mod_mul by lia. reflexivity.
Qed.
Theorem from_bytes_gray l : from_bytes (enc_gray l) FGray = Ok (RPGray l).
Proof.
  unfold from_bytes. rewrite zlen_enc_gray, group2_enc_gray.
  replace (2 * zlen l) with (zlen l * 2) by lia. rewrite Z.mod_mul by lia. reflexivity.
Qed.
Theorem from_bytes_indexed l ti : from_bytes l (FIndexed ti) = Ok (RPIndexed l).
Proof. reflexivity. Qed.

(* tilemap cel head *)
Theorem dec_enc_tilemap_hdr w h idmask masks rsv t :
  junk 12 masks -> junk 10 rsv ->
  run dec_tilemap_hdr (enc_tilemap_hdr w h idmask masks rsv ++ t) = Ok ((w, h, idmask), t).
Proof.
  intros Hm Hr. unfold junk in *.
  destruct (junk_split masks 4 8 Hm ltac:(lia) ltac:(lia)) as (m1 & m23 & -> & Hm1 & Hm23).
  destruct (junk_split m23 4 4 Hm23 ltac:(lia) ltac:(lia)) as (m2 & m3 & -> & Hm2 & Hm3).
  unfold dec_tilemap_hdr, enc_tilemap_hdr. repeat rewrite <- app_assoc.
  rewrite run_bind, run_word. rewrite run_bind, run_word. rewrite run_bind, run_word.
  cbn [Z.eqb Pos.eqb negb].
  rewrite run_bind, run_dword.
  rewrite run_ignore_dword by exact Hm1.
  rewrite run_ignore_dword by exact Hm2.
  rewrite run_ignore_dword by exact Hm3.
  rewrite run_ignore_skip by exact Hr. reflexivity.
Qed.

(* ------------------------------------------------------------------ *)
(* 0x2023 tileset head *)

Theorem dec_enc_tileset_hdr ts flags rsv clen t :
  wf_tileset_hdr ts flags -> junk 14 rsv -> junk 4 clen ->
  run dec_tileset_hdr (enc_tileset_hdr ts flags rsv clen ++ t) = Ok ((ts, bit flags 2), t).
Proof.
  intros (Hid & Hfl & Hct & Hw & Hh & Hbase & (Hu & _) & Hext & Hemp & Rext & Hpx) Hr Hc.
  unfold junk, is_short in *.
  destruct ts as [id e0 ct tw th base nm ext px].
  cbn [ts_id ts_empty0 ts_count ts_w ts_h ts_base ts_name ts_ext ts_pixels] in *.
  unfold dec_tileset_hdr, enc_tileset_hdr.
  cbn [ts_id ts_empty0 ts_count ts_w ts_h ts_base ts_name ts_ext ts_pixels].
  repeat rewrite <- app_assoc.
  rewrite run_bind, run_dword. rewrite run_bind, run_dword. rewrite run_bind, run_dword.
  rewrite run_bind, run_word. rewrite run_bind, run_word.
  destruct (Z.eqb_spec tw 0) as [E|_]; [lia|].
  destruct (Z.eqb_spec th 0) as [E|_]; [lia|]. cbn [orb].
  rewrite run_bind, run_short by exact Hbase.
  rewrite run_ignore_skip by exact Hr.
  rewrite run_bind, run_str by exact Hu.
  rewrite <- Hext, <- Hemp. subst px.
  destruct ext as [[a b]|]; cbn [opt_is_some].
  - repeat rewrite <- app_assoc.
    rewrite run_bind, run_bind, run_dword. rewrite run_bind, run_dword. cbn [run].
    rewrite run_bind. destruct (bit flags 2).
    + rewrite run_ignore_dword by exact Hc. reflexivity.
    + reflexivity.
  - rewrite run_bind. cbn [run app].
    rewrite run_bind. destruct (bit flags 2).
    + rewrite run_ignore_dword by exact Hc. reflexivity.
    + reflexivity.
Qed.

(* the whole tileset chunk: without embedded tiles, and with a stream that inflates to
   the tile pixels *)
Section Tileset.
Variable inflate : list Z -> Z -> zres.

Theorem dec_enc_tileset_nopixels fmt ts flags rsv clen t :
  wf_tileset_hdr ts flags -> junk 14 rsv -> junk 4 clen -> bit flags 2 = false ->
  dec_tileset inflate fmt (enc_tileset_hdr ts flags rsv clen ++ t) = Ok ts.
Proof.
  intros Hwf Hr Hc Hb. unfold dec_tileset.
  rewrite dec_enc_tileset_hdr by assumption. cbn [rbind]. rewrite Hb. reflexivity.
Qed.

Theorem dec_enc_tileset_pixels fmt ts flags rsv clen z bytes px t :
  wf_tileset_hdr ts flags -> junk 14 rsv -> junk 4 clen -> bit flags 2 = true ->
  ts_count ts * ts_h ts * ts_w ts < 4294967296 ->
  inflate (z ++ t) (bytes_per_pixel fmt * (ts_count ts * ts_h ts * ts_w ts) + 1) = ZOk bytes ->
  zlen bytes = bytes_per_pixel fmt * (ts_count ts * ts_h ts * ts_w ts) ->
  from_bytes bytes fmt = Ok px ->
  dec_tileset inflate fmt (enc_tileset_hdr ts flags rsv clen ++ z ++ t) = Ok (set_ts_pixels ts (Some px)).
Proof.
  intros Hwf Hr Hc Hb Hsz Hz Hlen Hpx. unfold dec_tileset.
  rewrite dec_enc_tileset_hdr by assumption. cbn [rbind]. rewrite Hb. cbn [negb].
  destruct (Z.leb_spec 4294967296 (ts_count ts * ts_h ts * ts_w ts)) as [Hge|_]; [lia|].
  unfold unzip. rewrite Hz, Hlen, Z.eqb_refl. cbn [rbind]. rewrite Hpx. reflexivity.
Qed.

(* tilemap cel (type 3): z inflates to the little-endian tile words *)
Theorem dec_enc_cel_tilemap fmt c rsv w h idmask masks rsv2 z bytes t :
  wf_celcommon c -> junk 7 rsv -> junk 12 masks -> junk 10 rsv2 ->
  inflate (z ++ t) (4 * (w * h) + 1) = ZOk bytes -> zlen bytes = 4 * (w * h) ->
  dec_cel inflate fmt (enc_cel_hdr c 3 rsv ++ enc_tilemap_hdr w h idmask masks rsv2 ++ z ++ t)
  = Ok {| c_data := c;
          c_content := CTilemap {| tm_w := w; tm_h := h;
                                   tm_tiles := arr_of_list (map (fun bits => Z.land bits idmask) (group_dwords bytes)) |};
          c_ud := None |}.
Proof.
  intros Hc Hj Hm Hr Hz Hlen. unfold dec_cel.
  rewrite dec_enc_cel_hdr by assumption. cbn [rbind Z.eqb Pos.eqb].
  unfold dec_tilemap. rewrite dec_enc_tilemap_hdr by assumption. cbn [rbind].
  unfold unzip. rewrite Hz, Hlen, Z.eqb_refl. reflexivity.
Qed.
End Tileset.

(* ------------------------------------------------------------------ *)
(* the file header *)

Section Header.
Variable inflate : list Z -> Z -> zres.

(* read_aseprite on an encoded header: the eight stored fields are recovered, the junk
   is ignored, and the reader goes on to the frames *)
Theorem dec_enc_header h fsize jflags j2 j3 grid rsv fmt t :
  wf_header h -> wf_header_junk fsize jflags j2 j3 grid rsv -> header_fmt h = Some fmt ->
  run (parse_file inflate) (enc_header h fsize jflags j2 j3 grid rsv ++ t)
  = run (parse_frames inflate h fmt) t.
Proof.
  intros (Hfr & Hw & Hh & Hd & Hdt & Htr & Hpw & Hph & Hratio) (J1 & J2 & J3 & J4 & J5 & J6) Hfmt.
  unfold junk in *.
  destruct h as [fr w hh dp dt tr pw ph].
  cbn [hf_frames hf_width hf_height hf_depth hf_default_time hf_transparent hf_pixel_w hf_pixel_h] in *.
  destruct (junk_split j2 4 4 J3 ltac:(lia) ltac:(lia)) as (j2a & j2b & -> & J3a & J3b).
  destruct (junk_split j3 1 4 J4 ltac:(lia) ltac:(lia)) as (j3a & j3bc & -> & J4a & J4bc).
  destruct (junk_split j3bc 2 2 J4bc ltac:(lia) ltac:(lia)) as (j3b & j3c & -> & J4b & J4c).
  destruct (junk_split grid 2 6 J5 ltac:(lia) ltac:(lia)) as (g1 & g234 & -> & G1 & G234).
  destruct (junk_split g234 2 4 G234 ltac:(lia) ltac:(lia)) as (g2 & g34 & -> & G2 & G34).
  destruct (junk_split g34 2 2 G34 ltac:(lia) ltac:(lia)) as (g3 & g4 & -> & G3 & G4).
  unfold parse_file, enc_header.
  cbn [hf_frames hf_width hf_height hf_depth hf_default_time hf_transparent hf_pixel_w hf_pixel_h].
  repeat rewrite <- app_assoc.
  rewrite run_ignore_dword by exact J1.
  rewrite run_bind, run_word.
  change (negb (42464 =? 42464)) with false. cbv iota.
  rewrite run_bind, run_word. rewrite run_bind, run_word.
  rewrite run_bind, run_word. rewrite run_bind, run_word.
  rewrite run_ignore_dword by exact J2.
  rewrite run_bind, run_word.
  rewrite run_ignore_dword by exact J3a.
  rewrite run_ignore_dword by exact J3b.
  rewrite run_bind, run_byte.
  rewrite run_ignore_byte by exact J4a.
  rewrite run_ignore_word by exact J4b.
  rewrite run_ignore_word by exact J4c.
  rewrite run_bind, run_byte. rewrite run_bind, run_byte.
  rewrite run_ignore_short by exact G1.
  rewrite run_ignore_short by exact G2.
  rewrite run_ignore_word by exact G3.
  rewrite run_ignore_word by exact G4.
  rewrite run_ignore_skip by exact J6.
  assert (Hr : negb (pw =? 0) && negb (ph =? 0) && negb ((pw =? 1) && (ph =? 1)) = false).
  { destruct (Z.eqb_spec pw 0), (Z.eqb_spec ph 0), (Z.eqb_spec pw 1), (Z.eqb_spec ph 1);
      cbn [negb andb]; try reflexivity; lia. }
  rewrite Hr.
  assert (Hpf : parse_pixel_format dp tr = Ok fmt).
  { unfold header_fmt in Hfmt. unfold parse_pixel_format.
    cbn [hf_depth hf_transparent] in Hfmt.
    destruct (dp =? 8); [now inversion Hfmt|].
    destruct (dp =? 16); [now inversion Hfmt|].
    destruct (dp =? 32); [now inversion Hfmt|discriminate]. }
  rewrite run_bind, run_lift, Hpf.
  reflexivity.
Qed.

(* whatever the frames contain, a file that parses reports the header's values *)
Corollary header_parsed h fsize jflags j2 j3 grid rsv fmt t hd p rest :
  wf_header h -> wf_header_junk fsize jflags j2 j3 grid rsv -> header_fmt h = Some fmt ->
  run (parse_file inflate) (enc_header h fsize jflags j2 j3 grid rsv ++ t) = Ok ((hd, p), rest) ->
  h_frames hd = hf_frames h /\ h_width hd = hf_width h /\ h_height hd = hf_height h /\ h_fmt hd = fmt.
Proof.
  intros Hh Hj Hfmt. rewrite (dec_enc_header h fsize jflags j2 j3 grid rsv fmt t Hh Hj Hfmt).
  unfold parse_frames. intros H. apply run_bind_inv in H. destruct H as (st & mid & _ & H).
  cbn [run] in H. inversion H; subst. cbn [h_frames h_width h_height h_fmt]. auto.
Qed.

Lemma validate_header hd p f : validate hd p = Ok f ->
  f_width f = h_width hd /\ f_height f = h_height hd /\ f_nframes f = h_frames hd /\ f_fmt f = h_fmt hd.
Proof.
  unfold validate; rewrite ?frev_eq. intros H.
  destruct (compute_parents (rev (pi_layers_rev p))) as [ps|e|s]; cbn [rbind] in H; try discriminate.
  destruct (validate_tilesets (pi_palette p) (h_fmt hd) (pi_tilesets p)) as [tss|e|s]; cbn [rbind] in H; try discriminate.
  destruct (validate_layers (rev (pi_layers_rev p)) tss) as [u|e|s]; cbn [rbind] in H; try discriminate.
  destruct (validate_cels _ _ _ _ _ _ _) as [cs|e|s]; cbn [rbind] in H; try discriminate.
  inversion H; subst. cbn [f_width f_height f_nframes f_fmt]. auto.
Qed.

(* C01, sizes and format: a sprite that loads reports the canvas size, the frame count,
   the pixel format and the transparent index stored in the header *)
Theorem header_loaded h fsize jflags j2 j3 grid rsv fmt t f :
  wf_header h -> wf_header_junk fsize jflags j2 j3 grid rsv -> header_fmt h = Some fmt ->
  load inflate (enc_header h fsize jflags j2 j3 grid rsv ++ t) = Ok f ->
  f_width f = hf_width h /\ f_height f = hf_height h /\ f_nframes f = hf_frames h /\ f_fmt f = fmt.
Proof.
  intros Hh Hj Hfmt. unfold load, load_rest, rmap.
  destruct (run (parse_file inflate) _) as [[[hd p] rest]|e|s] eqn:R; cbn [rbind]; try discriminate.
  destruct (header_parsed _ _ _ _ _ _ _ _ _ _ _ _ Hh Hj Hfmt R) as (E1 & E2 & E3 & E4).
  cbn [fst snd]. destruct (validate hd p) as [f'|e|s] eqn:V; cbn [rbind fst]; try discriminate.
  intros [= <-]. destruct (validate_header _ _ _ V) as (V1 & V2 & V3 & V4).
  rewrite V1, V2, V3, V4, E1, E2, E3, E4. auto.
Qed.

(* a header announcing zero frames is a complete file *)
Corollary dec_enc_header_noframes h fsize jflags j2 j3 grid rsv fmt t :
  wf_header h -> wf_header_junk fsize jflags j2 j3 grid rsv -> header_fmt h = Some fmt ->
  hf_frames h = 0 ->
  run (parse_file inflate) (enc_header h fsize jflags j2 j3 grid rsv ++ t)
  = Ok (({| h_frames := 0; h_width := hf_width h; h_height := hf_height h; h_fmt := fmt |},
         pinfo_new 0 (hf_default_time h)), t).
Proof.
  intros Hh Hj Hfmt H0. rewrite (dec_enc_header h fsize jflags j2 j3 grid rsv fmt t Hh Hj Hfmt).
  unfold parse_frames. rewrite H0. reflexivity.
Qed.
End Header.

(* ------------------------------------------------------------------ *)
(* the chunk dispatcher on encoded payloads (any tail inside the chunk is ignored) *)

Section Dispatch.
Variable inflate : list Z -> Z -> zres.

Theorem process_enc_layer fmt fid p l fw dsize rsv t :
  wf_layer l fw -> junk 4 dsize -> junk 3 rsv ->
  process_chunk inflate fmt fid p (8196, enc_layer l fw dsize rsv ++ t) = Ok (add_layer p l).
Proof.
  intros H1 H2 H3. unfold process_chunk. cbn [Z.eqb Pos.eqb].
  now rewrite payload_layer by assumption.
Qed.

Theorem process_enc_tags fmt fid p ts rsv t :
  wf_tags ts -> junk 8 rsv ->
  process_chunk inflate fmt fid p (8216, enc_tags ts rsv ++ t)
  = Ok (if fid =? 0 then add_tags p (map fst ts) else p).
Proof.
  intros H1 H2. unfold process_chunk. cbn [Z.eqb Pos.eqb].
  now rewrite payload_tags by assumption.
Qed.

Theorem process_enc_slice fmt fid p s flags rsv t :
  wf_slice s flags -> junk 4 rsv ->
  process_chunk inflate fmt fid p (8226, enc_slice s flags rsv ++ t) = Ok (add_slice p s).
Proof.
  intros H1 H2. unfold process_chunk. cbn [Z.eqb Pos.eqb].
  now rewrite payload_slice by assumption.
Qed.

Theorem process_enc_userdata fmt fid p u flags t :
  wf_userdata u flags ->
  process_chunk inflate fmt fid p (8224, enc_userdata u flags ++ t) = add_user_data p u.
Proof.
  intros H1. unfold process_chunk. cbn [Z.eqb Pos.eqb].
  now rewrite payload_userdata by assumption.
Qed.

Theorem process_enc_external fmt fid p es rsv t :
  wf_external es -> junk 8 rsv ->
  process_chunk inflate fmt fid p (8200, enc_external es rsv ++ t) = Ok (add_external_files p (map fst es)).
Proof.
  intros H1 H2. unfold process_chunk. cbn [Z.eqb Pos.eqb].
  now rewrite payload_external by assumption.
Qed.

Theorem process_enc_palette fmt fid p total first entries rsv t :
  wf_palette first entries -> junk 8 rsv ->
  process_chunk inflate fmt fid p (8217, enc_palette total first entries rsv ++ t)
  = Ok (with_palette p (Some (palette_of first entries))).
Proof.
  intros H1 H2. unfold process_chunk. cbn [Z.eqb Pos.eqb].
  rewrite (run_payload_ok _ _ _ _ (dec_enc_palette total first entries rsv t H1 H2)). reflexivity.
Qed.

Theorem process_enc_color_profile fmt fid p ty flags gamma rsv t :
  wf_color_profile ty flags -> junk 4 gamma -> junk 8 rsv ->
  process_chunk inflate fmt fid p (8199, enc_color_profile ty flags gamma rsv ++ t) = Ok p.
Proof.
  intros H1 H2 H3. unfold process_chunk. cbn [Z.eqb Pos.eqb].
  rewrite (run_payload_ok _ _ _ _ (dec_enc_color_profile ty flags gamma rsv t H1 H2 H3)). reflexivity.
Qed.
End Dispatch.

(* ------------------------------------------------------------------ *)
(* well-formed values encode to byte strings (so the theorems above speak about files) *)

Lemma all_bytes_nil : all_bytes []. Proof. apply Forall_nil. Qed.
Lemma all_bytes_e_str s : wf_str s -> all_bytes (e_str s).
Proof.
  intros (_ & Hn & Hb). unfold e_str. apply all_bytes_app; [|exact Hb].
  apply all_bytes_e_word. pose proof (zlen_nonneg s). lia.
Qed.
Lemma all_bytes_flat_map {X} (enc : X -> list Z) (P : X -> Prop) xs :
  (forall x, P x -> all_bytes (enc x)) -> Forall P xs -> all_bytes (flat_map enc xs).
Proof.
  intros H HP. induction HP as [|x xs Hx _ IH]; cbn [flat_map]; [apply all_bytes_nil|].
  apply all_bytes_app; [now apply H|exact IH].
Qed.

Ltac ab_leaf :=
  first [ assumption
        | apply all_bytes_nil
        | apply all_bytes_e_short | apply all_bytes_e_long
        | apply all_bytes_e_word; unfold is_word, is_byte in *; lia
        | apply all_bytes_e_dword; unfold is_dword, is_word, is_byte in *; lia
        | apply all_bytes_e_byte; unfold is_byte in *; lia
        | apply all_bytes_e_str; assumption ].
Ltac ab := first [ab_leaf | (apply all_bytes_app; ab) | idtac].

Lemma all_bytes_enc_layer l fw dsize rsv :
  wf_layer l fw -> all_bytes dsize -> all_bytes rsv -> all_bytes (enc_layer l fw dsize rsv).
Proof.
  intros (Hfw & Hfl & Hty & Hlv & Hbl & Hop & Hs & Hts & Hud) Hd Hr. unfold enc_layer. ab.
  destruct (l_type l =? 2); ab.
Qed.

Lemma all_bytes_enc_tag tj : wf_tag tj -> all_bytes (snd tj) -> all_bytes (enc_tag tj).
Proof.
  destruct tj as [tg j]. intros (Hf & Ht & Hd & Hr & Hs & Hud & Hj) Hb. cbn [snd] in Hb.
  unfold enc_tag. ab.
Qed.

Lemma all_bytes_enc_tags ts rsv :
  wf_tags ts -> Forall (fun tj => all_bytes (snd tj)) ts -> all_bytes rsv -> all_bytes (enc_tags ts rsv).
Proof.
  intros (Hn & Hall) Hj Hr. unfold enc_tags. ab.
  - apply all_bytes_e_word. pose proof (zlen_nonneg ts). lia.
  - apply (all_bytes_flat_map enc_tag (fun tj => wf_tag tj /\ all_bytes (snd tj))).
    + intros tj (H1 & H2). now apply all_bytes_enc_tag.
    + apply Forall_forall. intros tj Hin. rewrite Forall_forall in Hall, Hj. split; auto.
Qed.

Lemma all_bytes_enc_userdata u flags : wf_userdata u flags -> all_bytes (enc_userdata u flags).
Proof.
  intros (Hf & Ht & Hc & Hs & Hp). unfold enc_userdata. ab.
  - destruct (ud_text u); ab.
  - destruct (ud_color u) as [[[[r g] b] a]|]; ab. destruct Hp as (H1 & H2 & H3 & H4).
    repeat apply Forall_cons; try apply Forall_nil; assumption.
Qed.

Lemma all_bytes_enc_slice_key flags k : wf_slice_key flags k -> all_bytes (enc_slice_key k).
Proof.
  intros (Hf & Hx & Hy & Hw & Hh & H9 & Hpv & R9 & Rpv). unfold enc_slice_key. ab.
  - destruct (k_slice9 k) as [[[[cx cy] cw] ch]|]; ab; destruct R9 as (_ & _ & Hcw & Hch); ab.
  - destruct (k_pivot k) as [[px py]|]; ab.
Qed.

Lemma all_bytes_enc_slice s flags rsv : wf_slice s flags -> all_bytes rsv -> all_bytes (enc_slice s flags rsv).
Proof.
  intros (Hfl & Hn & Hs & Hall & Hud) Hr. unfold enc_slice. ab.
  - apply all_bytes_e_dword. pose proof (zlen_nonneg (s_keys s)). lia.
  - apply (all_bytes_flat_map enc_slice_key (wf_slice_key flags)); [apply all_bytes_enc_slice_key|exact Hall].
Qed.

Lemma all_bytes_enc_pal_entry ef : wf_pal_entry ef -> all_bytes (enc_pal_entry ef).
Proof.
  destruct ef as [e fl]. intros (Hfl & Hodd & Hpx & Hnm). unfold enc_pal_entry.
  destruct (pe_rgba e) as [[[r g] b] a]. destruct Hpx as (H1 & H2 & H3 & H4). ab.
  destruct (pe_name e); ab.
Qed.

Lemma all_bytes_enc_palette total first entries rsv :
  is_dword total -> first + zlen entries - 1 <= 4294967295 ->
  wf_palette first entries -> all_bytes rsv -> all_bytes (enc_palette total first entries rsv).
Proof.
  intros Ht Hl (Hf & Hn & Hlast & Hall) Hr. unfold enc_palette. ab.
  apply (all_bytes_flat_map enc_pal_entry wf_pal_entry); [apply all_bytes_enc_pal_entry|exact Hall].
Qed.

Lemma all_bytes_enc_old_palette six packets : wf_old_palette six packets -> all_bytes (enc_old_palette packets).
Proof.
  intros (Hn & Hall). unfold enc_old_palette. ab.
  - apply all_bytes_e_word. pose proof (zlen_nonneg packets). lia.
  - apply (all_bytes_flat_map enc_old_packet (wf_old_packet six)); [|exact Hall].
    intros [s cs] (Hs & Hc & Hcs). unfold enc_old_packet. ab.
    + apply all_bytes_e_byte. unfold is_byte. apply Z.mod_pos_bound. lia.
    + apply (all_bytes_flat_map enc_old_color (wf_old_color six)); [|exact Hcs].
      intros [[r g] b] (H1 & H2 & H3). unfold enc_old_color.
      repeat apply Forall_cons; try apply Forall_nil; unfold is_byte; destruct six; lia.
Qed.

Lemma all_bytes_enc_external es rsv :
  wf_external es -> Forall (fun ej => all_bytes (snd ej)) es -> all_bytes rsv -> all_bytes (enc_external es rsv).
Proof.
  intros (Hn & Hall) Hj Hr. unfold enc_external. ab.
  - apply all_bytes_e_dword. pose proof (zlen_nonneg es). lia.
  - apply (all_bytes_flat_map enc_ext_entry (fun ej => wf_ext_entry ej /\ all_bytes (snd ej))).
    + intros [[id nm] j] ((Hid & Hs & _) & Hb). cbn [snd] in Hb. unfold enc_ext_entry. ab.
    + apply Forall_forall. intros ej Hin. rewrite Forall_forall in Hall, Hj. split; auto.
Qed.

Lemma all_bytes_enc_cel_hdr c cel_type rsv :
  wf_celcommon c -> is_word cel_type -> all_bytes rsv -> all_bytes (enc_cel_hdr c cel_type rsv).
Proof. intros (Hl & Hx & Hy & Ho) Ht Hr. unfold enc_cel_hdr. ab. Qed.

Lemma all_bytes_enc_tileset_hdr ts flags rsv clen :
  wf_tileset_hdr ts flags -> all_bytes rsv -> all_bytes clen -> all_bytes (enc_tileset_hdr ts flags rsv clen).
Proof.
  intros (Hid & Hfl & Hct & Hw & Hh & Hbase & Hs & Hext & Hemp & Rext & Hpx) Hr Hc.
  unfold enc_tileset_hdr. ab.
  - destruct (ts_ext ts) as [[a b]|]; ab; destruct Rext as (Ha & Hb); ab.
  - destruct (bit flags 2); ab.
Qed.

Lemma all_bytes_enc_header h fsize jflags j2 j3 grid rsv :
  wf_header h -> all_bytes fsize -> all_bytes jflags -> all_bytes j2 -> all_bytes j3 ->
  all_bytes grid -> all_bytes rsv -> all_bytes (enc_header h fsize jflags j2 j3 grid rsv).
Proof.
  intros (Hfr & Hw & Hh & Hd & Hdt & Htr & Hpw & Hph & Hratio) B1 B2 B3 B4 B5 B6.
  unfold enc_header. ab.
Qed.

(* and the encoded header is 128 bytes long *)
Lemma zlen_enc_header h fsize jflags j2 j3 grid rsv :
  wf_header_junk fsize jflags j2 j3 grid rsv -> zlen (enc_header h fsize jflags j2 j3 grid rsv) = 128.
Proof.
  intros (J1 & J2 & J3 & J4 & J5 & J6). unfold junk in *. unfold enc_header.
  repeat rewrite zlen_app. rewrite J1, J2, J3, J4, J5, J6. reflexivity.
Qed.
