(* C05, second half: on a valid file every accessor called with in-range arguments returns
   normally, and images have their documented dimensions. *)
From Ase Require Import Base.Prelude Model.Render Model.Dump Proofs.ITLemmas Proofs.ArrLemmas Proofs.Layers
  Proofs.NoPanicLoad Proofs.Valid.

(* ------------------------------------------------------------------ *)
(* outcomes: Ok with a property, never Err, Panic only at an allowed site *)

Definition outc {A} (allow : Z -> Prop) (P : A -> Prop) (r : res A) : Prop :=
  match r with Ok a => P a | Err _ => False | Panic s => allow s end.

Lemma outc_weaken {A} allow (P Q : A -> Prop) r : outc allow P r -> (forall a, P a -> Q a) -> outc allow Q r.
Proof. destruct r as [a|e|s]; cbn [outc]; auto. Qed.

Lemma outc_rbind {A B} allow (P : A -> Prop) (Q : B -> Prop) r (g : A -> res B) :
  outc allow P r -> (forall a, P a -> outc allow Q (g a)) -> outc allow Q (rbind r g).
Proof. destruct r as [a|e|s]; cbn [outc rbind]; auto. Qed.

Lemma outc_rfold {A B} allow (P : B -> Prop) (g : B -> A -> res B) : forall l b,
  (forall b x, P b -> In x l -> outc allow P (g b x)) -> P b -> outc allow P (rfold g l b).
Proof.
  induction l as [|x t IH]; intros b Hg Hb; cbn [rfold]; [exact Hb|].
  eapply outc_rbind; [apply Hg; [exact Hb|left; reflexivity]|].
  intros b' Hb'. apply IH; [|exact Hb']. intros b0 x0 H0 Hin. apply Hg; [exact H0|right; exact Hin].
Qed.

Lemma outc_none_ok {A} (P : A -> Prop) r : outc (fun _ => False) P r -> exists a, r = Ok a /\ P a.
Proof. destruct r as [a|e|s]; cbn [outc]; intros H; try contradiction. eauto. Qed.

Lemma outc_302 {A} (P : A -> Prop) r : outc (fun s => s = 302) P r -> (exists a, r = Ok a /\ P a) \/ r = Panic 302.
Proof. destruct r as [a|e|s]; cbn [outc]; intros H; [left; eauto|contradiction|right; subst; reflexivity]. Qed.

Lemma rmapM_map {A B} (g : A -> res B) (h : A -> B) : forall l,
  (forall x, In x l -> g x = Ok (h x)) -> rmapM g l = Ok (map h l).
Proof.
  induction l as [|x t IH]; intros H; cbn [rmapM map]; [reflexivity|].
  rewrite (H x) by (left; reflexivity). cbn [rbind]. rewrite IH by (intros y Hy; apply H; right; exact Hy). reflexivity.
Qed.

Lemma rmapM_ok {A B} (g : A -> res B) : forall l,
  (forall x, In x l -> exists y, g x = Ok y) -> exists ys, rmapM g l = Ok ys /\ length ys = length l.
Proof.
  induction l as [|x t IH]; intros H; cbn [rmapM]; [exists []; split; reflexivity|].
  destruct (H x (or_introl eq_refl)) as [y Hy]. rewrite Hy. cbn [rbind].
  destruct (IH (fun z Hz => H z (or_intror Hz))) as (ys & Hys & Hlen). rewrite Hys. cbn [rbind].
  exists (y :: ys). split; [reflexivity|]. cbn [length]. rewrite Hlen. reflexivity.
Qed.

(* row-major index of a cell of a w x h grid *)
Lemma grid_index a b w h : 0 <= a < h -> 0 <= b < w -> 0 <= a * w + b < h * w.
Proof.
  intros Ha Hb. pose proof (Z.mul_nonneg_nonneg a w ltac:(lia) ltac:(lia)) as H0.
  pose proof (Z.mul_le_mono_nonneg_r a (h - 1) w ltac:(lia) ltac:(lia)) as H1.
  replace ((h - 1) * w) with (h * w - w) in H1 by ring. lia.
Qed.

Lemma mul_un8_is_byte a b : is_byte (mul_un8 a b).
Proof. unfold mul_un8, as_u8, is_byte. apply Z.mod_pos_bound. lia. Qed.


Lemma outc_rmapM {A B} allow (g : A -> res B) : forall l,
  (forall x, In x l -> outc allow (fun _ => True) (g x)) -> outc allow (fun _ => True) (rmapM g l).
Proof.
  induction l as [|x t IH]; intros H; cbn [rmapM]; [exact I|].
  eapply outc_rbind; [apply H; left; reflexivity|]. intros y _.
  eapply outc_rbind; [apply IH; intros z Hz; apply H; right; exact Hz|]. intros ys _. exact I.
Qed.

Lemma outc_concat_res {A} allow (l : list (res (list A))) :
  (forall r, In r l -> outc allow (fun _ => True) r) -> outc allow (fun _ => True) (concat_res l).
Proof.
  intros H. unfold concat_res. apply (outc_rfold allow (fun _ => True)); [|exact I]. intros acc r _ Hr.
  eapply outc_rbind; [apply H; exact Hr|]. intros x _. exact I.
Qed.

Lemma outc_of_ok {A} allow (r : res A) : (exists a, r = Ok a) -> outc allow (fun _ => True) r.
Proof. intros [a ->]. exact I. Qed.

(* selected(n, max) of Model/Dump.v stays in range *)
Lemma in_selected n max x : 0 <= n -> (forall m, max = Some m -> 0 <= m) -> In x (selected n max) -> 0 <= x < n.
Proof.
  intros Hn Hmax. unfold selected. destruct max as [m|]; [|apply in_ziota].
  specialize (Hmax m eq_refl). intros H. apply in_app_or in H. destruct H as [H|H].
  - apply in_ziota in H. lia.
  - destruct (Z.ltb_spec (Z.min n m) n) as [Hlt|Hge]; [|contradiction]. destruct H as [<-|[]]. lia.
Qed.

(* ------------------------------------------------------------------ *)
(* accessors that do not produce images *)

Section Accessors.
Variable W : Z -> Prop.
Variable f : file.
Hypothesis HV : ValidW W f.

Lemma frame_duration_ok i : 0 <= i < num_frames f -> exists d, frame_duration f i = Ok d.
Proof.
  intros Hi. unfold frame_duration. destruct (Z.ltb_spec i 0); [lia|]. destruct (Z.leb_spec (num_frames f) i); [lia|].
  cbn [orb]. eauto.
Qed.

Lemma layer_get_ok i : 0 <= i < num_layers f -> exists l, layer_get f i = Ok l /\ aget (f_layers f) i = Some l.
Proof.
  intros Hi. destruct (pok_lookup f (v_parents W f HV) i Hi) as (l & o & El & Eo). exists l. unfold layer_get. rewrite El.
  split; reflexivity.
Qed.

Lemma layer_parent_ok i : 0 <= i < num_layers f -> exists o, layer_parent f i = Ok o.
Proof.
  intros Hi. destruct (pok_lookup f (v_parents W f HV) i Hi) as (l & o & El & Eo). exists o. unfold layer_parent. rewrite Eo. reflexivity.
Qed.

Lemma layer_parent_below i p : layer_parent f i = Ok (Some p) -> 0 <= p < i.
Proof. apply layer_parent_lt. exact (v_parents W f HV). Qed.

Lemma layer_is_visible_ok i : 0 <= i < num_layers f -> exists b, layer_is_visible f i = Ok b.
Proof. apply visible_no_panic. exact (v_parents W f HV). Qed.

Lemma tag_get_ok k : 0 <= k < num_tags f -> exists t, tag_get f k = Ok t.
Proof.
  intros Hk. unfold tag_get. destruct (nthz_in_range (f_tags f) k Hk) as [t Ht]. rewrite Ht. eauto.
Qed.

Lemma cel_lookup_ok fr l : 0 <= fr < num_frames f -> cel_lookup f fr l = Ok (cellat (get_row (f_cels f) fr) l).
Proof.
  intros Hf. unfold cel_lookup. rewrite table_cel_cellat. destruct (Z.ltb_spec fr 0); [lia|].
  destruct (Z.leb_spec (num_frames f) fr); [lia|]. reflexivity.
Qed.

Lemma route_cel_ok route fr l : 0 <= fr < num_frames f -> 0 <= l < num_layers f -> route_cel f route fr l = Ok (fr, l).
Proof.
  intros Hf Hl. unfold route_cel. destruct (Z.ltb_spec fr 0); [lia|]. destruct (Z.leb_spec (num_frames f) fr); [lia|].
  destruct (Z.ltb_spec l 0); [lia|]. destruct (Z.leb_spec (num_layers f) l); [lia|]. reflexivity.
Qed.

Lemma cel_is_empty_ok id : 0 <= fst id < num_frames f -> exists b, cel_is_empty f id = Ok b.
Proof. intros Hf. unfold cel_is_empty. rewrite cel_lookup_ok by exact Hf. cbn [rbind]. eauto. Qed.
Lemma cel_user_data_ok id : 0 <= fst id < num_frames f -> exists u, cel_user_data f id = Ok u.
Proof. intros Hf. unfold cel_user_data. rewrite cel_lookup_ok by exact Hf. cbn [rbind]. eauto. Qed.
Lemma cel_top_left_ok id : 0 <= fst id < num_frames f -> exists xy, cel_top_left f id = Ok xy.
Proof. intros Hf. unfold cel_top_left. rewrite cel_lookup_ok by exact Hf. cbn [rbind]. eauto. Qed.
Lemma cel_is_tilemap_ok id : 0 <= fst id < num_frames f -> exists b, cel_is_tilemap f id = Ok b.
Proof. intros Hf. unfold cel_is_tilemap. rewrite cel_lookup_ok by exact Hf. cbn [rbind]. eauto. Qed.

(* ---------------- tilemaps ---------------- *)

Lemma ceil_div_bound a b : 0 <= a < 65536 -> 1 <= b -> 0 <= (a + b - 1) / b < 65536.
Proof.
  intros Ha Hb. split.
  - apply Z.div_pos; lia.
  - apply Z.div_lt_upper_bound; [lia|]. destruct (Z.eq_dec a 0) as [->|Hne]; [lia|].
    pose proof (Z.mul_le_mono_nonneg_l 1 a b ltac:(lia) ltac:(lia)) as H1.
    pose proof (Z.mul_le_mono_nonneg_r a 65535 b ltac:(lia) ltac:(lia)) as H2. lia.
Qed.

(* what a successful AsepriteFile::tilemap returns *)
Definition tilemap_wf (t : tilemap) : Prop :=
  0 <= tmv_frame t < num_frames f /\ 0 <= tmv_layer t < num_layers f /\
  ts_w (tmv_ts t) <> 0 /\ ts_h (tmv_ts t) <> 0 /\
  0 <= tmv_w t < 65536 /\ 0 <= tmv_h t < 65536 /\
  exists c d, cellat (get_row (f_cels f) (tmv_frame t)) (tmv_layer t) = Some c /\ c_content c = CTilemap d.

(* AsepriteFile::tilemap never panics, for any arguments *)
Theorem tilemap_of_ok l fr :
  exists o, tilemap_of f l fr = Ok o /\ forall t, o = Some t -> tilemap_wf t.
Proof.
  unfold tilemap_of.
  destruct (Z.ltb_spec l 0) as [H1|H1]; cbn [orb]; [exists None; split; [reflexivity|discriminate]|].
  destruct (Z.leb_spec (num_layers f) l) as [H2|H2]; cbn [orb]; [exists None; split; [reflexivity|discriminate]|].
  destruct (Z.ltb_spec fr 0) as [H3|H3]; cbn [orb]; [exists None; split; [reflexivity|discriminate]|].
  destruct (Z.leb_spec (num_frames f) fr) as [H4|H4]; cbn [orb]; [exists None; split; [reflexivity|discriminate]|].
  destruct (layer_get_ok l ltac:(lia)) as (ly & Ely & _). rewrite Ely. cbn [rbind].
  destruct (l_type ly =? 2); cbn [negb]; [|exists None; split; [reflexivity|discriminate]].
  destruct (zfind (l_tileset ly) (f_tilesets f)) as [ts|] eqn:Ets; [|exists None; split; [reflexivity|discriminate]].
  unfold cel_is_tilemap. cbn [fst snd]. rewrite cel_lookup_ok by lia. cbn [rbind].
  destruct (cellat (get_row (f_cels f) fr) l) as [c|] eqn:Ec; cbn [negb]; [|exists None; split; [reflexivity|discriminate]].
  destruct (c_content c) as [w h px|o|d] eqn:Ecc; cbn [negb]; try (exists None; split; [reflexivity|discriminate]).
  destruct (v_tilesets W f HV _ _ Ets) as (Hw & Hh & _).
  destruct (Z.eqb_spec (ts_w ts) 0) as [E|E]; [lia|]. destruct (Z.eqb_spec (ts_h ts) 0) as [E'|E']; [lia|]. cbn [orb].
  destruct (v_dims W f HV) as (Dw & Dh & _).
  pose proof (ceil_div_bound (f_width f) (ts_w ts) Dw ltac:(lia)) as Bw.
  pose proof (ceil_div_bound (f_height f) (ts_h ts) Dh ltac:(lia)) as Bh.
  destruct (Z.leb_spec 65536 ((f_width f + ts_w ts - 1) / ts_w ts)); [lia|].
  destruct (Z.leb_spec 65536 ((f_height f + ts_h ts - 1) / ts_h ts)); [lia|]. cbn [orb].
  eexists. split; [reflexivity|]. intros t [= <-]. unfold tilemap_wf. cbn [tmv_frame tmv_layer tmv_ts tmv_w tmv_h].
  repeat split; try lia. exists c, d. split; assumption.
Qed.

Lemma tilemap_pixel_offsets_ok t : tilemap_wf t -> exists xy, tilemap_pixel_offsets f t = Ok xy.
Proof. intros (Hf & _). unfold tilemap_pixel_offsets. apply cel_top_left_ok. exact Hf. Qed.

Lemma tilemap_tile_offsets_ok t : tilemap_wf t -> exists xy, tilemap_tile_offsets f t = Ok xy.
Proof.
  intros Ht. destruct (tilemap_pixel_offsets_ok t Ht) as [[x y] E]. destruct Ht as (_ & _ & Hw & Hh & _).
  unfold tilemap_tile_offsets. rewrite E. cbn [rbind].
  destruct (Z.eqb_spec (ts_w (tmv_ts t)) 0); [contradiction|]. destruct (Z.eqb_spec (ts_h (tmv_ts t)) 0); [contradiction|].
  cbn [orb]. eauto.
Qed.

(* Tilemap::tile at any coordinates *)
Theorem tilemap_tile_ok t x y : tilemap_wf t -> exists id, tilemap_tile f t x y = Ok id.
Proof.
  intros Ht. destruct (tilemap_tile_offsets_ok t Ht) as [[ox oy] E]. unfold tilemap_tile. rewrite E. cbn [rbind].
  destruct Ht as (Hf & Hl & _ & _ & _ & _ & c & d & Hc & Hd).
  unfold tilemap_data. rewrite cel_lookup_ok by exact Hf. cbn [rbind]. rewrite Hc, Hd. cbn [rbind].
  destruct (Z.ltb_spec (x - ox) 0) as [H1|H1]; cbn [orb]; [eauto|].
  destruct (Z.ltb_spec (y - oy) 0) as [H2|H2]; cbn [orb]; [eauto|].
  destruct (Z.leb_spec (tm_w d) (x - ox)) as [H3|H3]; cbn [orb]; [eauto|].
  destruct (Z.leb_spec (tm_h d) (y - oy)) as [H4|H4]; cbn [orb]; [eauto|].
  destruct (v_cels W f HV _ _ _ Hc) as (_ & _ & Hcel). rewrite Hd in Hcel.
  destruct Hcel as (_ & _ & ly & ts & tiles & _ & _ & _ & Etiles & Hlen & _).
  rewrite Etiles, aget_arr_of_list.
  destruct (nthz_in_range tiles ((y - oy) * tm_w d + (x - ox))) as [id Hid]; [rewrite Hlen; rewrite (Z.mul_comm (tm_w d)); apply grid_index; lia|].
  rewrite Hid. eauto.
Qed.

End Accessors.

(* ------------------------------------------------------------------ *)
(* firstn_z / skipn_z *)

Lemma firstn_z_firstn {A} : forall (l : list A) n, firstn_z n l = firstn (Z.to_nat n) l.
Proof.
  induction l as [|x t IH]; intros n; cbn [firstn_z].
  - destruct (n <=? 0); destruct (Z.to_nat n); reflexivity.
  - destruct (Z.leb_spec n 0) as [H|H].
    + replace (Z.to_nat n) with 0%nat by lia. reflexivity.
    + replace (Z.to_nat n) with (S (Z.to_nat (n - 1))) by lia. cbn [firstn]. rewrite IH. reflexivity.
Qed.

Lemma skipn_z_skipn {A} : forall (l : list A) n, skipn_z n l = skipn (Z.to_nat n) l.
Proof.
  induction l as [|x t IH]; intros n; cbn [skipn_z].
  - destruct (n <=? 0); destruct (Z.to_nat n); reflexivity.
  - destruct (Z.leb_spec n 0) as [H|H].
    + replace (Z.to_nat n) with 0%nat by lia. reflexivity.
    + replace (Z.to_nat n) with (S (Z.to_nat (n - 1))) by lia. cbn [skipn]. rewrite IH. reflexivity.
Qed.

Lemma zlen_firstn_z {A} (l : list A) n : 0 <= n <= zlen l -> zlen (firstn_z n l) = n.
Proof. intros H. rewrite firstn_z_firstn. unfold zlen in *. rewrite firstn_length. lia. Qed.

Lemma zlen_skipn_z {A} (l : list A) n : 0 <= n <= zlen l -> zlen (skipn_z n l) = zlen l - n.
Proof. intros H. rewrite skipn_z_skipn. unfold zlen in *. rewrite skipn_length. lia. Qed.

(* ------------------------------------------------------------------ *)
(* the STRUCT walk of Model/Dump.v: sizes, durations, layers with parents and visibility,
   tags, slices, user data, palette, external files, tilesets, lookups by name and id *)

Lemma concat_res_ok {A} : forall (l : list (res (list A))) acc,
  (forall r, In r l -> exists x, r = Ok x) ->
  exists x, rfold (fun acc r => x <-- r ;;; Ok (acc ++ x)) l acc = Ok x.
Proof.
  induction l as [|r t IH]; intros acc H; cbn [rfold]; [eauto|].
  destruct (H r (or_introl eq_refl)) as [x ->]. cbn [rbind]. apply IH. intros r' Hr'. apply H. right. exact Hr'.
Qed.

Section Struct.
Variable W : Z -> Prop.
Variable f : file.
Hypothesis HV : ValidW W f.

Lemma layer_lines_ok id : 0 <= id < num_layers f -> exists ls, layer_lines f id = Ok ls.
Proof.
  intros Hi. unfold layer_lines. destruct (layer_get_ok W f HV id Hi) as (l & -> & _). cbn [rbind].
  destruct (layer_parent_ok W f HV id Hi) as [o ->]. cbn [rbind].
  destruct (layer_is_visible_ok W f HV id Hi) as [b ->]. cbn [rbind]. eauto.
Qed.

Lemma lookup_lines_ok : exists ls, lookup_lines f = Ok ls.
Proof.
  unfold lookup_lines.
  destruct (rmapM_ok (fun id => l <-- layer_get f id ;;; Ok [21; 0; id; 0; optz (layer_by_name f (l_name l))]) (ziota (num_layers f)))
    as (ys & -> & _).
  - intros id Hid. apply in_ziota in Hid. destruct (layer_get_ok W f HV id Hid) as (l & -> & _). cbn [rbind]. eauto.
  - cbn [rbind]. eauto.
Qed.

Theorem section_struct_ok : exists ls, section_struct f = Ok ls.
Proof.
  unfold section_struct.
  destruct (rmapM_ok (fun i => d <-- frame_duration f i ;;; Ok [3; i; d]) (ziota (num_frames f))) as (durs & -> & _).
  { intros i Hi. apply in_ziota in Hi. destruct (frame_duration_ok f i Hi) as [d ->]. cbn [rbind]. eauto. }
  cbn [rbind]. unfold concat_res.
  destruct (concat_res_ok (map (layer_lines f) (ziota (num_layers f))) []) as [lays ->].
  { intros r Hr. apply in_map_iff in Hr. destruct Hr as (id & <- & Hid). apply in_ziota in Hid. apply layer_lines_ok. exact Hid. }
  cbn [rbind]. destruct lookup_lines_ok as [looks ->]. cbn [rbind]. eauto.
Qed.

End Struct.

(* ------------------------------------------------------------------ *)
(* rendering, generically in what may go wrong inside blend *)

Section Render.
Variable W : Z -> Prop.
Variable allow : Z -> Prop.              (* the Panic sites not excluded *)
Variable Pimg : image -> Prop.           (* invariant of the canvas *)
Variable Psrc : pixel -> Prop.           (* what is known of source pixels *)
Variable Mok : Z -> Prop.                (* blend modes covered *)
Hypothesis Hsrc_rgba : forall p, pixW W p -> Psrc p.
Hypothesis Hsrc_gray : forall va, grayW W va -> Psrc (fst va, fst va, fst va, snd va).
Hypothesis Hsrc_pal : forall r g b a, pix_wf (r, g, b, a) -> Psrc (r, g, b, a) /\ Psrc (r, g, b, 0).
Hypothesis Hnew : forall w h, Pimg (img_new w h).

Definition keeps (img img' : image) : Prop := Pimg img' /\ iw img' = iw img /\ ih img' = ih img.

Hypothesis Hput : forall img m x y p o, Pimg img -> Mok m -> Psrc p -> is_byte o ->
  outc allow (keeps img) (blend_put img m x y p o).

Lemma keeps_refl img : Pimg img -> keeps img img.
Proof. intros H. split; [exact H|split; reflexivity]. Qed.
Lemma keeps_trans a b c : keeps a b -> keeps b c -> keeps a c.
Proof. intros (_ & H1 & H2) (H3 & H4 & H5). split; [exact H3|split; congruence]. Qed.

(* Pixels::clone_as_image_rgba *)
Lemma clone_as_rgba_ok n px : pixels_ok W n px ->
  exists l, clone_as_rgba px = Ok (arr_of_list l) /\ zlen l = n /\ Forall Psrc l.
Proof.
  destruct px as [a|a|pal t bg a]; cbn [pixels_ok clone_as_rgba].
  - intros (l & -> & Hlen & HW). exists l. split; [reflexivity|]. split; [exact Hlen|].
    eapply Forall_impl; [|exact HW]. exact Hsrc_rgba.
  - intros (l & -> & Hlen & HW). unfold arr_mapM. rewrite arr_to_list_of_list.
    rewrite (rmapM_map _ (fun va => (fst va, fst va, fst va, snd va))) by (intros; reflexivity). cbn [rbind].
    eexists. split; [reflexivity|]. split; [rewrite zlen_map; exact Hlen|].
    apply Forall_forall. intros p Hp. apply in_map_iff in Hp. destruct Hp as (va & <- & Hva).
    rewrite Forall_forall in HW. apply Hsrc_gray. apply HW. exact Hva.
  - intros (l & -> & Hlen & Hpal & Hwf). unfold arr_mapM. rewrite arr_to_list_of_list.
    set (h := fun i => match zfind i pal with
                       | Some e => let '(r, g, b, al) := pe_rgba e in (r, g, b, if (t =? i) && negb bg then 0 else al)
                       | None => transparent end).
    rewrite (rmapM_map _ h).
    + cbn [rbind]. eexists. split; [reflexivity|]. split; [rewrite zlen_map; exact Hlen|].
      apply Forall_forall. intros p Hp. apply in_map_iff in Hp. destruct Hp as (i & <- & Hi).
      rewrite Forall_forall in Hpal. destruct (Hpal i Hi) as [e He]. subst h. cbv beta. rewrite He.
      pose proof (Hwf i e He) as Hwfe. destruct (pe_rgba e) as [[[r g] b] al].
      destruct (Hsrc_pal r g b al Hwfe) as [Q1 Q2]. destruct ((t =? i) && negb bg); assumption.
    + intros i Hi. rewrite Forall_forall in Hpal. destruct (Hpal i Hi) as [e He]. unfold indexed_rgba. subst h. cbv beta.
      rewrite He. destruct (pe_rgba e) as [[[r g] b] al]. reflexivity.
Qed.

(* write_raw_cel_to_image: pixels[idx] is in range *)
Lemma write_raw_ok img cc w h l mode lop : Pimg img -> Mok mode -> 0 <= w -> 0 <= h -> zlen l = w * h -> Forall Psrc l ->
  outc allow (keeps img) (write_raw img cc w h (arr_of_list l) mode lop).
Proof.
  intros Himg Hm Hw Hh Hlen Hsrc. unfold write_raw.
  apply outc_rfold; [|apply keeps_refl; exact Himg]. intros img1 y K1 Hy. apply in_zrange in Hy.
  destruct ((y <? 0) || (ih img1 <=? y)); [exact K1|].
  eapply outc_weaken; [apply (outc_rfold allow (keeps img1)); [|apply keeps_refl; apply K1]|intros a Ka; eapply keeps_trans; eassumption].
  intros img2 x K2 Hx. apply in_zrange in Hx.
  destruct ((x <? 0) || (iw img2 <=? x)); [exact K2|].
  rewrite aget_arr_of_list.
  destruct (nthz_in_range l ((y - cc_y cc) * w + (x - cc_x cc))) as [p Hp];
    [rewrite Hlen, (Z.mul_comm w h); apply grid_index; lia|].
  rewrite Hp. eapply outc_weaken; [apply Hput; [apply K2|exact Hm| |apply mul_un8_is_byte]|intros a Ka; eapply keeps_trans; eassumption].
  rewrite Forall_forall in Hsrc. apply Hsrc. eapply nthz_In. exact Hp.
Qed.

(* write_tilemap_cel_to_image: tile index, tile slice and tile pixel index are in range *)
Lemma write_tilemap_ok img cc tm tiles tw th count l mode lop :
  Pimg img -> Mok mode ->
  0 <= tm_w tm -> 0 <= tm_h tm -> tm_tiles tm = arr_of_list tiles -> zlen tiles = tm_w tm * tm_h tm ->
  Forall (fun t => 0 <= t < count) tiles ->
  1 <= tw -> 1 <= th -> zlen l = count * th * tw -> Forall Psrc l ->
  outc allow (keeps img) (write_tilemap img cc tm tw th (arr_of_list l) mode lop).
Proof.
  intros Himg Hm Hw Hh Etiles Hlen Htiles Htw Hth Hl Hsrc. unfold write_tilemap.
  apply outc_rfold; [|apply keeps_refl; exact Himg]. intros img1 ty K1 Hty. apply in_ziota in Hty.
  eapply outc_weaken; [apply (outc_rfold allow (keeps img1)); [|apply keeps_refl; apply K1]|intros a Ka; eapply keeps_trans; eassumption].
  intros img2 tx K2 Htx. apply in_ziota in Htx.
  rewrite Etiles, aget_arr_of_list.
  destruct (nthz_in_range tiles (ty * tm_w tm + tx)) as [tid Htid]; [rewrite Hlen, (Z.mul_comm (tm_w tm)); apply grid_index; lia|].
  rewrite Htid. rewrite Forall_forall in Htiles. pose proof (Htiles tid (nthz_In _ _ _ Htid)) as Hr.
  assert (Hppt : 0 <= tw * th) by (apply Z.mul_nonneg_nonneg; lia).
  assert (Hend : tw * th * tid + tw * th <= zlen l).
  { rewrite Hl. replace (tw * th * tid + tw * th) with (tw * th * (tid + 1)) by ring.
    replace (count * th * tw) with (tw * th * count) by ring. apply Z.mul_le_mono_nonneg_l; lia. }
  assert (Hstart : 0 <= tw * th * tid) by (apply Z.mul_nonneg_nonneg; lia).
  rewrite alen_arr_of_list. destruct (Z.ltb_spec (zlen l) (tw * th * tid + tw * th)) as [Hbad|_]; [lia|].
  eapply outc_weaken; [apply (outc_rfold allow (keeps img2)); [|apply keeps_refl; apply K2]|intros a Ka; eapply keeps_trans; eassumption].
  intros img3 py K3 Hpy. apply in_ziota in Hpy.
  eapply outc_weaken; [apply (outc_rfold allow (keeps img3)); [|apply keeps_refl; apply K3]|intros a Ka; eapply keeps_trans; eassumption].
  intros img4 px K4 Hpx. apply in_ziota in Hpx.
  rewrite aget_arr_of_list. pose proof (grid_index py px tw th Hpy Hpx) as Hg.
  destruct (nthz_in_range l (tw * th * tid + (py * tw + px))) as [p Hp]; [rewrite (Z.mul_comm tw th) in *; lia|].
  rewrite Hp.
  destruct ((0 <=? tx * tw + px + cc_x cc) && (tx * tw + px + cc_x cc <? iw img4) && (0 <=? ty * th + py + cc_y cc) &&
            (ty * th + py + cc_y cc <? ih img4)); [|exact K4].
  eapply outc_weaken; [apply Hput; [apply K4|exact Hm| |apply mul_un8_is_byte]|intros a Ka; eapply keeps_trans; eassumption].
  rewrite Forall_forall in Hsrc. apply Hsrc. eapply nthz_In. exact Hp.
Qed.

Variable f : file.
Hypothesis HV : ValidW W f.
Hypothesis Hmodes : forall i l, aget (f_layers f) i = Some l -> Mok (l_blend l).

(* write_cel for a cel that is not a link: every "should have been caught by validate" site is excluded *)
Lemma write_cel_direct_ok img i c : 0 <= i < num_layers f -> cel_ok W f i c -> is_linked c = false -> Pimg img ->
  outc allow (keeps img) (write_cel_direct f img c).
Proof.
  intros Hi [Hlay Hc] Hnl Himg. unfold write_cel_direct. rewrite Hlay.
  destruct (layer_get_ok W f HV i Hi) as (ly & Ely & Ea). rewrite Ely. cbn [rbind].
  pose proof (Hmodes i ly Ea) as Hm.
  unfold is_linked in Hnl. destruct (c_content c) as [w h px|o|tm]; [| discriminate |].
  - destruct Hc as (Hw & Hh & Hpx). destruct (clone_as_rgba_ok _ _ Hpx) as (l & El & Hlen & Hsrc). rewrite El. cbn [rbind].
    apply write_raw_ok; try assumption; lia.
  - destruct Hc as (Hw & Hh & ly' & ts & tiles & Ea' & Hty & Hts & Etiles & Hlen & Htiles).
    rewrite Ea in Ea'. injection Ea' as <-. rewrite Hty. cbn [Z.eqb Pos.eqb negb]. rewrite Hts.
    destruct (v_tilesets W f HV _ _ Hts) as (Tw & Th & Tc & Tbig & px & Epx & Hpx). rewrite Epx.
    destruct (clone_as_rgba_ok _ _ Hpx) as (l & El & Hl & Hsrc). rewrite El. cbn [rbind].
    apply (write_tilemap_ok img (c_data c) tm tiles (ts_w ts) (ts_h ts) (ts_count ts)); try assumption; lia.
Qed.

(* write_cel: a link is followed once; its target is in range and not a link *)
Lemma write_cel_ok img i c : 0 <= i < num_layers f -> cel_ok W f i c -> Pimg img ->
  outc allow (keeps img) (write_cel f img c).
Proof.
  intros Hi Hc Himg. unfold write_cel. destruct (c_content c) as [w h px|o|tm] eqn:Ec.
  - apply (write_cel_direct_ok img i c); try assumption. unfold is_linked. rewrite Ec. reflexivity.
  - destruct Hc as [Hlay Hc]. rewrite Ec in Hc. destruct Hc as (Ho & _ & Htgt). rewrite Hlay.
    destruct (layer_get_ok W f HV i Hi) as (ly & Ely & _). rewrite Ely. cbn [rbind].
    rewrite (cel_lookup_ok f o i) by (unfold num_frames; lia). cbn [rbind].
    destruct (cellat (get_row (f_cels f) o) i) as [c'|] eqn:Ec'; [|apply keeps_refl; exact Himg].
    destruct (v_cels W f HV _ _ _ Ec') as [_ Hc'].
    apply (write_cel_direct_ok img i c'); try assumption. apply Htgt. reflexivity.
  - apply (write_cel_direct_ok img i c); try assumption. unfold is_linked. rewrite Ec. reflexivity.
Qed.

Definition canvas (img : image) : Prop := Pimg img /\ iw img = f_width f /\ ih img = f_height f.

Lemma canvas_new : canvas (img_new (f_width f) (f_height f)).
Proof. split; [apply Hnew|split; reflexivity]. Qed.

Lemma keeps_canvas img img' : canvas img -> keeps img img' -> canvas img'.
Proof. intros (_ & H1 & H2) (H3 & H4 & H5). split; [exact H3|split; congruence]. Qed.

(* Cel::image *)
Theorem cel_image_ok fr l : 0 <= fr < num_frames f -> outc allow canvas (cel_image f (fr, l)).
Proof.
  intros Hf. unfold cel_image. cbn [fst snd]. rewrite (cel_lookup_ok f fr l Hf). cbn [rbind].
  destruct (cellat (get_row (f_cels f) fr) l) as [c|] eqn:Ec; [|exact canvas_new].
  destruct (v_cels W f HV _ _ _ Ec) as [Hl Hc].
  eapply outc_weaken; [apply (write_cel_ok _ l c Hl Hc); apply Hnew|]. intros a Ka. eapply keeps_canvas; [exact canvas_new|exact Ka].
Qed.

Lemma frame_row_ok : forall r id img, 0 <= id ->
  (forall k c, nthz r k = Some (Some c) -> 0 <= id + k < num_layers f /\ cel_ok W f (id + k) c) ->
  Pimg img -> outc allow (keeps img) (frame_row f img r id).
Proof.
  induction r as [|oc rest IH]; intros id img Hid Hr Himg; cbn [frame_row]; [apply keeps_refl; exact Himg|].
  assert (Hrest : forall k c, nthz rest k = Some (Some c) -> 0 <= id + 1 + k < num_layers f /\ cel_ok W f (id + 1 + k) c).
  { intros k c Hk. pose proof (nthz_some _ _ _ Hk) as Hrange. specialize (Hr (k + 1) c).
    rewrite nthz_cons_succ in Hr by lia. specialize (Hr Hk). replace (id + 1 + k) with (id + (k + 1)) by lia. exact Hr. }
  destruct oc as [c|]; [|apply IH; [lia|exact Hrest|exact Himg]].
  destruct (Hr 0 c (nthz_cons_0 _ _)) as [Hl Hc]. rewrite Z.add_0_r in Hl, Hc.
  destruct (Z.leb_spec (num_layers f) id); [lia|].
  destruct (layer_is_visible_ok W f HV id Hl) as [v Ev]. rewrite Ev. cbn [rbind].
  eapply outc_rbind with (P := keeps img).
  - destruct v; [apply (write_cel_ok img id c); assumption|apply keeps_refl; exact Himg].
  - intros img' K. eapply outc_weaken; [apply IH; [lia|exact Hrest|apply K]|]. intros a Ka. eapply keeps_trans; eassumption.
Qed.

(* Frame::image *)
Theorem frame_image_ok fr : 0 <= fr < num_frames f -> outc allow canvas (frame_image f fr).
Proof.
  intros Hf. unfold frame_image. destruct (Z.ltb_spec fr 0); [lia|]. destruct (Z.leb_spec (num_frames f) fr); [lia|]. cbn [orb].
  eapply outc_weaken; [apply frame_row_ok; [lia| |apply Hnew]|intros a Ka; eapply keeps_canvas; [exact canvas_new|exact Ka]].
  intros k c Hk. rewrite Z.add_0_l. apply (v_cels W f HV fr). unfold cellat. rewrite Hk. reflexivity.
Qed.

(* Tilemap::image *)
Theorem tilemap_image_ok t : tilemap_wf f t -> outc allow canvas (tilemap_image f t).
Proof. intros (Hf & _). unfold tilemap_image. apply cel_image_ok. exact Hf. Qed.

(* ---------------- tileset images (no blending) ---------------- *)

Theorem tile_image_ok k ts i : zfind k (f_tilesets f) = Some ts -> 0 <= i < ts_count ts ->
  exists r, tile_image ts i = Ok r /\ rw r = ts_w ts /\ rh r = ts_h ts /\ zlen (rpx r) = ts_w ts * ts_h ts.
Proof.
  intros Hts Hi. destruct (v_tilesets W f HV _ _ Hts) as (Tw & Th & Tc & Tbig & px & Epx & Hpx).
  unfold tile_image. destruct (Z.ltb_spec i 0) as [Hq1|Hq1]; [lia|]. destruct (Z.leb_spec (ts_count ts) i) as [Hq2|Hq2]; [lia|]. cbn [orb].
  rewrite Epx. destruct (clone_as_rgba_ok _ _ Hpx) as (l & El & Hl & _). rewrite El. cbn [rbind].
  rewrite arr_to_list_of_list.
  assert (Hppt : 0 <= ts_w ts * ts_h ts) by (apply Z.mul_nonneg_nonneg; lia).
  assert (Hskip : 0 <= i * (ts_w ts * ts_h ts)) by (apply Z.mul_nonneg_nonneg; lia).
  assert (Hend : i * (ts_w ts * ts_h ts) + ts_w ts * ts_h ts <= zlen l).
  { rewrite Hl. replace (i * (ts_w ts * ts_h ts) + ts_w ts * ts_h ts) with ((i + 1) * (ts_w ts * ts_h ts)) by ring.
    replace (ts_count ts * ts_h ts * ts_w ts) with (ts_count ts * (ts_w ts * ts_h ts)) by ring.
    apply Z.mul_le_mono_nonneg_r; lia. }
  assert (Hraw : zlen (firstn_z (ts_w ts * ts_h ts) (skipn_z (i * (ts_w ts * ts_h ts)) l)) = ts_w ts * ts_h ts).
  { apply zlen_firstn_z. rewrite zlen_skipn_z by lia. lia. }
  rewrite Hraw. destruct (Z.ltb_spec (ts_w ts * ts_h ts) (ts_w ts * ts_h ts)); [lia|].
  eexists. split; [reflexivity|]. cbn [rw rh rpx]. repeat split. exact Hraw.
Qed.

Theorem tileset_image_ok k ts : zfind k (f_tilesets f) = Some ts ->
  exists r, tileset_image ts = Ok r /\ rw r = ts_w ts /\ rh r = ts_h ts * ts_count ts /\
            zlen (rpx r) = ts_w ts * (ts_h ts * ts_count ts).
Proof.
  intros Hts. destruct (v_tilesets W f HV _ _ Hts) as (Tw & Th & Tc & Tbig & px & Epx & Hpx).
  unfold tileset_image. rewrite Epx. destruct (clone_as_rgba_ok _ _ Hpx) as (l & El & Hl & _). rewrite El. cbn [rbind].
  assert (Hhc : 0 <= ts_h ts * ts_count ts) by (apply Z.mul_nonneg_nonneg; lia).
  assert (Hle : ts_h ts * ts_count ts <= ts_count ts * ts_h ts * ts_w ts).
  { replace (ts_count ts * ts_h ts * ts_w ts) with (ts_h ts * ts_count ts * ts_w ts) by ring.
    pose proof (Z.mul_le_mono_nonneg_l 1 (ts_w ts) (ts_h ts * ts_count ts) Hhc ltac:(lia)). lia. }
  destruct (Z.leb_spec 4294967296 (ts_h ts * ts_count ts)); [lia|].
  rewrite alen_arr_of_list, arr_to_list_of_list.
  assert (Heq : ts_w ts * (ts_h ts * ts_count ts) = zlen l) by (rewrite Hl; ring).
  destruct (Z.ltb_spec (zlen l) (ts_w ts * (ts_h ts * ts_count ts))); [lia|].
  eexists. split; [reflexivity|]. cbn [rw rh rpx]. repeat split. apply zlen_firstn_z. lia.
Qed.

(* ---------------- the FRAMES, CELS and TILES walks of Model/Dump.v ---------------- *)

Variable o : obsopts.
Hypothesis Hmaxf : forall m, o_max_frames o = Some m -> 0 <= m.
Hypothesis Hmaxl : forall m, o_max_layers o = Some m -> 0 <= m.

Let any {A} : A -> Prop := fun _ => True.

Lemma nframes_nonneg : 0 <= num_frames f.
Proof. destruct (v_dims W f HV) as (_ & _ & H). unfold num_frames. lia. Qed.
Lemma nlayers_nonneg : 0 <= num_layers f.
Proof.
  destruct (v_parents W f HV) as (ls & ps & El & _). unfold num_layers. rewrite El, alen_arr_of_list. apply zlen_nonneg.
Qed.

Lemma section_frames_ok : outc allow any (section_frames f o).
Proof.
  unfold section_frames. apply outc_rmapM. intros fr Hfr. apply in_selected in Hfr; [|exact nframes_nonneg|exact Hmaxf].
  eapply outc_rbind; [apply frame_image_ok; exact Hfr|]. intros img _. exact I.
Qed.

Lemma cel_route_lines_ok fr l route : 0 <= fr < num_frames f -> 0 <= l < num_layers f ->
  outc allow any (cel_route_lines f fr l route).
Proof.
  intros Hf Hl. unfold cel_route_lines. rewrite (route_cel_ok f route fr l Hf Hl). cbn [rbind].
  destruct (cel_top_left_ok f (fr, l) Hf) as [[x y] ->]. cbn [rbind].
  destruct (cel_is_empty_ok f (fr, l) Hf) as [e ->]. cbn [rbind].
  destruct (cel_is_tilemap_ok f (fr, l) Hf) as [tm ->]. cbn [rbind].
  destruct (route =? 0); [|exact I].
  destruct (cel_user_data_ok f (fr, l) Hf) as [u ->]. cbn [rbind fst snd].
  eapply outc_rbind; [apply cel_image_ok; exact Hf|]. intros img _. exact I.
Qed.

Lemma section_cels_ok : outc allow any (section_cels f o).
Proof.
  unfold section_cels. apply outc_concat_res. intros r Hr.
  apply in_flat_map in Hr. destruct Hr as (fr & Hfr & Hr). apply in_selected in Hfr; [|exact nframes_nonneg|exact Hmaxf].
  apply in_flat_map in Hr. destruct Hr as (l & Hl & Hr). apply in_selected in Hl; [|exact nlayers_nonneg|exact Hmaxl].
  apply in_map_iff in Hr. destruct Hr as (route & <- & _). apply cel_route_lines_ok; assumption.
Qed.

Lemma tileset_img_lines_ok k ts : zfind k (f_tilesets f) = Some ts -> outc allow any (tileset_img_lines ts).
Proof.
  intros Hts. unfold tileset_img_lines. destruct (tileset_image_ok k ts Hts) as (full & -> & _). cbn [rbind].
  destruct (v_tilesets W f HV _ _ Hts) as (_ & _ & Tc & _).
  eapply outc_rbind with (P := any); [|intros tiles _; exact I].
  apply outc_rmapM. intros i Hi.
  assert (Hr : 0 <= i < ts_count ts).
  { apply in_app_or in Hi. destruct Hi as [Hi|Hi].
    - apply in_ziota in Hi. lia.
    - destruct (Z.ltb_spec 64 (ts_count ts)); [|contradiction]. destruct Hi as [<-|[]]. lia. }
  destruct (tile_image_ok k ts i Hts Hr) as (r & -> & _). exact I.
Qed.

Lemma tilemap_lines_ok l fr : outc allow any (tilemap_lines f l fr).
Proof.
  unfold tilemap_lines. destruct (tilemap_of_ok W f HV l fr) as (ot & -> & Hwf). cbn [rbind].
  destruct ot as [t|]; [|exact I]. specialize (Hwf t eq_refl).
  destruct (tilemap_tile_offsets_ok f t Hwf) as [[ox oy] ->]. cbn [rbind].
  destruct (tilemap_pixel_offsets_ok f t Hwf) as [[px py] ->]. cbn [rbind].
  eapply outc_rbind with (P := any).
  - apply outc_rmapM. intros xy _. apply outc_of_ok. apply (tilemap_tile_ok W f HV). exact Hwf.
  - intros ids _. eapply outc_rbind; [apply tilemap_image_ok; exact Hwf|]. intros img _. exact I.
Qed.

Lemma section_tiles_ok : outc allow any (section_tiles f o).
Proof.
  unfold section_tiles. eapply outc_rbind with (P := any).
  { apply outc_concat_res. intros r Hr. apply in_map_iff in Hr. destruct Hr as ([k ts] & <- & Hk).
    apply in_zelements in Hk. cbn [snd]. exact (tileset_img_lines_ok k ts Hk). }
  intros tsl _. eapply outc_rbind with (P := any).
  { apply outc_concat_res. intros r Hr. apply in_flat_map in Hr. destruct Hr as (l & _ & Hr).
    apply in_map_iff in Hr. destruct Hr as (fr & <- & _). apply tilemap_lines_ok. }
  intros tml _. destruct (tilemap_of_ok W f HV (num_layers f) 0) as (r1 & -> & _). cbn [rbind].
  destruct (tilemap_of_ok W f HV 0 (num_frames f)) as (r2 & -> & _). cbn [rbind]. exact I.
Qed.

(* the whole observation of Model/Dump.v, section by section *)
Theorem section_ok bit : outc allow any (section f o bit).
Proof.
  unfold section. destruct (bit =? 1); [apply outc_of_ok; exact (section_struct_ok W f HV)|].
  destruct (bit =? 2); [exact section_frames_ok|]. destruct (bit =? 4); [exact section_cels_ok|].
  destruct (bit =? 8); [exact section_tiles_ok|exact I].
Qed.

End Render.

(* ------------------------------------------------------------------ *)
(* instance 1: nothing assumed about blend.  The only Panic left is 302 (inside blend) *)

Section Unconditional.
Variable f : file.
Hypothesis HV : Valid f.

Let W0 : Z -> Prop := fun _ => True.
Let allow0 : Z -> Prop := fun s => s = 302.
Let Pimg0 : image -> Prop := fun _ => True.
Let Psrc0 : pixel -> Prop := fun _ => True.
Let Mok0 : Z -> Prop := fun _ => True.

Lemma put0 : forall img m x y p o, Pimg0 img -> Mok0 m -> Psrc0 p -> is_byte o ->
  outc allow0 (keeps Pimg0 img) (blend_put img m x y p o).
Proof.
  intros img m x y p o _ _ _ _. unfold blend_put. destruct (blend m (img_get img x y) p o) as [q|]; cbn [outc].
  - split; [exact I|split; reflexivity].
  - reflexivity.
Qed.

Definition dims_ok (img : image) : Prop := iw img = f_width f /\ ih img = f_height f.

Theorem frame_image_ok_or_302 fr : 0 <= fr < num_frames f ->
  (exists img, frame_image f fr = Ok img /\ dims_ok img) \/ frame_image f fr = Panic 302.
Proof.
  intros Hf.
  pose proof (frame_image_ok W0 allow0 Pimg0 Psrc0 Mok0 (fun _ _ => I) (fun _ _ => I) (fun _ _ _ _ _ => conj I I)
                (fun _ _ => I) put0 f HV (fun _ _ _ => I) fr Hf) as H.
  apply outc_302 in H. destruct H as [(img & E & _ & D)|E]; [left; exists img; split; [exact E|exact D]|right; exact E].
Qed.

Theorem cel_image_ok_or_302 fr l : 0 <= fr < num_frames f ->
  (exists img, cel_image f (fr, l) = Ok img /\ dims_ok img) \/ cel_image f (fr, l) = Panic 302.
Proof.
  intros Hf.
  pose proof (cel_image_ok W0 allow0 Pimg0 Psrc0 Mok0 (fun _ _ => I) (fun _ _ => I) (fun _ _ _ _ _ => conj I I)
                (fun _ _ => I) put0 f HV (fun _ _ _ => I) fr l Hf) as H.
  apply outc_302 in H. destruct H as [(img & E & _ & D)|E]; [left; exists img; split; [exact E|exact D]|right; exact E].
Qed.

Theorem tilemap_image_ok_or_302 t : tilemap_wf f t ->
  (exists img, tilemap_image f t = Ok img /\ dims_ok img) \/ tilemap_image f t = Panic 302.
Proof. intros (Hf & _). unfold tilemap_image. apply cel_image_ok_or_302. exact Hf. Qed.

Theorem tile_image_valid k ts i : zfind k (f_tilesets f) = Some ts -> 0 <= i < ts_count ts ->
  exists r, tile_image ts i = Ok r /\ rw r = ts_w ts /\ rh r = ts_h ts /\ zlen (rpx r) = ts_w ts * ts_h ts.
Proof.
  exact (tile_image_ok W0 Psrc0 (fun _ _ => I) (fun _ _ => I) (fun _ _ _ _ _ => conj I I) f HV k ts i).
Qed.

Theorem tileset_image_valid k ts : zfind k (f_tilesets f) = Some ts ->
  exists r, tileset_image ts = Ok r /\ rw r = ts_w ts /\ rh r = ts_h ts * ts_count ts /\
            zlen (rpx r) = ts_w ts * (ts_h ts * ts_count ts).
Proof.
  exact (tileset_image_ok W0 Psrc0 (fun _ _ => I) (fun _ _ => I) (fun _ _ _ _ _ => conj I I) f HV k ts).
Qed.

Definition opts_ok (o : obsopts) : Prop :=
  (forall m, o_max_frames o = Some m -> 0 <= m) /\ (forall m, o_max_layers o = Some m -> 0 <= m).

(* every section of the observation of Model/Dump.v (the whole public API walk) *)
Theorem section_ok_or_302 o bit : opts_ok o ->
  (exists ls, section f o bit = Ok ls) \/ section f o bit = Panic 302.
Proof.
  intros [Hf Hl].
  pose proof (section_ok W0 allow0 Pimg0 Psrc0 Mok0 (fun _ _ => I) (fun _ _ => I) (fun _ _ _ _ _ => conj I I)
                (fun _ _ => I) put0 f HV (fun _ _ _ => I) o Hf Hl bit) as H.
  apply outc_302 in H. destruct H as [(ls & E & _)|E]; [left; eauto|right; exact E].
Qed.

End Unconditional.

(* ------------------------------------------------------------------ *)
(* instance 2: blend is total on byte pixels for the modes in Mok; then rendering is total on
   files whose pixels are bytes and whose layers use those modes *)

Definition img_wf (img : image) : Prop := forall k p, PositiveMap.find k (ipx img) = Some p -> pix_wf p.

Lemma transparent_wf : pix_wf transparent.
Proof. unfold transparent. cbn [pix_wf]. unfold is_byte. lia. Qed.

Lemma img_get_wf img x y : img_wf img -> pix_wf (img_get img x y).
Proof.
  intros H. unfold img_get. destruct (PositiveMap.find (ikey (iw img) x y) (ipx img)) as [p|] eqn:E; [exact (H _ _ E)|exact transparent_wf].
Qed.

Lemma img_put_wf img x y q : img_wf img -> pix_wf q -> img_wf (img_put img x y q).
Proof.
  intros H Hq k p. unfold img_put. cbn [ipx]. rewrite PositiveMapAdditionalFacts.gsspec.
  destruct (PositiveMap.E.eq_dec k (ikey (iw img) x y)); [intros [= <-]; exact Hq|apply H].
Qed.

Lemma img_new_wf w h : img_wf (img_new w h).
Proof. intros k p. unfold img_new. cbn [ipx]. rewrite PositiveMap.gempty. discriminate. Qed.

Lemma pixW_byte_wf p : pixW is_byte p -> pix_wf p.
Proof. destruct p as [[[r g] b] a]. cbn [pixW pix_wf]. intros H; exact H. Qed.

Section BlendTotal.
Variable Mok : Z -> Prop.
Hypothesis blend_total : forall m b s o, Mok m -> pix_wf b -> pix_wf s -> is_byte o ->
  exists p, blend m b s o = Some p /\ pix_wf p.

Variable f : file.
Hypothesis HV : ValidW is_byte f.
Hypothesis Hmodes : forall i l, aget (f_layers f) i = Some l -> Mok (l_blend l).

Let allow1 : Z -> Prop := fun _ => False.

Lemma put1 : forall img m x y p o, img_wf img -> Mok m -> pix_wf p -> is_byte o ->
  outc allow1 (keeps img_wf img) (blend_put img m x y p o).
Proof.
  intros img m x y p o Himg Hm Hp Ho. unfold blend_put.
  destruct (blend_total m (img_get img x y) p o Hm (img_get_wf _ _ _ Himg) Hp Ho) as (q & -> & Hq). cbn [outc].
  split; [apply img_put_wf; assumption|split; reflexivity].
Qed.

Lemma src_gray1 : forall va, grayW is_byte va -> pix_wf (fst va, fst va, fst va, snd va).
Proof. intros [v a] [H1 H2]. cbn [fst snd pix_wf] in *. repeat (split; [assumption|]). assumption. Qed.

Lemma src_pal1 : forall r g b a, pix_wf (r, g, b, a) -> pix_wf (r, g, b, a) /\ pix_wf (r, g, b, 0).
Proof.
  intros r g b a H. split; [exact H|]. cbn [pix_wf] in *. destruct H as (H1 & H2 & H3 & _).
  repeat (split; [assumption|]). unfold is_byte. lia.
Qed.

Definition image_ok (img : image) : Prop := dims_ok f img /\ forall x y, pix_wf (img_get img x y).

Theorem frame_image_total fr : 0 <= fr < num_frames f -> exists img, frame_image f fr = Ok img /\ image_ok img.
Proof.
  intros Hf.
  pose proof (frame_image_ok is_byte allow1 img_wf pix_wf Mok pixW_byte_wf src_gray1 src_pal1 img_new_wf put1 f HV Hmodes fr Hf) as H.
  apply outc_none_ok in H. destruct H as (img & E & Hw & D). exists img. split; [exact E|]. split; [exact D|].
  intros x y. apply img_get_wf. exact Hw.
Qed.

Theorem cel_image_total fr l : 0 <= fr < num_frames f -> exists img, cel_image f (fr, l) = Ok img /\ image_ok img.
Proof.
  intros Hf.
  pose proof (cel_image_ok is_byte allow1 img_wf pix_wf Mok pixW_byte_wf src_gray1 src_pal1 img_new_wf put1 f HV Hmodes fr l Hf) as H.
  apply outc_none_ok in H. destruct H as (img & E & Hw & D). exists img. split; [exact E|]. split; [exact D|].
  intros x y. apply img_get_wf. exact Hw.
Qed.

Theorem tilemap_image_total t : tilemap_wf f t -> exists img, tilemap_image f t = Ok img /\ image_ok img.
Proof. intros (Hf & _). unfold tilemap_image. apply cel_image_total. exact Hf. Qed.

(* the whole public API walk returns *)
Theorem section_total o bit : opts_ok o -> exists ls, section f o bit = Ok ls.
Proof.
  intros [Hf Hl].
  pose proof (section_ok is_byte allow1 img_wf pix_wf Mok pixW_byte_wf src_gray1 src_pal1 img_new_wf put1 f HV Hmodes
                o Hf Hl bit) as H.
  apply outc_none_ok in H. destruct H as (ls & E & _). eauto.
Qed.

End BlendTotal.

(* ------------------------------------------------------------------ *)
(* end to end: from a successful load *)

Section FromLoad.
Variable inflate : list Z -> Z -> zres.
Variable bs : list Z.
Variable f : file.
Hypothesis Hbytes : Forall is_byte bs.
Hypothesis Hload : load inflate bs = Ok f.

Let HV : Valid f := load_valid inflate bs f Hbytes Hload.

Theorem loaded_layers i : 0 <= i < num_layers f ->
  (exists l, layer_get f i = Ok l) /\
  (exists o, layer_parent f i = Ok o /\ forall p, o = Some p -> 0 <= p < i) /\
  (exists b, layer_is_visible f i = Ok b).
Proof.
  intros Hi. split; [|split].
  - destruct (layer_get_ok _ f HV i Hi) as (l & E & _). eauto.
  - destruct (layer_parent_ok _ f HV i Hi) as [o E]. exists o. split; [exact E|]. intros p ->. exact (layer_parent_below _ f HV i p E).
  - exact (layer_is_visible_ok _ f HV i Hi).
Qed.

Theorem loaded_frame_duration i : 0 <= i < num_frames f -> exists d, frame_duration f i = Ok d.
Proof. apply frame_duration_ok. Qed.

Theorem loaded_cels fr l : 0 <= fr < num_frames f -> 0 <= l < num_layers f ->
  (forall route, route_cel f route fr l = Ok (fr, l)) /\
  (exists c, cel_lookup f fr l = Ok c) /\
  (exists b, cel_is_empty f (fr, l) = Ok b) /\ (exists u, cel_user_data f (fr, l) = Ok u) /\
  (exists xy, cel_top_left f (fr, l) = Ok xy) /\ (exists b, cel_is_tilemap f (fr, l) = Ok b).
Proof.
  intros Hf Hl. split; [intros route; apply route_cel_ok; assumption|].
  split; [rewrite cel_lookup_ok by exact Hf; eauto|].
  split; [apply cel_is_empty_ok; exact Hf|]. split; [apply cel_user_data_ok; exact Hf|].
  split; [apply cel_top_left_ok; exact Hf|apply cel_is_tilemap_ok; exact Hf].
Qed.

Theorem loaded_struct : exists ls, section_struct f = Ok ls.
Proof. exact (section_struct_ok _ f HV). Qed.

Theorem loaded_frame_image fr : 0 <= fr < num_frames f ->
  (exists img, frame_image f fr = Ok img /\ iw img = f_width f /\ ih img = f_height f) \/ frame_image f fr = Panic 302.
Proof. exact (frame_image_ok_or_302 f HV fr). Qed.

Theorem loaded_cel_image fr l : 0 <= fr < num_frames f ->
  (exists img, cel_image f (fr, l) = Ok img /\ iw img = f_width f /\ ih img = f_height f) \/ cel_image f (fr, l) = Panic 302.
Proof. exact (cel_image_ok_or_302 f HV fr l). Qed.

(* AsepriteFile::tilemap for any arguments; on its result: offsets, tile lookups at any
   coordinates, and the image *)
Theorem loaded_tilemap l fr :
  exists o, tilemap_of f l fr = Ok o /\
    forall t, o = Some t ->
      (exists xy, tilemap_pixel_offsets f t = Ok xy) /\ (exists xy, tilemap_tile_offsets f t = Ok xy) /\
      (forall x y, exists id, tilemap_tile f t x y = Ok id) /\
      ((exists img, tilemap_image f t = Ok img /\ iw img = f_width f /\ ih img = f_height f) \/ tilemap_image f t = Panic 302).
Proof.
  destruct (tilemap_of_ok _ f HV l fr) as (o & E & Hwf). exists o. split; [exact E|]. intros t Ht. specialize (Hwf t Ht).
  split; [exact (tilemap_pixel_offsets_ok f t Hwf)|]. split; [exact (tilemap_tile_offsets_ok f t Hwf)|].
  split; [intros x y; exact (tilemap_tile_ok _ f HV t x y Hwf)|]. exact (tilemap_image_ok_or_302 f HV t Hwf).
Qed.

Theorem loaded_tile_image k ts i : zfind k (f_tilesets f) = Some ts -> 0 <= i < ts_count ts ->
  exists r, tile_image ts i = Ok r /\ rw r = ts_w ts /\ rh r = ts_h ts /\ zlen (rpx r) = ts_w ts * ts_h ts.
Proof. exact (tile_image_valid f HV k ts i). Qed.

Theorem loaded_tileset_image k ts : zfind k (f_tilesets f) = Some ts ->
  exists r, tileset_image ts = Ok r /\ rw r = ts_w ts /\ rh r = ts_h ts * ts_count ts /\
            zlen (rpx r) = ts_w ts * (ts_h ts * ts_count ts).
Proof. exact (tileset_image_valid f HV k ts). Qed.

Theorem loaded_walk o bit : opts_ok o ->
  (exists ls, section f o bit = Ok ls) \/ section f o bit = Panic 302.
Proof. exact (section_ok_or_302 f HV o bit). Qed.

End FromLoad.

(* with blend total on byte pixels for the modes in Mok and an inflate that returns bytes *)
Section FromLoadBlend.
Variable Mok : Z -> Prop.
Hypothesis blend_total : forall m b s o, Mok m -> pix_wf b -> pix_wf s -> is_byte o ->
  exists p, blend m b s o = Some p /\ pix_wf p.
Variable inflate : list Z -> Z -> zres.
Hypothesis Hinflate : forall z n out, inflate z n = ZOk out -> Forall is_byte out.
Variable bs : list Z.
Variable f : file.
Hypothesis Hbytes : Forall is_byte bs.
Hypothesis Hload : load inflate bs = Ok f.
Hypothesis Hmodes : forall i l, aget (f_layers f) i = Some l -> Mok (l_blend l).

Let HV : ValidW is_byte f := load_valid_bytes inflate bs f Hinflate Hbytes Hload.

Theorem loaded_frame_image_total fr : 0 <= fr < num_frames f ->
  exists img, frame_image f fr = Ok img /\ (iw img = f_width f /\ ih img = f_height f) /\ forall x y, pix_wf (img_get img x y).
Proof. exact (frame_image_total Mok blend_total f HV Hmodes fr). Qed.

Theorem loaded_cel_image_total fr l : 0 <= fr < num_frames f ->
  exists img, cel_image f (fr, l) = Ok img /\ (iw img = f_width f /\ ih img = f_height f) /\ forall x y, pix_wf (img_get img x y).
Proof. exact (cel_image_total Mok blend_total f HV Hmodes fr l). Qed.

Theorem loaded_walk_total o bit : opts_ok o -> exists ls, section f o bit = Ok ls.
Proof. exact (section_total Mok blend_total f HV Hmodes o bit). Qed.

End FromLoadBlend.

(* ------------------------------------------------------------------ *)
(* non-vacuity *)
From Ase Require Import Proofs.Truncation.

Lemma forallb_bytes l : forallb is_byteb l = true -> Forall is_byte l.
Proof.
  intros H. apply Forall_forall. intros b Hb. rewrite forallb_forall in H. specialize (H b Hb).
  unfold is_byteb in H. apply andb_prop in H. destruct H as [H1 H2]. apply Z.leb_le in H1. apply Z.ltb_lt in H2.
  unfold is_byte. lia.
Qed.

(* one frame, one layer, one raw 1x1 RGBA cel holding an opaque red pixel: 198 bytes *)
Definition pix_frame : list Z :=
  e_dword 70 ++ e_word 61946 ++ e_word 2 ++ e_word 100 ++ [0; 0] ++ e_dword 0 ++
  (* layer chunk *)
  e_dword 24 ++ e_word 8196 ++ e_word 1 ++ e_word 0 ++ e_word 0 ++ e_word 0 ++ e_word 0 ++ e_word 0 ++ [255] ++
    [0; 0; 0] ++ e_word 0 ++
  (* cel chunk *)
  e_dword 30 ++ e_word 8197 ++ e_word 0 ++ e_short 0 ++ e_short 0 ++ [255] ++ e_word 0 ++ repeat 0 7 ++
    e_word 1 ++ e_word 1 ++ [255; 0; 0; 255].
Definition pix_file : list Z := mini_header ++ pix_frame.

Example pix_file_bytes : Forall is_byte pix_file.
Proof. apply forallb_bytes. vm_compute. reflexivity. Qed.

Example pix_file_renders :
  rmap (fun f => (num_layers f, num_frames f, rmap (fun img => (iw img, ih img, img_get img 0 0)) (frame_image f 0)))
       (load no_inflate pix_file)
  = Ok (1, 1, Ok (1, 1, (255, 0, 0, 255))).
Proof. vm_compute. reflexivity. Qed.

(* the theorems apply to it: hypotheses met, and the Panic 302 alternative does not occur *)
Example pix_file_valid : exists f, load no_inflate pix_file = Ok f /\ Valid f /\
  exists img, frame_image f 0 = Ok img /\ iw img = f_width f /\ ih img = f_height f.
Proof.
  destruct (load no_inflate pix_file) as [f|e|s] eqn:L; [|exfalso; revert L; vm_compute; discriminate ..].
  exists f. split; [reflexivity|]. split; [exact (load_valid _ _ _ pix_file_bytes L)|].
  assert (Hn : num_frames f = 1).
  { assert (E : rmap num_frames (load no_inflate pix_file) = Ok 1) by (vm_compute; reflexivity).
    rewrite L in E. cbn [rmap rbind] in E. injection E as E. exact E. }
  destruct (loaded_frame_image _ _ _ pix_file_bytes L 0 ltac:(lia)) as [H|H]; [exact H|].
  exfalso. assert (E : rmap (fun f => is_ok (frame_image f 0)) (load no_inflate pix_file) = Ok true) by (vm_compute; reflexivity).
  rewrite L in E. cbn [rmap rbind] in E. rewrite H in E. discriminate.
Qed.

(* Valid is what rules the render panics out: the same cel declared 2x2 with one pixel (a file
   value that no load produces) reaches the pixels[idx] panic *)
Example invalid_file_panics :
  let c := {| c_data := {| cc_layer := 0; cc_x := 0; cc_y := 0; cc_opacity := 255 |};
              c_content := CRaw 2 2 (PRgba (arr_of_list [(255, 0, 0, 255)])); c_ud := None |} in
  let f := {| f_width := 2; f_height := 2; f_nframes := 1; f_fmt := FRgba; f_palette := None;
              f_layers := arr_of_list [mk_layer 1 0]; f_parents := arr_of_list [None];
              f_default_time := 100; f_times := zempty; f_tags := []; f_cels := zadd 0 [Some c] zempty;
              f_ext := zempty; f_tilesets := zempty; f_sprite_ud := None; f_slices := [] |} in
  frame_image f 0 = Panic 303.
Proof. vm_compute. reflexivity. Qed.
