(* Concrete instances of the rendering theorems (non-vacuity): a 2x2 RGBA sprite with cels
   partly off the canvas, a linked cel, a hidden layer; an indexed sprite; a tilemap sprite. *)
From Ase Require Import Base.Prelude Model.Render Proofs.ArrLemmas Proofs.ImageLemmas Proofs.RenderRaw
     Proofs.Layers Proofs.RenderFrame Proofs.TilemapProofs Spec.Compose.

Definition ex_layer (flags blend opacity type tileset : Z) : layer :=
  {| l_flags := flags; l_name := []; l_blend := blend; l_opacity := opacity; l_type := type; l_tileset := tileset;
     l_level := 0; l_ud := None |}.

Definition ex_cel (layer x y opacity : Z) (content : celcontent pixels) : cel pixels :=
  {| c_data := {| cc_layer := layer; cc_x := x; cc_y := y; cc_opacity := opacity |}; c_content := content; c_ud := None |}.

Definition ex_mk (w h nframes : Z) (fmt : pixfmt) (ls : list layer) (cels : celtable pixels)
           (tss : zmap (tileset pixels)) : file :=
  {| f_width := w; f_height := h; f_nframes := nframes; f_fmt := fmt; f_palette := None;
     f_layers := arr_of_list ls; f_parents := arr_of_list (map (fun _ => None) ls);
     f_default_time := 100; f_times := zempty; f_tags := []; f_cels := cels; f_ext := zempty;
     f_tilesets := tss; f_sprite_ud := None; f_slices := [] |}.

Definition coords2 : list (Z * Z) := [(0, 0); (1, 0); (0, 1); (1, 1)].

(* ------------------------------------------------------------------ *)
(* RGBA: layer 0 normal, layer 1 multiply at layer opacity 128, layer 2 hidden.
   frame 0: a 2x1 cel at (1,1) (its second pixel is off the canvas), a 1x1 cel at (1,1) above it,
            and a cel on the hidden layer covering (0,0);
   frame 1: layer 0 links to frame 0. *)
Definition red : pixel := (255, 0, 0, 255).
Definition green_half : pixel := (0, 200, 0, 128).
Definition blue : pixel := (0, 0, 255, 255).

Definition rgba_c0 := ex_cel 0 1 1 255 (CRaw 2 1 (PRgba (arr_of_list [red; blue]))).
Definition rgba_c1 := ex_cel 1 1 1 200 (CRaw 1 1 (PRgba (arr_of_list [green_half]))).
Definition rgba_c2 := ex_cel 2 0 0 255 (CRaw 1 1 (PRgba (arr_of_list [blue]))).
Definition rgba_link := ex_cel 0 0 0 255 (CLinked 0).

Definition rgba_file : file :=
  ex_mk 2 2 2 FRgba [ex_layer 1 0 255 0 0; ex_layer 1 1 128 0 0; ex_layer 0 0 255 0 0]
        (zadd 0 [Some rgba_c0; Some rgba_c1; Some rgba_c2] (zadd 1 [Some rgba_link] zempty)) zempty.

Lemma zfind_zempty {A} k : zfind k (@zempty A) = None.
Proof. unfold zfind, zempty. destruct (k <? 0); [reflexivity|apply PositiveMap.gempty]. Qed.

Lemma rgba_file_cel_at fr l c : cel_at rgba_file fr l = Some c ->
  (fr = 0 /\ l = 0 /\ c = rgba_c0) \/ (fr = 0 /\ l = 1 /\ c = rgba_c1) \/ (fr = 0 /\ l = 2 /\ c = rgba_c2) \/
  (fr = 1 /\ l = 0 /\ c = rgba_link).
Proof.
  unfold cel_at, rgba_file, ex_mk. cbn [f_cels]. rewrite (get_row_zadd (P:=pixels)) by lia.
  destruct (Z.eqb_spec fr 0) as [->|Hf0].
  - destruct (Z.ltb_spec l 0) as [Hl|Hl]; [rewrite nthz_neg by exact Hl; discriminate|].
    destruct (Z.eq_dec l 0) as [->|H0]; [rewrite nthz_cons_0; intros E; injection E as <-; tauto|].
    rewrite nthz_cons_pos by lia.
    destruct (Z.eq_dec l 1) as [->|H1]; [intros E; injection E as <-; tauto|].
    rewrite nthz_cons_pos by lia.
    destruct (Z.eq_dec l 2) as [->|H2]; [intros E; injection E as <-; tauto|].
    rewrite nthz_cons_pos by lia. rewrite nthz_nil. discriminate.
  - rewrite (get_row_zadd (P:=pixels)) by lia. destruct (Z.eqb_spec fr 1) as [->|Hf1].
    + destruct (Z.ltb_spec l 0) as [Hl|Hl]; [rewrite nthz_neg by exact Hl; discriminate|].
      destruct (Z.eq_dec l 0) as [->|H0]; [rewrite nthz_cons_0; intros E; injection E as <-; tauto|].
      rewrite nthz_cons_pos by lia. rewrite nthz_nil. discriminate.
    + unfold get_row. rewrite zfind_zempty.
      destruct (Z.ltb_spec l 0) as [Hl|Hl]; [rewrite nthz_neg by exact Hl; discriminate|].
      destruct (Z.eq_dec l 0) as [->|H0]; [rewrite nthz_cons_0; discriminate|].
      rewrite nthz_cons_pos by lia. rewrite nthz_nil. discriminate.
Qed.

(* the hypotheses of the composition theorems are satisfiable *)
Example rgba_file_wf : render_wf rgba_file.
Proof.
  constructor.
  - intros fr l c H. apply rgba_file_cel_at in H.
    destruct H as [(-> & -> & ->)|[(-> & -> & ->)|[(-> & -> & ->)|(-> & -> & ->)]]]; reflexivity.
  - intros fr l c H. apply rgba_file_cel_at in H.
    destruct H as [(-> & -> & ->)|[(-> & -> & ->)|[(-> & -> & ->)|(-> & -> & ->)]]]; exact I.
  - intros k ts H. unfold rgba_file, ex_mk in H. cbn [f_tilesets] in H. rewrite zfind_zempty in H. discriminate.
Qed.

(* frame 0: both sides of C02_compose, computed *)
Example rgba_frame0 :
  match frame_image rgba_file 0 with
  | Ok img =>
      (iw img, ih img) = (2, 2) /\
      map (fun xy => Some (img_get img (fst xy) (snd xy))) coords2 =
      map (fun xy => spec_pixel rgba_file 0 (fst xy) (snd xy)) coords2 /\
      map (fun xy => img_get img (fst xy) (snd xy)) coords2 = [transparent; transparent; transparent; (205, 0, 0, 255)]
  | _ => False
  end.
Proof. vm_compute. repeat split. Qed.

(* the blend at (1,1) is multiply of red and green at opacity mul_un8 128 200 *)
Example rgba_frame0_pixel :
  spec_pixel rgba_file 0 1 1 = blend 1 red green_half (mul_un8 128 200) /\ mul_un8 128 200 = 100.
Proof. vm_compute. split; reflexivity. Qed.

(* C06: the cel (0,0) alone: its on-canvas pixel verbatim, the rest transparent; cel (0,1) has
   its alpha scaled by mul_un8 (mul_un8 128 200) = 100 *)
Example rgba_cel_images :
  match cel_image rgba_file (0, 0), cel_image rgba_file (0, 1) with
  | Ok a, Ok b =>
      map (fun xy => img_get a (fst xy) (snd xy)) coords2 = [transparent; transparent; transparent; red] /\
      map (fun xy => img_get b (fst xy) (snd xy)) coords2 = [transparent; transparent; transparent; (0, 200, 0, mul_un8 128 100)] /\
      map (fun xy => Some (img_get b (fst xy) (snd xy))) coords2 =
      map (fun xy => cel_spec_pixel rgba_file 0 1 (fst xy) (snd xy)) coords2
  | _, _ => False
  end.
Proof. vm_compute. repeat split. Qed.

(* C06_linked / C19_single: frame 1 holds only the link, so its image is the image of cel (1,0),
   which is the image of cel (0,0) *)
Example rgba_linked :
  cel_image rgba_file (1, 0) = cel_image rgba_file (0, 0) /\
  frame_image rgba_file 1 = cel_image rgba_file (1, 0) /\
  cel_top_left rgba_file (1, 0) = Ok (0, 0) /\ cel_top_left rgba_file (0, 0) = Ok (1, 1).
Proof.
  split; [|split].
  - apply (cel_image_linked rgba_file 1 0 rgba_link 0 rgba_c0); reflexivity.
  - apply (frame_single rgba_file 1 0 rgba_link); [vm_compute; split; [discriminate|reflexivity]|lia|reflexivity|reflexivity|].
    intros k Hk Hk0. left. destruct (cel_at rgba_file 1 k) as [c|] eqn:E; [|reflexivity].
    apply rgba_file_cel_at in E. lia.
  - split; reflexivity.
Qed.

(* C06_empty *)
Example rgba_empty :
  cel_is_empty rgba_file (1, 1) = Ok true /\ cel_top_left rgba_file (1, 1) = Ok (0, 0) /\
  cel_image rgba_file (1, 1) = Ok (img_new 2 2).
Proof. destruct (cel_image_empty rgba_file 1 1 eq_refl) as (A & B & C & _). repeat split; assumption. Qed.

(* write_raw on its own: a 2x1 cel at (-1,0) on a 2x2 canvas keeps only its second pixel *)
Example raw_clip :
  match write_raw (img_new 2 2) {| cc_layer := 0; cc_x := -1; cc_y := 0; cc_opacity := 255 |} 2 1
                  (arr_of_list [red; blue]) 0 255 with
  | Ok img => map (fun xy => img_get img (fst xy) (snd xy)) coords2 = [blue; transparent; transparent; transparent]
  | _ => False
  end.
Proof. vm_compute. reflexivity. Qed.

(* C02_order on a concrete table *)
Definition raw_cel (layer : Z) : cel rawpixels :=
  {| c_data := {| cc_layer := layer; cc_x := 0; cc_y := 0; cc_opacity := 255 |};
     c_content := CRaw 1 1 (RPRgba [red]); c_ud := None |}.
Example order_example :
  match table_add_cel zempty 2 0 (raw_cel 2), table_add_cel zempty 2 1 (raw_cel 0) with
  | Ok t1, Ok t2 =>
      match table_add_cel t1 2 1 (raw_cel 0), table_add_cel t2 2 0 (raw_cel 2) with
      | Ok t12, Ok t21 => map (get_row t12) [0; 1; 2] = map (get_row t21) [0; 1; 2] /\
                          get_row t12 0 = [None; None; Some (raw_cel 2)]
      | _, _ => False
      end
  | _, _ => False
  end.
Proof. vm_compute. split; reflexivity. Qed.

(* ------------------------------------------------------------------ *)
(* Indexed: palette {0: black opaque, 1: white opaque}; transparent index 0; a 2x1 cel [0; 1] on a
   normal layer and on a background layer *)
Definition ex_pal : palette :=
  zadd 0 {| pe_rgba := (0, 0, 0, 255); pe_name := None |} (zadd 1 {| pe_rgba := (255, 255, 255, 255); pe_name := None |} zempty).

Example indexed_example :
  map (pixels_get (PIndexed ex_pal 0 false (arr_of_list [0; 1]))) [0; 1; 2] = [Some (0, 0, 0, 0); Some (255, 255, 255, 255); None] /\
  map (pixels_get (PIndexed ex_pal 0 true (arr_of_list [0; 1]))) [0; 1] = [Some (0, 0, 0, 255); Some (255, 255, 255, 255)] /\
  map (pixels_get (PGray (arr_of_list [(7, 9)]))) [0] = [Some (7, 7, 7, 9)] /\
  (match clone_as_rgba (PIndexed ex_pal 0 false (arr_of_list [0; 1])) with
   | Ok a => map (aget a) [0; 1] = [Some (0, 0, 0, 0); Some (255, 255, 255, 255)] | _ => False end) /\
  clone_as_rgba (PIndexed ex_pal 0 false (arr_of_list [2])) = Panic 301.
Proof. vm_compute. repeat split. Qed.

(* ------------------------------------------------------------------ *)
(* Tilemap: a 3x2 canvas, tiles of 2x1 pixels: tile 0 empty, tile 1 = [red; blue];
   the stored map is 1x2 tiles [1; 0] at cel offset (2, 0): tile column 1 *)
Definition ex_ts : tileset pixels :=
  {| ts_id := 0; ts_empty0 := true; ts_count := 2; ts_w := 2; ts_h := 1; ts_base := 1; ts_name := []; ts_ext := None;
     ts_pixels := Some (PRgba (arr_of_list [transparent; transparent; red; blue])) |}.
Definition tm_cel := ex_cel 0 2 0 255 (CTilemap {| tm_w := 1; tm_h := 2; tm_tiles := arr_of_list [1; 0] |}).
Definition tm_file : file :=
  ex_mk 3 2 1 FRgba [ex_layer 1 0 255 2 0] (zadd 0 [Some tm_cel] zempty) (zadd 0 ex_ts zempty).

Example tilemap_example :
  match tilemap_of tm_file 0 0 with
  | Ok (Some t) =>
      (tmv_w t, tmv_h t) = (2, 2) /\                          (* ceil(3/2), ceil(2/1) *)
      tilemap_tile_offsets tm_file t = Ok (1, 0) /\
      map (fun xy => tilemap_tile tm_file t (fst xy) (snd xy)) [(0, 0); (1, 0); (1, 1); (2, 0); (1, 2); (-1, 0)]
        = [Ok 0; Ok 1; Ok 0; Ok 0; Ok 0; Ok 0] /\
      match tilemap_image tm_file t with
      | Ok img => map (fun xy => img_get img (fst xy) (snd xy)) [(0, 0); (1, 0); (2, 0); (0, 1); (1, 1); (2, 1)]
                  = [transparent; transparent; red; transparent; transparent; transparent]
      | _ => False
      end /\
      tilemap_image tm_file t = frame_image tm_file 0
  | _ => False
  end.
Proof. vm_compute. repeat split. Qed.

Example tileset_example :
  match tileset_image ex_ts, tile_image ex_ts 1 with
  | Ok full, Ok tile => (rw full, rh full, rpx full) = (2, 2, [transparent; transparent; red; blue]) /\
                        (rw tile, rh tile, rpx tile) = (2, 1, [red; blue])
  | _, _ => False
  end /\ tile_image ex_ts 2 = Panic 316.
Proof. vm_compute. repeat split. Qed.
