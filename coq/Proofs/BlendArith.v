(* Arithmetic core for the blend-mode theorems (C17, C03).
   Facts about mul_un8 / blend8 / div_un8 of Model/Blend.v on byte-ranged operands
   (finite sweeps: 256 x 256 and 511 x 256 points, by vm_compute), the truncating-division
   bound used by normal(), and positivity of the result alpha.
   No nia/psatz anywhere; shifts are only ever evaluated on closed terms by vm_compute. *)
From Ase Require Import Base.Prelude Model.Blend.

(* ------------------------------------------------------------------ *)
(* finite sweeps *)

Lemma in_zrange n : forall lo v, lo <= v < lo + Z.of_nat n -> In v (zrange lo n).
Proof.
  induction n as [|n IH]; intros lo v H.
  - cbn [Z.of_nat] in H. lia.
  - cbn [zrange]. destruct (Z.eq_dec lo v) as [->|Hne]; [left; reflexivity|right].
    apply IH. lia.
Qed.

Definition sweep2 (la lb : list Z) (P : Z -> Z -> bool) : bool :=
  forallb (fun a => forallb (P a) lb) la.

Lemma sweep2_sound la lb P :
  sweep2 la lb P = true -> forall a b, In a la -> In b lb -> P a b = true.
Proof.
  unfold sweep2. intros H a b Ha Hb. rewrite forallb_forall in H.
  specialize (H a Ha). rewrite forallb_forall in H. exact (H b Hb).
Qed.

Definition bytes : list Z := zrange 0 256.          (* 0 .. 255 *)
Definition diffs : list Z := zrange (-255) 511.     (* -255 .. 255 *)

Lemma in_bytes v : is_byte v -> In v bytes.
Proof. unfold is_byte, bytes. intros H. apply in_zrange. cbn. lia. Qed.
Lemma in_diffs v : -255 <= v <= 255 -> In v diffs.
Proof. unfold diffs. intros H. apply in_zrange. cbn. lia. Qed.

Lemma sweep_bytes2 (P : Z -> Z -> bool) :
  sweep2 bytes bytes P = true -> forall a b, is_byte a -> is_byte b -> P a b = true.
Proof. intros H a b Ha Hb. exact (sweep2_sound _ _ _ H a b (in_bytes a Ha) (in_bytes b Hb)). Qed.

Lemma sweep_bytes1 (P : Z -> bool) :
  forallb P bytes = true -> forall a, is_byte a -> P a = true.
Proof. intros H a Ha. rewrite forallb_forall in H. exact (H a (in_bytes a Ha)). Qed.

(* ------------------------------------------------------------------ *)
(* as_u8 *)

Lemma as_u8_byte z : is_byte (as_u8 z).
Proof. unfold as_u8, is_byte. apply Z.mod_pos_bound. lia. Qed.

Lemma as_u8_small z : is_byte z -> as_u8 z = z.
Proof. unfold as_u8, is_byte. intros H. apply Z.mod_small. exact H. Qed.

Lemma in_u8_true z : is_byte z -> in_u8 z = true.
Proof. unfold is_byte, in_u8. intros H. apply andb_true_intro. split; apply Z.leb_le; lia. Qed.

Lemma in_u8_byte z : in_u8 z = true -> is_byte z.
Proof.
  unfold is_byte, in_u8. intros H. apply andb_prop in H. destruct H as [H1 H2].
  apply Z.leb_le in H1. apply Z.leb_le in H2. lia.
Qed.

(* ------------------------------------------------------------------ *)
(* mul_un8:  the value before the `as u8` cast *)

Definition mul_raw (a b : Z) : Z :=
  let t := a * b + 128 in Z.shiftr (Z.shiftr t 8 + t) 8.

Lemma mul_un8_raw a b : mul_un8 a b = as_u8 (mul_raw a b).
Proof. reflexivity. Qed.

Lemma blend8_raw back src o : blend8 back src o = as_u8 (back + mul_raw (src - back) o).
Proof. reflexivity. Qed.

Lemma mul_un8_byte a b : is_byte (mul_un8 a b).
Proof. rewrite mul_un8_raw. apply as_u8_byte. Qed.

Lemma blend8_byte back src o : is_byte (blend8 back src o).
Proof. rewrite blend8_raw. apply as_u8_byte. Qed.

(* 256 x 256 sweep: on bytes the cast never truncates, and the product is bounded by both
   factors and by the Lukasiewicz bound a + b - 255 *)
Lemma mul_raw_facts a b : is_byte a -> is_byte b ->
  0 <= mul_raw a b /\ mul_raw a b <= a /\ mul_raw a b <= b /\ a + b - 255 <= mul_raw a b.
Proof.
  intros Ha Hb.
  set (P := fun a b => (0 <=? mul_raw a b) && (mul_raw a b <=? a) && (mul_raw a b <=? b)
                       && (a + b - 255 <=? mul_raw a b)).
  assert (E : sweep2 bytes bytes P = true) by (vm_compute; reflexivity).
  pose proof (sweep_bytes2 P E a b Ha Hb) as S. unfold P in S.
  rewrite !andb_true_iff in S. rewrite !Z.leb_le in S. lia.
Qed.

Lemma mul_un8_eq_raw a b : is_byte a -> is_byte b -> mul_un8 a b = mul_raw a b.
Proof.
  intros Ha Hb. rewrite mul_un8_raw. apply as_u8_small.
  pose proof (mul_raw_facts a b Ha Hb). unfold is_byte in *. lia.
Qed.

Lemma mul_un8_facts a b : is_byte a -> is_byte b ->
  0 <= mul_un8 a b /\ mul_un8 a b <= a /\ mul_un8 a b <= b /\ a + b - 255 <= mul_un8 a b.
Proof. intros Ha Hb. rewrite (mul_un8_eq_raw a b Ha Hb). apply mul_raw_facts; assumption. Qed.

(* these two hold for every integer a *)
Lemma mul_raw_0_r a : mul_raw a 0 = 0.
Proof. unfold mul_raw. rewrite Z.mul_0_r. reflexivity. Qed.
Lemma mul_raw_0_l b : mul_raw 0 b = 0.
Proof. unfold mul_raw. rewrite Z.mul_0_l. reflexivity. Qed.
Lemma mul_un8_0_r a : mul_un8 a 0 = 0.
Proof. rewrite mul_un8_raw, mul_raw_0_r. reflexivity. Qed.
Lemma mul_un8_0_l b : mul_un8 0 b = 0.
Proof. rewrite mul_un8_raw, mul_raw_0_l. reflexivity. Qed.

Lemma mul_un8_255_r a : is_byte a -> mul_un8 a 255 = a.
Proof.
  intros Ha.
  assert (E : forallb (fun a => mul_un8 a 255 =? a) bytes = true) by (vm_compute; reflexivity).
  apply Z.eqb_eq. exact (sweep_bytes1 _ E a Ha).
Qed.
Lemma mul_un8_255_l b : is_byte b -> mul_un8 255 b = b.
Proof.
  intros Hb.
  assert (E : forallb (fun b => mul_un8 255 b =? b) bytes = true) by (vm_compute; reflexivity).
  apply Z.eqb_eq. exact (sweep_bytes1 _ E b Hb).
Qed.

(* ------------------------------------------------------------------ *)
(* blend8:  511 x 256 sweep over (src - back, opacity) *)

Lemma mul_raw_delta d o : -255 <= d <= 255 -> is_byte o ->
  (0 <= d -> 0 <= mul_raw d o <= d) /\ (d <= 0 -> d <= mul_raw d o <= 0) /\ mul_raw d 255 = d.
Proof.
  intros Hd Ho.
  set (P := fun d o => let r := mul_raw d o in
     (if 0 <=? d then (0 <=? r) && (r <=? d) else true)
     && (if d <=? 0 then (d <=? r) && (r <=? 0) else true)
     && (mul_raw d 255 =? d)).
  assert (E : sweep2 diffs bytes P = true) by (vm_compute; reflexivity).
  pose proof (sweep2_sound _ _ _ E d o (in_diffs d Hd) (in_bytes o Ho)) as S.
  unfold P in S. cbv zeta in S. rewrite !andb_true_iff in S. destruct S as [[S1 S2] S3].
  apply Z.eqb_eq in S3.
  destruct (Z.leb_spec 0 d), (Z.leb_spec d 0);
    rewrite ?andb_true_iff, ?Z.leb_le in S1, S2; lia.
Qed.

(* the value of blend8 before the cast is already a byte between backdrop and source *)
Lemma blend8_raw_between back src o : is_byte back -> is_byte src -> is_byte o ->
  Z.min back src <= back + mul_raw (src - back) o <= Z.max back src.
Proof.
  unfold is_byte. intros Hb Hs Ho.
  pose proof (mul_raw_delta (src - back) o ltac:(lia) Ho) as (H1 & H2 & _).
  destruct (Z.le_ge_cases 0 (src - back)) as [H|H];
    [specialize (H1 H)|specialize (H2 ltac:(lia))]; lia.
Qed.

Lemma blend8_eq_raw back src o : is_byte back -> is_byte src -> is_byte o ->
  blend8 back src o = back + mul_raw (src - back) o.
Proof.
  intros Hb Hs Ho. rewrite blend8_raw. apply as_u8_small.
  pose proof (blend8_raw_between back src o Hb Hs Ho). unfold is_byte in *. lia.
Qed.

Lemma blend8_between back src o : is_byte back -> is_byte src -> is_byte o ->
  Z.min back src <= blend8 back src o <= Z.max back src.
Proof.
  intros Hb Hs Ho. rewrite (blend8_eq_raw back src o Hb Hs Ho).
  apply blend8_raw_between; assumption.
Qed.

(* for every opacity, even outside 0..255 *)
Lemma blend8_same x o : is_byte x -> blend8 x x o = x.
Proof.
  intros Hx. rewrite blend8_raw. unfold mul_raw. rewrite Z.sub_diag, Z.mul_0_l.
  change (Z.shiftr (Z.shiftr (0 + 128) 8 + (0 + 128)) 8) with 0.
  rewrite Z.add_0_r. apply as_u8_small. exact Hx.
Qed.

Lemma blend8_0 back src : is_byte back -> blend8 back src 0 = back.
Proof.
  intros Hb. rewrite blend8_raw, mul_raw_0_r, Z.add_0_r. apply as_u8_small. exact Hb.
Qed.

Lemma blend8_255 back src : is_byte back -> is_byte src -> blend8 back src 255 = src.
Proof.
  intros Hb Hs. rewrite blend8_raw.
  pose proof (mul_raw_delta (src - back) 255 ltac:(unfold is_byte in *; lia) ltac:(unfold is_byte; lia))
    as (_ & _ & H).
  rewrite H. replace (back + (src - back)) with src by ring. apply as_u8_small. exact Hs.
Qed.

(* ------------------------------------------------------------------ *)
(* div_un8:  256 x 256 sweep, 0 <= a < b <= 255.  The quotient before the cast is a byte. *)

Definition div_raw (a b : Z) : Z := Z.quot (a * 255 + Z.quot b 2) b.

Lemma div_raw_range a b : is_byte a -> is_byte b -> a < b -> 0 <= div_raw a b <= 255.
Proof.
  intros Ha Hb Hlt.
  set (P := fun a b => if a <? b then (0 <=? div_raw a b) && (div_raw a b <=? 255) else true).
  assert (E : sweep2 bytes bytes P = true) by (vm_compute; reflexivity).
  pose proof (sweep_bytes2 P E a b Ha Hb) as S. unfold P in S.
  destruct (Z.ltb_spec a b); [|lia].
  rewrite andb_true_iff, !Z.leb_le in S. lia.
Qed.

Lemma div_un8_some a b : is_byte a -> is_byte b -> a < b ->
  div_un8 a b = Some (div_raw a b) /\ is_byte (div_raw a b).
Proof.
  intros Ha Hb Hlt. pose proof (div_raw_range a b Ha Hb Hlt) as R.
  unfold div_un8. destruct (Z.eqb_spec b 0) as [E|E]; [unfold is_byte in *; lia|].
  fold (div_raw a b). rewrite as_u8_small by (unfold is_byte; lia).
  split; [reflexivity|unfold is_byte; lia].
Qed.

(* ------------------------------------------------------------------ *)
(* truncating division bound used by normal() *)

Lemma quot_scale_bound x a r : 0 <= a <= r -> 0 < r ->
  (0 <= x -> 0 <= Z.quot (x * a) r <= x) /\ (x <= 0 -> x <= Z.quot (x * a) r <= 0).
Proof.
  intros Ha Hr. split; intros Hx.
  - assert (0 <= x * a) by (apply Z.mul_nonneg_nonneg; lia).
    assert (x * a <= x * r) by (apply Z.mul_le_mono_nonneg_l; lia).
    rewrite Z.quot_div_nonneg by lia. split; [apply Z.div_pos; lia|].
    apply Z.div_le_upper_bound; lia.
  - replace (x * a) with (- ((-x) * a)) by ring. rewrite Z.quot_opp_l by lia.
    assert (0 <= (-x) * a) by (apply Z.mul_nonneg_nonneg; lia).
    assert ((-x) * a <= (-x) * r) by (apply Z.mul_le_mono_nonneg_l; lia).
    rewrite Z.quot_div_nonneg by lia.
    assert (0 <= (-x * a) / r) by (apply Z.div_pos; lia).
    assert ((-x * a) / r <= -x) by (apply Z.div_le_upper_bound; lia). lia.
Qed.

(* ------------------------------------------------------------------ *)
(* normal(): result alpha is positive; every channel stays between backdrop and source *)

Definition res_alpha (ba sa' : Z) : Z := sa' + ba - mul_un8 ba sa'.
Definition normal_chan (b s sa' ra : Z) : Z := b + Z.quot ((s - b) * sa') ra.

Lemma res_alpha_facts ba sa' : is_byte ba -> ba <> 0 -> is_byte sa' ->
  0 < res_alpha ba sa' /\ ba <= res_alpha ba sa' <= 255 /\ sa' <= res_alpha ba sa'.
Proof.
  intros Hb Hnz Hs. unfold res_alpha.
  pose proof (mul_un8_facts ba sa' Hb Hs). unfold is_byte in *. lia.
Qed.

Lemma normal_chan_between b s ba sa' : is_byte b -> is_byte s -> is_byte ba -> ba <> 0 -> is_byte sa' ->
  Z.min b s <= normal_chan b s sa' (res_alpha ba sa') <= Z.max b s.
Proof.
  intros Hb Hs Hba Hnz Hsa.
  pose proof (res_alpha_facts ba sa' Hba Hnz Hsa) as (Hr0 & Hr1 & Hr2).
  unfold normal_chan. unfold is_byte in *.
  destruct (quot_scale_bound (s - b) sa' (res_alpha ba sa') ltac:(lia) Hr0) as [P N].
  destruct (Z.le_ge_cases 0 (s - b)) as [H|H];
    [specialize (P H)|specialize (N ltac:(lia))]; lia.
Qed.

Lemma normal_chan_byte b s ba sa' : is_byte b -> is_byte s -> is_byte ba -> ba <> 0 -> is_byte sa' ->
  is_byte (normal_chan b s sa' (res_alpha ba sa')).
Proof.
  intros Hb Hs Hba Hnz Hsa. pose proof (normal_chan_between b s ba sa' Hb Hs Hba Hnz Hsa).
  unfold is_byte in *. lia.
Qed.

(* full source alpha at full opacity replaces the backdrop channel *)
Lemma normal_chan_full b s : normal_chan b s 255 255 = s.
Proof. unfold normal_chan. rewrite Z.quot_mul by lia. ring. Qed.

(* zero effective source alpha leaves the backdrop channel *)
Lemma normal_chan_zero b s ra : normal_chan b s 0 ra = b.
Proof. unfold normal_chan. rewrite Z.mul_0_r. replace (Z.quot 0 ra) with 0 by (destruct ra; reflexivity). ring. Qed.

(* ------------------------------------------------------------------ *)
(* the hypotheses are satisfiable on non-trivial values *)
Example mul_raw_facts_ex : is_byte 200 /\ is_byte 100 /\ mul_raw 200 100 = 78.
Proof. vm_compute. intuition congruence. Qed.
Example blend8_between_ex : blend8 80 150 128 = 115 /\ blend8 150 80 128 = 115.
Proof. vm_compute. split; reflexivity. Qed.
Example div_un8_some_ex : div_un8 100 200 = Some 128 /\ div_raw 254 255 = 254.
Proof. vm_compute. split; reflexivity. Qed.
Example normal_chan_between_ex :
  res_alpha 10 209 = 211 /\ normal_chan 245 42 209 (res_alpha 10 209) = 44.
Proof. vm_compute. split; reflexivity. Qed.
