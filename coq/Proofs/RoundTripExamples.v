(* Non-vacuity: concrete values satisfy the well-formedness predicates of
   Spec/EncodeChunks.v, and their encodings decode (by evaluation of the model) to the
   values, with junk in every reserved field and a tail after every payload. *)
From Ase Require Import Model.Validate Spec.EncodeChunks Proofs.ITLemmas Proofs.RoundTrip Proofs.PaletteProofs.

(* split the predicate down to closed atoms, then evaluate each *)
Ltac wf_tac :=
  repeat (first [apply Forall_cons | apply Forall_nil | split]);
  try (vm_compute; first [reflexivity | (intro; discriminate) | exact I]).

(* "Bg" / "héllo" in UTF-8 *)
Definition ex_name : list Z := [104; 195; 169; 108; 108; 111].

(* layer: visible + background, tilemap layer on tileset 7, flags word with high bits set *)
Definition ex_layer : layer :=
  {| l_flags := 9; l_name := ex_name; l_blend := 18; l_opacity := 200;
     l_type := 2; l_tileset := 7; l_level := 3; l_ud := None |}.
Example ex_layer_wf : wf_layer ex_layer (9 + 128 * 5). Proof. wf_tac. Qed.
Example ex_layer_roundtrip :
  run dec_layer (enc_layer ex_layer (9 + 128 * 5) [1; 2; 3; 4] [5; 6; 7] ++ [99; 98]) = Ok (ex_layer, [99; 98]).
Proof. vm_compute. reflexivity. Qed.
Example ex_layer_by_theorem :
  run dec_layer (enc_layer ex_layer (9 + 128 * 5) [1; 2; 3; 4] [5; 6; 7] ++ [99; 98]) = Ok (ex_layer, [99; 98]).
Proof. apply dec_enc_layer; [exact ex_layer_wf|reflexivity|reflexivity]. Qed.

(* tags *)
Definition ex_tag1 : tag := {| t_name := ex_name; t_from := 0; t_to := 3; t_repeat := 2; t_dir := 2; t_ud := None |}.
Definition ex_tag2 : tag := {| t_name := []; t_from := 4; t_to := 65535; t_repeat := 0; t_dir := 0; t_ud := None |}.
Definition ex_tags := [(ex_tag1, [1; 2; 3; 4; 5; 6; 255; 0; 0; 9]); (ex_tag2, [0; 0; 0; 0; 0; 0; 0; 0; 0; 0])].
Example ex_tags_wf : wf_tags ex_tags. Proof. wf_tac. Qed.
Example ex_tags_roundtrip :
  run dec_tags (enc_tags ex_tags [8; 7; 6; 5; 4; 3; 2; 1] ++ [77]) = Ok ([ex_tag1; ex_tag2], [77]).
Proof. vm_compute. reflexivity. Qed.

(* user data: text and colour, unused high flag bits set *)
Definition ex_ud : userdata := {| ud_text := Some ex_name; ud_color := Some (1, 2, 3, 4) |}.
Example ex_ud_wf : wf_userdata ex_ud (3 + 8). Proof. wf_tac. Qed.
Example ex_ud_roundtrip : run dec_userdata (enc_userdata ex_ud (3 + 8) ++ [5]) = Ok (ex_ud, [5]).
Proof. vm_compute. reflexivity. Qed.
Definition ex_ud2 : userdata := {| ud_text := None; ud_color := Some (9, 8, 7, 6) |}.
Example ex_ud2_wf : wf_userdata ex_ud2 2. Proof. wf_tac. Qed.

(* slice: two keys with negative origins, 9-patch and pivot *)
Definition ex_key1 : slicekey :=
  {| k_from := 0; k_ox := -5; k_oy := 7; k_w := 10; k_h := 11;
     k_slice9 := Some (-1, 2, 3, 4); k_pivot := Some (-2147483648, 2147483647) |}.
Definition ex_key2 : slicekey :=
  {| k_from := 2; k_ox := 0; k_oy := -1; k_w := 4294967295; k_h := 0;
     k_slice9 := Some (0, 0, 0, 0); k_pivot := Some (0, 0) |}.
Definition ex_slice : slice := {| s_name := ex_name; s_keys := [ex_key1; ex_key2]; s_ud := None |}.
Example ex_slice_wf : wf_slice ex_slice 3. Proof. wf_tac. Qed.
Example ex_slice_roundtrip :
  run dec_slice (enc_slice ex_slice 3 [9; 9; 9; 9] ++ [1; 2; 3]) = Ok (ex_slice, [1; 2; 3]).
Proof. vm_compute. reflexivity. Qed.

(* new palette: ids 250..252, the middle entry named *)
Definition ex_pe1 : palentry := {| pe_rgba := (1, 2, 3, 255); pe_name := None |}.
Definition ex_pe2 : palentry := {| pe_rgba := (4, 5, 6, 128); pe_name := Some ex_name |}.
Definition ex_pe3 : palentry := {| pe_rgba := (7, 8, 9, 0); pe_name := None |}.
Definition ex_entries := [(ex_pe1, 0); (ex_pe2, 1); (ex_pe3, 2)].
Example ex_palette_wf : wf_palette 250 ex_entries. Proof. wf_tac. Qed.
Example ex_palette_roundtrip :
  match run_payload dec_palette (enc_palette 256 250 ex_entries [0; 0; 0; 0; 0; 0; 0; 0] ++ [1]) with
  | Ok m => map (fun k => zfind k m) [249; 250; 251; 252; 253]
  | _ => []
  end = [None; Some ex_pe1; Some ex_pe2; Some ex_pe3; None].
Proof. vm_compute. reflexivity. Qed.

(* legacy palettes: two packets, the second overlapping the first; 6-bit components *)
Definition ex_packets : list (Z * list rgb) := [(2, [(0, 31, 63); (1, 1, 1)]); (1, [(63, 0, 32)])].
Example ex_old_wf6 : wf_old_palette true ex_packets. Proof. wf_tac. Qed.
Example ex_old_wf8 : wf_old_palette false ex_packets. Proof. wf_tac. Qed.
Example ex_old_roundtrip6 :
  match run_payload (dec_old_palette true) (enc_old_palette ex_packets ++ [1]) with
  | Ok m => map (fun k => option_map pe_rgba (zfind k m)) [1; 2; 3; 4]
  | _ => []
  end = [None; Some (0, 125, 255, 255); Some (255, 0, 130, 255); None].
Proof. vm_compute. reflexivity. Qed.
Example ex_old_spec6 :
  map (fun k => option_map pe_rgba (zfind k (old_palette_spec true ex_packets))) [1; 2; 3; 4]
  = [None; Some (0, 125, 255, 255); Some (255, 0, 130, 255); None].
Proof. vm_compute. reflexivity. Qed.
(* a packet of 256 colours is written with count byte 0 *)
Example ex_old_256 :
  let cs := map (fun i => (i, 0, 0)) (ziota 256) in
  wf_old_packet false (0, cs) /\ firstn 2 (enc_old_packet (0, cs)) = [0; 0].
Proof.
  split; [|vm_compute; reflexivity].
  split; [unfold is_byte; lia|]. split; [vm_compute; split; intro; discriminate|].
  apply Forall_forall. intros [[r g] b] Hin. apply in_map_iff in Hin. destruct Hin as (i & [= <- <- <-] & Hi).
  apply ArrLemmas.in_ziota in Hi. cbn. lia.
Qed.

(* external files *)
Definition ex_ext := [((3, ex_name), [1; 0; 0; 0; 0; 0; 0; 0]); ((4294967295, []), [0; 0; 0; 0; 0; 0; 0; 9])].
Example ex_ext_wf : wf_external ex_ext. Proof. wf_tac. Qed.
Example ex_ext_roundtrip :
  run dec_external (enc_external ex_ext [1; 1; 1; 1; 1; 1; 1; 1] ++ [6]) = Ok ([(3, ex_name); (4294967295, [])], [6]).
Proof. vm_compute. reflexivity. Qed.

(* cel head with negative position *)
Definition ex_cc : celcommon := {| cc_layer := 2; cc_x := -32768; cc_y := 32767; cc_opacity := 128 |}.
Example ex_cc_wf : wf_celcommon ex_cc. Proof. wf_tac. Qed.
Example ex_cc_roundtrip :
  run dec_cel_hdr (enc_cel_hdr ex_cc 2 [1; 2; 3; 4; 5; 6; 7] ++ [8]) = Ok ((ex_cc, 2), [8]).
Proof. vm_compute. reflexivity. Qed.

(* tileset head: external link, embedded tiles, empty tile 0, negative base index *)
Definition ex_ts : tileset rawpixels :=
  {| ts_id := 7; ts_empty0 := true; ts_count := 5; ts_w := 8; ts_h := 16; ts_base := -1;
     ts_name := ex_name; ts_ext := Some (3, 1); ts_pixels := None |}.
Example ex_ts_wf : wf_tileset_hdr ex_ts 7. Proof. wf_tac. Qed.
Example ex_ts_roundtrip :
  run dec_tileset_hdr (enc_tileset_hdr ex_ts 7 [1; 2; 3; 4; 5; 6; 7; 8; 9; 10; 11; 12; 13; 14] [44; 0; 0; 0] ++ [120; 156])
  = Ok ((ex_ts, true), [120; 156]).
Proof. vm_compute. reflexivity. Qed.

(* colour profile *)
Example ex_cp_wf : wf_color_profile 1 0. Proof. wf_tac. Qed.

(* header: 0 frames, indexed with transparent index 5, pixel ratio 0:3 *)
Definition ex_hdr : hfields :=
  {| hf_frames := 0; hf_width := 320; hf_height := 200; hf_depth := 8;
     hf_default_time := 100; hf_transparent := 5; hf_pixel_w := 0; hf_pixel_h := 3 |}.
Example ex_hdr_wf : wf_header ex_hdr.
Proof.
  unfold wf_header, is_word, is_byte, ex_hdr.
  cbn [hf_frames hf_width hf_height hf_depth hf_default_time hf_transparent hf_pixel_w hf_pixel_h].
  repeat split; lia.
Qed.
Example ex_hdr_fmt : header_fmt ex_hdr = Some (FIndexed 5). Proof. reflexivity. Qed.
Example ex_hdr_roundtrip :
  forall inflate,
  run (parse_file inflate)
      (enc_header ex_hdr [1; 2; 3; 4] [1; 0; 0; 0] [9; 9; 9; 9; 8; 8; 8; 8] [1; 2; 3; 4; 5]
                  [0; 0; 0; 0; 16; 0; 16; 0] (map (fun _ => 7) (ziota 84)) ++ [42])
  = Ok (({| h_frames := 0; h_width := 320; h_height := 200; h_fmt := FIndexed 5 |}, pinfo_new 0 100), [42]).
Proof. intros inflate. vm_compute. reflexivity. Qed.
