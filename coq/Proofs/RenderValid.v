(* Bridge: the invariant `Valid` established by a successful load (Proofs/Valid.v) implies the
   well-formedness premise `render_wf` of the rendering theorems, so C02_compose and
   C06_cel_pixels hold for every loaded file without further hypotheses. *)
From Ase Require Import Base.Prelude Model.Render Proofs.ArrLemmas Proofs.Layers Proofs.Valid
     Proofs.RenderFrame Spec.Compose.

Lemma pixels_ok_dense W n px : pixels_ok W n px -> pixels_dense px.
Proof.
  destruct px as [a|a|pal transp bg a]; cbn [pixels_ok pixels_dense].
  - intros _. exact I.
  - intros (l & -> & _). apply arr_dense_of_list.
  - intros (l & -> & _). apply arr_dense_of_list.
Qed.

Theorem Valid_render_wf W f : ValidW W f -> render_wf f.
Proof.
  intros HV. constructor.
  - intros fr l c Hc. destruct (v_cels W f HV fr l c Hc) as (_ & Hl & _). exact Hl.
  - intros fr l c Hc. destruct (v_cels W f HV fr l c Hc) as (_ & _ & Hcontent). unfold cel_dense.
    destruct (c_content c) as [w h px|target|tm]; try exact I.
    destruct Hcontent as (_ & _ & Hpx). exact (pixels_ok_dense W _ px Hpx).
  - intros k ts Hts. destruct (v_tilesets W f HV k ts Hts) as (Hw & Hh & _ & _ & px & Epx & Hpx).
    split; [lia|]. split; [lia|]. intros px' Epx'. rewrite Epx in Epx'. injection Epx' as <-.
    exact (pixels_ok_dense W _ px Hpx).
Qed.

Section Loaded.
Variable inflate : list Z -> Z -> zres.

Theorem loaded_render_wf bs f : Forall is_byte bs -> load inflate bs = Ok f -> render_wf f.
Proof. intros Hb HL. exact (Valid_render_wf _ f (load_valid inflate bs f Hb HL)). Qed.

Theorem frame_image_compose_loaded bs f fr img : Forall is_byte bs -> load inflate bs = Ok f ->
  frame_image f fr = Ok img ->
  iw img = f_width f /\ ih img = f_height f /\
  forall x y, 0 <= x < f_width f -> 0 <= y < f_height f -> spec_pixel f fr x y = Some (img_get img x y).
Proof. intros Hb HL. apply frame_image_compose. exact (loaded_render_wf bs f Hb HL). Qed.

Theorem cel_image_pixels_loaded bs f fr l img : Forall is_byte bs -> load inflate bs = Ok f ->
  cel_image f (fr, l) = Ok img ->
  iw img = f_width f /\ ih img = f_height f /\
  forall x y, 0 <= x < f_width f -> 0 <= y < f_height f -> cel_spec_pixel f fr l x y = Some (img_get img x y).
Proof. intros Hb HL. apply cel_image_pixels. exact (loaded_render_wf bs f Hb HL). Qed.
End Loaded.

(* for every file that loads (from bytes), with no further hypothesis: a pixel inside no visible
   cel's rectangle is fully transparent *)
Theorem frame_uncovered_loaded (inflate : list Z -> Z -> zres) bs f fr img x y :
  Forall is_byte bs -> load inflate bs = Ok f -> frame_image f fr = Ok img ->
  0 <= x < f_width f -> 0 <= y < f_height f ->
  (forall l c0 lay c, 0 <= l < num_layers f -> cel_at f fr l = Some c0 -> visibleb f l = true ->
     aget (f_layers f) l = Some lay -> resolve f c0 l = Some c -> cel_covers f lay c x y = false) ->
  img_get img x y = transparent.
Proof.
  intros Hb HL Hi Hx Hy Hc. eapply frame_uncovered; eauto. exact (loaded_render_wf inflate bs f Hb HL).
Qed.

