From Ase Require Import Model.Cost Proofs.ITLemmas.

(* T1: whatever the declared sizes, the reader never buffers more bytes than were supplied *)
Theorem buffered_le_input {A} (t : IT A) : forall bs, 0 <= run_buffered t bs <= zlen bs.
Proof.
  induction t as [a|e|s|n k IH]; intros bs; cbn [run_buffered]; try (pose proof (zlen_nonneg bs); lia).
  destruct (split_z n bs) as [[a rest]|] eqn:S.
  - pose proof (split_z_app _ _ _ _ S) as ->. rewrite zlen_app. specialize (IH a rest).
    pose proof (zlen_nonneg a). lia.
  - pose proof (zlen_nonneg bs). lia.
Qed.

(* on success the buffered bytes are exactly the consumed ones *)
Theorem buffered_consumed {A} (t : IT A) : forall bs a rest,
  run t bs = Ok (a, rest) -> run_buffered t bs = zlen bs - zlen rest.
Proof.
  induction t as [a0|e|s|n k IH]; intros bs a rest; cbn [run run_buffered]; try discriminate.
  - intros [= <- <-]. lia.
  - destruct (split_z n bs) as [[c r]|] eqn:S; [|discriminate]. intros H.
    pose proof (split_z_app _ _ _ _ S) as ->. rewrite zlen_app. rewrite (IH c r a rest H). lia.
Qed.

(* T2: a decompressed payload that is accepted has exactly the declared size, and the inflater
   is never asked for more than one byte beyond it *)
Section Inflate.
Variable inflate : list Z -> Z -> zres.
Theorem unzip_exact rest expected out : unzip inflate rest expected = Ok out -> zlen out = expected.
Proof.
  unfold unzip. destruct (inflate rest (expected + 1)) as [l|k]; [|discriminate].
  destruct (Z.eqb_spec (zlen l) expected) as [E|E]; [|discriminate]. intros [= <-]. exact E.
Qed.
(* recorded assumptions about ZlibDecoder.take(limit).read_to_end *)
Definition inflate_respects_limit := forall z n out, inflate z n = ZOk out -> zlen out <= Z.max 0 n.
Definition inflate_ratio := forall z n out, inflate z n = ZOk out -> zlen out <= 1032 * zlen z + 64.
Theorem unzip_bounded rest expected out :
  inflate_ratio -> unzip inflate rest expected = Ok out -> zlen out <= 1032 * zlen rest + 64.
Proof.
  intros R. unfold unzip. destruct (inflate rest (expected + 1)) as [l|k] eqn:E; [|discriminate].
  destruct (Z.eqb_spec (zlen l) expected); [|discriminate]. intros [= <-]. exact (R _ _ _ E).
Qed.
(* a raw (uncompressed) payload is a prefix of the chunk buffer *)
Theorem take_bytes_bounded rest limit out : take_bytes rest limit = Ok out -> zlen out <= zlen rest.
Proof.
  unfold take_bytes. destruct (Z.ltb_spec (zlen rest) limit); [discriminate|]. intros [= <-].
  unfold zlen. rewrite firstn_length. lia.
Qed.
End Inflate.

(* T3: the arithmetic of the bound.  The byte budget: every frame costs 16 input bytes, every
   layer 24, every other entity at least 6 (its chunk header or its share of a chunk), and
   compressed payload bytes are input bytes too; inflate expands by at most 1032 (+64 per
   payload, and a payload sits in a chunk of at least 6 bytes). *)
Theorem alloc_upper_bound nframes consumed inflated entities layers zbytes payloads :
  0 <= nframes <= 65535 -> 0 <= layers -> 0 <= entities -> 0 <= zbytes -> 0 <= payloads -> 0 <= inflated ->
  inflated <= 1032 * zbytes + 64 * payloads ->
  16 * nframes + 24 * layers + 6 * entities + zbytes + 6 * payloads <= consumed ->
  alloc_upper nframes consumed inflated entities layers <= bound consumed.
Proof.
  intros Hf Hl He Hz Hp Hi Hr Hb. unfold alloc_upper, bound.
  assert (nframes * layers <= 65535 * layers) by (apply Z.mul_le_mono_nonneg_r; lia).
  lia.
Qed.

(* the bound is monotone in the input length: trailing bytes only loosen it *)
Theorem bound_mono a b : a <= b -> bound a <= bound b.
Proof. unfold bound. lia. Qed.

Example alloc_upper_example :
  alloc_upper 65535 4800000 (1032 * 1000000) 1000 65536 <= bound 4800000.
Proof. vm_compute. discriminate. Qed.
