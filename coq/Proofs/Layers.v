(* C09: layer parents follow the nesting levels; visibility is the conjunction of the
   visible flags along the ancestor chain; hidden layers contribute nothing to frame images. *)
From Ase Require Import Base.Prelude Model.Render Proofs.ArrLemmas.

(* ------------------------------------------------------------------ *)
(* specification vocabulary *)

(* level of layer i (0 outside the list) *)
Definition lvl (ls : list layer) (i : Z) : Z :=
  match nthz ls i with Some l => l_level l | None => 0 end.

(* p is the nearest preceding layer of i with a smaller nesting level *)
Definition nearest (ls : list layer) (i p : Z) : Prop :=
  0 <= p < i /\ lvl ls p < lvl ls i /\ forall q, p < q < i -> lvl ls i <= lvl ls q.

(* the parent entry `o` (of the parents vector) of layer `l` at index `i` *)
Definition parent_rule (ls : list layer) (i : Z) (l : layer) (o : option (option Z)) : Prop :=
  (l_level l = 0 -> o = Some None) /\
  (l_level l <> 0 -> exists p, o = Some (Some p) /\ nearest ls i p).

(* a layer at a non-zero level without any earlier layer of smaller level *)
Definition orphan (ls : list layer) : Prop :=
  exists i l, nthz ls i = Some l /\ l_level l <> 0 /\ forall q, 0 <= q < i -> l_level l <= lvl ls q.

(* the level sequences of the property: first level 0, each level at most one more than its predecessor's *)
Definition forest (ls : list layer) : Prop :=
  (forall l, In l ls -> 0 <= l_level l) /\
  lvl ls 0 = 0 /\
  (forall i, 0 <= i -> i + 1 < zlen ls -> lvl ls (i + 1) <= lvl ls i + 1).

Lemma lvl_nthz ls i l : nthz ls i = Some l -> lvl ls i = l_level l.
Proof. intros H. unfold lvl. rewrite H. reflexivity. Qed.

Lemma nearest_unique ls i p p' : nearest ls i p -> nearest ls i p' -> p = p'.
Proof.
  intros (Hp & Hl & Ha) (Hp' & Hl' & Ha').
  destruct (Z.lt_trichotomy p p') as [H|[H|H]]; [|exact H|].
  - specialize (Ha p' ltac:(lia)). lia.
  - specialize (Ha' p ltac:(lia)). lia.
Qed.

(* ------------------------------------------------------------------ *)
(* compute_parents *)

(* the scan stack holds (level, id) of the layers seen so far, latest first *)
Inductive prev_ok (all : list layer) : list (Z * Z) -> Z -> Prop :=
| po_nil : prev_ok all [] 0
| po_cons t n l : prev_ok all t n -> nthz all n = Some l -> prev_ok all ((l_level l, n) :: t) (n + 1).

Lemma prev_ok_nonneg all pr n : prev_ok all pr n -> 0 <= n.
Proof. induction 1 as [|t n l Hp IH Hn]; lia. Qed.

Lemma find_parent_some all pr n my q : prev_ok all pr n -> find_parent pr my = Some q ->
  0 <= q < n /\ lvl all q < my /\ forall j, q < j < n -> my <= lvl all j.
Proof.
  intros Hp. revert q. induction Hp as [|t n l Hp IH Hn]; intros q Hf; cbn [find_parent] in Hf; [discriminate|].
  pose proof (prev_ok_nonneg _ _ _ Hp) as Hnn.
  destruct (Z.ltb_spec (l_level l) my) as [Hlt|Hge].
  - injection Hf as <-. rewrite (lvl_nthz _ _ _ Hn). repeat split; try lia.
  - destruct (IH q Hf) as (Hq & Hl & Ha). repeat split; try lia. intros j Hj.
    destruct (Z.eq_dec j n) as [->|Hne]; [rewrite (lvl_nthz _ _ _ Hn); exact Hge|apply Ha; lia].
Qed.

Lemma find_parent_none all pr n my : prev_ok all pr n -> find_parent pr my = None ->
  forall j, 0 <= j < n -> my <= lvl all j.
Proof.
  intros Hp. induction Hp as [|t n l Hp IH Hn]; intros Hf j Hj; cbn [find_parent] in Hf; [lia|].
  destruct (Z.ltb_spec (l_level l) my) as [Hlt|Hge]; [discriminate|].
  destruct (Z.eq_dec j n) as [->|Hne]; [rewrite (lvl_nthz _ _ _ Hn); exact Hge|apply IH; [exact Hf|lia]].
Qed.

Lemma cpa_ok all : forall ls id pr acc ps,
  prev_ok all pr id -> (forall k, 0 <= k -> nthz ls k = nthz all (id + k)) ->
  compute_parents_aux ls id pr acc = Ok ps ->
  exists ps', ps = rev acc ++ ps' /\ length ps' = length ls /\
    forall k l, nthz ls k = Some l -> parent_rule all (id + k) l (nthz ps' k).
Proof.
  induction ls as [|l t IH]; intros id pr acc ps Hp Hall Hc; cbn [compute_parents_aux] in Hc.
  - injection Hc as <-. exists []. rewrite app_nil_r. split; [reflexivity|split; [reflexivity|]]. intros k l Hk. destruct (nthz_some _ _ _ Hk) as [? Hz].
    rewrite zlen_nil in Hz. lia.
  - pose proof (prev_ok_nonneg _ _ _ Hp) as Hid.
    assert (Hl : nthz all id = Some l).
    { specialize (Hall 0 ltac:(lia)). rewrite nthz_cons_0, Z.add_0_r in Hall. symmetry. exact Hall. }
    assert (Hall' : forall k, 0 <= k -> nthz t k = nthz all (id + 1 + k)).
    { intros k Hk. specialize (Hall (k + 1) ltac:(lia)). rewrite nthz_cons_succ in Hall by exact Hk.
      rewrite Hall. f_equal. lia. }
    assert (Hp' : prev_ok all ((l_level l, id) :: pr) (id + 1)) by (apply po_cons; assumption).
    assert (Hstep : forall p, parent_rule all id l (Some p) ->
              compute_parents_aux t (id + 1) ((l_level l, id) :: pr) (p :: acc) = Ok ps ->
              exists ps', ps = rev acc ++ ps' /\ length ps' = length (l :: t) /\
                forall k l0, nthz (l :: t) k = Some l0 -> parent_rule all (id + k) l0 (nthz ps' k)).
    { intros p Hrule Hc'. destruct (IH _ _ _ _ Hp' Hall' Hc') as (ps'' & Eps & Hlen & Hrules).
      exists (p :: ps''). split; [|split].
      - rewrite Eps. cbn [rev]. rewrite <- app_assoc. reflexivity.
      - cbn [length]. rewrite Hlen. reflexivity.
      - intros k l0 Hk. destruct (Z.eq_dec k 0) as [->|Hne].
        + rewrite nthz_cons_0 in Hk. injection Hk as <-. rewrite nthz_cons_0, Z.add_0_r. exact Hrule.
        + pose proof (nthz_some _ _ _ Hk) as Hr. rewrite nthz_cons_pos in Hk by lia. rewrite nthz_cons_pos by lia.
          replace (id + k) with (id + 1 + (k - 1)) by lia. apply Hrules. exact Hk. }
    destruct (Z.eqb_spec (l_level l) 0) as [E0|E0]; cbn [rbind] in Hc.
    + apply (Hstep None); [|exact Hc]. split; [reflexivity|]. intros Hne. contradiction.
    + destruct (find_parent pr (l_level l)) as [q|] eqn:Ef; cbn [rbind] in Hc; [|discriminate].
      apply (Hstep (Some q)); [|exact Hc]. split; [intros Hz; contradiction|]. intros _. exists q. split; [reflexivity|].
      destruct (find_parent_some _ _ _ _ _ Hp Ef) as (Hq & Hlq & Ha). unfold nearest.
      rewrite (lvl_nthz _ _ _ Hl). repeat split; try lia. exact Ha.
Qed.

Lemma cpa_err all : forall ls id pr acc e,
  prev_ok all pr id -> (forall k, 0 <= k -> nthz ls k = nthz all (id + k)) ->
  compute_parents_aux ls id pr acc = Err e ->
  e = EInvalid /\ exists k l, nthz ls k = Some l /\ l_level l <> 0 /\ forall q, 0 <= q < id + k -> l_level l <= lvl all q.
Proof.
  induction ls as [|l t IH]; intros id pr acc e Hp Hall Hc; cbn [compute_parents_aux] in Hc; [discriminate|].
  pose proof (prev_ok_nonneg _ _ _ Hp) as Hid.
  assert (Hl : nthz all id = Some l).
  { specialize (Hall 0 ltac:(lia)). rewrite nthz_cons_0, Z.add_0_r in Hall. symmetry. exact Hall. }
  assert (Hall' : forall k, 0 <= k -> nthz t k = nthz all (id + 1 + k)).
  { intros k Hk. specialize (Hall (k + 1) ltac:(lia)). rewrite nthz_cons_succ in Hall by exact Hk.
    rewrite Hall. f_equal. lia. }
  assert (Hp' : prev_ok all ((l_level l, id) :: pr) (id + 1)) by (apply po_cons; assumption).
  assert (Hstep : forall p, compute_parents_aux t (id + 1) ((l_level l, id) :: pr) (p :: acc) = Err e ->
            e = EInvalid /\ exists k l0, nthz (l :: t) k = Some l0 /\ l_level l0 <> 0 /\
              forall q, 0 <= q < id + k -> l_level l0 <= lvl all q).
  { intros p Hc'. destruct (IH _ _ _ _ Hp' Hall' Hc') as (Ee & k & l0 & Hk & Hne & Ha).
    split; [exact Ee|]. pose proof (nthz_some _ _ _ Hk) as Hr. exists (k + 1), l0. rewrite nthz_cons_succ by lia.
    repeat split; try assumption. intros q Hq. apply Ha. lia. }
  destruct (Z.eqb_spec (l_level l) 0) as [E0|E0]; cbn [rbind] in Hc.
  - apply (Hstep None). exact Hc.
  - destruct (find_parent pr (l_level l)) as [q|] eqn:Ef; cbn [rbind] in Hc.
    + apply (Hstep (Some q)). exact Hc.
    + injection Hc as <-. split; [reflexivity|]. exists 0, l. rewrite nthz_cons_0. repeat split; [exact E0|].
      intros q Hq. apply (find_parent_none _ _ _ _ Hp Ef). lia.
Qed.

Lemma cpa_no_panic : forall ls id pr acc s, compute_parents_aux ls id pr acc <> Panic s.
Proof.
  induction ls as [|l t IH]; intros id pr acc s; cbn [compute_parents_aux]; [discriminate|].
  destruct (l_level l =? 0); cbn [rbind]; [apply IH|].
  destruct (find_parent pr (l_level l)); cbn [rbind]; [apply IH|discriminate].
Qed.

(* the parents vector: one entry per layer, each following the nearest-smaller-level rule *)
Theorem parents_spec ls ps : compute_parents ls = Ok ps ->
  zlen ps = zlen ls /\
  forall i l, nthz ls i = Some l -> parent_rule ls i l (nthz ps i).
Proof.
  intros Hc. unfold compute_parents in Hc.
  destruct (cpa_ok ls ls 0 [] [] ps (po_nil ls)) as (ps' & Eps & Hlen & Hrules); [intros k _; reflexivity|exact Hc|].
  cbn [rev app] in Eps. subst ps'. split; [unfold zlen; rewrite Hlen; reflexivity|].
  intros i l Hi. specialize (Hrules i l Hi). rewrite Z.add_0_l in Hrules. exact Hrules.
Qed.

Theorem parents_no_panic ls s : compute_parents ls <> Panic s.
Proof. apply cpa_no_panic. Qed.

Lemma parents_err ls e : compute_parents ls = Err e -> e = EInvalid /\ orphan ls.
Proof.
  intros Hc. destruct (cpa_err ls ls 0 [] [] e (po_nil ls)) as (Ee & k & l & Hk & Hne & Ha); [intros k _; reflexivity|exact Hc|].
  split; [exact Ee|]. exists k, l. repeat split; assumption.
Qed.

Lemma parents_ok_not_orphan ls ps : compute_parents ls = Ok ps -> ~ orphan ls.
Proof.
  intros Hc (i & l & Hi & Hne & Ha). destruct (parents_spec _ _ Hc) as [_ Hr].
  destruct (Hr i l Hi) as [_ Hr2]. destruct (Hr2 Hne) as (p & _ & Hp & Hlt & _).
  rewrite (lvl_nthz _ _ _ Hi) in Hlt. specialize (Ha p Hp). lia.
Qed.

(* exact failure condition: the only failure is Err EInvalid, and it occurs iff there is an orphan *)
Theorem parents_fail_iff ls : compute_parents ls = Err EInvalid <-> orphan ls.
Proof.
  split.
  - intros Hc. apply (parents_err _ _ Hc).
  - intros Ho. destruct (compute_parents ls) as [ps|e|s] eqn:Hc.
    + exfalso. exact (parents_ok_not_orphan _ _ Hc Ho).
    + destruct (parents_err _ _ Hc) as [-> _]. reflexivity.
    + exfalso. exact (parents_no_panic _ _ Hc).
Qed.

Theorem parents_ok_iff ls : (exists ps, compute_parents ls = Ok ps) <-> ~ orphan ls.
Proof.
  split.
  - intros [ps Hc]. exact (parents_ok_not_orphan _ _ Hc).
  - intros Hno. destruct (compute_parents ls) as [ps|e|s] eqn:Hc.
    + eauto.
    + exfalso. apply Hno. apply (parents_err _ _ Hc).
    + exfalso. exact (parents_no_panic _ _ Hc).
Qed.

(* first level 0 and no negative level suffice *)
Lemma no_orphan_first0 ls : (forall l, In l ls -> 0 <= l_level l) -> lvl ls 0 = 0 -> ~ orphan ls.
Proof.
  intros Hnn H0 (i & l & Hi & Hne & Ha). pose proof (nthz_some _ _ _ Hi) as Hr.
  pose proof (Hnn l (nthz_In _ _ _ Hi)) as Hl.
  destruct (Z.eq_dec i 0) as [->|Hi0].
  - rewrite (lvl_nthz _ _ _ Hi) in H0. lia.
  - specialize (Ha 0 ltac:(lia)). lia.
Qed.

Theorem parents_total ls : forest ls -> exists ps, compute_parents ls = Ok ps.
Proof. intros (Hnn & H0 & _). apply parents_ok_iff. apply no_orphan_first0; assumption. Qed.

(* totality on forests, the exact failure condition, and no other outcome *)
Theorem parents_total_full ls :
  (forest ls -> exists ps, compute_parents ls = Ok ps) /\
  (compute_parents ls = Err EInvalid <-> orphan ls) /\
  (forall e, compute_parents ls = Err e -> e = EInvalid) /\
  (forall s, compute_parents ls <> Panic s).
Proof.
  split; [apply parents_total|]. split; [apply parents_fail_iff|]. split.
  - intros e He. apply (parents_err _ _ He).
  - apply parents_no_panic.
Qed.

Theorem parent_lt ls ps i p : compute_parents ls = Ok ps -> nthz ps i = Some (Some p) -> 0 <= p < i.
Proof.
  intros Hc Hi. destruct (parents_spec _ _ Hc) as [Hlen Hr].
  pose proof (nthz_some _ _ _ Hi) as Hrange. rewrite Hlen in Hrange.
  destruct (nthz_in_range ls i Hrange) as [l Hl]. destruct (Hr i l Hl) as [Hz Hnz].
  destruct (Z.eq_dec (l_level l) 0) as [E|E].
  - rewrite (Hz E) in Hi. discriminate.
  - destruct (Hnz E) as (p' & Ep & Hn). rewrite Ep in Hi. injection Hi as ->. destruct Hn as [Hn _]. exact Hn.
Qed.

(* ------------------------------------------------------------------ *)
(* files: parents come from compute_parents *)

Definition parents_ok (f : file) : Prop :=
  exists ls ps, f_layers f = arr_of_list ls /\ f_parents f = arr_of_list ps /\ compute_parents ls = Ok ps.

Theorem validate_parents_ok h p f : validate h p = Ok f -> parents_ok f.
Proof.
  unfold validate; rewrite ?frev_eq. intros H.
  destruct (compute_parents (rev (pi_layers_rev p))) as [ps| |] eqn:Hc; cbn [rbind] in H; try discriminate.
  destruct (validate_tilesets (pi_palette p) (h_fmt h) (pi_tilesets p)) as [tss| |]; cbn [rbind] in H; try discriminate.
  destruct (validate_layers (rev (pi_layers_rev p)) tss) as [u| |]; cbn [rbind] in H; try discriminate.
  destruct (validate_cels (arr_of_list (rev (pi_layers_rev p))) tss (pi_palette p) (h_fmt h) (pi_cels p)
              (pi_nframes p) (pi_nlayers p)) as [cels| |]; cbn [rbind] in H; try discriminate.
  injection H as <-. exists (rev (pi_layers_rev p)), ps. cbn [f_layers f_parents]. repeat split. exact Hc.
Qed.

(* Layer::parent through the public accessor *)
Theorem layer_parent_spec f : parents_ok f -> forall i, 0 <= i < num_layers f ->
  exists l, layer_get f i = Ok l /\
  ((l_level l = 0 -> layer_parent f i = Ok None) /\
   (l_level l <> 0 -> exists p, layer_parent f i = Ok (Some p) /\ nearest (arr_to_list (f_layers f)) i p)).
Proof.
  intros (ls & ps & El & Ep & Hc) i Hi. unfold num_layers in Hi. unfold layer_get, layer_parent.
  rewrite El, Ep in *. rewrite arr_to_list_of_list. rewrite alen_arr_of_list in Hi. rewrite !aget_arr_of_list.
  destruct (nthz_in_range ls i Hi) as [l Hl]. rewrite Hl. exists l. split; [reflexivity|].
  destruct (parents_spec _ _ Hc) as [_ Hr]. destruct (Hr i l Hl) as [Hz Hnz]. split.
  - intros E. rewrite (Hz E). reflexivity.
  - intros E. destruct (Hnz E) as (p & Epp & Hn). exists p. rewrite Epp. split; [reflexivity|exact Hn].
Qed.

Theorem layer_parent_lt f i p : parents_ok f -> layer_parent f i = Ok (Some p) -> 0 <= p < i.
Proof.
  intros (ls & ps & El & Ep & Hc). unfold layer_parent. rewrite Ep, aget_arr_of_list.
  destruct (nthz ps i) as [o|] eqn:E; [|discriminate]. intros [= ->]. exact (parent_lt _ _ _ _ Hc E).
Qed.

(* ------------------------------------------------------------------ *)
(* visibility *)

Definition vflag (f : file) (j : Z) : bool :=
  match aget (f_layers f) j with Some l => layer_visible_flag l | None => false end.

(* the chain parent, grandparent, ... of layer i (fuel: the number of layers) *)
Fixpoint anc_fuel (n : nat) (f : file) (i : Z) : list Z :=
  match n with
  | O => []
  | S k => match aget (f_parents f) i with Some (Some p) => p :: anc_fuel k f p | _ => [] end
  end.
Definition ancestors (f : file) (i : Z) : list Z := anc_fuel (Z.to_nat (num_layers f)) f i.

Section Visible.
Variable f : file.
Hypothesis Hok : parents_ok f.

Lemma pok_parent_lt i p : aget (f_parents f) i = Some (Some p) -> 0 <= p < i.
Proof.
  destruct Hok as (ls & ps & El & Ep & Hc). rewrite Ep, aget_arr_of_list. intros E. exact (parent_lt _ _ _ _ Hc E).
Qed.

Lemma pok_lookup i : 0 <= i < num_layers f ->
  exists l o, aget (f_layers f) i = Some l /\ aget (f_parents f) i = Some o.
Proof.
  destruct Hok as (ls & ps & El & Ep & Hc). unfold num_layers. rewrite El, Ep, alen_arr_of_list, !aget_arr_of_list.
  intros Hi. destruct (parents_spec _ _ Hc) as [Hlen _].
  destruct (nthz_in_range ls i Hi) as [l Hl]. destruct (nthz_in_range ps i ltac:(lia)) as [o Ho]. eauto.
Qed.

Lemma anc_fuel_indep : forall n m i, i < Z.of_nat n -> i < Z.of_nat m -> anc_fuel n f i = anc_fuel m f i.
Proof.
  induction n as [|n IH]; intros m i Hn Hm.
  - destruct m as [|m]; [reflexivity|]. cbn [anc_fuel].
    destruct (aget (f_parents f) i) as [[p|]|] eqn:E; try reflexivity. apply pok_parent_lt in E. lia.
  - destruct m as [|m]; cbn [anc_fuel].
    + destruct (aget (f_parents f) i) as [[p|]|] eqn:E; try reflexivity. apply pok_parent_lt in E. lia.
    + destruct (aget (f_parents f) i) as [[p|]|] eqn:E; try reflexivity. apply pok_parent_lt in E.
      f_equal. apply IH; lia.
Qed.

(* the defining equation of the ancestor chain *)
Theorem ancestors_unfold i : 0 <= i < num_layers f ->
  ancestors f i = match aget (f_parents f) i with Some (Some p) => p :: ancestors f p | _ => [] end.
Proof.
  intros Hi. unfold ancestors. destruct (Z.to_nat (num_layers f)) as [|n] eqn:En; [lia|].
  change (anc_fuel (S n) f i) with
    (match aget (f_parents f) i with Some (Some p) => p :: anc_fuel n f p | _ => [] end).
  destruct (aget (f_parents f) i) as [[p|]|] eqn:E; try reflexivity. apply pok_parent_lt in E.
  f_equal. apply anc_fuel_indep; lia.
Qed.

Lemma ancestors_lt : forall i a, 0 <= i < num_layers f -> In a (ancestors f i) -> 0 <= a < i.
Proof.
  intros i. assert (Hnn : 0 <= i \/ i < 0) by lia. destruct Hnn as [Hnn|Hneg]; [|intros; lia].
  revert i Hnn. apply (Z_lt_induction (fun i => forall a, 0 <= i < num_layers f -> In a (ancestors f i) -> 0 <= a < i)).
  intros i IH a Hi Ha. rewrite ancestors_unfold in Ha by exact Hi.
  destruct (aget (f_parents f) i) as [[p|]|] eqn:E; try contradiction. apply pok_parent_lt in E.
  destruct Ha as [<-|Ha]; [exact E|]. specialize (IH p ltac:(lia) a ltac:(lia) Ha). lia.
Qed.

Lemma vis_iter : forall k i, 0 <= i < num_layers f -> i < Z.of_nat k ->
  iter_step k (vis_step f) i = Done (Ok (forallb (vflag f) (i :: ancestors f i))).
Proof.
  induction k as [|k IH]; intros i Hi Hk; [lia|]. cbn [iter_step forallb].
  destruct (pok_lookup i Hi) as (l & o & El & Eo). unfold vis_step at 1. unfold vflag at 1. rewrite El, Eo.
  rewrite (ancestors_unfold i Hi), Eo.
  destruct (layer_visible_flag l); cbn [negb andb]; [|reflexivity].
  destruct o as [p|]; [|reflexivity]. pose proof (pok_parent_lt _ _ Eo) as Hp.
  rewrite IH by lia. reflexivity.
Qed.

(* Layer::is_visible: own flag and the flags of all ancestors; the fuel is never exhausted *)
Theorem visible_spec i : 0 <= i < num_layers f ->
  layer_is_visible f i = Ok (forallb (vflag f) (i :: ancestors f i)).
Proof.
  intros Hi. unfold layer_is_visible. rewrite loopP_iter. rewrite vis_iter; [reflexivity|exact Hi|].
  rewrite positive_nat_Z, Z2Pos.id by lia. lia.
Qed.

Corollary visible_no_panic i : 0 <= i < num_layers f -> exists b, layer_is_visible f i = Ok b.
Proof. intros Hi. rewrite (visible_spec i Hi). eauto. Qed.

(* recursive reading: visible iff own flag set and (no parent or parent visible) *)
Corollary visible_rec i : 0 <= i < num_layers f ->
  layer_is_visible f i =
  Ok (vflag f i && match aget (f_parents f) i with
                   | Some (Some p) => match layer_is_visible f p with Ok b => b | _ => false end
                   | _ => true end).
Proof.
  intros Hi. rewrite (visible_spec i Hi). cbn [forallb]. rewrite (ancestors_unfold i Hi).
  destruct (aget (f_parents f) i) as [[p|]|] eqn:E; try reflexivity.
  pose proof (pok_parent_lt _ _ E) as Hp. rewrite (visible_spec p) by lia. reflexivity.
Qed.
End Visible.

(* ------------------------------------------------------------------ *)
(* hidden layers contribute nothing *)

Definition hidden (f : file) (j : Z) : Prop := layer_is_visible f j = Ok false /\ j < num_layers f.

Theorem hidden_contributes_nothing f img o rest id : hidden f id ->
  frame_row f img (o :: rest) id = frame_row f img rest (id + 1).
Proof.
  intros [Hv Hn]. destruct o as [c|]; cbn [frame_row]; [|reflexivity].
  destruct (Z.leb_spec (num_layers f) id) as [H|H]; [lia|]. rewrite Hv. reflexivity.
Qed.

(* the cel at position k of a row (rows are padded with None) *)
Definition cellat (r : row pixels) (k : Z) : option (cel pixels) :=
  match nthz r k with Some c => c | None => None end.

Lemma cellat_cons_0 o r : cellat (o :: r) 0 = o.
Proof. unfold cellat. rewrite nthz_cons_0. destruct o; reflexivity. Qed.
Lemma cellat_cons_succ o r k : 0 <= k -> cellat (o :: r) (k + 1) = cellat r k.
Proof. intros Hk. unfold cellat. rewrite nthz_cons_succ by exact Hk. reflexivity. Qed.
Lemma cellat_nil k : cellat [] k = None.
Proof. unfold cellat. destruct (nthz [] k) eqn:E; [|reflexivity]. apply nthz_some in E. unfold zlen in E. cbn [length] in E. lia. Qed.

Lemma table_cel_cellat (t : celtable pixels) n fr j :
  table_cel t n fr j = if (fr <? 0) || (n <=? fr) then Panic 104 else Ok (cellat (get_row t fr) j).
Proof.
  unfold table_cel, cellat. destruct ((fr <? 0) || (n <=? fr)); [reflexivity|].
  destruct (nthz (get_row t fr) j); reflexivity.
Qed.

Lemma frame_row_all_hidden f : forall r id img, 0 <= id ->
  (forall k, 0 <= k -> cellat r k = None \/ hidden f (id + k)) -> frame_row f img r id = Ok img.
Proof.
  induction r as [|o r IH]; intros id img Hid H; [reflexivity|].
  assert (Hr : frame_row f img r (id + 1) = Ok img).
  { apply IH; [lia|]. intros k Hk. specialize (H (k + 1) ltac:(lia)). rewrite cellat_cons_succ in H by exact Hk.
    replace (id + 1 + k) with (id + (k + 1)) by lia. exact H. }
  specialize (H 0 ltac:(lia)). rewrite cellat_cons_0, Z.add_0_r in H. destruct H as [->|Hh].
  - cbn [frame_row]. exact Hr.
  - rewrite hidden_contributes_nothing by exact Hh. exact Hr.
Qed.

(* a copy of the file with another cel table *)
Definition with_cels (f : file) (t : celtable pixels) : file :=
  {| f_width := f_width f; f_height := f_height f; f_nframes := f_nframes f; f_fmt := f_fmt f;
     f_palette := f_palette f; f_layers := f_layers f; f_parents := f_parents f;
     f_default_time := f_default_time f; f_times := f_times f; f_tags := f_tags f;
     f_cels := t; f_ext := f_ext f; f_tilesets := f_tilesets f; f_sprite_ud := f_sprite_ud f;
     f_slices := f_slices f |}.

Section HiddenImage.
Variable f : file.
Variable t' : celtable pixels.
Let f' := with_cels f t'.
(* the two tables agree on every cel of every layer that is not hidden *)
Hypothesis Hagree : forall fr j, 0 <= j ->
  cellat (get_row (f_cels f) fr) j = cellat (get_row t' fr) j \/ hidden f j.

Lemma vis_with_cels j : layer_is_visible f' j = layer_is_visible f j.
Proof. reflexivity. Qed.

Lemma write_cel_with_cels img c : layer_is_visible f (cc_layer (c_data c)) = Ok true -> 0 <= cc_layer (c_data c) ->
  write_cel f' img c = write_cel f img c.
Proof.
  intros Hv Hnn. unfold write_cel. destruct (c_content c) as [w h px|fr|tm]; try reflexivity.
  change (layer_get f' (cc_layer (c_data c))) with (layer_get f (cc_layer (c_data c))).
  destruct (layer_get f (cc_layer (c_data c))) as [l| |]; cbn [rbind]; try reflexivity.
  unfold cel_lookup. change (num_frames f') with (num_frames f). change (f_cels f') with t'.
  rewrite !table_cel_cellat.
  destruct (Hagree fr (cc_layer (c_data c)) Hnn) as [E|[Hh _]]; [|congruence].
  rewrite E. reflexivity.
Qed.

Lemma frame_row_with_cels : forall r r' id img, 0 <= id ->
  (forall k, 0 <= k -> cellat r k = cellat r' k \/ hidden f (id + k)) ->
  (forall k c, 0 <= k -> cellat r k = Some c -> layer_is_visible f (id + k) = Ok true -> cc_layer (c_data c) = id + k) ->
  frame_row f' img r' id = frame_row f img r id.
Proof.
  induction r as [|o r IH]; intros r' id img Hid Hrel Hal.
  - cbn [frame_row]. apply frame_row_all_hidden; [exact Hid|]. intros k Hk.
    destruct (Hrel k Hk) as [E|Hh]; [left; rewrite <- E; apply cellat_nil|right; exact Hh].
  - destruct r' as [|o' r'].
    + change (frame_row f' img [] id) with (@Ok image img). symmetry. apply frame_row_all_hidden; [exact Hid|]. intros k Hk.
      destruct (Hrel k Hk) as [E|Hh]; [left; rewrite E; apply cellat_nil|right; exact Hh].
    + assert (Htail : forall img0, frame_row f' img0 r' (id + 1) = frame_row f img0 r (id + 1)).
      { intros img0. apply IH; [lia| |].
        - intros k Hk. specialize (Hrel (k + 1) ltac:(lia)). rewrite !cellat_cons_succ in Hrel by exact Hk.
          replace (id + 1 + k) with (id + (k + 1)) by lia. exact Hrel.
        - intros k c Hk Hc Hv. replace (id + 1 + k) with (id + (k + 1)) in * by lia.
          apply Hal; [lia| |exact Hv]. rewrite cellat_cons_succ by exact Hk. exact Hc. }
      pose proof (Hrel 0 ltac:(lia)) as H0. rewrite !cellat_cons_0, Z.add_0_r in H0. destruct H0 as [E|Hh].
      * subst o'. destruct o as [c|]; cbn [frame_row]; [|apply Htail].
        change (num_layers f') with (num_layers f). destruct (num_layers f <=? id); [reflexivity|].
        rewrite vis_with_cels. destruct (layer_is_visible f id) as [v| |] eqn:Ev; cbn [rbind]; try reflexivity.
        destruct v; [|apply Htail].
        assert (Ec : cc_layer (c_data c) = id).
        { pose proof (Hal 0 c ltac:(lia) (cellat_cons_0 _ _)) as Hx. rewrite Z.add_0_r in Hx. exact (Hx Ev). }
        rewrite write_cel_with_cels by (rewrite Ec; assumption).
        destruct (write_cel f img c) as [img1| |]; cbn [rbind]; try reflexivity. apply Htail.
      * rewrite (hidden_contributes_nothing f img o r id Hh).
        assert (Hh' : hidden f' id) by exact Hh.
        rewrite (hidden_contributes_nothing f' img o' r' id Hh'). apply Htail.
Qed.

(* changing, adding or removing cels of hidden layers (in any frame) does not change the frame image *)
Theorem hidden_frame_image frame :
  (forall j c, 0 <= j -> cellat (get_row (f_cels f) frame) j = Some c ->
     layer_is_visible f j = Ok true -> cc_layer (c_data c) = j) ->
  frame_image f' frame = frame_image f frame.
Proof.
  intros Hal. unfold frame_image. change (num_frames f') with (num_frames f).
  destruct ((frame <? 0) || (num_frames f <=? frame)); [reflexivity|].
  change (f_width f') with (f_width f). change (f_height f') with (f_height f). change (f_cels f') with t'.
  apply frame_row_with_cels; [lia| |].
  - intros k Hk. rewrite Z.add_0_l. apply Hagree. exact Hk.
  - intros k c Hk Hc Hv. rewrite Z.add_0_l in *. apply Hal; assumption.
Qed.
End HiddenImage.

(* ------------------------------------------------------------------ *)
(* the same facts over an abstract cel writer (no dependency on the blend functions) *)

Fixpoint frame_row_w {I : Type} (n : Z) (vis : Z -> res bool) (wr : I -> cel pixels -> res I)
         (img : I) (r : row pixels) (layer_id : Z) : res I :=
  match r with
  | [] => Ok img
  | None :: rest => frame_row_w n vis wr img rest (layer_id + 1)
  | Some c :: rest =>
      if n <=? layer_id then Panic 202 else
      v <-- vis layer_id ;;;
      img' <-- (if v then wr img c else Ok img) ;;;
      frame_row_w n vis wr img' rest (layer_id + 1)
  end.

(* bridge: frame_row is the instance with the real visibility test and writer *)
Lemma frame_row_is_w f : forall r img id,
  frame_row f img r id = frame_row_w (num_layers f) (layer_is_visible f) (write_cel f) img r id.
Proof.
  induction r as [|o r IH]; intros img id; [reflexivity|]. destruct o as [c|]; cbn [frame_row frame_row_w]; [|apply IH].
  destruct (num_layers f <=? id); [reflexivity|].
  destruct (layer_is_visible f id) as [v| |]; cbn [rbind]; try reflexivity.
  destruct (if v then write_cel f img c else Ok img) as [img'| |]; cbn [rbind]; try reflexivity. apply IH.
Qed.

Section Generic.
Context {I : Type}.
Variable n : Z.
Variable vis : Z -> res bool.
Variable wr : I -> cel pixels -> res I.

Definition hidden_w (j : Z) : Prop := vis j = Ok false /\ j < n.

Theorem hidden_generic img o rest id : hidden_w id ->
  frame_row_w n vis wr img (o :: rest) id = frame_row_w n vis wr img rest (id + 1).
Proof.
  intros [Hv Hn]. destruct o as [c|]; cbn [frame_row_w]; [|reflexivity].
  destruct (Z.leb_spec n id) as [H|H]; [lia|]. rewrite Hv. reflexivity.
Qed.

Lemma frame_row_w_all_hidden : forall r id img, 0 <= id ->
  (forall k, 0 <= k -> cellat r k = None \/ hidden_w (id + k)) -> frame_row_w n vis wr img r id = Ok img.
Proof.
  induction r as [|o r IH]; intros id img Hid H; [reflexivity|].
  assert (Hr : frame_row_w n vis wr img r (id + 1) = Ok img).
  { apply IH; [lia|]. intros k Hk. specialize (H (k + 1) ltac:(lia)). rewrite cellat_cons_succ in H by exact Hk.
    replace (id + 1 + k) with (id + (k + 1)) by lia. exact H. }
  specialize (H 0 ltac:(lia)). rewrite cellat_cons_0, Z.add_0_r in H. destruct H as [->|Hh].
  - cbn [frame_row_w]. exact Hr.
  - rewrite hidden_generic by exact Hh. exact Hr.
Qed.

(* rows that differ only at hidden positions produce the same image *)
Theorem hidden_generic_rows : forall r r' id img, 0 <= id ->
  (forall k, 0 <= k -> cellat r k = cellat r' k \/ hidden_w (id + k)) ->
  frame_row_w n vis wr img r' id = frame_row_w n vis wr img r id.
Proof.
  induction r as [|o r IH]; intros r' id img Hid Hrel.
  - change (frame_row_w n vis wr img [] id) with (@Ok I img). apply frame_row_w_all_hidden; [exact Hid|]. intros k Hk.
    destruct (Hrel k Hk) as [E|Hh]; [left; rewrite <- E; apply cellat_nil|right; exact Hh].
  - destruct r' as [|o' r'].
    + change (frame_row_w n vis wr img [] id) with (@Ok I img). symmetry. apply frame_row_w_all_hidden; [exact Hid|].
      intros k Hk. destruct (Hrel k Hk) as [E|Hh]; [left; rewrite E; apply cellat_nil|right; exact Hh].
    + assert (Htail : forall img0, frame_row_w n vis wr img0 r' (id + 1) = frame_row_w n vis wr img0 r (id + 1)).
      { intros img0. apply IH; [lia|]. intros k Hk. specialize (Hrel (k + 1) ltac:(lia)).
        rewrite !cellat_cons_succ in Hrel by exact Hk. replace (id + 1 + k) with (id + (k + 1)) by lia. exact Hrel. }
      pose proof (Hrel 0 ltac:(lia)) as H0. rewrite !cellat_cons_0, Z.add_0_r in H0. destruct H0 as [E|Hh].
      * subst o'. destruct o as [c|]; cbn [frame_row_w]; [|apply Htail].
        destruct (n <=? id); [reflexivity|]. destruct (vis id) as [v| |]; cbn [rbind]; try reflexivity.
        destruct (if v then wr img c else Ok img) as [img1| |]; cbn [rbind]; try reflexivity. apply Htail.
      * rewrite (hidden_generic img o r id Hh), (hidden_generic img o' r' id Hh). apply Htail.
Qed.
End Generic.

(* ------------------------------------------------------------------ *)
(* examples *)

Definition mk_layer (flags level : Z) : layer :=
  {| l_flags := flags; l_name := []; l_blend := 0; l_opacity := 255; l_type := 0; l_tileset := 0;
     l_level := level; l_ud := None |}.

Example parents_example :
  compute_parents (map (mk_layer 1) [0; 1; 2; 2; 1; 0; 1])
  = Ok [None; Some 0; Some 1; Some 1; Some 0; None; Some 5].
Proof. vm_compute. reflexivity. Qed.

Example parents_orphan_example : compute_parents (map (mk_layer 1) [1; 0]) = Err EInvalid.
Proof. vm_compute. reflexivity. Qed.

Definition mk_file (ls : list layer) (ps : list (option Z)) (cels : celtable pixels) : file :=
  {| f_width := 1; f_height := 1; f_nframes := 1; f_fmt := FRgba; f_palette := None;
     f_layers := arr_of_list ls; f_parents := arr_of_list ps;
     f_default_time := 100; f_times := zempty; f_tags := []; f_cels := cels; f_ext := zempty;
     f_tilesets := zempty; f_sprite_ud := None; f_slices := [] |}.

Definition one_pixel_cel (layer : Z) (p : pixel) : cel pixels :=
  {| c_data := {| cc_layer := layer; cc_x := 0; cc_y := 0; cc_opacity := 255 |};
     c_content := CRaw 1 1 (PRgba (arr_of_list [p])); c_ud := None |}.

(* layer 0: visible image; layer 1: hidden group; layer 2: visible child of the group; layer 3: visible *)
Definition ex_layers : list layer := [mk_layer 1 0; mk_layer 0 0; mk_layer 1 1; mk_layer 1 0].
Definition ex_file (cels : celtable pixels) : file :=
  mk_file ex_layers [None; None; Some 1; None] cels.

Example visible_example :
  compute_parents ex_layers = Ok [None; None; Some 1; None] /\
  map (layer_is_visible (ex_file zempty)) [0; 1; 2; 3] = [Ok true; Ok false; Ok false; Ok true].
Proof. vm_compute. split; reflexivity. Qed.

(* the visible child of the hidden group does not reach the frame image *)
Example hidden_example :
  let with_child := zadd 0 [None; None; Some (one_pixel_cel 2 (255, 0, 0, 255))] zempty in
  let without := zadd 0 [None; None; None] zempty in
  match frame_image (ex_file with_child) 0, frame_image (ex_file without) 0 with
  | Ok a, Ok b => img_get a 0 0 = img_get b 0 0 /\ img_get a 0 0 = transparent
  | _, _ => False
  end.
Proof. vm_compute. split; reflexivity. Qed.

(* a chain of 200 nested groups: the deepest layer is visible, and hidden once the root is *)
Definition chain_file (root_flag : Z) (n : nat) : file :=
  mk_file (mk_layer root_flag 0 :: map (mk_layer 1) (zrange 1 n))
          (None :: map Some (zrange 0 n)) zempty.
Example deep_chain_example :
  layer_is_visible (chain_file 1 200) 200 = Ok true /\ layer_is_visible (chain_file 0 200) 200 = Ok false.
Proof. vm_compute. split; reflexivity. Qed.
