(* C05, first half: the invariant `Valid` that a successful load establishes and that the
   accessors and the renderer rely on (Proofs/NoPanicApi.v). *)
From Ase Require Import Base.Prelude Model.Render Proofs.ITLemmas Proofs.ArrLemmas Proofs.Layers Proofs.NoPanicLoad.

(* ------------------------------------------------------------------ *)
(* the invariant *)

Section ValidDef.
(* predicate on the channel values of stored pixels: `fun _ => True`, or `is_byte` *)
Variable W : Z -> Prop.

(* n pixels, stored densely; every indexed pixel has a palette entry *)
Definition pixels_ok (n : Z) (px : pixels) : Prop :=
  match px with
  | PRgba a => exists l, a = arr_of_list l /\ zlen l = n /\ Forall (pixW W) l
  | PGray a => exists l, a = arr_of_list l /\ zlen l = n /\ Forall (grayW W) l
  | PIndexed pal _ _ a =>
      exists l, a = arr_of_list l /\ zlen l = n /\ Forall (fun i => exists e, zfind i pal = Some e) l /\ pal_wf pal
  end.

Definition ts_ok (ts : tileset pixels) : Prop :=
  1 <= ts_w ts < 65536 /\ 1 <= ts_h ts < 65536 /\ 0 <= ts_count ts /\
  ts_count ts * ts_h ts * ts_w ts < 4294967296 /\
  exists px, ts_pixels ts = Some px /\ pixels_ok (ts_count ts * ts_h ts * ts_w ts) px.

(* the cel stored at index i of a row *)
Definition cel_ok (f : file) (i : Z) (c : cel pixels) : Prop :=
  cc_layer (c_data c) = i /\
  match c_content c with
  | CRaw w h px => 0 <= w < 65536 /\ 0 <= h < 65536 /\ pixels_ok (w * h) px
  | CLinked o =>
      0 <= o < f_nframes f /\
      (exists c', cellat (get_row (f_cels f) o) i = Some c') /\
      forall c', cellat (get_row (f_cels f) o) i = Some c' -> is_linked c' = false
  | CTilemap tm =>
      0 <= tm_w tm < 65536 /\ 0 <= tm_h tm < 65536 /\
      exists l ts tiles,
        aget (f_layers f) i = Some l /\ l_type l = 2 /\ zfind (l_tileset l) (f_tilesets f) = Some ts /\
        tm_tiles tm = arr_of_list tiles /\ zlen tiles = tm_w tm * tm_h tm /\
        Forall (fun t => 0 <= t < ts_count ts) tiles
  end.

Record ValidW (f : file) : Prop := {
  v_parents : parents_ok f;
  v_dims : 0 <= f_width f < 65536 /\ 0 <= f_height f < 65536 /\ 0 <= f_nframes f < 65536;
  v_cels : forall fr i c, cellat (get_row (f_cels f) fr) i = Some c -> 0 <= i < num_layers f /\ cel_ok f i c;
  v_keys : forall k r, zfind k (f_cels f) = Some r -> 0 <= k < f_nframes f;
  v_tilesets : forall k ts, zfind k (f_tilesets f) = Some ts -> ts_ok ts }.
End ValidDef.

Definition Valid : file -> Prop := ValidW (fun _ => True).

(* ------------------------------------------------------------------ *)
(* what the validation functions return *)

Lemma validate_pixels_spec pal fmt bg rp px : validate_pixels pal fmt bg rp = Ok px ->
  match rp with
  | RPRgba l => px = PRgba (arr_of_list l)
  | RPGray l => px = PGray (arr_of_list l)
  | RPIndexed l => exists m t, pal = Some m /\ fmt = FIndexed t /\ px = PIndexed m t bg (arr_of_list l) /\
                               forallb (fun i => is_some (zfind i m)) l = true
  end.
Proof.
  unfold validate_pixels. destruct rp as [l|l|l]; try (intros [= <-]; reflexivity).
  destruct pal as [m|]; [|discriminate]. destruct (forallb _ l) eqn:E; [|discriminate].
  destruct fmt as [| |t]; try discriminate. intros [= <-]. exists m, t. repeat split. exact E.
Qed.

Lemma validate_pixels_ok W pal fmt bg rp px : (forall m, pal = Some m -> pal_wf m) ->
  validate_pixels pal fmt bg rp = Ok px -> rawpx_W W rp -> pixels_ok W (rawpx_len rp) px.
Proof.
  intros Hpal H HW. apply validate_pixels_spec in H. destruct rp as [l|l|l]; cbn [rawpx_len rawpx_W] in *.
  - subst px. exists l. repeat split; [exact HW].
  - subst px. exists l. repeat split; [exact HW].
  - destruct H as (m & t & -> & -> & -> & E). exists l. split; [reflexivity|]. split; [reflexivity|]. split; [|apply Hpal; reflexivity].
    apply Forall_forall. intros i Hi. rewrite forallb_forall in E. specialize (E i Hi).
    destruct (zfind i m) as [e|]; [eauto|discriminate].
Qed.

Lemma rfold_inv {A B} (P : B -> Prop) (g : B -> A -> res B) : forall l b b',
  (forall b x b', P b -> In x l -> g b x = Ok b' -> P b') -> P b -> rfold g l b = Ok b' -> P b'.
Proof.
  induction l as [|x t IH]; intros b b' Hg Hb; cbn [rfold].
  - intros [= <-]. exact Hb.
  - destruct (g b x) as [b1|e|s] eqn:E; cbn [rbind]; try discriminate. apply IH.
    + intros b0 x0 b0' H0 Hin. apply Hg; [exact H0|right; exact Hin].
    + eapply Hg; [exact Hb|left; reflexivity|exact E].
Qed.

(* every validated tileset comes from a raw one with pixels *)
Lemma validate_tilesets_spec pal fmt m tss : validate_tilesets pal fmt m = Ok tss ->
  forall k ts, zfind k tss = Some ts ->
    exists k' t rp px, zfind k' m = Some t /\ ts_pixels t = Some rp /\
      validate_pixels pal fmt false rp = Ok px /\ ts = set_ts_pixels t (Some px).
Proof.
  unfold validate_tilesets. intros H.
  eapply (rfold_inv (fun acc => forall k ts, zfind k acc = Some ts ->
           exists k' t rp px, zfind k' m = Some t /\ ts_pixels t = Some rp /\
             validate_pixels pal fmt false rp = Ok px /\ ts = set_ts_pixels t (Some px))); [| |exact H].
  - intros acc [k0 t0] acc' Hacc Hin. cbn [fst snd]. unfold validate_tileset.
    destruct (ts_pixels t0) as [rp|] eqn:Ep; cbn [rbind]; [|discriminate].
    destruct (validate_pixels pal fmt false rp) as [px| |] eqn:Ev; cbn [rbind]; try discriminate. intros [= <-].
    intros k ts Hk. apply zfind_zadd_cases in Hk. destruct Hk as [->|Hk]; [|exact (Hacc k ts Hk)].
    exists k0, t0, rp, px. apply in_zelements in Hin. repeat split; assumption.
  - intros k ts Hk. rewrite zfind_zempty in Hk. discriminate.
Qed.

Lemma validate_layers_spec ls tss u : validate_layers ls tss = Ok u ->
  forall l, In l ls -> l_type l = 2 -> exists ts, zfind (l_tileset l) tss = Some ts.
Proof.
  unfold validate_layers. destruct (forallb _ ls) eqn:E; [|discriminate]. intros _ l Hl Ht.
  rewrite forallb_forall in E. specialize (E l Hl). rewrite Ht in E. cbn [Z.eqb Pos.eqb] in E.
  destruct (zfind (l_tileset l) tss) as [ts|]; [eauto|discriminate].
Qed.

Lemma arr_max_spec : forall l acc m, arr_max l acc = Some m ->
  (forall x, In x l -> x <= m) /\ (forall a, acc = Some a -> a <= m).
Proof.
  induction l as [|x t IH]; intros acc m; cbn [arr_max].
  - intros ->. split; [intros x []|]. intros a [= ->]. lia.
  - intros H. apply IH in H. destruct H as [H1 H2]. split.
    + intros y [<-|Hy]; [|apply H1; exact Hy]. destruct acc as [a|]; [specialize (H2 _ eq_refl); lia|exact (H2 _ eq_refl)].
    + intros a ->. specialize (H2 _ eq_refl). lia.
Qed.

Lemma arr_max_some_acc : forall l a, arr_max l (Some a) <> None.
Proof. induction l as [|x t IH]; intros a; cbn [arr_max]; [discriminate|apply IH]. Qed.

Lemma arr_max_none l : arr_max l None = None -> l = [].
Proof. destruct l as [|x t]; cbn [arr_max]; [reflexivity|]. intros H. exfalso. exact (arr_max_some_acc _ _ H). Qed.

(* the kind of content is kept *)
Definition content_rel {P Q} (a : celcontent P) (b : celcontent Q) : Prop :=
  match a, b with
  | CRaw w h _, CRaw w' h' _ => w = w' /\ h = h'
  | CLinked o, CLinked o' => o = o'
  | CTilemap tm, CTilemap tm' => tm = tm'
  | _, _ => False
  end.

Lemma validate_cel_spec layers tss pal fmt t nframes nlayers id c c' :
  validate_cel layers tss pal fmt t nframes nlayers id c = Ok c' ->
  c_data c' = c_data c /\ content_rel (c_content c) (c_content c') /\
  match c_content c, c_content c' with
  | CRaw _ _ rp, CRaw _ _ px => exists l, aget layers id = Some l /\ validate_pixels pal fmt (layer_is_background l) rp = Ok px
  | CLinked o, _ => o < nframes /\ exists c0, nthz (get_row t o) id = Some (Some c0) /\ is_linked c0 = false
  | CTilemap tm, _ =>
      exists l, aget layers id = Some l /\ l_type l = 2 /\
        forall x, In x (arr_to_list (tm_tiles tm)) ->
          x < match zfind (l_tileset l) tss with Some ts => ts_count ts | None => 0 end
  | _, _ => True
  end.
Proof.
  unfold validate_cel. destruct (c_content c) as [w h rp|o|tm].
  - destruct (aget layers id) as [l|]; cbn [rbind]; [|discriminate].
    destruct (validate_pixels pal fmt (layer_is_background l) rp) as [px| |] eqn:Ev; cbn [rbind]; try discriminate.
    intros [= <-]. cbn [c_data c_content content_rel]. split; [reflexivity|]. split; [split; reflexivity|]. exists l. split; [reflexivity|exact Ev].
  - destruct ((o <? nframes) && (id <? nlayers)) eqn:E; cbn [rbind]; [|discriminate].
    apply andb_prop in E. destruct E as [E1 _]. apply Z.ltb_lt in E1.
    unfold table_cel. destruct ((o <? 0) || (nframes <=? o)); cbn [rbind]; [discriminate|].
    destruct (nthz (get_row t o) id) as [[c0|]|] eqn:En; cbn [rbind]; try discriminate.
    destruct (is_linked c0) eqn:El; cbn [rbind]; [discriminate|]. intros [= <-]. cbn [c_data c_content content_rel].
    split; [reflexivity|]. split; [reflexivity|]. split; [exact E1|]. exists c0. split; [reflexivity|exact El].
  - destruct (aget layers id) as [l|]; cbn [rbind]; [|discriminate].
    destruct (Z.eqb_spec (l_type l) 2) as [Et|Et]; cbn [rbind]; [|discriminate].
    destruct (arr_max (arr_to_list (tm_tiles tm)) None) as [mx|] eqn:Em; cbn [rbind].
    + destruct (Z.leb_spec (match zfind (l_tileset l) tss with Some ts => ts_count ts | None => 0 end) mx) as [Hle|Hlt]; cbn [rbind]; [discriminate|].
      intros [= <-]. cbn [c_data c_content content_rel]. split; [reflexivity|]. split; [reflexivity|]. exists l. split; [reflexivity|]. split; [exact Et|].
      intros x Hx. apply arr_max_spec in Em. destruct Em as [Hm _]. specialize (Hm x Hx). lia.
    + intros [= <-]. cbn [c_data c_content content_rel]. split; [reflexivity|]. split; [reflexivity|]. exists l. split; [reflexivity|]. split; [exact Et|].
      apply arr_max_none in Em. rewrite Em. intros x [].
Qed.

Lemma validate_row_spec layers tss pal fmt t nframes nlayers : forall r id r', 0 <= id ->
  validate_row layers tss pal fmt t nframes nlayers r id = Ok r' ->
  forall i c', nthz r' i = Some (Some c') ->
    exists c, nthz r i = Some (Some c) /\ validate_cel layers tss pal fmt t nframes nlayers (id + i) c = Ok c'.
Proof.
  induction r as [|oc rest IH]; intros id r' Hid; cbn [validate_row].
  - intros [= <-] i c' Hi. apply nthz_some in Hi. unfold zlen in Hi. cbn [length] in Hi. lia.
  - destruct oc as [c|].
    + destruct (validate_cel layers tss pal fmt t nframes nlayers id c) as [c1| |] eqn:Ec; cbn [rbind]; try discriminate.
      destruct (validate_row layers tss pal fmt t nframes nlayers rest (id + 1)) as [rest'| |] eqn:Er; cbn [rbind]; try discriminate.
      intros [= <-] i c' Hi. destruct (Z.eq_dec i 0) as [->|Hne].
      * rewrite nthz_cons_0 in Hi. injection Hi as <-. exists c. rewrite nthz_cons_0, Z.add_0_r. split; [reflexivity|exact Ec].
      * pose proof (nthz_some _ _ _ Hi) as Hr. rewrite nthz_cons_pos in Hi by lia.
        destruct (IH (id + 1) rest' ltac:(lia) Er (i - 1) c' Hi) as (c0 & H1 & H2). exists c0. rewrite nthz_cons_pos by lia.
        split; [exact H1|]. replace (id + i) with (id + 1 + (i - 1)) by lia. exact H2.
    + cbn [rbind]. destruct (validate_row layers tss pal fmt t nframes nlayers rest (id + 1)) as [rest'| |] eqn:Er; cbn [rbind]; try discriminate.
      intros [= <-] i c' Hi. destruct (Z.eq_dec i 0) as [->|Hne].
      * rewrite nthz_cons_0 in Hi. discriminate.
      * pose proof (nthz_some _ _ _ Hi) as Hr. rewrite nthz_cons_pos in Hi by lia.
        destruct (IH (id + 1) rest' ltac:(lia) Er (i - 1) c' Hi) as (c0 & H1 & H2). exists c0. rewrite nthz_cons_pos by lia.
        split; [exact H1|]. replace (id + i) with (id + 1 + (i - 1)) by lia. exact H2.
Qed.

(* every validated row comes from the raw row under the same frame key *)
Lemma validate_cels_spec layers tss pal fmt t nframes nlayers cels :
  validate_cels layers tss pal fmt t nframes nlayers = Ok cels ->
  forall k r', zfind k cels = Some r' ->
    exists r, zfind k t = Some r /\ validate_row layers tss pal fmt t nframes nlayers r 0 = Ok r'.
Proof.
  unfold validate_cels. intros H.
  eapply (rfold_inv (fun acc => forall k r', zfind k acc = Some r' ->
           exists r, zfind k t = Some r /\ validate_row layers tss pal fmt t nframes nlayers r 0 = Ok r')); [| |exact H].
  - intros acc [k0 r0] acc' Hacc Hin. cbn [fst snd].
    destruct (validate_row layers tss pal fmt t nframes nlayers r0 0) as [r1| |] eqn:Er; cbn [rbind]; try discriminate. intros [= <-].
    apply in_zelements in Hin. pose proof (zfind_some_nonneg _ _ _ Hin) as Hk0.
    intros k r' Hk. apply zfind_zadd_key in Hk; [|exact Hk0]. destruct Hk as [[-> ->]|[_ Hk]]; [|exact (Hacc k r' Hk)].
    exists r0. split; [exact Hin|exact Er].
  - intros k r' Hk. rewrite zfind_zempty in Hk. discriminate.
Qed.

(* the converse of in_zelements *)
Lemma zelements_complete {A} k (v : A) m : zfind k m = Some v -> In (k, v) (zelements m).
Proof.
  intros H. pose proof (zfind_some_nonneg _ _ _ H) as Hk. unfold zelements. apply in_flat_map. exists k. split.
  - unfold zkeys. eapply Permutation.Permutation_in; [apply ZSort.Permuted_sort|].
    apply in_map_iff. exists (akey k, v). split.
    + cbn [fst]. unfold akey. rewrite Z2Pos.id by lia. lia.
    + apply PositiveMap.elements_correct. unfold zfind in H. destruct (Z.ltb_spec k 0); [lia|]. exact H.
  - rewrite H. left. reflexivity.
Qed.

Section FoldComplete.
Context {A B : Type}.
Variable g : A -> res B.
Let step := fun (acc : zmap B) (kv : Z * A) => r <-- g (snd kv) ;;; Ok (zadd (fst kv) r acc).

Lemma fold_other_keys : forall l acc acc' k, 0 <= k ->
  (forall kv, In kv l -> 0 <= fst kv /\ fst kv <> k) -> rfold step l acc = Ok acc' -> zfind k acc' = zfind k acc.
Proof.
  induction l as [|[k0 v0] t IH]; intros acc acc' k Hk Hl; cbn [rfold].
  - intros [= <-]. reflexivity.
  - unfold step at 1. cbn [fst snd]. destruct (g v0) as [r0| |]; cbn [rbind]; try discriminate. intros H.
    rewrite (IH _ _ k Hk (fun kv Hkv => Hl kv (or_intror Hkv)) H).
    destruct (Hl (k0, v0) (or_introl eq_refl)) as [H0 Hne]. cbn [fst] in *. apply zfind_zadd_other; lia.
Qed.

(* every listed binding ends up in the result, validated *)
Lemma fold_complete : forall l acc acc',
  (forall kv, In kv l -> 0 <= fst kv) ->
  (forall k v v', In (k, v) l -> In (k, v') l -> v = v') ->
  rfold step l acc = Ok acc' ->
  forall k v, In (k, v) l -> exists r, zfind k acc' = Some r /\ g v = Ok r.
Proof.
  induction l as [|[k0 v0] t IH]; intros acc acc' Hnn Hfun; cbn [rfold]; [intros _ k v []|].
  unfold step at 1. cbn [fst snd]. destruct (g v0) as [r0| |] eqn:Eg; cbn [rbind]; try discriminate. intros H k v Hin.
  assert (Htail : forall k v, In (k, v) t -> exists r, zfind k acc' = Some r /\ g v = Ok r).
  { apply (IH _ _ (fun kv Hkv => Hnn kv (or_intror Hkv))
               (fun k1 v1 v1' H1 H2 => Hfun k1 v1 v1' (or_intror H1) (or_intror H2)) H). }
  destruct Hin as [[= <- <-]|Hin]; [|exact (Htail k v Hin)].
  destruct (in_dec Z.eq_dec k0 (map fst t)) as [Hk|Hk].
  - apply in_map_iff in Hk. destruct Hk as ([k1 v1] & E & Hin1). cbn [fst] in E. subst k1.
    rewrite (Hfun k0 v0 v1 (or_introl eq_refl) (or_intror Hin1)). exact (Htail k0 v1 Hin1).
  - pose proof (Hnn (k0, v0) (or_introl eq_refl)) as Hk0. cbn [fst] in Hk0.
    assert (Hoth : forall kv, In kv t -> 0 <= fst kv /\ fst kv <> k0).
    { intros kv Hkv. split; [apply Hnn; right; exact Hkv|]. intros E. apply Hk. apply in_map_iff. exists kv. split; [exact E|exact Hkv]. }
    exists r0. split; [|exact Eg]. rewrite (fold_other_keys t _ _ k0 Hk0 Hoth H). apply zfind_zadd_same. exact Hk0.
Qed.
End FoldComplete.

(* every raw row appears validated under the same frame key *)
Lemma validate_cels_complete layers tss pal fmt t nframes nlayers cels :
  validate_cels layers tss pal fmt t nframes nlayers = Ok cels ->
  forall k r, zfind k t = Some r ->
    exists r', zfind k cels = Some r' /\ validate_row layers tss pal fmt t nframes nlayers r 0 = Ok r'.
Proof.
  unfold validate_cels. intros H k r Hk.
  apply (fold_complete (fun r => validate_row layers tss pal fmt t nframes nlayers r 0) (zelements t) zempty cels); [| |exact H|].
  - intros [k0 v0] Hin. apply in_zelements in Hin. cbn [fst]. exact (zfind_some_nonneg _ _ _ Hin).
  - intros k0 v v' H1 H2. apply in_zelements in H1. apply in_zelements in H2. congruence.
  - apply zelements_complete. exact Hk.
Qed.

Lemma validate_row_complete layers tss pal fmt t nframes nlayers : forall r id r', 0 <= id ->
  validate_row layers tss pal fmt t nframes nlayers r id = Ok r' ->
  forall i c, nthz r i = Some (Some c) ->
    exists c', nthz r' i = Some (Some c') /\ validate_cel layers tss pal fmt t nframes nlayers (id + i) c = Ok c'.
Proof.
  induction r as [|oc rest IH]; intros id r' Hid; cbn [validate_row].
  - intros _ i c Hi. apply nthz_some in Hi. unfold zlen in Hi. cbn [length] in Hi. lia.
  - destruct oc as [c0|].
    + destruct (validate_cel layers tss pal fmt t nframes nlayers id c0) as [c1| |] eqn:Ec; cbn [rbind]; try discriminate.
      destruct (validate_row layers tss pal fmt t nframes nlayers rest (id + 1)) as [rest'| |] eqn:Er; cbn [rbind]; try discriminate.
      intros [= <-] i c Hi. destruct (Z.eq_dec i 0) as [->|Hne].
      * rewrite nthz_cons_0 in Hi. injection Hi as <-. exists c1. rewrite nthz_cons_0, Z.add_0_r. split; [reflexivity|exact Ec].
      * pose proof (nthz_some _ _ _ Hi) as Hr. rewrite nthz_cons_pos in Hi by lia.
        destruct (IH (id + 1) rest' ltac:(lia) Er (i - 1) c Hi) as (c' & H1 & H2). exists c'. rewrite nthz_cons_pos by lia.
        split; [exact H1|]. replace (id + i) with (id + 1 + (i - 1)) by lia. exact H2.
    + cbn [rbind]. destruct (validate_row layers tss pal fmt t nframes nlayers rest (id + 1)) as [rest'| |] eqn:Er; cbn [rbind]; try discriminate.
      intros [= <-] i c Hi. destruct (Z.eq_dec i 0) as [->|Hne].
      * rewrite nthz_cons_0 in Hi. discriminate.
      * pose proof (nthz_some _ _ _ Hi) as Hr. rewrite nthz_cons_pos in Hi by lia.
        destruct (IH (id + 1) rest' ltac:(lia) Er (i - 1) c Hi) as (c' & H1 & H2). exists c'. rewrite nthz_cons_pos by lia.
        split; [exact H1|]. replace (id + i) with (id + 1 + (i - 1)) by lia. exact H2.
Qed.

(* a cel found in a table sits in a stored row *)
Lemma cellat_get_row (t : celtable pixels) fr i c : cellat (get_row t fr) i = Some c ->
  exists r, zfind fr t = Some r /\ nthz r i = Some (Some c).
Proof.
  unfold cellat, get_row. destruct (zfind fr t) as [r|].
  - destruct (nthz r i) as [oc|] eqn:E; [|discriminate]. intros ->. exists r. split; [reflexivity|exact E].
  - destruct (nthz [None] i) as [oc|] eqn:E; [|discriminate]. intros ->. exfalso. exact (nthz_single_none _ _ E).
Qed.

Lemma nthz_get_row_cellat (t : celtable pixels) fr i c : nthz (get_row t fr) i = Some (Some c) -> cellat (get_row t fr) i = Some c.
Proof. intros H. unfold cellat. rewrite H. reflexivity. Qed.

Lemma is_linked_rel {P Q} (a : cel P) (b : cel Q) : content_rel (c_content a) (c_content b) -> is_linked b = is_linked a.
Proof. unfold is_linked. destruct (c_content a), (c_content b); cbn [content_rel]; intros H; try contradiction; reflexivity. Qed.

Lemma Forall_in_arr_to_list {A} (l : list A) (P : A -> Prop) :
  (forall x, In x (arr_to_list (arr_of_list l)) -> P x) -> Forall P l.
Proof. rewrite arr_to_list_of_list. intros H. apply Forall_forall. exact H. Qed.

(* ------------------------------------------------------------------ *)
(* validate establishes the invariant *)

Section Establish.
Variable W : Z -> Prop.

Theorem validate_valid h p f :
  PInv W p -> pi_nframes p = h_frames h -> hdr_ok h -> validate h p = Ok f -> ValidW W f.
Proof.
  intros HP Hnf Hh Hv. pose proof (validate_parents_ok _ _ _ Hv) as Hpar.
  destruct HP as [P1 P2 P3 P4 P5]. unfold validate in Hv; rewrite ?frev_eq in Hv.
  destruct (compute_parents (rev (pi_layers_rev p))) as [ps| |] eqn:Hc; cbn [rbind] in Hv; try discriminate.
  destruct (validate_tilesets (pi_palette p) (h_fmt h) (pi_tilesets p)) as [tss| |] eqn:Ht; cbn [rbind] in Hv; try discriminate.
  destruct (validate_layers (rev (pi_layers_rev p)) tss) as [u| |] eqn:Hl; cbn [rbind] in Hv; try discriminate.
  destruct (validate_cels (arr_of_list (rev (pi_layers_rev p))) tss (pi_palette p) (h_fmt h) (pi_cels p)
              (pi_nframes p) (pi_nlayers p)) as [cels| |] eqn:Hcels; cbn [rbind] in Hv; try discriminate.
  injection Hv as Hf.
  set (ls := rev (pi_layers_rev p)) in *.
  assert (Ew : f_width f = h_width h) by (rewrite <- Hf; reflexivity).
  assert (Ehh : f_height f = h_height h) by (rewrite <- Hf; reflexivity).
  assert (Enf : f_nframes f = h_frames h) by (rewrite <- Hf; reflexivity).
  assert (Ely : f_layers f = arr_of_list ls) by (rewrite <- Hf; reflexivity).
  assert (Ecl : f_cels f = cels) by (rewrite <- Hf; reflexivity).
  assert (Ets : f_tilesets f = tss) by (rewrite <- Hf; reflexivity).
  clear Hf.
  assert (Hnl : pi_nlayers p = zlen ls) by (subst ls; rewrite zlen_rev; exact P1).
  (* tilesets *)
  assert (Htss : forall k ts, zfind k tss = Some ts -> ts_ok W ts).
  { intros k ts Hk. destruct (validate_tilesets_spec _ _ _ _ Ht k ts Hk) as (k' & t & rp & px & Hk' & Hrp & Hpx & ->).
    destruct (P4 k' t Hk') as (Hw & Hhh & Hcnt & Hpix). destruct (Hpix rp Hrp) as (Hbig & Hlen & HW).
    unfold ts_ok, set_ts_pixels. cbn [ts_w ts_h ts_count ts_pixels]. repeat split; try lia.
    exists px. split; [reflexivity|]. rewrite <- Hlen. eapply validate_pixels_ok; [exact P5|exact Hpx|exact HW]. }
  (* provenance of a validated cel *)
  assert (Hprov : forall fr i c', cellat (get_row cels fr) i = Some c' ->
            exists r c, zfind fr (pi_cels p) = Some r /\ nthz r i = Some (Some c) /\
              validate_cel (arr_of_list ls) tss (pi_palette p) (h_fmt h) (pi_cels p) (pi_nframes p) (pi_nlayers p) i c = Ok c').
  { intros fr i c' Hc'. apply cellat_get_row in Hc'. destruct Hc' as (r' & Hr' & Hi).
    destruct (validate_cels_spec _ _ _ _ _ _ _ _ Hcels fr r' Hr') as (r & Hr & Hrow).
    destruct (validate_row_spec _ _ _ _ _ _ _ r 0 r' ltac:(lia) Hrow i c' Hi) as (c & Hci & Hcel).
    rewrite Z.add_0_l in Hcel. exists r, c. repeat split; assumption. }
  split; unfold num_layers, cel_ok; rewrite ?Ew, ?Ehh, ?Enf, ?Ely, ?Ecl, ?Ets.
  - exact Hpar.
  - destruct Hh as (H1 & H2 & H3). repeat split; lia.
  - intros fr i c' Hc'. destruct (Hprov fr i c' Hc') as (r & c & Hr & Hci & Hcel).
    destruct (P3 fr r Hr) as [Hfr Hrow]. destruct (Hrow i c Hci) as (Hi & Hlay & Hraw).
    pose proof (nthz_some _ _ _ Hci) as Hirange. rewrite alen_arr_of_list, <- Hnl. split; [lia|].
    destruct (validate_cel_spec _ _ _ _ _ _ _ _ _ _ Hcel) as (Hdata & Hrel & Hmore).
    rewrite Hdata. split; [exact Hlay|]. destruct Hraw as [_ Hraw].
    destruct (c_content c) as [w hh rp|o|tm] eqn:Ec, (c_content c') as [w' hh' px|o'|tm'] eqn:Ec'; cbn [content_rel] in Hrel; try contradiction.
    + destruct Hrel as [<- <-]. destruct Hraw as (Hw & Hhh & Hlen & HW). destruct Hmore as (l & _ & Hpx).
      split; [exact Hw|]. split; [exact Hhh|]. rewrite <- Hlen. eapply validate_pixels_ok; [exact P5|exact Hpx|exact HW].
    + subst o'. destruct Hmore as (Ho & c0 & Hc0 & Hl0). split; [lia|]. split.
      { assert (Hr0 : exists r0, zfind o (pi_cels p) = Some r0 /\ nthz r0 i = Some (Some c0)).
        { unfold get_row in Hc0. destruct (zfind o (pi_cels p)) as [r0|]; [eauto|]. exfalso. exact (nthz_single_none _ _ Hc0). }
        destruct Hr0 as (r0 & Hr0 & Hc0').
        destruct (validate_cels_complete _ _ _ _ _ _ _ _ Hcels o r0 Hr0) as (r0' & Hr0' & Hrow0).
        destruct (validate_row_complete _ _ _ _ _ _ _ r0 0 r0' ltac:(lia) Hrow0 i c0 Hc0') as (c0' & Hc0'' & _).
        exists c0'. unfold cellat, get_row. rewrite Hr0', Hc0''. reflexivity. }
      intros c'' Hc''. destruct (Hprov o i c'' Hc'') as (r2 & c2 & Hr2 & Hc2 & Hcel2).
      destruct (validate_cel_spec _ _ _ _ _ _ _ _ _ _ Hcel2) as (_ & Hrel2 & _).
      rewrite (is_linked_rel _ _ Hrel2). unfold get_row in Hc0. rewrite Hr2 in Hc0. rewrite Hc2 in Hc0. injection Hc0 as <-. exact Hl0.
    + subst tm'. destruct Hraw as (Hw & Hhh & tiles & Etiles & Hlen & Hnn). destruct Hmore as (l & Hlyr & Hty & Hlt).
      split; [exact Hw|]. split; [exact Hhh|].
      assert (Hin : In l ls). { rewrite aget_arr_of_list in Hlyr. eapply nthz_In. exact Hlyr. }
      destruct (validate_layers_spec _ _ _ Hl _ Hin Hty) as [ts Hts]. exists l, ts, tiles.
      repeat split; try assumption. rewrite Hts in Hlt. rewrite Etiles in Hlt.
      apply Forall_forall. intros x Hx. rewrite Forall_forall in Hnn. specialize (Hnn x Hx).
      rewrite arr_to_list_of_list in Hlt. specialize (Hlt x Hx). lia.
  - intros k r' Hk. destruct (validate_cels_spec _ _ _ _ _ _ _ _ Hcels k r' Hk) as (r & Hr & _).
    destruct (P3 k r Hr) as [Hlt _]. pose proof (zfind_some_nonneg _ _ _ Hr). lia.
  - exact Htss.
Qed.

End Establish.

(* ------------------------------------------------------------------ *)
(* a successful load gives a valid file *)

Section Load.
Variable inflate : list Z -> Z -> zres.

Lemma load_ok_inv bs f : load inflate bs = Ok f ->
  exists h p rest, run (parse_file inflate) bs = Ok ((h, p), rest) /\ validate h p = Ok f.
Proof.
  unfold load, load_rest.
  destruct (run (parse_file inflate) bs) as [[[h p] r]|e|s]; cbn [rbind rmap fst snd]; try discriminate.
  destruct (validate h p) as [f'|e|s] eqn:V; cbn [rbind]; try discriminate.
  intros [= <-]. exists h, p, r. split; [reflexivity|exact V].
Qed.

Theorem load_valid bs f : Forall is_byte bs -> load inflate bs = Ok f -> Valid f.
Proof.
  intros Hb HL. destruct (load_ok_inv _ _ HL) as (h & p & rest & Hr & Hv).
  destruct (parse_file_inv inflate (fun _ => True) (fun _ _ => I)
              (fun z n out _ => proj2 (Forall_forall _ out) (fun _ _ => I)) bs h p rest Hb Hr) as (HP & Hn & Hh).
  eapply validate_valid; eassumption.
Qed.

(* with an inflate that returns bytes, every stored channel value is a byte *)
Definition inflate_bytes : Prop := forall z n out, inflate z n = ZOk out -> Forall is_byte out.

Theorem load_valid_bytes bs f : inflate_bytes -> Forall is_byte bs -> load inflate bs = Ok f -> ValidW is_byte f.
Proof.
  intros Hinf Hb HL. destruct (load_ok_inv _ _ HL) as (h & p & rest & Hr & Hv).
  destruct (parse_file_inv inflate is_byte (fun _ H => H) Hinf bs h p rest Hb Hr) as (HP & Hn & Hh).
  eapply validate_valid; eassumption.
Qed.

End Load.

(* weakening of the pixel predicate *)
Lemma pixels_ok_weaken (W W' : Z -> Prop) n px : (forall z, W z -> W' z) -> pixels_ok W n px -> pixels_ok W' n px.
Proof.
  intros HW. destruct px as [a|a|pal t bg a]; cbn [pixels_ok].
  - intros (l & H1 & H2 & H3). exists l. repeat split; try assumption. eapply Forall_impl; [|exact H3].
    intros [[[r g] b] al]. cbn [pixW]. intros (Q1 & Q2 & Q3 & Q4). repeat split; apply HW; assumption.
  - intros (l & H1 & H2 & H3). exists l. repeat split; try assumption. eapply Forall_impl; [|exact H3].
    intros [v al]. unfold grayW. cbn [fst snd]. intros [Q1 Q2]. split; apply HW; assumption.
  - intros H. exact H.
Qed.

Lemma ValidW_weaken (W W' : Z -> Prop) f : (forall z, W z -> W' z) -> ValidW W f -> ValidW W' f.
Proof.
  intros HW [V1 V2 V3 V4 V5]. split; try assumption.
  - intros fr i c Hc. destruct (V3 fr i c Hc) as [Hi [Hl Hc']]. split; [exact Hi|]. split; [exact Hl|].
    destruct (c_content c) as [w h px|o|tm]; try exact Hc'. destruct Hc' as (Q1 & Q2 & Q3).
    split; [exact Q1|]. split; [exact Q2|]. eapply pixels_ok_weaken; eassumption.
  - intros k ts Hk. destruct (V5 k ts Hk) as (Q1 & Q2 & Q3 & Q4 & px & Q5 & Q6).
    unfold ts_ok. repeat split; try lia. exists px. split; [exact Q5|]. eapply pixels_ok_weaken; eassumption.
Qed.
