(* C08: tilemap and tileset views (AsepriteFile::tilemap, Tilemap::{tile, tile_offsets, image},
   Tileset::{tile_image, image}). *)
From Ase Require Import Base.Prelude Model.Render Proofs.ArrLemmas Proofs.ImageLemmas Proofs.RenderRaw
     Proofs.Layers Proofs.RenderFrame Spec.Compose.

(* ------------------------------------------------------------------ *)
(* arithmetic *)

(* (a + b - 1) / b is the ceiling of a / b *)
Lemma ceil_div_spec a b : 0 < b -> (((a + b - 1) / b) - 1) * b < a <= ((a + b - 1) / b) * b.
Proof.
  intros Hb. pose proof (Z.mul_div_le (a + b - 1) b Hb) as H1. pose proof (Z.mul_succ_div_gt (a + b - 1) b Hb) as H2.
  unfold Z.succ in H2. rewrite Z.mul_add_distr_l, Z.mul_1_r in H2.
  rewrite Z.mul_sub_distr_r, Z.mul_1_l. rewrite (Z.mul_comm ((a + b - 1) / b) b). lia.
Qed.

Lemma div_range a b n : 0 < b -> (0 <= a < n * b <-> 0 <= a / b < n).
Proof.
  intros Hb. split.
  - intros (H0 & H1). split; [apply Z.div_pos; lia|]. apply Z.div_lt_upper_bound; [exact Hb|]. rewrite Z.mul_comm. exact H1.
  - intros (H0 & H1). pose proof (Z.mul_div_le a b Hb) as L1. pose proof (Z.mul_succ_div_gt a b Hb) as L2.
    unfold Z.succ in L2.
    assert (M0 : 0 <= b * (a / b)) by (apply Z.mul_nonneg_nonneg; lia).
    assert (M1 : b * (a / b + 1) <= b * n) by (apply Z.mul_le_mono_nonneg_l; lia).
    rewrite (Z.mul_comm n b). lia.
Qed.

Lemma div_sub_mul a k b : 0 < b -> (a - k * b) / b = a / b - k.
Proof. intros Hb. replace (a - k * b) with (a + (- k) * b) by lia. rewrite Z.div_add by lia. lia. Qed.

Lemma mod_sub_mul a k b : 0 < b -> (a - k * b) mod b = a mod b.
Proof. intros Hb. replace (a - k * b) with (a + (- k) * b) by lia. apply Z.mod_add. lia. Qed.

(* ------------------------------------------------------------------ *)
(* firstn_z / skipn_z *)

Lemma nthz_firstn_z {A} (l : list A) : forall n k, nthz (firstn_z n l) k = if k <? n then nthz l k else None.
Proof.
  induction l as [|x t IH]; intros n k; cbn [firstn_z].
  - destruct (n <=? 0); rewrite nthz_nil; destruct (k <? n); reflexivity.
  - destruct (Z.leb_spec n 0) as [Hn|Hn].
    + rewrite nthz_nil. destruct (Z.ltb_spec k n) as [Hk|Hk]; [|reflexivity]. rewrite nthz_neg by lia. reflexivity.
    + destruct (Z.ltb_spec k 0) as [Hk|Hk].
      * rewrite !nthz_neg by exact Hk. destruct (k <? n); reflexivity.
      * destruct (Z.eq_dec k 0) as [->|Hk0].
        -- rewrite !nthz_cons_0. destruct (Z.ltb_spec 0 n); [reflexivity|lia].
        -- rewrite !(nthz_cons_pos x _ k) by lia. rewrite IH.
           destruct (Z.ltb_spec (k - 1) (n - 1)), (Z.ltb_spec k n); try reflexivity; lia.
Qed.

Lemma nthz_skipn_z {A} (l : list A) : forall n k, 0 <= n -> 0 <= k -> nthz (skipn_z n l) k = nthz l (k + n).
Proof.
  induction l as [|x t IH]; intros n k Hn Hk; cbn [skipn_z].
  - destruct (n <=? 0); rewrite !nthz_nil; reflexivity.
  - destruct (Z.leb_spec n 0) as [Hn0|Hn0].
    + replace (k + n) with k by lia. reflexivity.
    + rewrite IH by lia. rewrite (nthz_cons_pos x t (k + n)) by lia. f_equal. lia.
Qed.

Lemma zlen_firstn_z {A} (l : list A) : forall n, zlen (firstn_z n l) = Z.min (Z.max 0 n) (zlen l).
Proof.
  induction l as [|x t IH]; intros n; cbn [firstn_z].
  - destruct (n <=? 0); rewrite zlen_nil; lia.
  - destruct (Z.leb_spec n 0) as [Hn|Hn].
    + rewrite zlen_nil. pose proof (zlen_nonneg (x :: t)). lia.
    + rewrite !zlen_cons, IH. pose proof (zlen_nonneg t). lia.
Qed.

(* ------------------------------------------------------------------ *)
(* AsepriteFile::tilemap *)

Theorem tilemap_of_spec f l fr t : tilemap_of f l fr = Ok (Some t) ->
  tmv_frame t = fr /\ tmv_layer t = l /\
  0 <= l < num_layers f /\ 0 <= fr < num_frames f /\
  (exists lay, layer_get f l = Ok lay /\ l_type lay = 2 /\ zfind (l_tileset lay) (f_tilesets f) = Some (tmv_ts t)) /\
  cel_is_tilemap f (fr, l) = Ok true /\
  ts_w (tmv_ts t) <> 0 /\ ts_h (tmv_ts t) <> 0 /\
  tmv_w t = (f_width f + ts_w (tmv_ts t) - 1) / ts_w (tmv_ts t) /\
  tmv_h t = (f_height f + ts_h (tmv_ts t) - 1) / ts_h (tmv_ts t) /\
  tmv_w t < 65536 /\ tmv_h t < 65536.
Proof.
  unfold tilemap_of.
  destruct (Z.ltb_spec l 0), (Z.leb_spec (num_layers f) l), (Z.ltb_spec fr 0), (Z.leb_spec (num_frames f) fr);
    cbn [orb]; try discriminate.
  intros E. apply rbind_ok_inv in E as (lay & Elay & E).
  destruct (Z.eqb_spec (l_type lay) 2) as [Ety|Ety]; cbn [negb] in E; [|discriminate].
  destruct (zfind (l_tileset lay) (f_tilesets f)) as [ts|] eqn:Ez; [|discriminate].
  apply rbind_ok_inv in E as (is_tm & Etm & E). destruct is_tm; cbn [negb] in E; [|discriminate].
  destruct (Z.eqb_spec (ts_w ts) 0), (Z.eqb_spec (ts_h ts) 0); cbn [orb] in E; try discriminate.
  destruct (Z.leb_spec 65536 ((f_width f + ts_w ts - 1) / ts_w ts)),
           (Z.leb_spec 65536 ((f_height f + ts_h ts - 1) / ts_h ts)); cbn [orb] in E; try discriminate.
  injection E as <-. cbn [tmv_frame tmv_layer tmv_ts tmv_w tmv_h].
  split; [reflexivity|]. split; [reflexivity|]. split; [lia|]. split; [lia|].
  split; [exists lay; split; [exact Elay|]; split; [exact Ety|exact Ez]|].
  split; [exact Etm|]. repeat split; assumption.
Qed.

(* C08_size: the size in tiles is the canvas size divided by the tile size, rounded up *)
Theorem tilemap_of_size f l fr t : tilemap_of f l fr = Ok (Some t) ->
  0 < ts_w (tmv_ts t) -> 0 < ts_h (tmv_ts t) ->
  (tmv_w t - 1) * ts_w (tmv_ts t) < f_width f <= tmv_w t * ts_w (tmv_ts t) /\
  (tmv_h t - 1) * ts_h (tmv_ts t) < f_height f <= tmv_h t * ts_h (tmv_ts t).
Proof.
  intros E Hw Hh. destruct (tilemap_of_spec f l fr t E) as (_ & _ & _ & _ & _ & _ & _ & _ & -> & -> & _).
  split; apply ceil_div_spec; assumption.
Qed.

(* C08_offsets *)
Theorem tile_offsets_spec f t ox oy : tilemap_tile_offsets f t = Ok (ox, oy) ->
  exists x y, cel_top_left f (tmv_frame t, tmv_layer t) = Ok (x, y) /\
    ts_w (tmv_ts t) <> 0 /\ ts_h (tmv_ts t) <> 0 /\
    ox = Z.quot x (ts_w (tmv_ts t)) /\ oy = Z.quot y (ts_h (tmv_ts t)).
Proof.
  unfold tilemap_tile_offsets, tilemap_pixel_offsets. intros E. apply rbind_ok_inv in E as ([x y] & Exy & E).
  destruct (Z.eqb_spec (ts_w (tmv_ts t)) 0), (Z.eqb_spec (ts_h (tmv_ts t)) 0); cbn [orb] in E; try discriminate.
  injection E as <- <-. exists x, y. repeat split; assumption.
Qed.

Theorem tile_offsets_ok f t x y : cel_top_left f (tmv_frame t, tmv_layer t) = Ok (x, y) ->
  ts_w (tmv_ts t) <> 0 -> ts_h (tmv_ts t) <> 0 ->
  tilemap_tile_offsets f t = Ok (Z.quot x (ts_w (tmv_ts t)), Z.quot y (ts_h (tmv_ts t))).
Proof.
  intros E Hw Hh. unfold tilemap_tile_offsets, tilemap_pixel_offsets. rewrite E. cbn [rbind].
  destruct (Z.eqb_spec (ts_w (tmv_ts t)) 0), (Z.eqb_spec (ts_h (tmv_ts t)) 0); cbn [orb]; try contradiction. reflexivity.
Qed.

(* C08_lookup: Tilemap::tile for every pair of integer coordinates *)
Theorem tilemap_tile_spec f t ox oy d : tilemap_tile_offsets f t = Ok (ox, oy) -> tilemap_data f t = Ok d ->
  forall x y,
    (~ (0 <= x - ox < tm_w d /\ 0 <= y - oy < tm_h d) -> tilemap_tile f t x y = Ok 0) /\
    (0 <= x - ox < tm_w d /\ 0 <= y - oy < tm_h d ->
       tilemap_tile f t x y =
       match aget (tm_tiles d) ((y - oy) * tm_w d + (x - ox)) with Some id => Ok id | None => Panic 315 end).
Proof.
  intros Eo Ed x y. unfold tilemap_tile. rewrite Eo, Ed. cbn [rbind]. cbn zeta.
  destruct (Z.ltb_spec (x - ox) 0), (Z.ltb_spec (y - oy) 0), (Z.leb_spec (tm_w d) (x - ox)), (Z.leb_spec (tm_h d) (y - oy));
    cbn [orb]; split; intros Hq; try reflexivity; exfalso; lia.
Qed.

(* ------------------------------------------------------------------ *)
(* tilesets *)

(* C08_tile_image_dims *)
Theorem tile_image_dims ts i r : tile_image ts i = Ok r ->
  0 <= i < ts_count ts /\ rw r = ts_w ts /\ rh r = ts_h ts /\
  (0 <= ts_w ts * ts_h ts -> zlen (rpx r) = ts_w ts * ts_h ts).
Proof.
  unfold tile_image. destruct (Z.ltb_spec i 0), (Z.leb_spec (ts_count ts) i); cbn [orb]; try discriminate.
  destruct (ts_pixels ts) as [px|]; [|discriminate]. intros E. apply rbind_ok_inv in E as (rgba & _ & E). cbn zeta in E.
  destruct (Z.ltb_spec (zlen (firstn_z (ts_w ts * ts_h ts) (skipn_z (i * (ts_w ts * ts_h ts)) (arr_to_list rgba)))) (ts_w ts * ts_h ts)) as [Hlt|Hge];
    [discriminate|]. injection E as <-. cbn [rw rh rpx]. split; [lia|]. split; [reflexivity|]. split; [reflexivity|].
  intros Hnn. rewrite zlen_firstn_z in *. lia.
Qed.

(* C08_tileset_stacked: a tile image is the i-th block of ts_w*ts_h pixels of the tileset
   image, i.e. rows i*th .. i*th+th-1 of the vertical strip *)
Theorem tileset_stacked ts full tile i : tileset_image ts = Ok full -> tile_image ts i = Ok tile ->
  0 <= ts_w ts -> 0 <= ts_h ts ->
  rw full = ts_w ts /\ rh full = ts_h ts * ts_count ts /\
  rpx tile = firstn_z (ts_w ts * ts_h ts) (skipn_z (i * (ts_w ts * ts_h ts)) (rpx full)) /\
  forall r c, 0 <= r < ts_h ts -> 0 <= c < ts_w ts ->
    nthz (rpx full) ((i * ts_h ts + r) * ts_w ts + c) = nthz (rpx tile) (r * ts_w ts + c).
Proof.
  intros Ef Et Hw Hh. pose proof (tile_image_dims ts i tile Et) as (Hi & _).
  unfold tileset_image in Ef. unfold tile_image in Et.
  destruct (Z.ltb_spec i 0), (Z.leb_spec (ts_count ts) i); cbn [orb] in Et; try discriminate.
  destruct (ts_pixels ts) as [px|]; [|discriminate].
  destruct (clone_as_rgba px) as [rgba|e|s]; cbn [rbind] in Ef, Et; try discriminate. cbn zeta in Ef, Et.
  destruct (4294967296 <=? ts_h ts * ts_count ts); [discriminate|].
  destruct (alen rgba <? ts_w ts * (ts_h ts * ts_count ts)); [discriminate|]. injection Ef as <-.
  destruct (zlen _ <? ts_w ts * ts_h ts); [discriminate|]. injection Et as <-. cbn [rw rh rpx].
  set (L := arr_to_list rgba). set (ppt := ts_w ts * ts_h ts).
  assert (Hppt : 0 <= ppt) by (apply Z.mul_nonneg_nonneg; assumption).
  assert (Hoff : 0 <= i * ppt) by (apply Z.mul_nonneg_nonneg; lia).
  assert (Hblk : (i + 1) * ppt <= ts_count ts * ppt) by (apply Z.mul_le_mono_nonneg_r; lia).
  assert (Htot : ts_w ts * (ts_h ts * ts_count ts) = ts_count ts * ppt) by (unfold ppt; ring).
  assert (Hslice : firstn_z ppt (skipn_z (i * ppt) L) =
                   firstn_z ppt (skipn_z (i * ppt) (firstn_z (ts_w ts * (ts_h ts * ts_count ts)) L))).
  { apply nthz_ext. intros k Hk. rewrite !nthz_firstn_z. destruct (Z.ltb_spec k ppt) as [Hkp|Hkp]; [|reflexivity].
    rewrite !nthz_skipn_z by lia. rewrite nthz_firstn_z.
    destruct (Z.ltb_spec (k + i * ppt) (ts_w ts * (ts_h ts * ts_count ts))); [reflexivity|].
    rewrite Z.mul_add_distr_r in Hblk. lia. }
  split; [reflexivity|]. split; [reflexivity|]. split; [exact Hslice|].
  intros r c Hr Hc.
  assert (Hrc : 0 <= r * ts_w ts + c < ppt).
  { assert (M0 : 0 <= r * ts_w ts) by (apply Z.mul_nonneg_nonneg; lia).
    assert (M1 : (r + 1) * ts_w ts <= ts_h ts * ts_w ts) by (apply Z.mul_le_mono_nonneg_r; lia).
    rewrite Z.mul_add_distr_r in M1. unfold ppt. rewrite (Z.mul_comm (ts_w ts) (ts_h ts)). lia. }
  rewrite !nthz_firstn_z. destruct (Z.ltb_spec (r * ts_w ts + c) ppt); [|lia]. rewrite nthz_skipn_z by lia.
  replace ((i * ts_h ts + r) * ts_w ts + c) with (r * ts_w ts + c + i * ppt) by (unfold ppt; ring).
  destruct (Z.ltb_spec (r * ts_w ts + c + i * ppt) (ts_w ts * (ts_h ts * ts_count ts))); [reflexivity|].
  rewrite Z.mul_add_distr_r in Hblk. lia.
Qed.

(* ------------------------------------------------------------------ *)
(* C08_image_lookup: the tilemap image against the tile lookup, for a tile-aligned cel *)

Theorem tilemap_image_lookup f l fr t img ox oy :
  render_wf f -> tilemap_of f l fr = Ok (Some t) -> tilemap_image f t = Ok img ->
  cel_top_left f (fr, l) = Ok (ox * ts_w (tmv_ts t), oy * ts_h (tmv_ts t)) ->
  exists lay c tm px,
    aget (f_layers f) l = Some lay /\ cel_at f fr l = Some c /\ c_content c = CTilemap tm /\
    ts_pixels (tmv_ts t) = Some px /\
    tilemap_tile_offsets f t = Ok (ox, oy) /\
    iw img = f_width f /\ ih img = f_height f /\
    forall x y, 0 <= x < f_width f -> 0 <= y < f_height f ->
      let tw := ts_w (tmv_ts t) in
      let th := ts_h (tmv_ts t) in
      (0 <= x / tw - ox < tm_w tm /\ 0 <= y / th - oy < tm_h tm ->
         exists id s, tilemap_tile f t (x / tw) (y / th) = Ok id /\
                      pixels_get px (tw * th * id + ((y mod th) * tw + x mod tw)) = Some s /\
                      img_get img x y = scale_alpha s (cel_opacity lay c)) /\
      (~ (0 <= x / tw - ox < tm_w tm /\ 0 <= y / th - oy < tm_h tm) ->
         tilemap_tile f t (x / tw) (y / th) = Ok 0 /\ img_get img x y = transparent).
Proof.
  intros Hwf Eof Eimg Etl.
  destruct (tilemap_of_spec f l fr t Eof) as (Hfr & Hl & Hlr & Hfrr & (lay & Elay & Ety & Ez) & Eistm & Hw0 & Hh0 & _).
  apply layer_get_inv in Elay. destruct (wf_tileset f Hwf _ _ Ez) as (Htw & Hth & _).
  set (ts := tmv_ts t) in *. set (tw := ts_w ts) in *. set (th := ts_h ts) in *.
  (* the cel *)
  unfold cel_is_tilemap in Eistm. cbn [fst snd] in Eistm. rewrite cel_lookup_in_range in Eistm by exact Hfrr.
  cbn [rbind] in Eistm. destruct (cel_at f fr l) as [c|] eqn:Ec; [|discriminate].
  destruct (c_content c) as [w h px0|target|tm] eqn:Ecc; try discriminate.
  unfold cel_top_left in Etl. cbn [fst snd] in Etl. rewrite cel_lookup_in_range in Etl by exact Hfrr. rewrite Ec in Etl.
  cbn [rbind] in Etl. injection Etl as Ecx Ecy.
  (* the image *)
  unfold tilemap_image in Eimg. rewrite Hfr, Hl in Eimg.
  pose proof Eimg as Eimg0. unfold cel_image in Eimg0. cbn [fst snd] in Eimg0. rewrite cel_lookup_in_range in Eimg0 by exact Hfrr.
  rewrite Ec in Eimg0. cbn [rbind] in Eimg0.
  destruct (write_cel_pixels f fr l c _ img Hwf Ec Eimg0) as (lay' & Hlay' & Hw & Hh & Hpx).
  rewrite Elay in Hlay'. injection Hlay' as <-. rewrite iw_img_new in *. rewrite ih_img_new in *.
  assert (Hres : resolve f c l = Some c) by (unfold resolve; rewrite Ecc; reflexivity). rewrite Hres in Hpx.
  (* the tileset pixels exist because the cel was written *)
  assert (Hpxs : exists px, ts_pixels ts = Some px).
  { unfold write_cel in Eimg0. rewrite Ecc in Eimg0. unfold write_cel_direct in Eimg0.
    rewrite (wf_cel_layer f Hwf fr l c Ec) in Eimg0. unfold layer_get in Eimg0. rewrite Elay, Ecc in Eimg0. cbn [rbind] in Eimg0.
    destruct (negb (l_type lay =? 2)); [discriminate|]. rewrite Ez in Eimg0. fold ts in Eimg0.
    destruct (ts_pixels ts) as [px|]; [eauto|discriminate]. }
  destruct Hpxs as (px & Epx).
  (* offsets and data *)
  assert (Eoff : tilemap_tile_offsets f t = Ok (ox, oy)).
  { assert (Etl' : cel_top_left f (tmv_frame t, tmv_layer t) = Ok (ox * tw, oy * th)).
    { rewrite Hfr, Hl. unfold cel_top_left. cbn [fst snd]. rewrite cel_lookup_in_range by exact Hfrr. rewrite Ec. cbn [rbind].
      rewrite Ecx, Ecy. reflexivity. }
    rewrite (tile_offsets_ok f t _ _ Etl' Hw0 Hh0). fold ts tw th. rewrite !Z.quot_mul by lia. reflexivity. }
  assert (Edata : tilemap_data f t = Ok tm).
  { unfold tilemap_data. rewrite Hfr, Hl. rewrite cel_lookup_in_range by exact Hfrr. rewrite Ec. cbn [rbind]. rewrite Ecc. reflexivity. }
  exists lay, c, tm, px. split; [exact Elay|]. split; [reflexivity|]. split; [exact Ecc|]. split; [exact Epx|].
  split; [exact Eoff|]. split; [exact Hw|]. split; [exact Hh|].
  intros x y Hx Hy. cbn zeta. specialize (Hpx x y Hx Hy). destruct Hpx as (Hpx & Hcov). rewrite img_get_new in Hpx.
  destruct (tilemap_tile_spec f t ox oy tm Eoff Edata (x / tw) (y / th)) as (Tout & Tin).
  (* cel_px and cel_covers in tile coordinates *)
  assert (Hcovers : cel_covers f lay c x y = true <-> (0 <= x / tw - ox < tm_w tm /\ 0 <= y / th - oy < tm_h tm)).
  { unfold cel_covers. rewrite Ecc, Ez. fold ts tw th. rewrite in_rect_iff, Ecx, Ecy.
    rewrite <- (div_sub_mul x ox tw Htw), <- (div_sub_mul y oy th Hth).
    rewrite <- (div_range (x - ox * tw) tw (tm_w tm) Htw), <- (div_range (y - oy * th) th (tm_h tm) Hth). lia. }
  assert (Hcelpx : cel_px f lay c x y =
            if in_rect (cc_x (c_data c)) (cc_y (c_data c)) (tm_w tm * tw) (tm_h tm * th) x y then
              match aget (tm_tiles tm) ((y / th - oy) * tm_w tm + (x / tw - ox)) with
              | Some id => pixels_get px (tw * th * id + ((y mod th) * tw + x mod tw))
              | None => None
              end
            else None).
  { unfold cel_px. rewrite Ecc, Ez. fold ts. rewrite Epx. cbn zeta. fold tw th. rewrite Ecx, Ecy.
    rewrite (div_sub_mul x ox tw Htw), (div_sub_mul y oy th Hth), (mod_sub_mul x ox tw Htw), (mod_sub_mul y oy th Hth).
    reflexivity. }
  split.
  - intros Hin. pose proof (proj2 Hcovers Hin) as Hc. specialize (Hcov Hc). rewrite Hcelpx in Hcov, Hpx.
    unfold cel_covers in Hc. rewrite Ecc, Ez in Hc. fold ts tw th in Hc. rewrite Hc in Hcov, Hpx.
    rewrite (Tin Hin).
    destruct (aget (tm_tiles tm) ((y / th - oy) * tm_w tm + (x / tw - ox))) as [id|]; [|contradiction].
    destruct (pixels_get px (tw * th * id + (y mod th * tw + x mod tw))) as [[[[r g] b] a]|] eqn:Eget; [|contradiction].
    exists id, (r, g, b, a). split; [reflexivity|]. split; [exact Eget|].
    symmetry in Hpx. apply blend_transparent_inv in Hpx. exact Hpx.
  - intros Hout. split; [exact (Tout Hout)|].
    assert (Hc : cel_covers f lay c x y = false).
    { destruct (cel_covers f lay c x y) eqn:Ecv; [|reflexivity]. exfalso. apply Hout. apply Hcovers. reflexivity. }
    destruct (cel_px f lay c x y) as [s|] eqn:Es; [|exact Hpx]. apply cel_px_covers in Es. congruence.
Qed.
