(* Inversion of successful runs of the reader primitives (what the consumed bytes were), and
   tactics to take a successful run of a decoder apart bind by bind. *)
From Ase Require Export Proofs.ITLemmas Model.Chunks.

(* ------------------------------------------------------------------ *)
(* field positions in a byte list *)

Definition byte_at (data : list Z) (off : nat) : option Z :=
  match skipn off data with a :: _ => Some a | _ => None end.
Definition word_at (data : list Z) (off : nat) : option Z :=
  match skipn off data with a :: b :: _ => Some (a + 256 * b) | _ => None end.
Definition dword_at (data : list Z) (off : nat) : option Z :=
  match skipn off data with
  | a :: b :: c :: d :: _ => Some (a + 256 * b + 65536 * c + 16777216 * d)
  | _ => None end.

(* ------------------------------------------------------------------ *)
(* inversion of the reader primitives *)

Lemma run_byte_inv bs v r : run byte bs = Ok (v, r) -> bs = v :: r.
Proof.
  unfold byte. cbn [run]. destruct (split_z 1 bs) as [[a r']|] eqn:S; [|discriminate].
  apply split_z_app in S. subst bs.
  destruct a as [|x [|y a]]; cbn [run]; try discriminate. intros [= <- <-]. reflexivity.
Qed.

Lemma run_word_inv bs v r : run word bs = Ok (v, r) -> exists a b, bs = a :: b :: r /\ v = a + 256 * b.
Proof.
  unfold word. cbn [run]. destruct (split_z 2 bs) as [[a r']|] eqn:S; [|discriminate].
  apply split_z_app in S. subst bs.
  destruct a as [|x [|y [|z a]]]; cbn [run]; try discriminate. intros [= <- <-].
  exists x, y. split; reflexivity.
Qed.

Lemma run_short_inv bs v r : run short bs = Ok (v, r) -> exists a b, bs = a :: b :: r.
Proof.
  unfold short. intros H. apply run_bind_inv in H. destruct H as (w & mid & Hw & H).
  cbn [run] in H. injection H as _ <-. apply run_word_inv in Hw. destruct Hw as (a & b & -> & _).
  exists a, b. reflexivity.
Qed.

Lemma run_dword_inv bs v r :
  run dword bs = Ok (v, r) ->
  exists a b c d, bs = a :: b :: c :: d :: r /\ v = a + 256 * b + 65536 * c + 16777216 * d.
Proof.
  unfold dword. cbn [run]. destruct (split_z 4 bs) as [[a r']|] eqn:S; [|discriminate].
  apply split_z_app in S. subst bs.
  destruct a as [|x [|y [|z [|w [|u a]]]]]; cbn [run]; try discriminate. intros [= <- <-].
  exists x, y, z, w. split; reflexivity.
Qed.

Lemma run_skip_inv n bs u r : 0 <= n -> run (skip n) bs = Ok (u, r) -> exists a, bs = a ++ r /\ length a = Z.to_nat n.
Proof.
  intros Hn. unfold skip. cbn [run]. destruct (split_z n bs) as [[a r']|] eqn:S; [|discriminate].
  cbn [run]. intros [= _ <-]. apply split_z_len in S; [|exact Hn]. destruct S as [Hl ->].
  exists a. split; [reflexivity|]. unfold zlen in Hl. lia.
Qed.

(* a list of known length, element by element *)
Ltac explode_list a H :=
  repeat (destruct a as [|? a]; [discriminate H|cbn [length] in H; apply Nat.succ_inj in H]);
  destruct a; [clear H|discriminate H].

Tactic Notation "bind_inv" hyp(R) ident(x) ident(r) ident(Hx) :=
  apply run_bind_inv in R; destruct R as (x & r & Hx & R).
Tactic Notation "word_inv" hyp(H) ident(a) ident(b) :=
  apply run_word_inv in H; destruct H as (a & b & -> & ->).
Tactic Notation "dword_inv" hyp(H) ident(a) ident(b) ident(c) ident(d) :=
  apply run_dword_inv in H; destruct H as (a & b & c & d & -> & ->).

Lemma run_payload_ok {A} (t : IT A) data a : run_payload t data = Ok a -> exists rest, run t data = Ok (a, rest).
Proof.
  unfold run_payload. destruct (run t data) as [[a' rest]|e|s]; try discriminate.
  intros [= <-]. exists rest. reflexivity.
Qed.


(* ------------------------------------------------------------------ *)
(* flag bits: `bit flags 1` is bit 0, `bit flags 2` is bit 1 *)

Lemma land_1_testbit flags : Z.land flags 1 = 0 <-> Z.testbit flags 0 = false.
Proof.
  change 1 with (Z.ones 1). rewrite Z.land_ones by lia. change (2 ^ 1) with 2.
  rewrite Z.bit0_odd, <- Z.negb_even, Bool.negb_false_iff, Z.even_spec.
  split.
  - intros H. exists (flags / 2). pose proof (Z.div_mod flags 2 ltac:(lia)) as E. lia.
  - intros [k ->]. rewrite Z.mul_comm. apply Z.mod_mul. lia.
Qed.


Lemma land_2_testbit flags : Z.land flags 2 = 0 <-> Z.testbit flags 1 = false.
Proof.
  split.
  - intros H. pose proof (Z.land_spec flags 2 1) as E. rewrite H in E. rewrite Z.bits_0 in E.
    change (Z.testbit 2 1) with true in E. rewrite Bool.andb_true_r in E. symmetry. exact E.
  - intros H. apply Z.bits_inj'. intros i Hi. rewrite Z.land_spec, Z.bits_0.
    change 2 with (2 ^ 1). rewrite Z.pow2_bits_eqb by lia.
    destruct (Z.eqb_spec 1 i) as [<-|_]; [rewrite H; reflexivity|apply Bool.andb_false_r].
Qed.

Lemma bit_1_testbit flags : bit flags 1 = Z.testbit flags 0.
Proof.
  unfold bit. destruct (Z.eqb_spec (Z.land flags 1) 0) as [E|E]; cbn [negb].
  - apply land_1_testbit in E. symmetry. exact E.
  - destruct (Z.testbit flags 0) eqn:T; [reflexivity|]. apply land_1_testbit in T. contradiction.
Qed.

Lemma bit_2_testbit flags : bit flags 2 = Z.testbit flags 1.
Proof.
  unfold bit. destruct (Z.eqb_spec (Z.land flags 2) 0) as [E|E]; cbn [negb].
  - apply land_2_testbit in E. symmetry. exact E.
  - destruct (Z.testbit flags 1) eqn:T; [reflexivity|]. apply land_2_testbit in T. contradiction.
Qed.
