(* Reusable facts about the list / array utilities of Base/Prelude.v and the bounded
   loop `loopP` of Model/Api.v. *)
From Ase Require Import Base.Prelude Model.Api.
From Ase Require Export Base.PreludeFacts.

(* ------------------------------------------------------------------ *)
(* nthz *)

Lemma nthz_aux_nth_error {A} (l : list A) : forall i, 0 <= i -> nthz_aux l i = nth_error l (Z.to_nat i).
Proof.
  induction l as [|x t IH]; intros i Hi; cbn [nthz_aux].
  - destruct (Z.to_nat i); reflexivity.
  - destruct (Z.eqb_spec i 0) as [E|E].
    + subst i. reflexivity.
    + rewrite IH by lia. replace (Z.to_nat i) with (S (Z.to_nat (i - 1))) by lia. reflexivity.
Qed.

Lemma nthz_nth_error {A} (l : list A) i : 0 <= i -> nthz l i = nth_error l (Z.to_nat i).
Proof.
  intros Hi. unfold nthz. destruct (Z.ltb_spec i 0) as [H|H]; [lia|]. apply nthz_aux_nth_error; exact Hi.
Qed.

Lemma nthz_of_nat {A} (l : list A) (n : nat) : nthz l (Z.of_nat n) = nth_error l n.
Proof. rewrite nthz_nth_error by lia. rewrite Nat2Z.id. reflexivity. Qed.

Lemma nthz_neg {A} (l : list A) i : i < 0 -> nthz l i = None.
Proof. intros Hi. unfold nthz. destruct (Z.ltb_spec i 0) as [H|H]; [reflexivity|lia]. Qed.

Lemma zlen_nonneg {A} (l : list A) : 0 <= zlen l.
Proof. unfold zlen. lia. Qed.

Lemma zlen_nil {A} : zlen (@nil A) = 0.
Proof. reflexivity. Qed.

Lemma zlen_cons {A} (x : A) l : zlen (x :: l) = zlen l + 1.
Proof. unfold zlen. cbn [length]. lia. Qed.

Lemma zlen_app {A} (a b : list A) : zlen (a ++ b) = zlen a + zlen b.
Proof. unfold zlen. rewrite app_length. lia. Qed.

Lemma zlen_map {A B} (g : A -> B) l : zlen (map g l) = zlen l.
Proof. unfold zlen. rewrite map_length. reflexivity. Qed.

Lemma zlen_rev {A} (l : list A) : zlen (rev l) = zlen l.
Proof. unfold zlen. rewrite rev_length. reflexivity. Qed.

Lemma nthz_some {A} (l : list A) i x : nthz l i = Some x -> 0 <= i < zlen l.
Proof.
  intros H. destruct (Z.ltb_spec i 0) as [Hn|Hn].
  - rewrite nthz_neg in H by exact Hn. discriminate.
  - rewrite nthz_nth_error in H by exact Hn.
    assert (Hlt : (Z.to_nat i < length l)%nat) by (apply nth_error_Some; congruence).
    unfold zlen. lia.
Qed.

Lemma nthz_none {A} (l : list A) i : nthz l i = None <-> i < 0 \/ zlen l <= i.
Proof.
  split.
  - intros H. destruct (Z.ltb_spec i 0) as [Hn|Hn]; [left; exact Hn|right].
    rewrite nthz_nth_error in H by exact Hn. apply nth_error_None in H. unfold zlen. lia.
  - intros [H|H]; [apply nthz_neg; exact H|].
    pose proof (zlen_nonneg l) as Hl. rewrite nthz_nth_error by lia. apply nth_error_None. unfold zlen in H. lia.
Qed.

Lemma nthz_in_range {A} (l : list A) i : 0 <= i < zlen l -> exists x, nthz l i = Some x.
Proof.
  intros Hi. destruct (nthz l i) as [x|] eqn:E; [eauto|]. apply nthz_none in E. lia.
Qed.

Lemma nthz_In {A} (l : list A) i x : nthz l i = Some x -> In x l.
Proof.
  intros H. pose proof (nthz_some _ _ _ H) as Hr. rewrite nthz_nth_error in H by lia.
  eapply nth_error_In; exact H.
Qed.

Lemma In_nthz {A} (l : list A) x : In x l -> exists i, 0 <= i < zlen l /\ nthz l i = Some x.
Proof.
  intros H. apply In_nth_error in H as [n Hn]. exists (Z.of_nat n). rewrite nthz_of_nat. split; [|exact Hn].
  assert (Hlt : (n < length l)%nat) by (apply nth_error_Some; congruence). unfold zlen. lia.
Qed.

Lemma nthz_cons_0 {A} (x : A) t : nthz (x :: t) 0 = Some x.
Proof. reflexivity. Qed.

Lemma nthz_cons_pos {A} (x : A) t i : 0 < i -> nthz (x :: t) i = nthz t (i - 1).
Proof.
  intros Hi. unfold nthz. destruct (Z.ltb_spec i 0) as [H|H]; [lia|].
  destruct (Z.ltb_spec (i - 1) 0) as [H1|H1]; [lia|]. cbn [nthz_aux].
  destruct (Z.eqb_spec i 0) as [E|E]; [lia|reflexivity].
Qed.

Lemma nthz_cons_succ {A} (x : A) t i : 0 <= i -> nthz (x :: t) (i + 1) = nthz t i.
Proof. intros Hi. rewrite nthz_cons_pos by lia. f_equal. lia. Qed.

Lemma nthz_app_l {A} (a b : list A) i : i < zlen a -> nthz (a ++ b) i = nthz a i.
Proof.
  intros Hi. destruct (Z.ltb_spec i 0) as [Hn|Hn].
  - rewrite !nthz_neg by exact Hn. reflexivity.
  - rewrite !nthz_nth_error by exact Hn. apply nth_error_app1. unfold zlen in Hi. lia.
Qed.

Lemma nthz_app_r {A} (a b : list A) i : zlen a <= i -> nthz (a ++ b) i = nthz b (i - zlen a).
Proof.
  intros Hi. pose proof (zlen_nonneg a) as Ha. rewrite !nthz_nth_error by lia.
  rewrite nth_error_app2 by (unfold zlen in Hi; lia). f_equal. unfold zlen. lia.
Qed.

Lemma nthz_map {A B} (g : A -> B) l i : nthz (map g l) i = option_map g (nthz l i).
Proof.
  destruct (Z.ltb_spec i 0) as [Hn|Hn].
  - rewrite !nthz_neg by exact Hn. reflexivity.
  - rewrite !nthz_nth_error by exact Hn. apply nth_error_map.
Qed.

Lemma nthz_ext {A} (a b : list A) : (forall i, 0 <= i -> nthz a i = nthz b i) -> a = b.
Proof.
  revert b. induction a as [|x t IH]; intros b H.
  - destruct b as [|y u]; [reflexivity|]. specialize (H 0 ltac:(lia)). discriminate.
  - destruct b as [|y u]; [specialize (H 0 ltac:(lia)); discriminate|].
    pose proof (H 0 ltac:(lia)) as H0. rewrite !nthz_cons_0 in H0. injection H0 as ->. f_equal.
    apply IH. intros i Hi. specialize (H (i + 1) ltac:(lia)). rewrite !nthz_cons_succ in H by exact Hi. exact H.
Qed.

Lemma nthz_firstn {A} (l : list A) (n : nat) i : i < Z.of_nat n -> nthz (firstn n l) i = nthz l i.
Proof.
  intros Hi. destruct (Z.ltb_spec i 0) as [Hn|Hn].
  - rewrite !nthz_neg by exact Hn. reflexivity.
  - rewrite !nthz_nth_error by exact Hn.
    assert (Hk : (Z.to_nat i < n)%nat) by lia. clear Hi. revert Hk. generalize (Z.to_nat i). clear.
    revert l. induction n as [|n IH]; intros l k Hk; [lia|].
    destruct l as [|x t]; [reflexivity|]. destruct k as [|k]; [reflexivity|]. cbn [firstn nth_error]. apply IH. lia.
Qed.

Lemma nthz_skipn {A} (l : list A) (n : nat) i : 0 <= i -> nthz (skipn n l) i = nthz l (i + Z.of_nat n).
Proof.
  intros Hi. rewrite !nthz_nth_error by lia. replace (Z.to_nat (i + Z.of_nat n)) with (n + Z.to_nat i)%nat by lia.
  generalize (Z.to_nat i). clear. revert l. induction n as [|n IH]; intros l k; [reflexivity|].
  destruct l as [|x t]; [destruct k; reflexivity|]. cbn [skipn Nat.add nth_error]. apply IH.
Qed.

(* ------------------------------------------------------------------ *)
(* zrange / ziota *)

Lemma zrange_length lo n : length (zrange lo n) = n.
Proof. revert lo. induction n as [|n IH]; intros lo; cbn [zrange length]; [reflexivity|]. rewrite IH. reflexivity. Qed.

Lemma zlen_zrange lo n : zlen (zrange lo n) = Z.of_nat n.
Proof. unfold zlen. rewrite zrange_length. reflexivity. Qed.

Lemma in_zrange lo n x : In x (zrange lo n) <-> lo <= x < lo + Z.of_nat n.
Proof.
  revert lo. induction n as [|n IH]; intros lo; cbn [zrange In].
  - split; [intros []|lia].
  - rewrite IH. lia.
Qed.

Lemma zrange_app lo n m : zrange lo (n + m) = zrange lo n ++ zrange (lo + Z.of_nat n) m.
Proof.
  revert lo. induction n as [|n IH]; intros lo; cbn [zrange Nat.add app].
  - f_equal. lia.
  - rewrite IH. do 3 f_equal. lia.
Qed.

Lemma zrange_succ_r lo n : zrange lo (S n) = zrange lo n ++ [lo + Z.of_nat n].
Proof. replace (S n) with (n + 1)%nat by lia. rewrite zrange_app. reflexivity. Qed.

Lemma nth_error_zrange lo n k : (k < n)%nat -> nth_error (zrange lo n) k = Some (lo + Z.of_nat k).
Proof.
  revert lo k. induction n as [|n IH]; intros lo k Hk; [lia|]. cbn [zrange].
  destruct k as [|k]; cbn [nth_error].
  - f_equal. lia.
  - rewrite IH by lia. f_equal. lia.
Qed.

Lemma nthz_zrange lo n i : 0 <= i < Z.of_nat n -> nthz (zrange lo n) i = Some (lo + i).
Proof.
  intros Hi. rewrite nthz_nth_error by lia. rewrite nth_error_zrange by lia. f_equal. lia.
Qed.

Lemma zrange_NoDup lo n : NoDup (zrange lo n).
Proof.
  revert lo. induction n as [|n IH]; intros lo; cbn [zrange]; constructor.
  - rewrite in_zrange. lia.
  - apply IH.
Qed.

Lemma ziota_length n : length (ziota n) = Z.to_nat n.
Proof. apply zrange_length. Qed.

Lemma zlen_ziota n : 0 <= n -> zlen (ziota n) = n.
Proof. intros Hn. unfold ziota. rewrite zlen_zrange. lia. Qed.

Lemma in_ziota n x : In x (ziota n) <-> 0 <= x < n.
Proof. unfold ziota. rewrite in_zrange. lia. Qed.

Lemma nthz_ziota n i : 0 <= i < n -> nthz (ziota n) i = Some i.
Proof. intros Hi. unfold ziota. rewrite nthz_zrange by lia. f_equal. Qed.

Lemma ziota_nonpos n : n <= 0 -> ziota n = [].
Proof. intros Hn. unfold ziota. replace (Z.to_nat n) with 0%nat by lia. reflexivity. Qed.

Lemma ziota_succ n : 0 <= n -> ziota (n + 1) = ziota n ++ [n].
Proof.
  intros Hn. unfold ziota. replace (Z.to_nat (n + 1)) with (S (Z.to_nat n)) by lia.
  rewrite zrange_succ_r. do 2 f_equal. lia.
Qed.

Lemma flat_map_ext_in {A B} (g h : A -> list B) l : (forall x, In x l -> g x = h x) -> flat_map g l = flat_map h l.
Proof.
  induction l as [|x t IH]; intros H; cbn [flat_map]; [reflexivity|].
  rewrite H by (left; reflexivity). rewrite IH; [reflexivity|]. intros y Hy. apply H. right. exact Hy.
Qed.

(* ------------------------------------------------------------------ *)
(* arrays *)

Lemma akey_inj i j : 0 <= i -> 0 <= j -> akey i = akey j -> i = j.
Proof. unfold akey. intros Hi Hj H. apply (f_equal Z.pos) in H. rewrite !Z2Pos.id in H by lia. lia. Qed.

Lemma find_of_list_aux {A} (l : list A) : forall i m j, 0 <= i -> 0 <= j ->
  PositiveMap.find (akey j) (of_list_aux l i m) =
  if (i <=? j) && (j <? i + zlen l) then nthz l (j - i) else PositiveMap.find (akey j) m.
Proof.
  induction l as [|x t IH]; intros i m j Hi Hj; cbn [of_list_aux].
  - rewrite zlen_nil. destruct (Z.leb_spec i j), (Z.ltb_spec j (i + 0)); cbn [andb]; try reflexivity; lia.
  - rewrite IH by lia. rewrite zlen_cons.
    destruct (Z.leb_spec (i + 1) j) as [H1|H1], (Z.ltb_spec j (i + 1 + zlen t)) as [H2|H2]; cbn [andb].
    + destruct (Z.leb_spec i j); [|lia]. destruct (Z.ltb_spec j (i + (zlen t + 1))); [|lia]. cbn [andb].
      rewrite (nthz_cons_pos x t (j - i)) by lia. f_equal. lia.
    + destruct (Z.ltb_spec j (i + (zlen t + 1))); [lia|]. rewrite andb_false_r.
      rewrite PositiveMapAdditionalFacts.gsspec. destruct (PositiveMap.E.eq_dec (akey j) (akey i)) as [E|E]; [|reflexivity].
      apply akey_inj in E; lia.
    + pose proof (zlen_nonneg t). rewrite PositiveMapAdditionalFacts.gsspec.
      destruct (PositiveMap.E.eq_dec (akey j) (akey i)) as [E|E].
      * apply akey_inj in E; [|lia|lia]. subst j. destruct (Z.leb_spec i i); [|lia].
        destruct (Z.ltb_spec i (i + (zlen t + 1))); [|lia]. cbn [andb]. rewrite Z.sub_diag. reflexivity.
      * destruct (Z.leb_spec i j); [|reflexivity]. assert (i = j) by lia. subst j. contradiction.
    + pose proof (zlen_nonneg t). lia.
Qed.

Lemma alen_arr_of_list {A} (l : list A) : alen (arr_of_list l) = zlen l.
Proof. reflexivity. Qed.

Theorem aget_arr_of_list {A} (l : list A) i : aget (arr_of_list l) i = nthz l i.
Proof.
  unfold aget. cbn [arr_of_list alen amap].
  destruct (Z.leb_spec 0 i) as [H0|H0]; cbn [andb].
  - destruct (Z.ltb_spec i (zlen l)) as [H1|H1].
    + rewrite find_of_list_aux by lia. destruct (Z.leb_spec 0 i); [|lia].
      destruct (Z.ltb_spec i (0 + zlen l)); [|lia]. cbn [andb]. f_equal. lia.
    + symmetry. apply nthz_none. right. exact H1.
  - symmetry. apply nthz_neg. exact H0.
Qed.

Lemma aget_arr_of_list_nth_error {A} (l : list A) i : 0 <= i -> aget (arr_of_list l) i = nth_error l (Z.to_nat i).
Proof. intros Hi. rewrite aget_arr_of_list. apply nthz_nth_error. exact Hi. Qed.

Lemma aget_some_range {A} (a : arr A) i x : aget a i = Some x -> 0 <= i < alen a.
Proof.
  unfold aget. destruct (Z.leb_spec 0 i), (Z.ltb_spec i (alen a)); cbn [andb]; try discriminate. intros _. lia.
Qed.

Lemma flat_map_nthz_zrange {A} (l : list A) : forall lo,
  flat_map (fun i => match nthz l (i - lo) with Some x => [x] | None => [] end) (zrange lo (length l)) = l.
Proof.
  induction l as [|x t IH]; intros lo; cbn [length zrange flat_map]; [reflexivity|].
  rewrite Z.sub_diag, nthz_cons_0. cbn [app]. f_equal.
  rewrite <- (IH (lo + 1)) at 2. apply flat_map_ext_in. intros i Hi. apply in_zrange in Hi.
  rewrite nthz_cons_pos by lia. replace (i - lo - 1) with (i - (lo + 1)) by lia. reflexivity.
Qed.

Theorem arr_to_list_of_list {A} (l : list A) : arr_to_list (arr_of_list l) = l.
Proof.
  unfold arr_to_list. rewrite alen_arr_of_list. unfold ziota, zlen. rewrite Nat2Z.id.
  rewrite <- (flat_map_nthz_zrange l 0) at 2. apply flat_map_ext_in. intros i _.
  rewrite aget_arr_of_list, Z.sub_0_r. reflexivity.
Qed.

(* ------------------------------------------------------------------ *)
(* loopP *)

(* `step` iterated at most n times in unary *)
Fixpoint iter_step {S R} (n : nat) (step : S -> step_res S R) (s : S) : step_res S R :=
  match n with
  | O => Cont s
  | Datatypes.S k => match step s with Cont s' => iter_step k step s' | Done r => Done r end
  end.

Lemma iter_step_add {S R} (step : S -> step_res S R) a b s :
  iter_step (a + b) step s = match iter_step a step s with Cont s' => iter_step b step s' | Done r => Done r end.
Proof.
  revert s. induction a as [|a IH]; intros s; cbn [Nat.add iter_step]; [reflexivity|].
  destruct (step s) as [s'|r]; [apply IH|reflexivity].
Qed.

Theorem loopP_iter {S R} (step : S -> step_res S R) p s : loopP p step s = iter_step (Pos.to_nat p) step s.
Proof.
  revert s. induction p as [q IH|q IH|]; intros s; cbn [loopP].
  - rewrite Pos2Nat.inj_xI. cbn [iter_step]. destruct (step s) as [s'|r]; [|reflexivity].
    replace (2 * Pos.to_nat q)%nat with (Pos.to_nat q + Pos.to_nat q)%nat by lia.
    rewrite iter_step_add, <- IH. destruct (loopP q step s') as [s''|r]; [apply IH|reflexivity].
  - rewrite Pos2Nat.inj_xO. replace (2 * Pos.to_nat q)%nat with (Pos.to_nat q + Pos.to_nat q)%nat by lia.
    rewrite iter_step_add, <- IH. destruct (loopP q step s) as [s''|r]; [apply IH|reflexivity].
  - rewrite Pos2Nat.inj_1. cbn [iter_step]. destruct (step s); reflexivity.
Qed.

(* once Done, more fuel changes nothing *)
Lemma iter_step_done_mono {S R} (step : S -> step_res S R) a b s r :
  iter_step a step s = Done r -> (a <= b)%nat -> iter_step b step s = Done r.
Proof.
  intros H Hab. replace b with (a + (b - a))%nat by lia. rewrite iter_step_add, H. reflexivity.
Qed.

Section Variant.
Context {S R : Type}.
Variable step : S -> step_res S R.
Variable inv : S -> Prop.
Variable mu : S -> Z.
Variable post : S -> R -> Prop.
(* the measure is bounded below on the invariant, and a continuing step preserves the invariant,
   strictly decreases the measure and preserves the post-condition backwards *)
Hypothesis mu_nonneg : forall s, inv s -> 0 <= mu s.
Hypothesis step_ok : forall s, inv s ->
  match step s with
  | Cont s' => inv s' /\ mu s' < mu s /\ (forall r, post s' r -> post s r)
  | Done r => post s r
  end.

Lemma iter_step_variant : forall n s, inv s -> mu s < Z.of_nat n -> exists r, iter_step n step s = Done r /\ post s r.
Proof.
  induction n as [|n IH]; intros s Hinv Hmu.
  - pose proof (mu_nonneg s Hinv). lia.
  - cbn [iter_step]. pose proof (step_ok s Hinv) as Hs. destruct (step s) as [s'|r].
    + destruct Hs as (Hinv' & Hdec & Hpost). destruct (IH s' Hinv' ltac:(lia)) as (r & Hr & Hp).
      exists r. split; [exact Hr|apply Hpost; exact Hp].
    + exists r. split; [reflexivity|exact Hs].
Qed.

(* variant rule: fuel above the initial measure is never exhausted *)
Theorem loopP_variant p s : inv s -> mu s < Z.pos p -> exists r, loopP p step s = Done r /\ post s r.
Proof.
  intros Hinv Hmu. rewrite loopP_iter. apply iter_step_variant; [exact Hinv|lia].
Qed.
End Variant.

Corollary loopP_terminates {S R} (step : S -> step_res S R) (inv : S -> Prop) (mu : S -> Z) :
  (forall s, inv s -> 0 <= mu s) ->
  (forall s, inv s -> match step s with Cont s' => inv s' /\ mu s' < mu s | Done _ => True end) ->
  forall p s, inv s -> mu s < Z.pos p -> exists r, loopP p step s = Done r.
Proof.
  intros Hnn Hstep p s Hinv Hmu.
  destruct (loopP_variant step inv mu (fun _ _ => True) Hnn) with (p := p) (s := s) as (r & Hr & _); [|exact Hinv|exact Hmu|eauto].
  intros s0 Hs0. specialize (Hstep s0 Hs0). destruct (step s0); [|exact I]. destruct Hstep. repeat split; auto.
Qed.
