(* C09 end to end: the parent and the visibility a loaded sprite reports for layer i are the nesting rule applied to the
   LAYER CHUNKS of the program - parent = nearest preceding layer chunk of smaller child level, none at level 0; visible =
   the visible flag of the chunk and of the chunks of all its ancestors. *)
From Ase Require Import Model.Api Spec.Serialize.
From Ase Require Import Proofs.ITLemmas Proofs.ArrLemmas Proofs.Layers.
From Ase Require Import Proofs.UserData Proofs.EndToEnd Proofs.EndToEndIff.

Lemma nearest_levels ls ls' i p : map l_level ls = map l_level ls' -> nearest ls i p -> nearest ls' i p.
Proof.
  intros E. assert (forall j, lvl ls j = lvl ls' j) as Hl.
  { intros j. unfold lvl. pose proof (f_equal (fun x => nthz x j) E) as H. cbn beta in H. rewrite !nthz_map in H.
    destruct (nthz ls j), (nthz ls' j); cbn [option_map] in H; try discriminate; [injection H as ->; reflexivity|reflexivity]. }
  unfold nearest. intros (A & B & C). split; [exact A|]. split; [rewrite <- !Hl; exact B|]. intros q Hq. rewrite <- !Hl. exact (C q Hq).
Qed.

Lemma forallb_ext' {A} (g h : A -> bool) l : (forall x, g x = h x) -> forallb g l = forallb h l.
Proof. intros E. induction l as [|x t IH]; [reflexivity|]. cbn [forallb]. rewrite E, IH. reflexivity. Qed.

Section Layers.
Variable inflate : list Z -> Z -> zres.
Variables (s : sprite_prog) (tail : list Z) (f : file).
Hypothesis Hwf : wf_prog s.
Hypothesis Hz : inflate_ok inflate s.
Hypothesis Hload : load inflate (serialize s ++ tail) = Ok f.

Lemma loaded_parents_ok : parents_ok f.
Proof. destruct (load_serialize_ok inflate s tail f Hwf Hz Hload) as (p & _ & Hv). exact (validate_parents_ok _ _ _ Hv). Qed.

Let with_ud := mapi (fun i l => layer_with_ud l (window (rev (events_of s)) (EntLayer i))) (prog_layers s).

Lemma loaded_layers : f_layers f = arr_of_list with_ud.
Proof.
  destruct (load_serialize_ok inflate s tail f Hwf Hz Hload) as (p & _ & Hv).
  destruct (validate_ok_inv _ _ _ Hv) as (_ & _ & _ & Hfl).
  pose proof (e2e_layers_in_order inflate s tail f Hwf Hz Hload) as H. rewrite Hfl, arr_to_list_of_list in H. rewrite Hfl, H. reflexivity.
Qed.

Lemma with_ud_nth i : nthz with_ud i = option_map (fun l => layer_with_ud l (window (rev (events_of s)) (EntLayer i))) (nthz (prog_layers s) i).
Proof.
  destruct (Z.ltb_spec i 0) as [Hn|Hn]; [rewrite !nthz_neg by exact Hn; reflexivity|]. unfold with_ud. apply nthz_mapi. exact Hn.
Qed.

Lemma with_ud_levels : map l_level with_ud = map l_level (prog_layers s).
Proof.
  apply nthz_ext. intros i. rewrite !nthz_map, with_ud_nth. destruct (nthz (prog_layers s) i); reflexivity.
Qed.

Theorem e2e_num_layers' : num_layers f = zlen (prog_layers s).
Proof. unfold num_layers. rewrite loaded_layers, alen_arr_of_list. unfold with_ud, mapi. apply zlen_mapi_from. Qed.

(* PARENT: the nearest preceding layer chunk with a smaller child level; none at level 0 *)
Theorem e2e_layer_parent i l0 :
  nthz (prog_layers s) i = Some l0 ->
  (l_level l0 = 0 -> layer_parent f i = Ok None) /\
  (l_level l0 <> 0 -> exists p, layer_parent f i = Ok (Some p) /\ nearest (prog_layers s) i p).
Proof.
  intros Hi. pose proof (nthz_some _ _ _ Hi) as Hr.
  destruct (layer_parent_spec f loaded_parents_ok i ltac:(rewrite e2e_num_layers'; exact Hr)) as (l & Hl & H0 & H1).
  unfold layer_get in Hl. rewrite loaded_layers, aget_arr_of_list, with_ud_nth, Hi in Hl. cbn [option_map] in Hl. injection Hl as <-.
  cbn [layer_with_ud l_level] in H0, H1. split; [exact H0|].
  intros Hne. destruct (H1 Hne) as (p & Hp & Hn). exists p. split; [exact Hp|].
  rewrite loaded_layers, arr_to_list_of_list in Hn. exact (nearest_levels _ _ _ _ with_ud_levels Hn).
Qed.

(* VISIBILITY: the chunk's own visible flag and those of all its ancestors *)
Theorem e2e_layer_visible i l0 :
  nthz (prog_layers s) i = Some l0 ->
  layer_is_visible f i
  = Ok (forallb (fun j => match nthz (prog_layers s) j with Some l => layer_visible_flag l | None => false end) (i :: ancestors f i)).
Proof.
  intros Hi. pose proof (nthz_some _ _ _ Hi) as Hr.
  rewrite (visible_spec f loaded_parents_ok i) by (rewrite e2e_num_layers'; exact Hr).
  f_equal. apply forallb_ext'. intros j. unfold vflag. rewrite loaded_layers, aget_arr_of_list, with_ud_nth.
  destruct (nthz (prog_layers s) j); reflexivity.
Qed.

End Layers.
