(* Basic facts about the image record of Model/Render.v (a PositiveMap keyed by y*w+x),
   the `res` folds, and the one blend fact the rendering proofs need: over a fully
   transparent backdrop every mode returns the source colour with scaled alpha. *)
From Ase Require Import Base.Prelude Model.Render Proofs.ArrLemmas.

(* ------------------------------------------------------------------ *)
(* keys *)

Lemma ikey_arg_pos w x y : 0 <= x < w -> 0 <= y -> 0 < y * w + x + 1.
Proof.
  intros Hx Hy. assert (Hm : 0 <= y * w) by (apply Z.mul_nonneg_nonneg; lia). lia.
Qed.

(* y*w + x determines (x, y) when 0 <= x < w *)
Lemma lin_inj w x y x' y' : 0 <= x < w -> 0 <= x' < w -> y * w + x = y' * w + x' -> x = x' /\ y = y'.
Proof.
  intros Hx Hx' H.
  assert (Hy : y = y').
  { destruct (Z.lt_trichotomy y y') as [L|[E|L]]; [exfalso|exact E|exfalso].
    - assert (Hm : (y + 1) * w <= y' * w) by (apply Z.mul_le_mono_nonneg_r; lia).
      rewrite Z.mul_add_distr_r in Hm. lia.
    - assert (Hm : (y' + 1) * w <= y * w) by (apply Z.mul_le_mono_nonneg_r; lia).
      rewrite Z.mul_add_distr_r in Hm. lia. }
  subst y'. split; [lia|reflexivity].
Qed.

Theorem ikey_inj w x y x' y' :
  0 <= x < w -> 0 <= x' < w -> 0 <= y -> 0 <= y' -> ikey w x y = ikey w x' y' -> x = x' /\ y = y'.
Proof.
  unfold ikey. intros Hx Hx' Hy Hy' H.
  pose proof (ikey_arg_pos w x y Hx Hy) as P1. pose proof (ikey_arg_pos w x' y' Hx' Hy') as P2.
  apply Z2Pos.inj in H; [|exact P1|exact P2].
  apply (lin_inj w); [exact Hx|exact Hx'|lia].
Qed.

(* ------------------------------------------------------------------ *)
(* get / put *)

Lemma iw_img_put img x y p : iw (img_put img x y p) = iw img.
Proof. reflexivity. Qed.
Lemma ih_img_put img x y p : ih (img_put img x y p) = ih img.
Proof. reflexivity. Qed.
Lemma iw_img_new w h : iw (img_new w h) = w.
Proof. reflexivity. Qed.
Lemma ih_img_new w h : ih (img_new w h) = h.
Proof. reflexivity. Qed.

Theorem img_get_put_same img x y p : img_get (img_put img x y p) x y = p.
Proof. unfold img_get, img_put. cbn [iw ipx]. rewrite PositiveMap.gss. reflexivity. Qed.

Theorem img_get_put_other img x y x' y' p :
  0 <= x < iw img -> 0 <= x' < iw img -> 0 <= y -> 0 <= y' -> (x, y) <> (x', y') ->
  img_get (img_put img x y p) x' y' = img_get img x' y'.
Proof.
  intros Hx Hx' Hy Hy' Hne. unfold img_get, img_put. cbn [iw ipx].
  rewrite PositiveMap.gso; [reflexivity|].
  intros E. apply ikey_inj in E; [|assumption..]. destruct E as [E1 E2]. apply Hne. congruence.
Qed.

Theorem img_get_new w h x y : img_get (img_new w h) x y = transparent.
Proof. unfold img_get, img_new. cbn [iw ipx]. rewrite PositiveMap.gempty. reflexivity. Qed.

(* ------------------------------------------------------------------ *)
(* res *)

Lemma rbind_ok_r {A} (r : res A) : rbind r (fun a => Ok a) = r.
Proof. destruct r; reflexivity. Qed.

Lemma rbind_ok_inv {A B} (r : res A) (k : A -> res B) b :
  rbind r k = Ok b -> exists a, r = Ok a /\ k a = Ok b.
Proof. destruct r as [a|e|s]; cbn [rbind]; intros H; [eauto|discriminate..]. Qed.

Lemma rfold_cons {A B} (f : B -> A -> res B) x t b : rfold f (x :: t) b = rbind (f b x) (fun b' => rfold f t b').
Proof. reflexivity. Qed.

Lemma rfold_app {A B} (f : B -> A -> res B) l1 l2 b :
  rfold f (l1 ++ l2) b = rbind (rfold f l1 b) (fun b' => rfold f l2 b').
Proof.
  revert b. induction l1 as [|x t IH]; intros b; cbn [app rfold]; [reflexivity|].
  destruct (f b x) as [b'|e|s]; cbn [rbind]; [apply IH|reflexivity..].
Qed.

Lemma rfold_ext_in {A B} (f g : B -> A -> res B) l b :
  (forall b a, In a l -> f b a = g b a) -> rfold f l b = rfold g l b.
Proof.
  revert b. induction l as [|x t IH]; intros b H; cbn [rfold]; [reflexivity|].
  rewrite H by (left; reflexivity). destruct (g b x) as [b'|e|s]; cbn [rbind]; [|reflexivity..].
  apply IH. intros b0 a Ha. apply H. right. exact Ha.
Qed.

Lemma rfold_id {A B} (f : B -> A -> res B) l b : (forall b a, In a l -> f b a = Ok b) -> rfold f l b = Ok b.
Proof.
  induction l as [|x t IH]; intros H; cbn [rfold]; [reflexivity|].
  rewrite H by (left; reflexivity). cbn [rbind]. apply IH. intros b0 a Ha. apply H. right. exact Ha.
Qed.

(* ------------------------------------------------------------------ *)
(* the blend fact: backdrop alpha 0 *)

Lemma mul_un8_range a b : 0 <= mul_un8 a b < 256.
Proof. unfold mul_un8, as_u8. apply Z.mod_pos_bound. lia. Qed.

Lemma in_u8_mul_un8 a b : in_u8 (mul_un8 a b) = true.
Proof.
  pose proof (mul_un8_range a b) as H. unfold in_u8.
  destruct (Z.leb_spec 0 (mul_un8 a b)), (Z.leb_spec (mul_un8 a b) 255); cbn [andb]; try reflexivity; lia.
Qed.

Lemma blend_transparent_eq mode r g b a o :
  blend mode transparent (r, g, b, a) o = from_rgba_i32 r g b (mul_un8 a o).
Proof.
  unfold blend. destruct (mode =? 0); [reflexivity|]. unfold blender. reflexivity.
Qed.

(* whatever the mode, a successful blend over the transparent pixel is the source with its
   alpha scaled *)
Theorem blend_transparent_inv mode r g b a o q :
  blend mode transparent (r, g, b, a) o = Some q -> q = (r, g, b, mul_un8 a o).
Proof.
  rewrite blend_transparent_eq. unfold from_rgba_i32.
  destruct (in_u8 r && in_u8 g && in_u8 b && in_u8 (mul_un8 a o)); intros H; [|discriminate].
  injection H as <-. reflexivity.
Qed.

(* and it succeeds for byte colour channels *)
Theorem blend_transparent_some mode r g b a o :
  is_byte r -> is_byte g -> is_byte b ->
  blend mode transparent (r, g, b, a) o = Some (r, g, b, mul_un8 a o).
Proof.
  intros Hr Hg Hb. rewrite blend_transparent_eq. unfold from_rgba_i32. rewrite in_u8_mul_un8.
  assert (Hin : forall z, is_byte z -> in_u8 z = true).
  { intros z Hz. unfold is_byte in Hz. unfold in_u8.
    destruct (Z.leb_spec 0 z), (Z.leb_spec z 255); cbn [andb]; try reflexivity; lia. }
  rewrite !Hin by assumption. reflexivity.
Qed.
