From Ase Require Import Model.History.

(* invariant: each thread's results so far followed by the results still to come are the
   sequential results of its whole call list *)
Definition consistent (f : file) (cs : list call) (t : thread) : Prop :=
  t_done t ++ map (eval f) (t_todo t) = map (eval f) cs.

Lemma step_thread_consistent f cs t : consistent f cs t -> consistent f cs (step_thread f t).
Proof.
  unfold consistent, step_thread. destruct (t_todo t) as [|c rest] eqn:E; intros H.
  - rewrite E. exact H.
  - cbn [t_todo t_done map] in *. rewrite <- app_assoc. exact H.
Qed.

Lemma step_at_consistent f : forall css ts i,
  Forall2 (consistent f) css ts -> Forall2 (consistent f) css (step_at f ts i).
Proof.
  intros css ts i H. revert i. induction H as [|cs t css ts Hc Hr IH]; intros i; cbn [step_at].
  - constructor.
  - destruct i as [|j].
    + constructor; [apply step_thread_consistent; exact Hc|exact Hr].
    + constructor; [exact Hc|apply IH].
Qed.

Lemma exec_consistent f : forall sched css ts,
  Forall2 (consistent f) css ts -> Forall2 (consistent f) css (exec f ts sched).
Proof.
  unfold exec. induction sched as [|i sched IH]; intros css ts H; cbn [fold_left].
  - exact H.
  - apply IH. apply step_at_consistent. exact H.
Qed.

Lemma init_consistent f : forall css, Forall2 (consistent f) css (map thread_init css).
Proof.
  induction css as [|cs css IH]; cbn [map]; constructor; [|exact IH].
  unfold consistent, thread_init. reflexivity.
Qed.

(* whatever the scheduler does, every thread that has finished holds exactly the results a
   single-threaded run of its calls gives; in particular two schedules agree *)
Theorem interleave_results f css sched :
  Forall2 (fun cs t => t_todo t = [] -> t_done t = run_history f cs) css (exec f (map thread_init css) sched).
Proof.
  pose proof (exec_consistent f sched css _ (init_consistent f css)) as H.
  induction H as [|cs t css' ts Hc Hr IH]; constructor; [|exact IH].
  intros E. unfold consistent in Hc. rewrite E in Hc. cbn [map] in Hc. rewrite app_nil_r in Hc. exact Hc.
Qed.

Theorem interleave_schedule_independent f css s1 s2 :
  finished (exec f (map thread_init css) s1) -> finished (exec f (map thread_init css) s2) ->
  map t_done (exec f (map thread_init css) s1) = map t_done (exec f (map thread_init css) s2).
Proof.
  intros F1 F2.
  pose proof (interleave_results f css s1) as H1. pose proof (interleave_results f css s2) as H2.
  revert F1 F2 H1 H2.
  generalize (exec f (map thread_init css) s1) as a, (exec f (map thread_init css) s2) as b.
  induction css as [|cs css IH]; intros a b F1 F2 H1 H2.
  - inversion H1; inversion H2; reflexivity.
  - inversion H1 as [|? ta ? ra Ha Hra]; subst. inversion H2 as [|? tb ? rb Hb Hrb]; subst.
    inversion F1 as [|? ? Fa Fra]; subst. inversion F2 as [|? ? Fb Frb]; subst.
    cbn [map]. rewrite (Ha Fa), (Hb Fb). f_equal. apply IH; assumption.
Qed.

(* a history is position independent: repeating, reordering or interposing calls never
   changes the result of a call *)
Theorem history_pointwise f cs i c : nth_error cs i = Some c -> nth_error (run_history f cs) i = Some (eval f c).
Proof. intros H. unfold run_history. rewrite nth_error_map, H. reflexivity. Qed.

Theorem history_app f a b : run_history f (a ++ b) = run_history f a ++ run_history f b.
Proof. unfold run_history. apply map_app. Qed.

Theorem history_permutation f a b : Permutation.Permutation a b ->
  Permutation.Permutation (run_history f a) (run_history f b).
Proof. intros H. unfold run_history. apply Permutation.Permutation_map. exact H. Qed.

(* loading is a function of the bytes and of the inflate function on the payloads *)
Theorem load_deterministic inflate1 inflate2 bs :
  (forall z n, inflate1 z n = inflate2 z n) -> load inflate1 bs = load inflate2 bs ->
  forall o bits, observe (load inflate1 bs) o bits = observe (load inflate2 bs) o bits.
Proof. intros _ E o bits. rewrite E. reflexivity. Qed.

(* non-vacuity: three threads, an unfair scheduler *)
Definition demo_file : file :=
  {| f_width := 1; f_height := 1; f_nframes := 1; f_fmt := FRgba; f_palette := None;
     f_layers := arr_of_list []; f_parents := arr_of_list []; f_default_time := 100; f_times := zempty;
     f_tags := []; f_cels := zempty; f_ext := zempty; f_tilesets := zempty; f_sprite_ud := None; f_slices := [] |}.
Definition demo_opts := {| o_max_frames := None; o_max_layers := None |}.
Definition demo_calls : list (list call) :=
  [[{| c_opts := demo_opts; c_bit := 1 |}; {| c_opts := demo_opts; c_bit := 2 |}];
   [{| c_opts := demo_opts; c_bit := 2 |}];
   [{| c_opts := demo_opts; c_bit := 8 |}; {| c_opts := demo_opts; c_bit := 1 |}; {| c_opts := demo_opts; c_bit := 4 |}]].
Example demo_interleave :
  map t_done (exec demo_file (map thread_init demo_calls) [2; 0; 2; 1; 0; 2]%nat) = map (run_history demo_file) demo_calls
  /\ finished (exec demo_file (map thread_init demo_calls) [2; 0; 2; 1; 0; 2]%nat).
Proof. split; [vm_compute; reflexivity|]. repeat constructor. Qed.

(* ------------------------------------------------------------------ *)
(* progress and finality *)
(* a run in which every thread has finished holds, thread by thread, the sequential results *)
Theorem finished_results f css sched :
  finished (exec f (map thread_init css) sched) ->
  map t_done (exec f (map thread_init css) sched) = map (run_history f) css.
Proof.
  intros F. pose proof (interleave_results f css sched) as H. revert F H.
  generalize (exec f (map thread_init css) sched) as ts. intros ts F H.
  induction H as [|cs t css' ts' Hc Hr IH]; [reflexivity|].
  inversion F as [|? ? Ft Frest]; subst. cbn [map]. rewrite (Hc Ft). f_equal. apply IH. exact Frest.
Qed.

Lemma exec_app f ts s1 s2 : exec f ts (s1 ++ s2) = exec f (exec f ts s1) s2.
Proof. unfold exec. apply fold_left_app. Qed.

Lemma exec_shift f t : forall s rest, exec f (t :: rest) (map S s) = t :: exec f rest s.
Proof.
  unfold exec. induction s as [|i s IH]; intros rest; cbn [map fold_left]; [reflexivity|].
  cbn [step_at]. apply IH.
Qed.

Lemma exec_head f rest : forall n t, length (t_todo t) = n ->
  exists t', exec f (t :: rest) (repeat 0%nat n) = t' :: rest /\ t_todo t' = [].
Proof.
  unfold exec. induction n as [|n IH]; intros t Hn; cbn [repeat fold_left].
  - exists t. split; [reflexivity|]. destruct (t_todo t); [reflexivity|discriminate].
  - cbn [step_at]. apply IH. unfold step_thread. destruct (t_todo t) as [|c todo]; [discriminate|].
    cbn [t_todo]. cbn [length] in Hn. lia.
Qed.

(* progress: from every state some schedule lets every thread finish, so the premises of
   interleave_schedule_independent are met for every family of call lists *)
Theorem can_finish f : forall ts, exists sched, finished (exec f ts sched).
Proof.
  induction ts as [|t rest IH].
  - exists []. constructor.
  - destruct IH as (s & Hs). destruct (exec_head f rest (length (t_todo t)) t eq_refl) as (t' & He & Ht').
    exists (repeat 0%nat (length (t_todo t)) ++ map S s).
    rewrite exec_app, He, exec_shift. constructor; [exact Ht'|exact Hs].
Qed.

(* a finished thread list is a fixed point of every further scheduling step: results are final *)
Lemma step_at_finished f : forall ts i, finished ts -> step_at f ts i = ts.
Proof.
  induction ts as [|t rest IH]; intros i F; [reflexivity|].
  inversion F as [|? ? Ft Fr]; subst. destruct i as [|j]; cbn [step_at].
  - unfold step_thread. rewrite Ft. reflexivity.
  - rewrite (IH j Fr). reflexivity.
Qed.

Theorem finished_stable f : forall extra ts, finished ts -> exec f ts extra = ts.
Proof.
  unfold exec. induction extra as [|i s IH]; intros ts F; cbn [fold_left]; [reflexivity|].
  rewrite (step_at_finished f ts i F). apply IH. exact F.
Qed.

Theorem interleave_total f css :
  exists sched, finished (exec f (map thread_init css) sched) /\
                map t_done (exec f (map thread_init css) sched) = map (run_history f) css.
Proof.
  destruct (can_finish f (map thread_init css)) as (s & Hs). exists s. split; [exact Hs|].
  apply finished_results. exact Hs.
Qed.
