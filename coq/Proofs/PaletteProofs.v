(* C11: palettes.  New-format chunk (entry lookup), the two legacy chunk kinds (functional
   specification, id formula, last binding wins), 6-bit scaling, precedence of the new
   format, and completeness of indexed pixels against the palette. *)
From Ase Require Import Model.Validate Spec.EncodeChunks Proofs.ITLemmas Proofs.ArrLemmas Proofs.RoundTrip.
From Coq Require Import Sorting.Permutation.

(* ------------------------------------------------------------------ *)
(* maps keyed by non-negative integers *)

Lemma zfind_zempty {A} k : zfind k (@zempty A) = None.
Proof. unfold zfind, zempty. destruct (k <? 0); [reflexivity|apply PositiveMap.gempty]. Qed.

Lemma zfind_neg {A} k (m : zmap A) : k < 0 -> zfind k m = None.
Proof. intros H. unfold zfind. destruct (Z.ltb_spec k 0); [reflexivity|lia]. Qed.

Lemma zfind_zadd_same {A} k (v : A) m : 0 <= k -> zfind k (zadd k v m) = Some v.
Proof.
  intros H. unfold zfind, zadd. destruct (Z.ltb_spec k 0); [lia|]. apply PositiveMap.gss.
Qed.

Lemma zfind_zadd_other {A} k j (v : A) m : 0 <= j -> k <> j -> zfind k (zadd j v m) = zfind k m.
Proof.
  intros Hj Hne. unfold zfind, zadd. destruct (Z.ltb_spec k 0); [reflexivity|].
  apply PositiveMap.gso. intros E. apply Hne. now apply akey_inj.
Qed.

(* ------------------------------------------------------------------ *)
(* consecutive bindings: xs bound at id, id+1, ... *)

Lemma seq_fold_spec {X} (g : X -> palentry) (xs : list X) : forall id m k, 0 <= id ->
  zfind k (snd (fold_left (seq_step g) xs (id, m)))
  = if (id <=? k) && (k <? id + zlen xs) then option_map g (nthz xs (k - id)) else zfind k m.
Proof.
  induction xs as [|x xs IH]; intros id m k Hid; cbn [fold_left snd].
  - rewrite zlen_nil. destruct (Z.leb_spec id k), (Z.ltb_spec k (id + 0)); cbn [andb]; try reflexivity; lia.
  - unfold seq_step at 2. cbn [fst snd]. rewrite IH by lia. rewrite zlen_cons.
    destruct (Z.eq_dec k id) as [->|Hne].
    + destruct (Z.leb_spec (id + 1) id); [lia|]. cbn [andb].
      rewrite zfind_zadd_same by exact Hid.
      destruct (Z.leb_spec id id); [|lia].
      pose proof (zlen_nonneg xs).
      destruct (Z.ltb_spec id (id + (zlen xs + 1))); [|lia]. cbn [andb].
      rewrite Z.sub_diag, nthz_cons_0. reflexivity.
    + rewrite zfind_zadd_other by assumption.
      destruct (Z.leb_spec (id + 1) k), (Z.ltb_spec k (id + 1 + zlen xs)),
               (Z.leb_spec id k), (Z.ltb_spec k (id + (zlen xs + 1))); cbn [andb]; try reflexivity; try lia.
      rewrite nthz_cons_pos by lia. do 2 f_equal. lia.
Qed.

Lemma seq_fold_fst {X} (g : X -> palentry) (xs : list X) : forall id m,
  fst (fold_left (seq_step g) xs (id, m)) = id + zlen xs.
Proof.
  induction xs as [|x xs IH]; intros id m; cbn [fold_left fst].
  - rewrite zlen_nil. lia.
  - unfold seq_step at 2. cbn [fst snd]. rewrite IH, zlen_cons. lia.
Qed.

(* ------------------------------------------------------------------ *)
(* C11_new *)

Theorem palette_new total first entries rsv t :
  wf_palette first entries -> junk 8 rsv ->
  exists m,
    run_payload dec_palette (enc_palette total first entries rsv ++ t) = Ok m /\
    (forall i e fl, nthz entries i = Some (e, fl) -> zfind (first + i) m = Some e) /\
    (forall k, k < first \/ first + zlen entries <= k -> zfind k m = None).
Proof.
  intros Hwf Hj. pose proof Hwf as (Hf & Hn & Hlast & Hall).
  exists (palette_of first entries). unfold palette_of. split; [|split].
  - eapply run_payload_ok. now apply dec_enc_palette.
  - intros i e fl Hi. apply nthz_some in Hi as Hr. unfold pal_step.
    rewrite seq_fold_spec by exact Hf.
    destruct (Z.leb_spec first (first + i)); [|lia].
    destruct (Z.ltb_spec (first + i) (first + zlen entries)); [|lia]. cbn [andb].
    replace (first + i - first) with i by lia. rewrite Hi. reflexivity.
  - intros k Hk. unfold pal_step. rewrite seq_fold_spec by exact Hf.
    destruct (Z.leb_spec first k), (Z.ltb_spec k (first + zlen entries)); cbn [andb];
      try apply zfind_zempty; lia.
Qed.

(* ------------------------------------------------------------------ *)
(* C11_scale *)

Lemma scale_lor c : 0 <= c < 64 -> Z.lor (Z.shiftl c 2) (Z.shiftr c 4) = scale6 c.
Proof.
  intros H.
  assert (S : forallb (fun c => Z.lor (Z.shiftl c 2) (Z.shiftr c 4) =? scale6 c) (ziota 64) = true)
    by (vm_compute; reflexivity).
  rewrite forallb_forall in S. apply Z.eqb_eq. apply S. apply in_ziota. exact H.
Qed.

Theorem scale_6bit_ok c : 0 <= c < 64 -> scale_6bit c = Ret (scale6 c).
Proof.
  intros H. unfold scale_6bit. destruct (Z.leb_spec 64 c); [lia|]. now rewrite scale_lor.
Qed.

Theorem scale_6bit_bad c : 64 <= c -> scale_6bit c = Fail EInvalid.
Proof. intros H. unfold scale_6bit. destruct (Z.leb_spec 64 c); [reflexivity|lia]. Qed.

Lemma scale6_0 : scale6 0 = 0. Proof. reflexivity. Qed.
Lemma scale6_63 : scale6 63 = 255. Proof. reflexivity. Qed.
Lemma scale6_mono c d : 0 <= c -> c < d -> scale6 c < scale6 d.
Proof. intros Hc H. unfold scale6. pose proof (Z.div_le_mono c d 16 ltac:(lia) ltac:(lia)). lia. Qed.
Lemma scale6_range c : 0 <= c < 64 -> 0 <= scale6 c <= 255.
Proof. intros H. unfold scale6. Z.div_mod_to_equations. lia. Qed.

Theorem scale_summary :
  (forall c, 0 <= c < 64 -> scale_6bit c = Ret (c * 4 + c / 16)) /\
  scale_6bit 0 = Ret 0 /\ scale_6bit 63 = Ret 255 /\
  (forall c d, 0 <= c -> c < d -> d < 64 -> c * 4 + c / 16 < d * 4 + d / 16) /\
  (forall c, 0 <= c < 64 -> 0 <= c * 4 + c / 16 <= 255) /\
  (forall c, 64 <= c -> scale_6bit c = Fail EInvalid).
Proof.
  split; [exact scale_6bit_ok|]. split; [reflexivity|]. split; [reflexivity|].
  split; [intros c d Hc Hcd _; now apply scale6_mono|].
  split; [exact scale6_range|exact scale_6bit_bad].
Qed.

(* ------------------------------------------------------------------ *)
(* C11_old: decode = the functional specification *)

Lemma dec_enc_old_color six st c t :
  wf_old_color six c ->
  run (dec_old_color six st) (enc_old_color c ++ t) = Ok (seq_step (old_entry six) st c, t).
Proof.
  destruct st as [id m]. destruct c as [[r g] b]. intros (Hr & Hg & Hb).
  unfold dec_old_color, enc_old_color, seq_step, old_entry. cbn [fst snd].
  change ([r; g; b] ++ t) with (e_byte r ++ e_byte g ++ e_byte b ++ t).
  destruct six.
  - rewrite run_bind, run_byte. rewrite run_bind, scale_6bit_ok by lia. cbn [run].
    rewrite run_bind, run_byte. rewrite run_bind, scale_6bit_ok by lia. cbn [run].
    rewrite run_bind, run_byte. rewrite run_bind, scale_6bit_ok by lia. cbn [run].
    reflexivity.
  - rewrite run_bind, run_byte. rewrite run_bind. cbn [run].
    rewrite run_bind, run_byte. rewrite run_bind. cbn [run].
    rewrite run_bind, run_byte. rewrite run_bind. cbn [run].
    reflexivity.
Qed.

(* one packet: the skip byte is added to the running offset, which the colours do not advance *)
Definition old_packet_step (six : bool) (st : Z * palette) (p : Z * list rgb) : Z * palette :=
  (fst st + fst p, snd (fold_left (seq_step (old_entry six)) (snd p) (fst st + fst p, snd st))).

Lemma dec_enc_old_packet six st p t :
  wf_old_packet six p ->
  run (dec_old_packet six st) (enc_old_packet p ++ t) = Ok (old_packet_step six st p, t).
Proof.
  destruct st as [skip0 m]. destruct p as [s cs]. intros (Hs & Hn & Hall).
  unfold dec_old_packet, enc_old_packet, old_packet_step. cbn [fst snd].
  repeat rewrite <- app_assoc.
  rewrite run_bind, run_byte. rewrite run_bind, run_byte.
  assert (Hc : (if zlen cs mod 256 =? 0 then 256 else zlen cs mod 256) = zlen cs).
  { destruct (Z.eq_dec (zlen cs) 256) as [->|Hne]; [reflexivity|].
    rewrite Z.mod_small by lia. destruct (Z.eqb_spec (zlen cs) 0); [lia|reflexivity]. }
  rewrite Hc. rewrite run_bind.
  rewrite (run_iterZ_enc (dec_old_color six) enc_old_color (seq_step (old_entry six)) (wf_old_color six)
             (dec_enc_old_color six)) by exact Hall.
  reflexivity.
Qed.

Theorem dec_enc_old_palette_fold six packets t :
  wf_old_palette six packets ->
  run (dec_old_palette six) (enc_old_palette packets ++ t)
  = Ok (snd (fold_left (old_packet_step six) packets (0, zempty)), t).
Proof.
  intros (Hn & Hall). unfold dec_old_palette, enc_old_palette. repeat rewrite <- app_assoc.
  rewrite run_bind, run_word. rewrite run_bind.
  rewrite (run_iterZ_enc (dec_old_packet six) enc_old_packet (old_packet_step six) (wf_old_packet six)
             (dec_enc_old_packet six)) by exact Hall.
  reflexivity.
Qed.

Lemma bind_all_app a b m : bind_all (a ++ b) m = bind_all b (bind_all a m).
Proof. unfold bind_all. apply fold_left_app. Qed.

Lemma seq_fold_bind_all {X} (g : X -> palentry) (xs : list X) : forall id m,
  snd (fold_left (seq_step g) xs (id, m)) = bind_all (combine (zrange id (length xs)) (map g xs)) m.
Proof.
  induction xs as [|x xs IH]; intros id m; cbn [fold_left length zrange map combine]; [reflexivity|].
  unfold seq_step at 2. cbn [fst snd]. rewrite IH. reflexivity.
Qed.

Lemma old_fold_bindings six packets : forall skip0 m,
  snd (fold_left (old_packet_step six) packets (skip0, m)) = bind_all (old_bindings six skip0 packets) m.
Proof.
  induction packets as [|[s cs] ps IH]; intros skip0 m; cbn [fold_left old_bindings]; [reflexivity|].
  unfold old_packet_step at 2. cbn [fst snd]. rewrite IH, bind_all_app, seq_fold_bind_all. reflexivity.
Qed.

Theorem palette_old six packets t :
  wf_old_palette six packets ->
  run_payload (dec_old_palette six) (enc_old_palette packets ++ t) = Ok (old_palette_spec six packets).
Proof.
  intros H. eapply run_payload_ok. rewrite dec_enc_old_palette_fold by exact H.
  unfold old_palette_spec. now rewrite old_fold_bindings.
Qed.

(* the last binding of a key wins *)
Lemma bind_all_lookup k bs : forall m, (forall kv, In kv bs -> 0 <= fst kv) ->
  zfind k (bind_all bs m) = match last_binding k bs with Some e => Some e | None => zfind k m end.
Proof.
  induction bs as [|kv bs IH] using rev_ind; intros m Hnn.
  - reflexivity.
  - rewrite bind_all_app. unfold last_binding. rewrite rev_app_distr. cbn [rev app find].
    unfold bind_all at 1. cbn [fold_left].
    assert (Hkv : 0 <= fst kv) by (apply Hnn, in_or_app; right; now left).
    destruct (Z.eqb_spec (fst kv) k) as [E|Hne].
    + rewrite <- E. now rewrite zfind_zadd_same.
    + rewrite zfind_zadd_other by (try exact Hkv; congruence).
      apply IH. intros kv' Hin. apply Hnn, in_or_app. now left.
Qed.

Lemma old_bindings_nonneg six packets : forall skip0, 0 <= skip0 ->
  Forall (fun p => 0 <= fst p) packets ->
  forall kv, In kv (old_bindings six skip0 packets) -> 0 <= fst kv.
Proof.
  induction packets as [|[s cs] ps IH]; intros skip0 H0 Hall kv; cbn [old_bindings]; [intros []|].
  inversion Hall as [|p ps' Hs Hps]; subst. cbn [fst] in Hs.
  intros Hin. apply in_app_or in Hin. destruct Hin as [Hin|Hin].
  - destruct kv as [k e]. apply in_combine_l in Hin. apply in_zrange in Hin. cbn [fst]. lia.
  - apply (IH (skip0 + s)); [lia|exact Hps|exact Hin].
Qed.

Lemma wf_old_skips six packets : wf_old_palette six packets -> Forall (fun p => 0 <= fst p) packets.
Proof.
  intros (_ & Hall). eapply Forall_impl; [|exact Hall].
  intros [s cs] (Hs & _). cbn [fst]. unfold is_byte in Hs. lia.
Qed.

Theorem old_palette_last_wins six packets k :
  wf_old_palette six packets ->
  zfind k (old_palette_spec six packets) = last_binding k (old_bindings six 0 packets).
Proof.
  intros H. unfold old_palette_spec. rewrite bind_all_lookup.
  - destruct (last_binding k _); [reflexivity|apply zfind_zempty].
  - apply old_bindings_nonneg; [lia|now apply (wf_old_skips six)].
Qed.

(* a chunk of one packet: colour j goes to id skip + j, nothing else is bound *)
Theorem palette_old_single six s cs :
  wf_old_packet six (s, cs) ->
  (forall j c, nthz cs j = Some c -> zfind (s + j) (old_palette_spec six [(s, cs)]) = Some (old_entry six c)) /\
  (forall k, k < s \/ s + zlen cs <= k -> zfind k (old_palette_spec six [(s, cs)]) = None).
Proof.
  intros (Hs & Hn & Hall). unfold is_byte in Hs.
  assert (E : old_palette_spec six [(s, cs)]
              = snd (fold_left (seq_step (old_entry six)) cs (0 + s, zempty))).
  { unfold old_palette_spec. cbn [old_bindings]. rewrite app_nil_r. now rewrite seq_fold_bind_all. }
  rewrite E. split.
  - intros j c Hj. apply nthz_some in Hj as Hr. rewrite seq_fold_spec by lia.
    destruct (Z.leb_spec (0 + s) (s + j)); [|lia].
    destruct (Z.ltb_spec (s + j) (0 + s + zlen cs)); [|lia]. cbn [andb].
    replace (s + j - (0 + s)) with j by lia. now rewrite Hj.
  - intros k Hk. rewrite seq_fold_spec by lia.
    destruct (Z.leb_spec (0 + s) k), (Z.ltb_spec k (0 + s + zlen cs)); cbn [andb];
      try apply zfind_zempty; lia.
Qed.

(* packet p of a chunk starts at the sum of the skip bytes of packets 0..p, and a colour
   that no later packet overwrites is found there *)

Lemma old_bindings_app six a b : forall skip0,
  old_bindings six skip0 (a ++ b) = old_bindings six skip0 a ++ old_bindings six (skip0 + skip_sum a) b.
Proof.
  induction a as [|[s cs] a IH]; intros skip0; cbn [app old_bindings skip_sum].
  - now rewrite Z.add_0_r.
  - rewrite IH, <- app_assoc. do 3 f_equal. lia.
Qed.

Theorem palette_old_last_packet six before s cs j c :
  wf_old_palette six (before ++ [(s, cs)]) -> nthz cs j = Some c ->
  zfind (skip_sum before + s + j) (old_palette_spec six (before ++ [(s, cs)])) = Some (old_entry six c).
Proof.
  intros Hwf Hj. pose proof (wf_old_skips six _ Hwf) as Hsk.
  apply Forall_app in Hsk. destruct Hsk as (Hsk1 & Hsk2).
  inversion Hsk2 as [|p ps Hs _]; subst. cbn [fst] in Hs.
  assert (Hsum : 0 <= skip_sum before).
  { clear -Hsk1. induction before as [|[s' cs'] b IH]; cbn [skip_sum]; [lia|].
    inversion Hsk1 as [|p ps Hs Hb]; subst. cbn [fst] in Hs. specialize (IH Hb). lia. }
  unfold old_palette_spec. rewrite old_bindings_app, bind_all_app. cbn [old_bindings].
  rewrite app_nil_r, <- seq_fold_bind_all. apply nthz_some in Hj as Hr.
  rewrite seq_fold_spec by lia.
  destruct (Z.leb_spec (0 + skip_sum before + s) (skip_sum before + s + j)); [|lia].
  destruct (Z.ltb_spec (skip_sum before + s + j) (0 + skip_sum before + s + zlen cs)); [|lia].
  cbn [andb]. replace (skip_sum before + s + j - (0 + skip_sum before + s)) with j by lia.
  now rewrite Hj.
Qed.

(* ------------------------------------------------------------------ *)
(* C11_precedence: a new-format palette wins over legacy chunks in either order *)

Section Precedence.
Variable inflate : list Z -> Z -> zres.

(* a legacy chunk after some palette: the palette is kept, the chunk is not even decoded *)
Lemma process_old_kept fmt fid p ty data pal :
  ty = 4 \/ ty = 17 -> pi_palette p = Some pal ->
  process_chunk inflate fmt fid p (ty, data) = Ok (with_ctx p (Some UOldPalette)).
Proof.
  intros [-> | ->] Hp; unfold process_chunk; cbn [Z.eqb Pos.eqb orb];
    cbn [with_ctx pi_palette]; rewrite Hp; reflexivity.
Qed.

(* a legacy chunk when there is no palette yet: it becomes the palette *)
Lemma process_old_first fmt fid p ty data :
  ty = 4 \/ ty = 17 -> pi_palette p = None ->
  process_chunk inflate fmt fid p (ty, data)
  = (pal <-- run_payload (dec_old_palette (ty =? 17)) data ;;;
     Ok (with_palette (with_ctx p (Some UOldPalette)) (Some pal))).
Proof.
  intros [-> | ->] Hp; unfold process_chunk; cbn [Z.eqb Pos.eqb orb];
    cbn [with_ctx pi_palette]; rewrite Hp; reflexivity.
Qed.

(* a new-format chunk always replaces the palette *)
Lemma process_new fmt fid p data :
  process_chunk inflate fmt fid p (8217, data)
  = (pal <-- run_payload dec_palette data ;;; Ok (with_palette p (Some pal))).
Proof. reflexivity. Qed.

Lemma process_new_palette fmt fid p data p' pal :
  run_payload dec_palette data = Ok pal ->
  process_chunk inflate fmt fid p (8217, data) = Ok p' -> pi_palette p' = Some pal.
Proof. intros Hd. rewrite process_new, Hd. cbn [rbind]. intros [= <-]. reflexivity. Qed.

(* no chunk other than a new-format palette chunk changes an existing palette *)
Lemma process_keeps_palette fmt fid p ty data p' pal :
  ty <> 8217 -> pi_palette p = Some pal ->
  process_chunk inflate fmt fid p (ty, data) = Ok p' -> pi_palette p' = Some pal.
Proof.
  intros Hty Hp. unfold process_chunk.
  destruct (ty =? 8199).
  { destruct (run_payload dec_color_profile data); cbn [rbind]; intros [= <-]. exact Hp. }
  destruct (Z.eqb_spec ty 8217) as [E|_]; [contradiction|].
  destruct (ty =? 8196).
  { destruct (run_payload dec_layer data); cbn [rbind]; intros [= <-]. exact Hp. }
  destruct (ty =? 8197).
  { destruct (dec_cel inflate fmt data) as [c|e|s]; cbn [rbind]; try discriminate.
    unfold add_cel. destruct (pi_nlayers p <=? cc_layer (c_data c)); [discriminate|].
    destruct (table_add_cel _ _ _ _); cbn [rbind]; intros [= <-]. exact Hp. }
  destruct (ty =? 8200).
  { destruct (run_payload dec_external data); cbn [rbind]; intros [= <-]. exact Hp. }
  destruct (ty =? 8216).
  { destruct (run_payload dec_tags data); cbn [rbind]; intros [= <-].
    destruct (fid =? 0); exact Hp. }
  destruct (ty =? 8226).
  { destruct (run_payload dec_slice data); cbn [rbind]; intros [= <-]. exact Hp. }
  destruct (ty =? 8224).
  { destruct (run_payload dec_userdata data) as [u|e|s]; cbn [rbind]; try discriminate.
    unfold add_user_data. destruct (pi_ctx p) as [[f l|i| |i|i]|]; try discriminate.
    - destruct (table_set_cel_ud _ _ _ _); intros [= <-]. exact Hp.
    - destruct (upd_rev _ _ _ _); intros [= <-]. exact Hp.
    - intros [= <-]. exact Hp.
    - destruct (pi_tags p) as [ts|]; [|discriminate].
      destruct (nthz ts i); [|discriminate].
      destruct (65535 <=? i); [discriminate|]. intros [= <-]. exact Hp.
    - destruct (upd_rev _ _ _ _); intros [= <-]. exact Hp. }
  destruct ((ty =? 4) || (ty =? 17)).
  { cbn [with_ctx pi_palette]. rewrite Hp. intros [= <-]. exact Hp. }
  destruct (ty =? 8227).
  { destruct (dec_tileset inflate fmt data); cbn [rbind]; intros [= <-]. exact Hp. }
  intros [= <-]. exact Hp.
Qed.

Lemma rfold_keeps_palette fmt fid chunks : forall p p' pal,
  Forall (fun ch => fst ch <> 8217) chunks -> pi_palette p = Some pal ->
  rfold (process_chunk inflate fmt fid) chunks p = Ok p' -> pi_palette p' = Some pal.
Proof.
  induction chunks as [|[ty data] chunks IH]; intros p p' pal Hall Hp; cbn [rfold].
  - intros [= <-]. exact Hp.
  - inversion Hall as [|c cs Hty Hrest]; subst. cbn [fst] in Hty.
    destruct (process_chunk inflate fmt fid p (ty, data)) as [p1|e|s] eqn:P; cbn [rbind]; try discriminate.
    apply (IH p1 p' pal Hrest). eapply process_keeps_palette; eassumption.
Qed.

Lemma rfold_app {A B} (f : B -> A -> res B) a b x :
  rfold f (a ++ b) x = (y <-- rfold f a x ;;; rfold f b y).
Proof.
  revert x. induction a as [|h a IH]; intros x; cbn [app rfold rbind]; [reflexivity|].
  destruct (f x h); cbn [rbind]; [apply IH|reflexivity|reflexivity].
Qed.

(* new-format chunk first: whatever follows (legacy palettes included), its palette stays *)
Theorem new_palette_then_others fmt fid p data pal chunks p' :
  run_payload dec_palette data = Ok pal ->
  Forall (fun ch => fst ch <> 8217) chunks ->
  rfold (process_chunk inflate fmt fid) ((8217, data) :: chunks) p = Ok p' ->
  pi_palette p' = Some pal.
Proof.
  intros Hd Hall. cbn [rfold]. rewrite process_new, Hd. cbn [rbind].
  apply rfold_keeps_palette; [exact Hall|reflexivity].
Qed.

(* new-format chunk last: whatever came before (legacy palettes included), its palette is
   the result *)
Theorem others_then_new_palette fmt fid p data pal chunks p' :
  run_payload dec_palette data = Ok pal ->
  rfold (process_chunk inflate fmt fid) (chunks ++ [(8217, data)]) p = Ok p' ->
  pi_palette p' = Some pal.
Proof.
  intros Hd. rewrite rfold_app.
  destruct (rfold (process_chunk inflate fmt fid) chunks p) as [p1|e|s]; cbn [rbind rfold]; try discriminate.
  rewrite process_new, Hd. cbn [rbind]. intros [= <-]. reflexivity.
Qed.

(* the two-chunk instances *)
Corollary precedence_new_old fmt fid p dnew dold ty pal :
  ty = 4 \/ ty = 17 -> run_payload dec_palette dnew = Ok pal ->
  exists p', rfold (process_chunk inflate fmt fid) [(8217, dnew); (ty, dold)] p = Ok p' /\
             pi_palette p' = Some pal /\ pi_ctx p' = Some UOldPalette.
Proof.
  intros Hty Hd. cbn [rfold]. rewrite process_new, Hd. cbn [rbind].
  rewrite (process_old_kept fmt fid _ ty dold pal Hty) by reflexivity. cbn [rbind].
  eexists. split; [reflexivity|]. split; reflexivity.
Qed.

Corollary precedence_old_new fmt fid p dnew dold ty pal p' :
  ty = 4 \/ ty = 17 -> run_payload dec_palette dnew = Ok pal ->
  rfold (process_chunk inflate fmt fid) [(ty, dold); (8217, dnew)] p = Ok p' ->
  pi_palette p' = Some pal.
Proof.
  intros Hty Hd. apply (others_then_new_palette fmt fid p dnew pal [(ty, dold)] p' Hd).
Qed.
End Precedence.

(* ------------------------------------------------------------------ *)
(* C11_complete: indexed pixels need a palette that binds every index used *)

Lemma validate_pixels_no_palette fmt bg l : validate_pixels None fmt bg (RPIndexed l) = Err EInvalid.
Proof. reflexivity. Qed.

Lemma validate_pixels_missing pal fmt bg l i :
  In i l -> zfind i pal = None -> validate_pixels (Some pal) fmt bg (RPIndexed l) = Err EInvalid.
Proof.
  intros Hin Hz. unfold validate_pixels.
  destruct (forallb (fun i => is_some (zfind i pal)) l) eqn:F; [|reflexivity].
  rewrite forallb_forall in F. specialize (F i Hin). rewrite Hz in F. discriminate.
Qed.

Lemma validate_pixels_uncovered pal fmt bg rp :
  uncovered pal rp -> validate_pixels pal fmt bg rp = Err EInvalid.
Proof.
  intros (l & -> & [-> | (p & i & -> & Hin & Hz)]).
  - apply validate_pixels_no_palette.
  - eapply validate_pixels_missing; eassumption.
Qed.

(* conversely, indexed pixels validate exactly when the palette covers them *)
Lemma validate_pixels_indexed_ok pal ti bg l px :
  validate_pixels pal (FIndexed ti) bg (RPIndexed l) = Ok px ->
  exists p, pal = Some p /\ forall i, In i l -> exists e, zfind i p = Some e.
Proof.
  unfold validate_pixels. destruct pal as [p|]; [|discriminate].
  destruct (forallb (fun i => is_some (zfind i p)) l) eqn:F; [|discriminate].
  intros _. exists p. split; [reflexivity|]. intros i Hin.
  rewrite forallb_forall in F. specialize (F i Hin). destruct (zfind i p) as [e|]; [now exists e|discriminate].
Qed.

Lemma validate_tileset_uncovered pal fmt t rp :
  ts_pixels t = Some rp -> uncovered pal rp -> validate_tileset pal fmt t = Err EInvalid.
Proof.
  intros Hpx Hu. unfold validate_tileset. rewrite Hpx, validate_pixels_uncovered by exact Hu. reflexivity.
Qed.

Lemma validate_cel_uncovered layers tss pal fmt t nframes nlayers layer_id c w h rp :
  c_content c = CRaw w h rp -> uncovered pal rp ->
  validate_cel layers tss pal fmt t nframes nlayers layer_id c
  = match aget layers layer_id with Some _ => Err EInvalid | None => Panic 105 end.
Proof.
  intros Hc Hu. unfold validate_cel. rewrite Hc.
  destruct (aget layers layer_id) as [l|]; [|reflexivity].
  rewrite validate_pixels_uncovered by exact Hu. reflexivity.
Qed.

Lemma validate_cel_uncovered_not_ok layers tss pal fmt t nframes nlayers layer_id c w h rp c' :
  c_content c = CRaw w h rp -> uncovered pal rp ->
  validate_cel layers tss pal fmt t nframes nlayers layer_id c <> Ok c'.
Proof.
  intros Hc Hu. rewrite (validate_cel_uncovered _ _ _ _ _ _ _ _ _ w h rp Hc Hu).
  destruct (aget layers layer_id); discriminate.
Qed.

(* --- lifting to ParseInfo::validate --- *)

Lemma zelements_in {A} (m : zmap A) k v : zfind k m = Some v -> In (k, v) (zelements m).
Proof.
  intros H. unfold zelements. apply in_flat_map. exists k. split.
  - unfold zkeys. eapply Permutation_in; [apply ZSort.Permuted_sort|].
    unfold zfind in H. destruct (Z.ltb_spec k 0) as [Hk|Hk]; [discriminate|].
    apply PositiveMap.elements_correct in H.
    apply in_map_iff. exists (akey k, v). split; [|exact H].
    cbn [fst]. unfold akey. rewrite Z2Pos.id by lia. lia.
  - rewrite H. now left.
Qed.

Lemma rfold_ok_each {A B} (f : B -> A -> res B) l : forall b b',
  rfold f l b = Ok b' -> forall x, In x l -> exists b0 b1, f b0 x = Ok b1.
Proof.
  induction l as [|y l IH]; intros b b' H x Hin; [destruct Hin|].
  cbn [rfold] in H. destruct (f b y) as [b1|e|s] eqn:F; cbn [rbind] in H; try discriminate.
  destruct Hin as [<-|Hin]; [now exists b, b1|]. eapply IH; eassumption.
Qed.

Lemma validate_tilesets_each pal fmt m tss k t :
  validate_tilesets pal fmt m = Ok tss -> zfind k m = Some t ->
  exists t', validate_tileset pal fmt t = Ok t'.
Proof.
  intros H Hk. unfold validate_tilesets in H.
  destruct (rfold_ok_each _ _ _ _ H (k, t) (zelements_in _ _ _ Hk)) as (b0 & b1 & F).
  cbn [fst snd] in F. destruct (validate_tileset pal fmt t) as [t'|e|s]; [now exists t'|discriminate|discriminate].
Qed.

Lemma validate_row_each layers tss pal fmt t nframes nlayers r : forall lid r',
  validate_row layers tss pal fmt t nframes nlayers r lid = Ok r' ->
  forall j c, nthz r j = Some (Some c) ->
  exists c', validate_cel layers tss pal fmt t nframes nlayers (lid + j) c = Ok c'.
Proof.
  induction r as [|oc r IH]; intros lid r' H j c Hj.
  - apply nthz_some in Hj. unfold zlen in Hj. cbn [length] in Hj. lia.
  - cbn [validate_row] in H. apply nthz_some in Hj as Hr.
    destruct (Z.eq_dec j 0) as [->|Hne].
    + rewrite nthz_cons_0 in Hj. injection Hj as ->.
      destruct (validate_cel layers tss pal fmt t nframes nlayers lid c) as [c'|e|s] eqn:V;
        cbn [rbind] in H; try discriminate.
      exists c'. now rewrite Z.add_0_r.
    + rewrite nthz_cons_pos in Hj by lia.
      destruct (match oc with Some c0 => _ | None => Ok None end) as [oc'|e|s]; cbn [rbind] in H; try discriminate.
      destruct (validate_row layers tss pal fmt t nframes nlayers r (lid + 1)) as [rest'|e|s] eqn:R;
        cbn [rbind] in H; try discriminate.
      destruct (IH _ _ R _ _ Hj) as (c' & Hc'). exists c'.
      replace (lid + j) with (lid + 1 + (j - 1)) by lia. exact Hc'.
Qed.

Lemma validate_cels_each layers tss pal fmt t nframes nlayers cels frame r layer c :
  validate_cels layers tss pal fmt t nframes nlayers = Ok cels ->
  zfind frame t = Some r -> nthz r layer = Some (Some c) ->
  exists c', validate_cel layers tss pal fmt t nframes nlayers layer c = Ok c'.
Proof.
  intros H Hf Hl. unfold validate_cels in H.
  destruct (rfold_ok_each _ _ _ _ H (frame, r) (zelements_in _ _ _ Hf)) as (b0 & b1 & F).
  cbn [fst snd] in F.
  destruct (validate_row layers tss pal fmt t nframes nlayers r 0) as [r'|e|s] eqn:R; cbn [rbind] in F; try discriminate.
  destruct (validate_row_each _ _ _ _ _ _ _ _ _ _ R _ _ Hl) as (c' & Hc'). now exists c'.
Qed.

Theorem validate_incomplete hd p f : incomplete p -> validate hd p <> Ok f.
Proof.
  intros Hinc H. unfold validate in H; rewrite ?frev_eq in H.
  destruct (compute_parents (rev (pi_layers_rev p))) as [ps|e|s]; cbn [rbind] in H; try discriminate.
  destruct (validate_tilesets (pi_palette p) (h_fmt hd) (pi_tilesets p)) as [tss|e|s] eqn:VT;
    cbn [rbind] in H; try discriminate.
  destruct (validate_layers (rev (pi_layers_rev p)) tss) as [u|e|s]; cbn [rbind] in H; try discriminate.
  destruct (validate_cels _ _ _ _ _ _ _) as [cs|e|s] eqn:VC; cbn [rbind] in H; try discriminate.
  destruct Hinc as [(frame & r & layer & c & w & h & rp & Hf & Hl & Hc & Hu)|(k & t & rp & Hk & Hpx & Hu)].
  - destruct (validate_cels_each _ _ _ _ _ _ _ _ _ _ _ _ VC Hf Hl) as (c' & Hc').
    exact (validate_cel_uncovered_not_ok _ _ _ _ _ _ _ _ _ _ _ _ _ Hc Hu Hc').
  - destruct (validate_tilesets_each _ _ _ _ _ _ VT Hk) as (t' & Ht').
    rewrite (validate_tileset_uncovered _ _ _ _ Hpx Hu) in Ht'. discriminate.
Qed.

Theorem load_incomplete inflate bs hd p rest f :
  run (parse_file inflate) bs = Ok ((hd, p), rest) -> incomplete p -> load inflate bs <> Ok f.
Proof.
  intros R Hinc. unfold load, load_rest, rmap. rewrite R. cbn [rbind fst snd].
  destruct (validate hd p) as [f'|e|s] eqn:V; cbn [rbind]; try discriminate.
  exfalso. exact (validate_incomplete hd p f' Hinc V).
Qed.
