(* C01 end to end, tilesets: what a sprite that loads reports for every tileset id is the LAST tileset chunk of the
   program with that id, attribute by attribute, its pixels being the stored bytes converted for the sprite's colour
   mode and checked against the final palette. *)
From Ase Require Import Model.Api Spec.Serialize.
From Ase Require Import Proofs.ITLemmas Proofs.ArrLemmas Proofs.RoundTrip Proofs.PaletteProofs.
From Ase Require Import Proofs.Factor Proofs.Neutral Proofs.UserData Proofs.EndToEnd Proofs.NoPanicLoad.

(* ---------------- the assembled tileset map ---------------- *)

Definition bind_ts (m : zmap (tileset rawpixels)) (t : tileset rawpixels) : zmap (tileset rawpixels) := zadd (ts_id t) t m.
Definition ev_ts_step (m : zmap (tileset rawpixels)) (e : ev) : zmap (tileset rawpixels) :=
  match e with EOther (OTileset t) => bind_ts m t | _ => m end.

Lemma add_cel_tilesets p fid c p' : add_cel p fid c = Ok p' -> pi_tilesets p' = pi_tilesets p.
Proof. intros H. apply Neutral.add_cel_ok in H. destruct H as (_ & t & _ & ->). reflexivity. Qed.

Lemma add_user_data_tilesets p u p' : add_user_data p u = Ok p' -> pi_tilesets p' = pi_tilesets p.
Proof.
  unfold add_user_data. destruct (pi_ctx p) as [[f l|i| |i|i]|]; try discriminate.
  - destruct (table_set_cel_ud _ _ _ _); [|discriminate]. intros [= <-]. reflexivity.
  - destruct (upd_rev _ _ _ _); [|discriminate]. intros [= <-]. reflexivity.
  - intros [= <-]. reflexivity.
  - destruct (pi_tags p); [|discriminate]. destruct (nthz _ _); [|discriminate].
    destruct (65535 <=? i); [discriminate|]. intros [= <-]. reflexivity.
  - destruct (upd_rev _ _ _ _); [|discriminate]. intros [= <-]. reflexivity.
Qed.

Lemma step_tilesets p e p' : step p e = Ok p' -> pi_tilesets p' = ev_ts_step (pi_tilesets p) e.
Proof.
  destruct e as [l|fr c|sl|ts|o|o|u]; cbn [step ev_ts_step].
  - intros [= <-]. reflexivity.
  - apply add_cel_tilesets.
  - intros [= <-]. reflexivity.
  - intros [= <-]. reflexivity.
  - intros [= <-]. destruct o; reflexivity.
  - intros [= <-]. destruct o; reflexivity.
  - apply add_user_data_tilesets.
Qed.

Lemma rfold_tilesets evs : forall p p', rfold step evs p = Ok p' -> pi_tilesets p' = fold_left ev_ts_step evs (pi_tilesets p).
Proof.
  induction evs as [|e t IH]; intros p p'; cbn [rfold fold_left].
  - intros [= <-]. reflexivity.
  - intros H. apply rbind_ok in H. destruct H as (p1 & H1 & H). rewrite (IH _ _ H), (step_tilesets _ _ _ H1). reflexivity.
Qed.

(* the tilesets a program's chunks encode, in file order (pixels: the stored bytes read in the sprite's colour mode) *)
Definition item_ts (fmt : pixfmt) (it : chunk_item) : list (tileset rawpixels) :=
  match it with
  | ITileset t _ _ _ TilesNone _ => [t]
  | ITileset t _ _ _ (TilesZ _ bytes) _ => [set_ts_pixels t (Some (raw_of fmt bytes))]
  | _ => []
  end.
Definition prog_tilesets (s : sprite_prog) : list (tileset rawpixels) :=
  flat_map (fun fr => flat_map (item_ts (prog_fmt s)) (fp_items fr)) (sp_frames s).

Lemma items_events_ts fmt fid items : forall hp m,
  fold_left ev_ts_step (items_events fmt fid hp items) m = fold_left bind_ts (flat_map (item_ts fmt) items) m.
Proof.
  induction items as [|it t IH]; intros hp m; cbn [items_events fold_left flat_map]; [reflexivity|].
  rewrite fold_left_app, IH. f_equal.
  destruct it; cbn [item_ev ev_ts_step item_ts fold_left]; try reflexivity;
    [destruct (fid =? 0); reflexivity|destruct body; reflexivity].
Qed.

Lemma frames_events_ts fmt frames : forall fid hp m,
  fold_left ev_ts_step (frames_events_of fmt fid hp frames) m
  = fold_left bind_ts (flat_map (fun fr => flat_map (item_ts fmt) (fp_items fr)) frames) m.
Proof.
  induction frames as [|fr t IH]; intros fid hp m; cbn [frames_events_of fold_left flat_map ev_ts_step]; [reflexivity|].
  rewrite !fold_left_app, items_events_ts, IH. reflexivity.
Qed.

(* insert = last wins *)
Lemma zfind_fold_bind_ts ts : forall m k,
  0 <= k -> (forall t, In t ts -> 0 <= ts_id t) ->
  zfind k (fold_left bind_ts ts m)
  = match find (fun t => ts_id t =? k) (rev ts) with Some t => Some t | None => zfind k m end.
Proof.
  induction ts as [|t r IH] using rev_ind; intros m k Hk Hn; [reflexivity|].
  rewrite fold_left_app, rev_app_distr. cbn [fold_left rev app find]. unfold bind_ts at 1.
  assert (Ht : 0 <= ts_id t) by (apply Hn, in_or_app; right; left; reflexivity).
  destruct (Z.eqb_spec (ts_id t) k) as [E|E].
  - subst k. apply PaletteProofs.zfind_zadd_same. exact Ht.
  - rewrite PaletteProofs.zfind_zadd_other by (try exact Ht; congruence).
    apply IH; [exact Hk|]. intros t' H'. apply Hn, in_or_app. left. exact H'.
Qed.

(* ---------------- validation of the tileset map, key by key ---------------- *)

Lemma zelements_keys_nonneg {A} (m : zmap A) k v : In (k, v) (zelements m) -> 0 <= k.
Proof.
  intros H. apply in_zelements in H. unfold zfind in H. destruct (k <? 0) eqn:E; [discriminate|lia].
Qed.

Lemma rfold_validate_tilesets pal fmt l : forall acc tss,
  rfold (fun acc kv => t <-- validate_tileset pal fmt (snd kv) ;;; Ok (zadd (fst kv) t acc)) l acc = Ok tss ->
  (forall kv, In kv l -> 0 <= fst kv) ->
  forall k, 0 <= k ->
    (exists t ts, In (k, t) l /\ validate_tileset pal fmt t = Ok ts /\ zfind k tss = Some ts) \/
    ((forall t, ~ In (k, t) l) /\ zfind k tss = zfind k acc).
Proof.
  induction l as [|[k0 t0] r IH]; intros acc tss H Hn k Hk; cbn [rfold] in H.
  - injection H as <-. right. split; [intros t []|reflexivity].
  - cbn [fst snd] in H. destruct (validate_tileset pal fmt t0) as [ts0|e|s] eqn:V; cbn [rbind] in H; try discriminate.
    assert (Hk0 : 0 <= k0) by (apply (Hn (k0, t0)); left; reflexivity).
    destruct (IH _ _ H (fun kv Hin => Hn kv (or_intror Hin)) k Hk) as [(t & ts & Hin & Hv & Hf)|(Hno & Hf)].
    + left. exists t, ts. split; [right; exact Hin|]. split; assumption.
    + destruct (Z.eq_dec k k0) as [->|Hne].
      * left. exists t0, ts0. split; [left; reflexivity|]. split; [exact V|].
        rewrite Hf. apply PaletteProofs.zfind_zadd_same. exact Hk0.
      * right. split.
        -- intros t [E|Hin]; [injection E as E _; congruence|exact (Hno t Hin)].
        -- rewrite Hf. apply PaletteProofs.zfind_zadd_other; [exact Hk0|exact Hne].
Qed.

(* a validated tileset map holds, under every key of the raw map, the validated version of that entry, and nothing else *)
Theorem validate_tilesets_find pal fmt m tss :
  validate_tilesets pal fmt m = Ok tss ->
  forall k, 0 <= k ->
    match zfind k m with
    | Some t => exists ts, validate_tileset pal fmt t = Ok ts /\ zfind k tss = Some ts
    | None => zfind k tss = None
    end.
Proof.
  unfold validate_tilesets. intros H k Hk.
  destruct (rfold_validate_tilesets pal fmt _ _ _ H (fun kv Hin => zelements_keys_nonneg m (fst kv) (snd kv)
              (eq_ind _ (fun x => In x (zelements m)) Hin _ (surjective_pairing kv))) k Hk)
    as [(t & ts & Hin & Hv & Hf)|(Hno & Hf)].
  - apply in_zelements in Hin. rewrite Hin. exists ts. split; assumption.
  - destruct (zfind k m) as [t|] eqn:E.
    + exfalso. apply (Hno t). apply zelements_in. exact E.
    + rewrite Hf. apply PaletteProofs.zfind_zempty.
Qed.

(* validation changes the pixels and nothing else *)
Lemma validate_tileset_attrs pal fmt t ts :
  validate_tileset pal fmt t = Ok ts ->
  ts_id ts = ts_id t /\ ts_empty0 ts = ts_empty0 t /\ ts_count ts = ts_count t /\ ts_w ts = ts_w t /\ ts_h ts = ts_h t /\
  ts_base ts = ts_base t /\ ts_name ts = ts_name t /\ ts_ext ts = ts_ext t /\
  exists rp px, ts_pixels t = Some rp /\ validate_pixels pal fmt false rp = Ok px /\ ts_pixels ts = Some px.
Proof.
  unfold validate_tileset. destruct (ts_pixels t) as [rp|] eqn:E; [|discriminate].
  destruct (validate_pixels pal fmt false rp) as [px|e|s0] eqn:V; cbn [rbind]; try discriminate.
  intros [= <-]. destruct t; cbn. repeat split; try reflexivity. exists rp, px. cbn in E. repeat split; assumption.
Qed.

Lemma validate_tilesets_field h p f :
  validate h p = Ok f -> validate_tilesets (pi_palette p) (h_fmt h) (pi_tilesets p) = Ok (f_tilesets f).
Proof.
  unfold validate; rewrite ?frev_eq. intros H.
  apply rbind_ok in H. destruct H as (parents & _ & H).
  apply rbind_ok in H. destruct H as (tss & Ht & H).
  apply rbind_ok in H. destruct H as (u & _ & H).
  apply rbind_ok in H. destruct H as (cels & _ & [= <-]).
  exact Ht.
Qed.

Section Tilesets.
Variable inflate : list Z -> Z -> zres.
Variables (s : sprite_prog) (tail : list Z) (f : file).
Hypothesis Hwf : wf_prog s.
Hypothesis Hz : inflate_ok inflate s.
Hypothesis Hload : load inflate (serialize s ++ tail) = Ok f.

Lemma ids_nonneg : forall t, In t (prog_tilesets s) -> 0 <= ts_id t.
Proof.
  intros t Ht. unfold prog_tilesets in Ht. apply in_flat_map in Ht. destruct Ht as (fr & Hfr & Ht).
  apply in_flat_map in Ht. destruct Ht as (it & Hit & Ht).
  destruct Hwf as (_ & _ & _ & Hfrs). rewrite Forall_forall in Hfrs. specialize (Hfrs fr Hfr).
  destruct Hfrs as (_ & _ & _ & _ & _ & Hits & _). rewrite Forall_forall in Hits. specialize (Hits it Hit).
  destruct it; cbn [item_ts] in Ht; try contradiction.
  cbn [wf_item] in Hits. destruct Hits as ((Hid & _) & _).
  destruct body; destruct Ht as [<-|[]]; cbn [set_ts_pixels ts_id]; unfold is_dword in Hid; lia.
Qed.

(* TILESETS: for every id, the last tileset chunk with that id - every header attribute as encoded, the pixels validated *)
Theorem e2e_tilesets k : 0 <= k ->
  match find (fun t => ts_id t =? k) (rev (prog_tilesets s)) with
  | Some t => exists ts, validate_tileset (f_palette f) (f_fmt f) t = Ok ts /\ zfind k (f_tilesets f) = Some ts
  | None => zfind k (f_tilesets f) = None
  end.
Proof.
  intros Hk.
  destruct (load_serialize_ok inflate s tail f Hwf Hz Hload) as (p & Hf & Hv).
  pose proof (validate_tilesets_field _ _ _ Hv) as Ht.
  pose proof (validate_fields _ _ _ Hv) as (_ & _ & _ & Efmt & Epal & _).
  rewrite <- Epal, <- Efmt in Ht.
  pose proof (validate_tilesets_find _ _ _ _ Ht k Hk) as Hfind.
  rewrite (rfold_tilesets _ _ _ Hf) in Hfind. unfold events_of in Hfind. rewrite frames_events_ts in Hfind.
  fold (prog_tilesets s) in Hfind.
  rewrite zfind_fold_bind_ts in Hfind by (try exact Hk; exact ids_nonneg).
  cbn [pinfo_new pi_tilesets] in Hfind.
  destruct (find (fun t => ts_id t =? k) (rev (prog_tilesets s))) as [t|]; [exact Hfind|].
  rewrite PaletteProofs.zfind_zempty in Hfind. exact Hfind.
Qed.

End Tilesets.

(* ---------------- non-vacuity: a program with two tileset chunks for one id, a tilemap layer and a tilemap cel ---------------- *)
Module TilesetExample.
Import Example.

Definition ts7 (count : Z) (name : list Z) : tileset rawpixels :=
  {| ts_id := 7; ts_empty0 := true; ts_count := count; ts_w := 1; ts_h := 1; ts_base := -3; ts_name := name;
     ts_ext := None; ts_pixels := None |}.
Definition ts_bytes_a : list Z := [0; 0; 0; 0; 9; 8; 7; 255].                        (* 2 tiles of 1 x 1, RGBA *)
Definition ts_bytes_b : list Z := [0; 0; 0; 0; 1; 2; 3; 255; 4; 5; 6; 128].          (* 3 tiles *)
Definition lay_M : layer :=
  {| l_flags := 1; l_name := [77]; l_blend := 2; l_opacity := 200; l_type := 2; l_tileset := 7; l_level := 0; l_ud := None |}.
Definition ccM : celcommon := {| cc_layer := 0; cc_x := 1; cc_y := -1; cc_opacity := 90 |}.

(* the example's zlib oracle: three streams, told apart by their first byte *)
Definition ex_inflate (z : list Z) (limit : Z) : zres :=
  match z with
  | 1 :: _ => ZOk ts_bytes_a
  | 2 :: _ => ZOk ts_bytes_b
  | 3 :: _ => ZOk [2; 0; 0; 0; 1; 0; 0; 0]       (* tile ids 2, 1 *)
  | _ => ZErr 0
  end.

Definition ts_frame : frame_prog :=
  {| fp_duration := 50; fp_count := CountBoth; fp_rsv := [0; 0];
     fp_items :=
       [ ITileset (ts7 2 [97]) 6 (repeat 0 14) [9; 9; 9; 9] (TilesZ [1; 42] ts_bytes_a) [];
         ILayer lay_M 1 [0; 0; 0; 0] [0; 0; 0] [];
         ITileset (ts7 3 [98]) 6 (repeat 5 14) [0; 0; 0; 0] (TilesZ [2] ts_bytes_b) [];     (* same id: replaces the first *)
         ICelTilemap ccM [0; 0; 0; 0; 0; 0; 0] 2 1 536870911 (repeat 1 12) (repeat 0 10) [3; 3] [2; 0; 0; 0; 1; 0; 0; 0] [] ] |}.

Definition ts_prog : sprite_prog :=
  {| sp_header := {| hf_frames := 1; hf_width := 4; hf_height := 3; hf_depth := 32; hf_default_time := 100;
                     hf_transparent := 0; hf_pixel_w := 1; hf_pixel_h := 1 |};
     sp_junk := ex_hjunk; sp_frames := [ts_frame] |}.

Example ts_wf : wf_prog ts_prog.
Proof. wf_go. Qed.
Example ts_inflate_ok : inflate_ok ex_inflate ts_prog.
Proof. wf_go. Qed.
Example ts_loads : exists f, load ex_inflate (serialize ts_prog ++ []) = Ok f.
Proof. rewrite app_nil_r. apply is_ok_ex. vm_compute. reflexivity. Qed.

(* through the theorem: id 7 reports the SECOND chunk (3 tiles, name "b", base index -3, its pixels validated); id 6 nothing *)
Example ts_thm f : load ex_inflate (serialize ts_prog ++ []) = Ok f ->
  (exists ts, zfind 7 (f_tilesets f) = Some ts /\ ts_count ts = 3 /\ ts_name ts = [98] /\ ts_base ts = -3 /\ ts_w ts = 1) /\
  zfind 6 (f_tilesets f) = None.
Proof.
  intros Hf. split.
  - pose proof (e2e_tilesets ex_inflate ts_prog [] f ts_wf ts_inflate_ok Hf 7 ltac:(lia)) as H.
    vm_compute find in H. destruct H as (ts & Hv & Hz). exists ts. split; [exact Hz|].
    apply validate_tileset_attrs in Hv. cbn [set_ts_pixels ts7 ts_count ts_name ts_base ts_w] in Hv.
    destruct Hv as (_ & _ & -> & -> & _ & -> & -> & _). repeat split; reflexivity.
  - pose proof (e2e_tilesets ex_inflate ts_prog [] f ts_wf ts_inflate_ok Hf 6 ltac:(lia)) as H.
    vm_compute find in H. exact H.
Qed.

End TilesetExample.
