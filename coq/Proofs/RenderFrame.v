(* Frame and cel images per pixel (C02, C06, C19): from the per-pixel lemmas of
   Proofs/RenderRaw.v to the declarative fold of Spec/Compose.v. *)
From Ase Require Import Base.Prelude Model.Render Proofs.ArrLemmas Proofs.ImageLemmas Proofs.RenderRaw
     Proofs.Layers Spec.Compose.

(* ------------------------------------------------------------------ *)
(* arrays: arr_to_list of a dense array lists aget *)

Lemma nthz_nil {A} i : nthz (@nil A) i = None.
Proof. unfold nthz. destruct (i <? 0); reflexivity. Qed.

Lemma flat_dense {A} (a : arr A) : forall n lo,
  (forall i, lo <= i < lo + Z.of_nat n -> aget a i <> None) ->
  zlen (flat_map (fun i => match aget a i with Some x => [x] | None => [] end) (zrange lo n)) = Z.of_nat n /\
  forall k, 0 <= k < Z.of_nat n ->
    nthz (flat_map (fun i => match aget a i with Some x => [x] | None => [] end) (zrange lo n)) k = aget a (lo + k).
Proof.
  induction n as [|n IH]; intros lo Hd.
  - split; [reflexivity|]. intros k Hk. lia.
  - cbn [zrange flat_map]. destruct (aget a lo) as [x|] eqn:E; [|exfalso; apply (Hd lo); [lia|exact E]].
    destruct (IH (lo + 1)) as (Hl & Hn); [intros i Hi; apply Hd; lia|]. cbn [app]. split.
    + rewrite zlen_cons, Hl. lia.
    + intros k Hk. destruct (Z.eq_dec k 0) as [->|Hk0].
      * rewrite nthz_cons_0, Z.add_0_r. symmetry. exact E.
      * rewrite nthz_cons_pos by lia. rewrite Hn by lia. f_equal. lia.
Qed.

Lemma nthz_arr_to_list_dense {A} (a : arr A) i : arr_dense a -> nthz (arr_to_list a) i = aget a i.
Proof.
  intros Hd. unfold arr_to_list, ziota.
  destruct (flat_dense a (Z.to_nat (alen a)) 0) as (Hl & Hn); [intros j Hj; apply Hd; lia|].
  destruct (Z.ltb_spec i 0) as [Hi|Hi]; [|destruct (Z.ltb_spec i (alen a)) as [Hi'|Hi']].
  - rewrite nthz_neg by exact Hi. unfold aget. destruct (Z.leb_spec 0 i); [lia|reflexivity].
  - rewrite Hn by lia. f_equal.
  - replace (aget a i) with (@None A); [apply nthz_none; right; lia|].
    unfold aget. destruct (Z.ltb_spec i (alen a)); [lia|]. rewrite andb_false_r. reflexivity.
Qed.

Lemma arr_dense_of_list {A} (l : list A) : arr_dense (arr_of_list l).
Proof.
  intros i Hi. rewrite alen_arr_of_list in Hi. rewrite aget_arr_of_list.
  destruct (nthz_in_range l i Hi) as (x & Hx). rewrite Hx. discriminate.
Qed.

Lemma rmapM_nthz {A B} (g : A -> res B) : forall l0 l, rmapM g l0 = Ok l -> forall i,
  match nthz l0 i with
  | Some x => exists y, g x = Ok y /\ nthz l i = Some y
  | None => nthz l i = None
  end.
Proof.
  induction l0 as [|x t IH]; intros l E i; cbn [rmapM] in E.
  - injection E as <-. rewrite !nthz_nil. reflexivity.
  - apply rbind_ok_inv in E as (y & Ey & E). apply rbind_ok_inv in E as (ys & Eys & E). injection E as <-.
    specialize (IH ys Eys).
    destruct (Z.ltb_spec i 0) as [Hi|Hi]; [rewrite !nthz_neg by exact Hi; reflexivity|].
    destruct (Z.eq_dec i 0) as [->|Hi0].
    + rewrite !nthz_cons_0. exists y. split; [exact Ey|reflexivity].
    + rewrite !(nthz_cons_pos _ _ i) by lia. apply IH.
Qed.

Lemma indexed_rgba_index pal transp bg k y : indexed_rgba pal transp bg k = Ok y -> index_rgba pal transp bg k = Some y.
Proof.
  unfold indexed_rgba, index_rgba. destruct (zfind k pal) as [e|]; [|discriminate].
  destruct (pe_rgba e) as [[[r g] b] a]. intros H. injection H as <-. reflexivity.
Qed.

Lemma arr_mapM_get {A B} (g : A -> res B) (a : arr A) (b : arr B) i :
  arr_dense a -> arr_mapM g a = Ok b ->
  match aget a i with
  | Some x => exists y, g x = Ok y /\ aget b i = Some y
  | None => aget b i = None
  end.
Proof.
  intros Hd E. unfold arr_mapM in E. apply rbind_ok_inv in E as (l & El & E). injection E as <-.
  pose proof (rmapM_nthz g _ _ El i) as H. rewrite nthz_arr_to_list_dense in H by exact Hd.
  rewrite aget_arr_of_list. exact H.
Qed.

(* Pixels::clone_as_image_rgba, pixel by pixel *)
Theorem clone_get px rgba : pixels_dense px -> clone_as_rgba px = Ok rgba ->
  forall i, aget rgba i = pixels_get px i.
Proof.
  intros Hd E i. destruct px as [a|a|pal transp bg a]; cbn [clone_as_rgba pixels_get pixels_dense] in *.
  - injection E as <-. reflexivity.
  - pose proof (arr_mapM_get _ a rgba i Hd E) as H. destruct (aget a i) as [va|]; cbn [option_map].
    + destruct H as (y & Hy & Hg). injection Hy as <-. exact Hg.
    + exact H.
  - pose proof (arr_mapM_get _ a rgba i Hd E) as H. destruct (aget a i) as [k|].
    + destruct H as (y & Hy & Hg). rewrite (indexed_rgba_index _ _ _ _ _ Hy). exact Hg.
    + exact H.
Qed.

(* ------------------------------------------------------------------ *)
(* rectangles *)

Lemma in_rect_iff x0 y0 w h x y : in_rect x0 y0 w h x y = true <-> (x0 <= x < x0 + w /\ y0 <= y < y0 + h).
Proof.
  unfold in_rect. destruct (Z.leb_spec x0 x), (Z.ltb_spec x (x0 + w)), (Z.leb_spec y0 y), (Z.ltb_spec y (y0 + h));
    cbn [andb]; split; intros Hq; try discriminate; try reflexivity; lia.
Qed.

Lemma in_rect_false x0 y0 w h x y : in_rect x0 y0 w h x y = false <-> ~ (x0 <= x < x0 + w /\ y0 <= y < y0 + h).
Proof.
  rewrite <- in_rect_iff. destruct (in_rect x0 y0 w h x y); split; intros Hq; try discriminate; try reflexivity.
  exfalso. apply Hq. reflexivity.
Qed.

(* the tilemap source relation of RenderRaw in div/mod form *)
Lemma tm_source_iff cx cy tm tw th px x y p : 0 < tw -> 0 < th ->
  tm_source cx cy tm tw th px x y p <->
  ((0 <= x - cx < tm_w tm * tw /\ 0 <= y - cy < tm_h tm * th) /\
   exists tile_id, aget (tm_tiles tm) (((y - cy) / th) * tm_w tm + (x - cx) / tw) = Some tile_id /\
                   aget px (tw * th * tile_id + (((y - cy) mod th) * tw + (x - cx) mod tw)) = Some p).
Proof.
  intros Htw Hth. split.
  - intros (tile_x & tile_y & Rx & Ry & Hit & tid & Ht & Hs). split.
    + apply (tm_inside_iff cx cy tm tw th x y Htw Hth). exists tile_x, tile_y. split; [exact Rx|]. split; [exact Ry|exact Hit].
    + destruct (in_tile_divmod _ _ _ _ _ _ _ _ Hit) as (Ex & Mx & Ey & My).
      unfold tile_src in Hs. rewrite Mx, My in Hs. rewrite Ex, Ey in Ht. exists tid. split; [exact Ht|exact Hs].
  - intros (Hin & tid & Ht & Hs). apply (tm_inside_iff cx cy tm tw th x y Htw Hth) in Hin.
    destruct Hin as (tile_x & tile_y & Rx & Ry & Hit).
    destruct (in_tile_divmod _ _ _ _ _ _ _ _ Hit) as (Ex & Mx & Ey & My).
    exists tile_x, tile_y. split; [exact Rx|]. split; [exact Ry|]. split; [exact Hit|]. exists tid.
    rewrite Ex, Ey. split; [exact Ht|]. unfold tile_src. rewrite <- Ex, <- Ey, Mx, My. exact Hs.
Qed.

(* ------------------------------------------------------------------ *)
(* write_cel_direct as a writer of cel_px *)

Definition tileset_ok (f : file) : Prop :=
  forall k ts, zfind k (f_tilesets f) = Some ts ->
    0 < ts_w ts /\ 0 < ts_h ts /\ forall px, ts_pixels ts = Some px -> pixels_dense px.

Lemma write_cel_direct_writes f c lay W H :
  cel_dense c -> tileset_ok f -> aget (f_layers f) (cc_layer (c_data c)) = Some lay ->
  writes (l_blend lay) (cel_opacity lay c) W H (fun img => write_cel_direct f img c)
         (fun x y => cel_covers f lay c x y = true) (fun x y p => cel_px f lay c x y = Some p).
Proof.
  intros Hcd Hts Hlay. unfold cel_dense in Hcd.
  destruct (c_content c) as [w h px|target|tm] eqn:Ec.
  - (* raw *)
    destruct (clone_as_rgba px) as [rgba|e|s] eqn:Ecl.
    + pose proof (clone_get px rgba Hcd Ecl) as Hget.
      eapply writes_weaken;
        [apply (writes_raw_rows (l_blend lay) (cel_opacity lay c) (cc_x (c_data c)) (cc_y (c_data c)) w h rgba W H)| | |].
      * intros img _ _. unfold write_cel_direct, layer_get. rewrite Hlay, Ec. cbn [rbind]. rewrite Ecl. cbn [rbind].
        apply write_raw_unfold.
      * intros x y p _ _. unfold cel_px. rewrite Ec. unfold raw_inside, raw_src. rewrite Hget.
        destruct (in_rect (cc_x (c_data c)) (cc_y (c_data c)) w h x y) eqn:Er.
        -- apply in_rect_iff in Er. split; [intros Hp; split; [exact Er|exact Hp]|intros (_ & Hp); exact Hp].
        -- apply in_rect_false in Er. split; [discriminate|intros (Hin & _); contradiction].
      * intros x y _ _. unfold cel_covers. rewrite Ec. unfold raw_inside. intros Er. apply in_rect_iff in Er. exact Er.
    + intros img img' _ _ E. exfalso. unfold write_cel_direct, layer_get in E. rewrite Hlay, Ec in E. cbn [rbind] in E.
      rewrite Ecl in E. discriminate.
    + intros img img' _ _ E. exfalso. unfold write_cel_direct, layer_get in E. rewrite Hlay, Ec in E. cbn [rbind] in E.
      rewrite Ecl in E. discriminate.
  - (* linked: never returns *)
    intros img img' _ _ E. exfalso. unfold write_cel_direct, layer_get in E. rewrite Hlay, Ec in E. discriminate.
  - (* tilemap *)
    assert (Hunf : forall img, write_cel_direct f img c =
              if negb (l_type lay =? 2) then Panic 307 else
              match zfind (l_tileset lay) (f_tilesets f) with
              | None => Panic 308
              | Some ts => match ts_pixels ts with
                           | None => Panic 309
                           | Some px => rgba <-- clone_as_rgba px ;;;
                                        write_tilemap img (c_data c) tm (ts_w ts) (ts_h ts) rgba (l_blend lay) (l_opacity lay)
                           end
              end).
    { intros img. unfold write_cel_direct, layer_get. rewrite Hlay, Ec. reflexivity. }
    destruct (negb (l_type lay =? 2)) eqn:Ety.
    { intros img img' _ _ E. rewrite Hunf in E. discriminate. }
    destruct (zfind (l_tileset lay) (f_tilesets f)) as [ts|] eqn:Ez.
    2:{ intros img img' _ _ E. rewrite Hunf in E. discriminate. }
    destruct (Hts _ _ Ez) as (Htw & Hth & Hpd).
    destruct (ts_pixels ts) as [px|] eqn:Epx.
    2:{ intros img img' _ _ E. rewrite Hunf in E. discriminate. }
    destruct (clone_as_rgba px) as [rgba|e|s] eqn:Ecl.
    2:{ intros img img' _ _ E. rewrite Hunf in E. discriminate. }
    2:{ intros img img' _ _ E. rewrite Hunf in E. discriminate. }
    pose proof (clone_get px rgba (Hpd px eq_refl) Ecl) as Hget.
    eapply writes_weaken;
      [apply (writes_tm_all (l_blend lay) (cel_opacity lay c) (cc_x (c_data c)) (cc_y (c_data c)) tm (ts_w ts) (ts_h ts) rgba W H)| | |].
    + intros img _ _. rewrite Hunf. cbn [rbind]. apply write_tilemap_unfold.
    + intros x y p _ _. rewrite (tm_source_iff _ _ _ _ _ _ _ _ _ Htw Hth). unfold cel_px. rewrite Ec, Ez, Epx. cbn zeta.
      destruct (in_rect (cc_x (c_data c)) (cc_y (c_data c)) (tm_w tm * ts_w ts) (tm_h tm * ts_h ts) x y) eqn:Er.
      * apply in_rect_iff in Er.
        destruct (aget (tm_tiles tm) ((y - cc_y (c_data c)) / ts_h ts * tm_w tm + (x - cc_x (c_data c)) / ts_w ts)) as [tid|] eqn:Et.
        -- rewrite <- Hget. split.
           ++ intros Hp. split; [lia|]. exists tid. split; [reflexivity|exact Hp].
           ++ intros (_ & tid' & Ht' & Hp). injection Ht' as <-. exact Hp.
        -- split; [discriminate|]. intros (_ & tid' & Ht' & _). discriminate.
      * apply in_rect_false in Er. split; [discriminate|]. intros (Hin & _). exfalso. apply Er. lia.
    + intros x y _ _. unfold cel_covers. rewrite Ec, Ez. intros Er. apply in_rect_iff in Er.
      apply (tm_inside_iff _ _ _ _ _ _ _ Htw Hth). lia.
Qed.

(* the per-pixel reading of `writes` for a relation given by an option-valued function *)
Lemma writes_option mode op W H t (D : Z -> Z -> Prop) (src : Z -> Z -> option pixel) img img' :
  writes mode op W H t D (fun x y p => src x y = Some p) ->
  iw img = W -> ih img = H -> t img = Ok img' ->
  iw img' = W /\ ih img' = H /\
  forall x y, 0 <= x < W -> 0 <= y < H ->
    match src x y with
    | Some s => Some (img_get img' x y) = blend mode (img_get img x y) s op
    | None => img_get img' x y = img_get img x y
    end /\ (D x y -> src x y <> None).
Proof.
  intros Hwr Hw Hh E. destruct (Hwr img img' Hw Hh E) as (Hw' & Hh' & Hpx).
  split; [exact Hw'|]. split; [exact Hh'|]. intros x y Hx Hy. destruct (Hpx x y Hx Hy) as (H1 & H2 & H3). split.
  - destruct (src x y) as [s|].
    + apply H1. reflexivity.
    + apply H2. intros p Hp. discriminate.
  - intros Hd. destruct (H3 Hd) as (p & Hp). rewrite Hp. discriminate.
Qed.

Lemma layer_get_inv f l lay : layer_get f l = Ok lay -> aget (f_layers f) l = Some lay.
Proof. unfold layer_get. destruct (aget (f_layers f) l); intros H; [injection H as <-; reflexivity|discriminate]. Qed.

Theorem write_cel_direct_pixels f c img img' :
  cel_dense c -> tileset_ok f -> write_cel_direct f img c = Ok img' ->
  exists lay, aget (f_layers f) (cc_layer (c_data c)) = Some lay /\
    iw img' = iw img /\ ih img' = ih img /\
    forall x y, 0 <= x < iw img -> 0 <= y < ih img ->
      match cel_px f lay c x y with
      | Some s => Some (img_get img' x y) = blend (l_blend lay) (img_get img x y) s (cel_opacity lay c)
      | None => img_get img' x y = img_get img x y
      end /\ (cel_covers f lay c x y = true -> cel_px f lay c x y <> None).
Proof.
  intros Hcd Hts E.
  assert (Hl : exists lay, aget (f_layers f) (cc_layer (c_data c)) = Some lay).
  { unfold write_cel_direct in E. apply rbind_ok_inv in E as (lay & El & _). exists lay. apply layer_get_inv. exact El. }
  destruct Hl as (lay & Hlay). exists lay. split; [exact Hlay|].
  exact (writes_option _ _ _ _ _ _ _ img img' (write_cel_direct_writes f c lay (iw img) (ih img) Hcd Hts Hlay) eq_refl eq_refl E).
Qed.

Lemma cel_lookup_cel_at f fr l o : cel_lookup f fr l = Ok o -> o = cel_at f fr l /\ 0 <= fr < num_frames f.
Proof.
  unfold cel_lookup. rewrite table_cel_cellat.
  destruct (Z.ltb_spec fr 0), (Z.leb_spec (num_frames f) fr); cbn [orb]; intros E; try discriminate.
  injection E as <-. split; [reflexivity|lia].
Qed.

Lemma cel_lookup_in_range f fr l : 0 <= fr < num_frames f -> cel_lookup f fr l = Ok (cel_at f fr l).
Proof.
  intros Hfr. unfold cel_lookup. rewrite table_cel_cellat.
  destruct (Z.ltb_spec fr 0), (Z.leb_spec (num_frames f) fr); cbn [orb]; try lia. reflexivity.
Qed.

(* write_cel: follows one link, then writes the resolved cel *)
Theorem write_cel_pixels f fr l c img img' :
  render_wf f -> cel_at f fr l = Some c -> write_cel f img c = Ok img' ->
  exists lay, aget (f_layers f) l = Some lay /\
    iw img' = iw img /\ ih img' = ih img /\
    forall x y, 0 <= x < iw img -> 0 <= y < ih img ->
      match resolve f c l with
      | None => img_get img' x y = img_get img x y
      | Some rc =>
          match cel_px f lay rc x y with
          | Some s => Some (img_get img' x y) = blend (l_blend lay) (img_get img x y) s (cel_opacity lay rc)
          | None => img_get img' x y = img_get img x y
          end /\ (cel_covers f lay rc x y = true -> cel_px f lay rc x y <> None)
      end.
Proof.
  intros Hwf Hc E. pose proof (wf_cel_layer f Hwf fr l c Hc) as Hcl.
  assert (Hts : tileset_ok f) by exact (wf_tileset f Hwf).
  unfold write_cel in E. unfold resolve. destruct (c_content c) as [w h px|target|tm] eqn:Ec.
  - destruct (write_cel_direct_pixels f c img img' (wf_cel_dense f Hwf fr l c Hc) Hts E) as (lay & Hlay & R).
    rewrite Hcl in Hlay. exists lay. split; [exact Hlay|exact R].
  - apply rbind_ok_inv in E as (lay & El & E). apply layer_get_inv in El. rewrite Hcl in El.
    apply rbind_ok_inv in E as (tgt & Et & E). rewrite Hcl in Et. apply cel_lookup_cel_at in Et as (-> & _).
    exists lay. split; [exact El|]. destruct (cel_at f target l) as [c'|] eqn:Ec'.
    + pose proof (wf_cel_layer f Hwf target l c' Ec') as Hcl'.
      destruct (write_cel_direct_pixels f c' img img' (wf_cel_dense f Hwf target l c' Ec') Hts E) as (lay' & Hlay' & R).
      rewrite Hcl' in Hlay'. rewrite El in Hlay'. injection Hlay' as <-. exact R.
    + injection E as <-. split; [reflexivity|]. split; [reflexivity|]. intros x y _ _. reflexivity.
  - destruct (write_cel_direct_pixels f c img img' (wf_cel_dense f Hwf fr l c Hc) Hts E) as (lay & Hlay & R).
    rewrite Hcl in Hlay. exists lay. split; [exact Hlay|exact R].
Qed.

(* ------------------------------------------------------------------ *)
(* the frame row as a fold over layer ids *)

Lemma layer_step_none f fr x y l : layer_step f fr x y None l = None.
Proof. reflexivity. Qed.

Lemma fold_layer_step_id f fr x y : forall ids acc,
  (forall l, In l ids -> cel_at f fr l = None) -> fold_left (layer_step f fr x y) ids acc = acc.
Proof.
  induction ids as [|l t IH]; intros acc H; cbn [fold_left]; [reflexivity|].
  rewrite IH by (intros l' Hl'; apply H; right; exact Hl').
  destruct acc as [back|]; [|reflexivity]. unfold layer_step. rewrite (H l (or_introl eq_refl)). reflexivity.
Qed.

Lemma frame_row_pixels f fr : render_wf f -> forall r id img img', 0 <= id ->
  (forall k, 0 <= k -> cellat r k = cel_at f fr (id + k)) ->
  frame_row f img r id = Ok img' ->
  iw img' = iw img /\ ih img' = ih img /\
  forall x y, 0 <= x < iw img -> 0 <= y < ih img ->
    fold_left (layer_step f fr x y) (zrange id (length r)) (Some (img_get img x y)) = Some (img_get img' x y).
Proof.
  intros Hwf. induction r as [|o r IH]; intros id img img' Hid Hrow E.
  - cbn [frame_row] in E. injection E as <-. split; [reflexivity|]. split; [reflexivity|]. intros x y _ _. reflexivity.
  - assert (Hrow' : forall k, 0 <= k -> cellat r k = cel_at f fr (id + 1 + k)).
    { intros k Hk. rewrite <- cellat_cons_succ with (o := o) by exact Hk. rewrite Hrow by lia. f_equal. lia. }
    pose proof (Hrow 0 ltac:(lia)) as H0. rewrite cellat_cons_0, Z.add_0_r in H0.
    cbn [length zrange fold_left]. destruct o as [c|]; cbn [frame_row] in E.
    + destruct (num_layers f <=? id); [discriminate|].
      apply rbind_ok_inv in E as (v & Ev & E). apply rbind_ok_inv in E as (img1 & E1 & E).
      destruct (IH (id + 1) img1 img' ltac:(lia) Hrow' E) as (Hw & Hh & Hpx).
      assert (Hvb : visibleb f id = v) by (unfold visibleb; rewrite Ev; reflexivity).
      destruct v.
      * destruct (write_cel_pixels f fr id c img img1 Hwf (eq_sym H0) E1) as (lay & Hlay & Hw1 & Hh1 & Hpx1).
        split; [lia|]. split; [lia|]. intros x y Hx Hy. rewrite <- Hpx by lia. f_equal.
        unfold layer_step. rewrite <- H0, Hvb, Hlay. specialize (Hpx1 x y Hx Hy).
        destruct (resolve f c id) as [rc|]; [|f_equal; symmetry; exact Hpx1]. destruct Hpx1 as (Hpx1 & _).
        destruct (cel_px f lay rc x y) as [s|]; [symmetry; exact Hpx1|f_equal; symmetry; exact Hpx1].
      * injection E1 as <-. split; [exact Hw|]. split; [exact Hh|]. intros x y Hx Hy. rewrite <- Hpx by lia. f_equal.
        unfold layer_step. rewrite <- H0, Hvb. reflexivity.
    + destruct (IH (id + 1) img img' ltac:(lia) Hrow' E) as (Hw & Hh & Hpx).
      split; [exact Hw|]. split; [exact Hh|]. intros x y Hx Hy. rewrite <- Hpx by lia. f_equal.
      unfold layer_step. rewrite <- H0. reflexivity.
Qed.

(* a frame row that renders has no cel at or above num_layers *)
Lemma frame_row_cells_lt f : forall r id img img', frame_row f img r id = Ok img' ->
  forall k c, 0 <= k -> cellat r k = Some c -> id + k < num_layers f.
Proof.
  induction r as [|o r IH]; intros id img img' E k c Hk Hc.
  - rewrite cellat_nil in Hc. discriminate.
  - destruct (Z.eq_dec k 0) as [->|Hk0].
    + rewrite cellat_cons_0 in Hc. subst o. cbn [frame_row] in E.
      destruct (Z.leb_spec (num_layers f) id); [discriminate|lia].
    + replace k with (k - 1 + 1) in Hc by lia. rewrite cellat_cons_succ in Hc by lia.
      assert (Hr : exists img1, frame_row f img1 r (id + 1) = Ok img').
      { destruct o as [c0|]; cbn [frame_row] in E.
        - destruct (num_layers f <=? id); [discriminate|]. apply rbind_ok_inv in E as (v & _ & E).
          apply rbind_ok_inv in E as (img1 & _ & E). eauto.
        - eauto. }
      destruct Hr as (img1 & E1). pose proof (IH (id + 1) img1 img' E1 (k - 1) c ltac:(lia) Hc). lia.
Qed.

Lemma cellat_beyond (r : row pixels) k : zlen r <= k -> cellat r k = None.
Proof. intros Hk. unfold cellat. replace (nthz r k) with (@None (option (cel pixels))); [reflexivity|]. symmetry. apply nthz_none. right. exact Hk. Qed.

(* C02: the frame image is the fold of Spec/Compose.v at every canvas position *)
Theorem frame_image_compose f fr img : render_wf f -> frame_image f fr = Ok img ->
  iw img = f_width f /\ ih img = f_height f /\
  forall x y, 0 <= x < f_width f -> 0 <= y < f_height f -> spec_pixel f fr x y = Some (img_get img x y).
Proof.
  intros Hwf E. unfold frame_image in E. destruct ((fr <? 0) || (num_frames f <=? fr)); [discriminate|].
  set (r := get_row (f_cels f) fr) in *.
  assert (Hrow : forall k, 0 <= k -> cellat r k = cel_at f fr (0 + k)) by (intros k _; rewrite Z.add_0_l; reflexivity).
  destruct (frame_row_pixels f fr Hwf r 0 _ img ltac:(lia) Hrow E) as (Hw & Hh & Hpx).
  rewrite iw_img_new in *. rewrite ih_img_new in *. split; [exact Hw|]. split; [exact Hh|].
  intros x y Hx Hy. specialize (Hpx x y Hx Hy). rewrite img_get_new in Hpx. rewrite <- Hpx. unfold spec_pixel, ziota.
  set (N := Z.to_nat (num_layers f)). set (L := length r).
  destruct (Nat.le_gt_cases L N) as [HLN|HLN].
  - replace N with (L + (N - L))%nat by lia. rewrite zrange_app, fold_left_app. apply fold_layer_step_id.
    intros l Hl. apply in_zrange in Hl. change (cel_at f fr l) with (cellat r l). apply cellat_beyond. unfold zlen. fold L. lia.
  - replace L with (N + (L - N))%nat by lia. rewrite zrange_app, fold_left_app. symmetry. apply fold_layer_step_id.
    intros l Hl. apply in_zrange in Hl. change (cel_at f fr l) with (cellat r l).
    destruct (cellat r l) as [c|] eqn:Ec; [|reflexivity].
    pose proof (frame_row_cells_lt f r 0 _ img E l c ltac:(lia) Ec). lia.
Qed.

(* dimensions, unconditionally *)
Lemma write_cel_direct_dims f c img img' : write_cel_direct f img c = Ok img' -> iw img' = iw img /\ ih img' = ih img.
Proof.
  unfold write_cel_direct. intros E. apply rbind_ok_inv in E as (lay & _ & E).
  destruct (c_content c) as [w h px|target|tm].
  - apply rbind_ok_inv in E as (rgba & _ & E). apply write_raw_spec in E as (Hw & Hh & _). split; assumption.
  - discriminate.
  - destruct (negb (l_type lay =? 2)); [discriminate|]. destruct (zfind (l_tileset lay) (f_tilesets f)) as [ts|]; [|discriminate].
    destruct (ts_pixels ts) as [px|]; [|discriminate]. apply rbind_ok_inv in E as (rgba & _ & E).
    rewrite write_tilemap_unfold in E.
    destruct (writes_tm_all _ _ _ _ _ _ _ _ (iw img) (ih img) img img' eq_refl eq_refl E) as (Hw & Hh & _). split; assumption.
Qed.

Lemma write_cel_dims f c img img' : write_cel f img c = Ok img' -> iw img' = iw img /\ ih img' = ih img.
Proof.
  unfold write_cel. destruct (c_content c) as [w h px|target|tm]; try apply write_cel_direct_dims.
  intros E. apply rbind_ok_inv in E as (lay & _ & E). apply rbind_ok_inv in E as (tgt & _ & E).
  destruct tgt as [c'|]; [apply write_cel_direct_dims in E; exact E|]. injection E as <-. split; reflexivity.
Qed.

Lemma frame_row_dims f : forall r id img img', frame_row f img r id = Ok img' -> iw img' = iw img /\ ih img' = ih img.
Proof.
  induction r as [|o r IH]; intros id img img' E; cbn [frame_row] in E.
  - injection E as <-. split; reflexivity.
  - destruct o as [c|]; [|exact (IH _ _ _ E)].
    destruct (num_layers f <=? id); [discriminate|]. apply rbind_ok_inv in E as (v & _ & E).
    apply rbind_ok_inv in E as (img1 & E1 & E). apply IH in E as (Hw & Hh).
    destruct v; [apply write_cel_dims in E1 as (Hw1 & Hh1); split; lia|]. injection E1 as <-. split; assumption.
Qed.

Theorem frame_image_dims f fr img : frame_image f fr = Ok img -> iw img = f_width f /\ ih img = f_height f.
Proof.
  unfold frame_image. destruct ((fr <? 0) || (num_frames f <=? fr)); [discriminate|]. intros E.
  apply frame_row_dims in E. exact E.
Qed.

(* ------------------------------------------------------------------ *)
(* C02: uncovered pixels stay transparent *)

Lemma cel_px_covers f lay c x y s : cel_px f lay c x y = Some s -> cel_covers f lay c x y = true.
Proof.
  unfold cel_px, cel_covers. destruct (c_content c) as [w h px|target|tm].
  - destruct (in_rect _ _ w h x y); [reflexivity|discriminate].
  - discriminate.
  - destruct (zfind (l_tileset lay) (f_tilesets f)) as [ts|]; [|discriminate].
    destruct (ts_pixels ts) as [px|]; [|discriminate]. cbn zeta.
    destruct (in_rect _ _ (tm_w tm * ts_w ts) (tm_h tm * ts_h ts) x y); [reflexivity|discriminate].
Qed.

Lemma fold_layer_step_fix f fr x y b : forall ids,
  (forall l, In l ids -> layer_step f fr x y (Some b) l = Some b) ->
  fold_left (layer_step f fr x y) ids (Some b) = Some b.
Proof.
  induction ids as [|l t IH]; intros Hs; cbn [fold_left]; [reflexivity|].
  rewrite (Hs l (or_introl eq_refl)). apply IH. intros l' Hl'. apply Hs. right. exact Hl'.
Qed.

(* a layer whose visibility is computed exists *)
Lemma visible_layer_exists f l b : layer_is_visible f l = Ok b -> aget (f_layers f) l <> None.
Proof.
  unfold layer_is_visible. rewrite loopP_iter. destruct (Pos2Nat.is_succ (Z.to_pos (num_layers f + 1))) as (n & Hn).
  rewrite Hn. cbn [iter_step]. unfold vis_step at 1. intros E Hnone. rewrite Hnone in E. discriminate.
Qed.

Theorem frame_uncovered f fr img x y : render_wf f -> frame_image f fr = Ok img ->
  0 <= x < f_width f -> 0 <= y < f_height f ->
  (forall l c0 lay c, 0 <= l < num_layers f -> cel_at f fr l = Some c0 -> visibleb f l = true ->
     aget (f_layers f) l = Some lay -> resolve f c0 l = Some c -> cel_covers f lay c x y = false) ->
  img_get img x y = transparent.
Proof.
  intros Hwf E Hx Hy Hun. destruct (frame_image_compose f fr img Hwf E) as (_ & _ & Hpx).
  specialize (Hpx x y Hx Hy). unfold spec_pixel in Hpx. rewrite fold_layer_step_fix in Hpx.
  - injection Hpx as <-. reflexivity.
  - intros l Hl. apply in_ziota in Hl. unfold layer_step.
    destruct (cel_at f fr l) as [c0|] eqn:Ec0; [|reflexivity].
    destruct (visibleb f l) eqn:Ev; [|reflexivity].
    destruct (aget (f_layers f) l) as [lay|] eqn:El.
    + destruct (resolve f c0 l) as [c|] eqn:Er; [|reflexivity].
      destruct (cel_px f lay c x y) as [s|] eqn:Es; [|reflexivity].
      apply cel_px_covers in Es. rewrite (Hun l c0 lay c Hl Ec0 Ev El Er) in Es. discriminate.
    + exfalso. unfold visibleb in Ev. destruct (layer_is_visible f l) as [b| |] eqn:Ev'; try discriminate.
      exact (visible_layer_exists f l b Ev' El).
Qed.

(* ------------------------------------------------------------------ *)
(* C02: the cel table does not depend on the order in which cels are added *)

Lemma zfind_zadd_any {A} k k' (v : A) m : 0 <= k' ->
  zfind k (zadd k' v m) = if k =? k' then Some v else zfind k m.
Proof.
  intros Hk'. unfold zfind, zadd. destruct (Z.ltb_spec k 0) as [Hk|Hk].
  - destruct (Z.eqb_spec k k'); [lia|reflexivity].
  - rewrite PositiveMapAdditionalFacts.gsspec. destruct (PositiveMap.E.eq_dec (akey k) (akey k')) as [E|E].
    + apply akey_inj in E; [|lia|lia]. subst k'. rewrite Z.eqb_refl. reflexivity.
    + destruct (Z.eqb_spec k k') as [->|_]; [contradiction|reflexivity].
Qed.

Lemma get_row_zadd {P} (t : celtable P) k r fr : 0 <= k ->
  get_row (zadd k r t) fr = if fr =? k then r else get_row t fr.
Proof. intros Hk. unfold get_row. rewrite zfind_zadd_any by exact Hk. destruct (fr =? k); reflexivity. Qed.

Lemma nth_error_upd_nth {A} (x : A) : forall l n m,
  nth_error (upd_nth l n x) m = if (m =? n)%nat then (if (n <? length l)%nat then Some x else None) else nth_error l m.
Proof.
  induction l as [|a t IH]; intros n m; cbn [upd_nth].
  - cbn [length]. destruct (m =? n)%nat; destruct m; reflexivity.
  - destruct n as [|n]; destruct m as [|m]; cbn [nth_error length Nat.eqb]; try reflexivity.
    rewrite IH. destruct (m =? n)%nat; [|reflexivity].
    change (S n <? S (length t))%nat with (n <? length t)%nat. reflexivity.
Qed.

Lemma nthz_upd_nth {A} (x : A) l i j : 0 <= i -> 0 <= j ->
  nthz (upd_nth l (Z.to_nat i) x) j = if j =? i then (if i <? zlen l then Some x else None) else nthz l j.
Proof.
  intros Hi Hj. rewrite !nthz_nth_error by exact Hj. rewrite nth_error_upd_nth.
  destruct (Z.eqb_spec j i) as [->|Hne].
  - rewrite Nat.eqb_refl. unfold zlen.
    destruct (Nat.ltb_spec (Z.to_nat i) (length l)), (Z.ltb_spec i (Z.of_nat (length l))); try reflexivity; lia.
  - destruct (Nat.eqb_spec (Z.to_nat j) (Z.to_nat i)) as [E|_]; [lia|reflexivity].
Qed.

Lemma nthz_repeat_none {A} n i : nthz (@repeat_none A n) i = if (0 <=? i) && (i <? Z.of_nat n) then Some None else None.
Proof.
  destruct (Z.leb_spec 0 i) as [Hi|Hi]; [|rewrite nthz_neg by lia; reflexivity]. cbn [andb].
  revert i Hi. induction n as [|n IH]; intros i Hi; cbn [repeat_none].
  - rewrite nthz_nil. destruct (Z.ltb_spec i (Z.of_nat 0)); [lia|reflexivity].
  - destruct (Z.eq_dec i 0) as [->|Hi0].
    + rewrite nthz_cons_0. destruct (Z.ltb_spec 0 (Z.of_nat (S n))); [reflexivity|lia].
    + rewrite nthz_cons_pos by lia. rewrite IH by lia.
      destruct (Z.ltb_spec (i - 1) (Z.of_nat n)), (Z.ltb_spec i (Z.of_nat (S n))); try reflexivity; lia.
Qed.

Lemma zlen_repeat_none {A} n : zlen (@repeat_none A n) = Z.of_nat n.
Proof. induction n as [|n IH]; [reflexivity|]. cbn [repeat_none]. rewrite zlen_cons, IH. lia. Qed.

(* the row after padding to layer l and storing v there *)
Definition pad_row {P} (r : row P) (l : Z) : row P :=
  if zlen r <? l + 1 then r ++ repeat_none (Z.to_nat (l + 1 - zlen r)) else r.
Definition set_row {P} (r : row P) (l : Z) (c : cel P) : row P := upd_nth (pad_row r l) (Z.to_nat l) (Some c).

Lemma nthz_pad_row {P} (r : row P) l i : 0 <= i ->
  nthz (pad_row r l) i = if i <? zlen r then nthz r i else if i <? l + 1 then Some None else None.
Proof.
  intros Hi. unfold pad_row. pose proof (zlen_nonneg r) as Hr.
  destruct (Z.ltb_spec (zlen r) (l + 1)) as [Hp|Hp].
  - destruct (Z.ltb_spec i (zlen r)) as [Hi'|Hi'].
    + apply nthz_app_l. exact Hi'.
    + rewrite nthz_app_r by exact Hi'. rewrite nthz_repeat_none.
      destruct (Z.leb_spec 0 (i - zlen r)); [|lia]. cbn [andb].
      destruct (Z.ltb_spec (i - zlen r) (Z.of_nat (Z.to_nat (l + 1 - zlen r)))), (Z.ltb_spec i (l + 1)); try reflexivity; lia.
  - destruct (Z.ltb_spec i (zlen r)) as [Hi'|Hi']; [reflexivity|].
    destruct (Z.ltb_spec i (l + 1)); [lia|]. apply nthz_none. right. exact Hi'.
Qed.

Lemma zlen_pad_row {P} (r : row P) l : zlen (pad_row r l) = Z.max (zlen r) (l + 1).
Proof.
  unfold pad_row. destruct (Z.ltb_spec (zlen r) (l + 1)); [|lia]. rewrite zlen_app, zlen_repeat_none. lia.
Qed.

Lemma nthz_set_row {P} (r : row P) l c i : 0 <= l -> 0 <= i ->
  nthz (set_row r l c) i =
  if i =? l then Some (Some c) else if i <? zlen r then nthz r i else if i <? l + 1 then Some None else None.
Proof.
  intros Hl Hi. unfold set_row. rewrite nthz_upd_nth by assumption. rewrite zlen_pad_row.
  destruct (Z.eqb_spec i l) as [->|Hne].
  - destruct (Z.ltb_spec l (Z.max (zlen r) (l + 1))); [reflexivity|lia].
  - apply nthz_pad_row. exact Hi.
Qed.

Lemma length_upd_nth {A} (x : A) : forall l n, length (upd_nth l n x) = length l.
Proof.
  induction l as [|a t IH]; intros n; cbn [upd_nth]; [reflexivity|]. destruct n; cbn [length]; [reflexivity|]. rewrite IH. reflexivity.
Qed.

Lemma zlen_set_row {P} (r : row P) l c : zlen (set_row r l c) = Z.max (zlen r) (l + 1).
Proof. unfold set_row. rewrite <- zlen_pad_row. unfold zlen. rewrite length_upd_nth. reflexivity. Qed.

(* CelsData::add_cel: when it succeeds, and what the table holds afterwards *)
Theorem table_add_cel_ok t n fr c t' : table_add_cel t n fr c = Ok t' ->
  fr < n /\ 0 <= cc_layer (c_data c) /\
  (match nthz (get_row t fr) (cc_layer (c_data c)) with Some (Some _) => False | _ => True end) /\
  t' = zadd fr (set_row (get_row t fr) (cc_layer (c_data c)) c) t.
Proof.
  unfold table_add_cel. destruct (Z.leb_spec n fr) as [Hn|Hn]; [discriminate|]. cbn zeta.
  set (l := cc_layer (c_data c)). set (r := get_row t fr).
  change (if zlen r <? l + 1 then r ++ repeat_none (Z.to_nat (l + 1 - zlen r)) else r) with (pad_row r l).
  destruct (Z.ltb_spec l 0) as [Hl|Hl].
  - rewrite nthz_neg by exact Hl. discriminate.
  - rewrite nthz_pad_row by exact Hl. intros E. split; [exact Hn|]. split; [exact Hl|].
    destruct (Z.ltb_spec l (zlen r)) as [Hlr|Hlr].
    + destruct (nthz r l) as [[c0|]|]; try discriminate. injection E as <-. split; [exact I|reflexivity].
    + replace (nthz r l) with (@None (option (cel rawpixels))) by (symmetry; apply nthz_none; right; exact Hlr).
      destruct (Z.ltb_spec l (l + 1)); [|lia]. injection E as <-. split; [exact I|reflexivity].
Qed.

Theorem table_add_cel_succeeds t n fr c : fr < n -> 0 <= cc_layer (c_data c) ->
  (match nthz (get_row t fr) (cc_layer (c_data c)) with Some (Some _) => False | _ => True end) ->
  table_add_cel t n fr c = Ok (zadd fr (set_row (get_row t fr) (cc_layer (c_data c)) c) t).
Proof.
  intros Hn Hl Hfree. unfold table_add_cel. destruct (Z.leb_spec n fr); [lia|]. cbn zeta.
  set (l := cc_layer (c_data c)) in *. set (r := get_row t fr) in *.
  change (if zlen r <? l + 1 then r ++ repeat_none (Z.to_nat (l + 1 - zlen r)) else r) with (pad_row r l).
  rewrite nthz_pad_row by exact Hl.
  destruct (Z.ltb_spec l (zlen r)) as [Hlr|Hlr].
  - destruct (nthz r l) as [[c0|]|] eqn:En; [contradiction|reflexivity|]. apply nthz_none in En. lia.
  - destruct (Z.ltb_spec l (l + 1)); [reflexivity|lia].
Qed.

(* two rows after adding two cels in either order *)
Lemma set_row_comm {P} (r : row P) l1 c1 l2 c2 : 0 <= l1 -> 0 <= l2 -> l1 <> l2 ->
  set_row (set_row r l1 c1) l2 c2 = set_row (set_row r l2 c2) l1 c1.
Proof.
  intros H1 H2 Hne. apply nthz_ext. intros i Hi. rewrite !nthz_set_row by assumption. rewrite !zlen_set_row.
  pose proof (zlen_nonneg r) as Hr.
  destruct (Z.eqb_spec i l2) as [E2|N2]; destruct (Z.eqb_spec i l1) as [E1|N1];
    destruct (Z.ltb_spec i (Z.max (zlen r) (l1 + 1))) as [A1|A1]; destruct (Z.ltb_spec i (Z.max (zlen r) (l2 + 1))) as [A2|A2];
    destruct (Z.ltb_spec i (zlen r)) as [A3|A3]; destruct (Z.ltb_spec i (l1 + 1)) as [A4|A4];
    destruct (Z.ltb_spec i (l2 + 1)) as [A5|A5]; try reflexivity; exfalso; lia.
Qed.

(* C02_order: if adding (f1,c1) then (f2,c2) succeeds and the two cels have different
   (frame, layer) keys, then adding them the other way round succeeds too and every row of
   the two resulting tables is the same list (so every table_cel lookup agrees) *)
Theorem table_add_cel_comm t n f1 c1 f2 c2 t1 t12 :
  0 <= f1 -> 0 <= f2 -> (f1, cc_layer (c_data c1)) <> (f2, cc_layer (c_data c2)) ->
  table_add_cel t n f1 c1 = Ok t1 -> table_add_cel t1 n f2 c2 = Ok t12 ->
  exists t2 t21, table_add_cel t n f2 c2 = Ok t2 /\ table_add_cel t2 n f1 c1 = Ok t21 /\
    (forall fr, get_row t12 fr = get_row t21 fr) /\
    (forall nf fr l, table_cel t12 nf fr l = table_cel t21 nf fr l).
Proof.
  intros Hf1 Hf2 Hne E1 E2.
  apply table_add_cel_ok in E1 as (Hn1 & Hl1 & Hfree1 & ->).
  apply table_add_cel_ok in E2 as (Hn2 & Hl2 & Hfree2 & ->).
  set (l1 := cc_layer (c_data c1)) in *. set (l2 := cc_layer (c_data c2)) in *.
  rewrite get_row_zadd in Hfree2 by exact Hf1.
  assert (Hfree2' : match nthz (get_row t f2) l2 with Some (Some _) => False | _ => True end).
  { destruct (Z.eqb_spec f2 f1) as [->|Hf]; [|exact Hfree2].
    assert (Hl : l1 <> l2) by (intros El; apply Hne; rewrite El; reflexivity).
    rewrite nthz_set_row in Hfree2 by assumption. destruct (Z.eqb_spec l2 l1); [lia|].
    destruct (Z.ltb_spec l2 (zlen (get_row t f1))); [exact Hfree2|].
    replace (nthz (get_row t f1) l2) with (@None (option (cel rawpixels))); [exact I|]. symmetry. apply nthz_none. right. assumption. }
  exists (zadd f2 (set_row (get_row t f2) l2 c2) t).
  exists (zadd f1 (set_row (get_row (zadd f2 (set_row (get_row t f2) l2 c2) t) f1) l1 c1) (zadd f2 (set_row (get_row t f2) l2 c2) t)).
  split; [apply table_add_cel_succeeds; assumption|]. split.
  { apply table_add_cel_succeeds; [exact Hn1|exact Hl1|]. fold l1. rewrite get_row_zadd by exact Hf2.
    destruct (Z.eqb_spec f1 f2) as [->|Hf]; [|exact Hfree1].
    assert (Hl : l1 <> l2) by (intros El; apply Hne; rewrite El; reflexivity).
    rewrite nthz_set_row by assumption. destruct (Z.eqb_spec l1 l2); [lia|].
    destruct (Z.ltb_spec l1 (zlen (get_row t f2))); [exact Hfree1|]. destruct (l1 <? l2 + 1); exact I. }
  assert (Hrows : forall fr,
    get_row (zadd f2 (set_row (get_row (zadd f1 (set_row (get_row t f1) l1 c1) t) f2) l2 c2) (zadd f1 (set_row (get_row t f1) l1 c1) t)) fr =
    get_row (zadd f1 (set_row (get_row (zadd f2 (set_row (get_row t f2) l2 c2) t) f1) l1 c1) (zadd f2 (set_row (get_row t f2) l2 c2) t)) fr).
  { intros fr. rewrite !get_row_zadd by assumption.
    destruct (Z.eqb_spec f2 f1) as [E21|N21].
    - subst f2. rewrite Z.eqb_refl. destruct (Z.eqb_spec fr f1) as [->|_]; [|reflexivity].
      apply set_row_comm; [exact Hl1|exact Hl2|]. intros El. apply Hne. fold l1 l2. rewrite El. reflexivity.
    - destruct (Z.eqb_spec f1 f2) as [E12|_]; [lia|].
      destruct (Z.eqb_spec fr f2) as [Ea|_]; destruct (Z.eqb_spec fr f1) as [Eb|_]; try (exfalso; lia); reflexivity. }
  split; [exact Hrows|]. intros nf fr l. unfold table_cel. rewrite Hrows. reflexivity.
Qed.

(* the frame image reads the table only through its rows *)
Lemma write_cel_rows f t' img c : (forall fr, get_row t' fr = get_row (f_cels f) fr) ->
  write_cel (with_cels f t') img c = write_cel f img c.
Proof.
  intros Hrows. unfold write_cel. destruct (c_content c) as [w h px|target|tm]; try reflexivity.
  change (layer_get (with_cels f t') (cc_layer (c_data c))) with (layer_get f (cc_layer (c_data c))).
  destruct (layer_get f (cc_layer (c_data c))) as [lay|e|s]; cbn [rbind]; try reflexivity.
  unfold cel_lookup, table_cel. change (num_frames (with_cels f t')) with (num_frames f).
  change (f_cels (with_cels f t')) with t'. rewrite Hrows. reflexivity.
Qed.

Lemma frame_row_rows f t' : (forall fr, get_row t' fr = get_row (f_cels f) fr) -> forall r id img,
  frame_row (with_cels f t') img r id = frame_row f img r id.
Proof.
  intros Hrows. induction r as [|o r IH]; intros id img; [reflexivity|]. destruct o as [c|]; cbn [frame_row]; [|apply IH].
  change (num_layers (with_cels f t')) with (num_layers f). destruct (num_layers f <=? id); [reflexivity|].
  change (layer_is_visible (with_cels f t') id) with (layer_is_visible f id).
  destruct (layer_is_visible f id) as [v|e|s]; cbn [rbind]; try reflexivity.
  destruct v; [rewrite write_cel_rows by exact Hrows|].
  - destruct (write_cel f img c) as [img1|e|s]; cbn [rbind]; try reflexivity. apply IH.
  - cbn [rbind]. apply IH.
Qed.

Theorem frame_image_rows f t' fr : (forall fr, get_row t' fr = get_row (f_cels f) fr) ->
  frame_image (with_cels f t') fr = frame_image f fr.
Proof.
  intros Hrows. unfold frame_image. change (num_frames (with_cels f t')) with (num_frames f).
  destruct ((fr <? 0) || (num_frames f <=? fr)); [reflexivity|].
  change (f_cels (with_cels f t')) with t'. rewrite Hrows. apply frame_row_rows. exact Hrows.
Qed.

(* ------------------------------------------------------------------ *)
(* C06: cel images *)

Theorem cel_image_empty f fr l : cel_lookup f fr l = Ok None ->
  cel_is_empty f (fr, l) = Ok true /\ cel_top_left f (fr, l) = Ok (0, 0) /\
  cel_image f (fr, l) = Ok (img_new (f_width f) (f_height f)) /\
  forall x y, img_get (img_new (f_width f) (f_height f)) x y = transparent.
Proof.
  intros E. unfold cel_is_empty, cel_top_left, cel_image. cbn [fst snd]. rewrite E. cbn [rbind is_some negb].
  repeat split. intros x y. apply img_get_new.
Qed.

(* a linked cel renders like the cel it links to *)
Theorem cel_image_linked f fr l c target c' :
  cel_lookup f fr l = Ok (Some c) -> c_content c = CLinked target -> cc_layer (c_data c) = l ->
  cel_lookup f target l = Ok (Some c') -> is_linked c' = false -> cc_layer (c_data c') = l ->
  cel_image f (fr, l) = cel_image f (target, l).
Proof.
  intros E Ec Hl E' Hnl Hl'. unfold cel_image. cbn [fst snd]. rewrite E, E'. cbn [rbind]. unfold write_cel at 1.
  rewrite Ec, Hl, E'.
  assert (Hd : write_cel f (img_new (f_width f) (f_height f)) c' = write_cel_direct f (img_new (f_width f) (f_height f)) c').
  { unfold write_cel. unfold is_linked in Hnl. destruct (c_content c'); [reflexivity|discriminate|reflexivity]. }
  rewrite Hd. destruct (layer_get f l) as [lay|e|s] eqn:Elay; cbn [rbind]; [reflexivity| |].
  - unfold write_cel_direct. rewrite Hl', Elay. reflexivity.
  - unfold write_cel_direct. rewrite Hl', Elay. reflexivity.
Qed.

(* a link to an absent cel renders like the absent cel: fully transparent *)
Theorem cel_image_linked_absent f fr l c target lay :
  cel_lookup f fr l = Ok (Some c) -> c_content c = CLinked target -> cc_layer (c_data c) = l ->
  layer_get f l = Ok lay -> cel_lookup f target l = Ok None ->
  cel_image f (fr, l) = cel_image f (target, l).
Proof.
  intros E Ec Hl Hlay E'. unfold cel_image. cbn [fst snd]. rewrite E, E'. cbn [rbind]. unfold write_cel.
  rewrite Ec, Hl, Hlay, E'. reflexivity.
Qed.

(* every pixel of a cel image: the stored colour with scaled alpha inside the cel, transparent
   elsewhere *)
Theorem cel_image_pixels f fr l img : render_wf f -> cel_image f (fr, l) = Ok img ->
  iw img = f_width f /\ ih img = f_height f /\
  forall x y, 0 <= x < f_width f -> 0 <= y < f_height f -> cel_spec_pixel f fr l x y = Some (img_get img x y).
Proof.
  intros Hwf E. unfold cel_image in E. cbn [fst snd] in E. apply rbind_ok_inv in E as (o & Eo & E).
  apply cel_lookup_cel_at in Eo as (-> & _). unfold cel_spec_pixel.
  destruct (cel_at f fr l) as [c|] eqn:Ec.
  - destruct (write_cel_pixels f fr l c _ img Hwf Ec E) as (lay & Hlay & Hw & Hh & Hpx).
    rewrite iw_img_new in *. rewrite ih_img_new in *. split; [exact Hw|]. split; [exact Hh|].
    intros x y Hx Hy. specialize (Hpx x y Hx Hy). rewrite Hlay. rewrite img_get_new in Hpx.
    destruct (resolve f c l) as [rc|]; [|rewrite Hpx; reflexivity]. destruct Hpx as (Hpx & _).
    destruct (cel_px f lay rc x y) as [[[[r g] b] a]|]; [|rewrite Hpx; reflexivity].
    symmetry in Hpx. apply blend_transparent_inv in Hpx. rewrite Hpx. reflexivity.
  - injection E as <-. split; [reflexivity|]. split; [reflexivity|]. intros x y _ _. rewrite img_get_new. reflexivity.
Qed.

(* the three pixel formats *)
Theorem pixels_get_rgba a i : pixels_get (PRgba a) i = aget a i.
Proof. reflexivity. Qed.

Theorem pixels_get_gray a i p : pixels_get (PGray a) i = Some p <-> exists v al, aget a i = Some (v, al) /\ p = (v, v, v, al).
Proof.
  cbn [pixels_get]. destruct (aget a i) as [[v al]|]; cbn [option_map]; unfold gray_rgba; cbn [fst snd]; split.
  - intros H. injection H as <-. exists v, al. split; reflexivity.
  - intros (v' & al' & H & ->). injection H as -> ->. reflexivity.
  - discriminate.
  - intros (v' & al' & H & _). discriminate.
Qed.

Theorem pixels_get_indexed pal transp bg a i p : pixels_get (PIndexed pal transp bg a) i = Some p <->
  exists k e r g b al, aget a i = Some k /\ zfind k pal = Some e /\ pe_rgba e = (r, g, b, al) /\
    ((k = transp /\ bg = false -> p = (r, g, b, 0)) /\ (~ (k = transp /\ bg = false) -> p = (r, g, b, al))).
Proof.
  cbn [pixels_get]. unfold index_rgba. split.
  - destruct (aget a i) as [k|]; [|discriminate]. destruct (zfind k pal) as [e|] eqn:Ez; [|discriminate].
    destruct (pe_rgba e) as [[[r g] b] al] eqn:Ee. intros H. injection H as <-.
    exists k, e, r, g, b, al. split; [reflexivity|]. split; [exact Ez|]. split; [exact Ee|]. split.
    + intros (-> & ->). rewrite Z.eqb_refl. reflexivity.
    + intros Hn. destruct (Z.eqb_spec transp k) as [->|_]; [|reflexivity]. destruct bg; [reflexivity|]. exfalso. apply Hn. split; reflexivity.
  - intros (k & e & r & g & b & al & -> & -> & -> & H1 & H2).
    destruct (Z.eqb_spec transp k) as [<-|Hne]; cbn [andb].
    + destruct bg; cbn [negb].
      * rewrite H2; [reflexivity|]. intros (_ & Hb). discriminate.
      * rewrite H1; [reflexivity|]. split; reflexivity.
    + rewrite H2; [reflexivity|]. intros (Hk & _). apply Hne. symmetry. exact Hk.
Qed.

(* where the flags of an indexed buffer come from: validation stores the layer's background
   flag and the file's transparent index; every validated buffer is dense *)
Lemma validate_pixels_dense pal fmt bg rp px : validate_pixels pal fmt bg rp = Ok px -> pixels_dense px.
Proof.
  unfold validate_pixels. destruct rp as [l|l|l].
  - intros H. injection H as <-. exact I.
  - intros H. injection H as <-. apply arr_dense_of_list.
  - destruct pal as [p|]; [|discriminate]. destruct (forallb _ l); [|discriminate]. destruct fmt; try discriminate.
    intros H. injection H as <-. apply arr_dense_of_list.
Qed.

Lemma validate_pixels_indexed pal fmt bg rp p tr bg' a :
  validate_pixels pal fmt bg rp = Ok (PIndexed p tr bg' a) -> bg' = bg /\ fmt = FIndexed tr /\ pal = Some p.
Proof.
  unfold validate_pixels. destruct rp as [l|l|l]; try discriminate.
  destruct pal as [p0|]; [|discriminate]. destruct (forallb _ l); [|discriminate]. destruct fmt; try discriminate.
  intros H. injection H as -> -> -> _. repeat split.
Qed.

Theorem validate_cel_facts layers tss pal fmt t nf nl lid c c' :
  validate_cel layers tss pal fmt t nf nl lid c = Ok c' ->
  c_data c' = c_data c /\ cel_dense c' /\
  forall w h p tr bg a, c_content c' = CRaw w h (PIndexed p tr bg a) ->
    exists lay, aget layers lid = Some lay /\ bg = layer_is_background lay /\ fmt = FIndexed tr /\ pal = Some p.
Proof.
  unfold validate_cel. intros E. apply rbind_ok_inv in E as (content & Ect & E). injection E as <-.
  cbn [c_data c_content]. split; [reflexivity|]. unfold cel_dense. cbn [c_content].
  destruct (c_content c) as [w h rp|other|tm].
  - destruct (aget layers lid) as [lay|]; [|discriminate]. apply rbind_ok_inv in Ect as (px & Epx & Ect). injection Ect as <-.
    split; [exact (validate_pixels_dense _ _ _ _ _ Epx)|].
    intros w' h' p tr bg a H. injection H as -> -> ->. apply validate_pixels_indexed in Epx as (-> & -> & ->).
    exists lay. repeat split.
  - destruct ((other <? nf) && (lid <? nl)); [|discriminate]. apply rbind_ok_inv in Ect as (tgt & _ & Ect).
    destruct tgt as [c0|]; [|discriminate]. destruct (is_linked c0); [discriminate|]. injection Ect as <-.
    split; [exact I|]. intros w h p tr bg a H. discriminate.
  - destruct (aget layers lid) as [lay|]; [|discriminate]. destruct (l_type lay =? 2); [|discriminate].
    assert (Hc : content = CTilemap tm).
    { destruct (arr_max _ None) as [mx|]; [destruct (_ <=? mx); [discriminate|]|]; injection Ect as <-; reflexivity. }
    rewrite Hc. split; [exact I|]. intros w h p tr bg a H. discriminate.
Qed.

(* ------------------------------------------------------------------ *)
(* C19: access paths *)

Theorem route_cel_indep f r1 r2 fr l : route_cel f r1 fr l = route_cel f r2 fr l.
Proof. reflexivity. Qed.

Theorem route_cel_ok f r fr l id : route_cel f r fr l = Ok id ->
  id = (fr, l) /\ 0 <= fr < num_frames f /\ 0 <= l < num_layers f.
Proof.
  unfold route_cel. destruct (Z.ltb_spec fr 0), (Z.leb_spec (num_frames f) fr); cbn [orb]; try discriminate.
  destruct (Z.ltb_spec l 0), (Z.leb_spec (num_layers f) l); cbn [orb]; try discriminate.
  intros Hq. injection Hq as <-. repeat split; lia.
Qed.

Theorem route_accessors_agree f r1 r2 fr l id1 id2 :
  route_cel f r1 fr l = Ok id1 -> route_cel f r2 fr l = Ok id2 ->
  id1 = (fr, l) /\ id2 = (fr, l) /\
  cel_is_empty f id1 = cel_is_empty f id2 /\ cel_top_left f id1 = cel_top_left f id2 /\
  cel_user_data f id1 = cel_user_data f id2 /\ cel_is_tilemap f id1 = cel_is_tilemap f id2 /\
  cel_image f id1 = cel_image f id2.
Proof.
  intros E1 E2. apply route_cel_ok in E1 as (-> & _). apply route_cel_ok in E2 as (-> & _). repeat split.
Qed.

Lemma frame_row_single f l c : layer_is_visible f l = Ok true -> forall r id img, 0 <= id <= l ->
  cellat r (l - id) = Some c ->
  (forall k, 0 <= k -> id + k <> l -> cellat r k = None \/ hidden f (id + k)) ->
  frame_row f img r id = write_cel f img c.
Proof.
  intros Hv.
  assert (Hlt : l < num_layers f).
  { pose proof (visible_layer_exists f l true Hv) as Hex. destruct (aget (f_layers f) l) as [lay|] eqn:El; [|contradiction].
    apply aget_some_range in El. unfold num_layers. lia. }
  induction r as [|o r IH]; intros id img Hid Hc Hoth.
  - rewrite cellat_nil in Hc. discriminate.
  - destruct (Z.eq_dec id l) as [->|Hne].
    + rewrite Z.sub_diag, cellat_cons_0 in Hc. subst o. cbn [frame_row].
      destruct (Z.leb_spec (num_layers f) l); [lia|]. rewrite Hv. cbn [rbind].
      destruct (write_cel f img c) as [img1|e|s]; cbn [rbind]; try reflexivity.
      apply frame_row_all_hidden; [lia|]. intros k Hk. specialize (Hoth (k + 1) ltac:(lia) ltac:(lia)).
      rewrite cellat_cons_succ in Hoth by exact Hk. replace (l + 1 + k) with (l + (k + 1)) by lia. exact Hoth.
    + assert (Hskip : frame_row f img (o :: r) id = frame_row f img r (id + 1)).
      { specialize (Hoth 0 ltac:(lia) ltac:(lia)). rewrite cellat_cons_0, Z.add_0_r in Hoth. destruct Hoth as [->|Hh].
        - reflexivity.
        - apply hidden_contributes_nothing. exact Hh. }
      rewrite Hskip. apply IH; [lia| |].
      * replace (l - id) with (l - (id + 1) + 1) in Hc by lia. rewrite cellat_cons_succ in Hc by lia. exact Hc.
      * intros k Hk Hkl. specialize (Hoth (k + 1) ltac:(lia) ltac:(lia)). rewrite cellat_cons_succ in Hoth by exact Hk.
        replace (id + 1 + k) with (id + (k + 1)) by lia. exact Hoth.
Qed.

(* a frame in which exactly one visible layer has a cel renders exactly that cel's image *)
Theorem frame_single f fr l c : 0 <= fr < num_frames f -> 0 <= l ->
  cel_at f fr l = Some c -> layer_is_visible f l = Ok true ->
  (forall k, 0 <= k -> k <> l -> cel_at f fr k = None \/ hidden f k) ->
  frame_image f fr = cel_image f (fr, l).
Proof.
  intros Hfr Hl Hc Hv Hoth. unfold frame_image, cel_image. cbn [fst snd].
  destruct (Z.ltb_spec fr 0); [lia|]. destruct (Z.leb_spec (num_frames f) fr); [lia|]. cbn [orb].
  rewrite cel_lookup_in_range by exact Hfr. rewrite Hc. cbn [rbind].
  apply (frame_row_single f l c Hv); [lia|rewrite Z.sub_0_r; exact Hc|].
  intros k Hk Hkl. rewrite Z.add_0_l in *. apply Hoth; assumption.
Qed.

Theorem tilemap_image_is_cel_image f t : tilemap_image f t = cel_image f (tmv_frame t, tmv_layer t).
Proof. reflexivity. Qed.

(* ------------------------------------------------------------------ *)
(* towards render_wf for loaded files: the table operations of the parser keep every cel under
   its own layer id, and row validation keeps the cel headers and builds dense buffers *)

Definition table_layers_ok {P} (t : celtable P) : Prop :=
  forall fr l c, nthz (get_row t fr) l = Some (Some c) -> cc_layer (c_data c) = l.

Lemma table_layers_ok_empty {P} : table_layers_ok (@zempty (row P)).
Proof.
  intros fr l c H. unfold get_row in H.
  replace (zfind fr (@zempty (row P))) with (@None (row P)) in H
    by (unfold zfind, zempty; destruct (fr <? 0); [reflexivity|symmetry; apply PositiveMap.gempty]).
  destruct (Z.ltb_spec l 0) as [Hl|Hl]; [rewrite nthz_neg in H by exact Hl; discriminate|].
  destruct (Z.eq_dec l 0) as [->|Hl0]; [rewrite nthz_cons_0 in H; discriminate|].
  rewrite nthz_cons_pos in H by lia. rewrite nthz_nil in H. discriminate.
Qed.

Theorem table_add_cel_layers_ok t n fr c t' : 0 <= fr -> table_layers_ok t ->
  table_add_cel t n fr c = Ok t' -> table_layers_ok t'.
Proof.
  intros Hfr Hok E. apply table_add_cel_ok in E as (_ & Hl & _ & ->). intros fr' l' c' H.
  rewrite (get_row_zadd (P:=rawpixels)) in H by exact Hfr. destruct (Z.eqb_spec fr' fr) as [->|_]; [|exact (Hok fr' l' c' H)].
  destruct (Z.ltb_spec l' 0) as [Hl'|Hl']; [rewrite nthz_neg in H by exact Hl'; discriminate|].
  rewrite nthz_set_row in H by assumption. destruct (Z.eqb_spec l' (cc_layer (c_data c))) as [->|_].
  - injection H as <-. reflexivity.
  - destruct (l' <? zlen (get_row t fr)); [exact (Hok fr l' c' H)|]. destruct (l' <? cc_layer (c_data c) + 1); discriminate.
Qed.

Theorem table_set_cel_ud_layers_ok t fr l u t' : 0 <= fr -> table_layers_ok t ->
  table_set_cel_ud t fr l u = Some t' -> table_layers_ok t'.
Proof.
  intros Hfr Hok E. unfold table_set_cel_ud in E. destruct (nthz (get_row t fr) l) as [[c|]|] eqn:En; try discriminate.
  injection E as <-. pose proof (nthz_some _ _ _ En) as Hl. intros fr' l' c' H.
  rewrite (get_row_zadd (P:=rawpixels)) in H by exact Hfr. destruct (Z.eqb_spec fr' fr) as [->|_]; [|exact (Hok fr' l' c' H)].
  destruct (Z.ltb_spec l' 0) as [Hl'|Hl']; [rewrite nthz_neg in H by exact Hl'; discriminate|].
  rewrite nthz_upd_nth in H by lia. destruct (Z.eqb_spec l' l) as [->|_]; [|exact (Hok fr l' c' H)].
  destruct (l <? zlen (get_row t fr)); [|discriminate]. injection H as <-. cbn [set_cel_ud c_data]. exact (Hok fr l c En).
Qed.

Theorem validate_row_nthz layers tss pal fmt t nf nl : forall r id r',
  validate_row layers tss pal fmt t nf nl r id = Ok r' -> forall k, 0 <= k ->
  match nthz r k with
  | Some (Some c) => exists c', validate_cel layers tss pal fmt t nf nl (id + k) c = Ok c' /\ nthz r' k = Some (Some c')
  | Some None => nthz r' k = Some None
  | None => nthz r' k = None
  end.
Proof.
  induction r as [|o r IH]; intros id r' E k Hk; cbn [validate_row] in E.
  - injection E as <-. rewrite !nthz_nil. reflexivity.
  - apply rbind_ok_inv in E as (o' & Eo & E). apply rbind_ok_inv in E as (rest' & Er & E). injection E as <-.
    destruct (Z.eq_dec k 0) as [->|Hk0].
    + rewrite !nthz_cons_0, Z.add_0_r. destruct o as [c|].
      * apply rbind_ok_inv in Eo as (c' & Ec & Eo). injection Eo as <-. exists c'. split; [exact Ec|reflexivity].
      * injection Eo as <-. reflexivity.
    + rewrite !(nthz_cons_pos _ _ k) by lia. specialize (IH (id + 1) rest' Er (k - 1) ltac:(lia)).
      replace (id + 1 + (k - 1)) with (id + k) in IH by lia. exact IH.
Qed.

(* so a validated row of a well-keyed table is well-keyed and dense *)
Corollary validate_row_wf layers tss pal fmt t nf nl r r' :
  (forall l c, nthz r l = Some (Some c) -> cc_layer (c_data c) = l) ->
  validate_row layers tss pal fmt t nf nl r 0 = Ok r' ->
  forall l c', nthz r' l = Some (Some c') -> cc_layer (c_data c') = l /\ cel_dense c'.
Proof.
  intros Hok E l c' H. pose proof (nthz_some _ _ _ H) as Hl.
  pose proof (validate_row_nthz layers tss pal fmt t nf nl r 0 r' E l ltac:(lia)) as Hn.
  destruct (nthz r l) as [[c|]|] eqn:En.
  - destruct Hn as (c'' & Ev & Hn). rewrite H in Hn. injection Hn as <-.
    destruct (validate_cel_facts _ _ _ _ _ _ _ _ _ _ Ev) as (Hd & Hdense & _). rewrite Hd. split; [exact (Hok l c En)|exact Hdense].
  - rewrite H in Hn. discriminate.
  - rewrite H in Hn. discriminate.
Qed.
