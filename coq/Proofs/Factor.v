(* Factorisation of the loader: `parse_file` succeeds with (h, p) exactly when `framing`
   (Spec/Framing.v) succeeds with some frames and `assemble` of those frames gives p.
   Consequence (`load_ok_chunks`): when a file loads, every chunk that framing delivers was
   processed successfully, hence decoded successfully by the decoder of its kind. *)
From Ase Require Export Proofs.Truncation Spec.Framing.
From Coq Require Import Permutation.

(* ------------------------------------------------------------------ *)
(* generic *)

(* two trees that start with the same read, compared by a relation on their outcomes *)
Lemma run_bind_rel {A B C} (R : res (B * list Z) -> res (C * list Z) -> Prop)
      (t : IT A) (f : A -> IT B) (g : A -> IT C) bs :
  (forall e, R (Err e) (Err e)) -> (forall s, R (Panic s) (Panic s)) ->
  (forall a r, run t bs = Ok (a, r) -> R (run (f a) r) (run (g a) r)) ->
  R (run (bind t f) bs) (run (bind t g) bs).
Proof.
  intros He Hp H. rewrite !run_bind. destruct (run t bs) as [[a r]|e|s]; [apply H; reflexivity|apply He|apply Hp].
Qed.

Lemma rfold_app {A B} (f : B -> A -> res B) l1 l2 b :
  rfold f (l1 ++ l2) b = rbind (rfold f l1 b) (rfold f l2).
Proof.
  revert b; induction l1 as [|x t IH]; intros b; cbn [app rfold rbind]; [reflexivity|].
  destruct (f b x) as [b'|e|s]; cbn [rbind]; [apply IH|reflexivity|reflexivity].
Qed.

(* a step-preserved property holds after a successful fold *)
Lemma rfold_inv {A B} (P : B -> Prop) (f : B -> A -> res B) :
  (forall b x b', P b -> f b x = Ok b' -> P b') ->
  forall l b b', P b -> rfold f l b = Ok b' -> P b'.
Proof.
  intros Hstep. induction l as [|x t IH]; intros b b' HP; cbn [rfold].
  - intros [= <-]. exact HP.
  - destruct (f b x) as [b1|e|s] eqn:F; cbn [rbind]; try discriminate.
    apply IH. eapply Hstep; [exact HP|exact F].
Qed.

(* every element of a successful fold was accepted by the step function *)
Lemma rfold_ok_Forall {A B} (Q : A -> Prop) (f : B -> A -> res B) :
  (forall b x b', f b x = Ok b' -> Q x) ->
  forall l b b', rfold f l b = Ok b' -> Forall Q l.
Proof.
  intros Hstep. induction l as [|x t IH]; intros b b'; cbn [rfold]; [constructor|].
  destruct (f b x) as [b1|e|s] eqn:F; cbn [rbind]; try discriminate.
  intros H. constructor; [eapply Hstep; exact F|eapply IH; exact H].
Qed.

(* the intermediate states of a successful fold *)
Lemma rfold_ok_split {A B} (f : B -> A -> res B) l1 x l2 b b' :
  rfold f (l1 ++ x :: l2) b = Ok b' ->
  exists b1 b2, rfold f l1 b = Ok b1 /\ f b1 x = Ok b2 /\ rfold f l2 b2 = Ok b'.
Proof.
  rewrite rfold_app. intros H. apply rbind_ok in H. destruct H as (b1 & H1 & H).
  cbn [rfold] in H. apply rbind_ok in H. destruct H as (b2 & H2 & H).
  exists b1, b2. repeat split; assumption.
Qed.

(* zmap: find after add, for keys that are not negative *)
Lemma akey_inj_nonneg i j : 0 <= i -> 0 <= j -> akey i = akey j -> i = j.
Proof. unfold akey. intros Hi Hj H. apply Z2Pos.inj in H; lia. Qed.

Lemma zfind_zadd_nonneg {A} k k' (v : A) m : 0 <= k -> 0 <= k' ->
  zfind k (zadd k' v m) = if k =? k' then Some v else zfind k m.
Proof.
  intros Hk Hk'. unfold zfind, zadd. destruct (Z.ltb_spec k 0) as [H|_]; [lia|].
  rewrite PositiveMapAdditionalFacts.gsspec. destruct (PositiveMap.E.eq_dec (akey k) (akey k')) as [E|E].
  - apply akey_inj_nonneg in E; [|lia|lia]. subst k'. rewrite Z.eqb_refl. reflexivity.
  - destruct (Z.eqb_spec k k') as [E'|_]; [subst k'; contradiction|reflexivity].
Qed.

Lemma In_zelements {A} (m : zmap A) k v : zfind k m = Some v -> In (k, v) (zelements m).
Proof.
  intros H. unfold zelements. apply in_flat_map. exists k. split; [|rewrite H; left; reflexivity].
  unfold zfind in H. destruct (Z.ltb_spec k 0) as [|Hk]; [discriminate|].
  unfold zkeys. eapply Permutation_in; [apply ZSort.Permuted_sort|].
  apply in_map_iff. exists (akey k, v). split.
  - cbn [fst]. unfold akey. rewrite Z2Pos.id by lia. lia.
  - apply PositiveMap.elements_correct. exact H.
Qed.

Lemma In_zelements_inv {A} (m : zmap A) k v : In (k, v) (zelements m) -> zfind k m = Some v /\ 0 <= k.
Proof.
  unfold zelements. intros H. apply in_flat_map in H. destruct H as (k0 & _ & H).
  destruct (zfind k0 m) as [v0|] eqn:E; [|contradiction]. destruct H as [[= <- <-]|[]].
  split; [exact E|]. unfold zfind in E. destruct (Z.ltb_spec k0 0); [discriminate|assumption].
Qed.

(* ------------------------------------------------------------------ *)
(* process_chunk does not touch the frame count *)

Lemma add_cel_nframes p fid c p' : add_cel p fid c = Ok p' -> pi_nframes p' = pi_nframes p.
Proof.
  unfold add_cel. destruct (pi_nlayers p <=? cc_layer (c_data c)); [discriminate|].
  destruct (table_add_cel (pi_cels p) (pi_nframes p) fid c) as [t|e|s]; cbn [rbind]; try discriminate.
  intros [= <-]. reflexivity.
Qed.

Lemma add_user_data_nframes p u p' : add_user_data p u = Ok p' -> pi_nframes p' = pi_nframes p.
Proof.
  unfold add_user_data. destruct (pi_ctx p) as [[f l|i| |i|i]|]; try discriminate.
  - destruct (table_set_cel_ud (pi_cels p) f l u); [|discriminate]. intros [= <-]. reflexivity.
  - destruct (upd_rev (pi_layers_rev p) (pi_nlayers p) i (fun l => set_layer_ud l u)); [|discriminate].
    intros [= <-]. reflexivity.
  - intros [= <-]. reflexivity.
  - destruct (pi_tags p) as [ts|]; [|discriminate]. destruct (nthz ts i); [|discriminate].
    destruct (65535 <=? i); [discriminate|]. intros [= <-]. reflexivity.
  - destruct (upd_rev (pi_slices_rev p) (pi_nslices p) i (fun s => set_slice_ud s u)); [|discriminate].
    intros [= <-]. reflexivity.
Qed.

Section Factor.
Variable inflate : list Z -> Z -> zres.

Ltac conj_split := repeat match goal with |- _ /\ _ => split end.
Ltac ok_case r := destruct r; cbn [rbind]; try discriminate.

Lemma process_chunk_nframes fmt fid p ch p' :
  process_chunk inflate fmt fid p ch = Ok p' -> pi_nframes p' = pi_nframes p.
Proof.
  destruct ch as [ty data]. unfold process_chunk.
  destruct (ty =? 8199). { ok_case (run_payload dec_color_profile data). intros [= <-]. reflexivity. }
  destruct (ty =? 8217). { ok_case (run_payload dec_palette data). intros [= <-]. reflexivity. }
  destruct (ty =? 8196). { ok_case (run_payload dec_layer data). intros [= <-]. reflexivity. }
  destruct (ty =? 8197). { ok_case (dec_cel inflate fmt data). apply add_cel_nframes. }
  destruct (ty =? 8200). { ok_case (run_payload dec_external data). intros [= <-]. reflexivity. }
  destruct (ty =? 8216). { ok_case (run_payload dec_tags data). intros [= <-]. destruct (fid =? 0); reflexivity. }
  destruct (ty =? 8226). { ok_case (run_payload dec_slice data). intros [= <-]. reflexivity. }
  destruct (ty =? 8224). { ok_case (run_payload dec_userdata data). apply add_user_data_nframes. }
  destruct ((ty =? 4) || (ty =? 17)).
  { destruct (pi_palette (with_ctx p (Some UOldPalette))).
    - intros [= <-]. reflexivity.
    - ok_case (run_payload (dec_old_palette (ty =? 17)) data). intros [= <-]. reflexivity. }
  destruct (ty =? 8227). { ok_case (dec_tileset inflate fmt data). intros [= <-]. reflexivity. }
  intros [= <-]. reflexivity.
Qed.

Lemma rfold_process_nframes fmt fid chunks p p' :
  rfold (process_chunk inflate fmt fid) chunks p = Ok p' -> pi_nframes p' = pi_nframes p.
Proof.
  intros H.
  apply (rfold_inv (fun q => pi_nframes q = pi_nframes p) (process_chunk inflate fmt fid)) with (l := chunks) (b := p);
    [|reflexivity|exact H].
  intros b x b' Hb Hs. rewrite <- Hb. eapply process_chunk_nframes. exact Hs.
Qed.

(* ------------------------------------------------------------------ *)
(* one frame *)

Definition frame_rel (fmt : pixfmt) (p : pinfo) (fid : Z)
           (x : res (pinfo * list Z)) (y : res (rawframe * list Z)) : Prop :=
  forall p' rest,
    x = Ok (p', rest) <->
    exists dur chunks,
      y = Ok ((dur, chunks), rest) /\
      rfold (process_chunk inflate fmt fid) chunks (with_times p (zadd fid dur (pi_times p))) = Ok p'.

Lemma frame_rel_err fmt p fid e : frame_rel fmt p fid (Err e) (Err e).
Proof. intros p' rest. split; [discriminate|intros (d & c & H & _); discriminate]. Qed.
Lemma frame_rel_panic fmt p fid s : frame_rel fmt p fid (Panic s) (Panic s).
Proof. intros p' rest. split; [discriminate|intros (d & c & H & _); discriminate]. Qed.

Lemma parse_frame_factor fmt p fid bs :
  fid < pi_nframes p ->
  frame_rel fmt p fid (run (parse_frame inflate fmt p fid) bs) (run frame_chunks bs).
Proof.
  intros Hfid. unfold parse_frame, frame_chunks; rewrite ?frev_eq.
  apply (run_bind_rel (frame_rel fmt p fid)); [apply frame_rel_err|apply frame_rel_panic|intros num_bytes r1 _].
  apply (run_bind_rel (frame_rel fmt p fid)); [apply frame_rel_err|apply frame_rel_panic|intros magic r2 _].
  destruct (negb (magic =? 61946)); [cbn [run]; apply frame_rel_err|].
  apply (run_bind_rel (frame_rel fmt p fid)); [apply frame_rel_err|apply frame_rel_panic|intros old_n r3 _].
  apply (run_bind_rel (frame_rel fmt p fid)); [apply frame_rel_err|apply frame_rel_panic|intros duration r4 _].
  apply (run_bind_rel (frame_rel fmt p fid)); [apply frame_rel_err|apply frame_rel_panic|intros w5 r5 _].
  apply (run_bind_rel (frame_rel fmt p fid)); [apply frame_rel_err|apply frame_rel_panic|intros new_n r6 _].
  destruct (Z.leb_spec (pi_nframes p) fid) as [Hle|_]; [lia|].
  cbv zeta.
  apply (run_bind_rel (frame_rel fmt p fid)); [apply frame_rel_err|apply frame_rel_panic|intros st r7 _].
  rewrite !frev_eq. rewrite run_lift. cbn [run]. intros p' rest.
  destruct (rfold (process_chunk inflate fmt fid) (rev (fst st))
                  (with_times p (zadd fid duration (pi_times p)))) as [q|e|s] eqn:F.
  - split.
    + intros [= <- <-]. exists duration, (rev (fst st)). split; [reflexivity|exact F].
    + intros (d & c & [= <- <- <-] & Hf). rewrite F in Hf. injection Hf as <-. reflexivity.
  - split; [discriminate|]. intros (d & c & [= <- <- <-] & Hf). rewrite F in Hf. discriminate.
  - split; [discriminate|]. intros (d & c & [= <- <- <-] & Hf). rewrite F in Hf. discriminate.
Qed.

(* ------------------------------------------------------------------ *)
(* the loop over the frames *)

(* framing_step pushes one frame per iteration *)
Lemma framing_acc k : forall acc bs acc' rest,
  run_times k framing_step acc bs = Ok (acc', rest) ->
  exists new, acc' = rev new ++ acc /\ length new = k.
Proof.
  induction k as [|k IH]; intros acc bs acc' rest; cbn [run_times].
  - intros [= <- <-]. exists []. split; reflexivity.
  - unfold framing_step at 1. rewrite run_bind.
    destruct (run frame_chunks bs) as [[fr r1]|e|s]; try discriminate. cbn [run].
    intros H. apply IH in H. destruct H as (new & -> & Hl).
    exists (fr :: new). split; [cbn [rev]; rewrite <- app_assoc; reflexivity|cbn [length]; lia].
Qed.

Lemma frames_loop fmt N k : forall p fid bs acc,
  pi_nframes p = N -> ((0 < k)%nat -> fid + Z.of_nat k <= N) ->
  forall p' fid' rest,
    run_times k (parse_frames_step inflate fmt) (p, fid) bs = Ok ((p', fid'), rest) <->
    exists frames,
      run_times k framing_step acc bs = Ok (rev frames ++ acc, rest) /\
      rfold (assemble_frame inflate fmt) frames (p, fid) = Ok (p', fid').
Proof.
  induction k as [|k IH]; intros p fid bs acc HN Hk p' fid' rest.
  - cbn [run_times]. split.
    + intros [= <- <- <-]. exists []. split; reflexivity.
    + intros (frames & [= Hacc <-] & Hf).
      assert (frames = []) as ->.
      { change acc with ([] ++ acc) in Hacc at 1. apply app_inv_tail in Hacc.
        destruct frames as [|x t]; [reflexivity|]. cbn [rev] in Hacc.
        destruct (rev t); discriminate. }
      cbn [rfold] in Hf. injection Hf as <- <-. reflexivity.
  - assert (fid < pi_nframes p) as Hlt by lia.
    pose proof (parse_frame_factor fmt p fid bs Hlt) as HF.
    cbn [run_times]. unfold parse_frames_step at 1, framing_step at 1. rewrite !run_bind.
    split.
    + destruct (run (parse_frame inflate fmt p fid) bs) as [[p1 r1]|e|s] eqn:RP; try discriminate.
      cbn [run]. intros H.
      destruct (proj1 (HF p1 r1) eq_refl) as (dur & chunks & RF & Hfold).
      rewrite RF. cbn [run].
      assert (pi_nframes p1 = N) as HN1.
      { apply rfold_process_nframes in Hfold. rewrite Hfold. exact HN. }
      apply (IH p1 (fid + 1) r1 ((dur, chunks) :: acc) HN1) in H; [|lia].
      destruct H as (frames & Hr & Hf). exists ((dur, chunks) :: frames). split.
      * cbn [rev]. rewrite <- app_assoc. exact Hr.
      * cbn [rfold assemble_frame]. rewrite Hfold. cbn [rbind]. exact Hf.
    + intros (frames & Hr & Hf).
      destruct (run frame_chunks bs) as [[[dur chunks] r1]|e|s] eqn:RF; try discriminate.
      cbn [run] in Hr.
      destruct (framing_acc _ _ _ _ _ Hr) as (new & Hacc & Hl).
      assert (frames = (dur, chunks) :: new) as ->.
      { assert (rev frames = rev ((dur, chunks) :: new)) as E.
        { apply (app_inv_tail acc). rewrite Hacc. cbn [rev]. rewrite <- app_assoc. reflexivity. }
        apply (f_equal (@rev _)) in E. rewrite !rev_involutive in E. exact E. }
      cbn [rfold assemble_frame] in Hf.
      apply rbind_ok in Hf. destruct Hf as ([p1 fid1] & Hf1 & Hf).
      apply rbind_ok in Hf1. destruct Hf1 as (q & Hfold & [= <- <-]).
      assert (run (parse_frame inflate fmt p fid) bs = Ok (q, r1)) as RP.
      { apply (HF q r1). exists dur, chunks. split; [reflexivity|exact Hfold]. }
      rewrite RP. cbn [run].
      assert (pi_nframes q = N) as HN1.
      { apply rfold_process_nframes in Hfold. rewrite Hfold. exact HN. }
      apply (IH q (fid + 1) r1 ((dur, chunks) :: acc) HN1); [lia|].
      exists new. split; [|exact Hf].
      rewrite Hacc in Hr. exact Hr.
Qed.

(* ------------------------------------------------------------------ *)
(* the file *)

Definition file_rel (x : res ((header * pinfo) * list Z)) (y : res ((rawheader * list rawframe) * list Z)) : Prop :=
  forall h p rest,
    x = Ok ((h, p), rest) <->
    exists rh frames fmt,
      y = Ok ((rh, frames), rest) /\
      parse_pixel_format (rh_depth rh) (rh_transparent rh) = Ok fmt /\
      h = header_of rh fmt /\
      assemble inflate fmt (rh_frames rh) (rh_default_time rh) frames = Ok p.

Lemma file_rel_err e : file_rel (Err e) (Err e).
Proof. intros h p rest. split; [discriminate|intros (a & b & c & H & _); discriminate]. Qed.
Lemma file_rel_panic s : file_rel (Panic s) (Panic s).
Proof. intros h p rest. split; [discriminate|intros (a & b & c & H & _); discriminate]. Qed.

Ltac file_step x r :=
  apply (run_bind_rel file_rel); [apply file_rel_err|apply file_rel_panic|intros x r _].

Lemma parse_file_rel bs : file_rel (run (parse_file inflate) bs) (run framing bs).
Proof.
  unfold parse_file, framing.
  file_step w0 r0. file_step magic r1.
  destruct (negb (magic =? 42464)); [cbn [run]; apply file_rel_err|].
  file_step num_frames r2. file_step width r3. file_step height r4. file_step depth r5.
  file_step w6 r6. file_step default_time r7. file_step w8 r8. file_step w9 r9.
  file_step transp r10. file_step w11 r11. file_step w12 r12. file_step w13 r13.
  file_step pixel_w r14. file_step pixel_h r15.
  file_step w16 r16. file_step w17 r17. file_step w18 r18. file_step w19 r19.
  file_step w20 r20.
  destruct (negb (pixel_w =? 0) && negb (pixel_h =? 0) && negb ((pixel_w =? 1) && (pixel_h =? 1)));
    [cbn [run]; apply file_rel_err|].
  apply (run_bind_rel file_rel); [apply file_rel_err|apply file_rel_panic|intros fmt r21 Hfmt].
  rewrite run_lift in Hfmt.
  destruct (parse_pixel_format depth transp) as [fmt0|e|s] eqn:PF; try discriminate.
  injection Hfmt as <- <-.
  rewrite !run_bind, !run_iterZ.
  set (k := Z.to_nat num_frames).
  assert ((0 < k)%nat -> 0 + Z.of_nat k <= num_frames) as Hk by (subst k; lia).
  pose proof (frames_loop fmt0 num_frames k (pinfo_new num_frames default_time) 0 r20 [] eq_refl Hk) as HL.
  intros h p rest. split.
  - destruct (run_times k (parse_frames_step inflate fmt0) (pinfo_new num_frames default_time, 0) r20)
      as [[[p1 fid1] rr]|e|s] eqn:RT; try discriminate.
    cbn [run fst]. intros [= <- <- <-].
    destruct (proj1 (HL p1 fid1 rr) eq_refl) as (frames & Hr & Hf).
    rewrite Hr. cbn [run]. rewrite app_nil_r, rev_involutive.
    eexists _, frames, fmt0. split; [reflexivity|]. cbn [rh_depth rh_transparent rh_frames rh_default_time].
    split; [exact PF|]. split; [reflexivity|].
    unfold assemble. rewrite Hf. reflexivity.
  - intros (rh & frames & fmt' & Hy & Hpf & -> & Hasm).
    destruct (run_times k framing_step [] r20) as [[acc rr]|e|s] eqn:RT; try discriminate.
    cbn [run] in Hy. injection Hy as <- <- <-.
    cbn [rh_depth rh_transparent rh_frames rh_default_time] in Hpf, Hasm.
    rewrite PF in Hpf. injection Hpf as <-.
    unfold assemble in Hasm. apply rmap_ok in Hasm. destruct Hasm as ([p1 fid1] & Hf & Hp).
    cbn [fst] in Hp. subst p1.
    assert (run_times k (parse_frames_step inflate fmt0) (pinfo_new num_frames default_time, 0) r20
            = Ok ((p, fid1), rr)) as RP.
    { apply HL. exists (rev acc). split; [|exact Hf]. rewrite rev_involutive, app_nil_r. reflexivity. }
    rewrite RP. cbn [run fst]. reflexivity.
Qed.

(* THE FACTORISATION THEOREM *)
Theorem parse_file_factor bs h p rest :
  run (parse_file inflate) bs = Ok ((h, p), rest) <->
  exists rh frames fmt,
    run framing bs = Ok ((rh, frames), rest) /\
    parse_pixel_format (rh_depth rh) (rh_transparent rh) = Ok fmt /\
    h = header_of rh fmt /\
    assemble inflate fmt (rh_frames rh) (rh_default_time rh) frames = Ok p.
Proof. apply parse_file_rel. Qed.

(* the loader: framing, assembly, validation *)
Theorem load_rest_factor bs f rest :
  load_rest inflate bs = Ok (f, rest) <->
  exists rh frames fmt p,
    run framing bs = Ok ((rh, frames), rest) /\
    parse_pixel_format (rh_depth rh) (rh_transparent rh) = Ok fmt /\
    assemble inflate fmt (rh_frames rh) (rh_default_time rh) frames = Ok p /\
    validate (header_of rh fmt) p = Ok f.
Proof.
  split.
  - intros H. apply load_rest_ok_inv in H. destruct H as (h & p & Hr & Hv).
    apply parse_file_factor in Hr. destruct Hr as (rh & frames & fmt & Hf & Hpf & -> & Ha).
    exists rh, frames, fmt, p. repeat split; assumption.
  - intros (rh & frames & fmt & p & Hf & Hpf & Ha & Hv).
    eapply load_rest_of_run; [|exact Hv]. apply parse_file_factor.
    exists rh, frames, fmt. repeat split; assumption.
Qed.

Theorem load_factor bs f :
  load inflate bs = Ok f <->
  exists rh frames fmt p rest,
    run framing bs = Ok ((rh, frames), rest) /\
    parse_pixel_format (rh_depth rh) (rh_transparent rh) = Ok fmt /\
    assemble inflate fmt (rh_frames rh) (rh_default_time rh) frames = Ok p /\
    validate (header_of rh fmt) p = Ok f.
Proof.
  split.
  - unfold load. intros H. apply rmap_ok in H. destruct H as ([f' rest] & H & <-). cbn [fst].
    apply load_rest_factor in H. destruct H as (rh & frames & fmt & p & H).
    exists rh, frames, fmt, p, rest. exact H.
  - intros (rh & frames & fmt & p & rest & H).
    eapply load_of_load_rest. apply load_rest_factor. exists rh, frames, fmt, p. exact H.
Qed.

(* ------------------------------------------------------------------ *)
(* accepted chunks *)

(* decoder-level success of a chunk, by kind.  (A legacy palette chunk, 4 or 17, is decoded
   only when no palette has been seen, and the remaining known kinds are not decoded.) *)
Definition chunk_accepted (fmt : pixfmt) (ch : rawchunk) : Prop :=
  let '(ty, data) := ch in
  (ty = 8199 -> run_payload dec_color_profile data = Ok tt) /\
  (ty = 8217 -> exists pal, run_payload dec_palette data = Ok pal) /\
  (ty = 8196 -> exists l, run_payload dec_layer data = Ok l) /\
  (ty = 8197 -> exists c, dec_cel inflate fmt data = Ok c) /\
  (ty = 8200 -> exists fs, run_payload dec_external data = Ok fs) /\
  (ty = 8216 -> exists ts, run_payload dec_tags data = Ok ts) /\
  (ty = 8226 -> exists s, run_payload dec_slice data = Ok s) /\
  (ty = 8224 -> exists u, run_payload dec_userdata data = Ok u) /\
  (ty = 8227 -> exists t, dec_tileset inflate fmt data = Ok t).

Lemma process_chunk_accepted fmt fid p ch p' :
  process_chunk inflate fmt fid p ch = Ok p' -> chunk_accepted fmt ch.
Proof.
  destruct ch as [ty data]. unfold process_chunk, chunk_accepted.
  destruct (Z.eqb_spec ty 8199) as [->|N1].
  { destruct (run_payload dec_color_profile data) as [[]|e|s]; cbn [rbind]; try discriminate.
    intros _. conj_split; intros E; try discriminate E. reflexivity. }
  destruct (Z.eqb_spec ty 8217) as [->|N2].
  { destruct (run_payload dec_palette data) as [x|e|s]; cbn [rbind]; try discriminate.
    intros _. conj_split; intros E; try discriminate E. exists x. reflexivity. }
  destruct (Z.eqb_spec ty 8196) as [->|N3].
  { destruct (run_payload dec_layer data) as [x|e|s]; cbn [rbind]; try discriminate.
    intros _. conj_split; intros E; try discriminate E. exists x. reflexivity. }
  destruct (Z.eqb_spec ty 8197) as [->|N4].
  { destruct (dec_cel inflate fmt data) as [x|e|s]; cbn [rbind]; try discriminate.
    intros _. conj_split; intros E; try discriminate E. exists x. reflexivity. }
  destruct (Z.eqb_spec ty 8200) as [->|N5].
  { destruct (run_payload dec_external data) as [x|e|s]; cbn [rbind]; try discriminate.
    intros _. conj_split; intros E; try discriminate E. exists x. reflexivity. }
  destruct (Z.eqb_spec ty 8216) as [->|N6].
  { destruct (run_payload dec_tags data) as [x|e|s]; cbn [rbind]; try discriminate.
    intros _. conj_split; intros E; try discriminate E. exists x. reflexivity. }
  destruct (Z.eqb_spec ty 8226) as [->|N7].
  { destruct (run_payload dec_slice data) as [x|e|s]; cbn [rbind]; try discriminate.
    intros _. conj_split; intros E; try discriminate E. exists x. reflexivity. }
  destruct (Z.eqb_spec ty 8224) as [->|N8].
  { destruct (run_payload dec_userdata data) as [x|e|s]; cbn [rbind]; try discriminate.
    intros _. conj_split; intros E; try discriminate E. exists x. reflexivity. }
  destruct ((ty =? 4) || (ty =? 17)) eqn:E4.
  { intros _. conj_split; intros E; try contradiction. subst ty. discriminate E4. }
  destruct (Z.eqb_spec ty 8227) as [->|N9].
  { destruct (dec_tileset inflate fmt data) as [x|e|s]; cbn [rbind]; try discriminate.
    intros _. conj_split; intros E; try discriminate E. exists x. reflexivity. }
  intros _. conj_split; intros E; contradiction.
Qed.

Lemma assemble_frame_accepted fmt st fr st' :
  assemble_frame inflate fmt st fr = Ok st' -> Forall (chunk_accepted fmt) (snd fr).
Proof.
  destruct st as [p fid], fr as [dur chunks]. cbn [assemble_frame snd]. intros H.
  apply rbind_ok in H. destruct H as (q & H & _).
  eapply rfold_ok_Forall; [|exact H]. intros b x b'. apply process_chunk_accepted.
Qed.

Theorem assemble_accepted fmt n d frames p :
  assemble inflate fmt n d frames = Ok p ->
  Forall (fun fr => Forall (chunk_accepted fmt) (snd fr)) frames.
Proof.
  unfold assemble. intros H. apply rmap_ok in H. destruct H as (st & H & _).
  eapply rfold_ok_Forall; [|exact H]. intros b x b'. apply assemble_frame_accepted.
Qed.

(* a property of (chunks processed so far, state) that every step extends holds at the end *)
Lemma rfold_hist {A B} (K : list A -> B -> Prop) (f : B -> A -> res B) :
  (forall done b x b', K done b -> f b x = Ok b' -> K (done ++ [x]) b') ->
  forall l done b b', K done b -> rfold f l b = Ok b' -> K (done ++ l) b'.
Proof.
  intros Hstep. induction l as [|x t IH]; intros done b b' HK; cbn [rfold].
  - intros [= <-]. rewrite app_nil_r. exact HK.
  - destruct (f b x) as [b1|e|s] eqn:F; cbn [rbind]; try discriminate. intros H.
    replace (done ++ x :: t) with ((done ++ [x]) ++ t) by (rewrite <- app_assoc; reflexivity).
    eapply IH; [|exact H]. eapply Hstep; [exact HK|exact F].
Qed.

Lemma all_chunks_app a b : all_chunks (a ++ b) = all_chunks a ++ all_chunks b.
Proof. unfold all_chunks. apply flat_map_app. Qed.

(* the same for the assembly: K relates the chunks processed so far (all frames, file order)
   to the state; recording a frame duration must not disturb it *)
Theorem assemble_hist (K : list rawchunk -> pinfo -> Prop) fmt n d :
  (forall done p v, K done p -> K done (with_times p v)) ->
  (forall done p fid ch p', K done p -> process_chunk inflate fmt fid p ch = Ok p' -> K (done ++ [ch]) p') ->
  K [] (pinfo_new n d) ->
  forall frames p, assemble inflate fmt n d frames = Ok p -> K (all_chunks frames) p.
Proof.
  intros Htime Hstep H0 frames p H. unfold assemble in H. apply rmap_ok in H.
  destruct H as ([p1 fid1] & H & Hp). cbn [fst] in Hp. subst p1.
  apply (rfold_hist (fun (done : list rawframe) (st : pinfo * Z) => K (all_chunks done) (fst st))
                    (assemble_frame inflate fmt)) with (l := frames) (done := []) (b := (pinfo_new n d, 0))
                    (b' := (p, fid1)); [|exact H0|exact H].
  intros done [q fid] [dur chunks] [q' fid'] HK Hs. cbn [fst] in *. cbn [assemble_frame] in Hs.
  apply rbind_ok in Hs. destruct Hs as (q2 & Hs & [= <- <-]).
  rewrite all_chunks_app. unfold all_chunks at 2. cbn [flat_map snd]. rewrite app_nil_r.
  apply (rfold_hist (fun (dc : list rawchunk) (st : pinfo) => K (all_chunks done ++ dc) st)
                    (process_chunk inflate fmt fid)) with (l := chunks) (done := [])
                    (b := with_times q (zadd fid dur (pi_times q))); [| |exact Hs].
  - intros dc b x b' HKb Hb. rewrite app_assoc. eapply Hstep; [exact HKb|exact Hb].
  - rewrite app_nil_r. apply Htime. exact HK.
Qed.

(* each chunk, at its place in the file, was processed with result Ok from some intermediate state *)
Theorem assemble_chunk_processed fmt n d frames p pre ch post :
  assemble inflate fmt n d frames = Ok p ->
  all_chunks frames = pre ++ ch :: post ->
  exists fid p1 p2, process_chunk inflate fmt fid p1 ch = Ok p2.
Proof.
  intros H. revert pre ch post.
  apply (assemble_hist
           (fun done (_ : pinfo) => forall pre ch post, done = pre ++ ch :: post ->
                                    exists fid p1 p2, process_chunk inflate fmt fid p1 ch = Ok p2) fmt n d)
    with (frames := frames) (p := p); [| | |exact H].
  - intros done q v HK. exact HK.
  - intros done q fid x q' HK Hs pre ch post Hsplit.
    destruct post as [|y post0 _] using rev_ind.
    + apply app_inj_tail in Hsplit. destruct Hsplit as (_ & <-). exists fid, q, q'. exact Hs.
    + replace (pre ++ ch :: post0 ++ [y]) with ((pre ++ ch :: post0) ++ [y]) in Hsplit
        by (rewrite <- app_assoc; reflexivity).
      apply app_inj_tail in Hsplit. destruct Hsplit as (Hd & _). eapply HK. exact Hd.
  - intros pre ch post Hsplit. destruct pre; discriminate.
Qed.

(* a file that loads: framing succeeds and every chunk it delivers was accepted *)
Theorem load_ok_chunks bs f :
  load inflate bs = Ok f ->
  exists rh frames fmt rest,
    run framing bs = Ok ((rh, frames), rest) /\
    parse_pixel_format (rh_depth rh) (rh_transparent rh) = Ok fmt /\
    Forall (fun fr => Forall (chunk_accepted fmt) (snd fr)) frames.
Proof.
  intros H. apply load_factor in H. destruct H as (rh & frames & fmt & p & rest & Hf & Hpf & Ha & _).
  exists rh, frames, fmt, rest. repeat split; try assumption.
  eapply assemble_accepted. exact Ha.
Qed.

(* the same, chunk by chunk *)
Corollary load_ok_chunk bs f rh frames rest dur chunks ch :
  load inflate bs = Ok f ->
  run framing bs = Ok ((rh, frames), rest) ->
  In (dur, chunks) frames -> In ch chunks ->
  exists fmt, parse_pixel_format (rh_depth rh) (rh_transparent rh) = Ok fmt /\ chunk_accepted fmt ch.
Proof.
  intros H Hf Hin1 Hin2. apply load_ok_chunks in H.
  destruct H as (rh' & frames' & fmt & rest' & Hf' & Hpf & Hall).
  rewrite Hf in Hf'. injection Hf' as <- <- <-.
  exists fmt. split; [exact Hpf|].
  rewrite Forall_forall in Hall. specialize (Hall _ Hin1). cbn [snd] in Hall.
  rewrite Forall_forall in Hall. apply Hall. exact Hin2.
Qed.

End Factor.

(* ------------------------------------------------------------------ *)
(* non-vacuity: a one-frame RGBA file with a layer chunk, a user-data chunk and a cel chunk *)

Definition mk_chunk (ty : Z) (data : list Z) : list Z := e_dword (6 + zlen data) ++ e_word ty ++ data.
Definition mk_frame (dur : Z) (chunks : list (list Z)) : list Z :=
  e_dword (16 + zlen (concat chunks)) ++ e_word 61946 ++ e_word (zlen chunks) ++ e_word dur ++ [0; 0] ++
  e_dword (zlen chunks) ++ concat chunks.
Definition mk_header (nframes w h depth pw ph : Z) : list Z :=
  e_dword 0 ++ e_word 42464 ++ e_word nframes ++ e_word w ++ e_word h ++ e_word depth ++
  e_dword 0 ++ e_word 100 ++ e_dword 0 ++ e_dword 0 ++
  [0; 0] ++ e_word 0 ++ e_word 0 ++ [pw; ph] ++ e_short 0 ++ e_short 0 ++ e_word 0 ++ e_word 0 ++
  repeat 0 84.

(* layer payload: flags, type, level, 2 words, blend, opacity, 3 bytes, name *)
Definition layer_payload (ltype blend : Z) : list Z :=
  e_word 1 ++ e_word ltype ++ e_word 0 ++ e_word 0 ++ e_word 0 ++ e_word blend ++ [255] ++ [0; 0; 0] ++
  e_str [76].
(* user data: flags = 1 (text), the text *)
Definition ud_payload : list Z := e_dword 1 ++ e_str [104; 105].
(* raw cel, 1x1 RGBA on layer 0 *)
Definition cel_payload (cel_type : Z) : list Z :=
  e_word 0 ++ e_short 0 ++ e_short 0 ++ [255] ++ e_word cel_type ++ repeat 0 7 ++
  e_word 1 ++ e_word 1 ++ [1; 2; 3; 4].

Definition demo_chunks : list rawchunk :=
  [(8196, layer_payload 0 0); (8224, ud_payload); (8197, cel_payload 0)].
Definition demo_file : list Z :=
  mk_header 1 1 1 32 1 1 ++ mk_frame 70 (map (fun c => mk_chunk (fst c) (snd c)) demo_chunks).

Example demo_file_bytes : forallb is_byteb demo_file = true.
Proof. vm_compute. reflexivity. Qed.

Example demo_framing :
  run framing (demo_file ++ [9]) =
  Ok (({| rh_frames := 1; rh_width := 1; rh_height := 1; rh_depth := 32; rh_default_time := 100;
          rh_transparent := 0; rh_pixel_w := 1; rh_pixel_h := 1 |}, [(70, demo_chunks)]), [9]).
Proof. vm_compute. reflexivity. Qed.

Example demo_assemble : is_ok (assemble no_inflate FRgba 1 100 [(70, demo_chunks)]) = true.
Proof. vm_compute. reflexivity. Qed.

(* both sides of the factorisation on the demo file: parse_file and framing;assemble agree *)
Example demo_factor :
  rmap (fun x => snd (fst x)) (run (parse_file no_inflate) demo_file)
  = assemble no_inflate FRgba 1 100 [(70, demo_chunks)].
Proof. vm_compute. reflexivity. Qed.

Example demo_loads : is_ok (load no_inflate demo_file) = true.
Proof. vm_compute. reflexivity. Qed.

(* load_ok_chunks applied: the layer chunk of the demo file was accepted by dec_layer *)
Example demo_layer_accepted : exists l, run_payload dec_layer (layer_payload 0 0) = Ok l.
Proof.
  destruct (load no_inflate demo_file) as [f|e|s] eqn:L; [|exfalso; revert L; vm_compute; discriminate ..].
  pose proof demo_framing as Hf. rewrite <- (app_nil_r demo_file) in L.
  assert (run framing (demo_file ++ []) = Ok (({| rh_frames := 1; rh_width := 1; rh_height := 1; rh_depth := 32;
            rh_default_time := 100; rh_transparent := 0; rh_pixel_w := 1; rh_pixel_h := 1 |},
            [(70, demo_chunks)]), [])) as Hf0 by (vm_compute; reflexivity).
  destruct (load_ok_chunk no_inflate _ _ _ _ _ 70 demo_chunks (8196, layer_payload 0 0) L Hf0) as (fmt & _ & Hacc);
    [left; reflexivity|left; reflexivity|].
  apply Hacc. reflexivity.
Qed.
