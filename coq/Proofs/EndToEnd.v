(* C01 end to end: loading the serialisation of ANY well-formed chunk program (Spec/Serialize.v)
   is the fold of the C10 `step` over the program's events, followed by validation; hence a
   sprite that loads reports what the program encodes.

   (a) framing_serialize     framing inverts the serialiser (every program, every count field);
       serialize_all_bytes   the serialisation is a byte string
   (b) events_of, inflate_ok, chunk_ev_item (decoding an encoded item gives the item's event),
       assemble_serialize    the assembly of the framed chunks = the fold of `step` over events_of;
       events_of_frames_events   events_of is the event list of C10 (frames_events)
   (c) load_serialize        load (serialize s ++ tail) = fold, then validate (an equation: both
                             sides fail alike); load_serialize_ok its inversion
   (d) for a program that loads: e2e_canvas, e2e_durations, e2e_layers_in_order (+ e2e_num_layers,
       e2e_layer_at, e2e_layers_erased), e2e_tags_in_order, e2e_slices_in_order, e2e_external
       (+ e2e_external_lookup: last entry wins), e2e_palette (precedence rule), e2e_cels
       (+ e2e_cels_iff)
   (e) Module Example: a concrete program, well formed by computation (wf_go), loaded by
       vm_compute, with the STRUCT facts computed and re-derived from the theorems.

   WHEN the fold and the validation succeed (a cel for an undeclared layer, a user-data record
   without owner, an orphan child layer, uncovered palette indices ... make both sides of (c)
   fail): Proofs/EndToEndTotal.v. *)
From Ase Require Import Model.Api Spec.Serialize.
From Ase Require Model.Dump.
From Ase Require Import Proofs.ITLemmas Proofs.ArrLemmas Proofs.RoundTrip Proofs.PaletteProofs.
From Ase Require Import Proofs.Factor Proofs.Neutral Proofs.UserData.

(* ------------------------------------------------------------------ *)
(* (a) framing *)

Lemma ser_frame_enc fr :
  ser_frame fr =
  enc_frame (16 + zlen (ser_chunks (map item_chunk (fp_items fr))))
            (fst (count_fields (fp_count fr) (zlen (fp_items fr)))) (fp_duration fr) (fp_rsv fr)
            (snd (count_fields (fp_count fr) (zlen (fp_items fr)))) (map item_chunk (fp_items fr)).
Proof.
  unfold ser_frame, enc_frame, enc_frame_hdr. cbv zeta. repeat rewrite <- app_assoc. reflexivity.
Qed.

Lemma zlen_ser_chunks chunks : zlen (ser_chunks chunks) = chunks_size chunks.
Proof.
  induction chunks as [|ch t IH]; [reflexivity|].
  cbn [ser_chunks flat_map chunks_size fold_right]. fold (ser_chunks t). fold (chunks_size t).
  rewrite zlen_app, IH. unfold ser_chunk, chunk_size. rewrite !zlen_app.
  change (zlen (e_dword (6 + zlen (snd ch)))) with 4. change (zlen (e_word (fst ch))) with 2. lia.
Qed.

Lemma chunk_size_le_total ch chunks : In ch chunks -> chunk_size ch <= chunks_size chunks.
Proof.
  induction chunks as [|c t IH]; intros Hin; [contradiction|].
  cbn [chunks_size fold_right]. fold (chunks_size t). pose proof (chunks_size_nonneg t) as Ht.
  destruct Hin as [->|Hin].
  - lia.
  - specialize (IH Hin). unfold chunk_size in *. pose proof (zlen_nonneg (snd c)). lia.
Qed.

Lemma item_chunk_known fmt it : wf_item fmt it -> chunk_type_known (fst (item_chunk it)) = true.
Proof.
  destruct it; cbn [item_chunk fst wf_item]; intros H; try reflexivity.
  - destruct six; reflexivity.
  - destruct H as [->|[->| ->]]; reflexivity.
Qed.

Lemma count_fields_ok c n :
  0 <= n -> wf_count c n ->
  (if snd (count_fields c n) =? 0 then fst (count_fields c n) else snd (count_fields c n)) = n.
Proof.
  intros Hn. destruct c as [| |old]; cbn [count_fields wf_count fst snd].
  - intros _. reflexivity.
  - intros H. destruct (Z.eqb_spec n 0); [lia|reflexivity].
  - intros [_ H]. destruct (Z.eqb_spec n 0); [lia|reflexivity].
Qed.

Lemma wf_frame_of_prog fmt fr :
  wf_frame_prog fmt fr ->
  wf_frame (16 + zlen (ser_chunks (map item_chunk (fp_items fr))))
           (fst (count_fields (fp_count fr) (zlen (fp_items fr))))
           (snd (count_fields (fp_count fr) (zlen (fp_items fr))))
           (fp_rsv fr) (map item_chunk (fp_items fr)).
Proof.
  intros (Hd & Hj & _ & Hc & Hs & Hw & _). unfold wf_frame.
  split; [exact Hj|]. split.
  - rewrite zlen_map. apply count_fields_ok; [apply zlen_nonneg|exact Hc].
  - rewrite zlen_ser_chunks in *. split; [|lia].
    apply Forall_forall. intros ch Hin. split.
    + apply in_map_iff in Hin. destruct Hin as (it & <- & Hit).
      rewrite Forall_forall in Hw. eapply item_chunk_known. apply Hw. exact Hit.
    + pose proof (chunk_size_le_total ch _ Hin). lia.
Qed.

(* framing of one serialised frame *)
Lemma frame_chunks_ser_frame fmt fr t :
  wf_frame_prog fmt fr -> run frame_chunks (ser_frame fr ++ t) = Ok (frame_chunks_of fr, t).
Proof.
  intros H. rewrite ser_frame_enc. apply frame_chunks_enc_frame. eapply wf_frame_of_prog. exact H.
Qed.

(* the frame loop of framing *)
Lemma framing_frames fmt frames : forall acc t,
  Forall (wf_frame_prog fmt) frames ->
  run_times (length frames) framing_step acc (flat_map ser_frame frames ++ t)
  = Ok (rev (map frame_chunks_of frames) ++ acc, t).
Proof.
  induction frames as [|fr frs IH]; intros acc t Hw; cbn [length run_times flat_map map rev app].
  - reflexivity.
  - inversion Hw as [|? ? Hfr Hfrs]; subst.
    unfold framing_step at 1. rewrite run_bind, <- app_assoc.
    rewrite (frame_chunks_ser_frame fmt fr _ Hfr). cbn [run].
    rewrite IH by exact Hfrs. rewrite <- app_assoc. reflexivity.
Qed.

(* framing on an encoded header: the eight stored fields, then the frame loop *)
Lemma framing_enc_header h fsize jflags j2 j3 grid rsv t :
  wf_header h -> wf_header_junk fsize jflags j2 j3 grid rsv ->
  run framing (enc_header h fsize jflags j2 j3 grid rsv ++ t)
  = run (acc <- iterZ (hf_frames h) framing_step [] ;;
         Ret ({| rh_frames := hf_frames h; rh_width := hf_width h; rh_height := hf_height h;
                 rh_depth := hf_depth h; rh_default_time := hf_default_time h;
                 rh_transparent := hf_transparent h; rh_pixel_w := hf_pixel_w h;
                 rh_pixel_h := hf_pixel_h h |}, rev acc)) t.
Proof.
  intros (Hfr & Hw & Hh & Hd & Hdt & Htr & Hpw & Hph & Hratio) (J1 & J2 & J3 & J4 & J5 & J6).
  unfold junk in *.
  destruct h as [fr w hh dp dt tr pw ph].
  cbn [hf_frames hf_width hf_height hf_depth hf_default_time hf_transparent hf_pixel_w hf_pixel_h] in *.
  destruct (junk_split j2 4 4 J3 ltac:(lia) ltac:(lia)) as (j2a & j2b & -> & J3a & J3b).
  destruct (junk_split j3 1 4 J4 ltac:(lia) ltac:(lia)) as (j3a & j3bc & -> & J4a & J4bc).
  destruct (junk_split j3bc 2 2 J4bc ltac:(lia) ltac:(lia)) as (j3b & j3c & -> & J4b & J4c).
  destruct (junk_split grid 2 6 J5 ltac:(lia) ltac:(lia)) as (g1 & g234 & -> & G1 & G234).
  destruct (junk_split g234 2 4 G234 ltac:(lia) ltac:(lia)) as (g2 & g34 & -> & G2 & G34).
  destruct (junk_split g34 2 2 G34 ltac:(lia) ltac:(lia)) as (g3 & g4 & -> & G3 & G4).
  unfold framing, enc_header.
  cbn [hf_frames hf_width hf_height hf_depth hf_default_time hf_transparent hf_pixel_w hf_pixel_h].
  repeat rewrite <- app_assoc.
  rewrite run_ignore_dword by exact J1.
  rewrite run_bind, run_word.
  change (negb (42464 =? 42464)) with false. cbv iota.
  rewrite run_bind, run_word. rewrite run_bind, run_word.
  rewrite run_bind, run_word. rewrite run_bind, run_word.
  rewrite run_ignore_dword by exact J2.
  rewrite run_bind, run_word.
  rewrite run_ignore_dword by exact J3a.
  rewrite run_ignore_dword by exact J3b.
  rewrite run_bind, run_byte.
  rewrite run_ignore_byte by exact J4a.
  rewrite run_ignore_word by exact J4b.
  rewrite run_ignore_word by exact J4c.
  rewrite run_bind, run_byte. rewrite run_bind, run_byte.
  rewrite run_ignore_short by exact G1.
  rewrite run_ignore_short by exact G2.
  rewrite run_ignore_word by exact G3.
  rewrite run_ignore_word by exact G4.
  rewrite run_ignore_skip by exact J6.
  assert (Hr : negb (pw =? 0) && negb (ph =? 0) && negb ((pw =? 1) && (ph =? 1)) = false).
  { destruct (Z.eqb_spec pw 0), (Z.eqb_spec ph 0), (Z.eqb_spec pw 1), (Z.eqb_spec ph 1);
      cbn [negb andb]; try reflexivity; lia. }
  rewrite Hr.
  assert (Hpf : exists fmt, parse_pixel_format dp tr = Ok fmt).
  { unfold parse_pixel_format. destruct Hd as [-> |[-> | ->]]; cbn [Z.eqb Pos.eqb]; eexists; reflexivity. }
  destruct Hpf as (fmt & Hpf).
  rewrite run_bind, run_lift, Hpf.
  reflexivity.
Qed.

Lemma wf_prog_fmt s : wf_prog s -> header_fmt (sp_header s) = Some (prog_fmt s).
Proof.
  intros (Hh & _). destruct (wf_header_fmt _ Hh) as (fmt & Hf). unfold prog_fmt. rewrite Hf. reflexivity.
Qed.

Lemma wf_prog_nframes s : wf_prog s -> Z.to_nat (hf_frames (sp_header s)) = length (sp_frames s).
Proof. intros (_ & _ & -> & _). unfold zlen. apply Nat2Z.id. Qed.

(* (a) THE FRAMING THEOREM: framing inverts the serialiser, for every program *)
Theorem framing_serialize s tail :
  wf_prog s ->
  run framing (serialize s ++ tail) = Ok ((rawheader_of s, map frame_chunks_of (sp_frames s)), tail).
Proof.
  intros Hwf. pose proof Hwf as (Hh & (Hj & _) & Hn & Hfr).
  unfold serialize, ser_header. rewrite <- app_assoc.
  rewrite framing_enc_header by assumption.
  rewrite run_bind, run_iterZ, (wf_prog_nframes s Hwf).
  rewrite (framing_frames (prog_fmt s)) by exact Hfr. cbn [run].
  rewrite app_nil_r, rev_involutive. reflexivity.
Qed.

(* ------------------------------------------------------------------ *)
(* (b) events *)

(* the pixels that `bytes` stand for in format fmt *)
Definition raw_of (fmt : pixfmt) (bytes : list Z) : rawpixels :=
  match fmt with
  | FIndexed _ => RPIndexed bytes
  | FGray => RPGray (group2 bytes)
  | FRgba => RPRgba (group4 bytes)
  end.

Lemma from_bytes_raw_of fmt bytes n :
  zlen bytes = bytes_per_pixel fmt * n -> from_bytes bytes fmt = Ok (raw_of fmt bytes).
Proof.
  intros H. destruct fmt as [| |ti]; cbn [from_bytes raw_of bytes_per_pixel] in *; try reflexivity.
  - rewrite H, Z.mul_comm, Z_mod_mult. reflexivity.
  - rewrite H, Z.mul_comm, Z_mod_mult. reflexivity.
Qed.

Definition mk_cel (c : celcommon) (ct : celcontent rawpixels) : cel rawpixels :=
  {| c_data := c; c_content := ct; c_ud := None |}.

(* the C10 event of a chunk item in frame fid; hp = a palette has been seen before it *)
Definition item_ev (fmt : pixfmt) (fid : Z) (hp : bool) (it : chunk_item) : ev :=
  match it with
  | ILayer l _ _ _ _ => ELayer l
  | ITags ts _ _ => if fid =? 0 then ETags (map fst ts) else EOther ONone
  | ISlice s _ _ _ => ESlice s
  | IPalette _ first entries _ _ => EOther (OPalette (palette_of first entries))
  | IOldPalette six packets _ => EOldPal (if hp then None else Some (old_palette_spec six packets))
  | IUserData u _ _ => EUd u
  | IExternal es _ _ => EOther (OExt (map fst es))
  | IColorProfile _ _ _ _ _ => EOther ONone
  | ITileset t _ _ _ TilesNone _ => EOther (OTileset t)
  | ITileset t _ _ _ (TilesZ _ bytes) _ => EOther (OTileset (set_ts_pixels t (Some (raw_of fmt bytes))))
  | ICelRaw c _ w h bytes _ => ECel fid (mk_cel c (CRaw w h (raw_of fmt bytes)))
  | ICelLinked c _ frame _ => ECel fid (mk_cel c (CLinked frame))
  | ICelZ c _ w h _ bytes _ => ECel fid (mk_cel c (CRaw w h (raw_of fmt bytes)))
  | ICelTilemap c _ w h idmask _ _ _ bytes _ =>
      ECel fid (mk_cel c (CTilemap {| tm_w := w; tm_h := h;
                                     tm_tiles := arr_of_list (map (fun bits => Z.land bits idmask)
                                                                  (group_dwords bytes)) |}))
  | IIgnorable _ _ => EOther ONone
  end.

(* a palette has been seen after the item *)
Definition item_hp (hp : bool) (it : chunk_item) : bool :=
  match it with IPalette _ _ _ _ _ | IOldPalette _ _ _ => true | _ => hp end.
Definition items_hp (hp : bool) (items : list chunk_item) : bool := fold_left item_hp items hp.

Fixpoint items_events (fmt : pixfmt) (fid : Z) (hp : bool) (items : list chunk_item) : list ev :=
  match items with
  | [] => []
  | it :: t => item_ev fmt fid hp it :: items_events fmt fid (item_hp hp it) t
  end.

(* per frame: the frame header (its duration), then the chunks in file order *)
Fixpoint frames_events_of (fmt : pixfmt) (fid : Z) (hp : bool) (frames : list frame_prog) : list ev :=
  match frames with
  | [] => []
  | fr :: t =>
      EOther (OTime fid (fp_duration fr))
      :: items_events fmt fid hp (fp_items fr)
      ++ frames_events_of fmt (fid + 1) (items_hp hp (fp_items fr)) t
  end.

(* THE EVENT LIST OF A PROGRAM *)
Definition events_of (s : sprite_prog) : list ev := frames_events_of (prog_fmt s) 0 false (sp_frames s).

Section WithInflate.
Variable inflate : list Z -> Z -> zres.

(* the zlib streams of the program inflate to the bytes they stand for (limit = expected
   size + 1, as the decoder asks) *)
Definition item_inflate_ok (fmt : pixfmt) (it : chunk_item) : Prop :=
  match it with
  | ICelZ _ _ w h z bytes tail => inflate (z ++ tail) (bytes_per_pixel fmt * (w * h) + 1) = ZOk bytes
  | ICelTilemap _ _ w h _ _ _ z bytes tail => inflate (z ++ tail) (4 * (w * h) + 1) = ZOk bytes
  | ITileset t _ _ _ (TilesZ z bytes) tail =>
      inflate (z ++ tail) (bytes_per_pixel fmt * (ts_count t * ts_h t * ts_w t) + 1) = ZOk bytes
  | _ => True
  end.
Definition inflate_ok (s : sprite_prog) : Prop :=
  Forall (fun fr => Forall (item_inflate_ok (prog_fmt s)) (fp_items fr)) (sp_frames s).

(* decoding an encoded item gives the item's event *)
Lemma chunk_ev_item fmt fid hp it :
  wf_item fmt it -> item_inflate_ok fmt it ->
  chunk_ev inflate fmt fid hp (item_chunk it) = Ok (item_ev fmt fid hp it).
Proof.
  destruct it; cbn [wf_item item_inflate_ok item_chunk item_ev]; intros Hw Hz; unfold chunk_ev.
  - destruct Hw as (H1 & H2 & H3). cbn [Z.eqb Pos.eqb]. rewrite payload_layer by assumption. reflexivity.
  - destruct Hw as (H1 & H2). cbn [Z.eqb Pos.eqb]. rewrite payload_tags by assumption. reflexivity.
  - destruct Hw as (H1 & H2). cbn [Z.eqb Pos.eqb]. rewrite payload_slice by assumption. reflexivity.
  - destruct Hw as (H0 & H1 & H2). cbn [Z.eqb Pos.eqb].
    rewrite (RoundTrip.run_payload_ok _ _ _ _ (dec_enc_palette total first entries rsv tail H1 H2)). reflexivity.
  - destruct six; cbn [Z.eqb Pos.eqb orb]; (destruct hp; [reflexivity|]); rewrite palette_old by exact Hw; reflexivity.
  - cbn [Z.eqb Pos.eqb]. rewrite payload_userdata by assumption. reflexivity.
  - destruct Hw as (H1 & H2). cbn [Z.eqb Pos.eqb]. rewrite payload_external by assumption. reflexivity.
  - destruct Hw as (H1 & H2 & H3). cbn [Z.eqb Pos.eqb].
    rewrite (RoundTrip.run_payload_ok _ _ _ _ (dec_enc_color_profile ty flags gamma rsv tail H1 H2 H3)). reflexivity.
  - destruct Hw as (H1 & H2 & H3 & H4). cbn [Z.eqb Pos.eqb orb]. destruct body as [|z bytes].
    + rewrite dec_enc_tileset_nopixels by assumption. reflexivity.
    + destruct H4 as (H4 & H5 & H6).
      rewrite (dec_enc_tileset_pixels inflate fmt t flags rsv clen z bytes (raw_of fmt bytes) tail)
        by (try assumption; eapply from_bytes_raw_of; exact H6).
      reflexivity.
  - destruct Hw as (H1 & H2 & H3 & H4 & H5). cbn [Z.eqb Pos.eqb].
    rewrite (dec_enc_cel_raw inflate fmt c rsv w h bytes (raw_of fmt bytes) tail)
      by (try assumption; eapply from_bytes_raw_of; exact H5).
    reflexivity.
  - destruct Hw as (H1 & H2 & H3). cbn [Z.eqb Pos.eqb].
    rewrite dec_enc_cel_linked by assumption. reflexivity.
  - destruct Hw as (H1 & H2 & H3 & H4 & H5). cbn [Z.eqb Pos.eqb].
    rewrite (dec_enc_cel_zimage inflate fmt c rsv w h z bytes (raw_of fmt bytes) tail)
      by (try assumption; eapply from_bytes_raw_of; exact H5).
    reflexivity.
  - destruct Hw as (H1 & H2 & H3 & H4 & H5 & H6 & H7 & H8). cbn [Z.eqb Pos.eqb].
    rewrite (dec_enc_cel_tilemap inflate fmt c rsv w h idmask masks rsv2 z bytes tail) by assumption.
    reflexivity.
  - destruct Hw as [->|[->| ->]]; reflexivity.
Qed.

(* process_chunk on an encoded item = step on its event *)
Lemma process_item fmt fid p it :
  wf_item fmt it -> item_inflate_ok fmt it ->
  process_chunk inflate fmt fid p (item_chunk it) = step p (item_ev fmt fid (is_some (pi_palette p)) it).
Proof.
  intros Hw Hz. rewrite process_chunk_step, chunk_ev_item by assumption. reflexivity.
Qed.

(* the "palette seen" flag follows the state *)
Lemma step_item_hp fmt fid p it p' :
  step p (item_ev fmt fid (is_some (pi_palette p)) it) = Ok p' ->
  is_some (pi_palette p') = item_hp (is_some (pi_palette p)) it.
Proof.
  destruct it; cbn [item_ev item_hp step]; try (intros [= <-]; reflexivity).
  - destruct (fid =? 0); cbn [step]; intros [= <-]; reflexivity.
  - destruct (is_some (pi_palette p)) eqn:E; intros [= <-]; [exact E|reflexivity].
  - intros H. apply add_user_data_rest in H. destruct H as (-> & _). reflexivity.
  - destruct body; cbn [step]; intros [= <-]; reflexivity.
  - intros H. apply add_cel_ok in H. destruct H as (_ & t & _ & ->). reflexivity.
  - intros H. apply add_cel_ok in H. destruct H as (_ & t & _ & ->). reflexivity.
  - intros H. apply add_cel_ok in H. destruct H as (_ & t & _ & ->). reflexivity.
  - intros H. apply add_cel_ok in H. destruct H as (_ & t & _ & ->). reflexivity.
Qed.

(* the chunks of one frame *)
Lemma rfold_items fmt fid items : forall p,
  Forall (wf_item fmt) items -> Forall (item_inflate_ok fmt) items ->
  rfold (process_chunk inflate fmt fid) (map item_chunk items) p
  = rfold step (items_events fmt fid (is_some (pi_palette p)) items) p /\
  (forall p', rfold step (items_events fmt fid (is_some (pi_palette p)) items) p = Ok p' ->
              is_some (pi_palette p') = items_hp (is_some (pi_palette p)) items).
Proof.
  induction items as [|it t IH]; intros p Hw Hz; cbn [map rfold items_events].
  - split; [reflexivity|]. intros p' [= <-]. reflexivity.
  - inversion Hw as [|? ? Hw1 Hw2]; subst. inversion Hz as [|? ? Hz1 Hz2]; subst.
    rewrite process_item by assumption.
    destruct (step p (item_ev fmt fid (is_some (pi_palette p)) it)) as [p1|e|s0] eqn:S; cbn [rbind].
    + pose proof (step_item_hp _ _ _ _ _ S) as Hhp. rewrite <- Hhp.
      destruct (IH p1 Hw2 Hz2) as (E1 & E2). split; [exact E1|].
      intros p' Hp'. unfold items_hp. cbn [fold_left]. rewrite <- Hhp. apply E2. exact Hp'.
    + split; [reflexivity|discriminate].
    + split; [reflexivity|discriminate].
Qed.

(* the frames from frame number fid on *)
Lemma rfold_frames fmt frames : forall p fid,
  Forall (wf_frame_prog fmt) frames ->
  Forall (fun fr => Forall (item_inflate_ok fmt) (fp_items fr)) frames ->
  rmap fst (rfold (assemble_frame inflate fmt) (map frame_chunks_of frames) (p, fid))
  = rfold step (frames_events_of fmt fid (is_some (pi_palette p)) frames) p.
Proof.
  induction frames as [|fr frs IH]; intros p fid Hw Hz; cbn [map rfold frames_events_of].
  - reflexivity.
  - inversion Hw as [|? ? Hw1 Hw2]; subst. inversion Hz as [|? ? Hz1 Hz2]; subst.
    destruct Hw1 as (_ & _ & _ & _ & _ & Hit & _).
    unfold frame_chunks_of at 1. cbn [assemble_frame step apply_other rbind].
    set (p1 := with_times p (zadd fid (fp_duration fr) (pi_times p))).
    change (is_some (pi_palette p)) with (is_some (pi_palette p1)).
    destruct (rfold_items fmt fid (fp_items fr) p1 Hit Hz1) as (E1 & E2).
    rewrite E1, Factor.rfold_app.
    destruct (rfold step (items_events fmt fid (is_some (pi_palette p1)) (fp_items fr)) p1) as [p2|e|s0] eqn:F;
      cbn [rbind]; [|reflexivity|reflexivity].
    rewrite <- (E2 p2 eq_refl). apply IH; assumption.
Qed.

(* (b) THE ASSEMBLY THEOREM: assembling the framed chunks of a program = folding `step` over
   its events (both sides may fail: a cel for an undeclared layer, a record without owner, ...) *)
Theorem assemble_serialize s :
  wf_prog s -> inflate_ok s ->
  assemble inflate (prog_fmt s) (hf_frames (sp_header s)) (hf_default_time (sp_header s))
           (map frame_chunks_of (sp_frames s))
  = rfold step (events_of s) (pinfo_new (hf_frames (sp_header s)) (hf_default_time (sp_header s))).
Proof.
  intros (_ & _ & _ & Hfr) Hz. unfold assemble, events_of.
  apply (rfold_frames (prog_fmt s) (sp_frames s) (pinfo_new _ _) 0 Hfr Hz).
Qed.

(* events_of is the event list in the sense of C10 (Proofs/UserData.v: frames_events relates
   framed chunks to the events they decode to) *)
Lemma items_chunks_events fmt fid items : forall hp,
  Forall (wf_item fmt) items -> Forall (item_inflate_ok fmt) items ->
  chunks_events inflate fmt fid (map item_chunk items) (items_events fmt fid hp items).
Proof.
  induction items as [|it t IH]; intros hp Hw Hz; cbn [map items_events]; [constructor|].
  inversion Hw as [|? ? Hw1 Hw2]; subst. inversion Hz as [|? ? Hz1 Hz2]; subst.
  constructor; [exists hp; apply chunk_ev_item; assumption|apply IH; assumption].
Qed.

Lemma frames_events_of_rel fmt frames : forall fid hp,
  Forall (wf_frame_prog fmt) frames ->
  Forall (fun fr => Forall (item_inflate_ok fmt) (fp_items fr)) frames ->
  frames_events inflate fmt fid (map frame_chunks_of frames) (frames_events_of fmt fid hp frames).
Proof.
  induction frames as [|fr t IH]; intros fid hp Hw Hz; cbn [map frames_events_of]; [constructor|].
  inversion Hw as [|? ? Hw1 Hw2]; subst. inversion Hz as [|? ? Hz1 Hz2]; subst.
  destruct Hw1 as (_ & _ & _ & _ & _ & Hit & _).
  unfold frame_chunks_of at 1. constructor; [apply items_chunks_events; assumption|apply IH; assumption].
Qed.

Theorem events_of_frames_events s :
  wf_prog s -> inflate_ok s ->
  frames_events inflate (prog_fmt s) 0 (map frame_chunks_of (sp_frames s)) (events_of s).
Proof. intros (_ & _ & _ & Hfr) Hz. apply frames_events_of_rel; assumption. Qed.

End WithInflate.

(* ------------------------------------------------------------------ *)
(* (c) the loader *)

Section Load.
Variable inflate : list Z -> Z -> zres.

(* the frame loop of parse_file on serialised frames = the assembly of their chunks *)
Lemma parse_frames_ser fmt frames : forall p fid t,
  Forall (wf_frame_prog fmt) frames ->
  fid + zlen frames <= pi_nframes p ->
  run_times (length frames) (parse_frames_step inflate fmt) (p, fid) (flat_map ser_frame frames ++ t)
  = match rfold (assemble_frame inflate fmt) (map frame_chunks_of frames) (p, fid) with
    | Ok st => Ok (st, t) | Err e => Err e | Panic s0 => Panic s0
    end.
Proof.
  induction frames as [|fr frs IH]; intros p fid t Hw Hn; cbn [length run_times flat_map map rfold].
  - reflexivity.
  - inversion Hw as [|? ? Hw1 Hw2]; subst. rewrite zlen_cons in Hn. pose proof (zlen_nonneg frs) as Hl.
    unfold parse_frames_step at 1. rewrite run_bind, <- app_assoc, ser_frame_enc.
    rewrite parse_frame_enc_frame by (eapply wf_frame_of_prog; exact Hw1).
    destruct (Z.leb_spec (pi_nframes p) fid) as [Hle|_]; [lia|].
    change (frame_chunks_of fr) with (fp_duration fr, map item_chunk (fp_items fr)). cbn [assemble_frame].
    destruct (rfold (process_chunk inflate fmt fid) (map item_chunk (fp_items fr))
                    (with_times p (zadd fid (fp_duration fr) (pi_times p)))) as [p1|e|s0] eqn:F;
      cbn [rbind run]; [|reflexivity|reflexivity].
    apply IH; [exact Hw2|]. apply rfold_process_nframes in F. rewrite F. cbn [pi_nframes with_times]. lia.
Qed.

(* parse_file on a serialised program *)
Lemma parse_file_serialize s tail :
  wf_prog s ->
  run (parse_file inflate) (serialize s ++ tail)
  = match assemble inflate (prog_fmt s) (hf_frames (sp_header s)) (hf_default_time (sp_header s))
                   (map frame_chunks_of (sp_frames s)) with
    | Ok p => Ok ((header_of (rawheader_of s) (prog_fmt s), p), tail)
    | Err e => Err e | Panic s0 => Panic s0
    end.
Proof.
  intros Hwf. pose proof Hwf as (Hh & (Hj & _) & Hn & Hfr).
  unfold serialize, ser_header. rewrite <- app_assoc.
  rewrite (dec_enc_header inflate _ _ _ _ _ _ _ (prog_fmt s)) by (try assumption; apply wf_prog_fmt; exact Hwf).
  unfold parse_frames. rewrite run_bind, run_iterZ, (wf_prog_nframes s Hwf).
  rewrite (parse_frames_ser (prog_fmt s)) by (try assumption; cbn [pinfo_new pi_nframes]; lia).
  unfold assemble.
  destruct (rfold (assemble_frame inflate (prog_fmt s)) (map frame_chunks_of (sp_frames s))
                  (pinfo_new (hf_frames (sp_header s)) (hf_default_time (sp_header s)), 0)) as [[p fid]|e|s0];
    reflexivity.
Qed.

(* (c) THE LOADER THEOREM: loading a serialised program (whatever follows it) = folding `step`
   over its events, then validating *)
Theorem load_serialize s tail :
  wf_prog s -> inflate_ok inflate s ->
  load inflate (serialize s ++ tail)
  = (p <-- rfold step (events_of s) (pinfo_new (hf_frames (sp_header s)) (hf_default_time (sp_header s))) ;;;
     validate (header_of (rawheader_of s) (prog_fmt s)) p).
Proof.
  intros Hwf Hz. unfold load, load_rest. rewrite parse_file_serialize by exact Hwf.
  rewrite assemble_serialize by assumption.
  destruct (rfold step (events_of s) (pinfo_new (hf_frames (sp_header s)) (hf_default_time (sp_header s))))
    as [p|e|s0]; cbn [rbind rmap fst snd]; try reflexivity.
  destruct (validate (header_of (rawheader_of s) (prog_fmt s)) p) as [f|e|s0]; reflexivity.
Qed.

(* inversion: what a successful load gives *)
Corollary load_serialize_ok s tail f :
  wf_prog s -> inflate_ok inflate s ->
  load inflate (serialize s ++ tail) = Ok f ->
  exists p,
    rfold step (events_of s) (pinfo_new (hf_frames (sp_header s)) (hf_default_time (sp_header s))) = Ok p /\
    validate (header_of (rawheader_of s) (prog_fmt s)) p = Ok f.
Proof.
  intros Hwf Hz. rewrite load_serialize by assumption. intros H.
  apply rbind_ok in H. exact H.
Qed.

(* two programs with the same header fields and the same events load alike, whatever their
   encoding choices (junk, tails, count fields, raw or compressed cels, ignorable chunks that
   leave the events unchanged) and whatever follows them *)
Corollary load_encoding_independent s1 s2 t1 t2 :
  wf_prog s1 -> wf_prog s2 -> inflate_ok inflate s1 -> inflate_ok inflate s2 ->
  rawheader_of s1 = rawheader_of s2 -> events_of s1 = events_of s2 ->
  load inflate (serialize s1 ++ t1) = load inflate (serialize s2 ++ t2).
Proof.
  intros W1 W2 Z1 Z2 Hh He. rewrite !load_serialize by assumption. rewrite He, Hh.
  assert (prog_fmt s1 = prog_fmt s2) as ->.
  { unfold prog_fmt, header_fmt. unfold rawheader_of in Hh. injection Hh as _ _ _ Hd _ Ht _ _. rewrite Hd, Ht. reflexivity. }
  unfold rawheader_of in Hh. injection Hh as Hf _ _ _ Hdt _ _ _. rewrite Hf, Hdt. reflexivity.
Qed.

End Load.

(* ------------------------------------------------------------------ *)
(* (d) consequences, in the vocabulary of the property *)

(* what validation copies from the assembled state *)
Lemma validate_fields h p f :
  validate h p = Ok f ->
  f_width f = h_width h /\ f_height f = h_height h /\ f_nframes f = h_frames h /\ f_fmt f = h_fmt h /\
  f_palette f = pi_palette p /\ f_default_time f = pi_default_time p /\ f_times f = pi_times p /\
  f_ext f = pi_ext p.
Proof.
  unfold validate; rewrite ?frev_eq. intros H.
  apply rbind_ok in H. destruct H as (parents & _ & H).
  apply rbind_ok in H. destruct H as (tss & _ & H).
  apply rbind_ok in H. destruct H as (u & _ & H).
  apply rbind_ok in H. destruct H as (cels & _ & [= <-]).
  repeat split; reflexivity.
Qed.

(* ---------------- generic: what a step does to the parts of the state ---------------- *)

Lemma add_cel_fields p fid c p' :
  add_cel p fid c = Ok p' ->
  pi_palette p' = pi_palette p /\ pi_layers_rev p' = pi_layers_rev p /\ pi_times p' = pi_times p /\
  pi_tags p' = pi_tags p /\ pi_ext p' = pi_ext p /\ pi_slices_rev p' = pi_slices_rev p /\
  pi_ctx p' = Some (UCel fid (cc_layer (c_data c))).
Proof. intros H. apply add_cel_ok in H. destruct H as (_ & t & _ & ->). repeat split; reflexivity. Qed.

(* frame durations *)
Definition ev_time (m : zmap Z) (e : ev) : zmap Z :=
  match e with EOther (OTime f d) => zadd f d m | _ => m end.

Lemma step_times p e p' : step p e = Ok p' -> pi_times p' = ev_time (pi_times p) e.
Proof.
  destruct e as [l|f c|sl|ts|o|o|u]; cbn [step ev_time].
  - intros [= <-]. reflexivity.
  - intros H. apply add_cel_fields in H. apply H.
  - intros [= <-]. reflexivity.
  - intros [= <-]. reflexivity.
  - intros [= <-]. destruct o; reflexivity.
  - intros [= <-]. destruct o; reflexivity.
  - intros H. apply add_user_data_rest in H. apply H.
Qed.

Lemma rfold_times evs : forall p p', rfold step evs p = Ok p' -> pi_times p' = fold_left ev_time evs (pi_times p).
Proof.
  induction evs as [|e t IH]; intros p p'; cbn [rfold fold_left].
  - intros [= <-]. reflexivity.
  - intros H. apply rbind_ok in H. destruct H as (p1 & H1 & H). rewrite (IH _ _ H), (step_times _ _ _ H1). reflexivity.
Qed.

Lemma item_ev_time fmt fid hp it m : ev_time m (item_ev fmt fid hp it) = m.
Proof. destruct it; cbn [item_ev ev_time]; try reflexivity; [destruct (fid =? 0); reflexivity|destruct body; reflexivity]. Qed.

Lemma items_events_time fmt fid items : forall hp m, fold_left ev_time (items_events fmt fid hp items) m = m.
Proof.
  induction items as [|it t IH]; intros hp m; cbn [items_events fold_left]; [reflexivity|].
  rewrite item_ev_time. apply IH.
Qed.

(* frames from fid on do not touch earlier keys ... *)
Lemma frames_time_before fmt frames : forall fid hp m k,
  0 <= k < fid ->
  zfind k (fold_left ev_time (frames_events_of fmt fid hp frames) m) = zfind k m.
Proof.
  induction frames as [|fr t IH]; intros fid hp m k Hk; cbn [frames_events_of fold_left]; [reflexivity|].
  rewrite fold_left_app, items_events_time. rewrite IH by lia. cbn [ev_time].
  apply zfind_zadd_other; lia.
Qed.

(* ... and bind frame fid + i to the duration of the i-th of them *)
Lemma frames_time_at fmt frames : forall fid hp m i fr,
  0 <= fid -> nthz frames i = Some fr ->
  zfind (fid + i) (fold_left ev_time (frames_events_of fmt fid hp frames) m) = Some (fp_duration fr).
Proof.
  induction frames as [|fr0 t IH]; intros fid hp m i fr Hfid Hi.
  - apply nthz_some in Hi. unfold zlen in Hi. cbn [length] in Hi. lia.
  - pose proof (nthz_some _ _ _ Hi) as Hr. cbn [frames_events_of fold_left].
    rewrite fold_left_app, items_events_time. cbn [ev_time].
    destruct (Z.eq_dec i 0) as [->|Hne].
    + rewrite nthz_cons_0 in Hi. injection Hi as <-. rewrite Z.add_0_r.
      rewrite frames_time_before by lia. apply zfind_zadd_same. exact Hfid.
    + rewrite nthz_cons_pos in Hi by lia.
      replace (fid + i) with ((fid + 1) + (i - 1)) by lia. apply IH; [lia|exact Hi].
Qed.

Section Consequences.
Variable inflate : list Z -> Z -> zres.
Variables (s : sprite_prog) (tail : list Z) (f : file).
Hypothesis Hwf : wf_prog s.
Hypothesis Hz : inflate_ok inflate s.
Hypothesis Hload : load inflate (serialize s ++ tail) = Ok f.

(* canvas size, frame count, pixel format (with the transparent index) *)
Theorem e2e_canvas :
  f_width f = hf_width (sp_header s) /\ f_height f = hf_height (sp_header s) /\
  f_nframes f = zlen (sp_frames s) /\ header_fmt (sp_header s) = Some (f_fmt f).
Proof.
  destruct (load_serialize_ok inflate s tail f Hwf Hz Hload) as (p & _ & Hv).
  apply validate_fields in Hv. destruct Hv as (V1 & V2 & V3 & V4 & _).
  destruct Hwf as (_ & _ & Hn & _).
  rewrite V1, V2, V3, V4. cbn [header_of rawheader_of h_width h_height h_frames h_fmt rh_width rh_height rh_frames].
  rewrite (wf_prog_fmt s Hwf). repeat split; try reflexivity. exact Hn.
Qed.

(* frame i lasts as long as the i-th frame of the program says *)
Theorem e2e_durations :
  forall i fr, nthz (sp_frames s) i = Some fr -> frame_duration f i = Ok (fp_duration fr).
Proof.
  intros i fr Hi. destruct (load_serialize_ok inflate s tail f Hwf Hz Hload) as (p & Hf & Hv).
  apply validate_fields in Hv. destruct Hv as (_ & _ & V3 & _ & _ & _ & V7 & _).
  pose proof (nthz_some _ _ _ Hi) as Hr. destruct Hwf as (_ & _ & Hn & _).
  unfold frame_duration, num_frames. rewrite V3, V7.
  cbn [header_of rawheader_of h_frames rh_frames]. rewrite Hn.
  destruct (Z.ltb_spec i 0) as [H0|_]; [lia|]. destruct (Z.leb_spec (zlen (sp_frames s)) i) as [H1|_]; [lia|].
  cbn [orb]. rewrite (rfold_times _ _ _ Hf). cbn [pinfo_new pi_times]. unfold events_of.
  replace i with (0 + i) at 1 by lia. rewrite (frames_time_at _ _ _ _ _ _ fr) by (try lia; exact Hi).
  reflexivity.
Qed.

End Consequences.

(* ---------------- lists by index ---------------- *)

Fixpoint mapi_from {A B} (g : Z -> A -> B) (i : Z) (l : list A) : list B :=
  match l with [] => [] | x :: t => g i x :: mapi_from g (i + 1) t end.
(* g applied to every element together with its position, positions counted from 0 *)
Definition mapi {A B} (g : Z -> A -> B) (l : list A) : list B := mapi_from g 0 l.

Lemma nthz_mapi_from {A B} (g : Z -> A -> B) l : forall i0 i,
  0 <= i -> nthz (mapi_from g i0 l) i = option_map (g (i0 + i)) (nthz l i).
Proof.
  induction l as [|x t IH]; intros i0 i Hi; cbn [mapi_from].
  - rewrite !nthz_nil. reflexivity.
  - destruct (Z.eq_dec i 0) as [->|Hne].
    + rewrite !nthz_cons_0, Z.add_0_r. reflexivity.
    + rewrite !nthz_cons_pos by lia. rewrite IH by lia. replace (i0 + 1 + (i - 1)) with (i0 + i) by lia. reflexivity.
Qed.

Lemma nthz_mapi {A B} (g : Z -> A -> B) l i : 0 <= i -> nthz (mapi g l) i = option_map (g i) (nthz l i).
Proof. intros Hi. unfold mapi. rewrite nthz_mapi_from by exact Hi. reflexivity. Qed.

Lemma zlen_mapi_from {A B} (g : Z -> A -> B) l : forall i0, zlen (mapi_from g i0 l) = zlen l.
Proof. induction l as [|x t IH]; intros i0; cbn [mapi_from]; [reflexivity|]. rewrite !zlen_cons, IH. reflexivity. Qed.

(* a list known up to user data (er = erase it), whose user data is known by position *)
Lemma list_by_index {A} (er : A -> A) (ud : A -> option userdata) (wu : A -> option userdata -> A)
      (W : Z -> option userdata) (L' L : list A) :
  (forall x' x, er x' = er x -> x' = wu x (ud x')) ->
  map er L' = map er L ->
  (forall i x', nthz L' i = Some x' -> ud x' = W i) ->
  L' = mapi (fun i x => wu x (W i)) L.
Proof.
  intros Hrec Hmap HW. apply nthz_ext. intros i Hi. rewrite nthz_mapi by exact Hi.
  pose proof (f_equal (fun l => nthz l i) Hmap) as E. cbv beta in E. rewrite !nthz_map in E.
  destruct (nthz L' i) as [x'|] eqn:E1, (nthz L i) as [x|] eqn:E2; cbn [option_map] in *; try discriminate; [|reflexivity].
  injection E as E. f_equal. rewrite (Hrec x' x E). rewrite (HW i x' E1). reflexivity.
Qed.

Lemma map_upd_nth {A B} (g : A -> B) (l : list A) : forall k x y,
  nth_error l k = Some x -> g y = g x -> map g (upd_nth l k y) = map g l.
Proof.
  induction l as [|a t IH]; intros [|k] x y; cbn [nth_error upd_nth map]; try discriminate.
  - intros [= ->] E. rewrite E. reflexivity.
  - intros H E. f_equal. eapply IH; [exact H|exact E].
Qed.

Lemma map_upd_rev {A B} (g : A -> B) (l : list A) n i (h : A -> A) l' :
  (forall x, g (h x) = g x) -> upd_rev l n i h = Some l' -> map g l' = map g l.
Proof.
  unfold upd_rev. destruct (nthz l (rev_index n i)) as [x|] eqn:E; [|discriminate]. intros Hg [= <-].
  pose proof (nthz_some _ _ _ E) as Hr. rewrite nthz_nth_error in E by lia.
  eapply map_upd_nth; [exact E|apply Hg].
Qed.

(* ---------------- entities without / with given user data ---------------- *)

Definition layer_with_ud (l : layer) (o : option userdata) : layer :=
  {| l_flags := l_flags l; l_name := l_name l; l_blend := l_blend l; l_opacity := l_opacity l;
     l_type := l_type l; l_tileset := l_tileset l; l_level := l_level l; l_ud := o |}.
Definition tag_with_ud (t : tag) (o : option userdata) : tag :=
  {| t_name := t_name t; t_from := t_from t; t_to := t_to t; t_repeat := t_repeat t; t_dir := t_dir t; t_ud := o |}.
Definition slice_with_ud (sl : slice) (o : option userdata) : slice :=
  {| s_name := s_name sl; s_keys := s_keys sl; s_ud := o |}.
Definition layer_erase (l : layer) : layer := layer_with_ud l None.
Definition tag_erase (t : tag) : tag := tag_with_ud t None.
Definition slice_erase (sl : slice) : slice := slice_with_ud sl None.

Lemma layer_recon x' x : layer_erase x' = layer_erase x -> x' = layer_with_ud x (l_ud x').
Proof. destruct x' as [a1 a2 a3 a4 a5 a6 a7 a8], x as [b1 b2 b3 b4 b5 b6 b7 b8]. unfold layer_erase, layer_with_ud. cbn [l_flags l_name l_blend l_opacity l_type l_tileset l_level l_ud]. intros [= -> -> -> -> -> -> ->]. reflexivity. Qed.
Lemma tag_recon x' x : tag_erase x' = tag_erase x -> x' = tag_with_ud x (t_ud x').
Proof. destruct x' as [a1 a2 a3 a4 a5 a6], x as [b1 b2 b3 b4 b5 b6]. unfold tag_erase, tag_with_ud. cbn [t_name t_from t_to t_repeat t_dir t_ud]. intros [= -> -> -> -> ->]. reflexivity. Qed.
Lemma slice_recon x' x : slice_erase x' = slice_erase x -> x' = slice_with_ud x (s_ud x').
Proof. destruct x' as [a1 a2 a3], x as [b1 b2 b3]. unfold slice_erase, slice_with_ud. cbn [s_name s_keys s_ud]. intros [= -> ->]. reflexivity. Qed.

Lemma layer_erase_wf l fw : wf_layer l fw -> layer_erase l = l.
Proof. intros (_ & _ & _ & _ & _ & _ & _ & _ & H). destruct l as [a1 a2 a3 a4 a5 a6 a7 a8]. cbn [l_ud] in H. subst. reflexivity. Qed.

(* ---------------- layers, slices and tags through a step ---------------- *)

Definition ev_layer (e : ev) : list layer := match e with ELayer l => [l] | _ => [] end.
Definition ev_slice (e : ev) : list slice := match e with ESlice sl => [sl] | _ => [] end.
Definition ev_tags_step (acc : option (list tag)) (e : ev) : option (list tag) :=
  match e with ETags ts => Some ts | _ => acc end.

Lemma add_user_data_shape p u p' :
  add_user_data p u = Ok p' ->
  map layer_erase (pi_layers_rev p') = map layer_erase (pi_layers_rev p) /\
  map slice_erase (pi_slices_rev p') = map slice_erase (pi_slices_rev p) /\
  option_map (map tag_erase) (pi_tags p') = option_map (map tag_erase) (pi_tags p).
Proof.
  unfold add_user_data. destruct (pi_ctx p) as [[fr l|i| |i|i]|]; try discriminate.
  - destruct (table_set_cel_ud (pi_cels p) fr l u); [|discriminate]. intros [= <-]. repeat split; reflexivity.
  - destruct (upd_rev (pi_layers_rev p) (pi_nlayers p) i (fun l => set_layer_ud l u)) as [ls|] eqn:E; [|discriminate].
    intros [= <-]. cbn [with_layers pi_layers_rev pi_slices_rev pi_tags].
    split; [|split; reflexivity]. eapply map_upd_rev; [|exact E]. intros x. reflexivity.
  - intros [= <-]. repeat split; reflexivity.
  - destruct (pi_tags p) as [ts|] eqn:Et; [|discriminate]. destruct (nthz ts i) as [t|] eqn:E; [|discriminate].
    destruct (65535 <=? i); [discriminate|]. intros [= <-].
    cbn [with_ctx with_tags pi_layers_rev pi_slices_rev pi_tags option_map].
    split; [reflexivity|]. split; [reflexivity|]. f_equal.
    pose proof (nthz_some _ _ _ E) as Hr. rewrite nthz_nth_error in E by lia.
    eapply map_upd_nth; [exact E|reflexivity].
  - destruct (upd_rev (pi_slices_rev p) (pi_nslices p) i (fun sl => set_slice_ud sl u)) as [ss|] eqn:E; [|discriminate].
    intros [= <-]. cbn [with_slices pi_layers_rev pi_slices_rev pi_tags].
    split; [reflexivity|]. split; [|reflexivity]. eapply map_upd_rev; [|exact E]. intros x. reflexivity.
Qed.

Lemma step_shape p e p' :
  step p e = Ok p' ->
  map layer_erase (layers_of p') = map layer_erase (layers_of p) ++ map layer_erase (ev_layer e) /\
  map slice_erase (slices_of p') = map slice_erase (slices_of p) ++ map slice_erase (ev_slice e) /\
  option_map (map tag_erase) (pi_tags p') = option_map (map tag_erase) (ev_tags_step (pi_tags p) e).
Proof.
  unfold layers_of, slices_of.
  destruct e as [l|fr c|sl|ts|o|o|u]; cbn [step ev_layer ev_slice ev_tags_step map].
  - intros [= <-]. cbn [add_layer with_ctx with_layers pi_layers_rev pi_slices_rev pi_tags rev].
    rewrite map_app, app_nil_r. repeat split; reflexivity.
  - intros H. apply add_cel_fields in H. destruct H as (_ & -> & _ & -> & _ & -> & _).
    rewrite !app_nil_r. repeat split; reflexivity.
  - intros [= <-]. cbn [add_slice with_ctx with_slices pi_layers_rev pi_slices_rev pi_tags rev].
    rewrite map_app, app_nil_r. repeat split; reflexivity.
  - intros [= <-]. rewrite !app_nil_r. repeat split; reflexivity.
  - intros [= <-]. rewrite !app_nil_r. destruct o; repeat split; reflexivity.
  - intros [= <-]. rewrite !app_nil_r. destruct o; repeat split; reflexivity.
  - intros H. apply add_user_data_shape in H. destruct H as (H1 & H2 & H3).
    rewrite !app_nil_r, !map_rev, H1, H2. repeat split; try reflexivity. exact H3.
Qed.

Lemma tags_fold_congr evs : forall a b,
  option_map (map tag_erase) a = option_map (map tag_erase) b ->
  option_map (map tag_erase) (fold_left ev_tags_step evs a) = option_map (map tag_erase) (fold_left ev_tags_step evs b).
Proof.
  induction evs as [|e t IH]; intros a b H; cbn [fold_left]; [exact H|].
  apply IH. destruct e; cbn [ev_tags_step]; try exact H. reflexivity.
Qed.

Lemma rfold_shape evs : forall p p',
  rfold step evs p = Ok p' ->
  map layer_erase (layers_of p') = map layer_erase (layers_of p) ++ map layer_erase (flat_map ev_layer evs) /\
  map slice_erase (slices_of p') = map slice_erase (slices_of p) ++ map slice_erase (flat_map ev_slice evs) /\
  option_map (map tag_erase) (pi_tags p') = option_map (map tag_erase) (fold_left ev_tags_step evs (pi_tags p)).
Proof.
  induction evs as [|e t IH]; intros p p'; cbn [rfold flat_map fold_left].
  - intros [= <-]. rewrite !app_nil_r. repeat split; reflexivity.
  - intros H. apply rbind_ok in H. destruct H as (p1 & H1 & H).
    destruct (IH _ _ H) as (A1 & A2 & A3). destruct (step_shape _ _ _ H1) as (B1 & B2 & B3).
    rewrite A1, A2, A3, B1, B2, !map_app, <- !app_assoc. repeat split; try reflexivity.
    apply tags_fold_congr. exact B3.
Qed.

(* ---------------- the same lists read off the program ---------------- *)

Definition item_layer (it : chunk_item) : list layer := match it with ILayer l _ _ _ _ => [l] | _ => [] end.
Definition item_slice (it : chunk_item) : list slice := match it with ISlice sl _ _ _ => [sl] | _ => [] end.
Definition item_tags (acc : option (list tag)) (it : chunk_item) : option (list tag) :=
  match it with ITags ts _ _ => Some (map fst ts) | _ => acc end.

(* the layers / slices of the layer / slice chunks, in file order *)
Definition prog_layers (s : sprite_prog) : list layer :=
  flat_map (fun fr => flat_map item_layer (fp_items fr)) (sp_frames s).
Definition prog_slices (s : sprite_prog) : list slice :=
  flat_map (fun fr => flat_map item_slice (fp_items fr)) (sp_frames s).
(* the tags of the last tags chunk of the first frame (tags chunks elsewhere are not read) *)
Definition prog_tags (s : sprite_prog) : list tag :=
  match sp_frames s with
  | [] => []
  | fr :: _ => match fold_left item_tags (fp_items fr) None with Some ts => ts | None => [] end
  end.

Lemma items_events_layers fmt fid items : forall hp,
  flat_map ev_layer (items_events fmt fid hp items) = flat_map item_layer items.
Proof.
  induction items as [|it t IH]; intros hp; cbn [items_events flat_map]; [reflexivity|].
  rewrite IH. f_equal. destruct it; cbn [item_ev ev_layer item_layer]; try reflexivity;
    [destruct (fid =? 0); reflexivity|destruct body; reflexivity].
Qed.

Lemma items_events_slices fmt fid items : forall hp,
  flat_map ev_slice (items_events fmt fid hp items) = flat_map item_slice items.
Proof.
  induction items as [|it t IH]; intros hp; cbn [items_events flat_map]; [reflexivity|].
  rewrite IH. f_equal. destruct it; cbn [item_ev ev_slice item_slice]; try reflexivity;
    [destruct (fid =? 0); reflexivity|destruct body; reflexivity].
Qed.

Lemma items_events_tags fmt fid items : forall hp acc,
  fold_left ev_tags_step (items_events fmt fid hp items) acc
  = if fid =? 0 then fold_left item_tags items acc else acc.
Proof.
  induction items as [|it t IH]; intros hp acc; cbn [items_events fold_left].
  - destruct (fid =? 0); reflexivity.
  - rewrite IH. destruct it; cbn [item_ev ev_tags_step item_tags]; try reflexivity;
      [destruct (fid =? 0); reflexivity|destruct body; reflexivity].
Qed.

Lemma frames_events_layers fmt frames : forall fid hp,
  flat_map ev_layer (frames_events_of fmt fid hp frames) = flat_map (fun fr => flat_map item_layer (fp_items fr)) frames.
Proof.
  induction frames as [|fr t IH]; intros fid hp; cbn [frames_events_of flat_map ev_layer app]; [reflexivity|].
  rewrite flat_map_app, items_events_layers, IH. reflexivity.
Qed.

Lemma frames_events_slices fmt frames : forall fid hp,
  flat_map ev_slice (frames_events_of fmt fid hp frames) = flat_map (fun fr => flat_map item_slice (fp_items fr)) frames.
Proof.
  induction frames as [|fr t IH]; intros fid hp; cbn [frames_events_of flat_map ev_slice app]; [reflexivity|].
  rewrite flat_map_app, items_events_slices, IH. reflexivity.
Qed.

Lemma frames_events_tags_later fmt frames : forall fid hp acc,
  0 < fid -> fold_left ev_tags_step (frames_events_of fmt fid hp frames) acc = acc.
Proof.
  induction frames as [|fr t IH]; intros fid hp acc Hfid; cbn [frames_events_of fold_left ev_tags_step]; [reflexivity|].
  rewrite fold_left_app, items_events_tags. destruct (Z.eqb_spec fid 0) as [E|_]; [lia|]. apply IH. lia.
Qed.

Lemma events_tags s :
  match fold_left ev_tags_step (events_of s) None with Some ts => ts | None => [] end = prog_tags s.
Proof.
  unfold events_of, prog_tags. destruct (sp_frames s) as [|fr t]; [reflexivity|].
  cbn [frames_events_of fold_left ev_tags_step]. rewrite fold_left_app, items_events_tags.
  rewrite frames_events_tags_later by lia. reflexivity.
Qed.

(* the events of a well-formed program are as decoders produce them *)
Lemma item_ev_wf fmt fid hp it : wf_item fmt it -> 0 <= fid -> ev_wf (item_ev fmt fid hp it).
Proof.
  destruct it; cbn [wf_item item_ev]; intros Hw Hfid; try exact I.
  - destruct Hw as ((_ & _ & _ & _ & _ & _ & _ & _ & H) & _). exact H.
  - destruct (fid =? 0); [|exact I]. cbn [ev_wf]. destruct Hw as ((_ & Hall) & _).
    induction Hall as [|[t j] ts Ht _ IH]; cbn [map fst]; constructor; [|exact IH].
    destruct Ht as (_ & _ & _ & _ & _ & H & _). exact H.
  - destruct Hw as ((_ & _ & _ & _ & H) & _). exact H.
  - destruct body; exact I.
  - split; [exact Hfid|reflexivity].
  - split; [exact Hfid|reflexivity].
  - split; [exact Hfid|reflexivity].
  - split; [exact Hfid|reflexivity].
Qed.

Lemma items_events_wf fmt fid items : forall hp,
  Forall (wf_item fmt) items -> 0 <= fid -> Forall ev_wf (items_events fmt fid hp items).
Proof.
  induction items as [|it t IH]; intros hp Hw Hfid; cbn [items_events]; constructor.
  - inversion Hw; subst. apply item_ev_wf; assumption.
  - inversion Hw; subst. apply IH; assumption.
Qed.

Lemma frames_events_of_wf fmt frames : forall fid hp,
  Forall (wf_frame_prog fmt) frames -> 0 <= fid -> Forall ev_wf (frames_events_of fmt fid hp frames).
Proof.
  induction frames as [|fr t IH]; intros fid hp Hw Hfid; cbn [frames_events_of]; constructor; [exact I|].
  inversion Hw as [|? ? Hw1 Hw2]; subst. destruct Hw1 as (_ & _ & _ & _ & _ & Hit & _).
  apply Forall_app. split; [apply items_events_wf; assumption|apply IH; [exact Hw2|lia]].
Qed.

Lemma events_of_wf s : wf_prog s -> Forall ev_wf (events_of s).
Proof. intros (_ & _ & _ & Hfr). apply frames_events_of_wf; [exact Hfr|lia]. Qed.

Section Entities.
Variable inflate : list Z -> Z -> zres.
Variables (s : sprite_prog) (tail : list Z) (f : file).
Hypothesis Hwf : wf_prog s.
Hypothesis Hz : inflate_ok inflate s.
Hypothesis Hload : load inflate (serialize s ++ tail) = Ok f.

(* LAYERS: the layers of the sprite, in index order, are the layers of the layer chunks in
   file order; layer i carries the user data that the C10 window rule gives EntLayer i *)
Theorem e2e_layers_in_order :
  arr_to_list (f_layers f)
  = mapi (fun i l => layer_with_ud l (window (rev (events_of s)) (EntLayer i))) (prog_layers s).
Proof.
  destruct (load_serialize_ok inflate s tail f Hwf Hz Hload) as (p & Hf & Hv).
  apply validate_views in Hv. destruct Hv as (-> & _). rewrite arr_to_list_of_list.
  apply (list_by_index layer_erase l_ud layer_with_ud); [exact layer_recon| |].
  - destruct (rfold_shape _ _ _ Hf) as (A1 & _). rewrite A1. unfold events_of. rewrite frames_events_layers. reflexivity.
  - intros i x' Hx. apply (ud_attach _ _ _ p (events_of_wf s Hwf) Hf (EntLayer i)).
    unfold ud_of, lookup. rewrite Hx. reflexivity.
Qed.

(* spelled out: the number of layers, the accessor, and the list without user data *)
Corollary e2e_num_layers : num_layers f = zlen (prog_layers s).
Proof.
  pose proof e2e_layers_in_order as H.
  destruct (load_serialize_ok inflate s tail f Hwf Hz Hload) as (p & Hf & Hv).
  apply validate_views in Hv. destruct Hv as (E & _). unfold num_layers. rewrite E in *.
  rewrite arr_to_list_of_list in H. rewrite alen_arr_of_list, H. apply zlen_mapi_from.
Qed.

Corollary e2e_layer_at i l :
  nthz (prog_layers s) i = Some l ->
  layer_get f i = Ok (layer_with_ud l (window (rev (events_of s)) (EntLayer i))).
Proof.
  intros Hi. pose proof e2e_layers_in_order as H.
  destruct (load_serialize_ok inflate s tail f Hwf Hz Hload) as (p & Hf & Hv).
  apply validate_views in Hv. destruct Hv as (E & _). unfold layer_get. rewrite E in *.
  rewrite arr_to_list_of_list in H. rewrite aget_arr_of_list, H.
  pose proof (nthz_some _ _ _ Hi) as Hr. rewrite nthz_mapi by lia. rewrite Hi. reflexivity.
Qed.

Lemma map_mapi_from {A B C} (h : B -> C) (g : Z -> A -> B) l : forall i0,
  map h (mapi_from g i0 l) = mapi_from (fun i x => h (g i x)) i0 l.
Proof. induction l as [|x t IH]; intros i0; cbn [mapi_from map]; [reflexivity|]. rewrite IH. reflexivity. Qed.

Lemma mapi_from_const {A} (l : list A) : forall i0, mapi_from (fun _ x => x) i0 l = l.
Proof. induction l as [|x t IH]; intros i0; cbn [mapi_from]; [reflexivity|]. rewrite IH. reflexivity. Qed.

Lemma prog_layers_fresh : forall l, In l (prog_layers s) -> layer_erase l = l.
Proof.
  intros l Hl. unfold prog_layers in Hl. apply in_flat_map in Hl. destruct Hl as (fr & Hfr & Hl).
  apply in_flat_map in Hl. destruct Hl as (it & Hit & Hl).
  destruct Hwf as (_ & _ & _ & Hall). rewrite Forall_forall in Hall. specialize (Hall fr Hfr).
  destruct Hall as (_ & _ & _ & _ & _ & Hitems & _). rewrite Forall_forall in Hitems. specialize (Hitems it Hit).
  destruct it; cbn [item_layer] in Hl; try contradiction. destruct Hl as [<-|[]].
  cbn [wf_item] in Hitems. destruct Hitems as (Hl & _). eapply layer_erase_wf. exact Hl.
Qed.

(* forgetting the user data, the layers are exactly those of the layer chunks *)
Corollary e2e_layers_erased : map layer_erase (arr_to_list (f_layers f)) = prog_layers s.
Proof.
  rewrite e2e_layers_in_order. unfold mapi. rewrite map_mapi_from.
  change (fun i x => layer_erase (layer_with_ud x (window (rev (events_of s)) (EntLayer i))))
    with (fun (i : Z) x => layer_erase x).
  rewrite <- (map_mapi_from layer_erase (fun _ x => x)), mapi_from_const.
  rewrite <- (map_id (prog_layers s)) at 2. apply map_ext_in. exact prog_layers_fresh.
Qed.

(* SLICES: the same; each slice comes with all its keys in file order (they are part of the
   slice value) *)
Theorem e2e_slices_in_order :
  f_slices f
  = mapi (fun i sl => slice_with_ud sl (window (rev (events_of s)) (EntSlice i))) (prog_slices s).
Proof.
  destruct (load_serialize_ok inflate s tail f Hwf Hz Hload) as (p & Hf & Hv).
  apply validate_views in Hv. destruct Hv as (_ & _ & -> & _).
  apply (list_by_index slice_erase s_ud slice_with_ud); [exact slice_recon| |].
  - destruct (rfold_shape _ _ _ Hf) as (_ & A2 & _). rewrite A2. unfold events_of. rewrite frames_events_slices. reflexivity.
  - intros i x' Hx. apply (ud_attach _ _ _ p (events_of_wf s Hwf) Hf (EntSlice i)).
    unfold ud_of, lookup. rewrite Hx. reflexivity.
Qed.

(* TAGS: the tags of the sprite, in index order, are the tags of the (last) tags chunk of the
   first frame, in file order *)
Theorem e2e_tags_in_order :
  f_tags f
  = mapi (fun i t => tag_with_ud t (window (rev (events_of s)) (EntTag i))) (prog_tags s).
Proof.
  destruct (load_serialize_ok inflate s tail f Hwf Hz Hload) as (p & Hf & Hv).
  apply validate_views in Hv. destruct Hv as (_ & -> & _).
  apply (list_by_index tag_erase t_ud tag_with_ud); [exact tag_recon| |].
  - destruct (rfold_shape _ _ _ Hf) as (_ & _ & A3). rewrite <- events_tags. unfold tags_of.
    cbn [pinfo_new pi_tags] in A3.
    destruct (pi_tags p) as [ts|], (fold_left ev_tags_step (events_of s) None) as [ts'|];
      cbn [option_map] in A3; try discriminate; [injection A3 as A3; exact A3|reflexivity].
  - intros i x' Hx. apply (ud_attach _ _ _ p (events_of_wf s Hwf) Hf (EntTag i)).
    unfold ud_of, lookup. rewrite Hx. reflexivity.
Qed.

End Entities.

(* ---------------- external files ---------------- *)

Definition bind_ext (m : zmap (list Z)) (e : Z * list Z) : zmap (list Z) := zadd (fst e) (snd e) m.
Definition ev_ext_step (m : zmap (list Z)) (e : ev) : zmap (list Z) :=
  match e with EOther (OExt fs) => fold_left bind_ext fs m | _ => m end.

Lemma step_ext p e p' : step p e = Ok p' -> pi_ext p' = ev_ext_step (pi_ext p) e.
Proof.
  destruct e as [l|fr c|sl|ts|o|o|u]; cbn [step ev_ext_step].
  - intros [= <-]. reflexivity.
  - intros H. apply add_cel_fields in H. apply H.
  - intros [= <-]. reflexivity.
  - intros [= <-]. reflexivity.
  - intros [= <-]. destruct o; reflexivity.
  - intros [= <-]. destruct o; reflexivity.
  - intros H. apply add_user_data_rest in H. apply H.
Qed.

Lemma rfold_ext evs : forall p p', rfold step evs p = Ok p' -> pi_ext p' = fold_left ev_ext_step evs (pi_ext p).
Proof.
  induction evs as [|e t IH]; intros p p'; cbn [rfold fold_left].
  - intros [= <-]. reflexivity.
  - intros H. apply rbind_ok in H. destruct H as (p1 & H1 & H). rewrite (IH _ _ H), (step_ext _ _ _ H1). reflexivity.
Qed.

Definition item_ext (it : chunk_item) : list (Z * list Z) :=
  match it with IExternal es _ _ => map fst es | _ => [] end.
(* all (id, name) entries of the external-files chunks, in file order *)
Definition prog_ext (s : sprite_prog) : list (Z * list Z) :=
  flat_map (fun fr => flat_map item_ext (fp_items fr)) (sp_frames s).

Lemma items_events_ext fmt fid items : forall hp m,
  fold_left ev_ext_step (items_events fmt fid hp items) m = fold_left bind_ext (flat_map item_ext items) m.
Proof.
  induction items as [|it t IH]; intros hp m; cbn [items_events fold_left flat_map]; [reflexivity|].
  rewrite fold_left_app, IH. f_equal.
  destruct it; cbn [item_ev ev_ext_step item_ext fold_left]; try reflexivity;
    [destruct (fid =? 0); reflexivity|destruct body; reflexivity].
Qed.

Lemma frames_events_ext fmt frames : forall fid hp m,
  fold_left ev_ext_step (frames_events_of fmt fid hp frames) m
  = fold_left bind_ext (flat_map (fun fr => flat_map item_ext (fp_items fr)) frames) m.
Proof.
  induction frames as [|fr t IH]; intros fid hp m; cbn [frames_events_of fold_left flat_map ev_ext_step]; [reflexivity|].
  rewrite !fold_left_app, items_events_ext, IH. reflexivity.
Qed.

(* insert = last wins *)
Lemma zfind_fold_bind_ext bs : forall m k,
  (forall e, In e bs -> 0 <= fst e) -> 0 <= k ->
  zfind k (fold_left bind_ext bs m)
  = match find (fun e => fst e =? k) (rev bs) with Some e => Some (snd e) | None => zfind k m end.
Proof.
  induction bs as [|b bs IH] using rev_ind; intros m k Hnn Hk; [reflexivity|].
  rewrite fold_left_app, rev_app_distr. cbn [fold_left rev app find]. unfold bind_ext at 1.
  rewrite zfind_zadd_nonneg by (try lia; apply Hnn; apply in_or_app; right; left; reflexivity).
  rewrite (Z.eqb_sym k). destruct (fst b =? k); [reflexivity|].
  apply IH; [|exact Hk]. intros e He. apply Hnn. apply in_or_app. left. exact He.
Qed.

(* ---------------- palette ---------------- *)

Definition ev_pal_step (cur : option palette) (e : ev) : option palette :=
  match e with EOther (OPalette pal) => Some pal | EOldPal (Some pal) => Some pal | _ => cur end.

Lemma step_pal p e p' : step p e = Ok p' -> pi_palette p' = ev_pal_step (pi_palette p) e.
Proof.
  destruct e as [l|fr c|sl|ts|o|o|u]; cbn [step ev_pal_step].
  - intros [= <-]. reflexivity.
  - intros H. apply add_cel_fields in H. apply H.
  - intros [= <-]. reflexivity.
  - intros [= <-]. reflexivity.
  - intros [= <-]. destruct o; reflexivity.
  - intros [= <-]. destruct o; reflexivity.
  - intros H. apply add_user_data_rest in H. apply H.
Qed.

Lemma rfold_pal evs : forall p p', rfold step evs p = Ok p' -> pi_palette p' = fold_left ev_pal_step evs (pi_palette p).
Proof.
  induction evs as [|e t IH]; intros p p'; cbn [rfold fold_left].
  - intros [= <-]. reflexivity.
  - intros H. apply rbind_ok in H. destruct H as (p1 & H1 & H). rewrite (IH _ _ H), (step_pal _ _ _ H1). reflexivity.
Qed.

(* the precedence rule: a new-format chunk always replaces the palette; a legacy chunk is used
   only while there is none *)
Definition item_pal (cur : option palette) (it : chunk_item) : option palette :=
  match it with
  | IPalette _ first entries _ _ => Some (palette_of first entries)
  | IOldPalette six packets _ =>
      match cur with Some _ => cur | None => Some (old_palette_spec six packets) end
  | _ => cur
  end.
Definition prog_palette (s : sprite_prog) : option palette :=
  fold_left (fun cur fr => fold_left item_pal (fp_items fr) cur) (sp_frames s) None.

Lemma items_events_pal fmt fid items : forall cur,
  fold_left ev_pal_step (items_events fmt fid (is_some cur) items) cur = fold_left item_pal items cur /\
  items_hp (is_some cur) items = is_some (fold_left item_pal items cur).
Proof.
  induction items as [|it t IH]; intros cur; cbn [items_events fold_left items_hp]; [split; reflexivity|].
  assert (ev_pal_step cur (item_ev fmt fid (is_some cur) it) = item_pal cur it /\
          item_hp (is_some cur) it = is_some (item_pal cur it)) as (E1 & E2).
  { destruct it; cbn [item_ev ev_pal_step item_pal item_hp is_some]; try (split; reflexivity).
    - destruct (fid =? 0); split; reflexivity.
    - destruct cur; split; reflexivity.
    - destruct body; split; reflexivity. }
  rewrite E1, E2. apply IH.
Qed.

Lemma frames_events_pal fmt frames : forall fid cur,
  fold_left ev_pal_step (frames_events_of fmt fid (is_some cur) frames) cur
  = fold_left (fun cur fr => fold_left item_pal (fp_items fr) cur) frames cur.
Proof.
  induction frames as [|fr t IH]; intros fid cur; cbn [frames_events_of fold_left ev_pal_step]; [reflexivity|].
  rewrite fold_left_app. destruct (items_events_pal fmt fid (fp_items fr) cur) as (E1 & E2).
  rewrite E1, E2. apply IH.
Qed.

(* ---------------- cels ---------------- *)

Definition cel_erase (c : cel rawpixels) : cel rawpixels :=
  {| c_data := c_data c; c_content := c_content c; c_ud := None |}.
Definition ev_cel (e : ev) : list (Z * cel rawpixels) := match e with ECel fr c => [(fr, c)] | _ => [] end.
Definition cel_match (fr l : Z) (fc : Z * cel rawpixels) : bool :=
  (fst fc =? fr) && (cc_layer (c_data (snd fc)) =? l).
(* the first cel for (frame, layer) in a list of (frame, cel) pairs *)
Definition cel_at (cs : list (Z * cel rawpixels)) (fr l : Z) : option (cel rawpixels) :=
  option_map snd (find (cel_match fr l) cs).

Lemma find_app' {A} (g : A -> bool) a b :
  find g (a ++ b) = match find g a with Some x => Some x | None => find g b end.
Proof. induction a as [|x t IH]; cbn [app find]; [reflexivity|]. destruct (g x); [reflexivity|exact IH]. Qed.

Definition ctx_nonneg (p : pinfo) : Prop := forall fr l, pi_ctx p = Some (UCel fr l) -> 0 <= fr.

Lemma step_cels p e p' :
  ctx_nonneg p -> ev_wf e -> step p e = Ok p' ->
  ctx_nonneg p' /\
  forall fr l, option_map cel_erase (cel_of p' fr l)
               = match cel_of p fr l with
                 | Some c => Some (cel_erase c)
                 | None => option_map cel_erase (cel_at (ev_cel e) fr l)
                 end.
Proof.
  intros Hctx Hwe.
  assert (forall q, pi_cels q = pi_cels p -> forall fr l,
            option_map cel_erase (cel_of q fr l)
            = match cel_of p fr l with Some c => Some (cel_erase c) | None => None end) as Hsame.
  { intros q Hq fr l. unfold cel_of. rewrite Hq. destruct (cel_slot (pi_cels p) fr l); reflexivity. }
  destruct e as [l0|f0 c|sl|ts|o|o|u]; cbn [step ev_cel]; unfold cel_at; cbn [find option_map].
  - intros [= <-]. split; [intros fr l; discriminate|]. apply Hsame. reflexivity.
  - destruct Hwe as (Hf0 & Hud). intros H. apply add_cel_ok in H. destruct H as (_ & t & Ht & ->).
    split; [intros fr l [= <- <-]; exact Hf0|].
    destruct (table_add_cel_spec _ _ _ _ _ Hf0 Ht) as (Hnone & Hnew & Hoth).
    intros fr l. unfold cel_of. cbn [pi_cels with_ctx with_cels]. unfold cel_match. cbn [fst snd].
    destruct (Z.eqb_spec f0 fr) as [->|Hne1]; [destruct (Z.eqb_spec (cc_layer (c_data c)) l) as [<-|Hne2]|]; cbn [andb].
    + rewrite Hnew. unfold cel_of in Hnone. rewrite Hnone. reflexivity.
    + rewrite Hoth by congruence. destruct (cel_slot (pi_cels p) fr l); reflexivity.
    + rewrite Hoth by congruence. destruct (cel_slot (pi_cels p) fr l); reflexivity.
  - intros [= <-]. split; [intros fr l; discriminate|]. apply Hsame. reflexivity.
  - intros [= <-]. split; [intros fr l; discriminate|]. apply Hsame. reflexivity.
  - intros [= <-]. split; [destruct o; intros fr l; discriminate|]. apply Hsame. destruct o; reflexivity.
  - intros [= <-]. split; [destruct o; exact Hctx|]. apply Hsame. destruct o; reflexivity.
  - unfold add_user_data. destruct (pi_ctx p) as [[f1 l1|i| |i|i]|] eqn:Ec; try discriminate.
    + destruct (table_set_cel_ud (pi_cels p) f1 l1 u) as [t|] eqn:Et; [|discriminate]. intros [= <-].
      split; [intros fr l E; apply (Hctx fr l); exact E|].
      pose proof (Hctx f1 l1 Ec) as Hf1.
      destruct (table_set_cel_ud_spec _ _ _ _ _ Hf1 Et) as (c0 & Hc0 & Hc1 & Hoth).
      intros fr l. unfold cel_of. cbn [pi_cels with_cels].
      destruct (Z.eq_dec fr f1) as [->|Hne1]; [destruct (Z.eq_dec l l1) as [->|Hne2]|].
      * rewrite Hc1, Hc0. reflexivity.
      * rewrite Hoth by congruence. destruct (cel_slot (pi_cels p) f1 l); reflexivity.
      * rewrite Hoth by congruence. destruct (cel_slot (pi_cels p) fr l); reflexivity.
    + destruct (upd_rev (pi_layers_rev p) (pi_nlayers p) i (fun l => set_layer_ud l u)) as [ls|]; [|discriminate].
      intros [= <-]. split; [intros fr l E; cbn [pi_ctx with_layers] in E; rewrite Ec in E; discriminate|].
      apply Hsame. reflexivity.
    + intros [= <-]. split; [intros fr l E; cbn [pi_ctx with_sprite_ud] in E; rewrite Ec in E; discriminate|].
      apply Hsame. reflexivity.
    + destruct (pi_tags p) as [ts|]; [|discriminate]. destruct (nthz ts i) as [t0|]; [|discriminate].
      destruct (65535 <=? i); [discriminate|]. intros [= <-]. split; [intros fr l; discriminate|].
      apply Hsame. reflexivity.
    + destruct (upd_rev (pi_slices_rev p) (pi_nslices p) i (fun sl => set_slice_ud sl u)) as [ss|]; [|discriminate].
      intros [= <-]. split; [intros fr l E; cbn [pi_ctx with_slices] in E; rewrite Ec in E; discriminate|].
      apply Hsame. reflexivity.
Qed.

Lemma rfold_cels evs : forall p p',
  ctx_nonneg p -> Forall ev_wf evs -> rfold step evs p = Ok p' ->
  forall fr l, option_map cel_erase (cel_of p' fr l)
               = match cel_of p fr l with
                 | Some c => Some (cel_erase c)
                 | None => option_map cel_erase (cel_at (flat_map ev_cel evs) fr l)
                 end.
Proof.
  induction evs as [|e t IH]; intros p p' Hctx Hw; cbn [rfold flat_map].
  - intros [= <-] fr l. destruct (cel_of p fr l); reflexivity.
  - intros H fr l. apply rbind_ok in H. destruct H as (p1 & H1 & H).
    inversion Hw as [|? ? Hwe Hwt]; subst.
    destruct (step_cels _ _ _ Hctx Hwe H1) as (Hctx1 & S). specialize (S fr l).
    rewrite (IH _ _ Hctx1 Hwt H fr l). unfold cel_at. rewrite find_app'. fold (cel_at (ev_cel e) fr l).
    destruct (cel_of p fr l) as [c|].
    + destruct (cel_of p1 fr l) as [c1|]; cbn [option_map] in S; [exact S|discriminate].
    + unfold cel_at in S. destruct (find (cel_match fr l) (ev_cel e)) as [x|]; cbn [option_map] in *.
      * destruct (cel_of p1 fr l) as [c1|]; cbn [option_map] in S; [exact S|discriminate].
      * destruct (cel_of p1 fr l) as [c1|]; cbn [option_map] in S; [discriminate|reflexivity].
Qed.

Lemma cel_of_new n d fr l : cel_of (pinfo_new n d) fr l = None.
Proof.
  unfold cel_of, cel_slot, get_row. cbn [pinfo_new pi_cels]. rewrite zfind_zempty.
  destruct (nthz [@None (cel rawpixels)] l) as [[c|]|] eqn:E; try reflexivity.
  apply nthz_In in E. destruct E as [E|[]]. discriminate.
Qed.

(* the cel a cel chunk stands for *)
Definition item_cel (fmt : pixfmt) (it : chunk_item) : option (cel rawpixels) :=
  match it with
  | ICelRaw c _ w h bytes _ => Some (mk_cel c (CRaw w h (raw_of fmt bytes)))
  | ICelLinked c _ frame _ => Some (mk_cel c (CLinked frame))
  | ICelZ c _ w h _ bytes _ => Some (mk_cel c (CRaw w h (raw_of fmt bytes)))
  | ICelTilemap c _ w h idmask _ _ _ bytes _ =>
      Some (mk_cel c (CTilemap {| tm_w := w; tm_h := h;
                                  tm_tiles := arr_of_list (map (fun bits => Z.land bits idmask)
                                                               (group_dwords bytes)) |}))
  | _ => None
  end.
Definition frame_cels (fmt : pixfmt) (i : Z) (fr : frame_prog) : list (Z * cel rawpixels) :=
  flat_map (fun it => match item_cel fmt it with Some c => [(i, c)] | None => [] end) (fp_items fr).
(* all (frame number, cel) pairs of the cel chunks, in file order *)
Definition prog_cels (s : sprite_prog) : list (Z * cel rawpixels) :=
  concat (mapi (frame_cels (prog_fmt s)) (sp_frames s)).

Lemma items_events_cels fmt fid items : forall hp,
  flat_map ev_cel (items_events fmt fid hp items)
  = flat_map (fun it => match item_cel fmt it with Some c => [(fid, c)] | None => [] end) items.
Proof.
  induction items as [|it t IH]; intros hp; cbn [items_events flat_map]; [reflexivity|].
  rewrite IH. f_equal. destruct it; cbn [item_ev ev_cel item_cel]; try reflexivity;
    [destruct (fid =? 0); reflexivity|destruct body; reflexivity].
Qed.

Lemma frames_events_cels fmt frames : forall fid hp,
  flat_map ev_cel (frames_events_of fmt fid hp frames) = concat (mapi_from (frame_cels fmt) fid frames).
Proof.
  induction frames as [|fr t IH]; intros fid hp; cbn [frames_events_of flat_map ev_cel app mapi_from concat]; [reflexivity|].
  rewrite flat_map_app, items_events_cels, IH. reflexivity.
Qed.

Section More.
Variable inflate : list Z -> Z -> zres.
Variables (s : sprite_prog) (tail : list Z) (f : file).
Hypothesis Hwf : wf_prog s.
Hypothesis Hz : inflate_ok inflate s.
Hypothesis Hload : load inflate (serialize s ++ tail) = Ok f.

(* EXTERNAL FILES: the entries of all external-files chunks, bound in file order *)
Theorem e2e_external : f_ext f = fold_left bind_ext (prog_ext s) zempty.
Proof.
  destruct (load_serialize_ok inflate s tail f Hwf Hz Hload) as (p & Hf & Hv).
  apply validate_fields in Hv. destruct Hv as (_ & _ & _ & _ & _ & _ & _ & ->).
  rewrite (rfold_ext _ _ _ Hf). unfold events_of. rewrite frames_events_ext. reflexivity.
Qed.

Lemma prog_ext_nonneg : forall e, In e (prog_ext s) -> 0 <= fst e.
Proof.
  intros e He. unfold prog_ext in He. apply in_flat_map in He. destruct He as (fr & Hfr & He).
  apply in_flat_map in He. destruct He as (it & Hit & He).
  destruct Hwf as (_ & _ & _ & Hall). rewrite Forall_forall in Hall. specialize (Hall fr Hfr).
  destruct Hall as (_ & _ & _ & _ & _ & Hitems & _). rewrite Forall_forall in Hitems. specialize (Hitems it Hit).
  destruct it; cbn [item_ext] in He; try contradiction. cbn [wf_item] in Hitems.
  destruct Hitems as ((_ & Hes) & _). apply in_map_iff in He. destruct He as (ej & <- & Hej).
  rewrite Forall_forall in Hes. specialize (Hes ej Hej). destruct ej as [[id nm] j]. cbn [fst].
  destruct Hes as (Hid & _). unfold is_dword in Hid. lia.
Qed.

(* ... so id k reports the name of its LAST entry, and nothing if it has none *)
Theorem e2e_external_lookup k :
  0 <= k ->
  zfind k (f_ext f) = option_map snd (find (fun e => fst e =? k) (rev (prog_ext s))).
Proof.
  intros Hk. rewrite e2e_external, zfind_fold_bind_ext by (try exact Hk; exact prog_ext_nonneg).
  destruct (find (fun e => fst e =? k) (rev (prog_ext s))); [reflexivity|]. apply zfind_zempty.
Qed.

(* PALETTE: the precedence rule applied to the palette chunks in file order *)
Theorem e2e_palette : f_palette f = prog_palette s.
Proof.
  destruct (load_serialize_ok inflate s tail f Hwf Hz Hload) as (p & Hf & Hv).
  apply validate_fields in Hv. destruct Hv as (_ & _ & _ & _ & -> & _).
  rewrite (rfold_pal _ _ _ Hf). unfold events_of, prog_palette. cbn [pinfo_new pi_palette].
  apply (frames_events_pal (prog_fmt s) (sp_frames s) 0 None).
Qed.

(* CELS: (frame, layer) holds a cel exactly when a cel chunk for that layer occurs in that
   frame; the cel reports the position data of the chunk and the user data of the window rule *)
Theorem e2e_cels fr l :
  match cel_at (prog_cels s) fr l with
  | Some c => exists c', fcel_of f fr l = Some c' /\ c_data c' = c_data c /\
                         c_ud c' = window (rev (events_of s)) (EntCel fr l)
  | None => fcel_of f fr l = None
  end.
Proof.
  destruct (load_serialize_ok inflate s tail f Hwf Hz Hload) as (p & Hf & Hv).
  pose proof (validate_cel_views _ _ _ Hv fr l) as Hsame.
  assert (ctx_nonneg (pinfo_new (hf_frames (sp_header s)) (hf_default_time (sp_header s)))) as Hc0
    by (intros a b; discriminate).
  pose proof (rfold_cels _ _ _ Hc0 (events_of_wf s Hwf) Hf fr l) as Hcel.
  rewrite cel_of_new in Hcel. unfold events_of in Hcel at 1. rewrite frames_events_cels in Hcel.
  fold (mapi (frame_cels (prog_fmt s)) (sp_frames s)) in Hcel. fold (prog_cels s) in Hcel.
  destruct (cel_at (prog_cels s) fr l) as [c|]; cbn [option_map] in Hcel.
  - destruct (cel_of p fr l) as [c1|] eqn:E1; cbn [option_map] in Hcel; [|discriminate].
    assert (c_data c1 = c_data c) as Hd by (change (c_data (cel_erase c1) = c_data (cel_erase c)); congruence).
    unfold cel_same in Hsame.
    destruct (fcel_of f fr l) as [c'|]; [|contradiction]. destruct Hsame as (Hud & Hdata).
    exists c'. split; [reflexivity|]. split.
    + rewrite Hdata. exact Hd.
    + rewrite Hud. apply (ud_attach _ _ _ p (events_of_wf s Hwf) Hf (EntCel fr l)).
      unfold ud_of, lookup. rewrite E1. reflexivity.
  - destruct (cel_of p fr l) as [c1|] eqn:E1; cbn [option_map] in Hcel; [discriminate|].
    unfold cel_same in Hsame. destruct (fcel_of f fr l); [contradiction|reflexivity].
Qed.

(* the same as an equivalence *)
Theorem e2e_cels_iff fr l :
  (exists c', fcel_of f fr l = Some c') <->
  (exists c, In (fr, c) (prog_cels s) /\ cc_layer (c_data c) = l).
Proof.
  pose proof (e2e_cels fr l) as H. unfold cel_at in H.
  destruct (find (cel_match fr l) (prog_cels s)) as [[fr0 c]|] eqn:E; cbn [option_map snd] in H.
  - apply find_some in E. destruct E as (Hin & Hm). unfold cel_match in Hm. cbn [fst snd] in Hm.
    apply andb_prop in Hm. destruct Hm as (H1 & H2). apply Z.eqb_eq in H1. apply Z.eqb_eq in H2. subst fr0.
    destruct H as (c' & Hc' & _). split; intros _; [exists c; split; assumption|exists c'; exact Hc'].
  - split.
    + intros (c' & Hc'). rewrite H in Hc'. discriminate.
    + intros (c & Hin & Hl). pose proof (find_none _ _ E _ Hin) as Hm. unfold cel_match in Hm. cbn [fst snd] in Hm.
      rewrite Z.eqb_refl, Hl, Z.eqb_refl in Hm. discriminate.
Qed.

End More.

(* ------------------------------------------------------------------ *)
(* the serialisation of a well-formed program is a byte string (so the theorems speak about files) *)

Lemma item_payload_bytes fmt it : wf_item fmt it -> item_bytes it -> all_bytes (snd (item_chunk it)).
Proof.
  destruct it; cbn [wf_item item_bytes item_chunk snd]; intros Hw Hb.
  - destruct Hw as (H1 & _). destruct Hb as (B1 & B2 & B3). apply all_bytes_app; [|exact B3].
    apply all_bytes_enc_layer; assumption.
  - destruct Hw as (H1 & _). destruct Hb as (B1 & B2 & B3). apply all_bytes_app; [|exact B3].
    apply all_bytes_enc_tags; assumption.
  - destruct Hw as (H1 & _). destruct Hb as (B1 & B2). apply all_bytes_app; [|exact B2].
    apply all_bytes_enc_slice; assumption.
  - destruct Hw as (H0 & H1 & _). destruct Hb as (B1 & B2). apply all_bytes_app; [|exact B2].
    apply all_bytes_enc_palette; try assumption. destruct H1 as (_ & _ & H & _). exact H.
  - apply all_bytes_app; [|exact Hb]. eapply all_bytes_enc_old_palette. exact Hw.
  - apply all_bytes_app; [|exact Hb]. apply all_bytes_enc_userdata. exact Hw.
  - destruct Hw as (H1 & _). destruct Hb as (B1 & B2 & B3). apply all_bytes_app; [|exact B3].
    apply all_bytes_enc_external; assumption.
  - destruct Hw as ((H1 & H2 & _) & _). destruct Hb as (B1 & B2 & B3). unfold enc_color_profile. ab.
  - destruct Hw as (H1 & _). destruct Hb as (B1 & B2 & B3 & B4). apply all_bytes_app.
    + apply all_bytes_enc_tileset_hdr; assumption.
    + destruct body; [exact B3|apply all_bytes_app; assumption].
  - destruct Hw as (H1 & _ & H3 & H4 & _). destruct Hb as (B1 & B2 & B3). unfold enc_cel_raw.
    apply all_bytes_app; [|exact B3]. apply all_bytes_app; [apply all_bytes_enc_cel_hdr; try assumption; unfold is_word; lia|]. ab.
  - destruct Hw as (H1 & _ & H3). destruct Hb as (B1 & B2). unfold enc_cel_linked.
    apply all_bytes_app; [|exact B2]. apply all_bytes_app; [apply all_bytes_enc_cel_hdr; try assumption; unfold is_word; lia|]. ab.
  - destruct Hw as (H1 & _ & H3 & H4 & _). destruct Hb as (B1 & B2 & B3). unfold enc_cel_zimage.
    apply all_bytes_app; [|exact B3]. apply all_bytes_app; [apply all_bytes_enc_cel_hdr; try assumption; unfold is_word; lia|]. ab.
  - destruct Hw as (H1 & _ & H3 & H4 & H5 & _). destruct Hb as (B1 & B2 & B3 & B4 & B5).
    apply all_bytes_app; [apply all_bytes_enc_cel_hdr; try assumption; unfold is_word; lia|].
    unfold enc_tilemap_hdr. ab.
  - exact Hb.
Qed.

Lemma item_code_word fmt it : wf_item fmt it -> 0 <= fst (item_chunk it) < 65536.
Proof.
  destruct it; cbn [wf_item item_chunk fst]; intros Hw; try lia.
  - destruct six; lia.
  - destruct Hw as [->|[->| ->]]; lia.
Qed.

Lemma ser_frame_bytes fmt fr : wf_frame_prog fmt fr -> all_bytes (ser_frame fr).
Proof.
  intros (Hd & Hj & Hjb & Hc & Hs & Hw & Hb). unfold ser_frame. cbv zeta.
  pose proof (zlen_nonneg (ser_chunks (map item_chunk (fp_items fr)))) as Hn.
  pose proof (zlen_nonneg (fp_items fr)) as Hni.
  assert (all_bytes (ser_chunks (map item_chunk (fp_items fr)))) as Hbody.
  { rewrite zlen_ser_chunks in Hs.
    assert (forall ch, In ch (map item_chunk (fp_items fr)) -> chunk_size ch <= chunks_size (map item_chunk (fp_items fr)))
      as Hle by (intros ch; apply chunk_size_le_total).
    assert (forall it, In it (fp_items fr) -> all_bytes (ser_chunk (item_chunk it))) as Hch.
    { intros it Hit. rewrite Forall_forall in Hw, Hb. unfold ser_chunk.
      pose proof (Hle (item_chunk it) (in_map item_chunk _ _ Hit)) as Hsz. unfold chunk_size in Hsz.
      pose proof (zlen_nonneg (snd (item_chunk it))) as Hp.
      pose proof (item_code_word fmt it (Hw it Hit)) as Hcode.
      apply all_bytes_app; [apply all_bytes_e_dword; lia|].
      apply all_bytes_app; [apply all_bytes_e_word; exact Hcode|].
      apply (item_payload_bytes fmt); [apply Hw|apply Hb]; exact Hit. }
    clear -Hch. revert Hch. generalize (fp_items fr) as items. intros items Hch. induction items as [|it t IH]; cbn [map ser_chunks flat_map]; [apply all_bytes_nil|].
    apply all_bytes_app; [apply Hch; left; reflexivity|]. apply IH. intros it' Hit'. apply Hch. right. exact Hit'. }
  assert (0 <= fst (count_fields (fp_count fr) (zlen (fp_items fr))) < 65536 /\
          0 <= snd (count_fields (fp_count fr) (zlen (fp_items fr))) < 4294967296) as (Hc1 & Hc2).
  { destruct (fp_count fr) as [| |old]; cbn [count_fields wf_count fst snd] in *; unfold is_word in *; lia. }
  unfold is_word in Hd.
  apply all_bytes_app; [apply all_bytes_e_dword; lia|].
  apply all_bytes_app; [apply all_bytes_e_word; lia|].
  apply all_bytes_app; [apply all_bytes_e_word; exact Hc1|].
  apply all_bytes_app; [apply all_bytes_e_word; exact Hd|].
  apply all_bytes_app; [exact Hjb|].
  apply all_bytes_app; [apply all_bytes_e_dword; exact Hc2|exact Hbody].
Qed.

Theorem serialize_all_bytes s : wf_prog s -> all_bytes (serialize s).
Proof.
  intros (Hh & (_ & B1 & B2 & B3 & B4 & B5 & B6) & _ & Hfr). unfold serialize, ser_header.
  apply all_bytes_app; [apply all_bytes_enc_header; assumption|].
  induction Hfr as [|fr t Hfr1 _ IH]; cbn [flat_map]; [apply all_bytes_nil|].
  apply all_bytes_app; [eapply ser_frame_bytes; exact Hfr1|exact IH].
Qed.

(* ------------------------------------------------------------------ *)
(* (e) an example program *)

(* closed well-formedness goals by computation *)
Ltac wf_go :=
  lazymatch goal with
  | |- True => exact I
  | |- _ /\ _ => split; wf_go
  | |- _ \/ _ => first [solve [left; wf_go] | solve [right; wf_go]]
  | |- Forall ?P ?l =>
      let l' := eval hnf in l in
      change (Forall P l'); first [apply Forall_nil | (apply Forall_cons; wf_go)]
  | |- _ = _ => first [reflexivity | (vm_compute; reflexivity)]
  | |- _ <= _ => vm_compute; discriminate
  | |- _ < _ => vm_compute; reflexivity
  | |- _ => progress hnf; wf_go
  end.

Lemma is_ok_ex {A} (r : res A) : is_ok r = true -> exists a, r = Ok a.
Proof. destruct r as [a|e|s0]; cbn [is_ok]; try discriminate. intros _. exists a. reflexivity. Qed.

Module Example.

Definition ex_header : hfields :=
  {| hf_frames := 2; hf_width := 4; hf_height := 3; hf_depth := 32; hf_default_time := 100;
     hf_transparent := 0; hf_pixel_w := 1; hf_pixel_h := 1 |}.
(* junk in every unused field of the header *)
Definition ex_hjunk : hjunk :=
  {| hj_fsize := [1; 2; 3; 4]; hj_flags := [5; 6; 7; 8]; hj_j2 := [9; 10; 11; 12; 13; 14; 15; 16];
     hj_j3 := [17; 18; 19; 20; 21]; hj_grid := [22; 23; 24; 25; 26; 27; 28; 29]; hj_rsv := repeat 200 84 |}.

Definition mk_layer (flags : Z) (name : list Z) (ty level : Z) : layer :=
  {| l_flags := flags; l_name := name; l_blend := 0; l_opacity := 255; l_type := ty; l_tileset := 0;
     l_level := level; l_ud := None |}.
Definition lay_G := mk_layer 3 [71] 1 0.        (* a group *)
Definition lay_A := mk_layer 1 [65] 0 1.        (* an image layer inside it *)
Definition lay_B := mk_layer 1 [66] 0 0.
Definition ud_hi : userdata := {| ud_text := Some [104; 105]; ud_color := None |}.
Definition ud_red : userdata := {| ud_text := None; ud_color := Some (255, 0, 0, 255) |}.
Definition tag1 : tag := {| t_name := [116; 49]; t_from := 0; t_to := 1; t_repeat := 0; t_dir := 0; t_ud := None |}.
Definition tag2 : tag := {| t_name := [116; 50]; t_from := 1; t_to := 1; t_repeat := 2; t_dir := 2; t_ud := None |}.
Definition key1 : slicekey :=
  {| k_from := 0; k_ox := -1; k_oy := 2; k_w := 3; k_h := 4; k_slice9 := None; k_pivot := Some (1, -1) |}.
Definition key2 : slicekey :=
  {| k_from := 1; k_ox := 5; k_oy := 6; k_w := 7; k_h := 8; k_slice9 := None; k_pivot := Some (0, 0) |}.
Definition slice1 : slice := {| s_name := [115]; s_keys := [key1; key2]; s_ud := None |}.
Definition pal_e0 : palentry := {| pe_rgba := (10, 20, 30, 255); pe_name := None |}.
Definition pal_e1 : palentry := {| pe_rgba := (40, 50, 60, 128); pe_name := Some [114] |}.
Definition cc1 : celcommon := {| cc_layer := 1; cc_x := -1; cc_y := 2; cc_opacity := 255 |}.
Definition j10 : list Z := [1; 2; 3; 4; 5; 6; 7; 8; 9; 10].

Definition ex_frame0 : frame_prog :=
  {| fp_duration := 120; fp_count := CountNew 65535; fp_rsv := [7; 7];
     fp_items :=
       [ IColorProfile 1 0 [1; 1; 1; 1] [2; 2; 2; 2; 2; 2; 2; 2] [];
         IPalette 2 0 [(pal_e0, 0); (pal_e1, 1)] [3; 3; 3; 3; 3; 3; 3; 3] [];
         IOldPalette false [(0, [(1, 2, 3)])] [];                      (* after a new palette: not used *)
         ILayer lay_G 131 [4; 4; 4; 4] [5; 5; 5] [42; 43];               (* flags word 3 + 128; a chunk tail *)
         ILayer lay_A 1 [0; 0; 0; 0] [0; 0; 0] [];
         IUserData ud_hi 1 [];                                          (* belongs to layer A *)
         IIgnorable 8198 [1; 2; 3];
         ILayer lay_B 1 [0; 0; 0; 0] [0; 0; 0] [];
         ITags [(tag1, j10); (tag2, j10)] [6; 6; 6; 6; 6; 6; 6; 6] [];
         IUserData ud_red 2 [];                                         (* belongs to tag 0 *)
         ISlice slice1 2 [8; 8; 8; 8] [];                               (* flags: every key has a pivot *)
         ICelRaw cc1 [9; 9; 9; 9; 9; 9; 9] 2 1 [1; 2; 3; 4; 5; 6; 7; 8] [77] ] |}.

(* the second frame announces its chunks in the old count field only *)
Definition ex_frame1 : frame_prog :=
  {| fp_duration := 80; fp_count := CountOld; fp_rsv := [0; 255];
     fp_items :=
       [ ICelLinked cc1 [0; 0; 0; 0; 0; 0; 0] 0 [];
         ITags [(tag2, j10)] [0; 0; 0; 0; 0; 0; 0; 0] [];               (* not in frame 0: not read *)
         IExternal [((5, [120]), [1; 0; 0; 0; 0; 0; 0; 0])] [0; 0; 0; 0; 0; 0; 0; 0] [] ] |}.

Definition ex_prog : sprite_prog :=
  {| sp_header := ex_header; sp_junk := ex_hjunk; sp_frames := [ex_frame0; ex_frame1] |}.

Example ex_wf : wf_prog ex_prog.
Proof. wf_go. Qed.

Example ex_inflate_ok : inflate_ok no_inflate ex_prog.
Proof. wf_go. Qed.

Example ex_bytes : forallb is_byteb (serialize ex_prog) = true.
Proof. vm_compute. reflexivity. Qed.

Example ex_all_bytes : all_bytes (serialize ex_prog).
Proof. exact (serialize_all_bytes ex_prog ex_wf). Qed.

Example ex_length : zlen (serialize ex_prog) = 614.
Proof. vm_compute. reflexivity. Qed.

(* the model loads it (no inflate needed: nothing is compressed) *)
Definition ex_file : res file := load no_inflate (serialize ex_prog).
Example ex_loads : is_ok ex_file = true.
Proof. vm_compute. reflexivity. Qed.

(* STRUCT facts, computed on the loaded file *)
Example ex_canvas :
  rmap (fun f => (f_width f, f_height f, num_frames f, f_fmt f)) ex_file = Ok (4, 3, 2, FRgba).
Proof. vm_compute. reflexivity. Qed.
Example ex_durations :
  (f <-- ex_file ;;; d0 <-- frame_duration f 0 ;;; d1 <-- frame_duration f 1 ;;; Ok (d0, d1)) = Ok (120, 80).
Proof. vm_compute. reflexivity. Qed.
Example ex_layers :
  rmap (fun f => arr_to_list (f_layers f)) ex_file = Ok [lay_G; set_layer_ud lay_A ud_hi; lay_B].
Proof. vm_compute. reflexivity. Qed.
Example ex_parents :
  rmap (fun f => arr_to_list (f_parents f)) ex_file = Ok [None; Some 0; None].
Proof. vm_compute. reflexivity. Qed.
Example ex_tags : rmap f_tags ex_file = Ok [set_tag_ud tag1 ud_red; tag2].
Proof. vm_compute. reflexivity. Qed.
Example ex_slices : rmap f_slices ex_file = Ok [slice1].
Proof. vm_compute. reflexivity. Qed.
Example ex_palette :
  rmap (fun f => match f_palette f with Some pal => (zfind 0 pal, zfind 1 pal, zfind 2 pal) | None => (None, None, None) end)
       ex_file = Ok (Some pal_e0, Some pal_e1, None).
Proof. vm_compute. reflexivity. Qed.
Example ex_external : rmap (fun f => (zfind 5 (f_ext f), zfind 4 (f_ext f))) ex_file = Ok (Some [120], None).
Proof. vm_compute. reflexivity. Qed.
Example ex_cels :
  rmap (fun f => map (fun fl => match fcel_of f (fst fl) (snd fl) with
                                | Some c => Some (cc_x (c_data c), cc_y (c_data c), is_linked c)
                                | None => None end)
                     [(0, 0); (0, 1); (0, 2); (1, 0); (1, 1); (1, 2)]) ex_file
  = Ok [None; Some (-1, 2, false); None; None; Some (-1, 2, true); None].
Proof. vm_compute. reflexivity. Qed.
Example ex_struct_section : is_ok (f <-- ex_file ;;; Ase.Model.Dump.section_struct f) = true.
Proof. vm_compute. reflexivity. Qed.

(* the same facts through the theorems (tail = nothing) *)
Section ByTheorems.
Variable f : file.
Hypothesis Hf : load no_inflate (serialize ex_prog ++ []) = Ok f.

Example ex_thm_canvas : f_width f = 4 /\ f_height f = 3 /\ f_nframes f = 2 /\ Some FRgba = Some (f_fmt f).
Proof. exact (e2e_canvas no_inflate ex_prog [] f ex_wf ex_inflate_ok Hf). Qed.

Example ex_thm_durations : frame_duration f 0 = Ok 120 /\ frame_duration f 1 = Ok 80.
Proof.
  split; [exact (e2e_durations no_inflate ex_prog [] f ex_wf ex_inflate_ok Hf 0 ex_frame0 eq_refl)
         |exact (e2e_durations no_inflate ex_prog [] f ex_wf ex_inflate_ok Hf 1 ex_frame1 eq_refl)].
Qed.

Example ex_thm_layers : arr_to_list (f_layers f) = [lay_G; set_layer_ud lay_A ud_hi; lay_B].
Proof. rewrite (e2e_layers_in_order no_inflate ex_prog [] f ex_wf ex_inflate_ok Hf). vm_compute. reflexivity. Qed.

Example ex_thm_tags : f_tags f = [set_tag_ud tag1 ud_red; tag2].
Proof. rewrite (e2e_tags_in_order no_inflate ex_prog [] f ex_wf ex_inflate_ok Hf). vm_compute. reflexivity. Qed.

Example ex_thm_slices : f_slices f = [slice1].
Proof. rewrite (e2e_slices_in_order no_inflate ex_prog [] f ex_wf ex_inflate_ok Hf). vm_compute. reflexivity. Qed.

Example ex_thm_external : zfind 5 (f_ext f) = Some [120] /\ zfind 4 (f_ext f) = None.
Proof.
  split; rewrite (e2e_external_lookup no_inflate ex_prog [] f ex_wf ex_inflate_ok Hf) by lia; vm_compute; reflexivity.
Qed.

Example ex_thm_cels :
  (exists c, fcel_of f 0 1 = Some c) /\ (exists c, fcel_of f 1 1 = Some c) /\ fcel_of f 0 0 = None /\ fcel_of f 1 2 = None.
Proof.
  pose proof (e2e_cels no_inflate ex_prog [] f ex_wf ex_inflate_ok Hf) as H.
  pose proof (H 0 1) as H01. pose proof (H 1 1) as H11. pose proof (H 0 0) as H00. pose proof (H 1 2) as H12.
  vm_compute cel_at in H01, H11, H00, H12.
  destruct H01 as (c & Hc & _). destruct H11 as (c' & Hc' & _).
  split; [exists c; exact Hc|]. split; [exists c'; exact Hc'|]. split; assumption.
Qed.
End ByTheorems.

(* the hypothesis of that section is not vacuous *)
Example ex_thm_applicable : exists f, load no_inflate (serialize ex_prog ++ []) = Ok f.
Proof.
  rewrite app_nil_r. apply is_ok_ex. vm_compute. reflexivity.
Qed.

Example ex_summary :
  wf_prog ex_prog /\ inflate_ok (fun _ _ => ZErr 0) ex_prog /\
  exists f, load (fun _ _ => ZErr 0) (serialize ex_prog ++ []) = Ok f.
Proof. exact (conj ex_wf (conj ex_inflate_ok ex_thm_applicable)). Qed.

End Example.
