(* C07, non-vacuity: concrete pairs of files / chunks that differ in one neutral encoding
   choice, compared by evaluation of the model; the theorems of Proofs/Neutral.v applied to
   concrete arguments (their hypotheses can be met); a toy decompressor that satisfies the
   premise `inflate_ignores_tail`. *)
From Ase Require Import Model.Validate Spec.EncodeChunks Spec.Framing.
From Ase Require Import Proofs.ITLemmas Proofs.Truncation Proofs.Factor Proofs.RoundTrip Proofs.Neutral.

(* split a well-formedness predicate down to closed atoms, then evaluate each *)
Ltac wf_tac :=
  repeat (first [apply Forall_cons | apply Forall_nil | split]);
  try (vm_compute; first [reflexivity | (intro; discriminate) | exact I]).

Definition ex_h (nframes depth pw ph : Z) : hfields :=
  {| hf_frames := nframes; hf_width := 1; hf_height := 1; hf_depth := depth; hf_default_time := 100;
     hf_transparent := 0; hf_pixel_w := pw; hf_pixel_h := ph |}.
(* all-zero junk, and junk with something in every unused field *)
Definition ex_hdr (h : hfields) : list Z :=
  enc_header h (repeat 0 4) (repeat 0 4) (repeat 0 8) (repeat 0 5) (repeat 0 8) (repeat 0 84).
Definition ex_hdr_junk (h : hfields) : list Z :=
  enc_header h [1; 2; 3; 4] [255; 255; 255; 255] (repeat 7 8) [9; 9; 9; 1; 0] (repeat 3 8) (repeat 200 84).
(* a frame whose header says what follows, count in both fields *)
Definition std_frame (dur : Z) (chunks : list rawchunk) : list Z :=
  enc_frame (16 + chunks_size chunks) (zlen chunks) dur [0; 0] (zlen chunks) chunks.

Definition ex_layer_chunk : rawchunk := (8196, layer_payload 0 0).
Definition ex_ud_chunk : rawchunk := (8224, ud_payload).
Definition ex_cel_chunk : rawchunk := (8197, cel_payload 0).
Definition ex_chunks : list rawchunk := [ex_layer_chunk; ex_ud_chunk; ex_cel_chunk].
Definition ex_file (chunks : list rawchunk) : list Z := ex_hdr (ex_h 1 32 1 1) ++ std_frame 70 chunks.

Example ex_file_loads : is_ok (load no_inflate (ex_file ex_chunks)) = true.
Proof. vm_compute. reflexivity. Qed.
Example ex_file_bytes : forallb is_byteb (ex_file ex_chunks) = true.
Proof. vm_compute. reflexivity. Qed.

(* 1. bytes after the last frame *)
Example ex_trailer :
  load no_inflate (ex_file ex_chunks ++ [1; 2; 3]) = load no_inflate (ex_file ex_chunks) /\
  load no_inflate (ex_file ex_chunks ++ repeat 255 40) = load no_inflate (ex_file ex_chunks).
Proof. split; vm_compute; reflexivity. Qed.

(* 2. a mask chunk, a cel-extra chunk, a path chunk between the layer and its user data *)
Example ex_ignorable :
  load no_inflate (ex_file [ex_layer_chunk; (8214, [1; 2; 3]); (8198, []); ex_ud_chunk; (8215, [9]); ex_cel_chunk])
  = load no_inflate (ex_file ex_chunks).
Proof. vm_compute. reflexivity. Qed.

(* 3. an sRGB and a "none" colour-profile chunk, junk in their unused fields *)
Example ex_color_profile :
  load no_inflate (ex_file [(8199, enc_color_profile 1 2 [1; 2; 3; 4] (repeat 9 8)); ex_layer_chunk; ex_ud_chunk;
                            (8199, enc_color_profile 0 0 (repeat 0 4) (repeat 0 8) ++ [5; 5]); ex_cel_chunk])
  = load no_inflate (ex_file ex_chunks).
Proof. vm_compute. reflexivity. Qed.
(* whereas an ICC profile is refused *)
Example ex_color_profile_icc :
  load no_inflate (ex_file [(8199, enc_color_profile 2 0 (repeat 0 4) (repeat 0 8)); ex_layer_chunk; ex_cel_chunk])
  = Err EUnsupported.
Proof. vm_compute. reflexivity. Qed.

(* 4. bytes after the payload inside the layer, user-data and raw-cel chunks *)
Example ex_chunk_tail :
  load no_inflate (ex_file [(8196, layer_payload 0 0 ++ [1; 2; 3]); (8224, ud_payload ++ [4]); (8197, cel_payload 0 ++ [5; 6])])
  = load no_inflate (ex_file ex_chunks).
Proof. vm_compute. reflexivity. Qed.

(* 5. unused header fields; unused layer fields (flag bits 7.., default size, reserved) *)
Example ex_header_junk :
  load no_inflate (ex_hdr_junk (ex_h 1 32 1 1) ++ std_frame 70 ex_chunks) = load no_inflate (ex_file ex_chunks).
Proof. vm_compute. reflexivity. Qed.

Definition ex_layer : layer :=
  {| l_flags := 1; l_name := [76]; l_blend := 0; l_opacity := 255; l_type := 0; l_tileset := 0; l_level := 0;
     l_ud := None |}.
Example ex_layer_fields :
  load no_inflate (ex_file [(8196, enc_layer ex_layer (1 + 128 * 77) [1; 2; 3; 4] [5; 6; 7]); ex_ud_chunk; ex_cel_chunk])
  = load no_inflate (ex_file [(8196, enc_layer ex_layer 1 (repeat 0 4) (repeat 0 3)); ex_ud_chunk; ex_cel_chunk]).
Proof. vm_compute. reflexivity. Qed.
Example ex_layer_fields_thm :
  run_payload dec_layer (enc_layer ex_layer (1 + 128 * 77) [1; 2; 3; 4] [5; 6; 7] ++ [8])
  = run_payload dec_layer (enc_layer ex_layer 1 (repeat 0 4) (repeat 0 3) ++ []).
Proof.
  apply layer_junk; try reflexivity; wf_tac.
Qed.

(* 6. the pixel ratio: 1:1, a zero width, a zero height, both zero; 2:1 is refused *)
Example ex_pixel_ratio :
  map (fun r => load no_inflate (ex_hdr (ex_h 1 32 (fst r) (snd r)) ++ std_frame 70 ex_chunks))
      [(0, 7); (5, 0); (0, 0); (0, 255)]
  = repeat (load no_inflate (ex_file ex_chunks)) 4.
Proof. vm_compute. reflexivity. Qed.
Example ex_pixel_ratio_refused :
  load no_inflate (ex_hdr (ex_h 1 32 2 1) ++ std_frame 70 ex_chunks) = Err EUnsupported.
Proof. vm_compute. reflexivity. Qed.
Example ex_pixel_ratio_thm t :
  load no_inflate (ex_hdr (set_ratio (ex_h 1 32 1 1) 0 7) ++ t) = load no_inflate (ex_hdr (set_ratio (ex_h 1 32 1 1) 1 1) ++ t).
Proof.
  apply pixel_ratio_load.
  - wf_tac; [right; right; reflexivity|right; right; split; reflexivity].
  - wf_tac. left. reflexivity.
  - wf_tac. right. right. split; reflexivity.
  - repeat split.
Qed.

(* 7. the chunk count: in the old field only, in both, in the new field with 65535 in the old *)
Definition ex_frame_counts (old new : Z) (rsv : list Z) : list Z :=
  enc_frame (16 + chunks_size ex_chunks) old 70 rsv new ex_chunks.
Example ex_count_field :
  load no_inflate (ex_hdr (ex_h 1 32 1 1) ++ ex_frame_counts 3 0 [0; 0]) = load no_inflate (ex_file ex_chunks) /\
  load no_inflate (ex_hdr (ex_h 1 32 1 1) ++ ex_frame_counts 65535 3 [7; 7]) = load no_inflate (ex_file ex_chunks) /\
  load no_inflate (ex_hdr (ex_h 1 32 1 1) ++ ex_frame_counts 0 3 [0; 0]) = load no_inflate (ex_file ex_chunks).
Proof. split; [|split]; vm_compute; reflexivity. Qed.

(* 8. a toy decompressor with two encodings of the same bytes ("compression levels"):
   0, n, b1 .. bn = stored;  1, n, b = the byte b repeated n times *)
Definition toy_inflate (z : list Z) (limit : Z) : zres :=
  match z with
  | 0 :: len :: rest => if zlen rest <? len then ZErr 1 else ZOk (firstn (Z.to_nat (Z.min len limit)) rest)
  | 1 :: len :: b :: _ => ZOk (repeat b (Z.to_nat (Z.min len limit)))
  | _ => ZErr 2
  end.

(* it satisfies the premise of the chunk-tail theorems *)
Lemma toy_inflate_ignores_tail : inflate_ignores_tail toy_inflate.
Proof.
  intros z t n out. destruct z as [|k z]; [discriminate|].
  destruct k as [|[k|k|]|k]; try discriminate; cbn [toy_inflate app].
  - destruct z as [|len rest]; [discriminate|]. cbn [app]. rewrite zlen_app.
    destruct (Z.ltb_spec (zlen rest) len) as [Hlt|Hge]; [discriminate|].
    intros [= <-]. pose proof (zlen_nonneg t) as Ht.
    destruct (Z.ltb_spec (zlen rest + zlen t) len) as [Hlt2|_]; [lia|].
    rewrite firstn_app.
    replace (Z.to_nat (Z.min len n) - length rest)%nat with 0%nat by (unfold zlen in Hge; lia).
    cbn [firstn]. now rewrite app_nil_r.
  - destruct z as [|len [|b rest]]; try discriminate. cbn [app]. intros H. exact H.
Qed.

Definition ex_cc : celcommon := {| cc_layer := 0; cc_x := 0; cc_y := 0; cc_opacity := 255 |}.
Definition ex_cel_raw : rawchunk := (8197, enc_cel_raw ex_cc (repeat 0 7) 1 1 [7; 7; 7; 7]).
Definition ex_cel_stored : rawchunk := (8197, enc_cel_zimage ex_cc (repeat 1 7) 1 1 [0; 4; 7; 7; 7; 7]).
Definition ex_cel_rle : rawchunk := (8197, enc_cel_zimage ex_cc (repeat 2 7) 1 1 [1; 4; 7] ++ [9; 9]).

Example ex_raw_vs_zlib :
  is_ok (load toy_inflate (ex_file [ex_layer_chunk; ex_cel_raw])) = true /\
  load toy_inflate (ex_file [ex_layer_chunk; ex_cel_stored]) = load toy_inflate (ex_file [ex_layer_chunk; ex_cel_raw]) /\
  load toy_inflate (ex_file [ex_layer_chunk; ex_cel_rle]) = load toy_inflate (ex_file [ex_layer_chunk; ex_cel_raw]).
Proof. split; [|split]; vm_compute; reflexivity. Qed.
Example ex_raw_vs_zlib_thm :
  dec_cel toy_inflate FRgba (enc_cel_raw ex_cc (repeat 0 7) 1 1 [7; 7; 7; 7] ++ [])
  = dec_cel toy_inflate FRgba (enc_cel_zimage ex_cc (repeat 2 7) 1 1 [1; 4; 7] ++ [9; 9]).
Proof. apply raw_vs_zlib; try reflexivity. repeat split; vm_compute; first [reflexivity | (intro; discriminate)]. Qed.

(* 9. a legacy palette chunk before or after the new-format one (indexed sprite) *)
Definition ex_pal_new : rawchunk :=
  (8217, enc_palette 1 0 [({| pe_rgba := (10, 20, 30, 255); pe_name := None |}, 0)] (repeat 0 8)).
Definition ex_pal_old : rawchunk := (4, enc_old_palette [(0, [(1, 2, 3); (4, 5, 6)])]).
Definition ex_cel_indexed : rawchunk := (8197, enc_cel_raw ex_cc (repeat 0 7) 1 1 [0]).
Definition ex_file8 (chunks : list rawchunk) : list Z := ex_hdr (ex_h 1 8 1 1) ++ std_frame 70 chunks.
Example ex_legacy_palette :
  is_ok (load no_inflate (ex_file8 [ex_pal_new; ex_layer_chunk; ex_cel_indexed])) = true /\
  load no_inflate (ex_file8 [ex_pal_new; ex_pal_old; ex_layer_chunk; ex_cel_indexed])
  = load no_inflate (ex_file8 [ex_pal_new; ex_layer_chunk; ex_cel_indexed]) /\
  load no_inflate (ex_file8 [ex_pal_old; ex_pal_new; ex_layer_chunk; ex_cel_indexed])
  = load no_inflate (ex_file8 [ex_pal_new; ex_layer_chunk; ex_cel_indexed]) /\
  load no_inflate (ex_file8 [ex_layer_chunk; ex_pal_old; ex_cel_indexed; ex_pal_new])
  = load no_inflate (ex_file8 [ex_pal_new; ex_layer_chunk; ex_cel_indexed]).
Proof. split; [|split; [|split]]; vm_compute; reflexivity. Qed.

(* 10. two cel chunks (layers 0 and 1) in either order *)
Definition ex_cc1 : celcommon := {| cc_layer := 1; cc_x := 0; cc_y := 0; cc_opacity := 128 |}.
Definition ex_cel0 : rawchunk := (8197, enc_cel_raw ex_cc (repeat 0 7) 1 1 [1; 2; 3; 4]).
Definition ex_cel1 : rawchunk := (8197, enc_cel_raw ex_cc1 (repeat 0 7) 1 1 [5; 6; 7; 8]).
Example ex_cel_order :
  is_ok (load no_inflate (ex_file [ex_layer_chunk; ex_layer_chunk; ex_cel0; ex_cel1])) = true /\
  load no_inflate (ex_file [ex_layer_chunk; ex_layer_chunk; ex_cel1; ex_cel0])
  = load no_inflate (ex_file [ex_layer_chunk; ex_layer_chunk; ex_cel0; ex_cel1]).
Proof. split; vm_compute; reflexivity. Qed.

(* 11. the file-level theorem applied: a two-frame file, a mask chunk inserted in frame 1;
   F = the bytes of frame 0 *)
Definition ex_frame0 : list Z := std_frame 70 ex_chunks.
Example ex_neutral_chunk_file_thm rest :
  load no_inflate (ex_hdr (ex_h 2 32 1 1) ++ ex_frame0 ++ std_frame 30 ([ex_cel_chunk] ++ (8214, [1; 2; 3]) :: []) ++ rest)
  = load no_inflate (ex_hdr (ex_h 2 32 1 1) ++ ex_frame0 ++ std_frame 30 ([ex_cel_chunk] ++ []) ++ rest).
Proof.
  destruct (run_times 1 (parse_frames_step no_inflate FRgba) (pinfo_new 2 100, 0) ex_frame0) as [[st r]|e|s] eqn:R;
    [|exfalso; revert R; vm_compute; discriminate ..].
  assert (r = []) as ->.
  { assert (rmap snd (run_times 1 (parse_frames_step no_inflate FRgba) (pinfo_new 2 100, 0) ex_frame0) = Ok [])
      as E by (vm_compute; reflexivity).
    rewrite R in E. cbn [rmap rbind snd] in E. now injection E. }
  unfold std_frame.
  apply (neutral_chunk_file no_inflate (ex_h 2 32 1 1) _ _ _ _ _ _ FRgba ex_frame0 1 st 30).
  - wf_tac; [right; right; reflexivity|right; right; split; reflexivity].
  - repeat split.
  - reflexivity.
  - exact R.
  - vm_compute. lia.
  - unfold wf_frame. split; [reflexivity|]. split; [vm_compute; reflexivity|]. split.
    + apply Forall_cons; [split; vm_compute; reflexivity|].
      apply Forall_cons; [split; vm_compute; reflexivity|]. apply Forall_nil.
    + vm_compute. intro; discriminate.
  - unfold wf_frame. split; [reflexivity|]. split; [vm_compute; reflexivity|]. split.
    + apply Forall_cons; [split; vm_compute; reflexivity|]. apply Forall_nil.
    + vm_compute. intro; discriminate.
  - apply ignorable_neutral. right. left. reflexivity.
Qed.

(* 12. the count-field theorem applied (first frame: F = [], j = 0), for every frame size,
   every chunk count n > 0 and every continuation *)
Example ex_count_field_thm nb n rest :
  0 < n ->
  load no_inflate (ex_hdr (ex_h 1 32 1 1) ++ [] ++ enc_frame_hdr nb n 70 [0; 0] 0 ++ rest)
  = load no_inflate (ex_hdr (ex_h 1 32 1 1) ++ [] ++ enc_frame_hdr nb 65535 70 [7; 7] n ++ rest).
Proof.
  intros Hn.
  apply (count_field_load no_inflate (ex_h 1 32 1 1) _ _ _ _ _ _ FRgba [] 0 (pinfo_new 1 100, 0)).
  - wf_tac; [right; right; reflexivity|right; right; split; reflexivity].
  - repeat split.
  - reflexivity.
  - reflexivity.
  - vm_compute. lia.
  - lia.
  - reflexivity.
  - reflexivity.
Qed.

(* 13. the general legacy-palette theorem applied to the chunk lists of example 9 *)
Example ex_legacy_palette_thm p1 p2 :
  rfold (process_chunk no_inflate (FIndexed 0) 0) ([ex_layer_chunk] ++ ex_pal_old :: [ex_cel_indexed; ex_pal_new])
        (pinfo_new 1 100) = Ok p1 ->
  rfold (process_chunk no_inflate (FIndexed 0) 0) ([ex_layer_chunk] ++ [ex_cel_indexed; ex_pal_new])
        (pinfo_new 1 100) = Ok p2 ->
  pi_palette p1 = pi_palette p2.
Proof.
  apply (legacy_palette_anywhere no_inflate (FIndexed 0) 0 (pinfo_new 1 100) 4 _ (snd ex_pal_new)).
  - left. reflexivity.
  - right. right. left. reflexivity.
Qed.
Example ex_legacy_palette_thm_nonvacuous :
  is_ok (rfold (process_chunk no_inflate (FIndexed 0) 0) ([ex_layer_chunk] ++ ex_pal_old :: [ex_cel_indexed; ex_pal_new])
               (pinfo_new 1 100)) = true /\
  is_ok (rfold (process_chunk no_inflate (FIndexed 0) 0) ([ex_layer_chunk] ++ [ex_cel_indexed; ex_pal_new])
               (pinfo_new 1 100)) = true.
Proof. split; vm_compute; reflexivity. Qed.
