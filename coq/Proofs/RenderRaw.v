(* Per-pixel characterisation of write_raw (write_raw_cel_to_image) and write_tilemap
   (write_tilemap_cel_to_image).

   The loops are handled compositionally.  `writes W H t D R` says that the image
   transformer `t`, whenever it returns, keeps the dimensions, blends the source pixel
   given by the relation R onto every canvas position where R offers one, leaves all
   other positions alone, and that R offers a pixel everywhere on D.  A fold of
   transformers with pairwise disjoint R's is again such a transformer (writes_fold);
   the two nested loops of write_raw and the four of write_tilemap are instances. *)
From Ase Require Import Base.Prelude Model.Render Proofs.ArrLemmas Proofs.ImageLemmas.

Lemma blend_put_spec img mode x y p op img' :
  blend_put img mode x y p op = Ok img' -> 0 <= x < iw img -> 0 <= y ->
  iw img' = iw img /\ ih img' = ih img /\
  Some (img_get img' x y) = blend mode (img_get img x y) p op /\
  forall x' y', 0 <= x' < iw img -> 0 <= y' -> (x', y') <> (x, y) -> img_get img' x' y' = img_get img x' y'.
Proof.
  unfold blend_put. intros H Hx Hy. destruct (blend mode (img_get img x y) p op) as [q|] eqn:E; [|discriminate].
  injection H as <-. split; [reflexivity|]. split; [reflexivity|]. split.
  - rewrite img_get_put_same. reflexivity.
  - intros x' y' Hx' Hy' Hne. apply img_get_put_other; try assumption. intros E'. apply Hne. congruence.
Qed.

Lemma blend_put_okp img mode x y p op :
  (exists img', blend_put img mode x y p op = Ok img') \/ blend_put img mode x y p op = Panic 302.
Proof. unfold blend_put. destruct (blend mode (img_get img x y) p op); [left; eauto|right; reflexivity]. Qed.

(* results that are a value or the blend panic *)
Definition okp (r : res image) : Prop := (exists i, r = Ok i) \/ r = Panic 302.

Lemma okp_ok i : okp (Ok i).
Proof. left. eauto. Qed.

Lemma rfold_okp {A} (f : image -> A -> res image) l : forall b,
  (forall b a, In a l -> okp (f b a)) -> okp (rfold f l b).
Proof.
  induction l as [|x t IH]; intros b H; cbn [rfold]; [apply okp_ok|].
  destruct (H b x (or_introl eq_refl)) as [[b' E]|E]; rewrite E; cbn [rbind]; [|right; reflexivity].
  apply IH. intros b0 a Ha. apply H. right. exact Ha.
Qed.

Lemma ziota_NoDup n : NoDup (ziota n).
Proof. apply zrange_NoDup. Qed.

(* the decomposition d = a*t + r, 0 <= r < t, is unique *)
Lemma tile_decomp_unique t d a b : 0 <= d - a * t < t -> 0 <= d - b * t < t -> a = b.
Proof.
  intros Ha Hb. assert (H : a * t + (d - a * t) = b * t + (d - b * t)) by lia.
  apply lin_inj in H; [|lia|lia]. destruct H as [_ H]. exact H.
Qed.

Section Writes.
Variables mode op : Z.

Definition writes (W H : Z) (t : image -> res image) (D : Z -> Z -> Prop) (R : Z -> Z -> pixel -> Prop) : Prop :=
  forall img img', iw img = W -> ih img = H -> t img = Ok img' ->
    iw img' = W /\ ih img' = H /\
    forall x y, 0 <= x < W -> 0 <= y < H ->
      (forall p, R x y p -> Some (img_get img' x y) = blend mode (img_get img x y) p op) /\
      ((forall p, ~ R x y p) -> img_get img' x y = img_get img x y) /\
      (D x y -> exists p, R x y p).

Lemma writes_skip W H (t : image -> res image) (D : Z -> Z -> Prop) (R : Z -> Z -> pixel -> Prop) :
  (forall img, iw img = W -> ih img = H -> t img = Ok img) ->
  (forall x y p, 0 <= x < W -> 0 <= y < H -> ~ R x y p) ->
  (forall x y, 0 <= x < W -> 0 <= y < H -> ~ D x y) ->
  writes W H t D R.
Proof.
  intros Ht HR HD img img' Hw Hh E. rewrite Ht in E by assumption. injection E as <-.
  split; [exact Hw|]. split; [exact Hh|]. intros x y Hx Hy. split; [|split].
  - intros p Hp. exfalso. exact (HR x y p Hx Hy Hp).
  - intros _. reflexivity.
  - intros Hd. exfalso. exact (HD x y Hx Hy Hd).
Qed.

(* change of description *)
Lemma writes_weaken W H t t' (D D' : Z -> Z -> Prop) (R R' : Z -> Z -> pixel -> Prop) :
  writes W H t D R ->
  (forall img, iw img = W -> ih img = H -> t' img = t img) ->
  (forall x y p, 0 <= x < W -> 0 <= y < H -> (R' x y p <-> R x y p)) ->
  (forall x y, 0 <= x < W -> 0 <= y < H -> D' x y -> D x y) ->
  writes W H t' D' R'.
Proof.
  intros Hwr Ht HR HD img img' Hw Hh E. rewrite Ht in E by assumption.
  destruct (Hwr img img' Hw Hh E) as (Hw' & Hh' & Hpx). split; [exact Hw'|]. split; [exact Hh'|].
  intros x y Hx Hy. destruct (Hpx x y Hx Hy) as (H1 & H2 & H3). split; [|split].
  - intros p Hp. apply H1. apply (HR x y p Hx Hy). exact Hp.
  - intros Hn. apply H2. intros p Hp. apply (Hn p). apply (HR x y p Hx Hy). exact Hp.
  - intros Hd. destruct (H3 (HD x y Hx Hy Hd)) as (p & Hp). exists p. apply (HR x y p Hx Hy). exact Hp.
Qed.

(* one blended pixel *)
Lemma writes_put W H x0 y0 src : 0 <= x0 < W -> 0 <= y0 < H ->
  writes W H (fun img => blend_put img mode x0 y0 src op)
         (fun x y => x = x0 /\ y = y0) (fun x y p => x = x0 /\ y = y0 /\ p = src).
Proof.
  intros Hx0 Hy0 img img' Hw Hh E.
  destruct (blend_put_spec _ _ _ _ _ _ _ E ltac:(lia) ltac:(lia)) as (Hw' & Hh' & Hs & Ho).
  split; [lia|]. split; [lia|]. intros x y Hx Hy. split; [|split].
  - intros p (-> & -> & ->). exact Hs.
  - intros Hn. apply Ho; [lia|lia|]. intros E'. injection E' as -> ->. apply (Hn src). repeat split.
  - intros (-> & ->). exists src. repeat split.
Qed.

(* a fold of writers with pairwise disjoint footprints *)
Theorem writes_fold {A} W H (step : image -> A -> res image) (l : list A)
        (D : A -> Z -> Z -> Prop) (R : A -> Z -> Z -> pixel -> Prop) :
  NoDup l ->
  (forall a, In a l -> writes W H (fun img => step img a) (D a) (R a)) ->
  (forall a b x y p q, In a l -> In b l -> a <> b -> 0 <= x < W -> 0 <= y < H -> R a x y p -> R b x y q -> False) ->
  writes W H (rfold step l) (fun x y => exists a, In a l /\ D a x y) (fun x y p => exists a, In a l /\ R a x y p).
Proof.
  induction l as [|a t IH]; intros Hnd Hstep Hdisj.
  - intros img img' Hw Hh E. cbn [rfold] in E. injection E as <-. split; [exact Hw|]. split; [exact Hh|].
    intros x y Hx Hy. split; [|split].
    + intros p (a & [] & _).
    + intros _. reflexivity.
    + intros (a & [] & _).
  - inversion Hnd as [|a' t' Hnotin Hnd']; subst a' t'.
    assert (IHt : writes W H (rfold step t) (fun x y => exists a0, In a0 t /\ D a0 x y)
                         (fun x y p => exists a0, In a0 t /\ R a0 x y p)).
    { apply IH; [exact Hnd'| |].
      - intros a0 Ha0. apply Hstep. right. exact Ha0.
      - intros a0 b x y p q Ha0 Hb. apply Hdisj; right; assumption. }
    intros img img' Hw Hh E. rewrite rfold_cons in E. apply rbind_ok_inv in E as (img1 & E1 & E2).
    destruct (Hstep a (or_introl eq_refl) img img1 Hw Hh E1) as (Hw1 & Hh1 & Hpx1).
    destruct (IHt img1 img' Hw1 Hh1 E2) as (Hw' & Hh' & Hpx').
    split; [exact Hw'|]. split; [exact Hh'|]. intros x y Hx Hy.
    destruct (Hpx1 x y Hx Hy) as (A1 & A2 & A3). destruct (Hpx' x y Hx Hy) as (B1 & B2 & B3).
    split; [|split].
    + intros p (a0 & [<-|Hin] & Hr).
      * (* written by the head, untouched by the tail *)
        rewrite B2; [apply A1; exact Hr|]. intros q (b & Hb & Hq).
        apply (Hdisj a b x y p q); [left; reflexivity|right; exact Hb| |exact Hx|exact Hy|exact Hr|exact Hq].
        intros ->. contradiction.
      * (* untouched by the head, written by the tail *)
        rewrite <- A2; [apply B1; exists a0; split; assumption|]. intros q Hq.
        apply (Hdisj a a0 x y q p); [left; reflexivity|right; exact Hin| |exact Hx|exact Hy|exact Hq|exact Hr].
        intros ->. contradiction.
    + intros Hn. rewrite B2; [apply A2|].
      * intros p Hp. apply (Hn p). exists a. split; [left; reflexivity|exact Hp].
      * intros p (b & Hb & Hp). apply (Hn p). exists b. split; [right; exact Hb|exact Hp].
    + intros (a0 & [<-|Hin] & Hd).
      * destruct (A3 Hd) as (p & Hp). exists p, a. split; [left; reflexivity|exact Hp].
      * destruct (B3 (ex_intro _ a0 (conj Hin Hd))) as (p & b & Hb & Hp). exists p, b. split; [right; exact Hb|exact Hp].
Qed.

(* a guard that returns before writing anything *)
Lemma writes_guard W H (t : image -> res image) D R (c : image -> bool) (r : res image) :
  writes W H t D R -> (forall img, r <> Ok img) ->
  writes W H (fun img => if c img then r else t img) D R.
Proof.
  intros Hwr Hr img img' Hw Hh E. destruct (c img); [exfalso; exact (Hr img' E)|]. exact (Hwr img img' Hw Hh E).
Qed.

(* ------------------------------------------------------------------ *)
(* write_raw *)

Section Raw.
Variables (x0 y0 w h : Z) (px : arr pixel).

Definition raw_px (y : Z) (img : image) (x : Z) : res image :=
  if (x <? 0) || (iw img <=? x) then Ok img else
  match aget px ((y - y0) * w + (x - x0)) with
  | None => Panic 303
  | Some p => blend_put img mode x y p op
  end.
Definition raw_row (img : image) (y : Z) : res image :=
  if (y <? 0) || (ih img <=? y) then Ok img else rfold (raw_px y) (zrange x0 (Z.to_nat w)) img.

Definition raw_src (x y : Z) : option pixel := aget px ((y - y0) * w + (x - x0)).
Definition raw_inside (x y : Z) : Prop := x0 <= x < x0 + w /\ y0 <= y < y0 + h.

Lemma writes_raw_px W H y x : 0 <= y < H ->
  writes W H (fun img => raw_px y img x) (fun x' y' => x' = x /\ y' = y)
         (fun x' y' p => x' = x /\ y' = y /\ raw_src x y = Some p).
Proof.
  intros Hy. destruct (Z.ltb_spec x 0) as [Hx0|Hx0]; [|destruct (Z.leb_spec W x) as [HxW|HxW]].
  - apply writes_skip.
    + intros img Hw Hh. unfold raw_px. destruct (Z.ltb_spec x 0); [reflexivity|lia].
    + intros x' y' p Hx' Hy' (-> & _). lia.
    + intros x' y' Hx' Hy' (-> & _). lia.
  - apply writes_skip.
    + intros img Hw Hh. unfold raw_px. rewrite Hw. destruct (Z.leb_spec W x); [|lia]. rewrite orb_true_r. reflexivity.
    + intros x' y' p Hx' Hy' (-> & _). lia.
    + intros x' y' Hx' Hy' (-> & _). lia.
  - destruct (raw_src x y) as [p|] eqn:Es.
    + eapply writes_weaken; [apply (writes_put W H x y p); lia| | |].
      * intros img Hw Hh. unfold raw_px. rewrite Hw. destruct (Z.ltb_spec x 0); [lia|]. destruct (Z.leb_spec W x); [lia|].
        cbn [orb]. unfold raw_src in Es. rewrite Es. reflexivity.
      * intros x' y' q _ _. split.
        -- intros (-> & -> & Hq). injection Hq as ->. repeat split.
        -- intros (-> & -> & ->). repeat split.
      * intros x' y' _ _ Hd. exact Hd.
    + intros img img' Hw Hh E. exfalso. unfold raw_px in E. rewrite Hw in E.
      destruct (Z.ltb_spec x 0); [lia|]. destruct (Z.leb_spec W x); [lia|]. cbn [orb] in E.
      unfold raw_src in Es. rewrite Es in E. discriminate.
Qed.

Lemma writes_raw_row W H y :
  writes W H (fun img => raw_row img y)
         (fun x' y' => y' = y /\ x0 <= x' < x0 + w)
         (fun x' y' p => y' = y /\ x0 <= x' < x0 + w /\ raw_src x' y' = Some p).
Proof.
  destruct (Z.ltb_spec y 0) as [Hy0|Hy0]; [|destruct (Z.leb_spec H y) as [HyH|HyH]].
  - apply writes_skip.
    + intros img Hw Hh. unfold raw_row. destruct (Z.ltb_spec y 0); [reflexivity|lia].
    + intros x' y' p Hx' Hy' (-> & _). lia.
    + intros x' y' Hx' Hy' (-> & _). lia.
  - apply writes_skip.
    + intros img Hw Hh. unfold raw_row. rewrite Hh. destruct (Z.leb_spec H y); [|lia]. rewrite orb_true_r. reflexivity.
    + intros x' y' p Hx' Hy' (-> & _). lia.
    + intros x' y' Hx' Hy' (-> & _). lia.
  - eapply writes_weaken;
      [apply (writes_fold W H (raw_px y) (zrange x0 (Z.to_nat w))
                          (fun x x' y' => x' = x /\ y' = y)
                          (fun x x' y' p => x' = x /\ y' = y /\ raw_src x y = Some p))| | |].
    + apply zrange_NoDup.
    + intros x _. apply writes_raw_px. lia.
    + intros a b x' y' p q _ _ Hab _ _ (-> & _) (-> & _). apply Hab. reflexivity.
    + intros img Hw Hh. unfold raw_row. rewrite Hh. destruct (Z.ltb_spec y 0); [lia|]. destruct (Z.leb_spec H y); [lia|].
      reflexivity.
    + intros x' y' p _ _. split.
      * intros (-> & Hx & Hs). exists x'. split; [apply in_zrange; lia|]. repeat split. exact Hs.
      * intros (x & Hin & -> & -> & Hs). apply in_zrange in Hin. split; [reflexivity|]. split; [lia|exact Hs].
    + intros x' y' _ _ (-> & Hx). exists x'. split; [apply in_zrange; lia|]. split; reflexivity.
Qed.

Lemma writes_raw_rows W H :
  writes W H (rfold raw_row (zrange y0 (Z.to_nat h)))
         raw_inside (fun x y p => raw_inside x y /\ raw_src x y = Some p).
Proof.
  eapply writes_weaken;
    [apply (writes_fold W H raw_row (zrange y0 (Z.to_nat h))
                        (fun y x' y' => y' = y /\ x0 <= x' < x0 + w)
                        (fun y x' y' p => y' = y /\ x0 <= x' < x0 + w /\ raw_src x' y' = Some p))| | |].
  - apply zrange_NoDup.
  - intros y _. apply writes_raw_row.
  - intros a b x' y' p q _ _ Hab _ _ (-> & _) (-> & _). apply Hab. reflexivity.
  - intros img _ _. reflexivity.
  - intros x' y' p _ _. unfold raw_inside. split.
    + intros ((Hx & Hy) & Hs). exists y'. split; [apply in_zrange; lia|]. split; [reflexivity|]. split; [exact Hx|exact Hs].
    + intros (y & Hin & -> & Hx & Hs). apply in_zrange in Hin. split; [split; [exact Hx|lia]|exact Hs].
  - intros x' y' _ _ (Hx & Hy). exists y'. split; [apply in_zrange; lia|]. split; [reflexivity|exact Hx].
Qed.

(* the source index is in range when the buffer has w*h pixels *)
Lemma raw_index_range x y : 0 <= w -> x0 <= x < x0 + w -> y0 <= y < y0 + h ->
  0 <= (y - y0) * w + (x - x0) < w * h.
Proof.
  intros Hw Hx Hy.
  assert (H1 : 0 <= (y - y0) * w) by (apply Z.mul_nonneg_nonneg; lia).
  assert (H2 : (y - y0 + 1) * w <= h * w) by (apply Z.mul_le_mono_nonneg_r; lia).
  rewrite Z.mul_add_distr_r in H2. rewrite (Z.mul_comm w h). lia.
Qed.

Lemma raw_px_okp y img x :
  (forall i, 0 <= i < w * h -> aget px i <> None) -> 0 <= w -> x0 <= x < x0 + w -> y0 <= y < y0 + h ->
  okp (raw_px y img x).
Proof.
  intros Hfull Hw Hx Hy. unfold raw_px. destruct ((x <? 0) || (iw img <=? x)); [apply okp_ok|].
  pose proof (raw_index_range x y Hw Hx Hy) as Hr. specialize (Hfull _ Hr).
  destruct (aget px ((y - y0) * w + (x - x0))) as [p|]; [apply blend_put_okp|contradiction].
Qed.

Lemma raw_rows_okp img :
  (forall i, 0 <= i < w * h -> aget px i <> None) -> 0 <= w ->
  okp (rfold raw_row (zrange y0 (Z.to_nat h)) img).
Proof.
  intros Hfull Hw. apply rfold_okp. intros b y Hy. apply in_zrange in Hy. unfold raw_row.
  destruct ((y <? 0) || (ih b <=? y)); [apply okp_ok|]. apply rfold_okp. intros b' x Hx. apply in_zrange in Hx.
  apply raw_px_okp; [exact Hfull|exact Hw|lia|lia].
Qed.

End Raw.
(* ------------------------------------------------------------------ *)
(* write_tilemap *)

Section Tilemap.
Variables (cx cy : Z) (tm : tilemapdata) (tw th : Z) (px : arr pixel).

Definition tm_px (tile_x tile_y start pixel_y : Z) (img : image) (pixel_x : Z) : res image :=
  match aget px (start + (pixel_y * tw + pixel_x)) with
  | None => Panic 306
  | Some p =>
      let image_x := tile_x * tw + pixel_x + cx in
      let image_y := tile_y * th + pixel_y + cy in
      if (0 <=? image_x) && (image_x <? iw img) && (0 <=? image_y) && (image_y <? ih img)
      then blend_put img mode image_x image_y p op
      else Ok img
  end.
Definition tm_prow (tile_x tile_y start : Z) (img : image) (pixel_y : Z) : res image :=
  rfold (tm_px tile_x tile_y start pixel_y) (ziota tw) img.
Definition tm_tile (tile_y : Z) (img : image) (tile_x : Z) : res image :=
  match aget (tm_tiles tm) (tile_y * tm_w tm + tile_x) with
  | None => Panic 304
  | Some tile_id =>
      let start := tw * th * tile_id in
      if alen px <? start + tw * th then Panic 305 else
      rfold (tm_prow tile_x tile_y start) (ziota th) img
  end.
Definition tm_trow (img : image) (tile_y : Z) : res image := rfold (tm_tile tile_y) (ziota (tm_w tm)) img.

(* offsets of canvas position (x, y) inside tile (tile_x, tile_y) *)
Definition in_tile (tile_x tile_y x y : Z) : Prop :=
  0 <= x - cx - tile_x * tw < tw /\ 0 <= y - cy - tile_y * th < th.
Definition tile_src (start tile_x tile_y x y : Z) : option pixel :=
  aget px (start + ((y - cy - tile_y * th) * tw + (x - cx - tile_x * tw))).

Lemma writes_tm_px W H tile_x tile_y start pixel_y pixel_x :
  writes W H (fun img => tm_px tile_x tile_y start pixel_y img pixel_x)
         (fun x y => x = tile_x * tw + pixel_x + cx /\ y = tile_y * th + pixel_y + cy)
         (fun x y p => x = tile_x * tw + pixel_x + cx /\ y = tile_y * th + pixel_y + cy /\
                       aget px (start + (pixel_y * tw + pixel_x)) = Some p).
Proof.
  set (X := tile_x * tw + pixel_x + cx). set (Y := tile_y * th + pixel_y + cy).
  destruct (aget px (start + (pixel_y * tw + pixel_x))) as [p|] eqn:Es.
  - destruct ((0 <=? X) && (X <? W) && (0 <=? Y) && (Y <? H)) eqn:Ec.
    + assert (Hr : 0 <= X < W /\ 0 <= Y < H).
      { destruct (Z.leb_spec 0 X), (Z.ltb_spec X W), (Z.leb_spec 0 Y), (Z.ltb_spec Y H); cbn [andb] in Ec;
          try discriminate; lia. }
      eapply writes_weaken; [apply (writes_put W H X Y p); lia| | |].
      * intros img Hw Hh. unfold tm_px. rewrite Es. cbn zeta. fold X Y. rewrite Hw, Hh, Ec. reflexivity.
      * intros x y q _ _. split.
        -- intros (-> & -> & Hq). injection Hq as ->. repeat split.
        -- intros (-> & -> & ->). repeat split.
      * intros x y _ _ Hd. exact Hd.
    + assert (Hr : ~ (0 <= X < W /\ 0 <= Y < H)).
      { destruct (Z.leb_spec 0 X), (Z.ltb_spec X W), (Z.leb_spec 0 Y), (Z.ltb_spec Y H); cbn [andb] in Ec;
          try discriminate; lia. }
      apply writes_skip.
      * intros img Hw Hh. unfold tm_px. rewrite Es. cbn zeta. fold X Y. rewrite Hw, Hh, Ec. reflexivity.
      * intros x y q Hx Hy (-> & -> & _). apply Hr. split; assumption.
      * intros x y Hx Hy (-> & ->). apply Hr. split; assumption.
  - intros img img' Hw Hh E. exfalso. unfold tm_px in E. rewrite Es in E. discriminate.
Qed.

Lemma writes_tm_prow W H tile_x tile_y start pixel_y :
  writes W H (fun img => tm_prow tile_x tile_y start img pixel_y)
         (fun x y => 0 <= x - cx - tile_x * tw < tw /\ y = tile_y * th + pixel_y + cy)
         (fun x y p => 0 <= x - cx - tile_x * tw < tw /\ y = tile_y * th + pixel_y + cy /\
                       tile_src start tile_x tile_y x y = Some p).
Proof.
  eapply writes_weaken;
    [apply (writes_fold W H (tm_px tile_x tile_y start pixel_y) (ziota tw)
              (fun pixel_x x y => x = tile_x * tw + pixel_x + cx /\ y = tile_y * th + pixel_y + cy)
              (fun pixel_x x y p => x = tile_x * tw + pixel_x + cx /\ y = tile_y * th + pixel_y + cy /\
                                    aget px (start + (pixel_y * tw + pixel_x)) = Some p))| | |].
  - apply ziota_NoDup.
  - intros pixel_x _. apply writes_tm_px.
  - intros a b x y p q _ _ Hab _ _ (Ha & _) (Hb & _). apply Hab. lia.
  - intros img _ _. reflexivity.
  - intros x y p _ _. unfold tile_src. split.
    + intros (Hx & -> & Hs). exists (x - cx - tile_x * tw). split; [apply in_ziota; exact Hx|].
      split; [lia|]. split; [reflexivity|].
      replace (tile_y * th + pixel_y + cy - cy - tile_y * th) with pixel_y in Hs by lia. exact Hs.
    + intros (pixel_x & Hin & -> & -> & Hs). apply in_ziota in Hin. split; [lia|]. split; [reflexivity|].
      replace (tile_y * th + pixel_y + cy - cy - tile_y * th) with pixel_y by lia.
      replace (tile_x * tw + pixel_x + cx - cx - tile_x * tw) with pixel_x by lia. exact Hs.
  - intros x y _ _ (Hx & ->). exists (x - cx - tile_x * tw). split; [apply in_ziota; exact Hx|]. split; [lia|reflexivity].
Qed.

Lemma writes_tm_pixels W H tile_x tile_y start :
  writes W H (rfold (tm_prow tile_x tile_y start) (ziota th))
         (in_tile tile_x tile_y)
         (fun x y p => in_tile tile_x tile_y x y /\ tile_src start tile_x tile_y x y = Some p).
Proof.
  eapply writes_weaken;
    [apply (writes_fold W H (tm_prow tile_x tile_y start) (ziota th)
              (fun pixel_y x y => 0 <= x - cx - tile_x * tw < tw /\ y = tile_y * th + pixel_y + cy)
              (fun pixel_y x y p => 0 <= x - cx - tile_x * tw < tw /\ y = tile_y * th + pixel_y + cy /\
                                    tile_src start tile_x tile_y x y = Some p))| | |].
  - apply ziota_NoDup.
  - intros pixel_y _. apply writes_tm_prow.
  - intros a b x y p q _ _ Hab _ _ (_ & Ha & _) (_ & Hb & _). apply Hab. lia.
  - intros img _ _. reflexivity.
  - intros x y p _ _. unfold in_tile. split.
    + intros ((Hx & Hy) & Hs). exists (y - cy - tile_y * th). split; [apply in_ziota; exact Hy|].
      split; [exact Hx|]. split; [lia|exact Hs].
    + intros (pixel_y & Hin & Hx & -> & Hs). apply in_ziota in Hin. split; [split; [exact Hx|lia]|exact Hs].
  - intros x y _ _ (Hx & Hy). exists (y - cy - tile_y * th). split; [apply in_ziota; exact Hy|]. split; [exact Hx|lia].
Qed.

(* the source pixel of tile (tile_x, tile_y) at canvas position (x, y): through the tile id *)
Definition tm_src (tile_x tile_y x y : Z) (p : pixel) : Prop :=
  exists tile_id, aget (tm_tiles tm) (tile_y * tm_w tm + tile_x) = Some tile_id /\
                  tile_src (tw * th * tile_id) tile_x tile_y x y = Some p.

Lemma writes_tm_tile W H tile_y tile_x :
  writes W H (fun img => tm_tile tile_y img tile_x)
         (in_tile tile_x tile_y)
         (fun x y p => in_tile tile_x tile_y x y /\ tm_src tile_x tile_y x y p).
Proof.
  destruct (aget (tm_tiles tm) (tile_y * tm_w tm + tile_x)) as [tid|] eqn:Et.
  - destruct (alen px <? tw * th * tid + tw * th) eqn:El.
    + intros img img' Hw Hh E. exfalso. unfold tm_tile in E. rewrite Et in E. cbn zeta in E. rewrite El in E. discriminate.
    + eapply writes_weaken; [apply (writes_tm_pixels W H tile_x tile_y (tw * th * tid))| | |].
      * intros img _ _. unfold tm_tile. rewrite Et. cbn zeta. rewrite El. reflexivity.
      * intros x y p _ _. unfold tm_src. split.
        -- intros (Hin & tid' & Ht & Hs). rewrite Et in Ht. injection Ht as <-. split; assumption.
        -- intros (Hin & Hs). split; [exact Hin|]. exists tid. split; [exact Et|exact Hs].
      * intros x y _ _ Hd. exact Hd.
  - intros img img' Hw Hh E. exfalso. unfold tm_tile in E. rewrite Et in E. discriminate.
Qed.

Lemma writes_tm_trow W H tile_y :
  writes W H (fun img => tm_trow img tile_y)
         (fun x y => exists tile_x, 0 <= tile_x < tm_w tm /\ in_tile tile_x tile_y x y)
         (fun x y p => exists tile_x, 0 <= tile_x < tm_w tm /\ in_tile tile_x tile_y x y /\ tm_src tile_x tile_y x y p).
Proof.
  eapply writes_weaken;
    [apply (writes_fold W H (tm_tile tile_y) (ziota (tm_w tm))
              (fun tile_x => in_tile tile_x tile_y)
              (fun tile_x x y p => in_tile tile_x tile_y x y /\ tm_src tile_x tile_y x y p))| | |].
  - apply ziota_NoDup.
  - intros tile_x _. apply writes_tm_tile.
  - intros a b x y p q _ _ Hab _ _ ((Ha & _) & _) ((Hb & _) & _). apply Hab.
    apply (tile_decomp_unique tw (x - cx)); lia.
  - intros img _ _. reflexivity.
  - intros x y p _ _. split.
    + intros (tile_x & Hr & Hin & Hs). exists tile_x. split; [apply in_ziota; exact Hr|]. split; assumption.
    + intros (tile_x & Hr & Hin & Hs). apply in_ziota in Hr. exists tile_x. split; [exact Hr|]. split; assumption.
  - intros x y _ _ (tile_x & Hr & Hin). exists tile_x. split; [apply in_ziota; exact Hr|exact Hin].
Qed.

Definition tm_inside (x y : Z) : Prop :=
  exists tile_x tile_y, 0 <= tile_x < tm_w tm /\ 0 <= tile_y < tm_h tm /\ in_tile tile_x tile_y x y.
Definition tm_source (x y : Z) (p : pixel) : Prop :=
  exists tile_x tile_y, 0 <= tile_x < tm_w tm /\ 0 <= tile_y < tm_h tm /\ in_tile tile_x tile_y x y /\
                        tm_src tile_x tile_y x y p.

Lemma writes_tm_all W H : writes W H (rfold tm_trow (ziota (tm_h tm))) tm_inside tm_source.
Proof.
  eapply writes_weaken;
    [apply (writes_fold W H tm_trow (ziota (tm_h tm))
              (fun tile_y x y => exists tile_x, 0 <= tile_x < tm_w tm /\ in_tile tile_x tile_y x y)
              (fun tile_y x y p => exists tile_x, 0 <= tile_x < tm_w tm /\ in_tile tile_x tile_y x y /\
                                                  tm_src tile_x tile_y x y p))| | |].
  - apply ziota_NoDup.
  - intros tile_y _. apply writes_tm_trow.
  - intros a b x y p q _ _ Hab _ _ (ta & _ & (_ & Ha) & _) (tb & _ & (_ & Hb) & _). apply Hab.
    apply (tile_decomp_unique th (y - cy)); lia.
  - intros img _ _. reflexivity.
  - intros x y p _ _. unfold tm_source. split.
    + intros (tile_x & tile_y & Hx & Hy & Hin & Hs). exists tile_y. split; [apply in_ziota; exact Hy|].
      exists tile_x. split; [exact Hx|]. split; assumption.
    + intros (tile_y & Hy & tile_x & Hx & Hin & Hs). apply in_ziota in Hy. exists tile_x, tile_y.
      split; [exact Hx|]. split; [exact Hy|]. split; assumption.
  - intros x y _ _ (tile_x & tile_y & Hx & Hy & Hin). exists tile_y. split; [apply in_ziota; exact Hy|].
    exists tile_x. split; assumption.
Qed.

End Tilemap.
End Writes.

(* ------------------------------------------------------------------ *)
(* the model functions are these folds *)

Lemma write_raw_unfold img cc w h px mode lop :
  write_raw img cc w h px mode lop =
  rfold (raw_row mode (mul_un8 lop (cc_opacity cc)) (cc_x cc) (cc_y cc) w px) (zrange (cc_y cc) (Z.to_nat h)) img.
Proof. reflexivity. Qed.

Lemma write_tilemap_unfold img cc tm tw th px mode lop :
  write_tilemap img cc tm tw th px mode lop =
  rfold (tm_trow mode (mul_un8 lop (cc_opacity cc)) (cc_x cc) (cc_y cc) tm tw th px) (ziota (tm_h tm)) img.
Proof. reflexivity. Qed.

(* write_raw, per pixel *)
Theorem write_raw_spec img cc w h px mode lop img' :
  write_raw img cc w h px mode lop = Ok img' ->
  iw img' = iw img /\ ih img' = ih img /\
  forall x y, 0 <= x < iw img -> 0 <= y < ih img ->
    (cc_x cc <= x < cc_x cc + w /\ cc_y cc <= y < cc_y cc + h ->
       exists p, aget px ((y - cc_y cc) * w + (x - cc_x cc)) = Some p /\
                 Some (img_get img' x y) = blend mode (img_get img x y) p (mul_un8 lop (cc_opacity cc))) /\
    (~ (cc_x cc <= x < cc_x cc + w /\ cc_y cc <= y < cc_y cc + h) -> img_get img' x y = img_get img x y).
Proof.
  intros E. rewrite write_raw_unfold in E.
  destruct (writes_raw_rows mode (mul_un8 lop (cc_opacity cc)) (cc_x cc) (cc_y cc) w h px (iw img) (ih img)
              img img' eq_refl eq_refl E) as (Hw & Hh & Hpx).
  split; [exact Hw|]. split; [exact Hh|]. intros x y Hx Hy. destruct (Hpx x y Hx Hy) as (H1 & H2 & H3). split.
  - intros Hin. destruct (H3 Hin) as (p & Hp). exists p. split; [exact (proj2 Hp)|]. apply H1. exact Hp.
  - intros Hout. apply H2. intros p (Hin & _). exact (Hout Hin).
Qed.

(* write_raw returns, or a blend panicked, as soon as the buffer holds w*h pixels *)
Theorem write_raw_ok_or_blend_panic img cc w h px mode lop :
  0 <= w -> (forall i, 0 <= i < w * h -> aget px i <> None) ->
  (exists img', write_raw img cc w h px mode lop = Ok img') \/ write_raw img cc w h px mode lop = Panic 302.
Proof. intros Hw Hfull. rewrite write_raw_unfold. apply raw_rows_okp; assumption. Qed.

(* the div/mod form of the tile decomposition *)
Lemma in_tile_divmod cx cy tw th tile_x tile_y x y :
  in_tile cx cy tw th tile_x tile_y x y ->
  tile_x = (x - cx) / tw /\ x - cx - tile_x * tw = (x - cx) mod tw /\
  tile_y = (y - cy) / th /\ y - cy - tile_y * th = (y - cy) mod th.
Proof.
  intros (Hx & Hy).
  assert (Ex : tile_x = (x - cx) / tw) by (apply (Z.div_unique_pos (x - cx) tw tile_x (x - cx - tile_x * tw)); lia).
  assert (Ey : tile_y = (y - cy) / th) by (apply (Z.div_unique_pos (y - cy) th tile_y (y - cy - tile_y * th)); lia).
  split; [exact Ex|]. split; [|split; [exact Ey|]].
  - apply (Z.mod_unique_pos (x - cx) tw tile_x); lia.
  - apply (Z.mod_unique_pos (y - cy) th tile_y); lia.
Qed.

Lemma in_tile_of_divmod cx cy tw th x y : 0 < tw -> 0 < th ->
  in_tile cx cy tw th ((x - cx) / tw) ((y - cy) / th) x y.
Proof.
  intros Htw Hth. unfold in_tile.
  pose proof (Z.div_mod (x - cx) tw ltac:(lia)) as Dx. pose proof (Z.mod_pos_bound (x - cx) tw Htw) as Bx.
  pose proof (Z.div_mod (y - cy) th ltac:(lia)) as Dy. pose proof (Z.mod_pos_bound (y - cy) th Hth) as By.
  split; lia.
Qed.

(* inside the stored tile area *)
Lemma tm_inside_iff cx cy tm tw th x y : 0 < tw -> 0 < th ->
  tm_inside cx cy tm tw th x y <-> (0 <= x - cx < tm_w tm * tw /\ 0 <= y - cy < tm_h tm * th).
Proof.
  intros Htw Hth. unfold tm_inside. split.
  - intros (tile_x & tile_y & Hx & Hy & (Ix & Iy)).
    assert (Mx : (tile_x + 1) * tw <= tm_w tm * tw) by (apply Z.mul_le_mono_nonneg_r; lia).
    assert (My : (tile_y + 1) * th <= tm_h tm * th) by (apply Z.mul_le_mono_nonneg_r; lia).
    assert (Nx : 0 <= tile_x * tw) by (apply Z.mul_nonneg_nonneg; lia).
    assert (Ny : 0 <= tile_y * th) by (apply Z.mul_nonneg_nonneg; lia).
    rewrite Z.mul_add_distr_r in Mx, My. lia.
  - intros (Hx & Hy). exists ((x - cx) / tw), ((y - cy) / th).
    split; [split; [apply Z.div_pos; lia|apply Z.div_lt_upper_bound; [lia|rewrite Z.mul_comm; lia]]|].
    split; [split; [apply Z.div_pos; lia|apply Z.div_lt_upper_bound; [lia|rewrite Z.mul_comm; lia]]|].
    apply in_tile_of_divmod; assumption.
Qed.

(* write_tilemap, per pixel: canvas position (x, y) lies dx = x - cc_x to the right of the cel
   origin, in tile column dx / tw at column dx mod tw of that tile (and likewise for y) *)
Theorem write_tilemap_spec img cc tm tw th px mode lop img' :
  0 < tw -> 0 < th ->
  write_tilemap img cc tm tw th px mode lop = Ok img' ->
  iw img' = iw img /\ ih img' = ih img /\
  forall x y, 0 <= x < iw img -> 0 <= y < ih img ->
    let dx := x - cc_x cc in
    let dy := y - cc_y cc in
    (0 <= dx < tm_w tm * tw /\ 0 <= dy < tm_h tm * th ->
       exists tile_id p,
         aget (tm_tiles tm) ((dy / th) * tm_w tm + dx / tw) = Some tile_id /\
         aget px (tw * th * tile_id + ((dy mod th) * tw + dx mod tw)) = Some p /\
         Some (img_get img' x y) = blend mode (img_get img x y) p (mul_un8 lop (cc_opacity cc))) /\
    (~ (0 <= dx < tm_w tm * tw /\ 0 <= dy < tm_h tm * th) -> img_get img' x y = img_get img x y).
Proof.
  intros Htw Hth E. rewrite write_tilemap_unfold in E.
  destruct (writes_tm_all mode (mul_un8 lop (cc_opacity cc)) (cc_x cc) (cc_y cc) tm tw th px (iw img) (ih img)
              img img' eq_refl eq_refl E) as (Hw & Hh & Hpx).
  split; [exact Hw|]. split; [exact Hh|]. intros x y Hx Hy dx dy. destruct (Hpx x y Hx Hy) as (H1 & H2 & H3). split.
  - intros Hin. apply (tm_inside_iff (cc_x cc) (cc_y cc) tm tw th x y Htw Hth) in Hin.
    destruct (H3 Hin) as (p & Hp). pose proof (H1 p Hp) as Hb.
    destruct Hp as (tile_x & tile_y & _ & _ & Hit & tid & Ht & Hs).
    destruct (in_tile_divmod _ _ _ _ _ _ _ _ Hit) as (Ex & Mx & Ey & My).
    unfold tile_src in Hs. rewrite Mx, My in Hs. rewrite Ex, Ey in Ht.
    exists tid, p. split; [exact Ht|]. split; [exact Hs|exact Hb].
  - intros Hout. apply H2. intros p (tile_x & tile_y & Rx & Ry & Hit & _). apply Hout.
    apply (tm_inside_iff (cc_x cc) (cc_y cc) tm tw th x y Htw Hth). exists tile_x, tile_y. repeat split; try lia; apply Hit.
Qed.

(* write_tilemap returns, or a blend panicked, when every stored tile id is present and its
   pixels lie inside the (dense) tileset buffer *)
Lemma lin_index_range a b n m : 0 <= n -> 0 <= a < n -> 0 <= b < m -> 0 <= b * n + a < n * m.
Proof.
  intros Hn Ha Hb.
  assert (H1 : 0 <= b * n) by (apply Z.mul_nonneg_nonneg; lia).
  assert (H2 : (b + 1) * n <= m * n) by (apply Z.mul_le_mono_nonneg_r; lia).
  rewrite Z.mul_add_distr_r in H2. rewrite (Z.mul_comm n m). lia.
Qed.

Theorem write_tilemap_ok_or_blend_panic img cc tm tw th px mode lop :
  (forall i, 0 <= i < tm_w tm * tm_h tm ->
     exists tid, aget (tm_tiles tm) i = Some tid /\ 0 <= tid /\ tw * th * (tid + 1) <= alen px) ->
  (forall i, 0 <= i < alen px -> aget px i <> None) ->
  (exists img', write_tilemap img cc tm tw th px mode lop = Ok img') \/
  write_tilemap img cc tm tw th px mode lop = Panic 302.
Proof.
  intros Htiles Hdense. rewrite write_tilemap_unfold. apply rfold_okp. intros b1 tile_y Hty. apply in_ziota in Hty.
  unfold tm_trow. apply rfold_okp. intros b2 tile_x Htx. apply in_ziota in Htx. unfold tm_tile.
  destruct (Htiles (tile_y * tm_w tm + tile_x)) as (tid & Et & Htid & Hlen).
  { apply lin_index_range; lia. }
  rewrite Et. cbn zeta. rewrite Z.mul_add_distr_l, Z.mul_1_r in Hlen.
  destruct (Z.ltb_spec (alen px) (tw * th * tid + tw * th)); [lia|].
  apply rfold_okp. intros b3 pixel_y Hpy. apply in_ziota in Hpy. unfold tm_prow.
  apply rfold_okp. intros b4 pixel_x Hpx. apply in_ziota in Hpx. unfold tm_px.
  assert (Hidx : 0 <= pixel_y * tw + pixel_x < tw * th) by (apply lin_index_range; lia).
  assert (Hst : 0 <= tw * th * tid) by (apply Z.mul_nonneg_nonneg; [|exact Htid]; lia).
  destruct (aget px (tw * th * tid + (pixel_y * tw + pixel_x))) as [p|] eqn:Ep.
  - cbn zeta. destruct (_ && _ && _ && _); [apply blend_put_okp|apply okp_ok].
  - exfalso. apply (Hdense (tw * th * tid + (pixel_y * tw + pixel_x))); [lia|exact Ep].
Qed.
