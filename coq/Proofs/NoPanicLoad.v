(* C04: loading never panics.  `load inflate bs` is `Ok` or `Err` for every inflate function
   and every list of bytes.  The byte hypothesis is needed in the model: the reader
   primitives add list elements without reducing them, so a "byte" of -1 gives a negative
   cel layer index (Panic 101) and a "byte" of 256 in a tag count gives 65536 tags
   (Panic 102); see `nonbyte_reaches_101` at the end. *)
From Ase Require Import Base.Prelude Model.Validate Proofs.ITLemmas Proofs.ArrLemmas Proofs.Layers.

(* ------------------------------------------------------------------ *)
(* outcomes that are not Panic *)

Definition okres {A} (Q : A -> Prop) (r : res A) : Prop :=
  match r with Ok a => Q a | Err _ => True | Panic _ => False end.

Lemma okres_weaken {A} (P Q : A -> Prop) r : okres P r -> (forall a, P a -> Q a) -> okres Q r.
Proof. destruct r as [a|e|s]; cbn [okres]; auto. Qed.

Lemma okres_not_panic {A} (Q : A -> Prop) r s : okres Q r -> r <> Panic s.
Proof. destruct r; cbn [okres]; intros H; [discriminate|discriminate|contradiction]. Qed.

Lemma okres_ok {A} (Q : A -> Prop) r a : okres Q r -> r = Ok a -> Q a.
Proof. intros H ->. exact H. Qed.

Lemma okres_rbind {A B} (P : A -> Prop) (Q : B -> Prop) r (g : A -> res B) :
  okres P r -> (forall a, P a -> okres Q (g a)) -> okres Q (rbind r g).
Proof. destruct r as [a|e|s]; cbn [okres rbind]; auto. Qed.

Lemma okres_rfold {A B} (P : B -> Prop) (g : B -> A -> res B) : forall l b,
  (forall b x, P b -> In x l -> okres P (g b x)) -> P b -> okres P (rfold g l b).
Proof.
  induction l as [|x t IH]; intros b Hg Hb; cbn [rfold]; [exact Hb|].
  eapply okres_rbind; [apply Hg; [exact Hb|left; reflexivity]|].
  intros b' Hb'. apply IH; [|exact Hb']. intros b0 x0 H0 Hin. apply Hg; [exact H0|right; exact Hin].
Qed.

(* ------------------------------------------------------------------ *)
(* reader trees on byte lists: never Crash, the value satisfies Q, the rest are bytes *)

Definition bytes (l : list Z) : Prop := Forall is_byte l.

Definition safe {A} (t : IT A) (Q : A -> Prop) : Prop :=
  forall bs, bytes bs -> okres (fun ar => Q (fst ar) /\ bytes (snd ar)) (run t bs).

Lemma bytes_app a b : bytes a -> bytes b -> bytes (a ++ b).
Proof. intros Ha Hb. apply Forall_app. split; assumption. Qed.
Lemma bytes_app_l a b : bytes (a ++ b) -> bytes a.
Proof. intros H. apply Forall_app in H. apply H. Qed.
Lemma bytes_app_r a b : bytes (a ++ b) -> bytes b.
Proof. intros H. apply Forall_app in H. apply H. Qed.
Lemma bytes_firstn n l : bytes l -> bytes (firstn n l).
Proof. intros H. rewrite <- (firstn_skipn n l) in H. exact (bytes_app_l _ _ H). Qed.

Lemma safe_ret {A} (a : A) (Q : A -> Prop) : Q a -> safe (Ret a) Q.
Proof. intros H bs Hb. cbn [run okres fst snd]. split; assumption. Qed.
Lemma safe_fail {A} e (Q : A -> Prop) : safe (Fail e) Q.
Proof. intros bs Hb. exact I. Qed.
Lemma safe_weaken {A} (t : IT A) (P Q : A -> Prop) : safe t P -> (forall a, P a -> Q a) -> safe t Q.
Proof.
  intros H HPQ bs Hb. eapply okres_weaken; [apply H; exact Hb|]. intros [a r] [H1 H2]. split; [apply HPQ; exact H1|exact H2].
Qed.
Lemma safe_lift {A} (r : res A) (Q : A -> Prop) : okres Q r -> safe (lift r) Q.
Proof. intros H bs Hb. rewrite run_lift. destruct r; cbn [okres fst snd] in *; auto. Qed.

Lemma safe_bind {A B} (t : IT A) (f : A -> IT B) (P : A -> Prop) (Q : B -> Prop) :
  safe t P -> (forall a, P a -> safe (f a) Q) -> safe (bind t f) Q.
Proof.
  intros Ht Hf bs Hb. rewrite run_bind. specialize (Ht bs Hb).
  destruct (run t bs) as [[a rest]|e|s]; cbn [okres fst snd] in *; [|exact I|exact Ht].
  destruct Ht as [Ha Hr]. apply Hf; assumption.
Qed.

Lemma safe_read {A} n (k : list Z -> IT A) (Q : A -> Prop) :
  (forall l, bytes l -> zlen l = Z.max 0 n -> safe (k l) Q) -> safe (Read n k) Q.
Proof.
  intros Hk bs Hb. cbn [run]. destruct (split_z n bs) as [[a r]|] eqn:S; [|exact I].
  pose proof (split_z_len_max _ _ _ _ S) as Hl. apply split_z_app in S. subst bs.
  apply Hk; [exact (bytes_app_l _ _ Hb)|exact Hl|exact (bytes_app_r _ _ Hb)].
Qed.

(* run_payload / run on a chunk buffer *)
Lemma safe_run_payload {A} (t : IT A) (Q : A -> Prop) buf : safe t Q -> bytes buf -> okres Q (run_payload t buf).
Proof.
  intros H Hb. unfold run_payload. specialize (H buf Hb).
  destruct (run t buf) as [[a r]|e|s]; cbn [okres fst] in *; [apply H|exact I|exact H].
Qed.

(* ------------------------------------------------------------------ *)
(* iteration *)

Lemma safe_run_times {A} (f : A -> IT A) (Inv : Z -> A -> Prop) : forall k i a bs,
  (forall j a, i <= j < i + Z.of_nat k -> Inv j a -> safe (f a) (Inv (j + 1))) ->
  Inv i a -> bytes bs ->
  okres (fun ar => Inv (i + Z.of_nat k) (fst ar) /\ bytes (snd ar)) (run_times k f a bs).
Proof.
  induction k as [|k IH]; intros i a bs Hstep Hi Hb; cbn [run_times].
  - cbn [okres fst snd]. rewrite Z.add_0_r. split; assumption.
  - pose proof (Hstep i a ltac:(lia) Hi bs Hb) as H1.
    destruct (run (f a) bs) as [[a' r]|e|s]; cbn [okres fst snd] in H1; [|exact I|exact H1].
    destruct H1 as [Ha' Hr]. replace (i + Z.of_nat (S k)) with (i + 1 + Z.of_nat k) by lia.
    apply IH; [|exact Ha'|exact Hr]. intros j a0 Hj. apply Hstep. lia.
Qed.

(* indexed invariant: step j takes Inv j to Inv (j+1) *)
Lemma safe_iterZ_idx {A} n (f : A -> IT A) (a : A) (Inv : Z -> A -> Prop) :
  Inv 0 a -> (forall j a, 0 <= j < n -> Inv j a -> safe (f a) (Inv (j + 1))) ->
  safe (iterZ n f a) (Inv (Z.max 0 n)).
Proof.
  intros H0 Hstep bs Hb. rewrite run_iterZ.
  replace (Z.max 0 n) with (0 + Z.of_nat (Z.to_nat n)) by lia.
  apply safe_run_times; [|exact H0|exact Hb]. intros j a0 Hj. apply Hstep. lia.
Qed.

Lemma safe_iterZ {A} n (f : A -> IT A) (a : A) (P : A -> Prop) :
  P a -> (forall a, P a -> safe (f a) P) -> safe (iterZ n f a) P.
Proof.
  intros H0 Hstep. apply (safe_iterZ_idx n f a (fun _ => P)); [exact H0|]. intros j a0 _. apply Hstep.
Qed.

(* ------------------------------------------------------------------ *)
(* the primitives of reader.rs *)

Ltac len_absurd :=
  match goal with H : zlen _ = _ |- _ => exfalso; unfold zlen in H; cbn [length] in H; lia end.

Lemma safe_byte : safe byte is_byte.
Proof.
  unfold byte. apply safe_read. intros l Hl Hn.
  destruct l as [|a [|b l]]; try len_absurd. apply safe_ret. inversion Hl; assumption.
Qed.

Lemma safe_word : safe word (fun w => 0 <= w < 65536).
Proof.
  unfold word. apply safe_read. intros l Hl Hn.
  destruct l as [|a [|b [|c l]]]; try len_absurd. apply safe_ret.
  inversion Hl as [|? ? Ha Hl1]; subst. inversion Hl1 as [|? ? Hb _]; subst. unfold is_byte in *. lia.
Qed.

Lemma safe_dword : safe dword (fun w => 0 <= w < 4294967296).
Proof.
  unfold dword. apply safe_read. intros l Hl Hn.
  destruct l as [|a [|b [|c [|d [|e l]]]]]; try len_absurd. apply safe_ret.
  inversion Hl as [|? ? Ha Hl1]; subst. inversion Hl1 as [|? ? Hb Hl2]; subst.
  inversion Hl2 as [|? ? Hc Hl3]; subst. inversion Hl3 as [|? ? Hd _]; subst. unfold is_byte in *. lia.
Qed.

Lemma safe_short : safe short (fun w => -32768 <= w < 32768).
Proof.
  unfold short. eapply safe_bind; [apply safe_word|]. intros w Hw. cbv beta in Hw. apply safe_ret.
  unfold sgn16. destruct (Z.ltb_spec w 32768); lia.
Qed.

Lemma safe_long : safe long (fun w => -2147483648 <= w < 2147483648).
Proof.
  unfold long. eapply safe_bind; [apply safe_dword|]. intros w Hw. cbv beta in Hw. apply safe_ret.
  unfold sgn32. destruct (Z.ltb_spec w 2147483648); lia.
Qed.

Lemma safe_skip n : safe (skip n) (fun _ => True).
Proof. unfold skip. apply safe_read. intros l _ _. apply safe_ret. exact I. Qed.

Lemma safe_take n : safe (take n) (fun l => bytes l /\ zlen l = Z.max 0 n).
Proof. unfold take. apply safe_read. intros l Hl Hn. apply safe_ret. split; assumption. Qed.

Lemma safe_str : safe str bytes.
Proof.
  unfold str. eapply safe_bind; [apply safe_word|]. intros n Hn.
  eapply safe_bind; [apply safe_take|]. intros s [Hs _].
  destruct (utf8_valid s); [apply safe_ret; exact Hs|apply safe_fail].
Qed.

(* weakened forms used by the automation *)
Lemma safe_any {A} (t : IT A) (Q : A -> Prop) : safe t Q -> safe t (fun _ => True).
Proof. intros H. eapply safe_weaken; [exact H|]. intros; exact I. Qed.

(* one step through a decoder: bind of a primitive, conditionals, Ret/Fail *)
Ltac safe_step :=
  lazymatch goal with
  | |- safe (bind byte _) _ => eapply safe_bind; [apply safe_byte|(let v := fresh "v" in let Hv := fresh "Hv" in intros v Hv); cbv beta in *]
  | |- safe (bind word _) _ => eapply safe_bind; [apply safe_word|(let v := fresh "v" in let Hv := fresh "Hv" in intros v Hv); cbv beta in *]
  | |- safe (bind dword _) _ => eapply safe_bind; [apply safe_dword|(let v := fresh "v" in let Hv := fresh "Hv" in intros v Hv); cbv beta in *]
  | |- safe (bind short _) _ => eapply safe_bind; [apply safe_short|(let v := fresh "v" in let Hv := fresh "Hv" in intros v Hv); cbv beta in *]
  | |- safe (bind long _) _ => eapply safe_bind; [apply safe_long|(let v := fresh "v" in let Hv := fresh "Hv" in intros v Hv); cbv beta in *]
  | |- safe (bind (skip _) _) _ => eapply safe_bind; [apply safe_skip|intros ? _]
  | |- safe (bind (take _) _) _ => eapply safe_bind; [apply safe_take|(let v := fresh "v" in let Hv := fresh "Hv" in let Hl := fresh "Hl" in intros v [Hv Hl]); cbv beta in *]
  | |- safe (bind str _) _ => eapply safe_bind; [apply safe_str|(let v := fresh "v" in let Hv := fresh "Hv" in intros v Hv); cbv beta in *]
  | |- safe (Ret _) _ => apply safe_ret
  | |- safe (Fail _) _ => apply safe_fail
  | |- safe (if ?c then _ else _) _ => let E := fresh "Eif" in destruct c eqn:E
  end.
Ltac safe_steps := repeat safe_step.

Ltac safe_triv_bind := eapply (safe_bind _ _ (fun _ => True)); [|intros ? _].
Ltac safe_triv_bind_as x := eapply (safe_bind _ _ (fun _ => True)); [|intros x _].

(* ------------------------------------------------------------------ *)
(* finite maps *)

Lemma zfind_some_nonneg {A} k (m : zmap A) v : zfind k m = Some v -> 0 <= k.
Proof. unfold zfind. destruct (Z.ltb_spec k 0); [discriminate|lia]. Qed.

Lemma zfind_zempty {A} k : zfind k (@zempty A) = None.
Proof. unfold zfind, zempty. destruct (k <? 0); [reflexivity|apply PositiveMap.gempty]. Qed.

(* a lookup after an insertion finds the inserted value or an older one *)
Lemma zfind_zadd_cases {A} k k' (v x : A) m : zfind k (zadd k' v m) = Some x -> x = v \/ zfind k m = Some x.
Proof.
  unfold zfind, zadd. destruct (k <? 0); [discriminate|].
  rewrite PositiveMapAdditionalFacts.gsspec. destruct (PositiveMap.E.eq_dec (akey k) (akey k')); [|auto].
  intros [= <-]. left; reflexivity.
Qed.

Lemma zfind_zadd_key {A} k k' (v x : A) m : 0 <= k' -> zfind k (zadd k' v m) = Some x ->
  (k = k' /\ x = v) \/ (k <> k' /\ zfind k m = Some x).
Proof.
  intros Hk' H. pose proof (zfind_some_nonneg _ _ _ H) as Hk. revert H. unfold zfind, zadd.
  destruct (Z.ltb_spec k 0) as [Hneg|Hnn]; [lia|]. rewrite PositiveMapAdditionalFacts.gsspec.
  destruct (PositiveMap.E.eq_dec (akey k) (akey k')) as [E|E].
  - apply akey_inj in E; [|lia|lia]. intros [= <-]. left. split; [exact E|reflexivity].
  - intros H. right. split; [|exact H]. intros ->. apply E. reflexivity.
Qed.

Lemma zfind_zadd_same {A} k (v : A) m : 0 <= k -> zfind k (zadd k v m) = Some v.
Proof. intros Hk. unfold zfind, zadd. destruct (Z.ltb_spec k 0); [lia|]. apply PositiveMap.gss. Qed.

Lemma zfind_zadd_other {A} k k' (v : A) m : 0 <= k -> 0 <= k' -> k <> k' -> zfind k (zadd k' v m) = zfind k m.
Proof.
  intros Hk Hk' Hne. unfold zfind, zadd. destruct (Z.ltb_spec k 0); [lia|]. apply PositiveMap.gso.
  intros E. apply akey_inj in E; lia.
Qed.

(* the pairs listed by zelements are the bindings *)
Lemma in_zelements {A} k (v : A) m : In (k, v) (zelements m) -> zfind k m = Some v.
Proof.
  unfold zelements. intros H. apply in_flat_map in H. destruct H as (k' & _ & H).
  destruct (zfind k' m) as [v'|] eqn:E; [|contradiction]. destruct H as [[= <- <-]|[]]. exact E.
Qed.

(* ------------------------------------------------------------------ *)
(* upd_nth, repeat_none *)

Lemma upd_nth_length {A} (l : list A) : forall n x, length (upd_nth l n x) = length l.
Proof. induction l as [|y t IH]; intros [|n] x; cbn [upd_nth length]; try reflexivity. rewrite IH. reflexivity. Qed.

Lemma zlen_upd_nth {A} (l : list A) n x : zlen (upd_nth l n x) = zlen l.
Proof. unfold zlen. rewrite upd_nth_length. reflexivity. Qed.

Lemma nth_error_upd_nth {A} (l : list A) : forall n x k y,
  nth_error (upd_nth l n x) k = Some y -> (k = n /\ y = x) \/ (k <> n /\ nth_error l k = Some y).
Proof.
  induction l as [|z t IH]; intros [|n] x [|k] y; cbn [upd_nth nth_error]; try discriminate.
  - intros [= <-]. left. split; reflexivity.
  - intros H. right. split; [discriminate|exact H].
  - intros H. right. split; [discriminate|exact H].
  - intros H. apply IH in H. destruct H as [[-> ->]|[Hne H]]; [left; split; reflexivity|right; split; [congruence|exact H]].
Qed.

Lemma nthz_upd_nth {A} (l : list A) j x i y : 0 <= j ->
  nthz (upd_nth l (Z.to_nat j) x) i = Some y -> (i = j /\ y = x) \/ (i <> j /\ nthz l i = Some y).
Proof.
  intros Hj H. pose proof (nthz_some _ _ _ H) as Hr. rewrite nthz_nth_error in H by lia.
  apply nth_error_upd_nth in H. rewrite nthz_nth_error by lia.
  destruct H as [[E ->]|[Hne H]]; [left; split; [lia|reflexivity]|right; split; [lia|exact H]].
Qed.

Lemma repeat_none_length {A} n : length (@repeat_none A n) = n.
Proof. induction n as [|n IH]; cbn [repeat_none length]; [reflexivity|rewrite IH; reflexivity]. Qed.

Lemma In_repeat_none {A} n (o : option A) : In o (repeat_none n) -> o = None.
Proof. induction n as [|n IH]; cbn [repeat_none In]; [intros []|]. intros [<-|H]; [reflexivity|apply IH; exact H]. Qed.

Lemma nthz_app_repeat_none {A} (r : list (option A)) n i c :
  nthz (r ++ repeat_none n) i = Some (Some c) -> nthz r i = Some (Some c).
Proof.
  intros H. destruct (Z.ltb_spec i (zlen r)) as [Hlt|Hge].
  - rewrite nthz_app_l in H by exact Hlt. exact H.
  - rewrite nthz_app_r in H by exact Hge. apply nthz_In in H. apply In_repeat_none in H. discriminate.
Qed.

(* ------------------------------------------------------------------ *)
(* grouping of bytes into pixels / dwords *)

Lemma group4_length : forall n l, length l = (4 * n)%nat -> length (group4 l) = n.
Proof.
  induction n as [|n IH]; intros l Hl.
  - destruct l; [reflexivity|cbn [length] in Hl; lia].
  - destruct l as [|a [|b [|c [|d t]]]]; cbn [length] in Hl; try lia. cbn [group4 length]. rewrite IH by lia. reflexivity.
Qed.
Lemma group2_length : forall n l, length l = (2 * n)%nat -> length (group2 l) = n.
Proof.
  induction n as [|n IH]; intros l Hl.
  - destruct l; [reflexivity|cbn [length] in Hl; lia].
  - destruct l as [|a [|b t]]; cbn [length] in Hl; try lia. cbn [group2 length]. rewrite IH by lia. reflexivity.
Qed.
Lemma group_dwords_length : forall n l, length l = (4 * n)%nat -> length (group_dwords l) = n.
Proof.
  induction n as [|n IH]; intros l Hl.
  - destruct l; [reflexivity|cbn [length] in Hl; lia].
  - destruct l as [|a [|b [|c [|d t]]]]; cbn [length] in Hl; try lia. cbn [group_dwords length]. rewrite IH by lia. reflexivity.
Qed.

Lemma zlen_group4 l n : 0 <= n -> zlen l = 4 * n -> zlen (group4 l) = n.
Proof. intros Hn H. unfold zlen in *. rewrite (group4_length (Z.to_nat n)) by lia. lia. Qed.
Lemma zlen_group2 l n : 0 <= n -> zlen l = 2 * n -> zlen (group2 l) = n.
Proof. intros Hn H. unfold zlen in *. rewrite (group2_length (Z.to_nat n)) by lia. lia. Qed.
Lemma zlen_group_dwords l n : 0 <= n -> zlen l = 4 * n -> zlen (group_dwords l) = n.
Proof. intros Hn H. unfold zlen in *. rewrite (group_dwords_length (Z.to_nat n)) by lia. lia. Qed.

Section PixPred.
Variable W : Z -> Prop.
Definition pixW (p : pixel) : Prop := let '(r, g, b, a) := p in W r /\ W g /\ W b /\ W a.
Definition grayW (va : Z * Z) : Prop := W (fst va) /\ W (snd va).

Lemma group4_W : forall n l, (length l <= n)%nat -> Forall W l -> Forall pixW (group4 l).
Proof.
  induction n as [|n IH]; intros l Hn Hl.
  - destruct l; [constructor|cbn [length] in Hn; lia].
  - destruct l as [|a [|b [|c [|d t]]]]; cbn [group4]; try constructor.
    + inversion Hl as [|? ? Ha H1]; subst. inversion H1 as [|? ? Hb H2]; subst. inversion H2 as [|? ? Hc H3]; subst.
      inversion H3 as [|? ? Hd H4]; subst. cbn [pixW]. repeat split; assumption.
    + apply IH; [cbn [length] in Hn; lia|]. inversion Hl as [|? ? Ha H1]; subst. inversion H1 as [|? ? Hb H2]; subst.
      inversion H2 as [|? ? Hc H3]; subst. inversion H3 as [|? ? Hd H4]; subst. exact H4.
Qed.
Lemma group2_W : forall n l, (length l <= n)%nat -> Forall W l -> Forall grayW (group2 l).
Proof.
  induction n as [|n IH]; intros l Hn Hl.
  - destruct l; [constructor|cbn [length] in Hn; lia].
  - destruct l as [|a [|b t]]; cbn [group2]; try constructor.
    + inversion Hl as [|? ? Ha H1]; subst. inversion H1 as [|? ? Hb H2]; subst. split; assumption.
    + apply IH; [cbn [length] in Hn; lia|]. inversion Hl as [|? ? Ha H1]; subst. inversion H1 as [|? ? Hb H2]; subst. exact H2.
Qed.

Definition rawpx_len (px : rawpixels) : Z :=
  match px with RPRgba l => zlen l | RPGray l => zlen l | RPIndexed l => zlen l end.
Definition rawpx_W (px : rawpixels) : Prop :=
  match px with RPRgba l => Forall pixW l | RPGray l => Forall grayW l | RPIndexed _ => True end.

Lemma from_bytes_ok bs fmt n : 0 <= n -> zlen bs = bytes_per_pixel fmt * n -> Forall W bs ->
  okres (fun px => rawpx_len px = n /\ rawpx_W px) (from_bytes bs fmt).
Proof.
  intros Hn Hl HW. unfold from_bytes. destruct fmt as [| |t]; cbn [bytes_per_pixel] in Hl.
  - destruct (zlen bs mod 4 =? 0); [|exact I]. cbn [okres rawpx_len rawpx_W]. split.
    + apply zlen_group4; assumption.
    + apply (group4_W (length bs)); [lia|exact HW].
  - destruct (zlen bs mod 2 =? 0); [|exact I]. cbn [okres rawpx_len rawpx_W]. split.
    + apply zlen_group2; assumption.
    + apply (group2_W (length bs)); [lia|exact HW].
  - cbn [okres rawpx_len rawpx_W]. split; [lia|exact I].
Qed.
End PixPred.

Lemma take_bytes_ok rest limit : bytes rest -> 0 <= limit ->
  okres (fun out => zlen out = limit /\ bytes out) (take_bytes rest limit).
Proof.
  intros Hb Hl. unfold take_bytes. destruct (Z.ltb_spec (zlen rest) limit) as [H|H]; [exact I|].
  cbn [okres]. split; [|apply bytes_firstn; exact Hb]. unfold zlen in *. rewrite firstn_length. lia.
Qed.

(* ------------------------------------------------------------------ *)
(* the chunk decoders *)

Section Decoders.
Variable inflate : list Z -> Z -> zres.
(* a predicate on the channel values of pixels that holds for bytes of the input and for
   what `inflate` returns: `fun _ => True` for any inflate; `is_byte` for one that yields bytes *)
Variable W : Z -> Prop.
Hypothesis W_byte : forall b, is_byte b -> W b.
Hypothesis W_inflate : forall z n out, inflate z n = ZOk out -> Forall W out.

Lemma bytes_W l : bytes l -> Forall W l.
Proof. intros H. eapply Forall_impl; [|exact H]. exact W_byte. Qed.

Lemma unzip_ok rest expected :
  okres (fun out => zlen out = expected /\ Forall W out) (unzip inflate rest expected).
Proof.
  unfold unzip. destruct (inflate rest (expected + 1)) as [out|k] eqn:E; [|exact I].
  destruct (Z.eqb_spec (zlen out) expected) as [H|H]; [|exact I]. cbn [okres]. split; [exact H|]. eapply W_inflate. exact E.
Qed.

Lemma safe_dec_color_profile : safe dec_color_profile (fun _ => True).
Proof. unfold dec_color_profile. safe_steps; exact I. Qed.

Lemma safe_dec_layer : safe dec_layer (fun _ => True).
Proof.
  unfold dec_layer. safe_steps. safe_triv_bind_as tyts; [safe_steps; exact I|].
  destruct tyts as [ty ts]. safe_steps. exact I.
Qed.

Definition pal_wf (m : palette) : Prop := forall k e, zfind k m = Some e -> pix_wf (pe_rgba e).

Lemma pal_wf_empty : pal_wf zempty.
Proof. intros k e H. rewrite zfind_zempty in H. discriminate. Qed.
Lemma pal_wf_add id e m : pix_wf (pe_rgba e) -> pal_wf m -> pal_wf (zadd id e m).
Proof. intros He Hm k e' H. apply zfind_zadd_cases in H. destruct H as [->|H]; [exact He|exact (Hm _ _ H)]. Qed.

Lemma safe_dec_pal_entry st : pal_wf (snd st) -> safe (dec_pal_entry st) (fun st' => pal_wf (snd st')).
Proof.
  intros Hm. destruct st as [id m]. unfold dec_pal_entry. safe_steps.
  safe_triv_bind; [safe_steps; exact I|]. safe_steps. cbn [snd] in *.
  apply pal_wf_add; [|exact Hm]. cbn [pe_rgba pix_wf]. repeat (split; [assumption|]). assumption.
Qed.

Lemma safe_dec_palette : safe dec_palette pal_wf.
Proof.
  unfold dec_palette. safe_steps.
  eapply safe_bind; [apply (safe_iterZ _ _ _ (fun st => pal_wf (snd st))); [exact pal_wf_empty|]|].
  - intros st Hst. apply safe_dec_pal_entry. exact Hst.
  - intros st Hst. safe_steps. exact Hst.
Qed.

Lemma scale_6bit_byte c : 0 <= c < 64 -> is_byte (Z.lor (Z.shiftl c 2) (Z.shiftr c 4)).
Proof.
  intros Hc. assert (H : forallb (fun c => is_byteb (Z.lor (Z.shiftl c 2) (Z.shiftr c 4))) (ziota 64) = true)
    by (vm_compute; reflexivity).
  rewrite forallb_forall in H. specialize (H c ltac:(apply in_ziota; lia)). unfold is_byteb in H. unfold is_byte.
  apply andb_prop in H. destruct H as [H1 H2]. apply Z.leb_le in H1. apply Z.ltb_lt in H2. lia.
Qed.

Lemma safe_scale_opt (six : bool) r : is_byte r -> safe (if six then scale_6bit r else Ret r) is_byte.
Proof.
  intros Hr. destruct six; [|apply safe_ret; exact Hr]. unfold scale_6bit.
  destruct (Z.leb_spec 64 r); [apply safe_fail|apply safe_ret]. apply scale_6bit_byte. unfold is_byte in Hr. lia.
Qed.

Lemma safe_dec_old_color six st : pal_wf (snd st) -> safe (dec_old_color six st) (fun st' => pal_wf (snd st')).
Proof.
  intros Hm. destruct st as [id m]. unfold dec_old_color.
  safe_step. eapply safe_bind; [apply safe_scale_opt; assumption|]. intros r Hr.
  safe_step. eapply safe_bind; [apply safe_scale_opt; assumption|]. intros g Hg.
  safe_step. eapply safe_bind; [apply safe_scale_opt; assumption|]. intros b Hb.
  safe_step. cbn [snd] in *. apply pal_wf_add; [|exact Hm]. cbn [pe_rgba pix_wf]. unfold is_byte in *. repeat split; lia.
Qed.

Lemma safe_dec_old_packet six st : pal_wf (snd st) -> safe (dec_old_packet six st) (fun st' => pal_wf (snd st')).
Proof.
  intros Hm. destruct st as [skip0 m]. unfold dec_old_packet. safe_steps.
  all: (eapply safe_bind; [apply (safe_iterZ _ _ _ (fun st => pal_wf (snd st))); [exact Hm|intros st Hst; apply safe_dec_old_color; exact Hst]|]).
  all: intros st Hst; safe_steps; exact Hst.
Qed.

Lemma safe_dec_old_palette six : safe (dec_old_palette six) pal_wf.
Proof.
  unfold dec_old_palette. safe_steps.
  eapply safe_bind; [apply (safe_iterZ _ _ _ (fun st => pal_wf (snd st))); [exact pal_wf_empty|]|].
  - intros st Hst. apply safe_dec_old_packet. exact Hst.
  - intros st Hst. safe_steps. exact Hst.
Qed.

Lemma safe_dec_tag acc : safe (dec_tag acc) (fun acc' => zlen acc' = zlen acc + 1).
Proof. unfold dec_tag. safe_steps. apply zlen_cons. Qed.

Lemma safe_dec_tags : safe dec_tags (fun ts => zlen ts <= 65535).
Proof.
  unfold dec_tags. safe_steps.
  eapply safe_bind; [apply (safe_iterZ_idx _ _ _ (fun j acc => zlen acc = j)); [reflexivity|]|].
  - intros j acc Hj Hacc. eapply safe_weaken; [apply safe_dec_tag|]. intros acc' Hacc'. cbv beta in Hacc'. lia.
  - intros acc Hacc. cbv beta in Hacc. safe_steps. rewrite zlen_rev. lia.
Qed.

Lemma safe_dec_slice_key flags acc : safe (dec_slice_key flags acc) (fun _ => True).
Proof.
  unfold dec_slice_key. safe_steps.
  all: safe_triv_bind; [safe_steps; exact I|].
  all: safe_triv_bind; [safe_steps; exact I|].
  all: safe_steps; exact I.
Qed.

Lemma safe_dec_slice : safe dec_slice (fun _ => True).
Proof.
  unfold dec_slice. safe_steps. safe_triv_bind.
  - apply safe_iterZ; [exact I|]. intros acc _. apply safe_dec_slice_key.
  - safe_steps. exact I.
Qed.

Lemma safe_dec_userdata : safe dec_userdata (fun _ => True).
Proof.
  unfold dec_userdata. safe_steps.
  safe_triv_bind; [safe_steps; exact I|]. safe_triv_bind; [safe_steps; exact I|]. safe_steps. exact I.
Qed.

Lemma safe_dec_external : safe dec_external (fun _ => True).
Proof.
  unfold dec_external. safe_steps. safe_triv_bind.
  - apply safe_iterZ; [exact I|]. intros acc _. unfold dec_ext_entry. safe_steps. exact I.
  - safe_steps. exact I.
Qed.

(* ---------------- tilesets ---------------- *)
Definition rawts_ok (t : tileset rawpixels) : Prop :=
  1 <= ts_w t < 65536 /\ 1 <= ts_h t < 65536 /\ 0 <= ts_count t /\
  forall px, ts_pixels t = Some px ->
    ts_count t * ts_h t * ts_w t < 4294967296 /\
    rawpx_len px = ts_count t * ts_h t * ts_w t /\ rawpx_W W px.

Lemma safe_dec_tileset_hdr :
  safe dec_tileset_hdr (fun tb => rawts_ok (fst tb) /\ ts_pixels (fst tb) = None).
Proof.
  unfold dec_tileset_hdr. safe_steps.
  safe_triv_bind; [safe_steps; exact I|]. safe_triv_bind; [safe_steps; exact I|]. safe_steps.
  cbn [fst]. split; [|reflexivity]. unfold rawts_ok. cbn [ts_w ts_h ts_count ts_pixels].
  apply orb_false_elim in Eif. destruct Eif as [E1 E2]. apply Z.eqb_neq in E1. apply Z.eqb_neq in E2.
  repeat split; try lia. all: discriminate.
Qed.

Lemma bpp_pos fmt : 0 < bytes_per_pixel fmt.
Proof. destruct fmt; cbn [bytes_per_pixel]; lia. Qed.

Lemma dec_tileset_ok fmt buf : bytes buf -> okres rawts_ok (dec_tileset inflate fmt buf).
Proof.
  intros Hb. unfold dec_tileset. eapply okres_rbind; [apply safe_dec_tileset_hdr; exact Hb|].
  intros [[t has] rest] [[Ht Hnone] Hrest]. cbn [fst snd] in *.
  destruct has; cbn [negb]; [|exact Ht].
  destruct (Z.leb_spec 4294967296 (ts_count t * ts_h t * ts_w t)) as [Hbig|Hsmall]; [exact I|].
  eapply okres_rbind; [apply unzip_ok|]. intros out [Hlen HW].
  destruct Ht as (Hw & Hh & Hc & _).
  assert (Hexp : 0 <= ts_count t * ts_h t * ts_w t).
  { apply Z.mul_nonneg_nonneg; [apply Z.mul_nonneg_nonneg|]; lia. }
  eapply okres_rbind; [apply (from_bytes_ok W out fmt (ts_count t * ts_h t * ts_w t)); [exact Hexp|exact Hlen|exact HW]|].
  intros px [Hpl HpW]. cbn [okres]. unfold rawts_ok, set_ts_pixels. cbn [ts_w ts_h ts_count ts_pixels].
  repeat split; try lia. all: injection H as <-; assumption.
Qed.

(* ---------------- cels ---------------- *)
Definition tm_ok (tm : tilemapdata) : Prop :=
  0 <= tm_w tm < 65536 /\ 0 <= tm_h tm < 65536 /\
  exists l, tm_tiles tm = arr_of_list l /\ zlen l = tm_w tm * tm_h tm /\ Forall (fun t => 0 <= t) l.

Definition rawcel_ok (c : cel rawpixels) : Prop :=
  0 <= cc_layer (c_data c) /\
  match c_content c with
  | CRaw w h px => 0 <= w < 65536 /\ 0 <= h < 65536 /\ rawpx_len px = w * h /\ rawpx_W W px
  | CLinked o => 0 <= o
  | CTilemap tm => tm_ok tm
  end.

Lemma safe_dec_size : safe dec_size (fun wh => 0 <= fst wh < 65536 /\ 0 <= snd wh < 65536).
Proof. unfold dec_size. safe_steps. cbn [fst snd]. lia. Qed.

Lemma safe_dec_tilemap_hdr :
  safe dec_tilemap_hdr (fun x => 0 <= fst (fst x) < 65536 /\ 0 <= snd (fst x) < 65536 /\ 0 <= snd x).
Proof. unfold dec_tilemap_hdr. safe_steps. cbn [fst snd]. lia. Qed.

Lemma dec_tilemap_ok rest : bytes rest -> okres tm_ok (dec_tilemap inflate rest).
Proof.
  intros Hb. unfold dec_tilemap. eapply okres_rbind; [apply safe_dec_tilemap_hdr; exact Hb|].
  intros [[[w h] idmask] rest'] [(Hw & Hh & Hm) Hrest]. cbn [fst snd] in *.
  assert (Hwh : 0 <= w * h) by (apply Z.mul_nonneg_nonneg; lia).
  eapply okres_rbind; [apply unzip_ok|]. intros out [Hlen _]. cbn [okres]. unfold tm_ok. cbn [tm_w tm_h tm_tiles].
  split; [exact Hw|]. split; [exact Hh|]. eexists. split; [reflexivity|]. split.
  - rewrite zlen_map. apply zlen_group_dwords; assumption.
  - apply Forall_forall. intros t Ht. apply in_map_iff in Ht. destruct Ht as (bits & <- & _).
    apply Z.land_nonneg. right. exact Hm.
Qed.

Lemma safe_dec_cel_hdr : safe dec_cel_hdr (fun hc => 0 <= cc_layer (fst hc)).
Proof. unfold dec_cel_hdr. safe_steps. cbn [fst cc_layer]. lia. Qed.

Lemma dec_cel_ok fmt buf : bytes buf -> okres rawcel_ok (dec_cel inflate fmt buf).
Proof.
  intros Hb. unfold dec_cel. eapply okres_rbind; [apply safe_dec_cel_hdr; exact Hb|].
  intros [[common cel_type] rest] [Hl Hrest]. cbn [fst snd] in *.
  eapply (okres_rbind (fun content => rawcel_ok {| c_data := common; c_content := content; c_ud := None |})).
  2:{ intros content H. exact H. }
  unfold rawcel_ok. cbn [c_data c_content].
  pose proof (bpp_pos fmt) as Hbpp.
  destruct (cel_type =? 0).
  { eapply okres_rbind; [apply safe_dec_size; exact Hrest|]. intros [[w h] rest'] [[Hw Hh] Hrest']. cbn [fst snd] in *.
    assert (Hwh : 0 <= w * h) by (apply Z.mul_nonneg_nonneg; lia).
    eapply okres_rbind; [apply take_bytes_ok; [exact Hrest'|apply Z.mul_nonneg_nonneg; lia]|]. intros out [Hlen Hout].
    eapply okres_rbind; [apply (from_bytes_ok W out fmt (w * h)); [exact Hwh|exact Hlen|apply bytes_W; exact Hout]|].
    intros px [Hpl HpW]. cbn [okres]. repeat split; try lia; assumption. }
  destruct (cel_type =? 1).
  { eapply okres_rbind; [apply safe_word; exact Hrest|]. intros [f r] [Hf _]. cbn [fst okres] in *. split; [exact Hl|lia]. }
  destruct (cel_type =? 2).
  { eapply okres_rbind; [apply safe_dec_size; exact Hrest|]. intros [[w h] rest'] [[Hw Hh] Hrest']. cbn [fst snd] in *.
    assert (Hwh : 0 <= w * h) by (apply Z.mul_nonneg_nonneg; lia).
    eapply okres_rbind; [apply unzip_ok|]. intros out [Hlen Hout].
    eapply okres_rbind; [apply (from_bytes_ok W out fmt (w * h)); [exact Hwh|exact Hlen|exact Hout]|].
    intros px [Hpl HpW]. cbn [okres]. repeat split; try lia; assumption. }
  destruct (cel_type =? 3); [|exact I].
  eapply okres_rbind; [apply dec_tilemap_ok; exact Hrest|]. intros tm Htm. cbn [okres]. split; [exact Hl|exact Htm].
Qed.

End Decoders.

(* ------------------------------------------------------------------ *)
(* the invariant of ParseInfo *)

Ltac pi_cbn :=
  cbn [pi_palette pi_layers_rev pi_nlayers pi_cels pi_nframes pi_default_time pi_times pi_tags pi_ext
       pi_tilesets pi_sprite_ud pi_ctx pi_slices_rev pi_nslices
       with_palette with_layers with_cels with_times with_tags with_ext with_tilesets with_sprite_ud
       with_ctx with_slices add_layer add_tags add_external_files add_slice pinfo_new] in *.

Lemma nthz_single_none {A} i (x : A) : nthz [@None A] i = Some (Some x) -> False.
Proof. intros H. apply nthz_In in H. destruct H as [H|[]]. discriminate. Qed.

Section Assembly.
Variable inflate : list Z -> Z -> zres.
Variable W : Z -> Prop.
Hypothesis W_byte : forall b, is_byte b -> W b.
Hypothesis W_inflate : forall z n out, inflate z n = ZOk out -> Forall W out.

(* a row holds cels only below the layer count, each at the index of its own layer *)
Definition row_ok (n : Z) (r : row rawpixels) : Prop :=
  forall i c, nthz r i = Some (Some c) -> i < n /\ cc_layer (c_data c) = i /\ rawcel_ok W c.

Definition table_ok (nframes n : Z) (t : celtable rawpixels) : Prop :=
  forall k r, zfind k t = Some r -> k < nframes /\ row_ok n r.

Record PInv (p : pinfo) : Prop := {
  pv_nlayers : pi_nlayers p = zlen (pi_layers_rev p);
  pv_tags : forall ts, pi_tags p = Some ts -> zlen ts <= 65535;
  pv_cels : table_ok (pi_nframes p) (pi_nlayers p) (pi_cels p);
  pv_tilesets : forall k t, zfind k (pi_tilesets p) = Some t -> rawts_ok W t;
  pv_palette : forall m, pi_palette p = Some m -> pal_wf m }.

Lemma row_ok_mono n n' r : n <= n' -> row_ok n r -> row_ok n' r.
Proof. intros Hn H i c Hi. destruct (H i c Hi) as (H1 & H2 & H3). split; [lia|split; assumption]. Qed.

Lemma table_ok_mono nf n n' t : n <= n' -> table_ok nf n t -> table_ok nf n' t.
Proof. intros Hn H k r Hk. destruct (H k r Hk) as [H1 H2]. split; [exact H1|]. eapply row_ok_mono; eassumption. Qed.

Lemma row_ok_get_row nf n t k : table_ok nf n t -> row_ok n (get_row t k).
Proof.
  intros Ht. unfold get_row. destruct (zfind k t) as [r|] eqn:E; [exact (proj2 (Ht k r E))|].
  intros i c Hi. exfalso. exact (nthz_single_none _ _ Hi).
Qed.

Lemma PInv_new nf dt : PInv (pinfo_new nf dt).
Proof.
  split; pi_cbn.
  - reflexivity.
  - discriminate.
  - intros k r H. rewrite zfind_zempty in H. discriminate.
  - intros k t H. rewrite zfind_zempty in H. discriminate.
  - discriminate.
Qed.

(* CelsData::add_cel: the row is extended first, so the index exists (no Panic 101) *)
Lemma table_add_cel_ok t nf n frame_id c :
  table_ok nf n t -> 0 <= frame_id -> rawcel_ok W c -> cc_layer (c_data c) < n ->
  okres (table_ok nf n) (table_add_cel t nf frame_id c).
Proof.
  intros Ht Hf Hc Hl. unfold table_add_cel. destruct (Z.leb_spec nf frame_id) as [Hge|Hlt]; [exact I|].
  pose proof (proj1 Hc) as Hl0.
  set (r0 := get_row t frame_id).
  set (r := if zlen r0 <? cc_layer (c_data c) + 1
            then r0 ++ repeat_none (Z.to_nat (cc_layer (c_data c) + 1 - zlen r0)) else r0).
  assert (Hr0 : row_ok n r0) by (apply (row_ok_get_row nf); exact Ht).
  assert (Hr : row_ok n r).
  { subst r. destruct (zlen r0 <? cc_layer (c_data c) + 1); [|exact Hr0].
    intros i c0 Hi. apply nthz_app_repeat_none in Hi. exact (Hr0 i c0 Hi). }
  assert (Hlen : cc_layer (c_data c) < zlen r).
  { subst r. destruct (Z.ltb_spec (zlen r0) (cc_layer (c_data c) + 1)) as [H|H]; [|lia].
    rewrite zlen_app. unfold zlen at 2. rewrite repeat_none_length. lia. }
  destruct (nthz r (cc_layer (c_data c))) as [[c0|]|] eqn:E.
  - exact I.
  - cbn [okres]. intros k r' Hk. apply zfind_zadd_key in Hk; [|exact Hf]. destruct Hk as [[-> ->]|[_ Hk]]; [|exact (Ht k r' Hk)].
    split; [exact Hlt|]. intros i c1 Hi. apply nthz_upd_nth in Hi; [|exact Hl0].
    destruct Hi as [[-> [= ->]]|[_ Hi]]; [|exact (Hr i c1 Hi)]. split; [exact Hl|split; [reflexivity|exact Hc]].
  - apply nthz_none in E. lia.
Qed.

Definition step_post (p p' : pinfo) : Prop := PInv p' /\ pi_nframes p' = pi_nframes p.

Lemma add_cel_ok p frame_id c : PInv p -> 0 <= frame_id -> rawcel_ok W c -> okres (step_post p) (add_cel p frame_id c).
Proof.
  intros [H1 H2 H3 H4 H5] Hf Hc. unfold add_cel. destruct (Z.leb_spec (pi_nlayers p) (cc_layer (c_data c))) as [Hge|Hlt]; [exact I|].
  eapply okres_rbind; [apply (table_add_cel_ok _ _ (pi_nlayers p)); eassumption|].
  intros t Ht. cbn [okres]. split; [|reflexivity]. split; pi_cbn; assumption.
Qed.

Lemma add_layer_ok p l : PInv p -> step_post p (add_layer p l).
Proof.
  intros [H1 H2 H3 H4 H5]. split; [|reflexivity]. split; pi_cbn; try assumption.
  - rewrite zlen_cons. lia.
  - eapply table_ok_mono; [|exact H3]. lia.
Qed.

(* ParseInfo::add_user_data: the tag index stays below 65535 (no Panic 102) *)
Lemma add_user_data_ok p u : PInv p -> okres (step_post p) (add_user_data p u).
Proof.
  intros [H1 H2 H3 H4 H5]. unfold add_user_data. destruct (pi_ctx p) as [[f l|i| |i|i]|]; [| | | | |exact I].
  - unfold table_set_cel_ud.
    destruct (nthz (get_row (pi_cels p) f) l) as [[c|]|] eqn:E; try exact I. cbn [okres].
    split; [|reflexivity]. split; pi_cbn; try assumption.
    pose proof (nthz_some _ _ _ E) as Hl.
    assert (Hrow : row_ok (pi_nlayers p) (get_row (pi_cels p) f)) by (eapply row_ok_get_row; exact H3).
    assert (Hf : exists r, zfind f (pi_cels p) = Some r).
    { unfold get_row in E. destruct (zfind f (pi_cels p)) as [r|]; [eauto|]. exfalso. exact (nthz_single_none _ _ E). }
    destruct Hf as [r0 Hr0]. pose proof (zfind_some_nonneg _ _ _ Hr0) as Hf0.
    intros k r' Hk. apply zfind_zadd_key in Hk; [|exact Hf0]. destruct Hk as [[-> ->]|[_ Hk]]; [|exact (H3 k r' Hk)].
    split; [exact (proj1 (H3 _ _ Hr0))|]. intros i c1 Hi. apply nthz_upd_nth in Hi; [|lia].
    destruct Hi as [[-> [= ->]]|[_ Hi]]; [|exact (Hrow i c1 Hi)].
    destruct (Hrow _ _ E) as (Ha & Hb & Hc). split; [exact Ha|split; [exact Hb|exact Hc]].
  - unfold upd_rev. destruct (nthz (pi_layers_rev p) (rev_index (pi_nlayers p) i)) as [x|]; [|exact I]. cbn [okres].
    split; [|reflexivity]. split; pi_cbn; try assumption. rewrite zlen_upd_nth. exact H1.
  - cbn [okres]. split; [|reflexivity]. split; pi_cbn; assumption.
  - destruct (pi_tags p) as [ts|] eqn:Et; [|exact I]. destruct (nthz ts i) as [t|] eqn:En; [|exact I].
    apply nthz_some in En. specialize (H2 ts eq_refl). destruct (Z.leb_spec 65535 i) as [Hi|Hi]; [lia|]. cbn [okres].
    split; [|reflexivity]. split; pi_cbn; try assumption. intros ts' [= <-]. rewrite zlen_upd_nth. exact H2.
  - unfold upd_rev. destruct (nthz (pi_slices_rev p) (rev_index (pi_nslices p) i)) as [x|]; [|exact I]. cbn [okres].
    split; [|reflexivity]. split; pi_cbn; assumption.
Qed.

(* the `match chunk_type` of parse_frame *)
Lemma process_chunk_ok fmt frame_id p ch : PInv p -> 0 <= frame_id -> bytes (snd ch) ->
  okres (step_post p) (process_chunk inflate fmt frame_id p ch).
Proof.
  intros HP Hf Hb. destruct ch as [ty data]. cbn [snd] in Hb. unfold process_chunk.
  assert (Hsame : forall p', PInv p' -> pi_nframes p' = pi_nframes p -> okres (step_post p) (Ok p')).
  { intros p' H1 H2. split; assumption. }
  destruct (ty =? 8199).
  { eapply okres_rbind; [apply safe_run_payload; [apply safe_dec_color_profile|exact Hb]|]. intros _ _. split; [exact HP|reflexivity]. }
  destruct (ty =? 8217).
  { eapply okres_rbind; [apply safe_run_payload; [apply safe_dec_palette|exact Hb]|]. intros pal Hpal.
    destruct HP as [H1 H2 H3 H4 H5]. apply Hsame; [|reflexivity]. split; pi_cbn; try assumption. intros m [= <-]. exact Hpal. }
  destruct (ty =? 8196).
  { eapply okres_rbind; [apply safe_run_payload; [apply safe_dec_layer|exact Hb]|]. intros l _. apply add_layer_ok. exact HP. }
  destruct (ty =? 8197).
  { eapply okres_rbind; [apply (dec_cel_ok inflate W W_byte W_inflate); exact Hb|]. intros c Hc. apply add_cel_ok; assumption. }
  destruct (ty =? 8200).
  { eapply okres_rbind; [apply safe_run_payload; [apply safe_dec_external|exact Hb]|]. intros fs _.
    destruct HP as [H1 H2 H3 H4 H5]. apply Hsame; [|reflexivity]. split; pi_cbn; assumption. }
  destruct (ty =? 8216).
  { eapply okres_rbind; [apply safe_run_payload; [apply safe_dec_tags|exact Hb]|]. intros ts Hts. cbv beta in Hts.
    destruct (frame_id =? 0); [|split; [exact HP|reflexivity]].
    destruct HP as [H1 H2 H3 H4 H5]. apply Hsame; [|reflexivity]. split; pi_cbn; try assumption. intros ts' [= <-]. exact Hts. }
  destruct (ty =? 8226).
  { eapply okres_rbind; [apply safe_run_payload; [apply safe_dec_slice|exact Hb]|]. intros s _.
    destruct HP as [H1 H2 H3 H4 H5]. apply Hsame; [|reflexivity]. split; pi_cbn; assumption. }
  destruct (ty =? 8224).
  { eapply okres_rbind; [apply safe_run_payload; [apply safe_dec_userdata|exact Hb]|]. intros u _. apply add_user_data_ok. exact HP. }
  destruct ((ty =? 4) || (ty =? 17)).
  { assert (HP' : PInv (with_ctx p (Some UOldPalette))).
    { destruct HP as [H1 H2 H3 H4 H5]. split; pi_cbn; assumption. }
    destruct (pi_palette (with_ctx p (Some UOldPalette))) as [m|] eqn:Em; [apply Hsame; [exact HP'|reflexivity]|].
    eapply okres_rbind; [apply safe_run_payload; [apply safe_dec_old_palette|exact Hb]|]. intros pal Hpal.
    destruct HP as [H1 H2 H3 H4 H5]. apply Hsame; [|reflexivity]. split; pi_cbn; try assumption. intros m [= <-]. exact Hpal. }
  destruct (ty =? 8227).
  { eapply okres_rbind; [apply (dec_tileset_ok inflate W W_inflate); exact Hb|]. intros t Ht.
    destruct HP as [H1 H2 H3 H4 H5]. apply Hsame; [|reflexivity]. split; pi_cbn; try assumption.
    intros k t' Hk. apply zfind_zadd_cases in Hk. destruct Hk as [->|Hk]; [exact Ht|exact (H4 k t' Hk)]. }
  split; [exact HP|reflexivity].
Qed.

Definition chunks_bytes (l : list (Z * list Z)) : Prop := Forall (fun ch => bytes (snd ch)) l.

Lemma safe_read_chunk st : chunks_bytes (fst st) -> safe (read_chunk st) (fun st' => chunks_bytes (fst st')).
Proof.
  intros Hst. destruct st as [acc avail]. unfold read_chunk. safe_steps. cbn [fst] in *. constructor; assumption.
Qed.

Lemma step_post_trans p p' p'' : step_post p p' -> step_post p' p'' -> step_post p p''.
Proof. intros [_ H1] [H2 H3]. split; [exact H2|congruence]. Qed.

(* parse_frame: frame_times[frame_id] is in range (no Crash 103) when the caller's index is *)
Lemma safe_parse_frame fmt p frame_id : PInv p -> 0 <= frame_id < pi_nframes p ->
  safe (parse_frame inflate fmt p frame_id) (step_post p).
Proof.
  intros HP Hf. unfold parse_frame; rewrite ?frev_eq. safe_steps.
  { lia. }
  set (p1 := with_times p _).
  assert (HP1 : step_post p p1).
  { subst p1. destruct HP as [H1 H2 H3 H4 H5]. split; [|reflexivity]. split; pi_cbn; assumption. }
  eapply safe_bind; [apply (safe_iterZ _ _ _ (fun st => chunks_bytes (fst st))); [constructor|]|].
  - intros st Hst. apply safe_read_chunk. exact Hst.
  - intros st Hst. rewrite frev_eq. apply safe_lift. cbv beta in Hst.
    assert (Hrev : chunks_bytes (rev (fst st))) by (apply Forall_rev; exact Hst).
    eapply okres_weaken.
    + apply (okres_rfold (step_post p)); [|exact HP1]. intros b ch Hb Hin.
      eapply okres_weaken; [apply process_chunk_ok; [exact (proj1 Hb)|lia|]|].
      * unfold chunks_bytes in Hrev. rewrite Forall_forall in Hrev. apply Hrev. exact Hin.
      * intros b' Hb'. eapply step_post_trans; eassumption.
    + intros b Hb. exact Hb.
Qed.

Definition hdr_ok (h : header) : Prop :=
  0 <= h_frames h < 65536 /\ 0 <= h_width h < 65536 /\ 0 <= h_height h < 65536.

Definition parsed_ok (hp : header * pinfo) : Prop :=
  PInv (snd hp) /\ pi_nframes (snd hp) = h_frames (fst hp) /\ hdr_ok (fst hp).

(* read_aseprite up to validation: the frame counter runs below the declared frame count *)
Lemma safe_parse_file : safe (parse_file inflate) parsed_ok.
Proof.
  unfold parse_file. safe_steps.
  eapply safe_bind; [apply (safe_lift _ (fun _ => True)); unfold parse_pixel_format; repeat match goal with |- context [if ?c then _ else _] => destruct c end; exact I|]. intros fmt _.
  match goal with |- context [pinfo_new ?n _] => set (nf := n) in * end.
  eapply safe_bind.
  - apply (safe_iterZ_idx _ _ _ (fun j st => snd st = j /\ PInv (fst st) /\ pi_nframes (fst st) = nf)).
    + cbn [fst snd]. split; [reflexivity|]. split; [apply PInv_new|reflexivity].
    + intros j [p k] Hj (Hk & HP & Hn). cbn [fst snd] in *. subst k. unfold parse_frames_step.
      eapply safe_bind; [apply safe_parse_frame; [exact HP|lia]|]. intros p' [HP' Hn']. apply safe_ret. cbn [fst snd].
      split; [reflexivity|]. split; [exact HP'|congruence].
  - intros [p k] (Hk & HP & Hn). cbn [fst snd] in *. apply safe_ret. unfold parsed_ok, hdr_ok. cbn [fst snd h_frames h_width h_height].
    split; [exact HP|]. split; [exact Hn|]. lia.
Qed.

Lemma parse_file_inv bs h p rest : bytes bs -> run (parse_file inflate) bs = Ok ((h, p), rest) ->
  PInv p /\ pi_nframes p = h_frames h /\ hdr_ok h.
Proof. intros Hb H. pose proof (safe_parse_file bs Hb) as HS. rewrite H in HS. exact (proj1 HS). Qed.

Theorem parse_file_total bs s : bytes bs -> run (parse_file inflate) bs <> Panic s.
Proof. intros Hb. eapply okres_not_panic. apply safe_parse_file. exact Hb. Qed.

(* ------------------------------------------------------------------ *)
(* validation *)

Lemma validate_pixels_nopanic pal fmt bg rp : okres (fun _ => True) (validate_pixels pal fmt bg rp).
Proof.
  unfold validate_pixels. destruct rp as [l|l|l]; try exact I. destruct pal as [m|]; [|exact I].
  destruct (forallb _ l); [|exact I]. destruct fmt; exact I.
Qed.

Lemma validate_tilesets_nopanic pal fmt m : okres (fun _ => True) (validate_tilesets pal fmt m).
Proof.
  unfold validate_tilesets. apply (okres_rfold (fun _ => True)); [|exact I]. intros acc kv _ _.
  eapply okres_rbind with (P := fun _ => True); [|intros t _; exact I]. unfold validate_tileset. destruct (ts_pixels (snd kv)) as [rp|]; [|exact I].
  eapply okres_rbind; [apply validate_pixels_nopanic|]. intros px _. exact I.
Qed.

(* RawCel::validate: the layer of a stored cel exists (no Panic 105), link targets are looked
   up only in range (no Panic 104) *)
Lemma validate_cel_nopanic ls tss pal fmt t nframes nlayers layer_id c :
  0 <= layer_id < zlen ls -> rawcel_ok W c ->
  okres (fun _ => True) (validate_cel (arr_of_list ls) tss pal fmt t nframes nlayers layer_id c).
Proof.
  intros Hl [_ Hc]. unfold validate_cel. eapply okres_rbind with (P := fun _ => True); [|intros content _; exact I].
  destruct (nthz_in_range ls layer_id Hl) as [l El].
  destruct (c_content c) as [w h rp|other|tm].
  - rewrite aget_arr_of_list, El. eapply okres_rbind; [apply validate_pixels_nopanic|]. intros px _. exact I.
  - destruct ((other <? nframes) && (layer_id <? nlayers)) eqn:E; [|exact I].
    apply andb_prop in E. destruct E as [E1 _]. apply Z.ltb_lt in E1.
    eapply okres_rbind with (P := fun _ => True); [|intros tgt _; destruct tgt as [c'|]; [destruct (is_linked c')|]; exact I].
    unfold table_cel. destruct (Z.ltb_spec other 0) as [H|H]; [lia|]. destruct (Z.leb_spec nframes other) as [H'|H']; [lia|].
    cbn [orb]. destruct (nthz (get_row t other) layer_id); exact I.
  - rewrite aget_arr_of_list, El. destruct (l_type l =? 2); [|exact I].
    destruct (arr_max (arr_to_list (tm_tiles tm)) None) as [mx|]; [|exact I].
    destruct (_ <=? mx); exact I.
Qed.

Lemma validate_row_nopanic ls tss pal fmt t nframes nlayers : forall r id, 0 <= id ->
  (forall i c, nthz r i = Some (Some c) -> id + i < zlen ls /\ rawcel_ok W c) ->
  okres (fun _ => True) (validate_row (arr_of_list ls) tss pal fmt t nframes nlayers r id).
Proof.
  induction r as [|oc rest IH]; intros id Hid Hr; cbn [validate_row]; [exact I|].
  eapply okres_rbind with (P := fun _ => True).
  - destruct oc as [c|]; [|exact I]. destruct (Hr 0 c (nthz_cons_0 _ _)) as [H1 H2].
    eapply okres_rbind; [apply validate_cel_nopanic; [lia|exact H2]|]. intros c' _. exact I.
  - intros oc' _. eapply okres_rbind with (P := fun _ => True); [|intros rest' _; exact I]. apply IH; [lia|].
    intros i c Hi. pose proof (nthz_some _ _ _ Hi) as Hrange. specialize (Hr (i + 1) c).
    rewrite nthz_cons_succ in Hr by lia. specialize (Hr Hi). split; [lia|apply Hr].
Qed.

Lemma validate_nopanic h p : PInv p -> okres (fun _ => True) (validate h p).
Proof.
  intros [H1 H2 H3 H4 H5]. unfold validate; rewrite ?frev_eq.
  eapply okres_rbind with (P := fun _ => True).
  { destruct (compute_parents (rev (pi_layers_rev p))) as [ps|e|s] eqn:E; try exact I. exact (parents_no_panic _ _ E). }
  intros parents _. eapply okres_rbind; [apply validate_tilesets_nopanic|]. intros tss _.
  eapply okres_rbind with (P := fun _ => True); [unfold validate_layers; destruct (forallb _ _); exact I|]. intros _ _.
  eapply okres_rbind with (P := fun _ => True); [|intros cels _; exact I].
  unfold validate_cels. apply (okres_rfold (fun _ => True)); [|exact I]. intros acc [k r] _ Hin. cbn [fst snd].
  eapply okres_rbind with (P := fun _ => True); [|intros r' _; exact I]. apply in_zelements in Hin. destruct (H3 k r Hin) as [_ Hrow].
  apply validate_row_nopanic; [lia|]. intros i c Hi. destruct (Hrow i c Hi) as (Ha & Hb & Hc).
  rewrite zlen_rev, <- H1. split; [lia|exact Hc].
Qed.

End Assembly.

(* ------------------------------------------------------------------ *)
(* C04 *)

Section Load.
Variable inflate : list Z -> Z -> zres.

Let W0 : Z -> Prop := fun _ => True.
Lemma W0_byte : forall b, is_byte b -> W0 b. Proof. intros; exact I. Qed.
Lemma W0_inflate : forall z n out, inflate z n = ZOk out -> Forall W0 out.
Proof. intros z n out _. apply Forall_forall. intros; exact I. Qed.

Theorem parse_no_panic bs s : bytes bs -> run (parse_file inflate) bs <> Panic s.
Proof. exact (parse_file_total inflate W0 W0_byte W0_inflate bs s). Qed.

Theorem validate_after_parse_no_panic bs rest h p s :
  bytes bs -> run (parse_file inflate) bs = Ok ((h, p), rest) -> validate h p <> Panic s.
Proof.
  intros Hb Hr. destruct (parse_file_inv inflate W0 W0_byte W0_inflate bs h p rest Hb Hr) as (HP & _ & _).
  eapply okres_not_panic. apply (validate_nopanic W0). exact HP.
Qed.

Theorem load_no_panic bs s : bytes bs -> load inflate bs <> Panic s.
Proof.
  intros Hb. unfold load, load_rest.
  pose proof (safe_parse_file inflate W0 W0_byte W0_inflate bs Hb) as HS.
  destruct (run (parse_file inflate) bs) as [[[h p] rest]|e|s'] eqn:R; cbn [okres rbind rmap fst snd] in *; [|discriminate|contradiction].
  destruct HS as [(HP & _ & _) _]. cbn [fst snd] in HP.
  pose proof (validate_nopanic W0 h p HP) as HV.
  destruct (validate h p) as [f|e|s']; cbn [okres rbind] in *; [discriminate|discriminate|contradiction].
Qed.

Theorem load_total bs : Forall is_byte bs ->
  (exists f, load inflate bs = Ok f) \/ (exists e, load inflate bs = Err e).
Proof.
  intros Hb. destruct (load inflate bs) as [f|e|s] eqn:L; [left; eauto|right; eauto|].
  exfalso. exact (load_no_panic bs s Hb L).
Qed.

End Load.

(* ------------------------------------------------------------------ *)
(* non-vacuity, and why the byte hypothesis is there *)
From Ase Require Import Proofs.Truncation.

Example mini_file_load_total :
  Forall is_byte mini_file /\ exists f, load no_inflate mini_file = Ok f.
Proof.
  split.
  - apply Forall_forall. intros b Hb. pose proof mini_file_bytes as H. rewrite forallb_forall in H. specialize (H b Hb).
    unfold is_byteb in H. apply andb_prop in H. destruct H as [H1 H2]. apply Z.leb_le in H1. apply Z.ltb_lt in H2.
    unfold is_byte. lia.
  - destruct (load no_inflate mini_file) as [f|e|s] eqn:L; [eauto| |]; exfalso; revert L; vm_compute; discriminate.
Qed.

(* one frame with one linked-cel chunk whose layer word is [x; 0] *)
Definition cel_frame (x : Z) : list Z :=
  e_dword 40 ++ e_word 61946 ++ e_word 1 ++ e_word 100 ++ [0; 0] ++ e_dword 0 ++
  e_dword 24 ++ e_word 8197 ++ [x; 0] ++ e_short 0 ++ e_short 0 ++ [255] ++ e_word 1 ++ repeat 0 7 ++ e_word 0.

(* with bytes: a cel on an undeclared layer is an error value *)
Example byte_cel_is_error : load no_inflate (mini_header ++ cel_frame 0) = Err EInvalid.
Proof. vm_compute. reflexivity. Qed.
(* the list element -1 is not a byte; the model then reaches the index panic of add_cel.  This is
   an artefact of list Z as the input type, not a defect: `load_total` excludes it by Forall is_byte *)
Example nonbyte_reaches_101 : load no_inflate (mini_header ++ cel_frame (-1)) = Panic 101.
Proof. vm_compute. reflexivity. Qed.
