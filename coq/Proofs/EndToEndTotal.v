(* C01 end to end, the other half: WHEN a serialised program loads.
   Proofs/EndToEnd.v reduces `load (serialize s)` to the fold of `step` over events_of s followed
   by `validate`.  Here: a declarative condition on the events (`events_ok`: every cel names a
   declared layer and a free (frame, layer) slot, every user-data record has an owner, after a
   tags chunk there are no more records than tags) under which the fold succeeds, and conditions
   on the program (`sprite_ok`: parents computable, no tiles, pixels covered by the palette,
   linked cels point at image cels) under which validation succeeds.  Hence
   load_serialize_total: such a program loads, and all e2e_* facts hold of the result. *)
From Ase Require Import Model.Api Spec.Serialize.
From Ase Require Import Proofs.ITLemmas Proofs.ArrLemmas Proofs.RoundTrip Proofs.PaletteProofs.
From Ase Require Import Proofs.Factor Proofs.Neutral Proofs.UserData Proofs.Layers Proofs.EndToEnd.

(* ------------------------------------------------------------------ *)
(* 1. the fold *)

(* the tags in force after the events `done` (file order) *)
Definition cur_tags (done : list ev) : option (list tag) := fold_left ev_tags_step done None.

(* event e can be processed after the events `done` (file order) of a sprite with n frames *)
Definition ev_ok (n : Z) (done : list ev) (e : ev) : Prop :=
  match e with
  | ECel fr c =>
      0 <= fr < n /\ 0 <= cc_layer (c_data c) < count_layers (rev done) /\
      cel_at (flat_map ev_cel done) fr (cc_layer (c_data c)) = None
  | EUd _ =>
      match owner (rev done) with
      | None => False
      | Some (EntTag i) =>
          i < 65535 /\ match cur_tags done with Some ts => i < zlen ts | None => False end
      | Some _ => True
      end
  | _ => True
  end.

Fixpoint events_ok (n : Z) (done evs : list ev) : Prop :=
  match evs with
  | [] => True
  | e :: t => ev_ok n done e /\ events_ok n (done ++ [e]) t
  end.

(* ---- owner ---- *)

Lemma owner_layer_range r : forall i, owner r = Some (EntLayer i) -> 0 <= i < count_layers r.
Proof.
  induction r as [|x t IH]; intros i; cbn [owner count_layers]; [discriminate|].
  destruct x as [l|fr c|sl|ts|o|o|u]; try discriminate.
  - intros [= <-]. pose proof (count_layers_nonneg t). lia.
  - apply IH.
  - destruct (owner t) as [[j|fr l|j|j|]|] eqn:E; try discriminate. intros [= <-]. apply IH. reflexivity.
Qed.

Lemma count_slices_nonneg r : 0 <= count_slices r.
Proof. induction r as [|x t IH]; cbn [count_slices]; [lia|]. destruct x; lia. Qed.

Lemma owner_slice_range r : forall i, owner r = Some (EntSlice i) -> 0 <= i < count_slices r.
Proof.
  induction r as [|x t IH]; intros i; cbn [owner count_slices]; [discriminate|].
  destruct x as [l|fr c|sl|ts|o|o|u]; try discriminate.
  - intros [= <-]. pose proof (count_slices_nonneg t). lia.
  - apply IH.
  - destruct (owner t) as [[j|fr l|j|j|]|] eqn:E; try discriminate. intros [= <-]. apply IH. reflexivity.
Qed.

Lemma owner_tag_nonneg r : forall i, owner r = Some (EntTag i) -> 0 <= i.
Proof.
  induction r as [|x t IH]; intros i; cbn [owner]; [discriminate|].
  destruct x as [l|fr c|sl|ts|o|o|u]; try discriminate.
  - intros [= <-]. lia.
  - apply IH.
  - destruct (owner t) as [[j|fr l|j|j|]|] eqn:E; try discriminate. intros [= <-].
    specialize (IH j eq_refl). lia.
Qed.

Lemma owner_cel_in r : forall fr l,
  owner r = Some (EntCel fr l) -> exists c, In (ECel fr c) r /\ cc_layer (c_data c) = l.
Proof.
  induction r as [|x t IH]; intros fr l; cbn [owner]; [discriminate|].
  destruct x as [l0|f0 c|sl|ts|o|o|u]; try discriminate.
  - intros [= <- <-]. exists c. split; [left; reflexivity|reflexivity].
  - intros H. destruct (IH _ _ H) as (c & Hin & Hl). exists c. split; [right; exact Hin|exact Hl].
  - destruct (owner t) as [[j|f1 l1|j|j|]|] eqn:E; try discriminate. intros [= <- <-].
    destruct (IH _ _ eq_refl) as (c & Hin & Hl). exists c. split; [right; exact Hin|exact Hl].
Qed.

(* ---- the cel table ---- *)

Lemma zlen_repeat_none {A} k : zlen (@repeat_none A k) = Z.of_nat k.
Proof. induction k as [|k IH]; cbn [repeat_none]; [reflexivity|]. rewrite zlen_cons, IH. lia. Qed.

Lemma table_add_cel_total t n fr c :
  0 <= fr < n -> 0 <= cc_layer (c_data c) -> cel_slot t fr (cc_layer (c_data c)) = None ->
  exists t', table_add_cel t n fr c = Ok t'.
Proof.
  intros Hfr Hl Hslot. unfold table_add_cel. destruct (Z.leb_spec n fr) as [H|_]; [lia|].
  set (l := cc_layer (c_data c)) in *. set (r := get_row t fr).
  set (r' := if zlen r <? l + 1 then r ++ repeat_none (Z.to_nat (l + 1 - zlen r)) else r).
  assert (l < zlen r') as Hlen.
  { subst r'. destruct (Z.ltb_spec (zlen r) (l + 1)) as [Hlt|Hge]; [|lia].
    rewrite zlen_app, zlen_repeat_none. lia. }
  assert (match nthz r' l with Some (Some x) => Some x | _ => None end = None) as Hpad.
  { subst r'. destruct (zlen r <? l + 1); [rewrite slot_pad|]; exact Hslot. }
  destruct (nthz_in_range r' l ltac:(lia)) as (x & Hx). rewrite Hx in *.
  destruct x as [c0|]; [discriminate|]. eexists. reflexivity.
Qed.

Lemma cel_slot_set_total t fr l u c :
  cel_slot t fr l = Some c -> exists t', table_set_cel_ud t fr l u = Some t'.
Proof.
  unfold cel_slot, table_set_cel_ud. destruct (nthz (get_row t fr) l) as [[c0|]|]; try discriminate.
  intros _. eexists. reflexivity.
Qed.

Lemma find_some_in {A} (g : A -> bool) l x : In x l -> g x = true -> find g l <> None.
Proof. intros Hin Hg Hnone. rewrite (find_none _ _ Hnone _ Hin) in Hg. discriminate. Qed.

Lemma upd_rev_total {A} (l : list A) i (h : A -> A) :
  0 <= i < zlen l -> exists l', upd_rev l (zlen l) i h = Some l'.
Proof.
  intros Hi. unfold upd_rev, rev_index.
  destruct (nthz_in_range l (zlen l - 1 - i) ltac:(lia)) as (x & Hx). rewrite Hx. eexists. reflexivity.
Qed.

(* ---- the frame count ---- *)

Lemma step_nframes p e p' : step p e = Ok p' -> pi_nframes p' = pi_nframes p.
Proof.
  destruct e as [l|fr c|sl|ts|o|o|u]; cbn [step].
  - intros [= <-]. reflexivity.
  - apply add_cel_nframes.
  - intros [= <-]. reflexivity.
  - intros [= <-]. reflexivity.
  - intros [= <-]. destruct o; reflexivity.
  - intros [= <-]. destruct o; reflexivity.
  - apply add_user_data_nframes.
Qed.

Lemma rfold_nframes evs : forall p p', rfold step evs p = Ok p' -> pi_nframes p' = pi_nframes p.
Proof.
  induction evs as [|e t IH]; intros p p'; cbn [rfold].
  - intros [= <-]. reflexivity.
  - intros H. apply rbind_ok in H. destruct H as (p1 & H1 & H). rewrite (IH _ _ H). eapply step_nframes. exact H1.
Qed.

(* what the history says about the state *)
Lemma cel_of_history n d done p :
  Forall ev_wf done -> rfold step done (pinfo_new n d) = Ok p ->
  forall fr l, option_map cel_erase (cel_of p fr l) = option_map cel_erase (cel_at (flat_map ev_cel done) fr l).
Proof.
  intros Hw Hf fr l.
  assert (ctx_nonneg (pinfo_new n d)) as Hc0 by (intros a b; discriminate).
  rewrite (rfold_cels _ _ _ Hc0 Hw Hf fr l), cel_of_new. reflexivity.
Qed.

(* ---- one step ---- *)

Lemma step_total n d done p e :
  Forall ev_wf done -> rfold step done (pinfo_new n d) = Ok p ->
  ev_ok n done e -> exists p1, step p e = Ok p1.
Proof.
  intros Hw Hf Hok.
  destruct (Inv_final n d done p Hw Hf) as ((WL & WS) & HNL & HNS & HCTX & _).
  pose proof (rfold_nframes _ _ _ Hf) as HNF. cbn [pinfo_new pi_nframes] in HNF.
  pose proof (cel_of_history n d done p Hw Hf) as Hcel.
  destruct e as [l|fr c|sl|ts|o|o|u]; cbn [step ev_ok] in *; try (eexists; reflexivity).
  - (* cel *)
    destruct Hok as (Hfr & Hl & Hfree). unfold add_cel. rewrite HNL.
    destruct (Z.leb_spec (count_layers (rev done)) (cc_layer (c_data c))) as [H|_]; [lia|].
    specialize (Hcel fr (cc_layer (c_data c))). rewrite Hfree in Hcel. cbn [option_map] in Hcel.
    assert (cel_slot (pi_cels p) fr (cc_layer (c_data c)) = None) as Hslot.
    { unfold cel_of in Hcel. destruct (cel_slot (pi_cels p) fr (cc_layer (c_data c))); [discriminate|reflexivity]. }
    rewrite HNF. destruct (table_add_cel_total (pi_cels p) n fr c Hfr ltac:(lia) Hslot) as (t' & ->).
    cbn [rbind]. eexists. reflexivity.
  - (* user data *)
    unfold add_user_data. destruct (pi_ctx p) as [[f1 l1|i| |i|i]|] eqn:Ec; cbn [option_map ctx_entity] in HCTX;
      rewrite <- HCTX in Hok.
    + (* cel *)
      destruct (owner_cel_in _ _ _ (eq_sym HCTX)) as (c & Hin & Hl).
      specialize (Hcel f1 l1).
      assert (cel_at (flat_map ev_cel done) f1 l1 <> None) as Hsome.
      { unfold cel_at. apply in_rev in Hin.
        assert (In (f1, c) (flat_map ev_cel done)) as Hin' by (apply in_flat_map; exists (ECel f1 c); split; [exact Hin|left; reflexivity]).
        pose proof (find_some_in (cel_match f1 l1) _ _ Hin') as Hfs.
        destruct (find (cel_match f1 l1) (flat_map ev_cel done)); [discriminate|].
        exfalso. apply Hfs; [|reflexivity]. unfold cel_match. cbn [fst snd]. rewrite Hl, !Z.eqb_refl. reflexivity. }
      destruct (cel_at (flat_map ev_cel done) f1 l1) as [c0|]; [|contradiction]. cbn [option_map] in Hcel.
      unfold cel_of in Hcel. destruct (cel_slot (pi_cels p) f1 l1) as [c1|] eqn:Es; [|discriminate].
      destruct (cel_slot_set_total _ _ _ u _ Es) as (t' & ->). eexists. reflexivity.
    + (* layer *)
      pose proof (owner_layer_range _ _ (eq_sym HCTX)) as Hi. rewrite WL.
      destruct (upd_rev_total (pi_layers_rev p) i (fun l => set_layer_ud l u) ltac:(lia)) as (ls & ->).
      eexists. reflexivity.
    + eexists. reflexivity.
    + (* tag *)
      destruct Hok as (Hi & Hts). pose proof (owner_tag_nonneg _ _ (eq_sym HCTX)) as Hi0.
      destruct (rfold_shape _ _ _ Hf) as (_ & _ & A3). cbn [pinfo_new pi_tags] in A3. fold (cur_tags done) in A3.
      destruct (cur_tags done) as [ts|]; [|contradiction]. cbn [option_map] in A3.
      destruct (pi_tags p) as [ts'|]; [|discriminate]. cbn [option_map] in A3. injection A3 as A3.
      assert (zlen ts' = zlen ts) as Hlen by (rewrite <- (zlen_map tag_erase ts'), A3; apply zlen_map).
      destruct (nthz_in_range ts' i ltac:(lia)) as (t0 & ->).
      destruct (Z.leb_spec 65535 i) as [H|_]; [lia|]. eexists. reflexivity.
    + (* slice *)
      pose proof (owner_slice_range _ _ (eq_sym HCTX)) as Hi. rewrite WS.
      destruct (upd_rev_total (pi_slices_rev p) i (fun sl => set_slice_ud sl u) ltac:(lia)) as (ss & ->).
      eexists. reflexivity.
    + contradiction.
Qed.

(* THE FOLD SUCCEEDS *)
Lemma fold_total_from n d evs : forall done p,
  Forall ev_wf done -> Forall ev_wf evs ->
  rfold step done (pinfo_new n d) = Ok p -> events_ok n done evs ->
  exists p', rfold step evs p = Ok p'.
Proof.
  induction evs as [|e t IH]; intros done p Hwd Hwe Hf Hok; cbn [rfold events_ok] in *.
  - exists p. reflexivity.
  - destruct Hok as (Hok1 & Hok2). inversion Hwe as [|? ? Hwe1 Hwe2]; subst.
    destruct (step_total n d done p e Hwd Hf Hok1) as (p1 & Hs). rewrite Hs. cbn [rbind].
    apply (IH (done ++ [e]) p1); [apply Forall_app; split; [exact Hwd|constructor; [exact Hwe1|constructor]]|exact Hwe2| |exact Hok2].
    rewrite Factor.rfold_app, Hf. cbn [rbind rfold]. rewrite Hs. reflexivity.
Qed.

Theorem fold_total n d evs :
  Forall ev_wf evs -> events_ok n [] evs -> exists p, rfold step evs (pinfo_new n d) = Ok p.
Proof. intros Hw Hok. apply (fold_total_from n d evs [] _ (Forall_nil _) Hw eq_refl Hok). Qed.

(* ------------------------------------------------------------------ *)
(* 2. validation (sprites without tilesets and tilemaps) *)

Lemma rfold_total_each {A B} (g : B -> A -> res B) l :
  (forall x, In x l -> forall b, exists b', g b x = Ok b') -> forall b, exists b', rfold g l b = Ok b'.
Proof.
  induction l as [|x t IH]; intros H b; cbn [rfold]; [exists b; reflexivity|].
  destruct (H x (or_introl eq_refl) b) as (b1 & ->). cbn [rbind].
  apply IH. intros y Hy. apply H. right. exact Hy.
Qed.

Lemma zelements_zempty {A} : zelements (@zempty A) = [].
Proof. reflexivity. Qed.

(* a cel of the assembled state that validation accepts: image pixels that validate on an
   existing layer; a link to an existing image cel of the same layer in an existing frame *)
Definition cel_valid (h : header) (p : pinfo) (l : Z) (c : cel rawpixels) : Prop :=
  match c_content c with
  | CRaw _ _ rp =>
      0 <= l < zlen (layers_of p) /\
      forall bg, exists px, validate_pixels (pi_palette p) (h_fmt h) bg rp = Ok px
  | CLinked other =>
      0 <= other < pi_nframes p /\ l < pi_nlayers p /\
      exists c', cel_of p other l = Some c' /\ is_linked c' = false
  | CTilemap _ => False
  end.

Lemma validate_cel_total h p tss l c :
  cel_valid h p l c ->
  exists c', validate_cel (arr_of_list (layers_of p)) tss (pi_palette p) (h_fmt h) (pi_cels p)
                          (pi_nframes p) (pi_nlayers p) l c = Ok c'.
Proof.
  unfold cel_valid, validate_cel. destruct (c_content c) as [w hh rp|other|tm].
  - intros (Hl & Hpx). rewrite aget_arr_of_list. destruct (nthz_in_range _ _ Hl) as (l0 & ->).
    destruct (Hpx (layer_is_background l0)) as (px & ->). cbn [rbind]. eexists. reflexivity.
  - intros (Ho & Hl & c' & Hc' & Hnl).
    destruct (Z.ltb_spec other (pi_nframes p)) as [_|H]; [|lia].
    destruct (Z.ltb_spec l (pi_nlayers p)) as [_|H]; [|lia]. cbn [andb].
    unfold table_cel. destruct (Z.ltb_spec other 0) as [H|_]; [lia|].
    destruct (Z.leb_spec (pi_nframes p) other) as [H|_]; [lia|]. cbn [orb].
    unfold cel_of, cel_slot in Hc'. destruct (nthz (get_row (pi_cels p) other) l) as [[c1|]|]; try discriminate.
    injection Hc' as ->. cbn [rbind]. rewrite Hnl. cbn [rbind]. eexists. reflexivity.
  - contradiction.
Qed.

Lemma validate_row_total h p tss : forall r lid,
  0 <= lid ->
  (forall j c, nthz r j = Some (Some c) -> cel_valid h p (lid + j) c) ->
  exists r', validate_row (arr_of_list (layers_of p)) tss (pi_palette p) (h_fmt h) (pi_cels p)
                          (pi_nframes p) (pi_nlayers p) r lid = Ok r'.
Proof.
  induction r as [|oc rest IH]; intros lid Hlid H; cbn [validate_row]; [eexists; reflexivity|].
  assert (exists oc', match oc with
                      | None => Ok None
                      | Some c => c' <-- validate_cel (arr_of_list (layers_of p)) tss (pi_palette p) (h_fmt h) (pi_cels p)
                                                      (pi_nframes p) (pi_nlayers p) lid c ;;; Ok (Some c')
                      end = Ok oc') as (oc' & ->).
  { destruct oc as [c|]; [|eexists; reflexivity].
    destruct (validate_cel_total h p tss lid c) as (c' & ->); [|cbn [rbind]; eexists; reflexivity].
    specialize (H 0 c (nthz_cons_0 _ _)). rewrite Z.add_0_r in H. exact H. }
  cbn [rbind]. destruct (IH (lid + 1) ltac:(lia)) as (rest' & ->); [|cbn [rbind]; eexists; reflexivity].
  intros j c Hj. pose proof (nthz_some _ _ _ Hj) as Hr. replace (lid + 1 + j) with (lid + (j + 1)) by lia.
  apply H. rewrite nthz_cons_succ by lia. exact Hj.
Qed.

Lemma validate_total h p :
  (exists ps, compute_parents (layers_of p) = Ok ps) ->
  pi_tilesets p = zempty ->
  (forall l, In l (layers_of p) -> l_type l <> 2) ->
  (forall fr r, zfind fr (pi_cels p) = Some r -> forall j c, nthz r j = Some (Some c) -> cel_valid h p j c) ->
  exists f, validate h p = Ok f.
Proof.
  intros (ps & Hps) Hts Hty Hcels. unfold validate; rewrite ?frev_eq. fold (layers_of p). rewrite Hps. cbn [rbind].
  rewrite Hts. unfold validate_tilesets. rewrite zelements_zempty. cbn [rfold rbind].
  assert (validate_layers (layers_of p) zempty = Ok tt) as ->.
  { unfold validate_layers.
    assert (forallb (fun l => if l_type l =? 2 then is_some (zfind (l_tileset l) (@zempty (tileset pixels))) else true)
                    (layers_of p) = true) as ->; [|reflexivity].
    apply forallb_forall. intros l Hl. destruct (Z.eqb_spec (l_type l) 2) as [E|_]; [|reflexivity].
    exfalso. exact (Hty l Hl E). }
  cbn [rbind].
  assert (exists cels, validate_cels (arr_of_list (layers_of p)) zempty (pi_palette p) (h_fmt h) (pi_cels p)
                                     (pi_nframes p) (pi_nlayers p) = Ok cels) as (cels & ->);
    [|cbn [rbind]; eexists; reflexivity].
  unfold validate_cels. apply rfold_total_each. intros [k r] Hin acc. cbn [fst snd].
  apply In_zelements_inv in Hin. destruct Hin as (Hk & _).
  destruct (validate_row_total h p zempty r 0 ltac:(lia)) as (r' & ->); [|cbn [rbind]; eexists; reflexivity].
  intros j c Hj. rewrite Z.add_0_l. eapply Hcels; [exact Hk|exact Hj].
Qed.

(* ---- compute_parents looks at the levels only ---- *)

Lemma compute_parents_aux_levels : forall ls ls' id pr acc,
  map l_level ls = map l_level ls' -> compute_parents_aux ls id pr acc = compute_parents_aux ls' id pr acc.
Proof.
  induction ls as [|l t IH]; intros [|l' t'] id pr acc; cbn [map]; try discriminate; [reflexivity|].
  intros [= E1 E2]. cbn [compute_parents_aux]. rewrite E1.
  destruct (if l_level l' =? 0 then Ok None
            else match find_parent pr (l_level l') with Some q => Ok (Some q) | None => Err EInvalid end) as [q|e|s0];
    cbn [rbind]; try reflexivity. apply IH. exact E2.
Qed.

Lemma compute_parents_erased ls ls' :
  map layer_erase ls = map layer_erase ls' -> compute_parents ls = compute_parents ls'.
Proof.
  intros H. apply compute_parents_aux_levels.
  apply (f_equal (map l_level)) in H. rewrite !map_map in H. exact H.
Qed.

(* ---- tilesets ---- *)

Definition ev_no_tileset (e : ev) : Prop := match e with EOther (OTileset _) => False | _ => True end.

Lemma step_tilesets p e p' : ev_no_tileset e -> step p e = Ok p' -> pi_tilesets p' = pi_tilesets p.
Proof.
  destruct e as [l|fr c|sl|ts|o|o|u]; cbn [step ev_no_tileset]; intros Hnt.
  - intros [= <-]. reflexivity.
  - intros H. apply add_cel_ok in H. destruct H as (_ & t & _ & ->). reflexivity.
  - intros [= <-]. reflexivity.
  - intros [= <-]. reflexivity.
  - intros [= <-]. destruct o; reflexivity.
  - intros [= <-]. destruct o; try reflexivity. contradiction.
  - intros H. apply add_user_data_rest in H. apply H.
Qed.

Lemma rfold_tilesets evs : forall p p',
  Forall ev_no_tileset evs -> rfold step evs p = Ok p' -> pi_tilesets p' = pi_tilesets p.
Proof.
  induction evs as [|e t IH]; intros p p' Hnt; cbn [rfold].
  - intros [= <-]. reflexivity.
  - intros H. apply rbind_ok in H. destruct H as (p1 & H1 & H). inversion Hnt as [|? ? Hn1 Hn2]; subst.
    rewrite (IH _ _ Hn2 H). eapply step_tilesets; [exact Hn1|exact H1].
Qed.

(* ---- a cel names a layer declared before it ---- *)

Lemma events_ok_split n a : forall done e b, events_ok n done (a ++ e :: b) -> ev_ok n (done ++ a) e.
Proof.
  induction a as [|x t IH]; intros done e b; cbn [app events_ok].
  - intros (H & _). rewrite app_nil_r. exact H.
  - intros (_ & H). apply IH in H. rewrite <- app_assoc in H. exact H.
Qed.

Lemma count_layers_flat evs : count_layers evs = zlen (flat_map ev_layer evs).
Proof.
  induction evs as [|e t IH]; cbn [count_layers flat_map]; [reflexivity|].
  destruct e; cbn [ev_layer app]; rewrite ?zlen_cons; lia.
Qed.

Lemma cel_layer_declared n evs fr c :
  events_ok n [] evs -> In (fr, c) (flat_map ev_cel evs) ->
  0 <= cc_layer (c_data c) < zlen (flat_map ev_layer evs).
Proof.
  intros Hok Hin. apply in_flat_map in Hin. destruct Hin as (e & He & Hin).
  destruct e as [l|f0 c0|sl|ts|o|o|u]; cbn [ev_cel] in Hin; try contradiction.
  destruct Hin as [[= -> ->]|[]].
  apply in_split in He. destruct He as (a & b & ->). apply events_ok_split in Hok. cbn [app ev_ok] in Hok.
  destruct Hok as (_ & Hl & _). rewrite count_layers_rev in Hl.
  rewrite <- count_layers_flat, count_layers_app. pose proof (count_layers_nonneg (ECel fr c :: b)). lia.
Qed.

(* ------------------------------------------------------------------ *)
(* 3. programs that load *)

Definition cel_prog_ok (s : sprite_prog) (c : cel rawpixels) : Prop :=
  match c_content c with
  | CRaw _ _ rp => forall bg, exists px, validate_pixels (prog_palette s) (prog_fmt s) bg rp = Ok px
  | CLinked other =>
      0 <= other < zlen (sp_frames s) /\
      exists c', cel_at (prog_cels s) other (cc_layer (c_data c)) = Some c' /\ is_linked c' = false
  | CTilemap _ => False
  end.

(* the sprite-level conditions: the events can be processed (events_ok); no tilesets, tilemap
   layers or tilemap cels; every child layer has a parent candidate; image pixels validate
   against the final palette (always, for RGBA and grayscale); links point at image cels *)
Definition sprite_ok (s : sprite_prog) : Prop :=
  events_ok (hf_frames (sp_header s)) [] (events_of s) /\
  Forall ev_no_tileset (events_of s) /\
  (forall l, In l (prog_layers s) -> l_type l <> 2) /\
  (exists ps, compute_parents (prog_layers s) = Ok ps) /\
  (forall fr c, In (fr, c) (prog_cels s) -> cel_prog_ok s c).

Lemma cel_erase_content c c0 :
  Some (cel_erase c) = Some (cel_erase c0) -> c_content c = c_content c0 /\ c_data c = c_data c0.
Proof. unfold cel_erase. intros [= H1 H2]. split; assumption. Qed.

Lemma prog_cels_events s : flat_map ev_cel (events_of s) = prog_cels s.
Proof. unfold events_of, prog_cels, mapi. apply frames_events_cels. Qed.

Lemma prog_layers_events s : flat_map ev_layer (events_of s) = prog_layers s.
Proof. unfold events_of, prog_layers. apply frames_events_layers. Qed.

Section Total.
Variable inflate : list Z -> Z -> zres.

(* THE TOTALITY THEOREM *)
Theorem load_serialize_total s tail :
  wf_prog s -> inflate_ok inflate s -> sprite_ok s ->
  exists f, load inflate (serialize s ++ tail) = Ok f.
Proof.
  intros Hwf Hz (Hev & Hnt & Hty & Hpar & Hcels).
  rewrite load_serialize by assumption.
  pose proof (events_of_wf s Hwf) as Hw.
  set (n := hf_frames (sp_header s)) in *. set (d := hf_default_time (sp_header s)).
  destruct (fold_total n d (events_of s) Hw Hev) as (p & Hf). rewrite Hf. cbn [rbind].
  destruct (Inv_final n d _ p Hw Hf) as ((WL & _) & _).
  destruct (rfold_shape _ _ _ Hf) as (Hlay & _). cbn [pinfo_new] in Hlay.
  change (layers_of (pinfo_new n d)) with (@nil layer) in Hlay. cbn [map app] in Hlay.
  rewrite prog_layers_events in Hlay.
  assert (zlen (layers_of p) = zlen (prog_layers s)) as Hnl
    by (rewrite <- (zlen_map layer_erase (layers_of p)), Hlay; apply zlen_map).
  assert (pi_nlayers p = zlen (prog_layers s)) as Hnl' by (rewrite WL, <- Hnl; unfold layers_of; symmetry; apply zlen_rev).
  pose proof (rfold_nframes _ _ _ Hf) as Hnf. cbn [pinfo_new pi_nframes] in Hnf.
  assert (n = zlen (sp_frames s)) as Hn by (destruct Hwf as (_ & _ & E & _); exact E).
  pose proof (rfold_pal _ _ _ Hf) as Hpal. cbn [pinfo_new pi_palette] in Hpal.
  assert (pi_palette p = prog_palette s) as Hpal'
    by (rewrite Hpal; unfold events_of, prog_palette; apply (frames_events_pal (prog_fmt s) (sp_frames s) 0 None)).
  pose proof (cel_of_history n d _ p Hw Hf) as Hcel. rewrite prog_cels_events in Hcel.
  apply validate_total.
  - rewrite (compute_parents_erased _ _ Hlay). exact Hpar.
  - rewrite (rfold_tilesets _ _ _ Hnt Hf). reflexivity.
  - intros l Hl. apply (in_map layer_erase) in Hl. rewrite Hlay in Hl. apply in_map_iff in Hl.
    destruct Hl as (l0 & E & Hl0). specialize (Hty l0 Hl0).
    replace (l_type l) with (l_type (layer_erase l)) by reflexivity. rewrite <- E. exact Hty.
  - intros fr r Hr j c Hj.
    assert (cel_of p fr j = Some c) as Hc by (unfold cel_of, cel_slot, get_row; rewrite Hr, Hj; reflexivity).
    pose proof (Hcel fr j) as H1. rewrite Hc in H1. cbn [option_map] in H1.
    unfold cel_at in H1. destruct (find (cel_match fr j) (prog_cels s)) as [[fr0 c0]|] eqn:Efind; [|discriminate].
    cbn [option_map snd] in H1. apply cel_erase_content in H1. destruct H1 as (Hcont & _).
    apply find_some in Efind. destruct Efind as (Hin & Hm). unfold cel_match in Hm. cbn [fst snd] in Hm.
    apply andb_prop in Hm. destruct Hm as (M1 & M2). apply Z.eqb_eq in M1. apply Z.eqb_eq in M2. subst fr0.
    pose proof (Hcels fr c0 Hin) as Hok. unfold cel_prog_ok in Hok. unfold cel_valid. rewrite Hcont.
    assert (0 <= j < zlen (prog_layers s)) as Hjl.
    { rewrite <- M2, <- prog_layers_events. apply (cel_layer_declared n (events_of s) fr c0 Hev).
      rewrite prog_cels_events. exact Hin. }
    destruct (c_content c0) as [w hh rp|other|tm]; [| |contradiction].
    + split; [lia|]. rewrite Hpal'. exact Hok.
    + destruct Hok as (Ho & c' & Hc' & Hnl0). split; [lia|]. split; [lia|].
      pose proof (Hcel other j) as H2. rewrite M2 in Hc'. unfold cel_at in Hc' |- *.
      unfold cel_at in H2. destruct (find (cel_match other j) (prog_cels s)) as [[fr1 c1]|]; [|discriminate].
      cbn [option_map snd] in Hc', H2. injection Hc' as ->.
      destruct (cel_of p other j) as [c2|]; [|discriminate]. cbn [option_map] in H2.
      apply cel_erase_content in H2. destruct H2 as (Hcont2 & _).
      exists c2. split; [reflexivity|]. unfold is_linked in *. rewrite Hcont2. exact Hnl0.
Qed.

End Total.

(* the parents condition, declaratively (Proofs/Layers.v): no orphan layer; in particular a
   forest-shaped level sequence *)
Lemma parents_condition_no_orphan s : ~ orphan (prog_layers s) -> exists ps, compute_parents (prog_layers s) = Ok ps.
Proof. apply parents_ok_iff. Qed.
Lemma parents_condition_forest s : forest (prog_layers s) -> exists ps, compute_parents (prog_layers s) = Ok ps.
Proof. apply parents_total. Qed.

(* RGBA and grayscale pixels always validate *)
Lemma validate_pixels_rgba pal fmt bg l : exists px, validate_pixels pal fmt bg (RPRgba l) = Ok px.
Proof. eexists. reflexivity. Qed.
Lemma validate_pixels_gray pal fmt bg l : exists px, validate_pixels pal fmt bg (RPGray l) = Ok px.
Proof. eexists. reflexivity. Qed.

(* ------------------------------------------------------------------ *)
(* the example program of Proofs/EndToEnd.v satisfies the conditions *)

Example ex_sprite_ok : sprite_ok Example.ex_prog.
Proof.
  split; [|split; [|split; [|split]]].
  - wf_go.
  - wf_go.
  - intros l Hl. vm_compute in Hl. destruct Hl as [<-|[<-|[<-|[]]]]; vm_compute; discriminate.
  - eexists. vm_compute. reflexivity.
  - intros fr c Hin. vm_compute in Hin. destruct Hin as [[= <- <-]|[[= <- <-]|[]]].
    + intros bg. eexists. reflexivity.
    + split; [vm_compute; split; [discriminate|reflexivity]|]. eexists. split; [vm_compute; reflexivity|reflexivity].
Qed.

Example ex_loads_by_theorem tail : exists f, load no_inflate (serialize Example.ex_prog ++ tail) = Ok f.
Proof. exact (load_serialize_total no_inflate Example.ex_prog tail Example.ex_wf Example.ex_inflate_ok ex_sprite_ok). Qed.

(* ------------------------------------------------------------------ *)
(* THE HEADLINE: a well-formed program of a well-formed sprite loads, and the loaded sprite
   reports what the program encodes *)
Theorem e2e_headline (inflate : list Z -> Z -> zres) s tail :
  wf_prog s -> inflate_ok inflate s -> sprite_ok s ->
  exists f,
    load inflate (serialize s ++ tail) = Ok f /\
    f_width f = hf_width (sp_header s) /\ f_height f = hf_height (sp_header s) /\
    f_nframes f = zlen (sp_frames s) /\ header_fmt (sp_header s) = Some (f_fmt f) /\
    (forall i fr, nthz (sp_frames s) i = Some fr -> frame_duration f i = Ok (fp_duration fr)) /\
    arr_to_list (f_layers f)
      = mapi (fun i l => layer_with_ud l (window (rev (events_of s)) (EntLayer i))) (prog_layers s) /\
    f_tags f = mapi (fun i t => tag_with_ud t (window (rev (events_of s)) (EntTag i))) (prog_tags s) /\
    f_slices f = mapi (fun i sl => slice_with_ud sl (window (rev (events_of s)) (EntSlice i))) (prog_slices s) /\
    f_ext f = fold_left bind_ext (prog_ext s) zempty /\
    f_palette f = prog_palette s /\
    (forall fr l,
       match cel_at (prog_cels s) fr l with
       | Some c => exists c', fcel_of f fr l = Some c' /\ c_data c' = c_data c /\
                              c_ud c' = window (rev (events_of s)) (EntCel fr l)
       | None => fcel_of f fr l = None
       end).
Proof.
  intros Hwf Hz Hok. destruct (load_serialize_total inflate s tail Hwf Hz Hok) as (f & Hf).
  exists f. split; [exact Hf|].
  destruct (e2e_canvas inflate s tail f Hwf Hz Hf) as (C1 & C2 & C3 & C4).
  split; [exact C1|]. split; [exact C2|]. split; [exact C3|]. split; [exact C4|].
  split; [exact (e2e_durations inflate s tail f Hwf Hz Hf)|].
  split; [exact (e2e_layers_in_order inflate s tail f Hwf Hz Hf)|].
  split; [exact (e2e_tags_in_order inflate s tail f Hwf Hz Hf)|].
  split; [exact (e2e_slices_in_order inflate s tail f Hwf Hz Hf)|].
  split; [exact (e2e_external inflate s tail f Hwf Hz Hf)|].
  split; [exact (e2e_palette inflate s tail f Hwf Hz Hf)|].
  exact (e2e_cels inflate s tail f Hwf Hz Hf).
Qed.
