(* corollaries of the schedule / fault theorems combined with the no-panic theorem of the loader *)
From Ase Require Import Proofs.SchedProofs Proofs.NoPanicLoad.

(* two readers that deliver the same bytes without a hard error give the same result *)
Theorem sched_load_agree (inflate : list Z -> Z -> zres) (data : list Z) (s1 s2 : list ev) :
  no_hard s1 -> no_hard s2 -> run_sched_load inflate data s1 = run_sched_load inflate data s2.
Proof. intros H1 H2. rewrite (run_sched_load_indep inflate data s1 H1), (run_sched_load_indep inflate data s2 H2). reflexivity. Qed.

(* whatever the reader does (short reads, interruptions, hard errors anywhere): never a panic *)
Theorem sched_load_no_panic (inflate : list Z -> Z -> zres) (data : list Z) (sched : list ev) (s : Z) :
  Forall is_byte data -> run_sched_load inflate data sched <> Panic s.
Proof.
  intros Hb. destruct (proj1 (fault_event_thm inflate data sched)) as [E|(k & _ & E)]; rewrite E.
  - apply load_no_panic. exact Hb.
  - discriminate.
Qed.

Theorem fault_load_no_panic (inflate : list Z -> Z -> zres) (data : list Z) (limit : nat) (kind s : Z) :
  Forall is_byte data -> run_fault_load inflate data (Z.of_nat limit) kind <> Panic s.
Proof.
  intros Hb. destruct (proj1 (fault_offset_thm inflate data limit kind)) as [E|E]; rewrite E.
  - apply load_no_panic. exact Hb.
  - discriminate.
Qed.

(* a sprite obtained through a faulty reader is the sprite of the plain load: an I/O error never
   produces a different sprite *)
Theorem sched_load_ok_same (inflate : list Z -> Z -> zres) (data : list Z) (sched : list ev) (f : file) :
  run_sched_load inflate data sched = Ok f -> load inflate data = Ok f.
Proof.
  intros H. destruct (proj1 (fault_event_thm inflate data sched)) as [E|(k & _ & E)]; rewrite E in H.
  - exact H.
  - discriminate.
Qed.
